(* C12, the deterministic skeleton of the discrete SIS chain: basic_discrete_SIS under table
   rules [det_rules tt pick] (for SIS the third argument of tt is the STEP index k) is the pure
   generation sequence
       J_0 = canon g i0,
       J_{k+1} = {v in G | v not in J_k, exists u in J_k, v neighbour of u, tt u v k = true}
   (every infectious node is susceptible again after one step; it can be re-infected at the next
   step but not at the same step), stopped at the first k with J_k empty or tq k >= tmax:
   rows (tq k, [N - |J_k|; |J_k|]), node histories S at tq (k+1) iff v in J_k, I at tq (k+1) iff
   v in J_{k+1}; whatever the iteration order, both return modes; for every fuel the run returns
   iff the first stop index is within the fuel. *)
From EoNV Require Import Prelude Samp Graph Discrete DiscreteP DiscreteRun DiscreteOrd DiscreteOrdR DiscreteC05.
From Coq Require Import Permutation Lqa.

Section SisGen.
Variable g : graph.
Variable tt : node -> node -> nat -> bool.
Variable i0 : list node.
Variable tmin : Q.
Variable tmax : xtime.
Variable full : bool.

Fixpoint Js (k : nat) : list node :=
  match k with
  | O => canon g i0
  | S k' => let J := Js k' in
            filter (fun v => negb (mem v J) && hit g (fun u w => tt u w k') J v) (gnodes g)
  end.

Definition srow (k : nat) : row := (tq tmin k, [(order g - lenZ (Js k))%Z; lenZ (Js k)]).
Fixpoint rows_s (k : nat) : list row :=
  match k with
  | O => [(tmin, [(order g - lenZ i0)%Z; lenZ i0])]
  | S k' => srow (S k') :: rows_s k'
  end.

Fixpoint events_s (k : nat) (v : node) : list (Q * N) :=
  match k with
  | O => []
  | S k' => events_s k' v ++
      (if full && le_x (tq tmin (S k')) tmax then
         (if mem v (Js k') then [(tq tmin (S k'), stS)] else []) ++
         (if mem v (Js (S k')) then [(tq tmin (S k'), stI)] else [])
       else [])
  end.

Definition stops (k : nat) : bool := negb (nonempty (Js k) && xlt (tq tmin k) tmax).
Definition first_stop_s (K : nat) : Prop := (forall j, (j < K)%nat -> stops j = false) /\ stops K = true.
Definition hist_s (K : nat) : list (node * history) :=
  map (fun u => (u, (tmin, init_status i0 [] u) :: events_s K u)) (gnodes g).

Lemma Js_S : forall k, Js (S k) =
  filter (fun v => negb (mem v (Js k)) && hit g (fun u w => tt u w k) (Js k) v) (gnodes g).
Proof. reflexivity. Qed.

Hypothesis Hnd : NoDup (gnodes g).
Hypothesis Hi0 : forall v, In v i0 -> In v (gnodes g).
Hypothesis Hi0nd : NoDup i0.

Lemma Js_sub : forall k v, In v (Js k) -> In v (gnodes g).
Proof.
  intros [|k] v H.
  - cbn [Js] in H. apply canon_In in H. apply H.
  - rewrite Js_S in H. apply filter_In in H. apply H.
Qed.

Lemma Js_NoDup : forall k, NoDup (Js k).
Proof. intros [|k]; [cbn [Js]; unfold canon|rewrite Js_S]; apply NoDup_filter; exact Hnd. Qed.

Lemma Js_0 : forall v, In v (Js O) <-> In v i0.
Proof. intro v. cbn [Js]. rewrite canon_In. split; [tauto|]. intro H. split; [apply Hi0; exact H|exact H]. Qed.

(* the next generation: not infectious now, hit by a currently infectious neighbour at step k *)
Lemma Js_spec : forall k v, In v (Js (S k)) <->
  In v (gnodes g) /\ ~ In v (Js k) /\ exists u, In u (Js k) /\ In v (gadj g u) /\ tt u v k = true.
Proof.
  intros k v. rewrite Js_S, filter_In, andb_true_iff, negb_true_iff, dmem_false, hit_spec. tauto.
Qed.

Lemma Js_disj : forall k v, In v (Js (S k)) -> ~ In v (Js k).
Proof. intros k v H. apply Js_spec in H. apply H. Qed.

Lemma len_Js0 : lenZ (Js O) = lenZ i0.
Proof. cbn [Js]. unfold lenZ. rewrite (NoDup_length_canon g i0 Hnd Hi0nd Hi0). reflexivity. Qed.

Lemma Js_le : forall k, (0 <= lenZ (Js k) <= order g)%Z.
Proof.
  intro k. unfold lenZ, order. split; [lia|]. apply inj_le.
  apply NoDup_incl_length; [apply Js_NoDup|]. intros v Hv. apply (Js_sub k). exact Hv.
Qed.

Lemma rows_s_spec : forall K, rev (rows_s K) = map srow (seq 0 (S K)).
Proof.
  induction K as [|K IH].
  - cbn [rows_s rev app seq map]. unfold srow. cbn [tq]. rewrite len_Js0. reflexivity.
  - cbn [rows_s rev]. rewrite IH. rewrite (seq_S (S K) 0), map_app. reflexivity.
Qed.

Lemma events_s_spec : forall K v e, In e (events_s K v) <->
  exists k, (k < K)%nat /\ full && le_x (tq tmin (S k)) tmax = true /\
    ((e = (tq tmin (S k), stS) /\ In v (Js k)) \/ (e = (tq tmin (S k), stI) /\ In v (Js (S k)))).
Proof.
  induction K as [|K IH]; intros v e.
  - cbn. split; [intros []|intros [k [Hk _]]; lia].
  - cbn [events_s]. rewrite in_app_iff, IH. split.
    + intros [[k [Hk H]]|H].
      * exists k. split; [lia|exact H].
      * exists K. split; [lia|]. destruct (full && le_x (tq tmin (S K)) tmax); [|destruct H].
        split; [reflexivity|]. apply in_app_or in H. destruct H as [H|H].
        -- left. destruct (mem v (Js K)) eqn:E; [|destruct H]. destruct H as [H|[]]. split; [symmetry; exact H|apply dmem_In; exact E].
        -- right. destruct (mem v (Js (S K))) eqn:E; [|destruct H]. destruct H as [H|[]]. split; [symmetry; exact H|apply dmem_In; exact E].
    + intros [k [Hk [Hg H]]]. destruct (Nat.eq_dec k K) as [E|E].
      * subst k. right. rewrite Hg. apply in_or_app. destruct H as [[He Hin]|[He Hin]].
        -- left. apply dmem_In in Hin. rewrite Hin. left. symmetry. exact He.
        -- right. apply dmem_In in Hin. rewrite Hin. left. symmetry. exact He.
      * left. exists k. split; [lia|]. split; assumption.
Qed.

Lemma first_stop_s_unique : forall K K', first_stop_s K -> first_stop_s K' -> K = K'.
Proof.
  intros K K' [H1 H2] [H1' H2']. destruct (Nat.lt_trichotomy K K') as [L|[E|L]]; [|exact E|].
  - rewrite (H1' K L) in H2. discriminate.
  - rewrite (H1 K' L) in H2'. discriminate.
Qed.

(* a stop index bounds the first stop index *)
Lemma first_stop_s_exists : forall n, stops n = true -> exists K, (K <= n)%nat /\ first_stop_s K.
Proof.
  assert (A : forall n, (forall j, (j < n)%nat -> stops j = false) \/ exists K, (K < n)%nat /\ first_stop_s K).
  { induction n as [|n [IH|[K [HK HF]]]].
    - left. intros j Hj. lia.
    - destruct (stops n) eqn:E.
      + right. exists n. split; [lia|]. split; assumption.
      + left. intros j Hj. destruct (Nat.eq_dec j n) as [Ej|Ej]; [subst j; exact E|apply IH; lia].
    - right. exists K. split; [lia|exact HF]. }
  intros n Hn. destruct (A n) as [H|[K [HK HF]]].
  - exists n. split; [lia|]. split; assumption.
  - exists K. split; [lia|exact HF].
Qed.

(* a finite horizon of n whole steps: at most n steps *)
Lemma horizon_stop : forall n m, tmax = Some m -> m == tmin + inject_Z (Z.of_nat n) ->
  exists K, (K <= n)%nat /\ first_stop_s K.
Proof.
  intros n m Et Em. apply first_stop_s_exists. unfold stops. rewrite Et. unfold xlt.
  destruct (Qlt_le_dec (tq tmin n) m) as [L|L]; [|rewrite andb_false_r; reflexivity].
  exfalso. rewrite (tq_spec tmin n), Em in L. apply (Qlt_irrefl _ L).
Qed.

(* ---------------- the run ---------------- *)
Variable pick : nat -> node -> nat.

Record sgi (k : nat) (s : sst) : Prop := {
  sg_infs : s_infs s = Js k;
  sg_rows : s_rows s = rows_s k;
  sg_hist : forall v, node_events v (rev (s_hlog s)) = events_s k v
}.

Lemma init_sgi : sgi O (sis_init g tmin full i0).
Proof. constructor; cbn [sis_init s_infs s_rows s_hlog]; [reflexivity|reflexivity|intro v; reflexivity]. Qed.

Section WithOrd.
Variable ord : nat -> list node -> list node.
Hypothesis Hord : forall k l, Permutation (ord k l) l.

Lemma step_sgi : forall k s, sgi k s ->
  exists s', sis_step g (det_rules tt pick) ord tmax full k (tq tmin k) s = Ret s' /\ sgi (S k) s'.
Proof.
  intros k s [Hinfs Hrows Hhist]. unfold sis_step. rewrite sis_cloop_fold. cbn [bind].
  set (us := ord k (s_infs s)).
  assert (Pus : Permutation us (Js k)) by (unfold us; rewrite Hinfs; apply Hord).
  assert (Hus : forall v, mem v us = mem v (Js k)) by (intro v; apply mem_perm; exact Pus).
  assert (Husnd : NoDup us) by (apply (Permutation_NoDup (Permutation_sym Pus)); apply Js_NoDup).
  assert (I0 : sinv [] []) by (split; [constructor|split; [reflexivity|constructor]]).
  pose proof (sfold_inv tt k (s_infs s) (contacts g us) [] [] (l_q (s_logs s)) I0) as [_ [_ Hf]].
  assert (Hnew : forall w, mem w (p_new (sfold tt k (s_infs s) (contacts g us) [] [] (l_q (s_logs s)))) =
                           negb (mem w (Js k)) && hit g (fun u v => tt u v k) (Js k) w).
  { intro w. rewrite sfold_new. cbn [mem existsb orb]. rewrite Hinfs. f_equal.
    rewrite <- hitc_sel, hitc_contacts. apply hit_perm. exact Pus. }
  destruct (sfold tt k (s_infs s) (contacts g us) [] [] (l_q (s_logs s))) as [[new inf] q].
  unfold p_new, p_inf in Hf, Hnew. cbn [fst snd] in Hf, Hnew.
  assert (Hp : exists tp, (if full then picks (det_rules tt pick) k (tq tmin k) inf (s_tlog s) (l_p (s_logs s))
                           else Ret (s_tlog s, l_p (s_logs s))) = Ret tp).
  { destruct full; [apply picks_det; exact Hf|eexists; reflexivity]. }
  destruct Hp as [tp Hp]. rewrite Hp. cbn [bind].
  assert (Hcanon : canon g new = Js (S k)).
  { rewrite Js_S. unfold canon. apply filter_ext. intro v. apply Hnew. }
  rewrite Hcanon. eexists. split; [reflexivity|].
  constructor; cbn [s_infs s_rows s_hlog].
  - reflexivity.
  - cbn [rows_s]. unfold srow. cbn [tq]. rewrite Hrows. reflexivity.
  - intro v. cbn [events_s tq]. rewrite <- Hhist.
    destruct (full && le_x (tq tmin k + 1) tmax); [|rewrite app_nil_r; reflexivity].
    rewrite !rev_app_distr, !rev_involutive, <- app_assoc. rewrite !node_events_app.
    rewrite node_events_map by exact Husnd.
    rewrite node_events_map by apply Js_NoDup.
    rewrite Hus. reflexivity.
Qed.

Lemma sis_loop_gen : forall fuel k s, sgi k s ->
  (sis_loop g (det_rules tt pick) ord tmin tmax full i0 fuel k (tq tmin k) s = Fail OutOfFuel /\
   forall j, (k <= j <= k + fuel)%nat -> stops j = false) \/
  exists K sK, (k <= K <= k + fuel)%nat /\ (forall j, (k <= j < K)%nat -> stops j = false) /\ stops K = true /\
    sgi K sK /\
    sis_loop g (det_rules tt pick) ord tmin tmax full i0 fuel k (tq tmin k) s = Ret (sis_finish g tmin full i0 sK).
Proof.
  induction fuel as [|fu IH]; intros k s Hs; cbn [sis_loop]; rewrite (sg_infs k s Hs);
    destruct (nonempty (Js k) && xlt (tq tmin k) tmax) eqn:Ec.
  - left. split; [reflexivity|]. intros j Hj. assert (j = k) by lia. subst j. unfold stops. rewrite Ec. reflexivity.
  - right. exists k, s. split; [lia|]. split; [intros j Hj; lia|]. split; [unfold stops; rewrite Ec; reflexivity|].
    split; [exact Hs|reflexivity].
  - destruct (step_sgi k s Hs) as [s' [Hstep Hs']]. rewrite Hstep. cbn [bind].
    change (tq tmin k + 1) with (tq tmin (S k)).
    assert (Ek : stops k = false) by (unfold stops; rewrite Ec; reflexivity).
    destruct (IH (S k) s' Hs') as [[E Hj]|[K [sK [HK [Hj [HsK [HiK Hrun]]]]]]].
    + left. split; [exact E|]. intros j Hjr. destruct (Nat.eq_dec j k) as [Ej|Ej]; [subst j; exact Ek|apply Hj; lia].
    + right. exists K, sK. split; [lia|]. split.
      { intros j Hjr. destruct (Nat.eq_dec j k) as [Ej|Ej]; [subst j; exact Ek|apply Hj; lia]. }
      split; [exact HsK|]. split; [exact HiK|exact Hrun].
  - right. exists k, s. split; [lia|]. split; [intros j Hj; lia|]. split; [unfold stops; rewrite Ec; reflexivity|].
    split; [exact Hs|reflexivity].
Qed.

Lemma dsis_from_gen : forall fuel,
  (sis_loop g (det_rules tt pick) ord tmin tmax full i0 fuel O tmin (sis_init g tmin full i0) = Fail OutOfFuel /\
   forall j, (j <= fuel)%nat -> stops j = false) \/
  exists K out, first_stop_s K /\ (K <= fuel)%nat /\
    sis_loop g (det_rules tt pick) ord tmin tmax full i0 fuel O tmin (sis_init g tmin full i0) = Ret out /\
    so_rows (o_sim out) = map srow (seq 0 (S K)) /\
    (if full then exists tr, so_full (o_sim out) = Some (mkFull (hist_s K) tr)
     else so_full (o_sim out) = None).
Proof.
  intro fuel. destruct (sis_loop_gen fuel O (sis_init g tmin full i0) init_sgi) as [[E Hj]|[K [sK [HK [Hj [Hst [Hinv Hrun]]]]]]].
  - left. split; [exact E|]. intros j Hjr. apply Hj. lia.
  - right. exists K, (sis_finish g tmin full i0 sK). split; [split; [intros j Hj'; apply Hj; lia|exact Hst]|].
    split; [lia|]. split; [exact Hrun|]. unfold sis_finish. cbn [o_sim so_rows so_full]. split.
    + rewrite (sg_rows K sK Hinv). apply rows_s_spec.
    + assert (Hh : build_hist g tmin i0 [] (s_hlog sK) = hist_s K).
      { unfold build_hist, hist_s. apply map_ext. intro u. rewrite (sg_hist K sK Hinv). reflexivity. }
      rewrite Hh. destruct full; [eexists; reflexivity|reflexivity].
Qed.

End WithOrd.
End SisGen.

(* ------------------------------------------------------------------ *)
(* statements over boolean well-formedness                              *)

Theorem dsis_gen : forall g tt pick ord i0 tmin tmax full fuel,
  wf_inputb g i0 [] = true -> perm_oracle ord ->
  (basic_discrete_SIS_R g (det_rules tt pick) ord (Some i0) None tmin tmax full fuel = Fail OutOfFuel /\
   forall j, (j <= fuel)%nat -> stops g tt i0 tmin tmax j = false) \/
  exists K out, first_stop_s g tt i0 tmin tmax K /\ (K <= fuel)%nat /\
    basic_discrete_SIS_R g (det_rules tt pick) ord (Some i0) None tmin tmax full fuel = Ret out /\
    so_rows (o_sim out) = map (srow g tt i0 tmin) (seq 0 (S K)) /\
    (if full then exists tr, so_full (o_sim out) = Some (mkFull (hist_s g tt i0 tmin tmax full K) tr)
     else so_full (o_sim out) = None).
Proof.
  intros g tt pick ord i0 tmin tmax full fuel Hwf Hord.
  destruct (wf_input_props g i0 [] Hwf) as [Hnd [Hadj [Hi0 [Hr0 [Hi0nd [Hr0nd Hdisj]]]]]].
  exact (dsis_from_gen g tt i0 tmin tmax full Hnd Hi0 Hi0nd pick ord Hord fuel).
Qed.

Theorem dsis_gen_ret : forall g tt pick ord i0 tmin tmax full fuel out,
  wf_inputb g i0 [] = true -> perm_oracle ord ->
  basic_discrete_SIS_R g (det_rules tt pick) ord (Some i0) None tmin tmax full fuel = Ret out ->
  exists K, first_stop_s g tt i0 tmin tmax K /\ (K <= fuel)%nat /\
    so_rows (o_sim out) = map (srow g tt i0 tmin) (seq 0 (S K)) /\
    (if full then exists tr, so_full (o_sim out) = Some (mkFull (hist_s g tt i0 tmin tmax full K) tr)
     else so_full (o_sim out) = None).
Proof.
  intros g tt pick ord i0 tmin tmax full fuel out Hwf Hord Hrun.
  destruct (dsis_gen g tt pick ord i0 tmin tmax full fuel Hwf Hord) as [[E _]|[K [o [Hst [HK [Hr [Hrows Hh]]]]]]].
  - rewrite Hrun in E. discriminate.
  - rewrite Hrun in Hr. injection Hr as Hr. subst o. exists K. repeat split; try assumption; apply Hst.
Qed.

Theorem dsis_enough_fuel : forall g tt pick ord i0 tmin tmax full fuel K,
  wf_inputb g i0 [] = true -> perm_oracle ord ->
  first_stop_s g tt i0 tmin tmax K -> (K <= fuel)%nat ->
  exists out, basic_discrete_SIS_R g (det_rules tt pick) ord (Some i0) None tmin tmax full fuel = Ret out.
Proof.
  intros g tt pick ord i0 tmin tmax full fuel K Hwf Hord Hst HK.
  destruct (dsis_gen g tt pick ord i0 tmin tmax full fuel Hwf Hord) as [[_ Hj]|[K' [o [_ [_ [Hr _]]]]]].
  - destruct Hst as [_ Hst]. rewrite (Hj K HK) in Hst. discriminate.
  - exists o. exact Hr.
Qed.

(* a finite horizon tmax = tmin + n: the run makes at most n steps, fuel n suffices *)
Theorem dsis_horizon : forall g tt pick ord i0 tmin m full fuel n,
  wf_inputb g i0 [] = true -> perm_oracle ord ->
  m == tmin + inject_Z (Z.of_nat n) -> (n <= fuel)%nat ->
  exists K out, (K <= n)%nat /\ first_stop_s g tt i0 tmin (Some m) K /\
    basic_discrete_SIS_R g (det_rules tt pick) ord (Some i0) None tmin (Some m) full fuel = Ret out.
Proof.
  intros g tt pick ord i0 tmin m full fuel n Hwf Hord Em Hn.
  destruct (horizon_stop g tt i0 tmin (Some m) n m eq_refl Em) as [K [HK Hst]].
  destruct (dsis_enough_fuel g tt pick ord i0 tmin (Some m) full fuel K Hwf Hord Hst) as [out Hr]; [lia|].
  exists K, out. split; [exact HK|]. split; [exact Hst|exact Hr].
Qed.

(* the meaning of the sequence *)
Theorem sis_gen_meaning : forall g tt i0, wf_inputb g i0 [] = true -> forall k v,
  (In v (Js g tt i0 O) <-> In v i0) /\
  (In v (Js g tt i0 (S k)) <->
     In v (gnodes g) /\ ~ In v (Js g tt i0 k) /\
     exists u, In u (Js g tt i0 k) /\ In v (gadj g u) /\ tt u v k = true) /\
  NoDup (Js g tt i0 k) /\ (0 <= lenZ (Js g tt i0 k) <= order g)%Z.
Proof.
  intros g tt i0 Hwf k v.
  destruct (wf_input_props g i0 [] Hwf) as [Hnd [Hadj [Hi0 [Hr0 [Hi0nd [Hr0nd Hdisj]]]]]].
  split; [apply Js_0; assumption|]. split; [apply Js_spec|]. split; [apply Js_NoDup; exact Hnd|apply Js_le; exact Hnd].
Qed.

Theorem sis_rows_meaning : forall g tt i0 tmin K,
  length (map (srow g tt i0 tmin) (seq 0 (S K))) = S K /\
  forall k, (k <= K)%nat ->
    nth_error (map (srow g tt i0 tmin) (seq 0 (S K))) k =
      Some (tq tmin k, [(order g - lenZ (Js g tt i0 k))%Z; lenZ (Js g tt i0 k)]).
Proof.
  intros g tt i0 tmin K. split; [rewrite map_length, seq_length; reflexivity|]. intros k Hk.
  rewrite nth_error_map. rewrite (nth_error_nth' (seq 0 (S K)) O) by (rewrite seq_length; lia).
  rewrite seq_nth by lia. reflexivity.
Qed.

Theorem sis_guard_whole_steps : forall g tt i0 tmin tmax K k,
  whole_steps tmin tmax -> first_stop_s g tt i0 tmin tmax K -> (k < K)%nat ->
  le_x (tq tmin (S k)) tmax = true.
Proof.
  intros g tt i0 tmin tmax K k Hw [Hj _] Hk. specialize (Hj k Hk). unfold stops in Hj. apply negb_false_iff in Hj.
  apply andb_true_iff in Hj. destruct Hj as [_ Hlt]. cbn [tq].
  apply (whole_steps_next tmin tmax (tq tmin k) k Hw (tq_spec tmin k) Hlt).
Qed.
