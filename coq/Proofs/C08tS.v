(* C08, tree exactness: joint states as lists (Model/Master.v) -- membership in all_states, update,
   extensionality, the gluing `mix`; pure and product-form initial conditions lie in every M_{j,U}. *)
From EoNV Require Import Prelude Vec VecP Graph Rhs2D Rhs2DP Master.
From Coq Require Import Lqa Setoid Morphisms.

Definition okst (a : N) : Prop := a = stS \/ a = stI \/ a = stR.

Lemma in_all_states n s : In s (all_states n) <-> length s = n /\ Forall okst s.
Proof.
  revert s; induction n as [|n IH]; intros s; cbn [all_states].
  - split.
    + intros [<-|[]]. split; constructor.
    + intros [H _]. destruct s; [left; reflexivity|discriminate].
  - rewrite in_flat_map. split.
    + intros [a [Ha Hs]]. rewrite in_map_iff in Hs. destruct Hs as [t [<- Ht]]. apply IH in Ht. destruct Ht as [Hl Hf].
      split; [cbn [length]; lia|]. constructor; [|exact Hf]. unfold okst. cbn [In] in Ha. intuition.
    + intros [Hl Hf]. destruct s as [|a t]; [discriminate|]. inversion Hf as [|? ? Ha Ht]; subst. exists a. split.
      * unfold okst in Ha. cbn [In]. intuition.
      * apply in_map. apply IH. split; [cbn [length] in Hl; lia|exact Ht].
Qed.

Lemma upd_length s i x : length (upd s i x) = length s.
Proof. revert i; induction s as [|a s IH]; intros i; [reflexivity|]. destruct i; cbn [upd length]; [reflexivity|]. rewrite IH. reflexivity. Qed.
Lemma st_at_upd s i x k : (i < length s)%nat -> st_at (upd s i x) k = if Nat.eqb k i then x else st_at s k.
Proof.
  unfold st_at. revert i k; induction s as [|a s IH]; intros i k Hi; [cbn in Hi; lia|].
  destruct i, k; cbn [upd nth Nat.eqb]; try reflexivity. apply IH. cbn [length] in Hi. lia.
Qed.
Lemma upd_okst s i x : Forall okst s -> okst x -> Forall okst (upd s i x).
Proof.
  intros Hs Hx. revert i; induction Hs as [|a s Ha Hs IH]; intros i; [constructor|].
  destruct i; cbn [upd]; constructor; auto.
Qed.
Lemma okst_at s k : Forall okst s -> (k < length s)%nat -> okst (st_at s k).
Proof.
  unfold st_at. intros Hs. revert k; induction Hs as [|a s Ha Hs IH]; intros k Hk; [cbn in Hk; lia|].
  destruct k; cbn [nth]; [exact Ha|]. apply IH. cbn [length] in Hk. lia.
Qed.
Lemma state_ext s t : length s = length t -> (forall k, (k < length s)%nat -> st_at s k = st_at t k) -> s = t.
Proof.
  unfold st_at. revert t; induction s as [|a s IH]; intros t Hl H; destruct t as [|b t]; try discriminate; [reflexivity|].
  f_equal.
  - apply (H 0%nat). cbn [length]. lia.
  - apply IH; [cbn [length] in Hl; lia|]. intros k Hk. apply (H (S k)). cbn [length]. lia.
Qed.
Lemma state_eqb_spec s t : state_eqb s t = true <-> s = t.
Proof.
  unfold state_eqb. split.
  - intros H. apply andb_prop in H. destruct H as [Hl H]. apply Nat.eqb_eq in Hl.
    revert t Hl H; induction s as [|a s IH]; intros t Hl H; destruct t as [|b t]; try discriminate; [reflexivity|].
    cbn [combine forallb fst snd] in H. apply andb_prop in H. destruct H as [Hab H]. apply N.eqb_eq in Hab. subst b.
    f_equal. apply IH; [cbn [length] in Hl; lia|exact H].
  - intros <-. rewrite Nat.eqb_refl. cbn [andb]. induction s as [|a s IH]; [reflexivity|].
    cbn [combine forallb fst snd]. rewrite N.eqb_refl. exact IH.
Qed.

Lemma nth_map_seq {A} (f : nat -> A) n k d : (k < n)%nat -> nth k (map f (seq 0 n)) d = f k.
Proof.
  intros Hk. rewrite (nth_indep _ d (f 0%nat)) by (rewrite map_length, seq_length; exact Hk).
  rewrite map_nth. rewrite seq_nth by exact Hk. reflexivity.
Qed.

Section Mix.
Variable nodelist : list node.
Notation n_ := (nN nodelist).
Notation mix := (mix nodelist).
Notation minor := (minor nodelist).

Lemma mix_length U a b : length (mix U a b) = n_.
Proof. unfold Master.mix. rewrite map_length, seq_length. reflexivity. Qed.
Lemma st_at_mix U a b k : (k < n_)%nat -> st_at (mix U a b) k = if U k then st_at a k else st_at b k.
Proof.
  intros Hk. unfold Master.mix, st_at at 1. rewrite nth_map_seq by exact Hk. reflexivity.
Qed.
Lemma mix_okst U a b : length a = n_ -> length b = n_ -> Forall okst a -> Forall okst b -> Forall okst (mix U a b).
Proof.
  intros La Lb Ha Hb. unfold Master.mix. apply Forall_forall. intros x Hx. apply in_map_iff in Hx.
  destruct Hx as [k [<- Hk]]. apply in_seq in Hk. destruct (U k); apply okst_at; auto; lia.
Qed.
Lemma mix_in_all U a b : In a (all_states n_) -> In b (all_states n_) -> In (mix U a b) (all_states n_).
Proof.
  intros Ha Hb. apply in_all_states in Ha, Hb. destruct Ha as [La Ha], Hb as [Lb Hb]. apply in_all_states.
  split; [apply mix_length|apply mix_okst; assumption].
Qed.
Lemma mix_same U a : length a = n_ -> mix U a a = a.
Proof.
  intros La. apply state_ext; [rewrite mix_length; auto|]. intros k Hk. rewrite mix_length in Hk.
  rewrite st_at_mix by exact Hk. destruct (U k); reflexivity.
Qed.

Lemma in_slice j s : In s (slice nodelist j) <-> In s (all_states n_) /\ st_at s j = stS.
Proof. unfold slice. rewrite filter_In. unfold is1. rewrite N.eqb_eq. reflexivity. Qed.
Lemma mix_in_slice j U a b : (j < n_)%nat -> In a (slice nodelist j) -> In b (slice nodelist j) -> In (mix U a b) (slice nodelist j).
Proof.
  intros Hj Ha Hb. apply in_slice in Ha, Hb. destruct Ha as [Ha Sa], Hb as [Hb Sb]. apply in_slice. split.
  - apply mix_in_all; assumption.
  - rewrite st_at_mix by exact Hj. destruct (U j); assumption.
Qed.

(* ---------------- (1) pure and product-form initial conditions lie in M ---------------- *)
Lemma delta_in_M j U s0 : length s0 = n_ -> inM nodelist j U (delta s0).
Proof.
  intros L0 s1 s2 H1 H2. apply in_slice in H1, H2. destruct H1 as [H1 _], H2 as [H2 _].
  apply in_all_states in H1, H2. destruct H1 as [L1 _], H2 as [L2 _].
  unfold Master.minor, delta.
  destruct (state_eqb s1 s0) eqn:E1, (state_eqb s2 s0) eqn:E2.
  - apply state_eqb_spec in E1, E2. subst s1 s2. rewrite (mix_same U s0 L0).
    replace (state_eqb s0 s0) with true by (symmetry; apply state_eqb_spec; reflexivity). ring.
  - destruct (state_eqb (mix U s1 s2) s0) eqn:E3; [|ring]. destruct (state_eqb (mix U s2 s1) s0) eqn:E4; [|ring].
    exfalso. apply state_eqb_spec in E3, E4.
    assert (E : s2 = s0).
    { apply state_ext; [congruence|]. intros k Hk. rewrite L2 in Hk.
      destruct (U k) eqn:Uk.
      - rewrite <- E4 at 1. rewrite st_at_mix by exact Hk. rewrite Uk. reflexivity.
      - rewrite <- E3 at 1. rewrite st_at_mix by exact Hk. rewrite Uk. reflexivity. }
    apply state_eqb_spec in E. congruence.
  - destruct (state_eqb (mix U s1 s2) s0) eqn:E3; [|ring]. destruct (state_eqb (mix U s2 s1) s0) eqn:E4; [|ring].
    exfalso. apply state_eqb_spec in E3, E4.
    assert (E : s1 = s0).
    { apply state_ext; [congruence|]. intros k Hk. rewrite L1 in Hk.
      destruct (U k) eqn:Uk.
      - rewrite <- E3 at 1. rewrite st_at_mix by exact Hk. rewrite Uk. reflexivity.
      - rewrite <- E4 at 1. rewrite st_at_mix by exact Hk. rewrite Uk. reflexivity. }
    apply state_eqb_spec in E. congruence.
  - destruct (state_eqb (mix U s1 s2) s0) eqn:E3; [|ring]. destruct (state_eqb (mix U s2 s1) s0) eqn:E4; [|ring].
    exfalso. apply state_eqb_spec in E3, E4.
    assert (E : s1 = s0).
    { apply state_ext; [congruence|]. intros k Hk. rewrite L1 in Hk.
      destruct (U k) eqn:Uk.
      - rewrite <- E3 at 1. rewrite st_at_mix by exact Hk. rewrite Uk. reflexivity.
      - rewrite <- E4 at 1. rewrite st_at_mix by exact Hk. rewrite Uk. reflexivity. }
    apply state_eqb_spec in E. congruence.
Qed.

Lemma prod4 (l : list nat) (a b c d : nat -> Q) : (forall k, In k l -> a k * b k == c k * d k) ->
  fold_right Qmult 1 (map a l) * fold_right Qmult 1 (map b l) == fold_right Qmult 1 (map c l) * fold_right Qmult 1 (map d l).
Proof.
  induction l as [|k l IH]; intros H; cbn [map fold_right]; [reflexivity|].
  assert (Hk := H k (or_introl eq_refl)). assert (Hl := IH (fun k' Hk' => H k' (or_intror Hk'))).
  transitivity ((a k * b k) * (fold_right Qmult 1 (map a l) * fold_right Qmult 1 (map b l))); [ring|].
  rewrite Hk, Hl. ring.
Qed.
Lemma product_in_M j U w : inM nodelist j U (product nodelist w).
Proof.
  intros s1 s2 _ _. unfold Master.minor, product.
  rewrite (prod4 (seq 0 n_) (fun i => w i (st_at s1 i)) (fun i => w i (st_at s2 i))
                 (fun i => w i (st_at (mix U s1 s2) i)) (fun i => w i (st_at (mix U s2 s1) i))); [ring|].
  intros k Hk. apply in_seq in Hk. rewrite !st_at_mix by lia. destruct (U k); ring.
Qed.
End Mix.
