(* C14, proof side: equality of what an ODE entry point returns, up to equality of rationals.
   The numerical integrator is abstract (Model/Wrappers.v: solver = vec -> time index -> vec); the only
   assumption is that it is a FUNCTION of the numbers handed to it (solver_proper: pointwise-equal
   rationals in, pointwise-equal rationals out; every float function is).  The solver-level functions
   of Model/Wrappers.v (layout of X0, post-processing of the solver's matrix) respect that equality. *)
From EoNV Require Import Prelude Graph Aux Vec IC Wrappers VecP.
From Coq Require Import Qpower Lqa Setoid Morphisms.

Notation meq := (Forall2 (Forall2 Qeq)).
Definition seq_eq (a b : series) : Prop :=
  match a, b with
  | Sc f, Sc f' => forall t, f t == f' t
  | Ve f, Ve f' => forall t, veq (f t) (f' t)
  | Ma f, Ma f' => forall t, meq (f t) (f' t)
  | _, _ => False
  end.
Definition oeq (o o' : output) : Prop := Forall2 (fun a b => fst a = fst b /\ seq_eq (snd a) (snd b)) o o'.
Definition req {A} (R : A -> A -> Prop) (r r' : result A) : Prop :=
  match r, r' with Ok a, Ok b => R a b | Err e, Err e' => e = e' | _, _ => False end.
Definition solver_proper (sv : solver) : Prop := forall a b, veq a b -> forall t, veq (sv a t) (sv b t).

Lemma meq_refl m : meq m m.
Proof. induction m; constructor; [reflexivity|assumption]. Qed.
Lemma seq_eq_refl s : seq_eq s s.
Proof. destruct s; cbn; intros t; [reflexivity|reflexivity|apply meq_refl]. Qed.
Lemma oeq_refl o : oeq o o.
Proof. induction o; constructor; [split; [reflexivity|apply seq_eq_refl]|assumption]. Qed.
Lemma req_refl {A} (R : A -> A -> Prop) r : (forall a, R a a) -> req R r r.
Proof. intros H. destruct r; cbn; [apply H|reflexivity]. Qed.
Lemma oeq_app a a' b b' : oeq a a' -> oeq b b' -> oeq (a ++ b) (a' ++ b').
Proof. intros H1 H2. induction H1; cbn [app]; [exact H2|constructor; assumption]. Qed.
Lemma const_solver_proper : solver_proper const_solver.
Proof. intros a b H t. exact H. Qed.

(* ---------- congruence lemmas in `apply` form ---------- *)
Lemma qc_plus a a' b b' : a == a' -> b == b' -> a + b == a' + b'. Proof. intros -> ->. reflexivity. Qed.
Lemma qc_minus a a' b b' : a == a' -> b == b' -> a - b == a' - b'. Proof. intros -> ->. reflexivity. Qed.
Lemma qc_mult a a' b b' : a == a' -> b == b' -> a * b == a' * b'. Proof. intros -> ->. reflexivity. Qed.
Lemma qc_div a a' b b' : a == a' -> b == b' -> a / b == a' / b'. Proof. intros -> ->. reflexivity. Qed.
Lemma qc_opp a a' : a == a' -> - a == - a'. Proof. intros ->. reflexivity. Qed.
Lemma qc_pow a a' z : a == a' -> qpow a z == qpow a' z. Proof. intros H. unfold qpow. rewrite H. reflexivity. Qed.
Lemma Qltb_comp a a' b b' : a == a' -> b == b' -> Qltb a b = Qltb a' b'.
Proof.
  intros Ha Hb. unfold Qltb. destruct (Qlt_le_dec a b) as [H|H], (Qlt_le_dec a' b') as [H'|H']; try reflexivity; exfalso.
  - rewrite Ha, Hb in H. apply (Qlt_not_le _ _ H H').
  - rewrite Ha, Hb in H. apply (Qlt_not_le _ _ H' H).
Qed.
Lemma Qeqb_comp a a' b b' : a == a' -> b == b' -> Qeqb a b = Qeqb a' b'.
Proof.
  intros Ha Hb. unfold Qeqb. apply Bool.eq_iff_eq_true. rewrite !Qeq_bool_iff, Ha, Hb. reflexivity.
Qed.

Lemma vc_nth k a b : veq a b -> vnth k a == vnth k b.
Proof. intros H. apply veq_nth_all, H. Qed.
Lemma vc_cons x x' a a' : x == x' -> veq a a' -> veq (x :: a) (x' :: a'). Proof. intros; constructor; assumption. Qed.
Lemma vc_firstn k a b : veq a b -> veq (firstn k a) (firstn k b).
Proof. intros H. revert k. induction H; intros [|k]; cbn [firstn]; constructor; auto. Qed.
Lemma vc_skipn k a b : veq a b -> veq (skipn k a) (skipn k b).
Proof. intros H. revert k. induction H; intros [|k]; cbn [skipn]; try constructor; auto. Qed.
Lemma vc_slice p q a b : veq a b -> veq (slice p q a) (slice p q b).
Proof. intros H. unfold slice. apply vc_firstn, vc_skipn, H. Qed.
Lemma vc_slice_from p a b : veq a b -> veq (slice_from p a) (slice_from p b).
Proof. apply vc_skipn. Qed.
Lemma vc_drop_last k a b : veq a b -> veq (drop_last k a) (drop_last k b).
Proof. intros H. unfold drop_last. rewrite (veq_length _ _ H). apply vc_firstn, H. Qed.
Lemma vc_take_last k a b : veq a b -> veq (take_last k a) (take_last k b).
Proof. intros H. unfold take_last. rewrite (veq_length _ _ H). apply vc_skipn, H. Qed.
Lemma vc_zip f : (forall x x' y y', x == x' -> y == y' -> f x y == f x' y') ->
  forall a a' b b', veq a a' -> veq b b' -> veq (zipWith f a b) (zipWith f a' b').
Proof.
  intros Hf a a' b b' Ha. revert b b'. induction Ha; intros b b' Hb; [destruct Hb; constructor|].
  destruct Hb; cbn [zipWith]; constructor; auto.
Qed.
Lemma vc_add a a' b b' : veq a a' -> veq b b' -> veq (vadd a b) (vadd a' b').
Proof. apply vc_zip. intros; apply qc_plus; assumption. Qed.
Lemma vc_sub a a' b b' : veq a a' -> veq b b' -> veq (vsub a b) (vsub a' b').
Proof. apply vc_zip. intros; apply qc_minus; assumption. Qed.
Lemma vc_mul a a' b b' : veq a a' -> veq b b' -> veq (vmul a b) (vmul a' b').
Proof. apply vc_zip. intros; apply qc_mult; assumption. Qed.
Lemma vc_map f f' : (forall x x', x == x' -> f x == f' x') -> forall a a', veq a a' -> veq (map f a) (map f' a').
Proof. intros Hf a a' H. induction H; cbn [map]; constructor; auto. Qed.
Lemma vc_smul c c' a a' : c == c' -> veq a a' -> veq (smul c a) (smul c' a').
Proof. intros Hc. apply vc_map. intros; apply qc_mult; assumption. Qed.
Lemma vc_vmuls c c' a a' : c == c' -> veq a a' -> veq (vmuls a c) (vmuls a' c').
Proof. intros Hc. apply vc_map. intros; apply qc_mult; assumption. Qed.
Lemma vc_spow x x' n : x == x' -> veq (spow_arange x n) (spow_arange x' n).
Proof.
  intros H. unfold spow_arange. induction (seq 0 n); cbn [map]; constructor; [apply qc_pow, H|assumption].
Qed.
Lemma vc_dot a a' b b' : veq a a' -> veq b b' -> dot a b == dot a' b'.
Proof. intros Ha Hb. unfold dot. apply vsum_veq, vc_mul; assumption. Qed.
Lemma vc_len (a b : vec) : veq a b -> length a = length b.
Proof. apply veq_length. Qed.

Lemma mc_flatten m m' : meq m m' -> veq (flatten m) (flatten m').
Proof. intros H. unfold flatten. induction H; cbn [concat]; [constructor|apply veq_app; assumption]. Qed.
Lemma mc_len (m m' : list vec) : meq m m' -> length m = length m'.
Proof. induction 1; cbn; congruence. Qed.
Lemma mc_row m m' i : meq m m' -> veq (mrow m i) (mrow m' i).
Proof. intros H. unfold mrow. revert i. induction H; intros [|i]; cbn [nth]; try constructor; auto. Qed.
Lemma mc_map_seq (f f' : nat -> vec) l : (forall r, veq (f r) (f' r)) -> meq (map f l) (map f' l).
Proof. intros H. induction l; cbn [map]; constructor; auto. Qed.
Lemma mc_reshape r c v v' : veq v v' -> meq (reshape r c v) (reshape r c v').
Proof. intros H. unfold reshape. apply mc_map_seq. intros k. apply vc_slice, H. Qed.
Lemma mc_transpose n m m' : meq m m' -> meq (mtranspose n m) (mtranspose n m').
Proof.
  intros H. unfold mtranspose. apply mc_map_seq. intros j.
  induction (seq 0 n); cbn [map]; constructor; [apply vc_nth, mc_row, H|assumption].
Qed.
Lemma mc_zip (f : vec -> vec -> vec) : (forall a a' b b', veq a a' -> veq b b' -> veq (f a b) (f a' b')) ->
  forall m m' k k', meq m m' -> meq k k' -> meq (map (fun ab => f (fst ab) (snd ab)) (combine m k)) (map (fun ab => f (fst ab) (snd ab)) (combine m' k')).
Proof.
  intros Hf m m' k k' Hm. revert k k'. induction Hm; intros k k' Hk; [constructor|].
  destruct Hk; cbn [combine map]; constructor; cbn [fst snd]; auto.
Qed.
Lemma mc_add m m' k k' : meq m m' -> meq k k' -> meq (madd m k) (madd m' k').
Proof. apply mc_zip, vc_add. Qed.
Lemma mc_sub m m' k k' : meq m m' -> meq k k' -> meq (msub m k) (msub m' k').
Proof. apply mc_zip, vc_sub. Qed.
Lemma mc_scale c c' m m' : c == c' -> meq m m' -> meq (mscale c m) (mscale c' m').
Proof. intros Hc H. unfold mscale. induction H; cbn [map]; constructor; [apply vc_smul; assumption|assumption]. Qed.
Lemma mc_msum m m' : meq m m' -> msum m == msum m'.
Proof.
  intros H. unfold msum. apply vsum_veq. induction H; cbn [map]; constructor; [apply vsum_veq; assumption|assumption].
Qed.
Lemma vc_pickKs Ks a a' : veq a a' -> veq (pickKs Ks a) (pickKs Ks a').
Proof. intros H. unfold pickKs. induction Ks; cbn [map]; constructor; [apply vc_nth, H|assumption]. Qed.

(* one congruence step; leaves are hypotheses *)
Ltac peq1 :=
  first
  [ assumption
  | reflexivity
  | match goal with H : forall t, veq (?x t) (?y t) |- veq (?x ?t) (?y ?t) => apply H end
  | match goal with H : forall a b, _ == _ -> ?f a == ?g b |- ?f _ == ?g _ => apply H end
  | apply qc_plus | apply qc_minus | apply qc_mult | apply qc_div | apply qc_opp | apply qc_pow
  | apply vc_nth | apply vsum_veq | apply vc_dot | apply mc_msum
  | apply vc_cons | apply veq_app
  | apply vc_slice | apply vc_slice_from | apply vc_drop_last | apply vc_take_last
  | apply vc_add | apply vc_sub | apply vc_mul | apply vc_smul | apply vc_vmuls | apply vc_pickKs
  | apply mc_flatten | apply mc_reshape | apply mc_transpose | apply mc_add | apply mc_sub | apply mc_scale
  | apply Forall2_nil ].
Ltac peq := repeat peq1.
(* an output list, entry by entry *)
Ltac oeq_entries :=
  repeat first
  [ apply Forall2_nil
  | apply Forall2_cons; [split; [reflexivity|cbn [seq_eq snd]; intros ?t]|]
  | apply oeq_app
  | match goal with
    | |- oeq (if ?b then _ else _) _ => destruct b
    | |- Forall2 _ (if ?b then _ else _) _ => destruct b
    end ].

Section Inner.
Variable sv : solver.
Hypothesis SV : solver_proper sv.
Ltac sv_eq x x' X0 X0' := assert (forall t, veq (sv X0 t) (sv X0' t)) by (apply SV; peq).

Lemma SIS_homogeneous_pairwise_proper S0 I0 SI0 SS0 n S0' I0' SI0' SS0' n' full :
  S0 == S0' -> I0 == I0' -> SI0 == SI0' -> SS0 == SS0' -> n == n' ->
  req oeq (SIS_homogeneous_pairwise S0 I0 SI0 SS0 n full sv) (SIS_homogeneous_pairwise S0' I0' SI0' SS0' n' full sv).
Proof.
  intros H1 H2 H3 H4 H5. unfold SIS_homogeneous_pairwise. cbv zeta.
  rewrite (Qltb_comp (n * (S0 + I0)) (n' * (S0' + I0')) (SS0 + SI0 * 2) (SS0' + SI0' * 2)) by peq.
  destruct (Qltb _ _); [reflexivity|]. cbn [req].
  assert (Hx : forall t, veq (sv [S0; SI0; SS0] t) (sv [S0'; SI0'; SS0'] t)) by (apply SV; peq).
  unfold comp. oeq_entries; unfold oeq; oeq_entries; peq.
Qed.
Lemma SIR_homogeneous_pairwise_proper S0 I0 R0 SI0 SS0 n S0' I0' R0' SI0' SS0' n' full :
  S0 == S0' -> I0 == I0' -> R0 == R0' -> SI0 == SI0' -> SS0 == SS0' -> n == n' ->
  req oeq (SIR_homogeneous_pairwise S0 I0 R0 SI0 SS0 n full sv) (SIR_homogeneous_pairwise S0' I0' R0' SI0' SS0' n' full sv).
Proof.
  intros H1 H2 H3 H4 H5 H6. unfold SIR_homogeneous_pairwise. cbv zeta.
  rewrite (Qltb_comp (n * (S0 + I0 + R0)) (n' * (S0' + I0' + R0')) (SS0 + 2 * SI0) (SS0' + 2 * SI0')) by peq.
  destruct (Qltb _ _); [reflexivity|]. cbn [req].
  assert (Hx : forall t, veq (sv [S0; I0; SI0; SS0] t) (sv [S0'; I0'; SI0'; SS0'] t)) by (apply SV; peq).
  unfold comp. oeq_entries; unfold oeq; oeq_entries; peq.
Qed.

Lemma SIS_compact_pairwise_proper Sk0 Ik0 SI0 SS0 II0 Sk0' Ik0' SI0' SS0' II0' full :
  veq Sk0 Sk0' -> veq Ik0 Ik0' -> SI0 == SI0' -> SS0 == SS0' -> II0 == II0' ->
  oeq (SIS_compact_pairwise Sk0 Ik0 SI0 SS0 II0 full sv) (SIS_compact_pairwise Sk0' Ik0' SI0' SS0' II0' full sv).
Proof.
  intros H1 H2 H3 H4 H5. unfold SIS_compact_pairwise. cbv zeta.
  assert (Hx : forall t, veq (sv (Sk0 ++ [SI0; SS0]) t) (sv (Sk0' ++ [SI0'; SS0']) t)) by (apply SV; peq).
  unfold vsumt, dlast, tlast. oeq_entries; unfold oeq; oeq_entries; peq.
Qed.
Lemma SIR_compact_pairwise_proper Sk0 I0 R0 SS0 SI0 Sk0' I0' R0' SS0' SI0' full :
  veq Sk0 Sk0' -> I0 == I0' -> R0 == R0' -> SS0 == SS0' -> SI0 == SI0' ->
  oeq (SIR_compact_pairwise Sk0 I0 R0 SS0 SI0 full sv) (SIR_compact_pairwise Sk0' I0' R0' SS0' SI0' full sv).
Proof.
  intros H1 H2 H3 H4 H5. unfold SIR_compact_pairwise. cbv zeta.
  assert (Hx : forall t, veq (sv (Sk0 ++ [SS0; SI0; R0]) t) (sv (Sk0' ++ [SS0'; SI0'; R0']) t)) by (apply SV; peq).
  unfold vsumt, dlast, tlast. destruct full; unfold oeq; oeq_entries; peq.
Qed.
Lemma SIS_super_compact_pairwise_proper S0 I0 SS0 SI0 II0 S0' I0' SS0' SI0' II0' full :
  S0 == S0' -> I0 == I0' -> SS0 == SS0' -> SI0 == SI0' -> II0 == II0' ->
  oeq (SIS_super_compact_pairwise S0 I0 SS0 SI0 II0 full sv) (SIS_super_compact_pairwise S0' I0' SS0' SI0' II0' full sv).
Proof.
  intros H1 H2 H3 H4 H5. unfold SIS_super_compact_pairwise. cbv zeta.
  assert (Hx : forall t, veq (sv [I0; SS0; SI0; II0] t) (sv [I0'; SS0'; SI0'; II0'] t)) by (apply SV; peq).
  unfold comp. oeq_entries; unfold oeq; oeq_entries; peq.
Qed.
Lemma SIR_super_compact_pairwise_proper R0 SS0 SI0 N psihat R0' SS0' SI0' N' psihat' full :
  R0 == R0' -> SS0 == SS0' -> SI0 == SI0' -> N == N' -> (forall a b, a == b -> psihat a == psihat' b) ->
  oeq (SIR_super_compact_pairwise R0 SS0 SI0 N psihat full sv) (SIR_super_compact_pairwise R0' SS0' SI0' N' psihat' full sv).
Proof.
  intros H1 H2 H3 H4 H5. unfold SIR_super_compact_pairwise. cbv zeta.
  assert (Hx : forall t, veq (sv [1; SS0; SI0; R0] t) (sv [1; SS0'; SI0'; R0'] t)) by (apply SV; peq).
  unfold comp. oeq_entries; unfold oeq; oeq_entries; peq.
Qed.
Lemma SIR_compact_effective_degree_proper Sk0 I0 R0 SI0 Sk0' I0' R0' SI0' full :
  veq Sk0 Sk0' -> I0 == I0' -> R0 == R0' -> SI0 == SI0' ->
  oeq (SIR_compact_effective_degree Sk0 I0 R0 SI0 full sv) (SIR_compact_effective_degree Sk0' I0' R0' SI0' full sv).
Proof.
  intros H1 H2 H3 H4. unfold SIR_compact_effective_degree. cbv zeta.
  assert (Hx : forall t, veq (sv (Sk0 ++ [R0; SI0]) t) (sv (Sk0' ++ [R0'; SI0']) t)) by (apply SV; peq).
  unfold vsumt, dlast, tlast. oeq_entries; unfold oeq; oeq_entries; peq.
Qed.
Lemma EBCM_proper N psihat R0 N' psihat' R0' full :
  N == N' -> (forall a b, a == b -> psihat a == psihat' b) -> R0 == R0' ->
  oeq (EBCM N psihat R0 full sv) (EBCM N' psihat' R0' full sv).
Proof.
  intros H1 H2 H3. unfold EBCM. cbv zeta.
  assert (Hx : forall t, veq (sv [1; R0] t) (sv [1; R0'] t)) by (apply SV; peq).
  unfold comp. oeq_entries; unfold oeq; oeq_entries; peq.
Qed.

Lemma SIS_heterogeneous_pairwise_proper Sk0 Ik0 SkSl0 SkIl0 IkIl0 Sk0' Ik0' SkSl0' SkIl0' IkIl0' full :
  veq Sk0 Sk0' -> veq Ik0 Ik0' -> meq SkSl0 SkSl0' -> meq SkIl0 SkIl0' -> meq IkIl0 IkIl0' ->
  req oeq (SIS_heterogeneous_pairwise Sk0 Ik0 SkSl0 SkIl0 IkIl0 full sv) (SIS_heterogeneous_pairwise Sk0' Ik0' SkSl0' SkIl0' IkIl0' full sv).
Proof.
  intros H1 H2 H3 H4 H5. unfold SIS_heterogeneous_pairwise. cbv zeta.
  assert (HN : veq (vadd Sk0 Ik0) (vadd Sk0' Ik0')) by peq. rewrite (veq_length _ _ HN).
  assert (Hx : forall t, veq (sv (Sk0 ++ flatten SkSl0 ++ flatten SkIl0) t) (sv (Sk0' ++ flatten SkSl0' ++ flatten SkIl0') t)) by (apply SV; peq).
  unfold vsumt, slc, sfrom. destruct full; cbn [req]; unfold oeq; oeq_entries; peq.
Qed.
Lemma SIR_heterogeneous_pairwise_proper Sk0 Ik0 Rk0 SkSl0 SkIl0 Sk0' Ik0' Rk0' SkSl0' SkIl0' Ks full :
  veq Sk0 Sk0' -> veq Ik0 Ik0' -> veq Rk0 Rk0' -> meq SkSl0 SkSl0' -> meq SkIl0 SkIl0' ->
  req oeq (SIR_heterogeneous_pairwise Sk0 Ik0 Rk0 SkSl0 SkIl0 Ks full sv) (SIR_heterogeneous_pairwise Sk0' Ik0' Rk0' SkSl0' SkIl0' Ks full sv).
Proof.
  intros H1 H2 H3 H4 H5. unfold SIR_heterogeneous_pairwise. cbv zeta.
  assert (Hx : forall t, veq (sv (Sk0 ++ Ik0 ++ flatten SkSl0 ++ flatten SkIl0) t) (sv (Sk0' ++ Ik0' ++ flatten SkSl0' ++ flatten SkIl0') t)) by (apply SV; peq).
  unfold vsumt, slc. cbn [req]. unfold oeq; oeq_entries; unfold oeq; oeq_entries; peq.
Qed.
End Inner.
