(* The law of a whole run of basic_discrete_SIR (one fresh coin per tested contact) is the
   law of: first flip one coin for every arc of the graph, then run discrete_SIR with the
   transmission rule "the coin of that arc came up".

   Part 1: the oracle tree of the run (Model/DiscreteO.v) is fresh in the arc list of the
           graph: an arc (u, v) is only asked while u is infectious, a node is infectious for
           one step, and inside a step the contacts are visited once each.
   Part 2: the law theorems, by Proofs/DeferredP.v [deferred] + [perc_expect] and the two
           interpretation lemmas of Proofs/DiscreteOP.v.
   Part 3: with dsir_bfs: the law of the rows is the law of the BFS generations of the
           percolated digraph. *)
From EoNV Require Import Prelude Samp Graph Discrete DiscreteP DiscreteO DiscreteOP DeferredP.
From Coq Require Import Permutation Lqa.

(* ------------------------------------------------------------------ *)
(* Part 1                                                               *)

Lemma contacts_In : forall g us u v, In (u, v) (contacts g us) <-> In u us /\ In v (gadj g u).
Proof.
  intros g us u v. unfold contacts. rewrite in_flat_map. split.
  - intros [x [Hx H]]. apply in_map_iff in H. destruct H as [w [E Hw]]. injection E as E1 E2. subst x w.
    split; assumption.
  - intros [Hu Hv]. exists u. split; [exact Hu|]. apply in_map_iff. exists v. split; [reflexivity|exact Hv].
Qed.

Lemma contacts_incl : forall g us us', incl us us' -> incl (contacts g us) (contacts g us').
Proof.
  intros g us us' H [u v] Hin. apply contacts_In in Hin. apply contacts_In. split; [apply H; apply Hin|apply Hin].
Qed.

Lemma NoDup_app_gen : forall (A : Type) (l1 l2 : list A), NoDup l1 -> NoDup l2 ->
  (forall x, In x l1 -> ~ In x l2) -> NoDup (l1 ++ l2).
Proof.
  intros A l1 l2 H1 H2 Hd. induction H1 as [|x l Hx Hn IH]; [exact H2|].
  simpl. constructor.
  - intro Hin. apply in_app_or in Hin. destruct Hin as [Hin|Hin]; [contradiction|].
    apply (Hd x); [left; reflexivity|exact Hin].
  - apply IH. intros v Hv. apply Hd. right. exact Hv.
Qed.

Lemma NoDup_map_pair : forall (u : node) (l : list node), NoDup l -> NoDup (map (fun v => (u, v)) l).
Proof.
  intros u l H. induction H as [|x l Hx Hn IH]; [constructor|].
  cbn [map]. constructor; [|exact IH]. intro Hin. apply in_map_iff in Hin.
  destruct Hin as [w [E Hw]]. injection E as E. subst w. contradiction.
Qed.

Lemma contacts_NoDup : forall g us, NoDup us -> (forall u, In u us -> NoDup (gadj g u)) ->
  NoDup (contacts g us).
Proof.
  intros g us H. induction H as [|u us Hu Hn IH]; intro Ha; [constructor|].
  change (contacts g (u :: us)) with (map (fun v => (u, v)) (gadj g u) ++ contacts g us).
  apply NoDup_app_gen.
  - apply NoDup_map_pair. apply Ha. left. reflexivity.
  - apply IH. intros x Hx. apply Ha. right. exact Hx.
  - intros [a b] H1 H2. apply in_map_iff in H1. destruct H1 as [w [E _]]. injection E as E1 E2. subst a w.
    apply contacts_In in H2. apply Hu. apply H2.
Qed.

Lemma oall_true : forall A (t : otree A), oall (fun _ => True) t.
Proof. intros A t. induction t as [a|e|u v kt IHt kf IHf|c k IH]; cbn [oall]; auto. Qed.

(* random.choice asks no contact *)
Lemma picks_noask : forall k t inf tl pl, fresh_in [] (picks_o k t inf tl pl).
Proof.
  intros k t inf. induction inf as [|[v c] inf IH]; intros tl pl; [exact I|].
  cbn [picks_o].
  apply (fresh_bind node _ (fun _ => True) (opick c) _ [] []).
  - unfold opick. cbn [fresh_in]. intro x. destruct x as [|a [|b x]]; exact I.
  - apply oall_true.
  - intros s _. apply IH.
  - intros e [].
Qed.

Section Fresh.
Variable g : graph.
Variable ord : nat -> list node -> list node.
Variable tmin : Q.
Variable tmax : xtime.
Variable full : bool.
Hypothesis Hnd : NoDup (gnodes g).
Hypothesis Hadjnd : forall u, In u (gnodes g) -> NoDup (gadj g u).
Hypothesis Hord : forall k l, Permutation (ord k l) l.

(* inside one step every contact of the list is asked at most once *)
Lemma cloop_fresh : forall k cs c, NoDup cs -> fresh_in cs (cloop_o full k cs c).
Proof.
  intros k cs. induction cs as [|[u v] cs IH]; intros c Hn; [exact I|].
  inversion Hn as [|x l Hx Hn']; subst.
  assert (Ask : forall c1 c2, fresh_in ((u, v) :: cs)
            (obind (oask u v) (fun b : bool => if b then cloop_o full k cs c1 else cloop_o full k cs c2))).
  { intros c1 c2. cbn [oask obind fresh_in]. rewrite rm_cons_same, (rm_notin (u, v) cs Hx).
    split; [left; reflexivity|]. split; apply IH; exact Hn'. }
  cbn [cloop_o]. destruct (c_sus c v); [apply Ask|].
  destruct (full && mem v (c_new c)); [apply Ask|].
  eapply fresh_mono; [apply IH; exact Hn'|]. apply incl_tl. apply incl_refl.
Qed.

(* what one pass of the contact loop does to the susceptible map and to new_infecteds *)
Definition cpost (c c' : cst) : Prop :=
  (forall v, c_sus c' v = true -> c_sus c v = true) /\
  (forall v, In v (c_new c') -> c_sus c' v = false) /\
  (forall v, In v (c_new c') -> In v (c_new c) \/ c_sus c v = true).

Lemma cloop_post : forall k cs c, (forall v, In v (c_new c) -> c_sus c v = false) ->
  oall (cpost c) (cloop_o full k cs c).
Proof.
  intros k cs. induction cs as [|[u v] cs IH]; intros c Hc.
  - cbn [cloop_o oall]. split; [auto|]. split; [exact Hc|]. intros x Hx. left. exact Hx.
  - assert (Same : forall c2, c_sus c2 = c_sus c -> c_new c2 = c_new c -> oall (cpost c) (cloop_o full k cs c2)).
    { intros c2 E1 E2. eapply oall_mono; [apply IH; rewrite E1, E2; exact Hc|].
      intros c' [P1 [P2 P3]]. rewrite E1 in P1, P3. rewrite E2 in P3. split; [exact P1|]. split; assumption. }
    cbn [cloop_o]. destruct (c_sus c v) eqn:Es.
    + cbn [oask obind oall]. split; [|apply Same; reflexivity].
      eapply oall_mono.
      * apply IH. cbn [c_new c_sus]. intros x [E|Hx]; unfold fupdN.
        -- subst x. rewrite N.eqb_refl. reflexivity.
        -- destruct (N.eqb x v); [reflexivity|apply Hc; exact Hx].
      * intros c' [P1 [P2 P3]]. cbn [c_new c_sus] in P1, P3. split; [|split; [exact P2|]].
        -- intros x Hx. apply P1 in Hx. unfold fupdN in Hx. destruct (N.eqb x v); [discriminate|exact Hx].
        -- intros x Hx. destruct (P3 x Hx) as [[E|H]|H].
           ++ subst x. right. exact Es.
           ++ left. exact H.
           ++ right. unfold fupdN in H. destruct (N.eqb x v); [discriminate|exact H].
    + destruct (full && mem v (c_new c)).
      * cbn [oask obind oall]. split; apply Same; reflexivity.
      * apply IH. exact Hc.
Qed.

(* the infectious nodes are distinct nodes of the graph and are not susceptible *)
Definition sinv (s : dst) : Prop :=
  NoDup (d_infs s) /\ forall v, In v (d_infs s) -> In v (gnodes g) /\ d_sus s v = false.

(* the arcs that can still be asked from state s: those leaving a susceptible or infectious node *)
Definition Eof (s : dst) : list arc :=
  contacts g (filter (fun u => d_sus s u || mem u (d_infs s)) (gnodes g)).
Definition Esus (s : dst) : list arc := contacts g (filter (d_sus s) (gnodes g)).

Definition spost (s s' : dst) : Prop := sinv s' /\ incl (Eof s') (Esus s).

Lemma step_post : forall k t s, oall (spost s) (step_o g ord tmax full k t s).
Proof.
  intros k t s. unfold step_o.
  eapply oall_bind; [apply cloop_post; intros v []|].
  intros c [P1 [P2 P3]]. cbn [c_sus c_new] in P1, P3.
  eapply oall_bind; [apply oall_true|]. intros tp _. cbn [oall]. split.
  - split; cbn [d_infs d_sus].
    + unfold canon. apply NoDup_filter. exact Hnd.
    + intros v Hv. apply canon_In in Hv. destruct Hv as [Hv1 Hv2]. split; [exact Hv1|apply P2; exact Hv2].
  - intros [u v] Hin. unfold Eof in Hin. cbn [d_infs d_sus] in Hin. apply contacts_In in Hin.
    destruct Hin as [Hu Hv]. apply filter_In in Hu. destruct Hu as [Hu1 Hu2].
    unfold Esus. apply contacts_In. split; [|exact Hv]. apply filter_In. split; [exact Hu1|].
    apply orb_true_iff in Hu2. destruct Hu2 as [H|H].
    + apply P1. exact H.
    + apply dmem_In in H. apply canon_In in H. destruct H as [_ H].
      destruct (P3 u H) as [[]|H']. exact H'.
Qed.

Lemma step_fresh : forall k t s, NoDup (contacts g (ord k (d_infs s))) ->
  fresh_in (contacts g (ord k (d_infs s))) (step_o g ord tmax full k t s).
Proof.
  intros k t s Hn. unfold step_o.
  eapply fresh_mono.
  - apply (fresh_bind cst _ (fun _ => True) _ _ (contacts g (ord k (d_infs s))) []).
    + apply cloop_fresh. exact Hn.
    + apply oall_true.
    + intros c _.
      apply (fresh_bind _ _ (fun _ => True) _ _ [] []).
      * destruct full; [apply picks_noask|exact I].
      * apply oall_true.
      * intros tp _. exact I.
      * intros e [].
    + intros e _ [].
  - rewrite app_nil_r. apply incl_refl.
Qed.

Lemma dloop_fresh : forall i0 r0 fuel k t s, sinv s ->
  fresh_in (Eof s) (dloop_o g ord tmin tmax full i0 r0 fuel k t s).
Proof.
  intros i0 r0 fuel. induction fuel as [|f IH]; intros k t s [Hs1 Hs2]; cbn [dloop_o];
    destruct (nonempty (d_infs s) && xlt t tmax); try exact I.
  assert (Hus : forall u, In u (ord k (d_infs s)) -> In u (d_infs s)).
  { intros u Hu. eapply Permutation_in; [apply Hord|exact Hu]. }
  eapply fresh_mono.
  - apply (fresh_bind dst _ (spost s) _ _ (contacts g (ord k (d_infs s))) (Esus s)).
    + apply step_fresh. apply contacts_NoDup.
      * apply (Permutation_NoDup (Permutation_sym (Hord k (d_infs s)))). exact Hs1.
      * intros u Hu. apply Hadjnd. apply Hs2. apply Hus. exact Hu.
    + apply step_post.
    + intros s' [Hs' Hi]. eapply fresh_mono; [apply IH; exact Hs'|exact Hi].
    + intros [u v] H1 H2. apply contacts_In in H1. unfold Esus in H2. apply contacts_In in H2.
      destruct H1 as [H1 _]. destruct H2 as [H2 _]. apply filter_In in H2. destruct H2 as [_ H2].
      apply Hus in H1. apply Hs2 in H1. destruct H1 as [_ H1]. congruence.
  - intros [u v] Hin. apply in_app_or in Hin. unfold Eof. apply contacts_In. destruct Hin as [Hin|Hin].
    + apply contacts_In in Hin. destruct Hin as [Hu Hv]. split; [|exact Hv]. apply Hus in Hu.
      apply filter_In. split; [apply Hs2; exact Hu|]. apply orb_true_iff. right. apply dmem_In. exact Hu.
    + unfold Esus in Hin. apply contacts_In in Hin. destruct Hin as [Hu Hv]. split; [|exact Hv].
      apply filter_In in Hu. apply filter_In. split; [apply Hu|]. apply orb_true_iff. left. apply Hu.
Qed.

Lemma init_sinv : forall i0 r0, sinv (init_state g tmin full i0 r0).
Proof.
  intros i0 r0. split; cbn [init_state d_infs d_sus].
  - unfold canon. apply NoDup_filter. exact Hnd.
  - intros v Hv. apply canon_In in Hv. destruct Hv as [Hv1 Hv2]. split; [exact Hv1|].
    apply dmem_In in Hv2. rewrite Hv2. reflexivity.
Qed.

Definition all_arcs : list arc := contacts g (gnodes g).

Lemma all_arcs_NoDup : NoDup all_arcs.
Proof. apply contacts_NoDup; assumption. Qed.

Lemma run_fresh : forall i0 r0 fuel,
  fresh_in all_arcs (dloop_o g ord tmin tmax full i0 r0 fuel O tmin (init_state g tmin full i0 r0)).
Proof.
  intros i0 r0 fuel. eapply fresh_mono; [apply dloop_fresh; apply init_sinv|].
  unfold Eof, all_arcs. apply contacts_incl. intros u Hu. apply filter_In in Hu. apply Hu.
Qed.

End Fresh.

(* ------------------------------------------------------------------ *)
(* Part 2: the law of the whole run                                      *)

(* nodes distinct and no repeated neighbour: every arc (u, v) occurs once in the arc list *)
Definition arcs_nodupb (g : graph) : bool :=
  nodupb (gnodes g) && forallb (fun u => nodupb (gadj g u)) (gnodes g).

Lemma arcs_nodup_props : forall g, arcs_nodupb g = true ->
  NoDup (gnodes g) /\ forall u, In u (gnodes g) -> NoDup (gadj g u).
Proof.
  intros g H. unfold arcs_nodupb in H. apply andb_true_iff in H. destruct H as [H1 H2].
  split; [apply nodupb_NoDup; exact H1|]. intros u Hu. rewrite forallb_forall in H2.
  apply nodupb_NoDup. apply H2. exact Hu.
Qed.

Lemma wf_graph_arcs : forall g, wf_graphb g = true -> arcs_nodupb g = true.
Proof.
  intros g H. unfold wf_graphb in H. apply andb_true_iff in H. destruct H as [H _].
  apply andb_true_iff in H. destruct H as [H1 H2]. unfold arcs_nodupb. rewrite H1. cbn [andb].
  rewrite forallb_forall in H2. apply forallb_forall. intros u Hu. specialize (H2 u Hu). cbv beta in H2.
  repeat (apply andb_true_iff in H2; destruct H2 as [H2 _]). exact H2.
Qed.

(* the transmission table of a set of kept arcs, as a rule of Model/Discrete.v *)
Definition ttk (kept : list arc) (u v : node) (_ : nat) : bool := meme (u, v) kept.

Section Law.
Variable g : graph.
Variable p : Q.
Variable ord : nat -> list node -> list node.
Variable i0 : list node.
Variable r0o : option (list node).
Variable tmin : Q.
Variable tmax : xtime.
Variable fuel : nat.
Hypothesis Harcs : arcs_nodupb g = true.
Hypothesis Hord : perm_oracle ord.

Let q := clamp01 p.
Let ES := contacts g (gnodes g).

(* expectation form, any return mode: random.choice stays random on both sides *)
Lemma dsir_law_expect_full : forall full (f : dout -> bool),
  prob f (law (basic_discrete_SIR g p ord (Some i0) r0o None tmin tmax full fuel)) ==
  expect q ES (fun kept =>
    prob f (law (discrete_SIR g (table_rules (tbl kept)) None ord (Some i0) r0o None tmin tmax full fuel))).
Proof.
  intros full f. destruct (arcs_nodup_props g Harcs) as [Hnd Hadj].
  unfold basic_discrete_SIR, basic_discrete_SIR_R, discrete_SIR. cbn [with_initial].
  rewrite <- (law_seqv _ _ _ (lazy_dloop g ord tmin tmax full p i0 (opt_list r0o) fuel O tmin _)).
  rewrite (deferred p dout f _ ES (all_arcs_NoDup g Hnd Hadj)
             (run_fresh g ord tmin tmax full Hnd Hadj Hord i0 (opt_list r0o) fuel)).
  apply expect_ext. intro kept.
  rewrite (law_seqv _ _ _ (eager_dloop_table g ord tmin tmax full (tbl kept) i0 (opt_list r0o) fuel O tmin _)).
  reflexivity.
Qed.

(* return_full_data = False: the deterministic rules of Model/Discrete.v, any pick table *)
Lemma dsir_law_expect : forall pick (f : dout -> bool),
  prob f (law (basic_discrete_SIR g p ord (Some i0) r0o None tmin tmax false fuel)) ==
  expect q ES (fun kept =>
    prob f (law (discrete_SIR g (det_rules (ttk kept) pick) None ord (Some i0) r0o None tmin tmax false fuel))).
Proof.
  intros pick f. rewrite dsir_law_expect_full. apply expect_ext. intro kept.
  unfold discrete_SIR. cbn [with_initial].
  rewrite <- (law_seqv _ _ _ (eager_dloop_table g ord tmin tmax false (tbl kept) i0 (opt_list r0o) fuel O tmin _)).
  rewrite (law_seqv _ _ _ (eager_dloop_det g ord tmin tmax (tbl kept) pick i0 (opt_list r0o) fuel O tmin _)).
  reflexivity.
Qed.

(* program form: "percolate first, then run" *)
Lemma dsir_law_deferred_full : forall full (f : dout -> bool),
  prob f (law (basic_discrete_SIR g p ord (Some i0) r0o None tmin tmax full fuel)) ==
  prob f (law (bind (perc_loop (simple_rules p) (contacts g (gnodes g)) [] [])
                    (fun kq => discrete_SIR g (table_rules (tbl (fst kq))) None ord (Some i0) r0o None tmin tmax full fuel))).
Proof.
  intros full f. rewrite dsir_law_expect_full. rewrite perc_expect. fold q. fold ES.
  apply expect_ext. intro kept. reflexivity.
Qed.

Lemma dsir_law_deferred : forall pick (f : dout -> bool),
  prob f (law (basic_discrete_SIR g p ord (Some i0) r0o None tmin tmax false fuel)) ==
  prob f (law (bind (perc_loop (simple_rules p) (contacts g (gnodes g)) [] [])
                    (fun kq => discrete_SIR g (det_rules (fun u v _ => meme (u, v) (fst kq)) pick) None ord
                                 (Some i0) r0o None tmin tmax false fuel))).
Proof.
  intros pick f. rewrite (dsir_law_expect pick). rewrite perc_expect. fold q. fold ES.
  apply expect_ext. intro kept. reflexivity.
Qed.

End Law.

(* ------------------------------------------------------------------ *)
(* Part 3: with dsir_bfs                                                 *)

Lemma prob_ret : forall A (f : A -> bool) a, prob f (law (Ret a)) == if f a then 1 else 0.
Proof. intros A f a. cbn [law]. unfold prob. cbn. destruct (f a); ring. Qed.

Section Bfs.
Variable g : graph.
Variable p : Q.
Variable ord : nat -> list node -> list node.
Variable i0 : list node.
Variable r0o : option (list node).
Variable tmin : Q.
Variable tmax : xtime.
Variable fuel : nat.
Hypothesis Harcs : arcs_nodupb g = true.
Hypothesis Hwf : wf_inputb g i0 (opt_list r0o) = true.
Hypothesis Hord : perm_oracle ord.
Hypothesis Hfuel : (length (gnodes g) < fuel)%nat.

Let q := clamp01 p.
Let ES := contacts g (gnodes g).
Let r0 := opt_list r0o.

(* the rows of the run are in law the rows of the BFS generations of the percolated digraph:
   h is (any version of) the indicator of F on the generation rows stopped at the first stop *)
Lemma dsir_rows_law : forall (F : list row -> bool) (h : list arc -> Q),
  (forall kept K, first_stop g (ttk kept) i0 r0 tmin tmax K ->
                  h kept == if F (l1_rows g (ttk kept) i0 r0 tmin K) then 1 else 0) ->
  prob (fun o => F (so_rows (o_sim o)))
       (law (basic_discrete_SIR g p ord (Some i0) r0o None tmin tmax false fuel)) ==
  expect q ES h.
Proof.
  intros F h Hh. rewrite (dsir_law_expect g p ord i0 r0o tmin tmax fuel Harcs Hord (fun _ _ => O)).
  fold q. fold ES. apply expect_ext. intro kept.
  destruct (dsir_bfs g (ttk kept) (fun _ _ => O) ord i0 r0o tmin tmax false fuel Hwf Hord Hfuel)
    as [K [out [Hst [Hrun [Hrows _]]]]].
  rewrite Hrun, prob_ret, Hrows. symmetry. apply Hh. exact Hst.
Qed.

(* the hypothesis on h above is met by the indicator computed from the deterministic run *)
Lemma rows_h_canon : forall (F : list row -> bool) kept K,
  first_stop g (ttk kept) i0 r0 tmin tmax K ->
  prob (fun o => F (so_rows (o_sim o)))
       (law (discrete_SIR g (det_rules (ttk kept) (fun _ _ => O)) None ord (Some i0) r0o None tmin tmax false fuel)) ==
  if F (l1_rows g (ttk kept) i0 r0 tmin K) then 1 else 0.
Proof.
  intros F kept K HK.
  destruct (dsir_bfs g (ttk kept) (fun _ _ => O) ord i0 r0o tmin tmax false fuel Hwf Hord Hfuel)
    as [K' [out [Hst [Hrun [Hrows _]]]]].
  rewrite (first_stop_unique g (ttk kept) i0 r0 tmin tmax K K' HK Hst).
  rewrite Hrun, prob_ret, Hrows. reflexivity.
Qed.

(* the run returns with probability 1 *)
Lemma dsir_mass_one :
  prob (fun _ => true) (law (basic_discrete_SIR g p ord (Some i0) r0o None tmin tmax false fuel)) == 1.
Proof.
  rewrite (dsir_law_expect g p ord i0 r0o tmin tmax fuel Harcs Hord (fun _ _ => O)).
  fold q. fold ES. transitivity (expect q ES (fun _ => 1)); [|apply expect_const].
  apply expect_ext. intro kept.
  destruct (dsir_bfs g (ttk kept) (fun _ _ => O) ord i0 r0o tmin tmax false fuel Hwf Hord Hfuel)
    as [K [out [_ [Hrun _]]]].
  rewrite Hrun, prob_ret. reflexivity.
Qed.

End Bfs.
