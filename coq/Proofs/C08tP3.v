(* C08, tree exactness on the path 0 - 1 - 2 (27 joint states), arbitrary rate functions tr, rc.
   Identities valid for EVERY p : state -> Q are proved by evaluation + `ring`:
     p3_open       marginals of the master equation = the unclosed moment system
     p3_tangent_eq d(minor)/dt along the master equation = dminor_expand (a linear combination of minors)
     p3_residual   closure residual = a sum of minors
   and combined with the graph-independent lemmas of C08tG / C08tS. *)
From EoNV Require Import Prelude Vec VecP Graph Rhs2D Rhs2DP Rhs2 Rhs2GenP Master C08tG C08tS.
From Coq Require Import Lqa Setoid Morphisms.

Ltac crunch := cbv beta iota zeta delta -[Qplus Qmult Qopp Qminus Qeq Qdiv Qinv inv0 Qle].
Ltac in3 H := cbn [In] in H; destruct H as [<-|[<-|[<-|[]]]].

Notation nl3 := (nodes_upto 3).
Lemma p3_wf : pb_wfb path3 nl3 idx_of = true. Proof. vm_compute. reflexivity. Qed.
Lemma p3_sep : sepb path3 nl3 1 (only 0) = true. Proof. vm_compute. reflexivity. Qed.

Section P3.
Variables (tr : node -> node -> Q) (rc : node -> Q).
Notation master := (master_rhs path3 nl3 idx_of tr rc).
Notation marg := (marginals path3 nl3).

Lemma p3_open p : veq (open_rhs path3 nl3 idx_of tr rc p) (marg (master p)).
Proof. crunch. repeat constructor; ring. Qed.

Lemma p3_tangent_all p :
  Forall (fun s1 => Forall (fun s2 =>
     dminor nl3 (only 0) p (master p) s1 s2 == dminor_expand path3 nl3 idx_of tr rc (only 0) p s1 s2) (slice nl3 1)) (slice nl3 1).
Proof. crunch. repeat constructor; ring. Qed.
Lemma p3_tangent_eq p s1 s2 : In s1 (slice nl3 1) -> In s2 (slice nl3 1) ->
  dminor nl3 (only 0) p (master p) s1 s2 == dminor_expand path3 nl3 idx_of tr rc (only 0) p s1 s2.
Proof.
  intros H1 H2. assert (A := p3_tangent_all p). rewrite Forall_forall in A. specialize (A s1 H1).
  rewrite Forall_forall in A. exact (A s2 H2).
Qed.

Lemma p3_residual p a b : In a [0; 1; 2]%N -> In b [0; 1; 2]%N ->
  m3 nl3 p a 0 stS 1 b 2 * mX nl3 p 1 - m2 nl3 p a 0 stS 1 * m2 nl3 p stS 1 b 2 == residual nl3 1 (only 0) p a 0 b 2 /\
  m3 nl3 p b 2 stS 1 a 0 * mX nl3 p 1 - m2 nl3 p b 2 stS 1 * m2 nl3 p stS 1 a 0 == residual nl3 1 (only 0) p a 0 b 2.
Proof. intros Ha Hb. in3 Ha; in3 Hb; split; crunch; ring. Qed.

Lemma p3_closure p a b : In a [0; 1; 2]%N -> In b [0; 1; 2]%N -> nonneg nl3 p -> inM nl3 1 (only 0) p ->
  closure_at nl3 p a 0 1 b 2 /\ closure_at nl3 p b 2 1 a 0.
Proof.
  intros Ha Hb Hp HM. destruct (p3_residual p a b Ha Hb) as [R1 R2].
  rewrite (inM_residual0 nl3 1 (only 0) p a 0%nat b 2%nat HM) in R1, R2.
  split; apply closure_of_product; try exact Hp; lra.
Qed.

Lemma p3_closure_on_paths p : nonneg nl3 p -> inM nl3 1 (only 0) p -> closure_on_paths path3 nl3 idx_of p.
Proof.
  intros Hp HM i j Hi Hj E.
  assert (C := fun a b Ha Hb => p3_closure p a b Ha Hb Hp HM).
  destruct i as [|[|[|i]]]; try (exfalso; cbv in Hi; lia); destruct j as [|[|[|j]]]; try (exfalso; cbv in Hj; lia);
    try (exfalso; vm_compute in E; discriminate E); split; intros w Hw; vm_compute in Hw;
    repeat (destruct Hw as [<-|Hw]); try contradiction;
    change (idx_of 0%N) with 0%nat; change (idx_of 2%N) with 2%nat;
    repeat (lazymatch goal with |- _ /\ _ => split end); lazymatch goal with
    | |- closure_at _ _ ?a 0 1 ?b 2 => exact (proj1 (C a b ltac:(cbn [In]; auto) ltac:(cbn [In]; auto)))
    | |- closure_at _ _ ?b 2 1 ?a 0 => exact (proj2 (C a b ltac:(cbn [In]; auto) ltac:(cbn [In]; auto)))
    end.
Qed.

(* (3) on M the pair-based right-hand side at the marginals of p is the marginal of the master equation *)
Theorem p3_exact_on_M p t : nonneg nl3 p -> inM nl3 1 (only 0) p ->
  veq (dSIR_pair_based path3 nl3 idx_of tr rc (marg p) t) (marg (master p)).
Proof.
  intros Hp HM. etransitivity; [|apply p3_open].
  apply (closed_eq_open path3 nl3 idx_of tr rc p3_wf p t). apply p3_closure_on_paths; assumption.
Qed.
(* the same over the definition regenerated from EoN/analytic.py on every run *)
Theorem p3_exact_on_M_generated p t : nonneg nl3 p -> inM nl3 1 (only 0) p ->
  veq (g_dSIR_pair_based (marg p) t path3 nl3 idx_of tr rc) (marg (master p)).
Proof.
  intros Hp HM. etransitivity; [apply (gen_dSIR_pair_based path3 nl3 idx_of tr rc p3_wf)|]. apply p3_exact_on_M; assumption.
Qed.
End P3.
