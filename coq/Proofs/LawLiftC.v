(* Law lift, symbolic rates on a single edge: the first jump of Gillespie_SIR from
   (u infectious, v susceptible) is the transmission with probability
   tau/(tau+gamma), and the race of LawLiftB.v keeps the arc u -> v with the same
   probability — for EVERY tau, gamma >= 0 not both zero (a theorem, not a finite
   check).  On a single edge the final size is 2 iff that transmission happens. *)
From EoNV Require Import Prelude Samp Graph ListDict ListDictP Gillespie KldP GillespieInv SampP GillespieP GillespieLaw LawLiftB.
From Coq Require Import Lqa.

Lemma clamp01_id : forall p, 0 <= p -> p <= 1 -> clamp01 p = p.
Proof.
  intros p H0 H1. unfold clamp01, Qltb. destruct (Qlt_le_dec p 0) as [H|H]; [exfalso; lra|].
  destruct (Qlt_le_dec 1 p) as [H'|H']; [exfalso; lra|reflexivity].
Qed.

Lemma frac_bounds : forall a b, 0 <= a -> 0 <= b -> 0 < a + b -> 0 <= a / (a + b) /\ a / (a + b) <= 1.
Proof.
  intros a b Ha Hb Hab. split.
  - apply Qle_shift_div_l; [exact Hab|lra].
  - apply Qle_shift_div_r; [exact Hab|lra].
Qed.

(* the race of one neighbour *)
Theorem race_single : forall g tau gamma u v,
  0 <= rrate g gamma u -> 0 <= trate g tau u v -> 0 < rrate g gamma u + trate g tau u v ->
  prob (fun K => mem v K) (law (race g tau gamma 1 u [v] [])) ==
  trate g tau u v / (rrate g gamma u + trate g tau u v).
Proof.
  intros g tau gamma u v Hr Ht Hpos. cbn [race map sumQ fold_right].
  set (r := rrate g gamma u) in *. set (t := trate g tau u v) in *.
  assert (Hq : Qltb 0 (r + (t + 0)) = true).
  { unfold Qltb. destruct (Qlt_le_dec 0 (r + (t + 0))); [reflexivity|exfalso; lra]. }
  rewrite Hq. cbn [law map concat scale app fst snd kpair].
  assert (Hp : 0 <= r / (r + (t + 0)) /\ r / (r + (t + 0)) <= 1).
  { assert (E : r + (t + 0) == r + t) by ring. rewrite E. apply frac_bounds; assumption. }
  rewrite (clamp01_id _ (proj1 Hp) (proj2 Hp)).
  unfold prob, wsum, sumQ. cbn [map fold_right fst snd mem existsb].
  rewrite N.eqb_refl. cbn [orb].
  destruct (Qeq_dec t 0) as [E0|E0].
  - rewrite E0. unfold Qdiv. ring.
  - field. repeat split; try exact E0; lra.
Qed.

(* Gillespie_SIR on the edge 0 - 1 started from node 0 *)
Lemma path2_wfg : wfg path2.
Proof.
  constructor; cbn [gadj ew nw path2 ugraph].
  - intro u. destruct u as [|[|?|]]; repeat constructor; cbn; intuition discriminate.
  - intro u. destruct u as [|[|?|]]; cbn; intuition discriminate.
  - intros u v. destruct u as [|[|?|]]; cbn; intros H; intuition (subst; cbn; auto).
  - intros; reflexivity.
  - intros; lra.
  - intros; lra.
Qed.

Theorem gil_single_edge : forall tau gamma, 0 <= tau -> 0 <= gamma -> 0 < gamma + tau ->
  exists s0 : gst,
    (* the state Gillespie_SIR starts its loop from *)
    (exists I L, init_sets path2 (st_init [0%N] []) [0%N] = Ok (I, L) /\
                 s0 = mkG (st_init [0%N] []) I L [(0, [2 - 1 - 0; 1; 0]%Z)] [] []) /\
    let trec := total_rec gamma s0 in
    let ttot := trec + total_tr tau s0 in
    ttot == gamma + tau /\
    prob (is_tr (kpair 0%N 1%N)) (law (jump_lbl trec ttot s0)) == tau / (gamma + tau) /\
    prob (is_rec (knode 0%N)) (law (jump_lbl trec ttot s0)) == gamma / (gamma + tau).
Proof.
  intros tau gamma Ht Hg Hpos.
  assert (Hnd : NoDup (gnodes path2)) by (cbn; repeat constructor; cbn; intuition discriminate).
  destruct (init_ginv path2 path2_wfg Hnd SIR 0 None [0%N] [] [] []) as [I [L [Ei HG]]].
  - repeat constructor; cbn; intuition.
  - constructor.
  - intros x [<-|[]]. cbn. auto.
  - intros x [].
  - intros y _ [].
  - intro E; discriminate E.
  - set (s0 := mkG (st_init [0%N] []) I L [(0, [order path2 - Z.of_nat 1 - Z.of_nat 0; Z.of_nat 1; Z.of_nat 0]%Z)] [] []) in *.
    exists s0. split; [exists I, L; split; [exact Ei|reflexivity]|].
    assert (EI : ld_total_weight key I == 1 /\ ld_total_weight key L == 1).
    { vm_compute in Ei. injection Ei as <- <-. split; vm_compute; reflexivity. }
    cbv zeta.
    assert (Etot : total_rec gamma s0 + total_tr tau s0 == gamma + tau).
    { unfold total_rec, total_tr. cbn [infs links s0]. destruct EI as [-> ->]. ring. }
    split; [exact Etot|].
    assert (Hpos' : 0 < total_rec gamma s0 + total_tr tau s0) by (rewrite Etot; exact Hpos).
    destruct (jump_law path2 path2_wfg tau gamma Ht Hg s0 (g_inv _ _ _ _ _ HG) Hpos') as [Jr [Jt _]].
    split.
    + rewrite (Jt 0%N 1%N); [|reflexivity|reflexivity|cbn; auto].
      rewrite Etot. unfold lw. cbn [ewt path2 ugraph]. field. lra.
    + rewrite (Jr 0%N); [|reflexivity]. rewrite Etot. unfold iw. cbn [nwt path2 ugraph]. field. lra.
Qed.
