(* fast_SIS: the clock structure (DESIGN C02, [fsis_clock_structure]).
   Every call of random.expovariate made by a run is annotated ([clk],
   Proofs/EventSISRel.v: the duration of an infection, or the next attempt of an ordered
   pair (u,v) during u's k-th infectious period, counted from a start time).  Proved
   here, for every run of [exec] and every quiescent state of its event loop:
     [clock_ok]  every attempt record is for an EDGE, and its start time is u's infection
        time, or the attempt time (start' + d') of an earlier record of the same pair, or
        — the single redraw — rec_time[v] = s_v + d_v of v's current infection, in which
        case the record just before it is the discarded attempt of the same pair and that
        attempt lies inside v's infectious period: s_v <= start' + d' < rec_time[v];
     [c_q]       every queued attempt time is start + d of such a record;
     [CIx]       no attempt that could succeed is skipped: while u is infectious, every
        neighbour v with a positive rate has a pending attempt in the queue, or the last
        clock of the pair rang at or after rec_time[u] or tmax, or rec_time[u] <=
        rec_time[v] (v stays infectious until u recovers). *)
From EoNV Require Import Prelude Samp Graph ListDict ListDictP Gillespie KldP GillespieInv SampP GillespieP GillespieLog.
From EoNV Require Import Investigation InvestigationP GillespieC10.
From EoNV Require Import EventSIS EventSISP EventSISP2 EventSISP4 EventSISRows EventSISLog EventSISTrace EventSISRel EventSISFast.
From Coq Require Import Permutation Sorted Lqa.

Lemma In_q_add : forall {E} tmax (q : queue E) t e x,
  In x (q_items (q_add tmax q t e)) <-> In x (q_items q) \/ (xlt t tmax = true /\ x = (t, q_ctr q, e)).
Proof.
  intros E tmax q t e x. unfold q_add. destruct (xlt t tmax) eqn:V; cbn [q_items].
  - split; intro H.
    + apply (Permutation_in _ (qins_perm _ _)) in H. destruct H as [<-|H]; [right; split; reflexivity|left; exact H].
    + apply (Permutation_in _ (Permutation_sym (qins_perm _ _))). destruct H as [H|[_ ->]]; [right; exact H|left; reflexivity].
  - split; [intro H; left; exact H|intros [H|[K _]]; [exact H|discriminate K]].
Qed.

Section Clock.
Variable g : graph.
Hypothesis Hnd : NoDup (gnodes g).
Hypothesis Hadj : forall u v, In v (gadj g u) -> In v (gnodes g).
Variables tau gamma : Q.
Variable tmax : xtime.
Variable tmin : Q.
Hypothesis Hvis : xlt tmin tmax = true.
Variable i0 : list node.
Hypothesis Hi0 : NoDup i0.
Hypothesis Hinc : incl i0 (gnodes g).

Notation fn_rel := (fn_rel g tau tmax).
Notation fna_rel := (fna_rel g tau tmax).
Notation after_rel := (after_rel g tau tmax).
Notation mt_rel := (mt_rel g tau gamma tmax).
Notation ml_rel := (ml_rel g tau gamma tmax).
Notation inf_state := (inf_state tmax).
Notation fin_state := (fin_state tmax).
Notation FInvP := (FInvP g tmax tmin i0).
Notation FCore := (FCore g tmax tmin).
Notation rate := (trans_rate g tau).

Definition elog_of (s : mst) : list ev := l_elog (ms_log s).

(* ---------------- justification of the records ---------------- *)
Definition just (elog : list ev) (pre : list clk) (c : clk) : Prop :=
  match c with
  | KRec v s d => In (s, v, stI) elog
  | KAtt u v k start d false =>
      In v (gadj g u) /\
      (In (start, u, stI) elog \/
       exists k' start' d' rd', In (KAtt u v k' start' d' rd') pre /\ start = tadd start' d')
  | KAtt u v k start d true =>
      In v (gadj g u) /\
      (exists pre' start' d' sv dv, pre = pre' ++ [KAtt u v k start' d' false] /\ tadd start' d' < start /\
        In (KRec v sv dv) pre /\ start = tadd sv dv /\ sv <= tadd start' d') /\
      (* rec_time[v] < rec_time[u] *)
      ((exists su du, In (KRec u su du) pre /\ start < tadd su du) \/ rec_rate g gamma u == 0)
  end.

Definition clock_ok (elog : list ev) (cs : list clk) : Prop :=
  forall pre c post, cs = pre ++ c :: post -> just elog pre c.

Lemma just_mono : forall e e' pre c, incl e e' -> just e pre c -> just e' pre c.
Proof.
  intros e e' pre c Hi H. destruct c as [v s d|u v k start d [|]]; cbn [just] in *.
  - apply Hi. exact H.
  - exact H.
  - destruct H as [A [B|B]]; (split; [exact A|]); [left; apply Hi; exact B|right; exact B].
Qed.

Lemma clock_ok_mono : forall e e' cs, incl e e' -> clock_ok e cs -> clock_ok e' cs.
Proof. intros e e' cs Hi H pre c post E. eapply just_mono; [exact Hi|]. apply (H pre c post E). Qed.

Lemma clock_ok_nil : forall e, clock_ok e [].
Proof. intros e pre c post E. destruct pre; discriminate E. Qed.

Lemma clock_ok_app : forall e acc new, clock_ok e acc ->
  (forall pre c post, new = pre ++ c :: post -> just e (acc ++ pre) c) -> clock_ok e (acc ++ new).
Proof.
  intros e acc new Ha Hn pre c post E. apply app_eq_app in E. destruct E as [l [[E1 E2]|[E1 E2]]].
  - destruct l as [|x l'].
    + cbn [app] in E2. rewrite app_nil_r in E1. subst pre. rewrite <- (app_nil_r acc). apply (Hn [] c post). symmetry. exact E2.
    + cbn [app] in E2. injection E2 as <- E2. apply (Ha pre c l' E1).
  - subst pre. apply (Hn l c post E2).
Qed.

(* ---------------- completeness: no clock is missing ---------------- *)
Definition Pend (s : mst) (u v : node) : Prop := exists t c, In (t, c, MTrans (Some u) v) (q_items (ms_q s)).
Definition late (s : mst) (u : node) (t : Q) : Prop := xtlt (Some t) (ms_rec s u) = false \/ xlt t tmax = false.
Definition Dead (acc : list clk) (s : mst) (u v : node) : Prop :=
  exists start d rd, In (KAtt u v (per s u) start d rd) acc /\ late s u (tadd start d).
Definition Blocked (s : mst) (u v : node) : Prop := xtlt (ms_rec s v) (ms_rec s u) = false.

Definition PDB (acc : list clk) (s : mst) (u v : node) : Prop := Pend s u v \/ Dead acc s u v \/ Blocked s u v.

(* [ex]: pairs whose clock is being set right now (inside one event) *)
Definition CIx (ex : node -> node -> Prop) (acc : list clk) (s : mst) : Prop :=
  forall u v, ~ ex u v -> ms_stat s u = stI -> In v (gadj g u) -> 0 < rate u v -> PDB acc s u v.

Lemma CIx_weaken : forall (ex1 ex2 : node -> node -> Prop) acc s,
  (forall a b, ex1 a b -> ex2 a b) -> CIx ex1 acc s -> CIx ex2 acc s.
Proof. intros ex1 ex2 acc s H K u v Hn. apply K. intro E. apply Hn. apply H. exact E. Qed.

Record CExtra (ex : node -> node -> Prop) (acc : list clk) (clock : Q) (s : mst) : Prop := mkCE {
  c_vis : xlt clock tmax = true;
  c_recQ : forall u, ms_stat s u = stI ->
             ms_rec s u = None \/
             exists r, ms_rec s u = Some r /\ (xlt r tmax = false \/ exists c, In (r, c, MRec u) (q_items (ms_q s)));
  c_RI : forall v r, ms_rec s v = Some r -> clock < r ->
           exists sv dv, In (KRec v sv dv) acc /\ r = tadd sv dv /\ sv <= clock;
  c_inf : forall u, ms_stat s u = stI -> ms_rec s u = None -> rec_rate g gamma u == 0;
  c_q : forall t c u v, In (t, c, MTrans (Some u) v) (q_items (ms_q s)) ->
          exists k start d rd, In (KAtt u v k start d rd) acc /\ t = tadd start d;
  c_just : clock_ok (elog_of s) acc;
  c_ci : CIx ex acc s
}.

(* an infectious node recovers no earlier than the clock *)
Lemma recI : forall ex acc clock s, CExtra ex acc clock s -> FCore clock s ->
  forall u, ms_stat s u = stI -> xtlt (ms_rec s u) (Some clock) = false.
Proof.
  intros ex acc clock s Hc Hf u Hu. destruct (c_recQ _ _ _ _ Hc u Hu) as [E|[r [E [V|[c Hin]]]]]; rewrite E; cbn [xtlt].
  - reflexivity.
  - apply Qltb_false. pose proof (c_vis _ _ _ _ Hc) as Vc.
    destruct tmax as [m|]; cbn [xlt] in *; [|discriminate V].
    destruct (Qlt_le_dec r m); [discriminate V|]. destruct (Qlt_le_dec clock m); [|discriminate Vc]. lra.
  - apply Qltb_false. pose proof (f_q _ _ _ _ _ Hf) as Hq. rewrite Forall_forall in Hq. apply (Hq _ Hin).
Qed.

(* ---------------- _find_next_trans_SIS_Markov sets the clock of its pair ---------------- *)
Definition origin (acc : list clk) (s : mst) (time : Q) (src tgt : node) : Prop :=
  In (time, src, stI) (elog_of s) \/
  exists k' start' d' rd', In (KAtt src tgt k' start' d' rd') acc /\ time = tadd start' d'.

Lemma PDB_qadd : forall acc cs s t e u v,
  PDB acc s u v -> PDB (acc ++ cs) (set_q s (q_add tmax (ms_q s) t e)) u v.
Proof.
  intros acc cs s t e u v [[t0 [c0 H]]|[[st [d [rd [H1 H2]]]]|H]].
  - left. exists t0, c0. cbn [set_q ms_q]. apply In_q_add. left. exact H.
  - right. left. exists st, d, rd. split; [apply in_or_app; left; exact H1|exact H2].
  - right. right. exact H.
Qed.
Lemma PDB_acc : forall acc cs s u v, PDB acc s u v -> PDB (acc ++ cs) s u v.
Proof.
  intros acc cs s u v [H|[[st [d [rd [H1 H2]]]]|H]]; [left; exact H| |right; right; exact H].
  right. left. exists st, d, rd. split; [apply in_or_app; left; exact H1|exact H2].
Qed.

Lemma fin_state_extra : forall ex acc cs clock s src tgt t,
  CExtra ex acc clock s -> clock <= t ->
  (exists k start d rd, In (KAtt src tgt k start d rd) (acc ++ cs) /\ t = tadd start d) ->
  clock_ok (elog_of s) (acc ++ cs) ->
  (0 < rate src tgt -> PDB (acc ++ cs) (fin_state src tgt s t) src tgt) ->
  CExtra (fun a b => ex a b /\ ~ (a = src /\ b = tgt)) (acc ++ cs) clock (fin_state src tgt s t).
Proof.
  intros ex acc cs clock s src tgt t [Hv Hq HR Hinf Hcq Hj Hci] Hct Hrec Hjust Hpair.
  assert (Hother : forall s', (s' = s \/ s' = set_q s (q_add tmax (ms_q s) t (MTrans (Some src) tgt))) ->
            forall u v, PDB acc s u v -> PDB (acc ++ cs) s' u v).
  { intros s' [->| ->] u v H; [apply PDB_acc; exact H|apply PDB_qadd; exact H]. }
  assert (Hcase : fin_state src tgt s t = s \/ fin_state src tgt s t = set_q s (q_add tmax (ms_q s) t (MTrans (Some src) tgt))).
  { destruct (fin_state_cases tmax src tgt s t) as [E|[E _]]; [left|right]; exact E. }
  constructor.
  - exact Hv.
  - intros u Hu. assert (Hu' : ms_stat s u = stI) by (destruct Hcase as [E|E]; rewrite E in Hu; exact Hu).
    destruct (Hq u Hu') as [E|[r [E [V|[c Hin]]]]].
    + left. destruct Hcase as [E'|E']; rewrite E'; exact E.
    + right. exists r. split; [destruct Hcase as [E'|E']; rewrite E'; exact E|left; exact V].
    + right. exists r. split; [destruct Hcase as [E'|E']; rewrite E'; exact E|]. right. exists c.
      destruct Hcase as [E'|E']; rewrite E'; [exact Hin|]. cbn [set_q ms_q]. apply In_q_add. left. exact Hin.
  - intros v r Er Hr. assert (Er' : ms_rec s v = Some r) by (destruct Hcase as [E|E]; rewrite E in Er; exact Er).
    destruct (HR v r Er' Hr) as [sv [dv [A B]]]. exists sv, dv. split; [apply in_or_app; left; exact A|exact B].
  - intros u Hu Er. apply Hinf; destruct Hcase as [E|E]; rewrite E in Hu, Er; assumption.
  - intros t0 c0 u v Hin. destruct Hcase as [E|E]; rewrite E in Hin.
    + destruct (Hcq t0 c0 u v Hin) as [k [st [d [rd [A B]]]]]. exists k, st, d, rd. split; [apply in_or_app; left; exact A|exact B].
    + cbn [set_q ms_q] in Hin. apply In_q_add in Hin. destruct Hin as [Hin|[_ Ex]].
      * destruct (Hcq t0 c0 u v Hin) as [k [st [d [rd [A B]]]]]. exists k, st, d, rd. split; [apply in_or_app; left; exact A|exact B].
      * injection Ex as -> _ -> ->. exact Hrec.
  - destruct Hcase as [E|E]; rewrite E; exact Hjust.
  - intros u v Hn Hu Hin Hr.
    assert (Hu' : ms_stat s u = stI) by (destruct Hcase as [E|E]; rewrite E in Hu; exact Hu).
    destruct (N.eq_dec u src) as [Eu|Eu]; [destruct (N.eq_dec v tgt) as [Ev|Ev]|].
    + subst u v. apply Hpair. exact Hr.
    + apply (Hother _ Hcase). apply Hci; try assumption. intro Hex. apply Hn. split; [exact Hex|]. intros [_ K]. contradiction.
    + apply (Hother _ Hcase). apply Hci; try assumption. intro Hex. apply Hn. split; [exact Hex|]. intros [K _]. contradiction.
Qed.

Lemma fin_state_pair : forall acc s src tgt k start d rd,
  In (KAtt src tgt k start d rd) acc -> k = per s src ->
  PDB acc (fin_state src tgt s (tadd start d)) src tgt.
Proof.
  intros acc s src tgt k start d rd Hin Ek. unfold EventSISRel.fin_state.
  destruct (xtlt (Some (tadd start d)) (ms_rec s src) && xlt (tadd start d) tmax) eqn:B.
  - left. exists (tadd start d), (q_ctr (ms_q s)). cbn [set_q ms_q]. apply In_q_add. right.
    apply andb_true_iff in B. split; [apply B|reflexivity].
  - right. left. exists start, d, rd. subst k. split; [exact Hin|]. unfold late.
    apply andb_false_iff in B. exact B.
Qed.

Lemma fn_rel_extra : forall ex acc clock time src tgt s s' cs,
  fn_rel time src tgt s s' cs -> CExtra ex acc clock s -> clock <= time -> In tgt (gadj g src) ->
  ms_stat s src = stI -> origin acc s time src tgt ->
  CExtra (fun a b => ex a b /\ ~ (a = src /\ b = tgt)) (acc ++ cs) clock s'.
Proof.
  intros ex acc clock time src tgt s s' cs H Hc Hct Ha HsI Hor.
  destruct H as [G|G Hz|d G Hr Hd Hre|d r d2 G Hr Hd Er Hlt Hd2].
  - (* guard fails: blocked *)
    rewrite app_nil_r. destruct Hc as [Hv Hq HR Hinf Hcq Hj Hci]. constructor; try assumption.
    intros u v Hn Hu Hin Hr. destruct (N.eq_dec u src) as [Eu|Eu]; [destruct (N.eq_dec v tgt) as [Ev|Ev]|].
    + subst u v. right. right. exact G.
    + apply Hci; try assumption. intro Hex. apply Hn. split; [exact Hex|]. intros [_ K]. contradiction.
    + apply Hci; try assumption. intro Hex. apply Hn. split; [exact Hex|]. intros [K _]. contradiction.
  - (* rate zero: nothing to set *)
    rewrite app_nil_r. destruct Hc as [Hv Hq HR Hinf Hcq Hj Hci]. constructor; try assumption.
    intros u v Hn Hu Hin Hr. destruct (N.eq_dec u src) as [Eu|Eu]; [destruct (N.eq_dec v tgt) as [Ev|Ev]|].
    + subst u v. exfalso. rewrite Hz in Hr. lra.
    + apply Hci; try assumption. intro Hex. apply Hn. split; [exact Hex|]. intros [_ K]. contradiction.
    + apply Hci; try assumption. intro Hex. apply Hn. split; [exact Hex|]. intros [K _]. contradiction.
  - (* one draw *)
    apply fin_state_extra; [exact Hc|rewrite tadd_eq; lra| | |].
    + exists (per s src), time, d, false. split; [apply in_or_app; right; left; reflexivity|reflexivity].
    + apply clock_ok_app; [apply (c_just _ _ _ _ Hc)|]. intros pre c post E.
      destruct pre as [|x [|y pre]]; try discriminate E. injection E as <- _. rewrite app_nil_r. cbn [just].
      split; [exact Ha|exact Hor].
    + intros _. apply (fin_state_pair _ s src tgt (per s src) time d false); [apply in_or_app; right; left; reflexivity|reflexivity].
  - (* the attempt falls inside tgt's infectious period: redraw from rec_time[tgt] *)
    apply fin_state_extra; [exact Hc|rewrite tadd_eq; rewrite tadd_eq in Hlt; lra| | |].
    + exists (per s src), r, d2, true. split; [apply in_or_app; right; right; left; reflexivity|reflexivity].
    + assert (Hclk : clock < r) by (rewrite tadd_eq in Hlt; lra).
      destruct (c_RI _ _ _ _ Hc tgt r Er Hclk) as [sv [dv [K1 [K2 K3]]]].
      apply clock_ok_app; [apply (c_just _ _ _ _ Hc)|]. intros pre c post E.
      destruct pre as [|x [|y pre]].
      * injection E as <- _. rewrite app_nil_r. cbn [just]. split; [exact Ha|exact Hor].
      * injection E as <- <- _. cbn [just]. split; [exact Ha|]. split.
        -- exists acc, time, d, sv, dv. split; [reflexivity|]. split; [exact Hlt|]. split; [apply in_or_app; left; exact K1|].
           split; [exact K2|]. rewrite tadd_eq. lra.
        -- destruct (ms_rec s src) as [ru|] eqn:Eu.
           ++ rewrite Er in G. cbn [xtlt] in G. apply Qltb_true in G.
              destruct (c_RI _ _ _ _ Hc src ru Eu) as [su [du [L1 [L2 _]]]]; [lra|].
              left. exists su, du. split; [apply in_or_app; left; exact L1|]. rewrite <- L2. exact G.
           ++ right. apply (c_inf _ _ _ _ Hc src HsI Eu).
      * destruct pre; discriminate E.
    + intros _. apply (fin_state_pair _ s src tgt (per s src) r d2 true); [apply in_or_app; right; right; left; reflexivity|reflexivity].
Qed.

Lemma CExtra_weaken : forall (ex1 ex2 : node -> node -> Prop) acc clock s,
  (forall a b, ex1 a b -> ex2 a b) -> CExtra ex1 acc clock s -> CExtra ex2 acc clock s.
Proof. intros ex1 ex2 acc clock s H [A B C D0 D E F]. constructor; try assumption. eapply CIx_weaken; eassumption. Qed.

Lemma fn_rel_qonly : forall time src tgt s s' cs, fn_rel time src tgt s s' cs -> qonly s s'.
Proof.
  intros time src tgt s s' cs H.
  assert (K : forall t, qonly s (fin_state src tgt s t)).
  { intro t. destruct (fin_state_cases tmax src tgt s t) as [->|[-> _]]; [apply qonly_refl|apply qonly_setq]. }
  destruct H; try apply qonly_refl; apply K.
Qed.

Lemma fna_rel_extra : forall time u nbrs s s' cs, fna_rel time u nbrs s s' cs ->
  forall (ex : node -> node -> Prop) acc clock,
  CExtra (fun a b => ex a b \/ (a = u /\ In b nbrs)) acc clock s -> clock <= time ->
  (forall v, In v nbrs -> In v (gadj g u)) -> In (time, u, stI) (elog_of s) -> ms_stat s u = stI ->
  CExtra ex (acc ++ cs) clock s'.
Proof.
  intros time u nbrs s s' cs H. induction H as [s|v rest s s1 s2 c1 c2 H1 H2 IH]; intros ex acc clock Hc Hct Hn Hlog HuI.
  - rewrite app_nil_r. eapply CExtra_weaken; [|exact Hc]. intros a b [E|[_ []]]. exact E.
  - rewrite app_assoc. apply IH; [|exact Hct|intros w Hw; apply Hn; right; exact Hw| |].
    + eapply CExtra_weaken; [|apply (fn_rel_extra _ acc clock time u v s s1 c1 H1 Hc Hct)].
      * intros a b [[E|[Ea [Eb|Eb]]] Hne]; [left; exact E| |right; split; assumption].
        exfalso. apply Hne. split; [exact Ea|symmetry; exact Eb].
      * apply Hn. left. reflexivity.
      * exact HuI.
      * left. exact Hlog.
    + destruct (fn_rel_qonly _ _ _ _ _ _ H1) as [_ [_ E]]. unfold elog_of. rewrite E. exact Hlog.
    + destruct (fn_rel_qonly _ _ _ _ _ _ H1) as [E _]. rewrite E. exact HuI.
Qed.

Lemma xtlt_xlt : forall r tm, xtlt (Some r) tm = xlt r tm.
Proof. intros r [m|]; reflexivity. Qed.

Lemma inf_count_other : forall elog t x s u, x <> u -> inf_count ((t, x, s) :: elog) u = inf_count elog u.
Proof.
  intros elog t x s u H. unfold inf_count. cbn [filter fst snd]. destruct (N.eqb_spec x u); [contradiction|]. reflexivity.
Qed.
Lemma inf_count_rec : forall elog t x u, inf_count ((t, x, stS) :: elog) u = inf_count elog u.
Proof.
  intros elog t x u. unfold inf_count. cbn [filter fst snd]. change (N.eqb stS stI) with false. rewrite andb_false_r. reflexivity.
Qed.

(* the infection of tgt: its own pairs are to be set by find_next_all *)
Lemma inf_extra : forall (ex : node -> node -> Prop) acc t src tgt s0 rt c0,
  CExtra ex acc t s0 -> FCore t s0 -> ms_stat s0 tgt = stS -> rec_draw g gamma t tgt rt c0 ->
  CExtra (fun a b => ex a b \/ (a = tgt /\ In b (gadj g tgt))) (acc ++ c0) t (inf_state t src tgt s0 rt).
Proof.
  intros ex acc t src tgt s0 rt c0 Hc Hf HS Hrd.
  pose proof (recI ex acc t s0 Hc Hf) as HrecI.
  destruct Hc as [Hv Hq HR Hinf Hcq Hj Hci].
  assert (Hqin : forall x, In x (q_items (ms_q s0)) -> In x (q_items (ms_q (inf_state t src tgt s0 rt)))).
  { intros x Hx. cbn [EventSISRel.inf_state ms_q]. destruct rt as [r|]; [|exact Hx].
    destruct (xtlt (Some r) tmax); [|exact Hx]. apply In_q_add. left. exact Hx. }
  constructor.
  - exact Hv.
  - intros u Hu. cbn [EventSISRel.inf_state ms_stat ms_rec] in *. destruct (N.eq_dec u tgt) as [E|Ne].
    + subst u. rewrite fupdN_same. destruct rt as [r|]; [|left; reflexivity]. right. exists r. split; [reflexivity|].
      cbn [EventSISRel.inf_state ms_q]. rewrite xtlt_xlt. destruct (xlt r tmax) eqn:V; [|left; reflexivity].
      right. exists (q_ctr (ms_q s0)). apply In_q_add. right. split; [exact V|reflexivity].
    + rewrite fupdN_other in Hu by exact Ne. rewrite fupdN_other by exact Ne.
      destruct (Hq u Hu) as [E|[r [E [V|[c Hin]]]]]; [left; exact E|right; exists r; split; [exact E|left; exact V]|].
      right. exists r. split; [exact E|]. right. exists c. apply Hqin. exact Hin.
  - intros v r Er Hr. cbn [EventSISRel.inf_state ms_rec] in Er. destruct (N.eq_dec v tgt) as [E|Ne].
    + subst v. rewrite fupdN_same in Er. destruct Hrd as [d Hpos Hd|Hz]; [|discriminate Er]. injection Er as <-.
      exists t, d. split; [apply in_or_app; right; left; reflexivity|]. split; [reflexivity|lra].
    + rewrite fupdN_other in Er by exact Ne.
      destruct (HR v r Er Hr) as [sv [dv [A B]]]. exists sv, dv. split; [apply in_or_app; left; exact A|exact B].
  - intros u Hu Er. cbn [EventSISRel.inf_state ms_stat ms_rec] in Hu, Er. destruct (N.eq_dec u tgt) as [E|Ne].
    + subst u. rewrite fupdN_same in Er. destruct Hrd as [d Hpos Hd|Hz]; [discriminate Er|exact Hz].
    + rewrite fupdN_other in Hu by exact Ne. rewrite fupdN_other in Er by exact Ne. apply Hinf; assumption.
  - intros t0 c0' u v Hin. cbn [EventSISRel.inf_state ms_q] in Hin.
    assert (Hold : In (t0, c0', MTrans (Some u) v) (q_items (ms_q s0))).
    { destruct rt as [r|]; [|exact Hin]. destruct (xtlt (Some r) tmax); [|exact Hin].
      apply In_q_add in Hin. destruct Hin as [Hin|[_ E]]; [exact Hin|discriminate E]. }
    destruct (Hcq t0 c0' u v Hold) as [k [st [d [rd [A B]]]]]. exists k, st, d, rd. split; [apply in_or_app; left; exact A|exact B].
  - unfold elog_of. cbn [EventSISRel.inf_state ms_log log_inf l_elog].
    assert (Hmono : clock_ok ((t, tgt, stI) :: l_elog (ms_log s0)) acc).
    { eapply clock_ok_mono; [|exact Hj]. intros x Hx. right. exact Hx. }
    destruct Hrd as [d Hpos Hd|Hz]; [|rewrite app_nil_r; exact Hmono].
    apply clock_ok_app; [exact Hmono|]. intros pre c post E. destruct pre as [|x pre]; [|destruct pre; discriminate E].
    injection E as <- _. cbn [just]. left. reflexivity.
  - intros a b Hn Ha Hin Hr. cbn [EventSISRel.inf_state ms_stat] in Ha.
    destruct (N.eq_dec a tgt) as [E|Ne]; [exfalso; apply Hn; right; split; [exact E|rewrite <- E; exact Hin]|].
    rewrite fupdN_other in Ha by exact Ne.
    assert (Hold : PDB acc s0 a b) by (apply Hci; try assumption; intro E; apply Hn; left; exact E).
    destruct Hold as [[t0 [c1 H]]|[[st [d [rd [H1 H2]]]]|H]].
    + left. exists t0, c1. apply Hqin. exact H.
    + right. left. exists st, d, rd. split.
      * apply in_or_app. left. unfold per in *. cbn [EventSISRel.inf_state ms_log log_inf l_elog].
        rewrite inf_count_other by (intro E; apply Ne; symmetry; exact E). exact H1.
      * unfold late in *. cbn [EventSISRel.inf_state ms_rec]. rewrite fupdN_other by exact Ne. exact H2.
    + right. right. unfold Blocked in *. cbn [EventSISRel.inf_state ms_rec]. rewrite (fupdN_other _ tgt rt a Ne).
      destruct (N.eq_dec b tgt) as [Eb|Nb]; [subst b; rewrite fupdN_same|rewrite fupdN_other by exact Nb; exact H].
      destruct (f_K _ _ _ _ _ Hf tgt HS) as [r0 [E0 Hr0]]. rewrite E0 in H.
      pose proof (HrecI a Ha) as Hra. destruct (ms_rec s0 a) as [ra|]; [|discriminate H].
      cbn [xtlt] in H, Hra. apply Qltb_false in H. apply Qltb_false in Hra.
      destruct Hrd as [d Hpos Hd|Hz]; [|reflexivity]. cbn [xtlt]. apply Qltb_false. rewrite tadd_eq. lra.
Qed.

(* popping a transmission event: its own pair waits for the clock set at the end of the event *)
Lemma pop_tr_extra : forall acc clock s t c src tgt rest,
  CExtra (fun _ _ => False) acc clock s -> clock <= t -> xlt t tmax = true ->
  q_items (ms_q s) = (t, c, MTrans src tgt) :: rest ->
  CExtra (fun a b => src = Some a /\ b = tgt) acc t (pop_state s rest).
Proof.
  intros acc clock s t c src tgt rest [Hv Hq HR Hinf Hcq Hj Hci] Hct Hx Eq. constructor.
  - exact Hx.
  - intros u Hu. cbn [pop_state set_q ms_stat ms_rec ms_q q_items] in *.
    destruct (Hq u Hu) as [E|[r [E [V|[c' Hin]]]]]; [left; exact E|right; exists r; split; [exact E|left; exact V]|].
    right. exists r. split; [exact E|]. right. exists c'. rewrite Eq in Hin. destruct Hin as [K|K]; [discriminate K|exact K].
  - intros v r Er Hr. cbn [pop_state set_q ms_rec] in Er. destruct (HR v r Er) as [sv [dv [A [B C]]]]; [lra|].
    exists sv, dv. split; [exact A|]. split; [exact B|lra].
  - intros u Hu Er. cbn [pop_state set_q ms_stat ms_rec] in Hu, Er. apply Hinf; assumption.
  - intros t0 c0 u v Hin. cbn [pop_state set_q ms_q q_items] in Hin. apply (Hcq t0 c0 u v). rewrite Eq. right. exact Hin.
  - exact Hj.
  - intros a b Hn Ha Hin Hr. cbn [pop_state set_q ms_stat] in Ha.
    destruct (Hci a b (fun F => F) Ha Hin Hr) as [[t0 [c0 H]]|[H|H]].
    + rewrite Eq in H. destruct H as [K|K].
      * exfalso. injection K as _ _ K1 K2. apply Hn. split; [exact K1|symmetry; exact K2].
      * left. exists t0, c0. exact K.
    + right. left. exact H.
    + right. right. exact H.
Qed.

Lemma rec_extra : forall acc clock s t c v rest,
  CExtra (fun _ _ => False) acc clock s -> clock <= t -> xlt t tmax = true ->
  q_items (ms_q s) = (t, c, MRec v) :: rest ->
  CExtra (fun _ _ => False) acc t (m_recover t v (pop_state s rest)).
Proof.
  intros acc clock s t c v rest [Hv Hq HR Hinf Hcq Hj Hci] Hct Hx Eq. constructor.
  - exact Hx.
  - intros u Hu. cbn [m_recover pop_state set_q ms_stat ms_rec ms_q q_items] in *.
    destruct (N.eq_dec u v) as [E|Ne]; [subst u; rewrite fupdN_same in Hu; discriminate Hu|]. rewrite fupdN_other in Hu by exact Ne.
    destruct (Hq u Hu) as [E|[r [E [V|[c' Hin]]]]]; [left; exact E|right; exists r; split; [exact E|left; exact V]|].
    right. exists r. split; [exact E|]. right. exists c'. rewrite Eq in Hin. destruct Hin as [K|K]; [|exact K].
    exfalso. injection K as _ _ K. apply Ne. symmetry. exact K.
  - intros w r Er Hr. cbn [m_recover pop_state set_q ms_rec] in Er. destruct (HR w r Er) as [sv [dv [A [B C]]]]; [lra|].
    exists sv, dv. split; [exact A|]. split; [exact B|lra].
  - intros u Hu Er. cbn [m_recover pop_state set_q ms_stat ms_rec] in Hu, Er.
    destruct (N.eq_dec u v) as [E|Ne]; [subst u; rewrite fupdN_same in Hu; discriminate Hu|]. rewrite fupdN_other in Hu by exact Ne.
    apply Hinf; assumption.
  - intros t0 c0 u w Hin. cbn [m_recover pop_state set_q ms_q q_items] in Hin. apply (Hcq t0 c0 u w). rewrite Eq. right. exact Hin.
  - unfold elog_of. cbn [m_recover pop_state set_q ms_log log_rec l_elog]. eapply clock_ok_mono; [|exact Hj]. intros x Hx'. right. exact Hx'.
  - intros a b _ Ha Hin Hr. cbn [m_recover pop_state set_q ms_stat] in Ha.
    destruct (N.eq_dec a v) as [E|Ne]; [subst a; rewrite fupdN_same in Ha; discriminate Ha|]. rewrite fupdN_other in Ha by exact Ne.
    destruct (Hci a b (fun F => F) Ha Hin Hr) as [[t0 [c0 H]]|[[st [d [rd [H1 H2]]]]|H]].
    + rewrite Eq in H. destruct H as [K|K]; [discriminate K|]. left. exists t0, c0. exact K.
    + right. left. exists st, d, rd. split; [|exact H2].
      unfold per in *. cbn [m_recover pop_state set_q ms_log log_rec l_elog]. rewrite inf_count_rec. exact H1.
    + right. right. exact H.
Qed.

Lemma after_extra : forall acc clock time src tgt s s' cs,
  after_rel time src tgt s s' cs -> CExtra (fun a b => src = Some a /\ b = tgt) acc clock s -> clock <= time ->
  (forall u, src = Some u -> In tgt (gadj g u) /\ ms_stat s u = stI /\
     exists k st d rd, In (KAtt u tgt k st d rd) acc /\ time = tadd st d) ->
  CExtra (fun _ _ => False) (acc ++ cs) clock s'.
Proof.
  intros acc clock time src tgt s s' cs H Hc Hct Hsrc. destruct H as [E|u s' c E H].
  - rewrite app_nil_r. eapply CExtra_weaken; [|exact Hc]. intros a b [K _]. rewrite E in K. discriminate K.
  - destruct (Hsrc u E) as [Ha [HuI Hor]].
    eapply CExtra_weaken; [|apply (fn_rel_extra _ acc clock time u tgt s s' c H Hc Hct Ha HuI); right; exact Hor].
    intros a b [[K1 K2] Hne]. apply Hne. rewrite E in K1. injection K1 as <-. split; [reflexivity|exact K2].
Qed.

Lemma In_app_l : forall (A : Type) (x : A) l l', In x l -> In x (l ++ l').
Proof. intros. apply in_or_app. left. assumption. Qed.

Lemma mt_extra : forall acc t src tgt s0 s1 c1,
  FCore t s0 -> CExtra (fun a b => src = Some a /\ b = tgt) acc t s0 ->
  (forall u, src = Some u -> In tgt (gadj g u) /\ ms_stat s0 u = stI /\
     exists k st d rd, In (KAtt u tgt k st d rd) acc /\ t = tadd st d) ->
  mt_rel t src tgt s0 s1 c1 -> CExtra (fun _ _ => False) (acc ++ c1) t s1.
Proof.
  intros acc t src tgt s0 s1 c1 Hf Hc Hsrc H.
  destruct H as [s' c HnS Haf|rt c0 s1 c1 s2 c2 HS Hrd Hfna Haf].
  - apply (after_extra acc t t src tgt s0 s' c Haf Hc); [lra|exact Hsrc].
  - pose proof (inf_extra _ acc t src tgt s0 rt c0 Hc Hf HS Hrd) as H1.
    pose proof (fna_rel_extra t tgt (gadj g tgt) _ s1 c1 Hfna _ (acc ++ c0) t H1) as H2.
    assert (HtI : ms_stat (inf_state t src tgt s0 rt) tgt = stI) by (cbn [EventSISRel.inf_state ms_stat]; apply fupdN_same).
    rewrite !app_assoc. apply (after_extra _ t t src tgt s1 s2 c2 Haf); [|lra|].
    + apply H2; [lra|intros v Hv; exact Hv| |exact HtI]. unfold elog_of. cbn [EventSISRel.inf_state ms_log log_inf l_elog]. left. reflexivity.
    + intros u E. destruct (Hsrc u E) as [A [A2 [k [st [d [rd [B C]]]]]]]. split; [exact A|]. split.
      * assert (Hq : qonly (inf_state t src tgt s0 rt) s1).
        { clear -Hfna. induction Hfna as [s|v rest s sa sb ca cb Ha Hb IH]; [apply qonly_refl|].
          eapply qonly_trans; [apply (fn_rel_qonly _ _ _ _ _ _ Ha)|exact IH]. }
        destruct Hq as [Es _]. rewrite Es. cbn [EventSISRel.inf_state ms_stat]. unfold fupdN. destruct (N.eqb u tgt); [reflexivity|exact A2].
      * exists k, st, d, rd. split; [|exact C]. apply In_app_l. apply In_app_l. exact B.
Qed.

(* ---------------- every quiescent state of every run ---------------- *)
Definition CI (acc : list clk) (s : mst) : Prop :=
  exists clock, FInvP [] clock s /\ CExtra (fun _ _ => False) acc clock s.

Lemma CI_init : CI [] (m_init g tmax tmin i0).
Proof.
  exists tmin. split; [apply (FInv_init g tmax tmin Hvis i0)|].
  destruct (init_front tmax tmin (fun u => MTrans None u) i0 [] 0 Hvis (Forall_nil _)) as [P' [E1 [E2 _]]].
  cbn [app] in E1. fold (@q_empty mev) in E1.
  constructor.
  - exact Hvis.
  - intros u H. discriminate H.
  - intros v r Er Hr. cbn [m_init ms_rec] in Er. injection Er as <-. lra.
  - intros u H. discriminate H.
  - intros t c u v Hin. cbn [m_init ms_q] in Hin. rewrite E1 in Hin.
    assert (K : In (MTrans (Some u) v) (map snd P')) by (apply (in_map snd) in Hin; exact Hin).
    rewrite E2 in K. apply in_map_iff in K. destruct K as [w [E _]]. discriminate E.
  - apply clock_ok_nil.
  - intros u v _ H. discriminate H.
Qed.

Lemma CI_rec : forall acc s t c v rest,
  CI acc s -> q_items (ms_q s) = (t, c, MRec v) :: rest -> CI acc (m_recover t v (pop_state s rest)).
Proof.
  intros acc s t c v rest [clock [Hf Hc]] Eq. exists t. split.
  - apply (rec_pres g Hnd tmax tmin i0 Hi0 Hinc clock s t c v rest Hf Eq).
  - destruct (FInv_pop g tmax tmin i0 clock s t c (MRec v) rest Hf Eq) as [Hct [Hx _]].
    apply (rec_extra acc clock s t c v rest Hc Hct Hx Eq).
Qed.

Lemma CI_tr : forall acc s t c src tgt rest s1 c1,
  CI acc s -> q_items (ms_q s) = (t, c, MTrans src tgt) :: rest ->
  mt_rel t src tgt (pop_state s rest) s1 c1 -> CI (acc ++ c1) s1.
Proof.
  intros acc s t c src tgt rest s1 c1 [clock [Hf Hc]] Eq Hm. exists t.
  destruct (FInv_pop g tmax tmin i0 clock s t c (MTrans src tgt) rest Hf Eq)
    as [Hct [Hx [Hsrc [_ [Hcore Hpop]]]]].
  split.
  - apply (mt_rel_pres g Hnd Hadj tau gamma tmax tmin i0 Hi0 Hinc t src tgt (pop_state s rest) s1 c1 Hcore Hpop Hx); [|exact Hm].
    intros u ->. unfold src_ok in Hsrc. cbn [snd qtime fst] in Hsrc. exact Hsrc.
  - apply (mt_extra acc t src tgt (pop_state s rest) s1 c1 Hcore); [| |exact Hm].
    + apply (pop_tr_extra acc clock s t c src tgt rest Hc Hct Hx Eq).
    + intros u ->. unfold src_ok in Hsrc. cbn [snd qtime fst] in Hsrc. destruct Hsrc as [HuI [_ Ha]].
      split; [apply mem_In; exact Ha|]. split; [exact HuI|]. apply (c_q _ _ _ _ Hc t c u tgt). rewrite Eq. left. reflexivity.
Qed.

(* the run, with the property established at every head of the loop *)
Inductive ml_via (P : list clk -> mst -> Prop) : list clk -> mst -> mst -> list clk -> Prop :=
| via_done : forall acc s, P acc s -> q_items (ms_q s) = [] -> ml_via P acc s s []
| via_rec : forall acc s t c v rest s' cs, P acc s -> q_items (ms_q s) = (t, c, MRec v) :: rest ->
    ml_via P acc (m_recover t v (pop_state s rest)) s' cs -> ml_via P acc s s' cs
| via_tr : forall acc s t c src tgt rest s1 c1 s' c2, P acc s -> q_items (ms_q s) = (t, c, MTrans src tgt) :: rest ->
    mt_rel t src tgt (pop_state s rest) s1 c1 -> ml_via P (acc ++ c1) s1 s' c2 -> ml_via P acc s s' (c1 ++ c2).

Lemma ml_rel_via : forall s s' cs, ml_rel s s' cs -> forall acc, CI acc s -> ml_via CI acc s s' cs /\ CI (acc ++ cs) s'.
Proof.
  intros s s' cs H. induction H as [s Eq|s t c v rest s' cs Eq H IH|s t c src tgt rest s1 c1 s' c2 Eq Hm H IH]; intros acc Hi.
  - split; [apply via_done; assumption|rewrite app_nil_r; exact Hi].
  - destruct (IH acc (CI_rec acc s t c v rest Hi Eq)) as [A B]. split; [eapply via_rec; eassumption|exact B].
  - destruct (IH (acc ++ c1) (CI_tr acc s t c src tgt rest s1 c1 Hi Eq Hm)) as [A B].
    split; [eapply via_tr; eassumption|rewrite app_assoc; exact B].
Qed.

(* edges only *)
Lemma clock_ok_edges : forall elog cs, clock_ok elog cs ->
  forall u v k st d rd, In (KAtt u v k st d rd) cs -> In v (gadj g u).
Proof.
  intros elog cs H u v k st d rd Hin. apply in_split in Hin. destruct Hin as [pre [post E]].
  specialize (H pre _ post E). destruct rd; cbn [just] in H; apply H.
Qed.

Theorem fsis_clock_structure_run : forall full fuel ds out tr,
  exec (fast_SIS g tau gamma tmax (Some i0) None tmin full fuel) ds [] = (Ok out, tr) ->
  exists (cs : list clk) (s' : mst),
    tr = map (fun c => fst (clk_call g tau gamma c)) cs /\
    map (fun c => snd (clk_call g tau gamma c)) cs = firstn (length cs) ds /\
    out = finish g tmin full (length i0) (ms_log s') /\
    clock_ok (l_elog (ms_log s')) cs /\
    ml_via CI [] (m_init g tmax tmin i0) s' cs.
Proof.
  intros full fuel ds out tr H.
  destruct (fast_SIS_reachT g tau gamma tmax i0 tmin full fuel ds out tr H) as [s' [cs [H1 [H2 [H3 [H4 H5]]]]]].
  destruct (ml_rel_via _ _ _ H1 [] CI_init) as [A [clock [_ B]]].
  exists cs, s'. split; [exact H4|]. split; [exact H5|]. split; [exact H3|]. split; [apply (c_just _ _ _ _ B)|exact A].
Qed.

(* ---------------- reading [CI] ---------------- *)
(* at a head of the loop: every queued attempt is start + d of a record, and no clock is missing *)
Lemma CI_read : forall acc s, CI acc s ->
  (forall t c u v, In (t, c, MTrans (Some u) v) (q_items (ms_q s)) ->
     exists k start d rd, In (KAtt u v k start d rd) acc /\ t = tadd start d) /\
  (forall u v, ms_stat s u = stI -> In v (gadj g u) -> 0 < rate u v ->
     Pend s u v \/ Dead acc s u v \/ Blocked s u v).
Proof.
  intros acc s [clock [_ Hc]]. split; [apply (c_q _ _ _ _ Hc)|].
  intros u v Hu Hin Hr. apply (c_ci _ _ _ _ Hc u v (fun F => F) Hu Hin Hr).
Qed.

(* an ENABLED pair (u infectious, v susceptible): "blocked" can only mean that u's recovery is due at
   this very instant (rec_time[u] is not later than v's last recovery, which is in the past) *)
Lemma CI_enabled_pair : forall acc s, CI acc s ->
  forall u v, ms_stat s u = stI -> ms_stat s v = stS -> In v (gadj g u) -> 0 < rate u v ->
    Pend s u v \/ Dead acc s u v \/
    exists ru rv, ms_rec s u = Some ru /\ ms_rec s v = Some rv /\ ru <= rv /\
                  Forall (fun x => rv <= qtime x) (q_items (ms_q s)).
Proof.
  intros acc s [clock [[Hf Hp] Hc]] u v Hu Hv Hin Hr.
  destruct (c_ci _ _ _ _ Hc u v (fun F => F) Hu Hin Hr) as [H|[H|H]]; [left; exact H|right; left; exact H|].
  right. right. unfold Blocked in H. destruct (f_K _ _ _ _ _ Hf v Hv) as [rv [Ev Hrv]]. rewrite Ev in H.
  destruct (ms_rec s u) as [ru|] eqn:Eu; [|discriminate H]. cbn [xtlt] in H. apply Qltb_false in H.
  exists ru, rv. split; [reflexivity|]. split; [exact Ev|]. split; [exact H|].
  eapply Forall_impl; [|apply (f_q _ _ _ _ _ Hf)]. intros x Hx. cbn beta in Hx. lra.
Qed.

End Clock.
