(* Gillespie_complex_contagion (Model/Complex.v): the bookkeeping invariant
   "nodes_by_rate = {u -> rate u status | rate u status > 0}" is established by
   the initial fill and preserved by every event, for ARBITRARY user functions
   with non-negative rates and a covering influence set; consequences: the rate
   handed to expovariate is the sum of the current rates, the law of the jump,
   the stopping condition, absence of crashes, rows count the statuses. *)
From EoNV Require Import Prelude Samp Graph ListDict ListDictP Gillespie KldP GillespieInv Complex.
From Coq Require Import Lqa Permutation.

(* ---------- insert(item, weight) on a weighted structure, key by key ---------- *)
Lemma kl_insert_spec : forall (L : kld) k w,
  kinv L -> weighted L = true -> 0 <= w ->
  exists L', kl_insert L k w = Ok L' /\ kinv L' /\ weighted L' = true /\
             oQeq (kabs L' k) (if Qltb 0 w then Some w else None) /\
             forall x, x <> k -> oQeq (kabs L' x) (kabs L x).
Proof.
  intros L k w Hinv Hw Hnn. unfold kl_insert.
  destruct (ld_insert_spec key keqb keqb_spec L k w Hinv Hw Hnn) as [L' [He [Hi [Hw' Ha]]]].
  exists L'. split; [exact He|]. split; [exact Hi|]. split; [exact Hw'|]. split.
  - eapply oQeq_trans; [apply Ha|]. unfold sp_insert, sp_remove, fupd.
    destruct (Qeqb w 0) eqn:E0; rewrite keqb_refl.
    + apply Qeqb_true in E0. destruct (Qltb 0 w) eqn:El; [|exact I].
      apply Qltb_true in El. exfalso. rewrite E0 in El. apply (Qlt_irrefl 0). exact El.
    + apply Qeqb_false in E0. destruct (Qltb 0 w) eqn:El.
      * cbn [oQeq]. reflexivity.
      * apply Qltb_false in El. exfalso. apply E0. apply Qle_antisym; assumption.
  - intros x Hx. eapply oQeq_trans; [apply Ha|]. unfold sp_insert, sp_remove, fupd.
    destruct (Qeqb w 0); rewrite (keqb_neq x k Hx); apply oQeq_refl.
Qed.

Lemma knode_inj : forall u v, knode u = knode v -> u = v.
Proof. intros u v H. injection H as H. exact H. Qed.

(* ---------- the scripted choose_random returns one of the candidates ---------- *)
Lemma choose_exec_cases : forall n w c ds tr, (length ds <= n)%nat ->
  match choose_exec w c ds tr with
  | (Ok x, _, _) => exists wt, In (x, wt) c
  | (Err e, _, _) => e = OutOfDraws \/ (e = IndexErr /\ c = [])
  end.
Proof.
  induction n as [|n IH]; intros w c ds tr Hlen.
  - destruct ds; [|cbn in Hlen; lia]. destruct c; cbn [choose_exec]; [right|left]; auto.
  - destruct c as [|c0 c]; [destruct ds; cbn [choose_exec]; right; auto|].
    destruct ds as [|r ds1]; [cbn [choose_exec]; left; reflexivity|].
    cbn [choose_exec].
    destruct (nth_error (c0 :: c) (rank r)) as [[x wt]|] eqn:En; [|left; reflexivity].
    destruct w.
    + destruct ds1 as [|a ds2]; [left; reflexivity|].
      destruct (Qltb 0 wt).
      * exists wt. apply nth_error_In with (rank r). exact En.
      * apply IH. cbn [length] in Hlen. lia.
    + exists wt. apply nth_error_In with (rank r). exact En.
Qed.

(* the scripted choose_random only consumes draws *)
Lemma choose_exec_rest : forall n w c ds tr, (length ds <= n)%nat ->
  (length (snd (choose_exec w c ds tr)) <= length ds)%nat.
Proof.
  induction n as [|n IH]; intros w c ds tr Hlen.
  - destruct ds; [|cbn in Hlen; lia]. destruct c; cbn; lia.
  - destruct c as [|c0 c]; [destruct ds; cbn [choose_exec snd]; lia|].
    destruct ds as [|r ds1]; [cbn; lia|].
    cbn [choose_exec].
    destruct (nth_error (c0 :: c) (rank r)) as [[x wt]|]; [|cbn [snd length]; lia].
    destruct w; [|cbn [snd length]; lia].
    destruct ds1 as [|a ds2]; [cbn [snd length]; lia|].
    destruct (Qltb 0 wt); [cbn [snd length]; lia|].
    cbn [length] in Hlen. specialize (IH true (c0 :: c) ds2 (CAcc wt :: CPick (map fst (c0 :: c)) :: tr)).
    cbn [length]. assert (H : (length ds2 <= n)%nat) by lia. specialize (IH H). lia.
Qed.

Section CP.
Variable g : graph.
Variable rate : smap -> node -> Q.
Variable choice : smap -> node -> N.
Variable infl : smap -> node -> list node.
Variable rstats : list N.
Variable tmin : Q.
Variable tmax : xtime.
Variable full : bool.

(* the domain of the property *)
Hypothesis Hnd : NoDup (gnodes g).
Hypothesis rate_nonneg : forall st u, 0 <= rate st u.
Hypothesis infl_in : forall st u v, In u (gnodes g) -> In v (infl st u) -> In v (gnodes g).

(* "the influence set covers every node whose rate can change": if giving v the
   status s changes the rate of u, then u = v or u is in the influence set of v
   (computed, as the code does, on the statuses after the change) *)
Definition influence_covers : Prop :=
  forall st v s u, In u (gnodes g) -> ~ rate (fupdN st v s) u == rate st u ->
    u = v \/ In u (infl (fupdN st v s) v).

Notation refresh := (refresh g rate).
Notation fill := (fill g rate).
Notation apply_event := (apply_event g rate choice infl rstats full).
Notation jump := (jump choice).
Notation cloop := (cloop g rate choice infl rstats tmin tmax full).
Notation cfinish := (cfinish g rstats tmin full).
Notation event := (event g rate choice infl rstats full).
Notation counts := (counts g rstats).
Notation bump := (bump rstats).

(* L0: the weighted set computed from scratch from the statuses *)
Definition rspec (st : smap) (k : key) : option Q :=
  match k with
  | [u] => if mem u (gnodes g) && Qltb 0 (rate st u) then Some (rate st u) else None
  | _ => None
  end.

Definition total_rate (st : smap) : Q := sumQ (map (rate st) (gnodes g)).

Record cinv (s : cst) : Prop := {
  ci_ld : kinv (cnbr s);
  ci_w : weighted (cnbr s) = true;
  ci_abs : forall k, oQeq (kabs (cnbr s) k) (rspec (cstat s) k)
}.

Lemma rspec_node : forall st u, In u (gnodes g) ->
  rspec st (knode u) = if Qltb 0 (rate st u) then Some (rate st u) else None.
Proof.
  intros st u Hu. unfold rspec, knode. apply mem_In in Hu. rewrite Hu. reflexivity.
Qed.

(* ---------- a run of refreshes (the influence-set loop) ---------- *)
Lemma refresh_eq : forall st L cl v,
  refresh st (Ok (L, cl)) v =
  rbind (kl_insert L (knode v) (rate st v)) (fun l' => Ok (l', call_rate g st v :: cl)).
Proof. reflexivity. Qed.

Lemma refresh_fold : forall st vs (L : kld) cl,
  (forall v, In v vs -> In v (gnodes g)) -> kinv L -> weighted L = true ->
  exists L', fold_left (refresh st) vs (Ok (L, cl)) = Ok (L', rev (map (call_rate g st) vs) ++ cl) /\
    kinv L' /\ weighted L' = true /\
    (forall v, In v vs -> oQeq (kabs L' (knode v)) (rspec st (knode v))) /\
    (forall x, (forall v, In v vs -> x <> knode v) -> oQeq (kabs L' x) (kabs L x)).
Proof.
  intros st vs. induction vs as [|v vs IH]; intros L cl Hin Hinv Hw.
  - exists L. cbn [fold_left map rev app]. split; [reflexivity|]. split; [exact Hinv|].
    split; [exact Hw|]. split; [intros v []|]. intros x _. apply oQeq_refl.
  - destruct (kl_insert_spec L (knode v) (rate st v) Hinv Hw (rate_nonneg st v))
      as [L1 [He [Hi1 [Hw1 [Hk1 Ho1]]]]].
    cbn [fold_left]. rewrite refresh_eq, He. cbn [rbind].
    destruct (IH L1 (call_rate g st v :: cl) (fun x Hx => Hin x (or_intror Hx)) Hi1 Hw1)
      as [L' [He' [Hi' [Hw' [Hin' Hout']]]]].
    exists L'. split.
    { rewrite He'. cbn [map rev]. rewrite <- app_assoc. reflexivity. }
    split; [exact Hi'|]. split; [exact Hw'|]. split.
    + intros x [E|Hx].
      * subst x. destruct (in_dec N.eq_dec v vs) as [Hv|Hv]; [apply Hin'; exact Hv|].
        eapply oQeq_trans.
        { apply Hout'. intros y Hy E. apply knode_inj in E. subst y. contradiction. }
        rewrite (rspec_node st v (Hin v (or_introl eq_refl))). exact Hk1.
      * apply Hin'. exact Hx.
    + intros x Hx. eapply oQeq_trans.
      { apply Hout'. intros y Hy. apply Hx. right. exact Hy. }
      apply Ho1. apply Hx. left. reflexivity.
Qed.

(* ---------- the initial fill ---------- *)
Definition fill_step (st : smap) (acc : result (kld * list ucall)) (u : node) : result (kld * list ucall) :=
  rbind acc (fun lc =>
    let r := rate st u in
    let cl := call_rate g st u :: snd lc in
    if Qltb 0 r then rbind (kl_insert (fst lc) (knode u) r) (fun l' => Ok (l', cl))
    else Ok (fst lc, cl)).

Lemma fill_fold : forall st vs (L : kld) cl,
  NoDup vs -> (forall v, In v vs -> In v (gnodes g)) -> kinv L -> weighted L = true ->
  (forall v, In v vs -> kabs L (knode v) = None) ->
  exists L', fold_left (fill_step st) vs (Ok (L, cl)) = Ok (L', rev (map (call_rate g st) vs) ++ cl) /\
    kinv L' /\ weighted L' = true /\
    (forall v, In v vs -> oQeq (kabs L' (knode v)) (rspec st (knode v))) /\
    (forall x, (forall v, In v vs -> x <> knode v) -> oQeq (kabs L' x) (kabs L x)).
Proof.
  intros st vs. induction vs as [|v vs IH]; intros L cl Hnodup Hin Hinv Hw Hnone.
  - exists L. cbn [fold_left map rev app]. split; [reflexivity|]. split; [exact Hinv|].
    split; [exact Hw|]. split; [intros v []|]. intros x _. apply oQeq_refl.
  - apply NoDup_cons_iff in Hnodup. destruct Hnodup as [Hv Hnodup'].
    cbn [fold_left]. unfold fill_step at 2. cbn [rbind fst snd].
    assert (Hstep : exists L1, (if Qltb 0 (rate st v)
                then rbind (kl_insert L (knode v) (rate st v)) (fun l' => Ok (l', call_rate g st v :: cl))
                else Ok (L, call_rate g st v :: cl)) = Ok (L1, call_rate g st v :: cl) /\
              kinv L1 /\ weighted L1 = true /\
              oQeq (kabs L1 (knode v)) (rspec st (knode v)) /\
              forall x, x <> knode v -> oQeq (kabs L1 x) (kabs L x)).
    { rewrite (rspec_node st v (Hin v (or_introl eq_refl))).
      destruct (Qltb 0 (rate st v)) eqn:El.
      - destruct (kl_insert_spec L (knode v) (rate st v) Hinv Hw (rate_nonneg st v))
          as [L1 [He [Hi1 [Hw1 [Hk1 Ho1]]]]].
        exists L1. rewrite He. cbn [rbind]. split; [reflexivity|]. split; [exact Hi1|].
        split; [exact Hw1|]. split; [rewrite El in Hk1; exact Hk1|exact Ho1].
      - exists L. split; [reflexivity|]. split; [exact Hinv|]. split; [exact Hw|]. split.
        + rewrite (Hnone v (or_introl eq_refl)). exact I.
        + intros x _. apply oQeq_refl. }
    destruct Hstep as [L1 [He [Hi1 [Hw1 [Hk1 Ho1]]]]]. rewrite He.
    destruct (IH L1 (call_rate g st v :: cl) Hnodup' (fun x Hx => Hin x (or_intror Hx)) Hi1 Hw1)
      as [L' [He' [Hi' [Hw' [Hin' Hout']]]]].
    + intros y Hy. apply oQeq_none_l. rewrite <- (Hnone y (or_intror Hy)).
      apply Ho1. intro E2. apply knode_inj in E2. subst y. contradiction.
    + exists L'. split.
      { rewrite He'. cbn [map rev]. rewrite <- app_assoc. reflexivity. }
      split; [exact Hi'|]. split; [exact Hw'|]. split.
      * intros x [E|Hx]; [|apply Hin'; exact Hx]. subst x.
        eapply oQeq_trans; [|exact Hk1].
        apply Hout'. intros y Hy E. apply knode_inj in E. subst y. contradiction.
      * intros x Hx. eapply oQeq_trans.
        { apply Hout'. intros y Hy. apply Hx. right. exact Hy. }
        apply Ho1. apply Hx. left. reflexivity.
Qed.

(* ---------- the initial fill establishes the invariant ---------- *)
Lemma fill_eq : forall st, fill st = fold_left (fill_step st) (gnodes g) (Ok (kl_empty true, [])).
Proof. reflexivity. Qed.

Lemma rspec_other : forall st k, (forall v, In v (gnodes g) -> k <> knode v) -> rspec st k = None.
Proof.
  intros st [|a [|b r]] Hk; cbn [rspec]; try reflexivity.
  destruct (mem a (gnodes g)) eqn:Hm; [|reflexivity].
  exfalso. apply mem_In in Hm. apply (Hk a Hm). reflexivity.
Qed.

Lemma fill_inv : forall st,
  exists L, fill st = Ok (L, rev (map (call_rate g st) (gnodes g))) /\
    kinv L /\ weighted L = true /\ forall k, oQeq (kabs L k) (rspec st k).
Proof.
  intro st. rewrite fill_eq.
  destruct (fill_fold st (gnodes g) (kl_empty true) [] Hnd (fun v H => H) (kl_empty_inv true) eq_refl)
    as [L [He [Hi [Hw [Hin Hout]]]]].
  { intros v _. reflexivity. }
  exists L. rewrite app_nil_r in He. split; [exact He|]. split; [exact Hi|]. split; [exact Hw|].
  intro k.
  destruct (in_dec (list_eq_dec N.eq_dec) k (map knode (gnodes g))) as [Hk|Hk].
  - apply in_map_iff in Hk. destruct Hk as [v [E Hv]]. subst k. apply Hin. exact Hv.
  - assert (Hk' : forall v, In v (gnodes g) -> k <> knode v).
    { intros v Hv E. apply Hk. subst k. apply in_map. exact Hv. }
    rewrite (rspec_other st k Hk'). eapply oQeq_trans; [apply Hout; exact Hk'|].
    rewrite kl_empty_abs. exact I.
Qed.

(* ---------- every event preserves it ---------- *)
Lemma pos_some_cong : forall a b, a == b ->
  oQeq (if Qltb 0 a then Some a else None) (if Qltb 0 b then Some b else None).
Proof.
  intros a b E. destruct (Qltb 0 a) eqn:Ea; destruct (Qltb 0 b) eqn:Eb; cbn [oQeq]; try exact E; try exact I.
  - apply Qltb_true in Ea. apply Qltb_false in Eb. rewrite E in Ea. exfalso. apply (Qlt_irrefl 0). eapply Qlt_le_trans; eassumption.
  - apply Qltb_false in Ea. apply Qltb_true in Eb. rewrite E in Ea. exfalso. apply (Qlt_irrefl 0). eapply Qlt_le_trans; eassumption.
Qed.

Lemma covers_unchanged : influence_covers -> forall st v s u, In u (gnodes g) ->
  u <> v -> ~ In u (infl (fupdN st v s) v) -> rate (fupdN st v s) u == rate st u.
Proof.
  intros Hc st v s u Hu Hne Hni.
  destruct (Qeq_dec (rate (fupdN st v s) u) (rate st u)) as [E|E]; [exact E|].
  destruct (Hc st v s u Hu E) as [H|H]; contradiction.
Qed.

Lemma apply_event_eq : forall t u s,
  apply_event t u s =
  (let st := cstat s in
   let ns := choice st u in
   let st' := fupdN st u ns in
   rbind (refresh st' (Ok (cnbr s, call_choice g st u :: ccalls s)) u) (fun lc1 =>
   rbind (fold_left (refresh st') (infl st' u) (Ok (fst lc1, call_infl g st' u :: snd lc1))) (fun lc2 =>
   Ok (mkC st' (fst lc2) ((t, bump (st u) ns (hd_counts (crows s))) :: crows s)
           (if full then (t, u, ns) :: celog s else celog s) (snd lc2))))).
Proof. reflexivity. Qed.

Lemma apply_event_inv : influence_covers -> forall t u s,
  cinv s -> In u (gnodes g) ->
  exists s', apply_event t u s = Ok s' /\ cinv s' /\
    cstat s' = fupdN (cstat s) u (choice (cstat s) u) /\
    crows s' = (t, bump (cstat s u) (choice (cstat s) u) (hd_counts (crows s))) :: crows s /\
    celog s' = (if full then (t, u, choice (cstat s) u) :: celog s else celog s) /\
    ccalls s' = rev (map (call_rate g (cstat s')) (infl (cstat s') u)) ++
                call_infl g (cstat s') u :: call_rate g (cstat s') u :: call_choice g (cstat s) u :: ccalls s.
Proof.
  intros Hc t u s [Hld Hw Habs] Hu. rewrite apply_event_eq. cbv zeta.
  set (st := cstat s). set (ns := choice st u). set (st' := fupdN st u ns).
  rewrite refresh_eq.
  destruct (kl_insert_spec (cnbr s) (knode u) (rate st' u) Hld Hw (rate_nonneg st' u))
    as [L1 [He1 [Hi1 [Hw1 [Hk1 Ho1]]]]].
  rewrite He1. cbn [rbind fst snd].
  destruct (refresh_fold st' (infl st' u) L1 (call_infl g st' u :: call_rate g st' u :: call_choice g st u :: ccalls s)
              (fun v Hv => infl_in st' u v Hu Hv) Hi1 Hw1) as [L2 [He2 [Hi2 [Hw2 [Hin2 Hout2]]]]].
  rewrite He2. cbn [rbind fst snd].
  eexists. split; [reflexivity|]. cbn [cstat cnbr crows celog ccalls].
  split; [|repeat split; reflexivity].
  constructor; cbn [cstat cnbr]; [exact Hi2|exact Hw2|].
  intro k.
  destruct (in_dec (list_eq_dec N.eq_dec) k (map knode (infl st' u))) as [Hk|Hk].
  { apply in_map_iff in Hk. destruct Hk as [v [E Hv]]. subst k. apply Hin2. exact Hv. }
  assert (Hk' : forall v, In v (infl st' u) -> k <> knode v).
  { intros v Hv E. apply Hk. subst k. apply in_map. exact Hv. }
  eapply oQeq_trans; [apply Hout2; exact Hk'|].
  destruct (list_eq_dec N.eq_dec k (knode u)) as [E|E].
  { subst k. rewrite (rspec_node st' u Hu). exact Hk1. }
  eapply oQeq_trans; [apply Ho1; exact E|].
  eapply oQeq_trans; [apply Habs|]. fold st.
  destruct k as [|a [|b r]]; cbn [rspec]; try exact I.
  destruct (mem a (gnodes g)) eqn:Hma; cbn [andb]; [|exact I].
  apply pos_some_cong. symmetry. apply (covers_unchanged Hc).
  - apply mem_In. exact Hma.
  - intro Ea. subst a. apply E. reflexivity.
  - intro Ha. apply (Hk' a Ha). reflexivity.
Qed.

(* ---------- the rate handed to expovariate is the sum of the current rates ---------- *)
Definition posnodes (st : smap) : list node := filter (fun u => Qltb 0 (rate st u)) (gnodes g).

Lemma sumQ_filter_zero : forall (f : node -> Q) (p : node -> bool) l,
  (forall x, In x l -> p x = false -> f x == 0) ->
  sumQ (map f (filter p l)) == sumQ (map f l).
Proof.
  intros f p. induction l as [|a l IH]; intro H.
  - reflexivity.
  - cbn [filter map]. destruct (p a) eqn:Ep.
    + cbn [map]. rewrite !sumQ_cons. rewrite IH; [reflexivity|]. intros x Hx. apply H. right. exact Hx.
    + rewrite sumQ_cons. rewrite (H a (or_introl eq_refl) Ep). rewrite IH; [ring|].
      intros x Hx. apply H. right. exact Hx.
Qed.

Lemma rspec_some : forall st k, rspec st k <> None <-> exists u, k = knode u /\ In u (posnodes st).
Proof.
  intros st k. split.
  - destruct k as [|a [|b r]]; cbn [rspec]; try (intro H; contradiction H; reflexivity).
    destruct (mem a (gnodes g)) eqn:Hm; cbn [andb]; [|intro H; contradiction H; reflexivity].
    destruct (Qltb 0 (rate st a)) eqn:El; [|intro H; contradiction H; reflexivity].
    intros _. exists a. split; [reflexivity|]. unfold posnodes. apply filter_In.
    split; [apply mem_In; exact Hm|exact El].
  - intros [u [E Hu]]. subst k. unfold posnodes in Hu. apply filter_In in Hu. destruct Hu as [Hu El].
    rewrite (rspec_node st u Hu), El. discriminate.
Qed.

Lemma items_perm : forall s, cinv s ->
  Permutation (items (cnbr s)) (map knode (posnodes (cstat s))).
Proof.
  intros s [Hld Hw Habs]. apply NoDup_Permutation.
  - apply (inv_nodup key _ Hld).
  - apply FinFun.Injective_map_NoDup; [intros a b; apply knode_inj|].
    apply NoDup_filter. exact Hnd.
  - intro k. rewrite (kl_items_abs (cnbr s) k Hld). rewrite in_map_iff.
    transitivity (rspec (cstat s) k <> None).
    + specialize (Habs k). destruct (kabs (cnbr s) k); destruct (rspec (cstat s) k); cbn [oQeq] in Habs;
        split; intro H; try discriminate; try contradiction; try (contradiction H; reflexivity).
    + rewrite rspec_some. split; intros [u [E Hu]]; exists u; split; auto.
Qed.

Lemma absw_node : forall s u, cinv s -> In u (posnodes (cstat s)) ->
  absw key (cnbr s) (knode u) == rate (cstat s) u.
Proof.
  intros s u [Hld Hw Habs] Hu. unfold absw. specialize (Habs (knode u)).
  unfold posnodes in Hu. apply filter_In in Hu. destruct Hu as [Hu El].
  rewrite (rspec_node _ u Hu), El in Habs.
  destruct (kabs (cnbr s) (knode u)); cbn [oQeq] in Habs; [exact Habs|contradiction].
Qed.

Lemma total_rate_pos : forall st, sumQ (map (rate st) (posnodes st)) == total_rate st.
Proof.
  intro st. unfold posnodes, total_rate. apply sumQ_filter_zero.
  intros x _ El. apply Qltb_false in El. apply Qle_antisym; [exact El|apply rate_nonneg].
Qed.

Lemma total_inv : forall s, cinv s ->
  ld_total_weight key (cnbr s) == total_rate (cstat s).
Proof.
  intros s Hs. rewrite (kl_total (cnbr s) (ci_ld s Hs)).
  rewrite (sumQ_map_perm _ _ _ _ (items_perm s Hs)). rewrite map_map.
  rewrite <- total_rate_pos. apply sumQ_map_ext_in. intros u Hu. apply absw_node; assumption.
Qed.

Lemma total_rate_nonneg : forall st, 0 <= total_rate st.
Proof.
  intro st. unfold total_rate. apply sumQ_nonneg. intros x Hx. apply in_map_iff in Hx.
  destruct Hx as [u [E _]]. subst x. apply rate_nonneg.
Qed.

(* the sum is zero exactly when every rate is zero *)
Lemma sum_rates_zero : forall st l, sumQ (map (rate st) l) == 0 <-> forall u, In u l -> rate st u == 0.
Proof.
  intros st l. induction l as [|a l IH].
  - split; [intros _ u []|intros _; reflexivity].
  - cbn [map]. rewrite sumQ_cons.
    assert (Hl : 0 <= sumQ (map (rate st) l)).
    { apply sumQ_nonneg. intros x Hx. apply in_map_iff in Hx. destruct Hx as [u [E _]]. subst x. apply rate_nonneg. }
    pose proof (rate_nonneg st a) as Ha.
    set (x := sumQ (map (rate st) l)) in *. set (y := rate st a) in *. split.
    + intros H u [E|Hu].
      * subst u. fold y. apply Qle_antisym; lra.
      * apply IH; [apply Qle_antisym; lra|exact Hu].
    + intro H. assert (Ey : y == 0) by (apply (H a); left; reflexivity).
      assert (E : x == 0) by (apply IH; intros u Hu; apply H; right; exact Hu).
      rewrite E, Ey. ring.
Qed.

Lemma total_rate_zero : forall st, total_rate st == 0 <-> forall u, In u (gnodes g) -> rate st u == 0.
Proof. intro st. apply sum_rates_zero. Qed.

(* ---------- the law of the jump ---------- *)
Lemma kinsert_perm : forall (V : Type) (kv : key * V) l, Permutation (kinsert kv l) (kv :: l).
Proof.
  intros V kv. induction l as [|h t IH].
  - apply Permutation_refl.
  - cbn [kinsert]. destruct (kltb (fst kv) (fst h)).
    + apply Permutation_refl.
    + eapply Permutation_trans; [apply perm_skip; exact IH|apply perm_swap].
Qed.

Lemma ksort_perm : forall (V : Type) (l : list (key * V)), Permutation (ksort l) l.
Proof.
  intros V. induction l as [|h t IH].
  - apply Permutation_refl.
  - unfold ksort. cbn [fold_right]. fold (ksort t).
    eapply Permutation_trans; [apply kinsert_perm|]. apply perm_skip. exact IH.
Qed.

Lemma prob_app : forall (A : Type) (f : A -> bool) d1 d2, prob f (d1 ++ d2) == prob f d1 + prob f d2.
Proof. intros A f d1 d2. unfold prob. rewrite map_app. apply sumQ_app. Qed.

Lemma prob_concat : forall (A : Type) (f : A -> bool) ds,
  prob f (concat ds) == sumQ (map (prob f) ds).
Proof.
  intros A f. induction ds as [|d ds IH].
  - reflexivity.
  - cbn [concat map]. rewrite prob_app, sumQ_cons, IH. reflexivity.
Qed.

Lemma prob_choose : forall (A : Type) (f : A -> bool) c (k : key -> samp A),
  prob f (law (Choose true c k)) ==
  sumQ (map (fun cw => prob f (scale (snd cw / wsum c) (law (k (fst cw))))) c).
Proof.
  intros A f c k. cbn [law]. rewrite prob_concat, map_map. reflexivity.
Qed.

Definition jump_k (st : smap) (c : key) : samp (node * N) :=
  match keynode c with Ok u => Ret (u, choice st u) | Err e => Fail e end.

Lemma jump_eq : forall s, jump s = Choose true (kl_cands (cnbr s)) (jump_k (cstat s)).
Proof. reflexivity. Qed.

Lemma kl_cands_perm : forall s, cinv s ->
  Permutation (kl_cands (cnbr s)) (map (fun u => (knode u, wread key (cnbr s) (knode u))) (posnodes (cstat s))).
Proof.
  intros s Hs. unfold kl_cands. rewrite (ci_w s Hs).
  eapply Permutation_trans; [apply ksort_perm|].
  eapply Permutation_trans; [apply Permutation_map; apply (items_perm s Hs)|].
  rewrite map_map. apply Permutation_refl.
Qed.

Lemma wread_node : forall s u, cinv s -> In u (posnodes (cstat s)) ->
  wread key (cnbr s) (knode u) == rate (cstat s) u.
Proof.
  intros s u Hs Hu. rewrite <- (absw_node s u Hs Hu).
  assert (Hin : In (knode u) (items (cnbr s))).
  { eapply Permutation_in; [apply Permutation_sym; apply (items_perm s Hs)|]. apply in_map. exact Hu. }
  rewrite (absw_in key (cnbr s) (knode u) (ci_ld s Hs) Hin), (ci_w s Hs). reflexivity.
Qed.

Lemma wsum_cands : forall s, cinv s -> wsum (kl_cands (cnbr s)) == total_rate (cstat s).
Proof.
  intros s Hs. unfold wsum. rewrite (sumQ_map_perm _ snd _ _ (kl_cands_perm s Hs)).
  rewrite map_map. cbn [snd]. rewrite <- total_rate_pos. apply sumQ_map_ext_in.
  intros u Hu. apply wread_node; assumption.
Qed.

(* P(next node = u) = rate u / sum of rates, rates evaluated on the current statuses *)
Lemma jump_law : forall s u, cinv s -> In u (gnodes g) -> 0 < total_rate (cstat s) ->
  prob (fun o => N.eqb (fst o) u) (law (jump s)) == rate (cstat s) u / total_rate (cstat s).
Proof.
  intros s u Hs Hu Hpos. rewrite jump_eq, prob_choose.
  set (W := wsum (kl_cands (cnbr s))).
  rewrite (sumQ_map_perm _ _ _ _ (kl_cands_perm s Hs)). rewrite map_map. cbn [fst snd].
  assert (HW : W == total_rate (cstat s)) by (apply wsum_cands; exact Hs).
  transitivity (sumQ (map (fun x => if N.eqb x u then rate (cstat s) x / total_rate (cstat s) else 0) (posnodes (cstat s)))).
  - apply sumQ_map_ext_in. intros x Hx. pose proof (wread_node s x Hs Hx) as Hwr.
    unfold jump_k, keynode, knode in *. cbn [law scale map fst snd]. unfold prob. cbn [map fst snd].
    unfold sumQ. cbn [fold_right].
    destruct (N.eqb x u).
    + rewrite Hwr, HW. field. intro E. rewrite E in Hpos. apply (Qlt_irrefl 0). exact Hpos.
    + ring.
  - destruct (Qltb 0 (rate (cstat s) u)) eqn:El.
    + assert (Hin : In u (posnodes (cstat s))) by (apply filter_In; split; assumption).
      apply (sumQ_indicator N N.eqb N.eqb_spec (fun x => rate (cstat s) x / total_rate (cstat s)) u).
      * apply NoDup_filter. exact Hnd.
      * exact Hin.
    + assert (Hn : ~ In u (posnodes (cstat s))).
      { intro H. apply filter_In in H. destruct H as [_ H]. congruence. }
      rewrite (sumQ_indicator_notin N N.eqb N.eqb_spec _ u _ Hn).
      apply Qltb_false in El. assert (E : rate (cstat s) u == 0) by (apply Qle_antisym; [exact El|apply rate_nonneg]).
      rewrite E. unfold Qdiv. ring.
Qed.

(* every outcome of the jump is a node of G with a positive current rate, together
   with the chooser's answer on the current statuses; nothing else ever happens *)
Lemma in_scale : forall (A : Type) q (d : dist A) a p, In (a, p) (scale q d) ->
  exists p0, In (a, p0) d /\ p = q * p0.
Proof.
  intros A q d a p H. unfold scale in H. apply in_map_iff in H. destruct H as [[a0 p0] [E H]].
  cbn [fst snd] in E. injection E as E1 E2. subst a0 p. exists p0. split; [exact H|reflexivity].
Qed.

Lemma jump_support : forall s o p, cinv s -> In (o, p) (law (jump s)) ->
  In (fst o) (gnodes g) /\ 0 < rate (cstat s) (fst o) /\ snd o = choice (cstat s) (fst o).
Proof.
  intros s o p Hs H. rewrite jump_eq in H. cbn [law] in H. apply in_concat in H.
  destruct H as [d [Hd Ho]]. apply in_map_iff in Hd. destruct Hd as [[k w] [Ed Hk]]. subst d.
  cbn [fst snd] in Ho.
  assert (Hk' : In (k, w) (map (fun u => (knode u, wread key (cnbr s) (knode u))) (posnodes (cstat s)))).
  { eapply Permutation_in; [apply (kl_cands_perm s Hs)|exact Hk]. }
  apply in_map_iff in Hk'. destruct Hk' as [u [E Hu]]. injection E as E1 E2. subst k.
  apply in_scale in Ho. destruct Ho as [p0 [Ho _]].
  unfold jump_k, keynode, knode in Ho. cbn [law] in Ho. destruct Ho as [Ho|[]].
  injection Ho as Eo _. subst o. cbn [fst snd].
  unfold posnodes in Hu. apply filter_In in Hu. destruct Hu as [Hu El].
  split; [exact Hu|]. split; [apply Qltb_true; exact El|reflexivity].
Qed.

(* the jump never fails: with a positive total there is a candidate, every
   candidate is a node key with a positive weight -- random.choice never sees an
   empty list and the accept test accepts at once under the scripted source *)
Lemma cands_positive : forall s k w, cinv s -> In (k, w) (kl_cands (cnbr s)) ->
  exists u, k = knode u /\ In u (gnodes g) /\ 0 < w /\ w == rate (cstat s) u.
Proof.
  intros s k w Hs Hk.
  assert (Hk' : In (k, w) (map (fun u => (knode u, wread key (cnbr s) (knode u))) (posnodes (cstat s)))).
  { eapply Permutation_in; [apply (kl_cands_perm s Hs)|exact Hk]. }
  apply in_map_iff in Hk'. destruct Hk' as [u [E Hu]]. injection E as E1 E2. subst k.
  exists u. split; [reflexivity|].
  pose proof (wread_node s u Hs Hu) as Hwr. rewrite E2 in Hwr.
  unfold posnodes in Hu. apply filter_In in Hu. destruct Hu as [Hu El]. apply Qltb_true in El.
  split; [exact Hu|]. split; [rewrite Hwr; exact El|exact Hwr].
Qed.

Lemma cands_nonempty : forall s, cinv s -> 0 < total_rate (cstat s) -> kl_cands (cnbr s) <> [].
Proof.
  intros s Hs Hpos E. pose proof (wsum_cands s Hs) as H. rewrite E in H. unfold wsum in H.
  cbn [map] in H. unfold sumQ in H. cbn [fold_right] in H. rewrite <- H in Hpos.
  apply (Qlt_irrefl 0). exact Hpos.
Qed.

(* ---------- the loop: when it stops, which rate it waits with ---------- *)
Definition loop_body (st0 : smap) (fuel : nat) (t : Q) (s : cst) (d : Q) : samp cout :=
  if xlt (t + d) tmax then
    match fuel with
    | O => Fail OutOfFuel
    | S f => event (t + d) s (fun s' => cloop st0 f (t + d) s')
    end
  else cfinish st0 s.

Lemma cloop_unfold : forall st0 fuel t s,
  cloop st0 fuel t s =
  if Qltb 0 (ld_total_weight key (cnbr s))
  then Expo (ld_total_weight key (cnbr s)) (loop_body st0 fuel t s)
  else cfinish st0 s.
Proof. intros st0 fuel t s. destruct fuel; reflexivity. Qed.

Lemma cloop_stop : forall st0 fuel t s, cinv s ->
  (total_rate (cstat s) == 0 -> cloop st0 fuel t s = cfinish st0 s) /\
  (0 < total_rate (cstat s) ->
     exists r, r == total_rate (cstat s) /\ cloop st0 fuel t s = Expo r (loop_body st0 fuel t s)).
Proof.
  intros st0 fuel t s Hs. pose proof (total_inv s Hs) as Ht. rewrite cloop_unfold. split.
  - intro Hz. destruct (Qltb 0 (ld_total_weight key (cnbr s))) eqn:El; [|reflexivity].
    apply Qltb_true in El. rewrite Ht, Hz in El. exfalso. apply (Qlt_irrefl 0). exact El.
  - intro Hp. destruct (Qltb 0 (ld_total_weight key (cnbr s))) eqn:El.
    + exists (ld_total_weight key (cnbr s)). split; [exact Ht|reflexivity].
    + apply Qltb_false in El. rewrite Ht in El. exfalso. apply (Qlt_irrefl 0). eapply Qlt_le_trans; eassumption.
Qed.

(* ---------- rows count the statuses ---------- *)
Lemma count_upd : forall (st : smap) u ns r l, NoDup l ->
  Z.of_nat (length (filter (fun x => N.eqb (fupdN st u ns x) r) l)) =
  (Z.of_nat (length (filter (fun x => N.eqb (st x) r) l))
   + (if mem u l then (if N.eqb r ns then 1 else 0) - (if N.eqb r (st u) then 1 else 0) else 0))%Z.
Proof.
  intros st u ns r. induction l as [|a l IH]; intro Hn.
  - cbn. reflexivity.
  - apply NoDup_cons_iff in Hn. destruct Hn as [Ha Hn]. specialize (IH Hn).
    cbn [filter mem existsb]. fold (mem u l). unfold fupdN at 1.
    rewrite (N.eqb_sym u a).
    destruct (N.eqb_spec a u) as [E|E].
    + subst a. cbn [orb]. apply mem_false in Ha. rewrite Ha in IH.
      rewrite (N.eqb_sym ns r), (N.eqb_sym (st u) r).
      destruct (N.eqb r ns); destruct (N.eqb r (st u)); cbn [length]; lia.
    + cbn [orb]. destruct (N.eqb (st a) r); cbn [length]; lia.
Qed.

Lemma bump_counts : forall st u ns, In u (gnodes g) ->
  bump (st u) ns (counts st) = counts (fupdN st u ns).
Proof.
  intros st u ns Hu. unfold Complex.bump, Complex.counts.
  assert (E : forall l, combine l (map (count_status g st) l) = map (fun r => (r, count_status g st r)) l).
  { induction l as [|a l IH]; [reflexivity|]. cbn [map combine]. rewrite IH. reflexivity. }
  rewrite E, map_map. apply map_ext. intro r. cbn [fst snd]. unfold count_status.
  rewrite (count_upd st u ns r (gnodes g) Hnd). apply mem_In in Hu. rewrite Hu. lia.
Qed.

(* ---------- runs: any sequence of events ---------- *)
Fixpoint run_events (s : cst) (evs : list (Q * node)) : result cst :=
  match evs with
  | [] => Ok s
  | e :: r => rbind (apply_event (fst e) (snd e) s) (fun s' => run_events s' r)
  end.

(* the statuses after each event, replayed from the chooser's answers alone *)
Fixpoint statuses (st : smap) (evs : list (Q * node)) : list (Q * smap) :=
  match evs with
  | [] => []
  | e :: r => let st' := fupdN st (snd e) (choice st (snd e)) in (fst e, st') :: statuses st' r
  end.

Definition last_status (st : smap) (evs : list (Q * node)) : smap :=
  fold_left (fun st e => fupdN st (snd e) (choice st (snd e))) evs st.

Definition row_of (ts : Q * smap) : row := (fst ts, counts (snd ts)).

Record cgood (s : cst) : Prop := {
  cg_inv : cinv s;
  cg_rows : hd_counts (crows s) = counts (cstat s)
}.

Lemma run_events_good : influence_covers -> forall evs s,
  cgood s -> (forall e, In e evs -> In (snd e) (gnodes g)) ->
  exists s', run_events s evs = Ok s' /\ cgood s' /\
    cstat s' = last_status (cstat s) evs /\
    crows s' = rev (map row_of (statuses (cstat s) evs)) ++ crows s.
Proof.
  intros Hc. induction evs as [|[t u] evs IH]; intros s [Hi Hr] Hin.
  - exists s. split; [reflexivity|]. split; [constructor; assumption|]. split; reflexivity.
  - cbn [run_events fst snd].
    destruct (apply_event_inv Hc t u s Hi (Hin (t, u) (or_introl eq_refl)))
      as [s1 [He [Hi1 [Hst [Hrows [_ _]]]]]].
    rewrite He. cbn [rbind].
    assert (Hg1 : cgood s1).
    { constructor; [exact Hi1|]. rewrite Hrows, Hst. cbn [hd_counts]. rewrite Hr.
      apply bump_counts. apply (Hin (t, u)). left. reflexivity. }
    destruct (IH s1 Hg1 (fun e He' => Hin e (or_intror He'))) as [s' [He' [Hg' [Hst' Hrows']]]].
    exists s'. split; [exact He'|]. split; [exact Hg'|]. split.
    + rewrite Hst', Hst. reflexivity.
    + rewrite Hrows', Hrows, Hst. cbn [statuses map rev fst snd]. rewrite <- app_assoc. cbn [app].
      unfold row_of at 2. cbn [fst snd]. rewrite Hr.
      rewrite (bump_counts (cstat s) u (choice (cstat s) u) (Hin (t, u) (or_introl eq_refl))). reflexivity.
Qed.

Definition init_state (st0 : smap) (lc : kld * list ucall) : cst :=
  mkC st0 (fst lc) [(tmin, counts st0)] [] (snd lc).

Lemma init_good : forall st0, exists lc, fill st0 = Ok lc /\ cgood (init_state st0 lc) /\
  snd lc = rev (map (call_rate g st0) (gnodes g)).
Proof.
  intro st0. destruct (fill_inv st0) as [L [He [Hi [Hw Ha]]]].
  exists (L, rev (map (call_rate g st0) (gnodes g))). split; [exact He|]. split; [|reflexivity].
  constructor; [constructor; assumption|reflexivity].
Qed.

(* ---------- whole runs under the scripted semantics ---------- *)
Lemma cfinish_cases : forall st0 s,
  (exists out, cfinish st0 s = Ret out /\ so_rows (fst out) = rev (crows s) /\ snd out = rev (ccalls s)) \/
  (full = true /\ exists e, cfinish st0 s = Fail e /\ (e = KeyErr \/ e = IndexErr)).
Proof.
  intros st0 s. unfold Complex.cfinish. destruct full; [|left; eexists; split; [reflexivity|split; reflexivity]].
  destruct (full_check g rstats st0 (rev (celog s))) as [[]|e] eqn:Ef.
  - left. eexists. split; [reflexivity|split; reflexivity].
  - right. split; [reflexivity|]. exists e. split; [reflexivity|].
    unfold full_check in Ef.
    destruct (existsb _ (filter _ (gnodes g))); [injection Ef as Ef; left; auto|].
    destruct (filter _ (gnodes g)); [injection Ef as Ef; right; auto|discriminate].
Qed.

Definition last_time (t : Q) (evs : list (Q * node)) : Q := fst (last evs (t, 0%N)).

(* what any scripted run of the loop from a good state amounts to: a sequence of
   events on nodes of G applied to the state (so the invariant holds all along and
   the rows are the counts of the replayed statuses), stopped exactly when the
   sum of the current rates is zero or the next time is not below tmax; the only
   failures are an exhausted script / fuel, or the full-data constructor *)
Definition run_ok (st0 : smap) (t : Q) (s : cst) (res : result cout) : Prop :=
  match res with
  | Ok out =>
    exists evs s', (forall e, In e evs -> In (snd e) (gnodes g)) /\
      run_events s evs = Ok s' /\ cgood s' /\ cfinish st0 s' = Ret out /\
      (total_rate (cstat s') == 0 \/ exists d, 0 <= d /\ xlt (last_time t evs + d) tmax = false)
  | Err e => e = OutOfDraws \/ e = OutOfFuel \/ (full = true /\ (e = KeyErr \/ e = IndexErr))
  end.

Lemma exec_cfinish : forall st0 t s ds tr, cgood s ->
  (total_rate (cstat s) == 0 \/ exists d, 0 <= d /\ xlt (t + d) tmax = false) ->
  run_ok st0 t s (fst (exec (cfinish st0 s) ds tr)).
Proof.
  intros st0 t s ds tr Hg Hstop. destruct (cfinish_cases st0 s) as [[out [E _]]|[Hf [e [E He]]]]; rewrite E; cbn [exec fst run_ok].
  - exists [], s. split; [intros e []|]. split; [reflexivity|]. split; [exact Hg|]. split; [exact E|].
    unfold last_time. cbn [last fst]. exact Hstop.
  - right. right. split; assumption.
Qed.

Lemma last_cons_default : forall (A : Type) (l : list A) a d, last (a :: l) d = last l a.
Proof.
  intros A. induction l as [|b l IH]; intros a d; [reflexivity|].
  change (last (a :: b :: l) d) with (last (b :: l) d). rewrite (IH b d), (IH b a). reflexivity.
Qed.

Lemma last_time_cons : forall t t1 u evs, last_time t ((t1, u) :: evs) = last_time t1 evs.
Proof.
  intros t t1 u evs. unfold last_time. rewrite last_cons_default.
  destruct evs as [|e evs]; [reflexivity|]. rewrite !last_cons_default. reflexivity.
Qed.

Theorem cloop_exec : influence_covers -> forall st0 fuel t s ds tr,
  cgood s -> run_ok st0 t s (fst (exec (cloop st0 fuel t s) ds tr)).
Proof.
  intros Hc st0. induction fuel as [|f IH]; intros t s ds tr Hg;
    pose proof (cg_inv s Hg) as Hi;
    match goal with |- context [Complex.cloop _ _ _ _ _ _ _ _ st0 ?f t s] => destruct (cloop_stop st0 f t s Hi) as [Hz Hp] end;
    (destruct (Qlt_le_dec 0 (total_rate (cstat s))) as [Hpos|Hle];
     [|assert (Hzero : total_rate (cstat s) == 0) by (apply Qle_antisym; [exact Hle|apply total_rate_nonneg]);
       rewrite (Hz Hzero); apply exec_cfinish; [exact Hg|left; exact Hzero]]);
    destruct (Hp Hpos) as [r [Hr Hl]]; rewrite Hl; cbn [exec];
    (destruct (Qeqb r 0) eqn:Er0;
     [apply Qeqb_true in Er0; rewrite Hr in Er0; rewrite Er0 in Hpos; exfalso; apply (Qlt_irrefl 0); exact Hpos|]);
    (destruct ds as [|d ds]; [cbn [fst run_ok]; left; reflexivity|]);
    (destruct (Qltb d 0) eqn:Ed; [cbn [fst run_ok]; left; reflexivity|]);
    apply Qltb_false in Ed; unfold loop_body;
    (destruct (xlt (t + d) tmax) eqn:Ex;
     [|apply exec_cfinish; [exact Hg|right; exists d; split; assumption]]).
  - cbn [exec fst run_ok]. right. left. reflexivity.
  - unfold Complex.event. rewrite jump_eq. cbn [bind exec].
    pose proof (choose_exec_cases (length ds) true (kl_cands (cnbr s)) ds (CExpo r :: tr) (le_n _)) as Hch.
    destruct (choose_exec true (kl_cands (cnbr s)) ds (CExpo r :: tr)) as [[[x|e] tr1] ds1].
    + destruct Hch as [wt Hin]. destruct (cands_positive s x wt Hi Hin) as [u [Ex' [Hu _]]]. subst x.
      unfold jump_k, keynode, knode. cbn [bind fst].
      destruct (apply_event_inv Hc (t + d) u s Hi Hu) as [s1 [He [Hi1 [Hst [Hrows _]]]]].
      rewrite He. cbn [liftc].
      assert (Hg1 : cgood s1).
      { constructor; [exact Hi1|]. rewrite Hrows, Hst. cbn [hd_counts]. rewrite (cg_rows s Hg).
        apply bump_counts. exact Hu. }
      specialize (IH (t + d) s1 ds1 tr1 Hg1).
      destruct (fst (exec (cloop st0 f (t + d) s1) ds1 tr1)) as [out|e]; cbn [run_ok] in *; [|exact IH].
      destruct IH as [evs [s' [Hin' [Hrun [Hg' [Hfin Hstop]]]]]].
      exists ((t + d, u) :: evs), s'. split.
      { intros e [E|He']; [subst e; exact Hu|apply Hin'; exact He']. }
      split; [cbn [run_events fst snd]; rewrite He; exact Hrun|].
      split; [exact Hg'|]. split; [exact Hfin|]. rewrite last_time_cons. exact Hstop.
    + cbn [fst run_ok]. destruct Hch as [E|[E Hnil]]; [left; exact E|].
      exfalso. apply (cands_nonempty s Hi Hpos). exact Hnil.
Qed.

(* fuel: every event consumes draws, so a script no longer than the fuel cannot
   exhaust it (the loop itself is unbounded for recurrent models: fuel bounds the
   number of events of the executable model, never its behaviour) *)
Theorem cloop_fuel : influence_covers -> forall st0 fuel t s ds tr,
  cgood s -> (length ds <= fuel)%nat ->
  fst (exec (cloop st0 fuel t s) ds tr) <> Err OutOfFuel.
Proof.
  intros Hc st0. induction fuel as [|f IH]; intros t s ds tr Hg Hlen;
    pose proof (cg_inv s Hg) as Hi; rewrite cloop_unfold;
    (assert (Hfin : forall ds0 tr0, fst (exec (cfinish st0 s) ds0 tr0) <> Err OutOfFuel);
     [intros ds0 tr0; destruct (cfinish_cases st0 s) as [[out [E _]]|[_ [e [E [He|He]]]]]; rewrite E; cbn [exec fst]; subst; discriminate|]);
    (destruct (Qltb 0 (ld_total_weight key (cnbr s))); [|apply Hfin]);
    cbn [exec];
    (destruct (Qeqb (ld_total_weight key (cnbr s)) 0); [cbn [fst]; discriminate|]);
    (destruct ds as [|d ds]; [cbn [fst]; discriminate|]);
    (destruct (Qltb d 0); [cbn [fst]; discriminate|]);
    unfold loop_body; (destruct (xlt (t + d) tmax); [|apply Hfin]).
  - cbn [length] in Hlen. lia.
  - unfold Complex.event. rewrite jump_eq. cbn [bind exec].
    pose proof (choose_exec_cases (length ds) true (kl_cands (cnbr s)) ds (CExpo (ld_total_weight key (cnbr s)) :: tr) (le_n _)) as Hch.
    pose proof (choose_exec_rest (length ds) true (kl_cands (cnbr s)) ds (CExpo (ld_total_weight key (cnbr s)) :: tr) (le_n _)) as Hrest.
    destruct (choose_exec true (kl_cands (cnbr s)) ds (CExpo (ld_total_weight key (cnbr s)) :: tr)) as [[[x|e] tr1] ds1].
    + destruct Hch as [wt Hin]. destruct (cands_positive s x wt Hi Hin) as [u [Ex' [Hu _]]]. subst x.
      unfold jump_k, keynode, knode. cbn [bind fst].
      destruct (apply_event_inv Hc (t + d) u s Hi Hu) as [s1 [He [Hi1 [Hst [Hrows _]]]]].
      rewrite He. cbn [liftc]. apply IH.
      * constructor; [exact Hi1|]. rewrite Hrows, Hst. cbn [hd_counts]. rewrite (cg_rows s Hg).
        apply bump_counts. exact Hu.
      * cbn [snd length] in *. lia.
    + cbn [fst]. destruct Hch as [E|[E _]]; subst e; discriminate.
Qed.

(* ---------- the whole program ---------- *)
Theorem complex_exec : influence_covers -> forall (ic : node -> option N) fuel ds tr,
  (forall u, In u (gnodes g) -> ic u <> None) ->
  exists lc, fill (fun u => match ic u with Some s => s | None => 0%N end) = Ok lc /\
    run_ok (fun u => match ic u with Some s => s | None => 0%N end) tmin
           (init_state (fun u => match ic u with Some s => s | None => 0%N end) lc)
           (fst (exec (complex g rate choice infl rstats tmin tmax full ic fuel) ds tr)).
Proof.
  intros Hc ic fuel ds tr Hic. set (st0 := fun u => match ic u with Some s => s | None => 0%N end).
  destruct (init_good st0) as [lc [He [Hg _]]]. exists lc. split; [exact He|].
  unfold complex. fold st0.
  assert (Hall : forallb (fun u => match ic u with Some _ => true | None => false end) (gnodes g) = true).
  { apply forallb_forall. intros u Hu. specialize (Hic u Hu). destruct (ic u); [reflexivity|contradiction Hic; reflexivity]. }
  rewrite Hall. change (Complex.fill g rate st0) with (fill st0). rewrite He. cbn [liftc].
  apply (cloop_exec Hc st0 fuel tmin (init_state st0 lc) ds tr Hg).
Qed.

Theorem complex_missing_ic : forall (ic : node -> option N) fuel ds tr u,
  In u (gnodes g) -> ic u = None ->
  fst (exec (complex g rate choice infl rstats tmin tmax full ic fuel) ds tr) = Err KeyErr.
Proof.
  intros ic fuel ds tr u Hu Hn. unfold complex.
  assert (Hall : forallb (fun u => match ic u with Some _ => true | None => false end) (gnodes g) = false).
  { apply not_true_is_false. intro H. rewrite forallb_forall in H. specialize (H u Hu). rewrite Hn in H. discriminate. }
  rewrite Hall. reflexivity.
Qed.

Theorem complex_fuel : influence_covers -> forall (ic : node -> option N) fuel ds tr,
  (length ds <= fuel)%nat ->
  fst (exec (complex g rate choice infl rstats tmin tmax full ic fuel) ds tr) <> Err OutOfFuel.
Proof.
  intros Hc ic fuel ds tr Hlen. unfold complex.
  destruct (forallb _ (gnodes g)); [|cbn [exec fst]; discriminate].
  set (st0 := fun u => match ic u with Some s => s | None => 0%N end).
  destruct (init_good st0) as [lc [He [Hg _]]].
  change (Complex.fill g rate st0) with (fill st0). rewrite He. cbn [liftc].
  apply (cloop_fuel Hc st0 fuel tmin (init_state st0 lc) ds tr Hg Hlen).
Qed.

End CP.

(* ------------------------------------------------------------------------- *)
(* Non-vacuity: the parametric family of Model/Complex.v with local sources
   (in-neighbours) and the successors as influence set satisfies the
   hypotheses on every graph whose predecessor lists are the converse of its
   adjacency lists -- threshold contagions, SIS/SIR-like models, cascades. *)
Section Family.
Variable g : graph.
Variable m : cmodel.
Hypothesis Hconv : forall u v, In v (gpred g u) -> In u (gadj g v).
Hypothesis Hadj_in : forall u v, In v (gadj g u) -> In v (gnodes g).
Hypothesis Hew : forall u v, 0 <= ew g u v.
Hypothesis Hnw : forall u, 0 <= nw g u.
Hypothesis Hsrc : cm_src m = 0%N.
Hypothesis Hinfl : cm_infl m = 0%N \/ cm_infl m = 3%N.
Hypothesis Hrows : forall r, In r (cm_rows m) -> 0 <= r_base r /\ 0 <= r_slope r /\ 0 <= r_low r.

Lemma fam_count_nonneg : forall st u w, 0 <= fam_count g m st u w.
Proof.
  intros st u w. unfold fam_count. destruct (N.eqb (cm_src m) 0).
  - apply sumQ_nonneg. intros x Hx. apply in_map_iff in Hx. destruct Hx as [v [E _]]. subst x.
    destruct (ewt g); [apply Hew|lra].
  - apply Qnat_nonneg.
Qed.

Lemma fam_rate_nonneg : forall st u, 0 <= fam_rate g m st u.
Proof.
  intros st u. unfold fam_rate. destruct (nth_error (cm_rows m) (N.to_nat (st u))) as [r|] eqn:En; [|lra].
  destruct (Hrows r (nth_error_In _ _ En)) as [Hb [Hs Hl]].
  pose proof (fam_count_nonneg st u (r_watch r)) as Hc.
  assert (H1 : 0 <= (if nwt g then nw g u else 1)) by (destruct (nwt g); [apply Hnw|lra]).
  assert (H2 : 0 <= (if Qleb (r_thr r) (fam_count g m st u (r_watch r)) then r_base r + r_slope r * fam_count g m st u (r_watch r) else r_low r)).
  { destruct (Qleb _ _); [|exact Hl]. apply Qle_trans with (0 + 0); [lra|].
    apply Qplus_le_compat; [exact Hb|]. apply Qmult_le_0_compat; assumption. }
  apply Qmult_le_0_compat; assumption.
Qed.

Lemma fam_infl_in : forall st u v, In u (gnodes g) -> In v (fam_infl g m st u) -> In v (gnodes g).
Proof.
  intros st u v Hu. unfold fam_infl. destruct Hinfl as [E|E]; rewrite E.
  - apply Hadj_in.
  - intro H. apply in_app_or in H. destruct H as [H|[H|[]]]; [apply (Hadj_in u); exact H|subst v; exact Hu].
Qed.

Lemma fam_count_local : forall st v s u w, ~ In v (gpred g u) ->
  fam_count g m (fupdN st v s) u w = fam_count g m st u w.
Proof.
  intros st v s u w Hv. unfold fam_count. rewrite Hsrc. cbn [N.eqb].
  f_equal. f_equal. apply filter_ext_in. intros x Hx. unfold fupdN.
  destruct (N.eqb_spec x v) as [E|E]; [subst x; contradiction|reflexivity].
Qed.

Lemma fam_covers : influence_covers g (fam_rate g m) (fam_infl g m).
Proof.
  intros st v s u Hu Hne.
  destruct (N.eq_dec u v) as [E|E]; [left; exact E|]. right.
  destruct (in_dec N.eq_dec u (gadj g v)) as [Hin|Hin].
  - unfold fam_infl. destruct Hinfl as [Ei|Ei]; rewrite Ei; [exact Hin|apply in_or_app; left; exact Hin].
  - exfalso. apply Hne. unfold fam_rate.
    assert (Hst : fupdN st v s u = st u).
    { unfold fupdN. destruct (N.eqb_spec u v); [contradiction|reflexivity]. }
    rewrite Hst. destruct (nth_error (cm_rows m) (N.to_nat (st u))); [|reflexivity].
    rewrite fam_count_local; [reflexivity|]. intro Hp. apply Hin. apply Hconv. exact Hp.
Qed.

End Family.

(* long-range influence: whatever the rates depend on, an influence set that is
   the whole node set covers *)
Lemma fam_covers_global : forall g m, cm_infl m = 2%N ->
  influence_covers g (fam_rate g m) (fam_infl g m).
Proof.
  intros g m Hi st v s u Hu _. right. unfold fam_infl. rewrite Hi. exact Hu.
Qed.

(* a concrete instance: threshold contagion (S turns I at rate 3/2 once two
   neighbours are I; I recovers to R at rate 1) on the path 0 - 1 - 2 plus the
   edge 0 - 2 (a triangle), labelled 0,1,2 *)
Definition ex_graph : graph :=
  let adj := fun u => match u with 0%N => [1;2]%N | 1%N => [0;2]%N | 2%N => [0;1]%N | _ => [] end in
  mkGraph [0;1;2]%N adj adj false (fun _ _ => 1) (fun _ => 1) false false.
Definition ex_model : cmodel :=
  mkCM [mkSRow 1 2 (3#2) 0 0 0 0 1 1; mkSRow 0 0 1 0 0 0 0 2 2] 0 0 [].

Lemma ex_covers : influence_covers ex_graph (fam_rate ex_graph ex_model) (fam_infl ex_graph ex_model).
Proof.
  apply fam_covers.
  - intros u v. cbn. destruct u as [|[[]|[]|]]; cbn; intros H; repeat (destruct H as [H|H]; [subst v; cbn; auto|]); try contradiction.
  - reflexivity.
  - left. reflexivity.
Qed.

Lemma ex_rate_nonneg : forall st u, 0 <= fam_rate ex_graph ex_model st u.
Proof.
  apply fam_rate_nonneg.
  - intros u v. cbn. lra.
  - intros u. cbn. lra.
  - intros r [E|[E|[]]]; subst r; cbn; repeat split; lra.
Qed.

Lemma ex_infl_in : forall st u v, In u (gnodes ex_graph) -> In v (fam_infl ex_graph ex_model st u) -> In v (gnodes ex_graph).
Proof.
  intros st u v Hu. apply fam_infl_in; [|left; reflexivity|exact Hu].
  intros a b. cbn. destruct a as [|[[]|[]|]]; cbn; intros H; repeat (destruct H as [H|H]; [subst b; auto|]); try contradiction.
Qed.

(* a run of that instance with two nodes infectious at the start: the third
   turns I (threshold reached), then a recovery; draws = delay, rank, accept, ... *)
Definition ex_run :=
  run_complex ex_graph (fam_rate ex_graph ex_model) (fam_choice ex_graph ex_model) (fam_infl ex_graph ex_model)
    [0;1;2]%N 0 (Some 1) false (fun u => Some (match u with 2%N => 0 | _ => 1 end)%N) 10
    [1#2; 2; 1#1024; 1#4; 0; 1#1024; 1].

Lemma ex_nodup : NoDup (gnodes ex_graph).
Proof. cbn. repeat constructor; cbn; intuition discriminate. Qed.

Definition ex_run_value : result cout * list call :=
  (Ok (mkOut [(0, [1; 2; 0]%Z); (1 # 2, [0; 3; 0]%Z); (6 # 8, [0; 2; 1]%Z)] None,
       [(0, 0, [1; 1; 0]); (0, 1, [1; 1; 0]); (0, 2, [1; 1; 0]); (1, 2, [1; 1; 0]);
        (0, 2, [1; 1; 1]); (2, 2, [1; 1; 1]); (0, 0, [1; 1; 1]); (0, 1, [1; 1; 1]);
        (1, 0, [1; 1; 1]); (0, 0, [2; 1; 1]); (2, 0, [2; 1; 1]); (0, 1, [2; 1; 1]);
        (0, 2, [2; 1; 1])]%N),
   [CExpo (7 # 2); CPick [[0]; [1]; [2]]%N; CAcc (3 # 2); CExpo (12 # 4);
    CPick [[0]; [1]; [2]]%N; CAcc 1; CExpo (8 # 4)]).

Lemma ex_run_ok : ex_run = ex_run_value.
Proof. vm_compute. reflexivity. Qed.
