(* C18, event-driven SIR (fast_nonMarkov_SIR, fast_SIR on both of its paths): the
   return_full_data flag is read only after the event loop has ended (`finish`), so the
   two modes make the same calls to the random source, with the same arguments, on every
   draw script, call the user's rules in the same order, and return the same arrays.  The
   only difference the model allows is a failure while the node histories are built (an
   infinite time inside a history: ValueErr, unreachable inside the domain of C11, see
   [esir_flag_indep_tables]). *)
From EoNV Require Import Prelude Samp Graph EventSIR EventSIRConst FlagIndep C18xSim.
From EoNV Require Import EventSIRP EventSIRMain EventSIROut EventSIRPred.

Definition esir_out := (simout * list (node * option node))%type.

(* r1 = result with full data, r2 = result in plain mode *)
Definition flag_rel (r1 r2 : result esir_out) : Prop :=
  match r2 with
  | Ok (o2, c2) =>
      so_full o2 = None /\
      (r1 = Err ValueErr \/
       exists o1, r1 = Ok (o1, c2) /\ so_rows o1 = so_rows o2 /\ so_full o1 <> None)
  | Err e => r1 = Err e
  end.

Lemma flag_rel_err : err_refl flag_rel.
Proof. intro e. reflexivity. Qed.

Lemma node_hist_err : forall tmin s u e, node_hist tmin s u = Err e -> e = ValueErr.
Proof.
  intros tmin s u e H. unfold node_hist in H.
  destruct (predt s u) as [[t|]|]; destruct (negb (N.eqb (stat s u) stS)); cbn [rbind] in H;
    try (injection H as <-; reflexivity);
    destruct (rect s u) as [[t'|]|]; destruct (N.eqb (stat s u) stR); try discriminate H;
    injection H as <-; reflexivity.
Qed.

Lemma all_ok_err : forall tmin s l e,
  all_ok (map (fun u => rbind (node_hist tmin s u) (fun h => Ok (u, h))) l) = Err e -> e = ValueErr.
Proof.
  intros tmin s l e. induction l as [|u l IH]; cbn [map all_ok]; intro H; [discriminate H|].
  destruct (node_hist tmin s u) as [h|e1] eqn:Hh; cbn [rbind] in H.
  - destruct (all_ok _) as [t|e2]; cbn [rbind] in H; [discriminate H|]. injection H as <-. apply IH. reflexivity.
  - injection H as <-. eapply node_hist_err. exact Hh.
Qed.

Lemma finish_flag : forall g tmin n0 s, flag_rel (finish g tmin true n0 s) (finish g tmin false n0 s).
Proof.
  intros g tmin n0 s. unfold finish. cbn [flag_rel so_full so_rows]. split; [reflexivity|].
  destruct (all_ok _) as [hs|e] eqn:Ha; cbn [rbind].
  - right. eexists. split; [reflexivity|]. cbn [so_rows so_full]. split; [reflexivity|discriminate].
  - left. apply all_ok_err in Ha. subst e. reflexivity.
Qed.

Lemma lift_leaf : forall A (r : result A), leaf (lift r Ret) = Some r.
Proof. intros A [a|e]; reflexivity. Qed.
Lemma blift_leaf : forall A (r : result A), bleaf (blift r BRet) = Some r.
Proof. intros A [a|e]; reflexivity. Qed.

Section Flag.
Variable tb : tiepolicy.
Variable g : graph.
Variable tmin : Q.
Variable tmax : xtime.

Lemma gloop_flag : forall prov n0 fuel s,
  simrelx flag_rel (gloop tb g tmin tmax prov true n0 fuel s) (gloop tb g tmin tmax prov false n0 fuel s).
Proof.
  intros prov n0. induction fuel as [|f IH]; intro s; cbn [gloop]; destruct (qu s) as [|e q'].
  - eapply sx_leaf; [apply lift_leaf|apply lift_leaf|apply finish_flag].
  - eapply sx_leaf; [reflexivity|reflexivity|reflexivity].
  - eapply sx_leaf; [apply lift_leaf|apply lift_leaf|apply finish_flag].
  - destruct (qe e) as [src tgt|u]; [|apply IH].
    destruct (N.eqb (stat (set_qu s q') tgt) stS); [|apply IH].
    apply simrelx_bind_same; [exact flag_rel_err|]. intro a. apply IH.
Qed.

Lemma bgloop_flag : forall prov n0 fuel s,
  bsimrelx flag_rel (bgloop g tmin tmax prov true n0 fuel s) (bgloop g tmin tmax prov false n0 fuel s).
Proof.
  intros prov n0. induction fuel as [|f IH]; intro s; cbn [bgloop]; destruct (qu s) as [|e q'].
  - eapply bx_leaf; [apply blift_leaf|apply blift_leaf|apply finish_flag].
  - eapply bx_leaf; [reflexivity|reflexivity|reflexivity].
  - eapply bx_leaf; [apply blift_leaf|apply blift_leaf|apply finish_flag].
  - destruct (qe e) as [src tgt|u]; [|apply IH].
    destruct (N.eqb (stat (set_qu s q') tgt) stS); [|apply IH].
    apply bsimrelx_bind_same; [exact flag_rel_err|]. intro a. apply IH.
Qed.

End Flag.

Lemma fast_nonmarkov_flag : forall tb g prov i0 r0 rho tmin tmax fuel,
  simrelx flag_rel (fast_nonmarkov tb g prov i0 r0 rho tmin tmax true fuel)
                   (fast_nonmarkov tb g prov i0 r0 rho tmin tmax false fuel).
Proof.
  intros tb g prov i0 r0 rho tmin tmax fuel. unfold fast_nonmarkov.
  assert (HF : forall e, simrelx flag_rel (Fail e) (Fail e : samp esir_out))
    by (intro e; eapply sx_leaf; reflexivity).
  destruct rho as [r|]; destruct i0 as [l|]; destruct r0 as [l0|]; try apply HF; try apply gloop_flag;
    (destruct (_ <? 0)%Z; [apply HF|]; constructor; intro ks; apply gloop_flag).
Qed.

Lemma fast_sir_const_flag : forall g tau gamma i0 r0 rho tmin tmax fuel,
  bsimrelx flag_rel (fast_sir_const g tau gamma i0 r0 rho tmin tmax true fuel)
                    (fast_sir_const g tau gamma i0 r0 rho tmin tmax false fuel).
Proof.
  intros g tau gamma i0 r0 rho tmin tmax fuel. unfold fast_sir_const.
  assert (HF : forall e, bsimrelx flag_rel (BFail e) (BFail e : bsamp esir_out))
    by (intro e; eapply bx_leaf; reflexivity).
  destruct rho as [r|]; destruct i0 as [l|]; destruct r0 as [l0|]; try apply HF; try apply bgloop_flag;
    (destruct (_ <? 0)%Z; [apply HF|]; constructor; intro ks; apply bgloop_flag).
Qed.

(* fast_nonMarkov_SIR with ANY provider of delays (the user's tables, per-edge
   expovariate = fast_SIR's weighted path, or any other sampler program), any tie policy *)
Theorem esir_flag_indep : forall tb g prov i0 r0 rho tmin tmax fuel ds,
  let r1 := exec (fast_nonmarkov tb g prov i0 r0 rho tmin tmax true fuel) ds [] in
  let r2 := exec (fast_nonmarkov tb g prov i0 r0 rho tmin tmax false fuel) ds [] in
  snd r1 = snd r2 /\ flag_rel (fst r1) (fst r2).
Proof.
  intros. cbv zeta. apply simrelx_exec; [exact flag_rel_err|apply fast_nonmarkov_flag].
Qed.

(* fast_SIR, constant-tau path (expovariate, binomial, sample) *)
Theorem fast_sir_const_flag_indep : forall g tau gamma i0 r0 rho tmin tmax fuel ds,
  let r1 := bexec (fast_sir_const g tau gamma i0 r0 rho tmin tmax true fuel) ds [] in
  let r2 := bexec (fast_sir_const g tau gamma i0 r0 rho tmin tmax false fuel) ds [] in
  snd r1 = snd r2 /\ flag_rel (fst r1) (fst r2).
Proof.
  intros. cbv zeta. apply bsimrelx_bexec; [exact flag_rel_err|apply fast_sir_const_flag].
Qed.

(* with the rules given as tables inside the domain of C11 both modes RETURN: the ValueErr
   escape of [flag_rel] does not happen *)
Theorem esir_flag_indep_tables : forall tb g delay dur i0 r0 tmin tmax fuel ds,
  esir_okb g delay dur i0 (match r0 with Some l => l | None => [] end) tmin tmax = true ->
  (esir_fuel g i0 <= fuel)%nat ->
  exists o1 o2 cs,
    fst (exec (fast_nonmarkov tb g (det_provider delay dur) (Some i0) r0 None tmin tmax true fuel) ds []) = Ok (o1, cs) /\
    fst (exec (fast_nonmarkov tb g (det_provider delay dur) (Some i0) r0 None tmin tmax false fuel) ds []) = Ok (o2, cs) /\
    so_rows o1 = so_rows o2 /\ so_full o2 = None /\ so_full o1 <> None.
Proof.
  intros tb g delay dur i0 r0 tmin tmax fuel ds Hok Hfuel.
  destruct (esir_flag_indep tb g (det_provider delay dur) (Some i0) r0 None tmin tmax fuel ds) as [_ Hrel].
  cbv zeta in Hrel. rewrite !fast_nonmarkov_exec in Hrel. rewrite !fast_nonmarkov_exec.
  destruct (esir_det_full_ok tb g delay dur i0 _ tmin tmax true fuel Hok Hfuel) as [sF [o1 [cs1 [_ [H1 _]]]]].
  destruct (esir_det_full_ok tb g delay dur i0 _ tmin tmax false fuel Hok Hfuel) as [sF2 [o2 [cs2 [_ [H2 _]]]]].
  rewrite H1, H2 in Hrel. rewrite H1, H2. cbn [flag_rel] in Hrel. destruct Hrel as [Hn [Hbad|[o1' [Ho [Hr Hf]]]]]; [discriminate Hbad|].
  injection Ho as <- ->. exists o1, o2, cs2. repeat split; assumption.
Qed.
