(* Proofs about Model/EventSIS.v, part 4: fast_SIS (Markovian).  A predicate
   "every result of a sampler program satisfies P" ([allS]) lifted through
   [exec]; the state invariant of the event loop; every reported event is an
   enabled event of the SIS generator; the rates handed to expovariate. *)
From EoNV Require Import Prelude Samp Graph EventSIS EventSISP.
From Coq Require Import Permutation Sorted Lqa.

(* ---------------- all outcomes of a sampler program ---------------- *)
Fixpoint allS {A} (P : A -> Prop) (m : samp A) : Prop :=
  match m with
  | Ret a => P a
  | Fail _ => True
  | Expo _ k => forall d, allS P (k d)
  | Flip _ a b => allS P a /\ allS P b
  | Casc _ k => forall i, allS P (k i)
  | Choose _ _ k => forall x, allS P (k x)
  | Unif _ k => forall x, allS P (k x)
  | Sample _ _ k => forall l, allS P (k l)
  end.

Ltac brk H :=
  repeat match type of H with
         | context [match ?x with _ => _ end] => destruct x eqn:?; try discriminate H
         end.

Lemma exec_allS : forall A (P : A -> Prop) (m : samp A) ds tr a tr',
  allS P m -> exec m ds tr = (Ok a, tr') -> P a.
Proof.
  intros A P m. induction m as [a0|e|r k IH|p kt IHt kf IHf|ps k IH|w c k IH|c k IH|pop n k IH];
    intros ds tr a tr' HS H; cbn [exec allS] in *.
  - injection H as <- _. exact HS.
  - discriminate H.
  - brk H. eapply IH; [apply HS|exact H].
  - destruct HS as [H1 H2]. destruct ds as [|d ds']; [discriminate H|].
    destruct (unit_draw d); [|discriminate H]. destruct (Qltb d p); [eapply IHt|eapply IHf]; eassumption.
  - brk H. eapply IH; [apply HS|exact H].
  - destruct (choose_exec w c ds tr) as [[[x|e] tr1] ds1]; [|discriminate H]. eapply IH; [apply HS|exact H].
  - brk H. eapply IH; [apply HS|exact H].
  - brk H. eapply IH; [apply HS|exact H].
Qed.

(* every call made to the random source, along every path *)
Fixpoint allC {A} (C : call -> Prop) (m : samp A) : Prop :=
  match m with
  | Ret _ => True
  | Fail _ => True
  | Expo r k => C (CExpo r) /\ forall d, allC C (k d)
  | Flip p a b => C (CFlip p) /\ allC C a /\ allC C b
  | Casc ps k => C (CCasc ps) /\ forall i, allC C (k i)
  | Choose _ _ k => False
  | Unif c k => C (CPick c) /\ forall x, allC C (k x)
  | Sample pop n k => C (CSample pop n) /\ forall l, allC C (k l)
  end.

Ltac fin_tr H :=
  injection H as _ <-;
  try (match goal with |- Forall _ (rev ?t ++ [?x]) => change (rev t ++ [x]) with (rev (x :: t)) end);
  apply Forall_rev; first [assumption | constructor; assumption].

Lemma exec_allC : forall A (C : call -> Prop) (m : samp A) ds tr r tr',
  allC C m -> Forall C tr -> exec m ds tr = (r, tr') -> Forall C tr'.
Proof.
  intros A C m. induction m as [a0|e|r0 k IH|p kt IHt kf IHf|ps k IH|w c k IH|c k IH|pop n k IH];
    intros ds tr r tr' HS Htr H; cbn [exec allC] in *.
  - fin_tr H.
  - fin_tr H.
  - destruct HS as [Hc Hk]. destruct (Qeqb r0 0).
    + fin_tr H.
    + destruct ds as [|d ds']; [fin_tr H|].
      destruct (Qltb d 0); [fin_tr H|].
      eapply IH; [apply Hk| |exact H]. constructor; assumption.
  - destruct HS as [Hc [H1 H2]]. destruct ds as [|d ds']; [fin_tr H|].
    destruct (unit_draw d); [|fin_tr H].
    destruct (Qltb d p); [eapply (IHt ds' (CFlip p :: tr))|eapply (IHf ds' (CFlip p :: tr))]; try exact H; try assumption; constructor; assumption.
  - destruct HS as [Hc Hk]. destruct ds as [|d ds']; [fin_tr H|].
    destruct (unit_draw d); [|fin_tr H].
    eapply IH; [apply Hk| |exact H]. constructor; assumption.
  - destruct HS.
  - destruct HS as [Hc Hk]. destruct c as [|c0 c'].
    + fin_tr H.
    + destruct ds as [|d ds']; [fin_tr H|].
      destruct (nth_error (c0 :: c') (rank d)); [|fin_tr H].
      eapply IH; [apply Hk| |exact H]. constructor; assumption.
  - destruct HS as [Hc Hk]. destruct (Nat.ltb (length pop) n).
    + fin_tr H.
    + destruct ds as [|d ds']; [fin_tr H|].
      eapply IH; [apply Hk| |exact H]. constructor; assumption.
Qed.

(* both at once *)
Fixpoint allSC {A} (P : A -> Prop) (C : call -> Prop) (m : samp A) : Prop :=
  match m with
  | Ret a => P a
  | Fail _ => True
  | Expo r k => C (CExpo r) /\ forall d, allSC P C (k d)
  | Flip p a b => C (CFlip p) /\ allSC P C a /\ allSC P C b
  | Casc ps k => C (CCasc ps) /\ forall i, allSC P C (k i)
  | Choose _ _ k => False
  | Unif c k => C (CPick c) /\ forall x, allSC P C (k x)
  | Sample pop n k => C (CSample pop n) /\ forall l, allSC P C (k l)
  end.
Lemma allSC_split : forall A P C (m : samp A), allSC P C m -> allS P m /\ allC C m.
Proof.
  intros A P C m. induction m as [a0|e|r0 k IH|p kt IHt kf IHf|ps k IH|w c k IH|c k IH|pop n k IH]; cbn [allSC allS allC]; intro H.
  - split; [exact H|exact I].
  - split; exact I.
  - destruct H as [Hc Hk]. split; [intro d; apply IH; apply Hk|split; [exact Hc|intro d; apply IH; apply Hk]].
  - destruct H as [Hc [H1 H2]]. destruct (IHt H1), (IHf H2). repeat split; assumption.
  - destruct H as [Hc Hk]. split; [intro d; apply IH; apply Hk|split; [exact Hc|intro d; apply IH; apply Hk]].
  - destruct H.
  - destruct H as [Hc Hk]. split; [intro d; apply IH; apply Hk|split; [exact Hc|intro d; apply IH; apply Hk]].
  - destruct H as [Hc Hk]. split; [intro d; apply IH; apply Hk|split; [exact Hc|intro d; apply IH; apply Hk]].
Qed.

Lemma nodup_app_r : forall {T} (a b : list T), NoDup (a ++ b) -> NoDup b.
Proof. intros T a b. induction a as [|x a IH]; intro H; [exact H|]. inversion H; subst. apply IH. assumption. Qed.

Lemma mem_In_true : forall x l, In x l -> mem x l = true.
Proof.
  intros x l H. unfold mem. apply existsb_exists. exists x. split; [exact H|apply N.eqb_refl].
Qed.

(* ================================================================== *)
Section FS.
Variable g : graph.
Variables tau gamma : Q.
Variable tmax : xtime.

Notation fnext := (@find_next tmax).

Definition src_ok (s : mst) (x : qent mev) : Prop :=
  match snd x with
  | MTrans (Some u) v => ms_stat s u = stI /\ xtlt (Some (qtime x)) (ms_rec s u) = true /\ mem v (gadj g u) = true
  | MTrans None _ => True
  | MRec v => ms_stat s v = stI /\ ms_rec s v = Some (qtime x)
  end.
Definition rec_nodes (l : list (qent mev)) : list node :=
  flat_map (fun x => match snd x with MRec v => [v] | _ => [] end) l.

Record MInv (s : mst) : Prop := mkMInv {
  mi_sorted : tsorted (q_items (ms_q s));
  mi_entries : Forall (src_ok s) (q_items (ms_q s));
  mi_nodup : NoDup (rec_nodes (q_items (ms_q s)));
  mi_log : log_ok g (l_elog (ms_log s)) (l_tlog (ms_log s)) = true;
  mi_stat : forall x, stat_of (l_elog (ms_log s)) x = ms_stat s x
}.

Definition qonly (s s' : mst) : Prop :=
  ms_stat s' = ms_stat s /\ ms_rec s' = ms_rec s /\ ms_log s' = ms_log s.

Lemma rec_nodes_perm : forall a b, Permutation a b -> Permutation (rec_nodes a) (rec_nodes b).
Proof. intros a b H. unfold rec_nodes. apply Permutation_flat_map. exact H. Qed.

(* Q.add of one event that satisfies its own clause *)
Lemma MInv_add : forall s t e,
  MInv s -> (xlt t tmax = true -> src_ok s (t, q_ctr (ms_q s), e)) ->
  (forall v, e = MRec v -> ~ In v (rec_nodes (q_items (ms_q s)))) ->
  MInv (set_q s (q_add tmax (ms_q s) t e)) /\ qonly s (set_q s (q_add tmax (ms_q s) t e)).
Proof.
  intros s t e [Hs He Hn Hl Hst] Hok Hfresh. split; [|repeat split].
  unfold q_add. destruct (xlt t tmax) eqn:V.
  - constructor; cbn [set_q ms_q ms_stat ms_rec ms_log q_items]; try assumption.
    + apply qins_sorted. exact Hs.
    + eapply Permutation_Forall; [apply Permutation_sym; apply qins_perm|]. constructor; [apply Hok; reflexivity|exact He].
    + eapply Permutation_NoDup; [apply Permutation_sym; apply rec_nodes_perm; apply qins_perm|].
      unfold rec_nodes. cbn [flat_map snd]. fold (rec_nodes (q_items (ms_q s))).
      destruct e as [v|src tgt]; [|exact Hn]. cbn [app]. constructor; [apply (Hfresh v eq_refl)|exact Hn].
  - destruct s as [st rc [it ct] lg]. constructor; assumption.
Qed.

Section Post.
Context {A : Type}.
Variable P : A -> Prop.
Variable C : call -> Prop.
Hypothesis HCtr : forall u v, mem v (gadj g u) = true -> C (CExpo (trans_rate g tau u v)).
Hypothesis HCrec : forall v, C (CExpo (rec_rate g gamma v)).
Notation allP := (allSC P C).

Lemma find_next_inv : forall time rate src tgt s (k : mst -> samp A),
  MInv s -> ms_stat s src = stI -> mem tgt (gadj g src) = true -> C (CExpo rate) ->
  (forall s', MInv s' -> qonly s s' -> allP (k s')) ->
  allP (@find_next tmax A time rate src tgt s k).
Proof.
  intros time rate src tgt s k Hi Hsrc Hadj Hrate Hk. unfold find_next.
  assert (Hfin : forall tt : xtime,
     allP (match tt with
             | Some t => if xtlt tt (ms_rec s src) && xlt t tmax
                         then k (set_q s (q_add tmax (ms_q s) t (MTrans (Some src) tgt))) else k s
             | None => k s end)).
  { intros [t|]; [|apply Hk; [exact Hi|repeat split]].
    destruct (xtlt (Some t) (ms_rec s src) && xlt t tmax) eqn:B; [|apply Hk; [exact Hi|repeat split]].
    apply andb_prop in B. destruct B as [B1 B2].
    destruct (MInv_add s t (MTrans (Some src) tgt) Hi) as [H1 H2].
    - intros _. unfold src_ok. cbn [snd qtime fst]. repeat split; assumption.
    - intros v Hv. discriminate Hv.
    - apply Hk; assumption. }
  assert (Hre : forall tt : xtime,
     allP (if xtlt tt (ms_rec s tgt)
             then Expo rate (fun d2 => match ms_rec s tgt with
                                       | Some r => (fun tt => match tt with
             | Some t => if xtlt tt (ms_rec s src) && xlt t tmax
                         then k (set_q s (q_add tmax (ms_q s) t (MTrans (Some src) tgt))) else k s
             | None => k s end) (Some (tadd r d2))
                                       | None => k s end)
             else match tt with
             | Some t => if xtlt tt (ms_rec s src) && xlt t tmax
                         then k (set_q s (q_add tmax (ms_q s) t (MTrans (Some src) tgt))) else k s
             | None => k s end)).
  { intro tt. destruct (xtlt tt (ms_rec s tgt)); [|apply Hfin]. cbn [allSC]. split; [exact Hrate|]. intro d2.
    destruct (ms_rec s tgt) as [r|]; [apply (Hfin (Some (tadd r d2)))|apply Hk; [exact Hi|repeat split]]. }
  destruct (xtlt (ms_rec s tgt) (ms_rec s src)); [|apply Hk; [exact Hi|repeat split]].
  destruct (Qltb 0 rate).
  - cbn [allSC]. split; [exact Hrate|]. intro d. apply (Hre (Some (tadd time d))).
  - destruct (Qeqb rate 0); [apply (Hre None)|exact I].
Qed.

Lemma find_next_all_inv : forall time u nbrs s (k : mst -> samp A),
  MInv s -> ms_stat s u = stI -> (forall v, In v nbrs -> mem v (gadj g u) = true) ->
  (forall s', MInv s' -> qonly s s' -> allP (k s')) ->
  allP (@find_next_all g tau tmax A time u nbrs s k).
Proof.
  intros time u nbrs. induction nbrs as [|v rest IH]; intros s k Hi Hu Hn Hk; cbn [find_next_all].
  - apply Hk; [exact Hi|repeat split].
  - apply find_next_inv; [exact Hi|exact Hu|apply Hn; left; reflexivity|apply HCtr; apply Hn; left; reflexivity|].
    intros s' Hi' [E1 [E2 E3]]. apply IH; [exact Hi'|rewrite E1; exact Hu|intros w Hw; apply Hn; right; exact Hw|].
    intros s'' Hi'' [F1 [F2 F3]]. apply Hk; [exact Hi''|]. repeat split; congruence.
Qed.

Lemma in_rec_nodes : forall v l, In v (rec_nodes l) -> exists x, In x l /\ snd x = MRec v.
Proof.
  intros v l H. unfold rec_nodes in H. apply in_flat_map in H. destruct H as [x [Hx Hv]].
  exists x. split; [exact Hx|]. destruct (snd x) as [w|? ?]; [|destruct Hv]. destruct Hv as [->|[]]. reflexivity.
Qed.

(* the state right after the infection of tgt, for any drawn recovery time *)
Lemma infect_state_inv : forall time src tgt s0 (rt : xtime),
  MInv s0 -> ms_stat s0 tgt = stS ->
  (forall u, src = Some u -> ms_stat s0 u = stI /\ mem tgt (gadj g u) = true) ->
  MInv (mkM (fupdN (ms_stat s0) tgt stI) (fupdN (ms_rec s0) tgt rt)
            (match rt with
             | Some r => if xtlt rt tmax then q_add tmax (ms_q s0) r (MRec tgt) else ms_q s0
             | None => ms_q s0
             end) (log_inf (ms_log s0) time src tgt)).
Proof.
  intros time src tgt s0 rt [Hs He Hn Hl Hst] HtS Hsrc.
  set (s1 := mkM (fupdN (ms_stat s0) tgt stI) (fupdN (ms_rec s0) tgt rt) (ms_q s0) (log_inf (ms_log s0) time src tgt)).
  assert (H1 : MInv s1).
  { constructor; unfold s1; cbn [ms_q ms_stat ms_rec ms_log log_inf l_elog l_tlog].
    - exact Hs.
    - eapply Forall_impl; [|exact He]. intros [[tx cx] ex] Hx. unfold src_ok in *. cbn [snd qtime fst ms_stat ms_rec] in *.
      destruct ex as [w|[u|] w]; [| |exact I].
      + destruct Hx as [X1 X2]. assert (w <> tgt) by (intro; subst; rewrite HtS in X1; discriminate).
        unfold fupdN. destruct (N.eqb_spec w tgt); [contradiction|]. split; assumption.
      + destruct Hx as [X1 [X2 X3]]. assert (u <> tgt) by (intro; subst; rewrite HtS in X1; discriminate).
        unfold fupdN. destruct (N.eqb_spec u tgt); [contradiction|]. repeat split; assumption.
    - exact Hn.
    - cbn [log_ok stat_of]. change (N.eqb stI stI) with true. cbv iota.
      assert (Qeqb time time = true) as -> by (apply Qeqb_true; reflexivity).
      rewrite N.eqb_refl, (Hst tgt), HtS. change (N.eqb stS stS) with true. cbn [andb].
      rewrite Hl. destruct src as [u|]; [|reflexivity].
      destruct (Hsrc u eq_refl) as [X1 X2]. rewrite (Hst u), X1, X2. reflexivity.
    - intro x. cbn [stat_of]. unfold fupdN. destruct (N.eqb x tgt); [reflexivity|apply Hst]. }
  destruct rt as [r|]; [|exact H1]. destruct (xtlt (Some r) tmax); [|exact H1].
  destruct (MInv_add s1 r (MRec tgt) H1) as [H2 _].
  - intros _. unfold src_ok, s1. cbn [snd qtime fst ms_stat ms_rec]. unfold fupdN. rewrite N.eqb_refl. split; reflexivity.
  - intros v Hv Hin. injection Hv as <-. unfold s1 in Hin. cbn [ms_q] in Hin. apply in_rec_nodes in Hin. destruct Hin as [x [Hx Ex]].
    rewrite Forall_forall in He. specialize (He x Hx). unfold src_ok in He. rewrite Ex in He. destruct He as [X1 _].
    rewrite HtS in X1. discriminate.
  - exact H2.
Qed.

Lemma m_trans_inv : forall time src tgt s0 (k : mst -> samp A),
  MInv s0 -> (forall u, src = Some u -> ms_stat s0 u = stI /\ mem tgt (gadj g u) = true) ->
  (forall s', MInv s' -> allP (k s')) ->
  allP (@m_trans g tau gamma tmax A time src tgt s0 k).
Proof.
  intros time src tgt s0 k Hi Hsrc Hk. unfold m_trans.
  assert (Hafter : forall s1, MInv s1 -> (forall u, src = Some u -> ms_stat s1 u = stI) ->
     allP (match src with
           | Some u => @find_next tmax A time (trans_rate g tau u tgt) u tgt s1 k
           | None => k s1 end)).
  { intros s1 H1 Hu. destruct src as [u|]; [|apply Hk; exact H1].
    destruct (Hsrc u eq_refl) as [_ X2].
    apply find_next_inv; [exact H1|apply Hu; reflexivity|exact X2|apply HCtr; exact X2|].
    intros s' Hs' _. apply Hk. exact Hs'. }
  destruct (N.eqb_spec (ms_stat s0 tgt) stS) as [HtS|HtS]; [|apply Hafter; [exact Hi|intros u Eu; apply (Hsrc u Eu)]].
  assert (Hcont : forall rt : xtime,
     allP (@find_next_all g tau tmax A time tgt (gadj g tgt)
             (mkM (fupdN (ms_stat s0) tgt stI) (fupdN (ms_rec s0) tgt rt)
                  (match rt with
                   | Some r => if xtlt rt tmax then q_add tmax (ms_q s0) r (MRec tgt) else ms_q s0
                   | None => ms_q s0 end) (log_inf (ms_log s0) time src tgt))
             (fun s1 => match src with
                        | Some u => @find_next tmax A time (trans_rate g tau u tgt) u tgt s1 k
                        | None => k s1 end))).
  { intro rt. pose proof (infect_state_inv time src tgt s0 rt Hi HtS Hsrc) as H1.
    apply find_next_all_inv; [exact H1| | |].
    - cbn [ms_stat]. unfold fupdN. rewrite N.eqb_refl. reflexivity.
    - intros v Hv. apply mem_In_true. exact Hv.
    - intros s' Hs' [E1 _]. apply Hafter; [exact Hs'|]. intros u Eu. rewrite E1. cbn [ms_stat].
      destruct (Hsrc u Eu) as [X1 _]. unfold fupdN. destruct (N.eqb_spec u tgt) as [->|_]; [reflexivity|exact X1]. }
  destruct (Qltb 0 (rec_rate g gamma tgt)).
  - cbn [allSC]. split; [apply HCrec|]. intro d. apply (Hcont (Some (tadd time d))).
  - destruct (Qeqb (rec_rate g gamma tgt) 0); [apply (Hcont None)|exact I].
Qed.

End Post.

Definition pop_state (s : mst) (rest : list (qent mev)) : mst := set_q s (mkQ rest (q_ctr (ms_q s))).

Lemma MInv_pop : forall s e rest,
  MInv s -> q_items (ms_q s) = e :: rest ->
  MInv (pop_state s rest) /\ src_ok s e /\ Forall (fun x => qtime e <= qtime x) rest /\
  (forall v, snd e = MRec v -> ~ In v (rec_nodes rest)).
Proof.
  intros s e rest [Hs He Hn Hl Hst] Eq. rewrite Eq in *.
  inversion Hs as [|? ? Hs' Hle]; subst. inversion He as [|? ? He1 He']; subst.
  split; [|split; [exact He1|split; [exact Hle|]]].
  - constructor; cbn [pop_state set_q ms_q ms_stat ms_rec ms_log q_items]; try assumption.
    unfold rec_nodes in Hn. cbn [flat_map] in Hn. apply nodup_app_r in Hn. exact Hn.
  - intros v Ev. unfold rec_nodes in Hn. cbn [flat_map] in Hn. rewrite Ev in Hn. cbn [app] in Hn.
    inversion Hn; assumption.
Qed.

Lemma recover_inv : forall s t c v rest,
  MInv s -> q_items (ms_q s) = (t, c, MRec v) :: rest -> MInv (m_recover t v (pop_state s rest)).
Proof.
  intros s t c v rest Hi Eq. destruct (MInv_pop s _ rest Hi Eq) as [[Hs He Hn Hl Hst] [Hv [Hle Hfresh]]].
  unfold src_ok in Hv. cbn [snd qtime fst] in Hv, Hle. destruct Hv as [HvI Hrv].
  cbn [pop_state set_q ms_q ms_stat ms_rec ms_log q_items] in *.
  constructor; cbn [m_recover pop_state set_q ms_q ms_stat ms_rec ms_log q_items log_rec l_elog l_tlog].
  - exact Hs.
  - rewrite Forall_forall in *. intros [[tx cx] ex] Hx. pose proof (He _ Hx) as Hsx. pose proof (Hle _ Hx) as Htx.
    unfold src_ok, m_recover, pop_state, set_q in *. cbn [snd qtime fst ms_stat ms_rec] in *. destruct ex as [w|[u|] w]; [| |exact I].
    + destruct Hsx as [X1 X2]. assert (w <> v).
      { intro; subst w. apply (Hfresh v eq_refl). unfold rec_nodes. apply in_flat_map. exists (tx, cx, MRec v). split; [exact Hx|left; reflexivity]. }
      unfold fupdN. destruct (N.eqb_spec w v); [contradiction|]. split; assumption.
    + destruct Hsx as [X1 [X2 X3]]. assert (u <> v).
      { intro; subst u. rewrite Hrv in X2. cbn [xtlt] in X2. apply Qltb_true in X2. lra. }
      unfold fupdN. destruct (N.eqb_spec u v); [contradiction|]. repeat split; assumption.
  - exact Hn.
  - cbn [log_ok stat_of]. change (N.eqb stS stI) with false. cbv iota. change (N.eqb stS stS) with true.
    rewrite (Hst v), HvI. change (N.eqb stI stI) with true. cbn [andb]. exact Hl.
  - intro x. cbn [stat_of]. unfold fupdN. destruct (N.eqb x v); [reflexivity|apply Hst].
Qed.


(* what every finished run returns: [finish] of a pair of logs that replays as a
   path of the SIS generator *)
Definition good_out (tmin : Q) (full : bool) (ni0 : nat) (out : simout) : Prop :=
  exists lg, out = finish g tmin full ni0 lg /\ log_ok g (l_elog lg) (l_tlog lg) = true.

(* the only calls: expovariate with a generator rate (recovery of a node, or
   transmission along an EDGE), and the initial random.sample *)
Definition gen_call (c : call) : Prop :=
  match c with
  | CExpo r => (exists v, r = rec_rate g gamma v) \/ (exists u v, mem v (gadj g u) = true /\ r = trans_rate g tau u v)
  | CSample pop n => pop = map knode (gnodes g)
  | _ => False
  end.

Lemma m_loop_inv : forall tmin full ni0 fuel s,
  MInv s -> allSC (good_out tmin full ni0) gen_call (m_loop g tau gamma tmax tmin full ni0 fuel s).
Proof.
  intros tmin full ni0 fuel. induction fuel as [|f IH]; intros s Hi; cbn [m_loop].
  - destruct (q_items (ms_q s)) as [|[[t c] e] rest]; cbn [allSC]; [|exact I].
    exists (ms_log s). split; [reflexivity|apply (mi_log s Hi)].
  - destruct (q_items (ms_q s)) as [|[[t c] e] rest] eqn:Eq; cbn [allSC].
    { exists (ms_log s). split; [reflexivity|apply (mi_log s Hi)]. }
    destruct e as [v|src tgt].
    + apply IH. apply (recover_inv s t c v rest Hi Eq).
    + destruct (MInv_pop s _ rest Hi Eq) as [Hp [Hsrc _]].
      apply (m_trans_inv (good_out tmin full ni0) gen_call).
      * intros u v Huv. right. exists u, v. split; [exact Huv|reflexivity].
      * intro v. left. exists v. reflexivity.
      * exact Hp.
      * intros u ->. unfold src_ok in Hsrc. cbn [snd] in Hsrc. destruct Hsrc as [X1 [_ X3]]. split; assumption.
      * intros s' Hs'. apply IH. exact Hs'.
Qed.

Lemma m_init_inv : forall tmin i0, MInv (m_init g tmax tmin i0).
Proof.
  intros tmin i0. unfold m_init.
  assert (K : forall l q, MInv (mkM (fun _ => stS) (fun _ => Some (tmin - 1)) q (logs0 g tmin)) ->
              MInv (mkM (fun _ => stS) (fun _ => Some (tmin - 1))
                        (fold_left (fun q u => q_add tmax q tmin (MTrans None u)) l q) (logs0 g tmin))).
  { induction l as [|u l IH]; intros q Hq; [exact Hq|]. cbn [fold_left]. apply IH.
    destruct (MInv_add _ tmin (MTrans None u) Hq) as [H1 _]; [intros _; exact I|intros v Hv; discriminate Hv|exact H1]. }
  apply K. constructor; cbn; try constructor; try reflexivity.
Qed.

Theorem fsis_valid_path_and_rates : forall i0 rho tmin full fuel ds out tr,
  exec (fast_SIS g tau gamma tmax i0 rho tmin full fuel) ds [] = (out, tr) ->
  Forall gen_call tr /\
  (forall o, out = Ok o -> exists ni0, good_out tmin full ni0 o).
Proof.
  intros i0 rho tmin full fuel ds out tr H.
  assert (HA : allSC (fun o => exists ni0, good_out tmin full ni0 o) gen_call (fast_SIS g tau gamma tmax i0 rho tmin full fuel)).
  { unfold fast_SIS, with_initial.
    assert (K : forall l, allSC (fun o => exists ni0, good_out tmin full ni0 o) gen_call
                            (m_loop g tau gamma tmax tmin full (length l) fuel (m_init g tmax tmin l))).
    { intro l. pose proof (m_loop_inv tmin full (length l) fuel _ (m_init_inv tmin l)) as K0.
      revert K0. generalize (m_loop g tau gamma tmax tmin full (length l) fuel (m_init g tmax tmin l)).
      intro m. induction m as [a0|e|r0 k IH|p kt IHt kf IHf|ps k IH|w c k IH|c k IH|pop n k IH]; cbn [allSC]; intro K0.
      - exists (length l). exact K0.
      - exact I.
      - destruct K0 as [Hc Hk]. split; [exact Hc|intro d; apply IH; apply Hk].
      - destruct K0 as [Hc [H1 H2]]. repeat split; [exact Hc|apply IHt; exact H1|apply IHf; exact H2].
      - destruct K0 as [Hc Hk]. split; [exact Hc|intro d; apply IH; apply Hk].
      - exact K0.
      - destruct K0 as [Hc Hk]. split; [exact Hc|intro d; apply IH; apply Hk].
      - destruct K0 as [Hc Hk]. split; [exact Hc|intro d; apply IH; apply Hk]. }
    destruct rho as [r|], i0 as [l|]; cbn [allSC]; try exact I; try apply K.
    - destruct (Z.ltb _ 0); cbn [allSC]; [exact I|]. split; [reflexivity|intro ks; apply K].
    - split; [reflexivity|intro ks; apply K]. }
  destruct (allSC_split _ _ _ _ HA) as [HS HC]. split.
  - eapply (exec_allC _ gen_call); [exact HC|constructor|exact H].
  - intros o ->. apply (exec_allS _ (fun o => exists ni0, good_out tmin full ni0 o) _ ds [] o tr HS H).
Qed.

End FS.
