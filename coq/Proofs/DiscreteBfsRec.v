(* C12 with a user recovery test: discrete_SIR under table rules whose answer is a function of
   the contact only (age-independent: tt u v a = tt u v 0) and ANY recovery test f u a
   (node, number of completed tests).  Part 1 (this file): the pure L1 sequence
       (S_k, J_k, age_k, R_k)     J_k = infectious set after k steps
   in which S_k is the S-sequence of the generation process WITHOUT recovery test
   (DiscreteP.gen: breadth-first levels), and its closed forms:
       J_k = {u | u in level j <= k, f u a = false for all a < k - j}
       age_k u = k - j on J_k,  R_k = |r0| + #(infected so far, not in J_k),  S + J + R = N.
   Part 2 (DiscreteBfsRecRun.v): the model run realises this sequence, for every iteration
   order, both return modes, every fuel (returns iff the stop index is within the fuel). *)
From EoNV Require Import Prelude Samp Graph Discrete DiscreteP DiscreteRun.
From Coq Require Import Permutation Lqa.

Definition age_indep (tt : node -> node -> nat -> bool) : Prop :=
  forall u v a, tt u v a = tt u v O.

Lemma filter_perm_len : forall (A : Type) (h : A -> bool) l l', Permutation l l' ->
  length (filter h l) = length (filter h l').
Proof.
  intros A h l l' P. induction P; cbn [filter]; try congruence.
  - destruct (h x); cbn [length]; congruence.
  - destruct (h x), (h y); reflexivity.
Qed.

Lemma mem_rev : forall x l, mem x (rev l) = mem x l.
Proof. intros x l. apply mem_perm. apply Permutation_sym. apply Permutation_rev. Qed.

Section Pure.
Variable g : graph.
Variable tt : node -> node -> nat -> bool.
Variable f : node -> nat -> bool.
Variables i0 r0 : list node.
Variable tmin : Q.
Variable tmax : xtime.
Variable full : bool.

Notation T := (T0 tt).
Notation SG := (Sg g T i0 r0).
Notation IG := (Ig g T i0 r0).

(* (infectious set, number of completed recovery tests per node) after k steps *)
Fixpoint ri (k : nat) : list node * (node -> nat) :=
  match k with
  | O => (IG O, fun _ => O)
  | S k' =>
    let p := ri k' in
    (filter (fun v => mem v (IG (S k')) || (mem v (fst p) && negb (f v (snd p v)))) (gnodes g),
     fun v => if mem v (fst p) then S (snd p v) else snd p v)
  end.
Definition Jr (k : nat) : list node := fst (ri k).
Definition ag (k : nat) : node -> nat := snd (ri k).
(* the nodes whose test succeeds / fails at step k *)
Definition recd (k : nat) : list node := filter (fun u => f u (ag k u)) (Jr k).
Definition kept (k : nat) : list node := filter (fun u => negb (f u (ag k u))) (Jr k).

Fixpoint Rr (k : nat) : Z := match k with O => lenZ r0 | S k' => (Rr k' + lenZ (recd k'))%Z end.

Definition rrow (k : nat) : row := (tq tmin k, [lenZ (SG k); lenZ (Jr k); Rr k]).
Fixpoint rows_r (k : nat) : list row :=
  match k with
  | O => [(tmin, [(order g - lenZ i0 - lenZ r0)%Z; lenZ i0; lenZ r0])]
  | S k' => rrow (S k') :: rows_r k'
  end.

(* node_history appends: I entries only within the horizon, R entries of a recovery test always *)
Fixpoint events_r (k : nat) (v : node) : list (Q * N) :=
  match k with
  | O => []
  | S k' => events_r k' v ++
      (if full && le_x (tq tmin (S k')) tmax then (if mem v (IG (S k')) then [(tq tmin (S k'), stI)] else []) else []) ++
      (if full then (if mem v (Jr k') && f v (ag k' v) then [(tq tmin (S k'), stR)] else []) else [])
  end.

Definition stopr (k : nat) : bool := negb (nonempty (Jr k) && xlt (tq tmin k) tmax).
Definition first_stop_r (K : nat) : Prop := (forall j, (j < K)%nat -> stopr j = false) /\ stopr K = true.
Definition hist_r (K : nat) : list (node * history) :=
  map (fun u => (u, (tmin, init_status i0 r0 u) :: events_r K u)) (gnodes g).

Lemma Jr_S : forall k, Jr (S k) =
  filter (fun v => mem v (IG (S k)) || (mem v (Jr k) && negb (f v (ag k v)))) (gnodes g).
Proof. reflexivity. Qed.
Lemma ag_S : forall k v, ag (S k) v = if mem v (Jr k) then S (ag k v) else ag k v.
Proof. reflexivity. Qed.

Hypothesis Hnd : NoDup (gnodes g).
Hypothesis Hadj : forall u v, In u (gnodes g) -> In v (gadj g u) -> In v (gnodes g).
Hypothesis Hi0 : forall v, In v i0 -> In v (gnodes g).
Hypothesis Hr0 : forall v, In v r0 -> In v (gnodes g).
Hypothesis Hi0nd : NoDup i0.
Hypothesis Hr0nd : NoDup r0.
Hypothesis Hdisj : forall v, In v i0 -> ~ In v r0.

Lemma Jr_sub : forall k v, In v (Jr k) -> In v (gnodes g).
Proof.
  intros [|k] v H.
  - apply (Ig_sub g T i0 r0 O). exact H.
  - rewrite Jr_S in H. apply filter_In in H. apply H.
Qed.

Lemma Jr_NoDup : forall k, NoDup (Jr k).
Proof.
  intros [|k].
  - apply (Ig_NoDup g T i0 r0 Hnd O).
  - rewrite Jr_S. apply NoDup_filter. exact Hnd.
Qed.

Lemma lvl_unique : forall v j j', In v (IG j) -> In v (IG j') -> j = j'.
Proof.
  intros v j j' H H'. apply (gen_is_bfs g T i0 r0 Hadj Hi0) in H. apply (gen_is_bfs g T i0 r0 Hadj Hi0) in H'.
  destruct H as [W M]. destruct H' as [W' M'].
  destruct (Nat.lt_trichotomy j j') as [L|[E|L]]; [|exact E|].
  - exfalso. apply (M' j L W).
  - exfalso. apply (M j' L W').
Qed.

Lemma IG_in_Jr : forall k v, In v (IG k) -> In v (Jr k).
Proof.
  intros [|k] v H; [exact H|]. rewrite Jr_S. apply filter_In. split; [apply (Ig_sub g T i0 r0 (S k)); exact H|].
  apply dmem_In in H. rewrite H. reflexivity.
Qed.

Lemma Jr_levels : forall k v, In v (Jr k) -> exists j, (j <= k)%nat /\ In v (IG j).
Proof.
  induction k as [|k IH]; intros v H.
  - exists O. split; [lia|exact H].
  - rewrite Jr_S in H. apply filter_In in H. destruct H as [_ H]. apply orb_true_iff in H. destruct H as [H|H].
    + exists (S k). split; [lia|apply dmem_In; exact H].
    + apply andb_true_iff in H. destruct H as [H _]. apply dmem_In in H. destruct (IH v H) as [j [Hj Hv]].
      exists j. split; [lia|exact Hv].
Qed.

Lemma Jr_not_sus : forall k v, In v (Jr k) -> ~ In v (SG k).
Proof.
  intros k v H HS. destruct (Jr_levels k v H) as [j [Hj Hv]].
  apply (gen_is_bfs g T i0 r0 Hadj Hi0) in Hv. destruct Hv as [W _].
  apply (gen_inv g T i0 r0 Hadj Hi0 k) in HS. destruct HS as [_ [_ HS]]. apply (HS j Hj W).
Qed.

(* a node that was never in a level below k has never been tested *)
Lemma ag_zero : forall k u, (forall j, (j < k)%nat -> ~ In u (IG j)) -> ag k u = O.
Proof.
  induction k as [|k IH]; intros u H; [reflexivity|].
  rewrite ag_S. destruct (mem u (Jr k)) eqn:E.
  - exfalso. apply dmem_In in E. destruct (Jr_levels k u E) as [j [Hj Hv]]. apply (H j); [lia|exact Hv].
  - apply IH. intros j Hj. apply H. lia.
Qed.

(* an infectious node of level j has been tested k - j times *)
Lemma ag_spec : forall k u j, In u (IG j) -> In u (Jr k) -> ag k u = (k - j)%nat.
Proof.
  induction k as [|k IH]; intros u j Hl Hi.
  - reflexivity.
  - destruct (Nat.eq_dec j (S k)) as [E|E].
    + subst j. rewrite Nat.sub_diag. apply ag_zero. intros j Hj Hin. pose proof (lvl_unique u _ _ Hl Hin). lia.
    + rewrite Jr_S in Hi. apply filter_In in Hi. destruct Hi as [_ Hi]. apply orb_true_iff in Hi. destruct Hi as [Hi|Hi].
      * apply dmem_In in Hi. pose proof (lvl_unique u _ _ Hl Hi). contradiction.
      * apply andb_true_iff in Hi. destruct Hi as [Hi _]. rewrite ag_S, Hi. apply dmem_In in Hi.
        rewrite (IH u j Hl Hi). destruct (Jr_levels k u Hi) as [j' [Hj' Hv]].
        pose proof (lvl_unique u _ _ Hl Hv). lia.
Qed.

(* (c): infectious after k steps = infected at some step j <= k and every test so far failed *)
Lemma Jr_spec : forall k u, In u (Jr k) <->
  exists j, (j <= k)%nat /\ In u (IG j) /\ forall a, (a < k - j)%nat -> f u a = false.
Proof.
  induction k as [|k IH]; intro u.
  - split.
    + intro H. exists O. split; [lia|]. split; [exact H|]. intros a Ha. lia.
    + intros [j [Hj [Hl _]]]. assert (j = O) by lia. subst j. exact Hl.
  - split.
    + intro H. pose proof H as H'. rewrite Jr_S in H. apply filter_In in H. destruct H as [_ H].
      apply orb_true_iff in H. destruct H as [H|H].
      * exists (S k). split; [lia|]. split; [apply dmem_In; exact H|]. intros a Ha. lia.
      * apply andb_true_iff in H. destruct H as [H Hf]. apply dmem_In in H.
        destruct (proj1 (IH u) H) as [j [Hj [Hl Hall]]]. exists j. split; [lia|]. split; [exact Hl|].
        intros a Ha. destruct (Nat.eq_dec a (k - j)) as [E|E].
        -- subst a. rewrite <- (ag_spec k u j Hl H). apply negb_true_iff. exact Hf.
        -- apply Hall. lia.
    + intros [j [Hj [Hl Hall]]]. destruct (Nat.eq_dec j (S k)) as [E|E].
      * subst j. apply IG_in_Jr. exact Hl.
      * assert (H : In u (Jr k)).
        { apply IH. exists j. split; [lia|]. split; [exact Hl|]. intros a Ha. apply Hall. lia. }
        rewrite Jr_S. apply filter_In. split; [apply (Jr_sub k); exact H|].
        rewrite (ag_spec k u j Hl H), (Hall (k - j)%nat) by lia. apply dmem_In in H. rewrite H. apply orb_true_r.
Qed.

(* the test of u succeeds at step k (u recovers between step k and k + 1) iff u was infected at
   some step j <= k, its first k - j tests failed and test number k - j succeeds *)
Lemma recd_spec : forall k u, In u (recd k) <->
  exists j, (j <= k)%nat /\ In u (IG j) /\ (forall a, (a < k - j)%nat -> f u a = false) /\ f u (k - j)%nat = true.
Proof.
  intros k u. unfold recd. rewrite filter_In. split.
  - intros [H Hf]. destruct (proj1 (Jr_spec k u) H) as [j [Hj [Hl Hall]]]. exists j.
    split; [exact Hj|]. split; [exact Hl|]. split; [exact Hall|]. rewrite <- (ag_spec k u j Hl H). exact Hf.
  - intros [j [Hj [Hl [Hall Hf]]]]. assert (H : In u (Jr k)) by (apply Jr_spec; exists j; auto).
    split; [exact H|]. rewrite (ag_spec k u j Hl H). exact Hf.
Qed.

(* key: a susceptible node can only be hit from the newest level: an older infectious node
   with a successful contact to v would have infected v one step after its own infection *)
Lemma hit_old : forall k v, In v (SG k) -> hit g T (Jr k) v = hit g T (IG k) v.
Proof.
  intros k v HS. destruct (hit g T (IG k) v) eqn:E.
  - apply hit_spec in E. destruct E as [u [Hu H]]. apply hit_spec. exists u. split; [apply IG_in_Jr; exact Hu|exact H].
  - destruct (hit g T (Jr k) v) eqn:E'; [|reflexivity]. exfalso.
    apply hit_spec in E'. destruct E' as [u [Hu [Ha Ht]]].
    destruct (Jr_levels k u Hu) as [j [Hj Hl]].
    destruct (Nat.eq_dec j k) as [Ej|Ej].
    + subst j. assert (X : hit g T (IG k) v = true) by (apply hit_spec; exists u; auto). congruence.
    + apply (gen_inv g T i0 r0 Hadj Hi0 k) in HS. destruct HS as [_ [Hr HS]].
      apply (gen_is_bfs g T i0 r0 Hadj Hi0) in Hl. destruct Hl as [W _].
      apply (HS (S j)); [lia|]. apply walkS with u; [exact W|].
      split; [apply (Jr_sub k); exact Hu|]. split; [exact Ha|]. split; [exact Ht|exact Hr].
Qed.

(* ---------------- counting ---------------- *)
Lemma len_mem_filter : forall l, NoDup l -> (forall v, In v l -> In v (gnodes g)) ->
  length (filter (fun v => mem v l) (gnodes g)) = length l.
Proof. intros l H1 H2. apply (NoDup_length_canon g l Hnd H1 H2). Qed.

Lemma kept_NoDup : forall k, NoDup (kept k).
Proof. intro k. apply NoDup_filter. apply Jr_NoDup. Qed.
Lemma recd_NoDup : forall k, NoDup (recd k).
Proof. intro k. apply NoDup_filter. apply Jr_NoDup. Qed.

Lemma Jr_split : forall k, lenZ (Jr (S k)) = (lenZ (IG (S k)) + lenZ (kept k))%Z.
Proof.
  intro k. rewrite Jr_S. unfold lenZ.
  rewrite (filter_len_ext _ (fun v => mem v (IG (S k)) || mem v (kept k)) (gnodes g)).
  - rewrite filter_len_or.
    + rewrite (len_mem_filter (IG (S k))) by (apply (Ig_NoDup g T i0 r0 Hnd) || apply (Ig_sub g T i0 r0 (S k))).
      rewrite (len_mem_filter (kept k)).
      * lia.
      * apply kept_NoDup.
      * intros v Hv. apply filter_In in Hv. apply (Jr_sub k). apply Hv.
    + intros x _. destruct (mem x (IG (S k))) eqn:E1; [|reflexivity]. destruct (mem x (kept k)) eqn:E2; [|reflexivity].
      exfalso. apply dmem_In in E1. apply dmem_In in E2. apply filter_In in E2. destruct E2 as [E2 _].
      destruct (Jr_levels k x E2) as [j [Hj Hl]]. pose proof (lvl_unique x _ _ E1 Hl). lia.
  - intros x _. unfold kept. rewrite mem_filter. reflexivity.
Qed.

Lemma Jr_rk : forall k, lenZ (Jr k) = (lenZ (recd k) + lenZ (kept k))%Z.
Proof. intro k. apply (lenZ_filter_split (fun u => f u (ag k u)) (Jr k)). Qed.

Lemma len_J0 : lenZ (Jr O) = lenZ i0.
Proof.
  unfold Jr. cbn [ri fst]. unfold Ig. cbn [gen gen0 snd]. unfold lenZ.
  rewrite (NoDup_length_canon g i0 Hnd Hi0nd Hi0). reflexivity.
Qed.

(* S + I + R = N after every step *)
Lemma r_conserve : forall k, (lenZ (SG k) + lenZ (Jr k) + Rr k)%Z = order g.
Proof.
  induction k as [|k IH].
  - rewrite (count_S0 g tt i0 r0 Hnd Hi0 Hr0 Hi0nd Hr0nd Hdisj), len_J0. cbn [Rr]. lia.
  - cbn [Rr]. rewrite Jr_split. pose proof (Sg_split g T i0 r0 k). pose proof (Jr_rk k). lia.
Qed.

(* R_k = |r0| + number of nodes infected so far that are no longer infectious *)
Definition done_r (k : nat) : list node :=
  filter (fun v => negb (mem v (SG k)) && negb (mem v r0) && negb (mem v (Jr k))) (gnodes g).

Lemma SG_not_r0 : forall k v, In v (SG k) -> ~ In v r0.
Proof. intros k v H. apply (gen_inv g T i0 r0 Hadj Hi0 k) in H. apply H. Qed.

Lemma Jr_not_r0 : forall k v, In v (Jr k) -> ~ In v r0.
Proof.
  intros k v H Hr. destruct (Jr_levels k v H) as [j [_ Hl]].
  apply (gen_is_bfs g T i0 r0 Hadj Hi0) in Hl. destruct Hl as [W _].
  destruct W as [v Hv|u v n W [_ [_ [_ Hn]]]]; [apply (Hdisj v Hv Hr)|apply (Hn Hr)].
Qed.

Lemma Rr_spec : forall k, Rr k = (lenZ r0 + lenZ (done_r k))%Z.
Proof.
  intro k. pose proof (r_conserve k) as C. unfold order in C.
  pose proof (lenZ_filter_split (fun v => mem v (SG k)) (gnodes g)) as P1.
  pose proof (lenZ_filter_split (fun v => mem v r0) (filter (fun x => negb (mem x (SG k))) (gnodes g))) as P2.
  pose proof (lenZ_filter_split (fun v => mem v (Jr k))
     (filter (fun x => negb (mem x r0)) (filter (fun x => negb (mem x (SG k))) (gnodes g)))) as P3.
  repeat rewrite filter_filter in P2. repeat rewrite filter_filter in P3.
  assert (E1 : lenZ (filter (fun v => mem v (SG k)) (gnodes g)) = lenZ (SG k)).
  { change (filter (fun v => mem v (SG k)) (gnodes g)) with (canon g (SG k)). rewrite <- (Sg_canon g tt i0 r0 k). reflexivity. }
  assert (E2 : lenZ (filter (fun x => negb (mem x (SG k)) && mem x r0) (gnodes g)) = lenZ r0).
  { unfold lenZ. rewrite <- (len_mem_filter r0 Hr0nd Hr0). f_equal. apply filter_len_ext. intros x _.
    destruct (mem x r0) eqn:Er; [|apply andb_false_r]. destruct (mem x (SG k)) eqn:Es; [|reflexivity].
    exfalso. apply dmem_In in Er. apply dmem_In in Es. apply (SG_not_r0 k x Es Er). }
  assert (E3 : lenZ (filter (fun x => negb (mem x (SG k)) && negb (mem x r0) && mem x (Jr k)) (gnodes g)) = lenZ (Jr k)).
  { unfold lenZ. rewrite <- (len_mem_filter (Jr k) (Jr_NoDup k) (Jr_sub k)). f_equal. apply filter_len_ext. intros x _.
    destruct (mem x (Jr k)) eqn:Ej; [|apply andb_false_r]. apply dmem_In in Ej.
    assert (A : mem x (SG k) = false) by (apply dmem_false; apply Jr_not_sus; exact Ej).
    assert (B : mem x r0 = false) by (apply dmem_false; apply Jr_not_r0 with k; exact Ej).
    rewrite A, B. reflexivity. }
  unfold done_r. unfold lenZ in *. lia.
Qed.

(* the rows in closed form *)
Lemma rows_r_spec : forall K, rev (rows_r K) = map rrow (seq 0 (S K)).
Proof.
  induction K as [|K IH].
  - cbn [rows_r rev app seq map]. unfold rrow. cbn [tq Rr].
    rewrite (count_S0 g tt i0 r0 Hnd Hi0 Hr0 Hi0nd Hr0nd Hdisj), len_J0. reflexivity.
  - cbn [rows_r rev]. rewrite IH. rewrite (seq_S (S K) 0), map_app. reflexivity.
Qed.

(* (b): the nodes that leave S at step k + 1 are exactly breadth-first level k + 1 *)
Lemma newly_infected_level : forall k v,
  (In v (SG k) /\ ~ In v (SG (S k))) <-> bfs_dist g T i0 r0 v (S k).
Proof.
  intros k v. rewrite <- (gen_is_bfs g T i0 r0 Hadj Hi0 (S k) v).
  unfold Sg, Ig. cbn [gen gen_next fst snd]. fold (SG k). fold (IG k). rewrite !filter_In. split.
  - intros [HS Hn]. split; [exact HS|]. destruct (hit g T (IG k) v) eqn:E; [reflexivity|]. exfalso. apply Hn.
    split; [exact HS|]. apply negb_true_iff. apply dmem_false. intro Hin. apply filter_In in Hin. destruct Hin as [_ Hin]. congruence.
  - intros [HS Hh]. split; [exact HS|]. intros [_ Hn]. apply negb_true_iff in Hn. apply dmem_false in Hn. apply Hn.
    apply filter_In. split; assumption.
Qed.

Lemma SG_spec : forall k v, In v (SG k) <->
  In v (gnodes g) /\ ~ In v r0 /\ forall m, (m <= k)%nat -> ~ walk g T i0 r0 v m.
Proof. intros k v. apply (gen_inv g T i0 r0 Hadj Hi0 k). Qed.

(* (d): the recorded history of v *)
Lemma events_r_spec : forall K v e, In e (events_r K v) <->
  exists k, (k < K)%nat /\
    ((e = (tq tmin (S k), stI) /\ full && le_x (tq tmin (S k)) tmax = true /\ In v (IG (S k))) \/
     (e = (tq tmin (S k), stR) /\ full = true /\ In v (recd k))).
Proof.
  induction K as [|K IH]; intros v e.
  - cbn. split; [intros []|intros [k [Hk _]]; lia].
  - cbn [events_r]. rewrite !in_app_iff, IH. split.
    + intros [[k [Hk H]]|[H|H]].
      * exists k. split; [lia|exact H].
      * exists K. split; [lia|]. left. destruct (full && le_x (tq tmin (S K)) tmax); [|destruct H].
        destruct (mem v (IG (S K))) eqn:E; [|destruct H]. destruct H as [H|[]].
        split; [symmetry; exact H|]. split; [reflexivity|apply dmem_In; exact E].
      * exists K. split; [lia|]. right. destruct full; [|destruct H].
        destruct (mem v (Jr K) && f v (ag K v)) eqn:E; [|destruct H]. destruct H as [H|[]].
        split; [symmetry; exact H|]. split; [reflexivity|]. apply andb_true_iff in E. destruct E as [E1 E2].
        unfold recd. apply filter_In. split; [apply dmem_In; exact E1|exact E2].
    + intros [k [Hk H]]. destruct (Nat.eq_dec k K) as [E|E].
      * subst k. right. destruct H as [[He [Hg Hin]]|[He [Hg Hin]]].
        -- left. rewrite Hg. apply dmem_In in Hin. rewrite Hin. left. symmetry. exact He.
        -- right. rewrite Hg. unfold recd in Hin. apply filter_In in Hin. destruct Hin as [H1 H2].
           apply dmem_In in H1. rewrite H1, H2. left. symmetry. exact He.
      * left. exists k. split; [lia|exact H].
Qed.

Lemma first_stop_r_unique : forall K K', first_stop_r K -> first_stop_r K' -> K = K'.
Proof.
  intros K K' [H1 H2] [H1' H2']. destruct (Nat.lt_trichotomy K K') as [L|[E|L]]; [|exact E|].
  - rewrite (H1' K L) in H2. discriminate.
  - rewrite (H1 K' L) in H2'. discriminate.
Qed.

End Pure.
