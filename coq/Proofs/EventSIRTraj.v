(* Event-driven SIR, cross-cutting properties, part 2 (C04): reading the lock-step
   invariant.  The rows kept by the run are a well-formed trajectory (GillespieP.traj, the
   predicate of the Gillespie theorems, at kind SIR) and the running census of the event
   log; the returned rows are these rows minus the first |I0|. *)
From EoNV Require Import Prelude Samp Graph EventSIR EventSIRP EventSIRInv EventSIRMain EventSIRPred.
From EoNV Require Import Investigation EventSIRLog EventSIRRows.
From EoNV Require Gillespie GillespieP.
Require Import Lqa.

Notation trajS g tmin tmax := (GillespieP.traj g Gillespie.SIR tmin tmax).
Notation moveS := (GillespieP.move Gillespie.SIR).
Notation is_censusS g := (GillespieP.is_census g Gillespie.SIR).

Definition ok3 (st : node -> N) : Prop := forall x, st x = stS \/ st x = stI \/ st x = stR.

Lemma ok3_upd : forall st u a, ok3 st -> (a = stS \/ a = stI \/ a = stR) -> ok3 (fupdN st u a).
Proof. intros st u a H Ha x. unfold fupdN. destruct (N.eqb x u); auto. Qed.

Lemma replay_app : forall st a b, replay st (a ++ b) = replay (replay st a) b.
Proof. intros. unfold replay. apply fold_left_app. Qed.

Lemma log_rows_app : forall nodes ps a st b,
  log_rows nodes ps st (a ++ b) = log_rows nodes ps st a ++ log_rows nodes ps (replay st a) b.
Proof.
  intros nodes ps a. induction a as [|e a IH]; intros st b; [reflexivity|].
  cbn [app log_rows]. rewrite IH. reflexivity.
Qed.

Section Read.
Variable g : graph.
Variable tmin : Q.
Variable tmax : xtime.
Variable st00 : node -> N.
Variable row00 : row.
Hypothesis Hgn : NoDup (gnodes g).
Hypothesis H00 : snd row00 = census3 g st00.
Hypothesis H00t : fst row00 = tmin.
Hypothesis H00ok : ok3 st00.

Notation LOCK := (elock g tmax st00 row00).

Lemma elock_ok3 : forall evs txs rws st, LOCK evs txs rws st -> ok3 st.
Proof.
  intros evs txs rws st H. induction H; [exact H00ok| |]; apply ok3_upd; auto.
Qed.

(* the final statuses are the replay of the log *)
Lemma elock_replay : forall evs txs rws st, LOCK evs txs rws st -> st = replay st00 (rev evs).
Proof.
  intros evs txs rws st H. induction H; [reflexivity| |];
    cbn [rev]; rewrite replay_app; cbn [replay fold_left]; rewrite <- IHelock; reflexivity.
Qed.

(* the rows are the running census of the log *)
Lemma elock_rows : forall evs txs rws st, LOCK evs txs rws st ->
  rev rws = row00 :: log_rows (gnodes g) sir_ps st00 (rev evs).
Proof.
  intros evs txs rws st H. induction H; [reflexivity| |];
    cbn [rev]; rewrite IHelock, log_rows_app; cbn [app log_rows]; rewrite <- (elock_replay _ _ _ _ H); reflexivity.
Qed.

(* one transmission entry per infection event: same times, same nodes, same order *)
Definition is_inf (e : event) : bool := N.eqb (ev_s e) stI.

Lemma elock_tx : forall evs txs rws st, LOCK evs txs rws st ->
  map (fun x : Q * option node * node => (fst (fst x), snd x, stI)) txs = filter is_inf evs /\
  (forall e, In e evs -> ev_s e = stI \/ ev_s e = stR) /\
  (forall e, In e evs -> In (ev_u e) (gnodes g) /\ xlt (ev_t e) tmax = true).
Proof.
  intros evs txs rws st H. induction H as [|evs txs rws st t u H [I1 [I2 I3]] Hu Hug Ht Hx|evs txs rws st t src v H [I1 [I2 I3]] Hv Hvg Ht Hx].
  - split; [reflexivity|]. split; intros e [].
  - split; [exact I1|]. split; intros e [<-|He]; auto.
  - split; [cbn [map filter fst snd]; change (is_inf (t, v, stI)) with true; cbn iota; f_equal; exact I1|].
    split; intros e [<-|He]; auto.
Qed.

Lemma elock_tx_ev : forall evs txs rws st, LOCK evs txs rws st ->
  forall t sr v, In (t, sr, v) txs -> In (t, v, stI) evs.
Proof.
  intros evs txs rws st H t sr v Hin. destruct (elock_tx _ _ _ _ H) as [E _].
  assert (Hm : In (t, v, stI) (map (fun x : Q * option node * node => (fst (fst x), snd x, stI)) txs)).
  { apply in_map_iff. exists (t, sr, v). auto. }
  rewrite E in Hm. apply filter_In in Hm. apply Hm.
Qed.

Lemma elock_ev_tx : forall evs txs rws st, LOCK evs txs rws st ->
  forall t v, In (t, v, stI) evs -> exists sr, In (t, sr, v) txs.
Proof.
  intros evs txs rws st H t v Hin. destruct (elock_tx _ _ _ _ H) as [E _].
  assert (Hm : In (t, v, stI) (filter is_inf evs)) by (apply filter_In; split; [exact Hin|reflexivity]).
  rewrite <- E in Hm. apply in_map_iff in Hm. destruct Hm as [[[t1 sr] v1] [Ex Hx]].
  cbn in Ex. inversion Ex; subst. exists sr. exact Hx.
Qed.

(* event times never decrease, and none is before tmin *)
Lemma elock_times : forall evs txs rws st, LOCK evs txs rws st ->
  (forall r, In r rws -> tmin <= fst r) /\
  (forall e, In e evs -> tmin <= ev_t e) /\
  (forall a e b, evs = a ++ e :: b -> forall e', In e' b -> ev_t e' <= ev_t e) /\
  (forall e, In e evs -> ev_t e <= hd_t rws).
Proof.
  intros evs txs rws st H.
  induction H as [|evs txs rws st t u H [I1 [I2 [I3 I4]]] Hu Hug Ht0 Hx|evs txs rws st t src v H [I1 [I2 [I3 I4]]] Hv Hvg Ht0 Hx].
  - split; [intros r [<-|[]]; rewrite H00t; apply Qle_refl|]. split; [intros e []|]. split; [|intros e []].
    intros a e b E. destruct a; discriminate E.
  - assert (Ht : tmin <= t).
    { destruct (elock_head g tmax st00 row00 _ _ _ _ H00 H) as [t0 [rest E]]. rewrite E in *.
      pose proof (I1 _ (or_introl eq_refl)). cbn in *. lra. }
    split; [intros r [<-|Hr]; [exact Ht|auto]|]. split; [intros e [<-|He]; [exact Ht|auto]|]. split.
    + intros a e b E e' He'. destruct a as [|x a]; cbn [app] in E; inversion E; subst.
      * pose proof (I4 e' He'). cbn [ev_t fst]. lra.
      * eapply I3; eauto.
    + intros e [<-|He]; cbn [hd_t fst ev_t]; [apply Qle_refl|]. pose proof (I4 e He). lra.
  - assert (Ht : tmin <= t).
    { destruct (elock_head g tmax st00 row00 _ _ _ _ H00 H) as [t0 [rest E]]. rewrite E in *.
      pose proof (I1 _ (or_introl eq_refl)). cbn in *. lra. }
    split; [intros r [<-|Hr]; [exact Ht|auto]|]. split; [intros e [<-|He]; [exact Ht|auto]|]. split.
    + intros a e b E e' He'. destruct a as [|x a]; cbn [app] in E; inversion E; subst.
      * pose proof (I4 e' He'). cbn [ev_t fst]. lra.
      * eapply I3; eauto.
    + intros e [<-|He]; cbn [hd_t fst ev_t]; [apply Qle_refl|]. pose proof (I4 e He). lra.
Qed.

(* the rows, oldest first, are a well-formed trajectory *)
Lemma elock_traj : forall evs txs rws st, LOCK evs txs rws st -> trajS g tmin tmax (rev rws).
Proof.
  intros evs txs rws st H. induction H as [|evs txs rws st t u H IH Hu Hug Ht Hx|evs txs rws st t src v H IH Hv Hvg Ht Hx].
  - cbn. apply GillespieP.traj_init; [rewrite H00t; reflexivity|].
    exists st00. split; [exact H00ok|exact H00].
  - destruct (elock_head g tmax st00 row00 _ _ _ _ H00 H) as [t0 [rest E]]. subst rws.
    cbn [rev] in *. apply GillespieP.traj_snoc; auto.
    + cbn [snd]. right. apply (GillespieP.census_recover_SIR g Hgn Gillespie.SIR st u eq_refl Hug Hu).
    + exists (fupdN st u stR). split; [|reflexivity]. apply ok3_upd; auto. apply (elock_ok3 _ _ _ _ H).
  - destruct (elock_head g tmax st00 row00 _ _ _ _ H00 H) as [t0 [rest E]]. subst rws.
    cbn [rev] in *. apply GillespieP.traj_snoc; auto.
    + cbn [snd]. left. apply (GillespieP.census_transmit g Hgn Gillespie.SIR st v (elock_ok3 _ _ _ _ H) Hvg Hv).
    + exists (fupdN st v stI). split; [|reflexivity]. apply ok3_upd; auto. apply (elock_ok3 _ _ _ _ H).
Qed.

End Read.

(* ---------------- suffixes of trajectories ---------------- *)
Section Suffix.
Variable g : graph.
Variable tmin : Q.
Variable tmax : xtime.

Lemma traj_build : forall (l : list row) (r : row), fst r == tmin -> is_censusS g (snd r) ->
  (forall (l1 : list row) (a b : row) (l2 : list row), r :: l = l1 ++ a :: b :: l2 ->
     fst a <= fst b /\ xlt (fst b) tmax = true /\ moveS (snd a) (snd b) /\ is_censusS g (snd b)) ->
  trajS g tmin tmax (r :: l).
Proof.
  intros l. induction l as [|x l IH] using rev_ind; intros r Hr Hc H.
  - apply GillespieP.traj_init; auto.
  - assert (IH' : trajS g tmin tmax (r :: l)).
    { apply IH; auto. intros l1 a b l2 E. apply (H l1 a b (l2 ++ [x])).
      change (r :: l ++ [x]) with ((r :: l) ++ [x]). rewrite E, <- app_assoc. reflexivity. }
    assert (Hne : r :: l <> []) by discriminate.
    destruct (exists_last Hne) as [l0 [r1 E]].
    change (r :: l ++ [x]) with ((r :: l) ++ [x]). rewrite E in *.
    destruct (H l0 r1 x []) as [A [B [C D]]].
    { change (r :: l ++ [x]) with ((r :: l) ++ [x]). rewrite E, <- app_assoc. reflexivity. }
    apply GillespieP.traj_snoc; auto.
Qed.

Lemma traj_suffix : forall l, trajS g tmin tmax l -> forall a r b, l = a ++ r :: b -> fst r == tmin ->
  trajS g tmin tmax (r :: b).
Proof.
  intros l H a r b E Hr. apply traj_build; auto.
  - apply (GillespieP.traj_census g Gillespie.SIR tmin tmax l H). rewrite E. apply in_or_app. right. left. reflexivity.
  - intros l1 x y l2 E2.
    destruct (GillespieP.traj_adjacent g Gillespie.SIR tmin tmax l H (a ++ l1) x y l2) as [A [B C]].
    { rewrite E, E2, <- app_assoc. reflexivity. }
    split; auto. split; auto. split; auto.
    apply (GillespieP.traj_census g Gillespie.SIR tmin tmax l H). rewrite E, E2.
    apply in_or_app. right. apply in_or_app. right. right. left. reflexivity.
Qed.
End Suffix.

(* ---------------- the events at tmin come first ---------------- *)
Definition at_tmin (tmin : Q) (e : event) : bool := Qeqb (ev_t e) tmin.

Lemma at_tmin_true : forall tmin e, at_tmin tmin e = true <-> ev_t e == tmin.
Proof. intros. unfold at_tmin, Qeqb. apply Qeq_bool_iff. Qed.

Lemma at_tmin_false : forall tmin e, at_tmin tmin e = false <-> ~ ev_t e == tmin.
Proof.
  intros. rewrite <- at_tmin_true. destruct (at_tmin tmin e); split; intros; try discriminate; auto.
  exfalso; auto.
Qed.

Lemma log_rows_times : forall nodes ps l st, map fst (log_rows nodes ps st l) = map ev_t l.
Proof. intros nodes ps l. induction l as [|e l IH]; intros st; [reflexivity|]. cbn [log_rows map fst]. rewrite IH. reflexivity. Qed.

Section Phase.
Variable g : graph.
Variable tmin : Q.
Variable tmax : xtime.
Variable st00 : node -> N.
Variable row00 : row.
Hypothesis H00 : snd row00 = census3 g st00.
Hypothesis H00t : fst row00 = tmin.

(* newest first: evs = B ++ A, A the events at tmin, B the later ones *)
Lemma elock_phase : forall evs txs rws st, elock g tmax st00 row00 evs txs rws st ->
  exists B A, evs = B ++ A /\ Forall (fun e => at_tmin tmin e = true) A /\ Forall (fun e => at_tmin tmin e = false) B.
Proof.
  intros evs txs rws st H.
  assert (Step : forall evs txs rws st t (x : event), elock g tmax st00 row00 evs txs rws st -> ev_t x = t ->
            hd_t rws <= t ->
            (exists B A, evs = B ++ A /\ Forall (fun e => at_tmin tmin e = true) A /\ Forall (fun e => at_tmin tmin e = false) B) ->
            exists B A, x :: evs = B ++ A /\ Forall (fun e => at_tmin tmin e = true) A /\ Forall (fun e => at_tmin tmin e = false) B).
  { clear H. intros evs0 txs0 rws0 st0 t x H Hx Ht [B [A [E [HA HB]]]].
    destruct (elock_times g tmin tmax st00 row00 H00 H00t _ _ _ _ H) as [_ [I2 [_ I4]]].
    destruct (at_tmin tmin x) eqn:Ex.
    - exists [], (x :: evs0). split; [reflexivity|]. split; [|constructor].
      constructor; [exact Ex|]. apply Forall_forall. intros e He. apply at_tmin_true.
      apply at_tmin_true in Ex. pose proof (I2 e He). pose proof (I4 e He). rewrite Hx in Ex. lra.
    - exists (x :: B), A. split; [rewrite E; reflexivity|]. split; auto. }
  induction H as [|evs txs rws st t u H IH Hu Hug Ht Hx|evs txs rws st t src v H IH Hv Hvg Ht Hx].
  - exists [], []. repeat constructor.
  - apply (Step evs txs rws st t); auto.
  - apply (Step evs txs rws st t); auto.
Qed.
End Phase.

Lemma skipn_head_prop : forall (A : Type) (P : A -> Prop) (l1 l2 : list A) n,
  Forall P l1 -> (n < length l1)%nat -> exists r b, skipn n (l1 ++ l2) = r :: b /\ P r.
Proof.
  intros A P l1 l2 n. revert l1. induction n as [|n IH]; intros l1 HP Hn.
  - destruct l1 as [|x l1]; [simpl in Hn; lia|]. inversion HP; subst. exists x, (l1 ++ l2). auto.
  - destruct l1 as [|x l1]; [simpl in Hn; lia|]. inversion HP; subst. cbn [app skipn]. apply IH; auto.
    simpl in Hn. lia.
Qed.

Lemma log_rows_Forall : forall nodes ps (P : Q -> Prop) l st,
  Forall (fun e => P (ev_t e)) l -> Forall (fun r : row => P (fst r)) (log_rows nodes ps st l).
Proof.
  intros nodes ps P l. induction l as [|e l IH]; intros st H; [constructor|].
  inversion H; subst. cbn [log_rows]. constructor; auto.
Qed.

(* ---------------- the final state ---------------- *)
Section Final.
Variable tb : tiepolicy.
Variable g : graph.
Variable tmax : xtime.
Variable delay : node -> node -> xtime.
Variable dur : node -> xtime.
Variable tmin : Q.
Variables i0 r0 : list node.

Hypothesis Hdelay : forall u v d, In u (gnodes g) -> In v (gadj g u) -> delay u v = Some d -> 0 <= d.
Hypothesis Hdur : forall u d, In u (gnodes g) -> dur u = Some d -> 0 <= d.
Hypothesis Hadj : forall u, In u (gnodes g) -> NoDup (gadj g u).
Hypothesis Hdisj : forall u, In u i0 -> ~ In u r0.
Hypothesis Htmin : ltmax tmax tmin.
Hypothesis Hgn : NoDup (gnodes g).
Hypothesis Hi0g : forall u, In u i0 -> In u (gnodes g).
Hypothesis Hadjg : forall u v, In u (gnodes g) -> In v (gadj g u) -> In v (gnodes g).
Hypothesis Hr0nd : NoDup r0.
Hypothesis Hr0g : forall u, In u r0 -> In u (gnodes g).
Hypothesis Hi0nd : NoDup i0.

Notation INV := (Inv g tmax delay dur tmin i0 r0).
Notation XINV := (XI g tmax tmin i0 r0).
Notation ST00 := (st00 r0).
Notation ROW00 := (row00 g tmin r0).

Lemma st00_ok3 : ok3 ST00.
Proof. intros x. rewrite st00_spec. destruct (mem x r0); auto. Qed.

Variables (sF : est) (cF : Q) (evs : list event).
Hypothesis HI : INV cF sF.
Hypothesis H2 : Inv2 tmin r0 sF.
Hypothesis HX : XINV cF evs sF.
Hypothesis Hq : qu sF = [].

Let HL := x_lock _ _ _ _ _ _ _ _ HX.
Let H00 := row00_census g tmin r0 Hgn Hr0nd Hr0g.

Lemma fin_i0_tx : forall u, In u i0 -> In (tmin, None, u) (tlog sF).
Proof.
  intros u Hu. destruct (i_init _ _ _ _ _ _ _ _ _ HI u Hu) as [[tw [sw [Hin Hle]]]|[HS [p [Hp Hle]]]].
  - destruct sw as [w|].
    + exfalso. apply (x_ti0 _ _ _ _ _ _ _ _ HX tw w u Hin Hu).
    + rewrite (x_tnone _ _ _ _ _ _ _ _ HX tw u Hin) in Hin. exact Hin.
  - exfalso. destruct (i_j3 _ _ _ _ _ _ _ _ _ HI u p HS Hp) as [x [sx [Hx _]]].
    + eapply ltmax_le; eauto.
    + rewrite Hq in Hx. destruct Hx.
Qed.

Lemma fin_i0_ev : forall u, In u i0 -> In (tmin, u, stI) evs.
Proof. intros u Hu. apply (elock_tx_ev g tmax ST00 ROW00 _ _ _ _ HL tmin None u). apply fin_i0_tx. exact Hu. Qed.

Lemma fin_rows : rev (rows sF) = ROW00 :: log_rows (gnodes g) sir_ps ST00 (rev evs).
Proof. apply (elock_rows g tmax ST00 ROW00 _ _ _ _ HL). Qed.

Lemma fin_traj : trajS g tmin tmax (rev (rows sF)).
Proof. apply (elock_traj g tmin tmax ST00 ROW00 Hgn H00 eq_refl st00_ok3 _ _ _ _ HL). Qed.

Lemma map_inj_NoDup : forall (l : list node), NoDup l -> NoDup (map (fun u => (tmin, u, stI)) l).
Proof.
  intros l H. induction H as [|x l Hx H IH]; [constructor|]. cbn [map]. constructor; auto.
  intros Hin. apply in_map_iff in Hin. destruct Hin as [y [E Hy]]. inversion E; subst. contradiction.
Qed.

(* the events at tmin: at least the |I0| infections of the initial nodes *)
Lemma fin_phase : exists B A, evs = B ++ A /\
  Forall (fun e => at_tmin tmin e = true) A /\ Forall (fun e => at_tmin tmin e = false) B /\
  (forall u, In u i0 -> In (tmin, u, stI) A) /\ (length i0 <= length A)%nat.
Proof.
  destruct (elock_phase g tmin tmax ST00 ROW00 H00 eq_refl _ _ _ _ HL) as [B [A [E [HA HB]]]].
  exists B, A. split; auto. split; auto. split; auto.
  assert (Hin : forall u, In u i0 -> In (tmin, u, stI) A).
  { intros u Hu. pose proof (fin_i0_ev u Hu) as He. rewrite E in He. apply in_app_or in He.
    destruct He as [He|He]; auto. exfalso. rewrite Forall_forall in HB. specialize (HB _ He).
    apply at_tmin_false in HB. apply HB. reflexivity. }
  split; auto.
  rewrite <- (map_length (fun u => (tmin, u, stI)) i0).
  apply NoDup_incl_length; [apply map_inj_NoDup; exact Hi0nd|].
  intros x Hx. apply in_map_iff in Hx. destruct Hx as [u [<- Hu]]. auto.
Qed.

(* the returned rows: the kept rows minus the first |I0|; their first row is at tmin *)
Lemma fin_suffix : exists r b, skipn (length i0) (rev (rows sF)) = r :: b /\ fst r == tmin.
Proof.
  destruct fin_phase as [B [A [E [HA [HB [_ Hlen]]]]]].
  rewrite fin_rows, E, rev_app_distr, log_rows_app.
  change (ROW00 :: log_rows (gnodes g) sir_ps ST00 (rev A) ++ log_rows (gnodes g) sir_ps (replay ST00 (rev A)) (rev B))
    with ((ROW00 :: log_rows (gnodes g) sir_ps ST00 (rev A)) ++ log_rows (gnodes g) sir_ps (replay ST00 (rev A)) (rev B)).
  apply (skipn_head_prop row (fun r => fst r == tmin)).
  - constructor; [reflexivity|]. apply (log_rows_Forall (gnodes g) sir_ps (fun t => t == tmin)).
    apply Forall_rev. eapply Forall_impl; [|exact HA]. intros e He. apply at_tmin_true. exact He.
  - cbn [length]. assert (Hl : length (log_rows (gnodes g) sir_ps ST00 (rev A)) = length A).
    { transitivity (length (map fst (log_rows (gnodes g) sir_ps ST00 (rev A)))); [symmetry; apply map_length|].
      rewrite log_rows_times, map_length, rev_length. reflexivity. }
    rewrite Hl. lia.
Qed.

Lemma fin_out_traj : trajS g tmin tmax (skipn (length i0) (rev (rows sF))).
Proof.
  destruct fin_suffix as [r [b [E Hr]]]. rewrite E.
  apply (traj_suffix g tmin tmax (rev (rows sF)) fin_traj (firstn (length i0) (rev (rows sF))) r b); auto.
  rewrite <- E. symmetry. apply firstn_skipn.
Qed.

(* both return modes return, with these rows *)
Lemma fin_finish : forall full, exists hs,
  finish g tmin full (length i0) sF =
  Ok (mkOut (skipn (length i0) (rev (rows sF))) (if full then Some (mkFull hs (rev (tlog sF))) else None), rev (olog sF)) /\
  (full = true -> all_ok (map (fun u => rbind (node_hist tmin sF u) (fun h => Ok (u, h))) (gnodes g)) = Ok hs).
Proof.
  intros full. unfold finish. destruct full.
  - destruct (all_ok_map node (node * history)
                (fun u => rbind (node_hist tmin sF u) (fun hst => Ok (u, hst))) (gnodes g)) as [hs Hhs].
    { intros u _. destruct (node_hist_ok g tmax delay dur tmin i0 r0 cF sF u HI H2) as [hst Hh].
      rewrite Hh. simpl. eexists; reflexivity. }
    exists hs. rewrite Hhs. simpl. auto.
  - exists []. split; [reflexivity|discriminate].
Qed.

End Final.
