(* C08, tree exactness: the assembled statement for EVERY graph accepted by the executable check tree_okb
   (index map as the callers build it, no self-loops, and for every vertex j the branches of G - j -- computed by a
   fuel-bounded search -- are cuts that separate every two neighbours of j).  Every tree is accepted (evaluated by
   harness/c08t.py on all trees up to the size bound, not proved in general); a graph with a cycle is rejected. *)
From EoNV Require Import Prelude Vec VecP Graph Rhs2D Rhs2DP Rhs2 Rhs2GenP Master C08tG C08tS C08tT C08tR C08tA C08tO C08tC.
From Coq Require Import Lqa.

Section TreeCheck.
Variables (G : graph) (nodelist : list node) (idx : node -> nat).
Notation n_ := (nN nodelist).
Notation edge := (is_edge G nodelist).

Definition memn (k : nat) (l : list nat) : bool := existsb (Nat.eqb k) l.
Definition adjb (a b : nat) : bool := (edge a b || edge b a)%bool.
Definition noloopb : bool := forallb (fun i => negb (edge i i)) (seq 0 n_).
(* positions reachable from `cur` without passing through j *)
Fixpoint grow (fuel : nat) (j : nat) (cur : list nat) : list nat :=
  match fuel with
  | O => cur
  | S f => grow f j (cur ++ filter (fun b => negb (Nat.eqb b j) && negb (memn b cur) && existsb (fun a => adjb a b) cur) (seq 0 n_))
  end.
Definition branch (j i : nat) : nat -> bool := fun k => memn k (grow n_ j [i]).
Definition branch_cuts : list cut :=
  flat_map (fun j => map (fun i => (j, branch j i)) (filter (fun i => negb (Nat.eqb i j) && adjb i j) (seq 0 n_))) (seq 0 n_).
Definition cuts_okb (cuts : list cut) : bool :=
  forallb (fun c => Nat.ltb (fst c) n_ && sepb G nodelist (fst c) (snd c)) cuts.
Definition tree_okb : bool :=
  pb_wfb G nodelist idx && noloopb && cuts_okb branch_cuts && coverb G nodelist branch_cuts.
End TreeCheck.

Section Final.
Variables (G : graph) (nodelist : list node) (idx : node -> nat) (tr : node -> node -> Q) (rc : node -> Q).
Notation n_ := (nN nodelist).
Notation cuts := (branch_cuts G nodelist).
Notation master := (master_rhs G nodelist idx tr rc).
Notation marg := (marginals G nodelist).
Hypothesis OK : tree_okb G nodelist idx = true.

Lemma ok_parts : pb_wfb G nodelist idx = true /\ (forall i, (i < n_)%nat -> is_edge G nodelist i i = false) /\
  (forall c, In c cuts -> (fst c < n_)%nat /\ sepb G nodelist (fst c) (snd c) = true) /\ coverb G nodelist cuts = true.
Proof.
  unfold tree_okb in OK. apply andb_prop in OK. destruct OK as [H C]. apply andb_prop in H. destruct H as [H K].
  apply andb_prop in H. destruct H as [W NL]. split; [exact W|]. split; [|split; [|exact C]].
  - intros i Hi. unfold noloopb in NL. rewrite forallb_forall in NL. apply negb_true_iff. apply NL. apply in_seq. lia.
  - intros c Hc. unfold cuts_okb in K. rewrite forallb_forall in K. specialize (K c Hc). apply andb_prop in K.
    destruct K as [K1 K2]. apply Nat.ltb_lt in K1. split; assumption.
Qed.

(* (3) for every accepted graph: on the intersection of the M_{j,U} over the branch cuts, p >= 0 *)
Theorem tree_exact_on_M p t : nonneg nodelist p -> inMs nodelist cuts p ->
  veq (g_dSIR_pair_based (marg p) t G nodelist idx tr rc) (marg (master p)).
Proof.
  intros Hp HM. destruct ok_parts as [W [NL [_ C]]].
  etransitivity; [apply (gen_dSIR_pair_based G nodelist idx tr rc W)|].
  etransitivity; [apply (closed_eq_open_on_M G nodelist idx tr rc W cuts p t C Hp HM)|].
  apply (open_general G nodelist idx tr rc W p NL).
Qed.

(* (1) + (2) + (3) *)
Theorem tree_pure_ic s0 : length s0 = n_ ->
  (nonneg nodelist (delta s0) /\ inMs nodelist cuts (delta s0)) /\
  (forall p, inMs nodelist cuts p -> forall c, In c cuts -> forall s1 s2,
     In s1 (slice nodelist (fst c)) -> In s2 (slice nodelist (fst c)) -> dminor nodelist (snd c) p (master p) s1 s2 == 0) /\
  (forall p t, nonneg nodelist p -> inMs nodelist cuts p ->
     veq (g_dSIR_pair_based (marg p) t G nodelist idx tr rc) (marg (master p))).
Proof.
  intros L0. destruct ok_parts as [W [NL [K C]]]. split; [|split].
  - split; [apply delta_nonneg|]. intros c _. apply delta_in_M. exact L0.
  - intros p HM c Hc s1 s2 H1 H2. destruct (K c Hc) as [Hj Sep].
    apply (tangent G nodelist idx tr rc W (fst c) (snd c) Hj Sep p s1 s2 (HM c Hc) H1 H2).
  - intros p t. apply tree_exact_on_M.
Qed.
End Final.
