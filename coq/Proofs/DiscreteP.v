(* Lemmas about Model/Discrete.v (property C12), continued.  Parts 1-4 (lists / sets; breadth-first
   levels and the generation sequence; deterministic rules; the whole run) are in
   Proofs/DiscreteGenP.v, re-exported here so that `Require Import DiscreteP` gives everything.
   Part 5: Bernoulli(p) rules: product law of one step (Reed-Frost, SIS) and of percolate_network.
   Part 6: deferred decisions, pathwise. *)
From EoNV Require Import Prelude Samp Graph Discrete.
From EoNV Require Export DiscreteGenP.
From Coq Require Import Permutation Lqa.

(* ------------------------------------------------------------------ *)
(* Part 5: Bernoulli(p) rules: the product laws                          *)

Fixpoint qpow (q : Q) (n : nat) : Q := match n with O => 1 | S n' => q * qpow q n' end.
Definition prodQ (l : list Q) : Q := fold_right Qmult 1 l.

Lemma prob_app : forall (A : Type) (f : A -> bool) d1 d2, prob f (d1 ++ d2) == prob f d1 + prob f d2.
Proof.
  intros A f d1 d2. unfold prob. induction d1 as [|x d1 IH]; simpl.
  - ring.
  - rewrite IH. ring.
Qed.

Lemma prob_scale : forall (A : Type) (f : A -> bool) q d, prob f (scale q d) == q * prob f d.
Proof.
  intros A f q d. unfold prob, scale. induction d as [|x d IH]; simpl.
  - ring.
  - rewrite IH. destruct (f (fst x)); ring.
Qed.

Lemma prob_flip : forall (A : Type) (f : A -> bool) p (kt kf : samp A),
  prob f (law (Flip p kt kf)) == clamp01 p * prob f (law kt) + (1 - clamp01 p) * prob f (law kf).
Proof. intros. cbn [law]. rewrite prob_app, !prob_scale. reflexivity. Qed.

Lemma prodQ_ext : forall (f h : node -> Q) l, (forall v, In v l -> f v == h v) ->
  prodQ (map f l) == prodQ (map h l).
Proof.
  intros f h l H. induction l as [|x l IH]; simpl; [reflexivity|].
  rewrite (H x (or_introl eq_refl)), IH; [reflexivity|]. intros v Hv. apply H. right. exact Hv.
Qed.

Lemma prod_split : forall (f : node -> Q) l w, NoDup l -> In w l ->
  prodQ (map f l) == f w * prodQ (map (fun v => if N.eqb v w then 1 else f v) l).
Proof.
  intros f l w Hn. induction Hn as [|x l Hx Hn IH]; intros Hw; [destruct Hw|].
  simpl. destruct (N.eqb_spec x w) as [E|E].
  - subst x. rewrite (prodQ_ext (fun v => if N.eqb v w then 1 else f v) f l).
    + ring.
    + intros v Hv. destruct (N.eqb_spec v w) as [E|E]; [subst v; contradiction|reflexivity].
  - destruct Hw as [Hw|Hw]; [contradiction|]. rewrite (IH Hw). ring.
Qed.

Lemma prod_indicator : forall (b : node -> bool) l,
  prodQ (map (fun v => if b v then 1 else 0) l) == if forallb b l then 1 else 0.
Proof.
  intros b l. induction l as [|x l IH]; simpl; [reflexivity|].
  rewrite IH. destruct (b x), (forallb b l); simpl; ring.
Qed.

Definition mcount (cs : list (node * node)) (v : node) : nat :=
  length (filter (fun e => N.eqb (snd e) v) cs).

Lemma mcount_cons_same : forall u w cs, mcount ((u, w) :: cs) w = S (mcount cs w).
Proof. intros. unfold mcount. simpl. rewrite N.eqb_refl. reflexivity. Qed.
Lemma mcount_cons_other : forall u w cs v, v <> w -> mcount ((u, w) :: cs) v = mcount cs v.
Proof. intros u w cs v H. unfold mcount. simpl. destruct (N.eqb_spec w v); [congruence|reflexivity]. Qed.

Section ReedFrost.
Variable g : graph.
Variable p : Q.
Variable full : bool.
Variable A : list node.             (* the candidate next generation *)
Hypothesis Hnd : NoDup (gnodes g).

Let q := clamp01 p.

(* the event "the set of newly infected nodes is exactly A" *)
Definition new_is (c : cst) : bool :=
  forallb (fun v => Bool.eqb (mem v (c_new c)) (mem v A)) (gnodes g).

(* factor of node v: still susceptible with m pending contacts / already decided *)
Definition Fv (c : cst) (cs : list (node * node)) (v : node) : Q :=
  if c_sus c v then (if mem v A then 1 - qpow (1 - q) (mcount cs v) else qpow (1 - q) (mcount cs v))
  else if mem v (c_new c) then (if mem v A then 1 else 0)
  else (if mem v A then 0 else 1).

Lemma rf_general : forall k age cs c,
  (forall e, In e cs -> In (snd e) (gnodes g)) ->
  (forall v, In v (c_new c) -> c_sus c v = false) ->
  prob new_is (law (cloop (simple_rules p) full k age cs c)) == prodQ (map (Fv c cs) (gnodes g)).
Proof.
  intros k age cs. induction cs as [|[u w] cs IH]; intros c Hcs Hinv.
  - cbn [cloop law]. unfold prob. simpl. unfold new_is. rewrite Qplus_0_r.
    rewrite <- prod_indicator. apply prodQ_ext. intros v Hv. unfold Fv, mcount. simpl.
    destruct (c_sus c v) eqn:Es.
    + assert (M : mem v (c_new c) = false).
      { destruct (mem v (c_new c)) eqn:M; [|reflexivity]. apply dmem_In in M. apply Hinv in M. congruence. }
      rewrite M. destruct (mem v A); simpl; ring.
    + destruct (mem v (c_new c)), (mem v A); simpl; reflexivity.
  - assert (Hw : In w (gnodes g)) by (apply (Hcs (u, w)); left; reflexivity).
    assert (Hcs' : forall e, In e cs -> In (snd e) (gnodes g)) by (intros e He; apply Hcs; right; exact He).
    cbn [cloop]. destruct (c_sus c w) eqn:Es.
    + cbn [simple_rules r_test bind]. rewrite prob_flip. fold q.
      rewrite IH; [|exact Hcs'|].
      2:{ cbn [c_new c_sus]. intros v [E|Hv]; unfold fupdN.
          - subst v. rewrite N.eqb_refl. reflexivity.
          - destruct (N.eqb v w); [reflexivity|apply Hinv; exact Hv]. }
      rewrite IH; [|exact Hcs'|exact Hinv].
      rewrite (prod_split _ _ w Hnd Hw). rewrite (prod_split (Fv (mkC (c_sus c) (c_new c) (c_inf c) (c_nS c) ((k, u, w) :: c_q c)) cs) _ w Hnd Hw).
      rewrite (prod_split (Fv c ((u, w) :: cs)) _ w Hnd Hw).
      set (PE := prodQ (map (fun v => if N.eqb v w then 1 else Fv c ((u, w) :: cs) v) (gnodes g))).
      assert (E1 : prodQ (map (fun v => if N.eqb v w then 1 else
                     Fv (mkC (fupdN (c_sus c) w false) (w :: c_new c) (c_inf c ++ [(w, [u])]) (c_nS c - 1)%Z ((k, u, w) :: c_q c)) cs v) (gnodes g)) == PE).
      { apply prodQ_ext. intros v Hv. destruct (N.eqb_spec v w) as [E|E]; [reflexivity|].
        unfold Fv. cbn [c_sus c_new]. unfold fupdN. rewrite mem_cons.
        destruct (N.eqb_spec v w) as [E'|_]; [contradiction|]. cbn [orb].
        rewrite (mcount_cons_other u w cs v E). reflexivity. }
      assert (E2 : prodQ (map (fun v => if N.eqb v w then 1 else
                     Fv (mkC (c_sus c) (c_new c) (c_inf c) (c_nS c) ((k, u, w) :: c_q c)) cs v) (gnodes g)) == PE).
      { apply prodQ_ext. intros v Hv. destruct (N.eqb_spec v w) as [E|E]; [reflexivity|].
        unfold Fv. cbn [c_sus c_new]. rewrite (mcount_cons_other u w cs v E). reflexivity. }
      rewrite E1, E2. unfold Fv. cbn [c_sus c_new]. unfold fupdN. rewrite N.eqb_refl, Es, mem_cons, N.eqb_refl.
      cbn [orb]. rewrite mcount_cons_same. cbn [qpow].
      destruct (mem w A); ring.
    + assert (Same : forall c', c_sus c' = c_sus c -> c_new c' = c_new c ->
                prodQ (map (Fv c' cs) (gnodes g)) == prodQ (map (Fv c ((u, w) :: cs)) (gnodes g))).
      { intros c' H1 H2. apply prodQ_ext. intros v Hv. unfold Fv. rewrite H1, H2.
        destruct (N.eqb_spec v w) as [E|E].
        - subst v. rewrite Es. reflexivity.
        - rewrite (mcount_cons_other u w cs v E). reflexivity. }
      destruct (full && mem w (c_new c)).
      * cbn [simple_rules r_test bind]. rewrite prob_flip. fold q.
        rewrite IH; [|exact Hcs'|exact Hinv]. rewrite IH; [|exact Hcs'|exact Hinv].
        rewrite !Same by reflexivity. ring.
      * rewrite IH; [|exact Hcs'|exact Hinv]. apply Same; reflexivity.
Qed.

(* one step of discrete_SIR with the default rule from susceptible-map [sus]: the probability
   that the next generation is exactly A *)
Theorem reedfrost_step_law : forall k age us sus nS ql,
  (forall u v, In u us -> In v (gadj g u) -> In v (gnodes g)) ->
  prob new_is (law (cloop (simple_rules p) full k age (contacts g us) (mkC sus [] [] nS ql))) ==
  prodQ (map (fun v => if sus v
                       then (if mem v A then 1 - qpow (1 - q) (mcount (contacts g us) v)
                             else qpow (1 - q) (mcount (contacts g us) v))
                       else (if mem v A then 0 else 1)) (gnodes g)).
Proof.
  intros k age us sus nS ql Hsub. rewrite rf_general.
  - apply prodQ_ext. intros v Hv. unfold Fv. cbn [c_sus c_new mem existsb]. reflexivity.
  - intros e He. unfold contacts in He. apply in_flat_map in He. destruct He as [u [Hu He]].
    apply in_map_iff in He. destruct He as [v [E Hv]]. subst e. cbn [snd]. apply (Hsub u v Hu Hv).
  - intros v [].
Qed.

End ReedFrost.

(* ---- basic_discrete_SIS: one step ---- *)
Section SISStep.
Variable g : graph.
Variable p : Q.
Variable A : list node.
Hypothesis Hnd : NoDup (gnodes g).
Let q := clamp01 p.

Definition sis_new_is (r : list node * list (node * list node) * list qentry) : bool :=
  forallb (fun v => Bool.eqb (mem v (fst (fst r))) (mem v A)) (gnodes g).

Definition Fs (infs new : list node) (cs : list (node * node)) (v : node) : Q :=
  if mem v infs then (if mem v A then 0 else 1)
  else if mem v new then (if mem v A then 1 else 0)
  else (if mem v A then 1 - qpow (1 - q) (mcount cs v) else qpow (1 - q) (mcount cs v)).

Lemma sis_general : forall k infs cs new inf ql,
  (forall e, In e cs -> In (snd e) (gnodes g)) ->
  (forall v, In v new -> mem v infs = false) ->
  prob sis_new_is (law (sis_cloop (simple_rules p) k infs cs new inf ql)) ==
  prodQ (map (Fs infs new cs) (gnodes g)).
Proof.
  intros k infs cs. induction cs as [|[u w] cs IH]; intros new inf ql Hcs Hinv.
  - cbn [sis_cloop law]. unfold prob. simpl. unfold sis_new_is. cbn [fst]. rewrite Qplus_0_r.
    rewrite <- prod_indicator. apply prodQ_ext. intros v Hv. unfold Fs, mcount. simpl.
    destruct (mem v infs) eqn:Ei.
    + assert (M : mem v new = false).
      { destruct (mem v new) eqn:M; [|reflexivity]. apply dmem_In in M. apply Hinv in M. congruence. }
      rewrite M. destruct (mem v A); simpl; reflexivity.
    + destruct (mem v new), (mem v A); simpl; ring.
  - assert (Hw : In w (gnodes g)) by (apply (Hcs (u, w)); left; reflexivity).
    assert (Hcs' : forall e, In e cs -> In (snd e) (gnodes g)) by (intros e He; apply Hcs; right; exact He).
    assert (Same : forall new', (forall v, mem v new' = mem v new) -> (mem w infs = true \/ mem w new = true) ->
              prodQ (map (Fs infs new' cs) (gnodes g)) == prodQ (map (Fs infs new ((u, w) :: cs)) (gnodes g))).
    { intros new' H1 H2. apply prodQ_ext. intros v Hv. unfold Fs. rewrite H1.
      destruct (N.eqb_spec v w) as [E|E].
      - subst v. destruct H2 as [H2|H2]; rewrite H2; [reflexivity|]. destruct (mem w infs); reflexivity.
      - rewrite (mcount_cons_other u w cs v E). reflexivity. }
    cbn [sis_cloop]. destruct (mem w infs) eqn:Ei; cbn [negb].
    + rewrite IH; [|exact Hcs'|exact Hinv]. apply Same; [reflexivity|left; reflexivity].
    + cbn [simple_rules r_test bind]. rewrite prob_flip. fold q.
      destruct (mem w new) eqn:En; cbn [negb].
      * rewrite IH; [|exact Hcs'|exact Hinv]. rewrite IH; [|exact Hcs'|exact Hinv].
        rewrite !Same by (try reflexivity; right; reflexivity). ring.
      * rewrite IH; [|exact Hcs'|].
        2:{ intros v [E|Hv]; [subst v; exact Ei|apply Hinv; exact Hv]. }
        rewrite IH; [|exact Hcs'|exact Hinv].
        rewrite (prod_split _ _ w Hnd Hw). rewrite (prod_split (Fs infs new cs) _ w Hnd Hw).
        rewrite (prod_split (Fs infs new ((u, w) :: cs)) _ w Hnd Hw).
        set (PE := prodQ (map (fun v => if N.eqb v w then 1 else Fs infs new ((u, w) :: cs) v) (gnodes g))).
        assert (E1 : prodQ (map (fun v => if N.eqb v w then 1 else Fs infs (w :: new) cs v) (gnodes g)) == PE).
        { apply prodQ_ext. intros v Hv. destruct (N.eqb_spec v w) as [E|E]; [reflexivity|].
          unfold Fs. rewrite mem_cons. destruct (N.eqb_spec v w) as [E'|_]; [contradiction|]. cbn [orb].
          rewrite (mcount_cons_other u w cs v E). reflexivity. }
        assert (E2 : prodQ (map (fun v => if N.eqb v w then 1 else Fs infs new cs v) (gnodes g)) == PE).
        { apply prodQ_ext. intros v Hv. destruct (N.eqb_spec v w) as [E|E]; [reflexivity|].
          unfold Fs. rewrite (mcount_cons_other u w cs v E). reflexivity. }
        rewrite E1, E2. unfold Fs. rewrite Ei, En, mem_cons, N.eqb_refl. cbn [orb].
        rewrite mcount_cons_same. cbn [qpow]. destruct (mem w A); ring.
Qed.

(* one step of basic_discrete_SIS from the infectious set [infs] *)
Theorem sis_step_law : forall k infs us ql,
  (forall u v, In u us -> In v (gadj g u) -> In v (gnodes g)) ->
  prob sis_new_is (law (sis_cloop (simple_rules p) k infs (contacts g us) [] [] ql)) ==
  prodQ (map (fun v => if mem v infs then (if mem v A then 0 else 1)
                       else (if mem v A then 1 - qpow (1 - q) (mcount (contacts g us) v)
                             else qpow (1 - q) (mcount (contacts g us) v))) (gnodes g)).
Proof.
  intros k infs us ql Hsub. rewrite sis_general.
  - apply prodQ_ext. intros v Hv. unfold Fs. cbn [mem existsb]. reflexivity.
  - intros e He. unfold contacts in He. apply in_flat_map in He. destruct He as [u [Hu He]].
    apply in_map_iff in He. destruct He as [v [E Hv]]. subst e. cbn [snd]. apply (Hsub u v Hu Hv).
  - intros v [].
Qed.

End SISStep.

(* the number of pending contacts into v = the number of infectious neighbours of v *)
Lemma mcount_app : forall l1 l2 v, mcount (l1 ++ l2) v = (mcount l1 v + mcount l2 v)%nat.
Proof. intros. unfold mcount. rewrite filter_app, app_length. reflexivity. Qed.

Lemma mcount_contacts : forall g us v, (forall u, In u us -> NoDup (gadj g u)) ->
  mcount (contacts g us) v = length (filter (fun u => mem v (gadj g u)) us).
Proof.
  intros g us v H. induction us as [|u us IH]; [reflexivity|].
  change (contacts g (u :: us)) with (map (fun w => (u, w)) (gadj g u) ++ contacts g us).
  rewrite mcount_app. rewrite IH by (intros x Hx; apply H; right; exact Hx).
  assert (E : mcount (map (fun w => (u, w)) (gadj g u)) v = if mem v (gadj g u) then 1%nat else 0%nat).
  { specialize (H u (or_introl eq_refl)). unfold mcount. induction H as [|x l Hx Hn IHl]; [reflexivity|].
    simpl. rewrite (N.eqb_sym v x). destruct (N.eqb_spec x v) as [E|E]; simpl.
    - subst x. rewrite IHl. apply dmem_false in Hx. rewrite Hx. reflexivity.
    - exact IHl. }
  rewrite E. simpl. destruct (mem v (gadj g u)); simpl; reflexivity.
Qed.

(* ---- percolate_network ---- *)
Definition eeqb (e e' : node * node) : bool := N.eqb (fst e) (fst e') && N.eqb (snd e) (snd e').
Definition meme (e : node * node) (l : list (node * node)) : bool := existsb (eeqb e) l.

Lemma eeqb_spec : forall e e', reflect (e = e') (eeqb e e').
Proof.
  intros [a b] [c d]. unfold eeqb. cbn [fst snd].
  destruct (N.eqb_spec a c), (N.eqb_spec b d); constructor; congruence.
Qed.

Lemma meme_In : forall e l, meme e l = true <-> In e l.
Proof.
  intros e l. unfold meme. rewrite existsb_exists. split.
  - intros [x [Hx E]]. destruct (eeqb_spec e x); [subst; exact Hx|discriminate].
  - intro H. exists e. split; [exact H|]. destruct (eeqb_spec e e); [reflexivity|congruence].
Qed.

Lemma meme_app : forall e l l', meme e (l ++ l') = meme e l || meme e l'.
Proof. intros. unfold meme. apply existsb_app. Qed.

Lemma forallb_ext_in' : forall (A : Type) (f h : A -> bool) l,
  (forall x, In x l -> f x = h x) -> forallb f l = forallb h l.
Proof.
  intros A f h l H. induction l as [|x l IH]; [reflexivity|].
  simpl. rewrite (H x (or_introl eq_refl)), IH; [reflexivity|]. intros y Hy. apply H. right. exact Hy.
Qed.

Section Perc.
Variable p : Q.
Variable sel : node * node -> bool.        (* the candidate set of kept edges *)
Let q := clamp01 p.

Definition kept_is (D : list (node * node)) (r : list (node * node) * list qentry) : bool :=
  forallb (fun e => Bool.eqb (meme e (fst r)) (sel e)) D.

Lemma perc_general : forall es D kept ql,
  NoDup (D ++ es) -> (forall e, In e kept -> In e D) ->
  prob (kept_is (D ++ es)) (law (perc_loop (simple_rules p) es kept ql)) ==
  (if forallb (fun e => Bool.eqb (meme e kept) (sel e)) D then 1 else 0) *
  prodQ (map (fun e => if sel e then q else 1 - q) es).
Proof.
  induction es as [|[u v] es IH]; intros D kept ql Hnd Hsub.
  - cbn [perc_loop law]. unfold prob. simpl. rewrite app_nil_r. unfold kept_is. cbn [fst].
    destruct (forallb (fun e => Bool.eqb (meme e kept) (sel e)) D); ring.
  - cbn [perc_loop simple_rules r_test bind]. rewrite prob_flip. fold q.
    assert (EA : D ++ (u, v) :: es = (D ++ [(u, v)]) ++ es) by (rewrite <- app_assoc; reflexivity).
    rewrite EA. rewrite EA in Hnd.
    assert (HeD : ~ In (u, v) D).
    { intro H. rewrite <- EA in Hnd. apply NoDup_remove_2 in Hnd. apply Hnd. apply in_or_app. left. exact H. }
    assert (Hk : meme (u, v) kept = false).
    { destruct (meme (u, v) kept) eqn:E; [|reflexivity]. apply meme_In in E. apply Hsub in E. contradiction. }
    rewrite IH; [|exact Hnd|].
    2:{ intros e He. apply in_app_or in He. apply in_or_app. destruct He as [He|He]; [left; apply Hsub; exact He|right; exact He]. }
    rewrite IH; [|exact Hnd|].
    2:{ intros e He. apply in_or_app. left. apply Hsub. exact He. }
    rewrite !forallb_app. cbn [forallb]. rewrite !andb_true_r.
    assert (E1 : forallb (fun e => Bool.eqb (meme e (kept ++ [(u, v)])) (sel e)) D =
                 forallb (fun e => Bool.eqb (meme e kept) (sel e)) D).
    { apply forallb_ext_in'. intros e He. rewrite meme_app. cbn [meme existsb]. rewrite orb_false_r.
      destruct (eeqb_spec e (u, v)) as [E|E]; [subst e; contradiction|]. rewrite orb_false_r. reflexivity. }
    rewrite E1. rewrite meme_app, Hk. cbn [meme existsb orb].
    destruct (eeqb_spec (u, v) (u, v)) as [_|N]; [|congruence]. cbn [orb].
    cbn [map prodQ fold_right]. fold (prodQ (map (fun e => if sel e then q else 1 - q) es)).
    destruct (forallb (fun e => Bool.eqb (meme e kept) (sel e)) D), (sel (u, v)); cbn [Bool.eqb andb]; ring.
Qed.

(* every edge of G is kept independently with probability p: the probability that the kept
   edges are exactly those selected by [sel] is the product of p resp. 1-p over the edges *)
Theorem perc_law : forall g, NoDup (gedges g) ->
  prob (kept_is (gedges g)) (law (perc_loop (simple_rules p) (gedges g) [] [])) ==
  prodQ (map (fun e => if sel e then q else 1 - q) (gedges g)).
Proof.
  intros g Hnd. rewrite (perc_general (gedges g) [] [] [] Hnd) by (intros e []).
  cbn [forallb]. ring.
Qed.

End Perc.

(* the percolated graph has the node set of G and exactly the kept edges, undirected *)
Lemma perc_nodes : forall g kept, gnodes (perc_graph g kept) = gnodes g.
Proof. reflexivity. Qed.

Lemma add_nb_In : forall l x y, In y (add_nb l x) <-> In y l \/ y = x.
Proof.
  intros l x y. unfold add_nb. destruct (mem x l) eqn:E.
  - split; [tauto|]. intros [H|H]; [exact H|subst y; apply dmem_In; exact E].
  - rewrite in_app_iff. simpl. intuition.
Qed.

Lemma perc_adj_In : forall kept x y,
  In y (perc_adj kept x) <-> In (x, y) kept \/ In (y, x) kept.
Proof.
  intros kept x y. unfold perc_adj.
  assert (G : forall l, In y (fold_left (fun l e => if N.eqb (fst e) x then add_nb l (snd e)
                 else if N.eqb (snd e) x then add_nb l (fst e) else l) kept l) <->
              In y l \/ In (x, y) kept \/ In (y, x) kept).
  { induction kept as [|[a b] kept IH]; intro l.
    - simpl. tauto.
    - cbn [fold_left fst snd]. rewrite IH. cbn [In].
      destruct (N.eqb_spec a x) as [Ea|Ea].
      + subst a. rewrite add_nb_In. split.
        * intros [[H|H]|[H|H]]; [tauto|subst y; tauto|tauto|tauto].
        * intros [H|[[H|H]|[H|H]]]; try tauto.
          -- injection H as H. subst b. tauto.
          -- injection H as H1 H2. subst b. subst y. left. right. reflexivity.
      + destruct (N.eqb_spec b x) as [Eb|Eb].
        * subst b. rewrite add_nb_In. split.
          -- intros [[H|H]|[H|H]]; [tauto|subst y; tauto|tauto|tauto].
          -- intros [H|[[H|H]|[H|H]]]; try tauto.
             ++ injection H as H1 H2. congruence.
             ++ injection H as H1. subst a. tauto.
        * split.
          -- intros [H|[H|H]]; tauto.
          -- intros [H|[[H|H]|[H|H]]]; try tauto.
             ++ injection H as H1 H2. congruence.
             ++ injection H as H1 H2. congruence. }
  rewrite G. simpl. tauto.
Qed.

Lemma percolate_unfold : forall g p,
  percolate_network g p =
  bind (perc_loop (simple_rules p) (gedges g) [] []) (fun kq => Ret (perc_graph g (fst kq), snd kq)).
Proof. reflexivity. Qed.

Fixpoint nodupb_pairs (l : list (node * node)) : bool :=
  match l with [] => true | x :: t => negb (meme x t) && nodupb_pairs t end.
Lemma nodupb_NoDup_pairs : forall l, nodupb_pairs l = true -> NoDup l.
Proof.
  induction l as [|x l IH]; intro H; [constructor|].
  cbn [nodupb_pairs] in H. apply andb_true_iff in H. destruct H as [H1 H2].
  constructor; [|apply IH; exact H2]. intro Hin. apply meme_In in Hin. rewrite Hin in H1. discriminate.
Qed.

(* ------------------------------------------------------------------ *)
(* Part 6: deferred decisions, pathwise                                   *)
(* ---- pathwise: percolation_based_discrete_SIR = basic_discrete_SIR on a common symmetric table ---- *)

Lemma perc_loop_det : forall tt pick es kept ql,
  exists ql', perc_loop (det_rules tt pick) es kept ql =
              Ret (kept ++ filter (fun e => tt (fst e) (snd e) O) es, ql').
Proof.
  intros tt pick es. induction es as [|[u v] es IH]; intros kept ql.
  - eexists. cbn [perc_loop filter]. rewrite app_nil_r. reflexivity.
  - cbn [perc_loop det_rules r_test bind filter fst snd]. destruct (tt u v O).
    + destruct (IH (kept ++ [(u, v)]) ((O, u, v) :: ql)) as [ql' E]. exists ql'. rewrite E.
      rewrite <- app_assoc. reflexivity.
    + apply IH.
Qed.

Lemma edges_from_sound : forall g nodes seen a b,
  In (a, b) (edges_from g nodes seen) -> In a nodes /\ In b (gadj g a).
Proof.
  intros g nodes. induction nodes as [|x r IH]; intros seen a b H; [destruct H|].
  cbn [edges_from] in H. apply in_app_or in H. destruct H as [H|H].
  - apply in_map_iff in H. destruct H as [w [E Hw]]. injection E as E1 E2. subst x w.
    apply filter_In in Hw. split; [left; reflexivity|apply Hw].
  - apply IH in H. split; [right; apply H|apply H].
Qed.

Lemma edges_from_complete : forall g nodes seen a b,
  In a nodes -> In b (gadj g a) -> In a (gadj g b) -> ~ In a seen -> ~ In b seen ->
  In (a, b) (edges_from g nodes seen) \/ In (b, a) (edges_from g nodes seen).
Proof.
  intros g nodes. induction nodes as [|x r IH]; intros seen a b Ha Hb Hab Has Hbs; [destruct Ha|].
  cbn [edges_from]. destruct (N.eq_dec x a) as [E|E].
  - subst x. left. apply in_or_app. left. apply in_map. apply filter_In. split; [exact Hb|].
    apply negb_true_iff. apply dmem_false. exact Hbs.
  - destruct (N.eq_dec x b) as [E'|E'].
    + subst x. right. apply in_or_app. left. apply in_map. apply filter_In. split; [exact Hab|].
      apply negb_true_iff. apply dmem_false. exact Has.
    + destruct Ha as [Ha|Ha]; [contradiction|].
      destruct (IH (x :: seen) a b Ha Hb Hab) as [H|H].
      * intros [H|H]; [congruence|contradiction].
      * intros [H|H]; [congruence|contradiction].
      * left. apply in_or_app. right. exact H.
      * right. apply in_or_app. right. exact H.
Qed.

Section Pathwise.
Variable g : graph.
Variable tt : node -> node -> nat -> bool.
Variable pick : nat -> node -> nat.
Variable full : bool.
Variables i0 r0 : list node.
Variable tmin : Q.
Variable tmax : xtime.
Hypothesis Hundir : gdirected g = false.
Hypothesis Hnd : NoDup (gnodes g).
Hypothesis Hadj : forall u v, In u (gnodes g) -> In v (gadj g u) -> In v (gnodes g).
Hypothesis Hsym : forall u v, In u (gnodes g) -> In v (gadj g u) -> In u (gadj g v).
Hypothesis Htt : forall u v, tt u v O = tt v u O.
Hypothesis Hi0 : forall v, In v i0 -> In v (gnodes g).
Hypothesis Hr0 : forall v, In v r0 -> In v (gnodes g).
Hypothesis Hi0nd : NoDup i0.
Hypothesis Hr0nd : NoDup r0.
Hypothesis Hdisj : forall v, In v i0 -> ~ In v r0.

Definition keptT : list (node * node) := filter (fun e => tt (fst e) (snd e) O) (gedges g).
Definition HG : graph := perc_graph g keptT.
Definition ttH (u v : node) (_ : nat) : bool := edge_exists HG u v.

Lemma HG_adj : forall u v, In u (gnodes g) ->
  (In v (gadj HG u) <-> In v (gadj g u) /\ tt u v O = true).
Proof.
  intros u v Hu. unfold HG. cbn [perc_graph gadj]. rewrite perc_adj_In. unfold keptT, gedges. rewrite Hundir.
  rewrite !filter_In. cbn [fst snd]. split.
  - intros [[H1 H2]|[H1 H2]].
    + apply edges_from_sound in H1. split; [apply H1|exact H2].
    + apply edges_from_sound in H1. destruct H1 as [Hv Hin]. split; [apply (Hsym v u Hv Hin)|rewrite Htt; exact H2].
  - intros [H1 H2].
    destruct (edges_from_complete g (gnodes g) [] u v Hu H1 (Hsym u v Hu H1)) as [H|H]; try (intros []).
    + left. split; [exact H|exact H2].
    + right. split; [exact H|rewrite Htt; exact H2].
Qed.

Lemma HG_adj_sub : forall u v, In u (gnodes HG) -> In v (gadj HG u) -> In v (gnodes HG).
Proof.
  intros u v Hu Hv. change (gnodes HG) with (gnodes g) in *. apply HG_adj in Hv; [|exact Hu].
  apply Hadj with u; [exact Hu|apply Hv].
Qed.

Lemma hit_HG : forall I v, (forall u, In u I -> In u (gnodes g)) ->
  hit HG (T0 ttH) I v = hit g (T0 tt) I v.
Proof.
  intros I v HI. unfold hit. induction I as [|u I IH]; [reflexivity|].
  cbn [existsb]. rewrite IH by (intros x Hx; apply HI; right; exact Hx). f_equal.
  unfold T0, ttH, edge_exists.
  assert (Hu : In u (gnodes g)) by (apply HI; left; reflexivity).
  destruct (mem v (gadj HG u)) eqn:E.
  - apply dmem_In in E. apply HG_adj in E; [|exact Hu]. destruct E as [E1 E2].
    apply dmem_In in E1. rewrite E1, E2. reflexivity.
  - cbn [andb]. destruct (mem v (gadj g u)) eqn:E1; [|reflexivity]. destruct (tt u v O) eqn:E2; [|reflexivity].
    apply dmem_false in E. exfalso. apply E. apply HG_adj; [exact Hu|]. split; [apply dmem_In; exact E1|exact E2].
Qed.

Lemma gen_HG : forall k, gen HG (T0 ttH) i0 r0 k = gen g (T0 tt) i0 r0 k.
Proof.
  induction k as [|k IH]; [reflexivity|].
  cbn [gen]. rewrite IH. unfold gen_next.
  assert (E : filter (hit HG (T0 ttH) (snd (gen g (T0 tt) i0 r0 k))) (fst (gen g (T0 tt) i0 r0 k)) =
              filter (hit g (T0 tt) (snd (gen g (T0 tt) i0 r0 k))) (fst (gen g (T0 tt) i0 r0 k))).
  { apply filter_ext_in. intros v Hv. apply hit_HG. intros u Hu. apply (Ig_sub g (T0 tt) i0 r0 k). exact Hu. }
  rewrite E. reflexivity.
Qed.


Lemma Sg_HG : forall k, Sg HG (T0 ttH) i0 r0 k = Sg g (T0 tt) i0 r0 k.
Proof. intro k. unfold Sg. rewrite gen_HG. reflexivity. Qed.
Lemma Ig_HG : forall k, Ig HG (T0 ttH) i0 r0 k = Ig g (T0 tt) i0 r0 k.
Proof. intro k. unfold Ig. rewrite gen_HG. reflexivity. Qed.

Lemma Rg_HG : forall k, Rg HG ttH i0 r0 k = Rg g tt i0 r0 k.
Proof. induction k as [|k IH]; [reflexivity|]. cbn [Rg]. rewrite IH, Ig_HG. reflexivity. Qed.

Lemma rows_HG : forall K, rows_to HG ttH i0 r0 tmin K = rows_to g tt i0 r0 tmin K.
Proof.
  induction K as [|K IH]; [reflexivity|].
  cbn [rows_to]. rewrite IH, Sg_HG, Ig_HG, (Rg_HG (S K)). reflexivity.
Qed.

Lemma events_HG : forall fl K v, events_to HG ttH fl i0 r0 tmin tmax K v = events_to g tt fl i0 r0 tmin tmax K v.
Proof.
  intro fl. induction K as [|K IH]; intro v; [reflexivity|].
  cbn [events_to]. rewrite IH, !Ig_HG. reflexivity.
Qed.

Lemma stop_HG : forall k, stop HG ttH i0 r0 tmin tmax k = stop g tt i0 r0 tmin tmax k.
Proof. intro k. unfold stop. rewrite Ig_HG. reflexivity. Qed.

(* on a common symmetric table of coins percolation_based_discrete_SIR and basic_discrete_SIR
   return the same rows and the same node histories, whatever the two iteration orders *)
Theorem perc_sir_pathwise_sec : forall ord1 ord2 fuel1 fuel2,
  perm_oracle ord1 -> perm_oracle ord2 ->
  (length (gnodes g) < fuel1)%nat -> (length (gnodes g) < fuel2)%nat ->
  exists outB outP,
    basic_discrete_SIR_R g (det_rules tt pick) ord1 (Some i0) (Some r0) None tmin tmax full fuel1 = Ret outB /\
    percolation_based_discrete_SIR_R g (det_rules tt pick) ord2 (Some i0) (Some r0) None tmin tmax full fuel2 = Ret outP /\
    so_rows (o_sim outB) = so_rows (o_sim outP) /\
    option_map fd_hist (so_full (o_sim outB)) = option_map fd_hist (so_full (o_sim outP)).
Proof.
  intros ord1 ord2 fuel1 fuel2 H1 H2 Hf1 Hf2.
  destruct (dsir_from_l1 g tt pick full i0 r0 tmin tmax Hnd Hadj Hi0 Hr0 Hi0nd Hr0nd Hdisj ord1 H1 fuel1 Hf1)
    as [K1 [o1 [Hs1 [Hr1 [Hrows1 Hh1]]]]].
  destruct (dsir_from_l1 HG ttH pick full i0 r0 tmin tmax Hnd HG_adj_sub Hi0 Hr0 Hi0nd Hr0nd Hdisj ord2 H2 fuel2 Hf2)
    as [K2 [o2 [Hs2 [Hr2 [Hrows2 Hh2]]]]].
  assert (E : K1 = K2).
  { apply (first_stop_unique g tt i0 r0 tmin tmax); [exact Hs1|].
    destruct Hs2 as [Ha Hb]. split.
    - intros j Hj. rewrite <- stop_HG. apply Ha. exact Hj.
    - rewrite <- stop_HG. exact Hb. }
  subst K2.
  destruct (perc_loop_det tt pick (gedges g) [] []) as [ql' Eperc].
  exists o1, (add_qlog ql' o2). split; [exact Hr1|]. split.
  - unfold percolation_based_discrete_SIR_R, percolate_network_R. rewrite Eperc. cbn [bind fst snd app].
    change (has_edge_rules (perc_graph g (filter (fun e => tt (fst e) (snd e) O) (gedges g))) (det_rules tt pick))
      with (det_rules ttH pick).
    change (perc_graph g (filter (fun e => tt (fst e) (snd e) O) (gedges g))) with HG.
    unfold discrete_SIR. cbn [with_initial opt_list]. rewrite Hr2. reflexivity.
  - cbn [add_qlog o_sim]. split.
    + rewrite Hrows1, Hrows2. unfold l1_rows. rewrite rows_HG. reflexivity.
    + destruct full.
      * destruct Hh1 as [t1 Hh1]. destruct Hh2 as [t2 Hh2]. rewrite Hh1, Hh2. cbn [option_map fd_hist].
        f_equal. unfold l1_hist. change (gnodes HG) with (gnodes g). apply map_ext. intro u. rewrite events_HG. reflexivity.
      * rewrite Hh1, Hh2. reflexivity.
Qed.

End Pathwise.

Definition sym_graphb (g : graph) : bool :=
  negb (gdirected g) && forallb (fun u => forallb (fun v => mem u (gadj g v)) (gadj g u)) (gnodes g).

Theorem perc_sir_pathwise : forall g tt pick ord1 ord2 i0 r0 tmin tmax full fuel1 fuel2,
  wf_inputb g i0 r0 = true -> sym_graphb g = true -> (forall u v, tt u v O = tt v u O) ->
  perm_oracle ord1 -> perm_oracle ord2 ->
  (length (gnodes g) < fuel1)%nat -> (length (gnodes g) < fuel2)%nat ->
  exists outB outP,
    basic_discrete_SIR_R g (det_rules tt pick) ord1 (Some i0) (Some r0) None tmin tmax full fuel1 = Ret outB /\
    percolation_based_discrete_SIR_R g (det_rules tt pick) ord2 (Some i0) (Some r0) None tmin tmax full fuel2 = Ret outP /\
    so_rows (o_sim outB) = so_rows (o_sim outP) /\
    option_map fd_hist (so_full (o_sim outB)) = option_map fd_hist (so_full (o_sim outP)).
Proof.
  intros g tt pick ord1 ord2 i0 r0 tmin tmax full fuel1 fuel2 Hwf Hsg Htt H1 H2 Hf1 Hf2.
  destruct (wf_input_props g i0 r0 Hwf) as [Hnd [Hadj [Hi0 [Hr0 [Hi0nd [Hr0nd Hdisj]]]]]].
  unfold sym_graphb in Hsg. apply andb_true_iff in Hsg. destruct Hsg as [Hd Hs].
  apply negb_true_iff in Hd.
  assert (Hsym : forall u v, In u (gnodes g) -> In v (gadj g u) -> In u (gadj g v)).
  { intros u v Hu Hv. rewrite forallb_forall in Hs. specialize (Hs u Hu). cbv beta in Hs.
    rewrite forallb_forall in Hs. apply dmem_In. apply Hs. exact Hv. }
  exact (perc_sir_pathwise_sec g tt pick full i0 r0 tmin tmax Hd Hnd Hadj Hsym Htt Hi0 Hr0 Hi0nd Hr0nd Hdisj
           ord1 ord2 fuel1 fuel2 H1 H2 Hf1 Hf2).
Qed.
