(* Lemmas about Model/Discrete.v (property C12). *)
From EoNV Require Import Prelude Samp Graph Discrete.

(* basic_discrete_SIR is discrete_SIR with the default rule and no recovery test *)
Lemma basic_forwards :
  forall g p ord i0 r0 rho tmin tmax full fuel,
    basic_discrete_SIR g p ord i0 r0 rho tmin tmax full fuel =
    discrete_SIR g (simple_rules p) None ord i0 r0 rho tmin tmax full fuel.
Proof. reflexivity. Qed.
