(* C10 for Gillespie_complex_contagion: in a full-data run the node histories are the per-node
   projections of ONE event log and the rows are its running counts, so summary() of the
   histories equals the arrays whenever return_statuses contains every status the model uses and
   no two events share an instant (generic log lemma, Proofs/InvestigationP.v); and the
   decidable checker consistent_b accepts every such run. *)
From EoNV Require Import Prelude Samp Graph ListDict ListDictP Gillespie KldP GillespieInv SampP Simple SimpleP
  SimpleExecS SimpleExecChk SimpleExecC10.
From EoNV Require Complex ComplexP ComplexExec ComplexExecChk.
From EoNV Require Import Investigation InvestigationP.
From Coq Require Import Lqa.

Section CX.
Variable g : graph.
Variable rate : Complex.smap -> node -> Q.
Variable choice : Complex.smap -> node -> N.
Variable infl : Complex.smap -> node -> list node.
Variable rstats : list N.
Variable tmin : Q.
Variable tmax : xtime.
Hypothesis Hnd : NoDup (gnodes g).
Hypothesis rate_nonneg : forall st u, 0 <= rate st u.
Hypothesis infl_in : forall st u v, In u (gnodes g) -> In v (infl st u) -> In v (gnodes g).
Hypothesis covers : ComplexP.influence_covers g rate infl.
Hypothesis choice_in : forall st u, In (choice st u) rstats.      (* return_statuses contains every status the chooser answers *)

Lemma rows_log_rows : forall evs st,
  map (ComplexP.row_of g rstats) (ComplexP.statuses choice st evs) =
  log_rows (gnodes g) rstats st (ComplexExec.ev_elog choice st evs).
Proof.
  induction evs as [|e evs IH]; intro st; [reflexivity|].
  cbn [ComplexP.statuses map ComplexExec.ev_elog log_rows]. rewrite IH. reflexivity.
Qed.

Lemma clog_nodes_statuses : forall st t evs st' t', ComplexExec.clog g rate choice tmax st t evs st' t' ->
  forallb (fun e => mem (ev_u e) (gnodes g) && mem (ev_s e) rstats) (ComplexExec.ev_elog choice st evs) = true.
Proof.
  intros st t evs st' t' H. induction H as [|st t t1 u l st' t' Ht Hx Hu Hr Hl IH]; [reflexivity|].
  cbn [ComplexExec.ev_elog forallb fst snd]. rewrite IH, andb_true_r. cbn [ev_u ev_s fst snd].
  rewrite (proj2 (mem_In _ _) Hu), (proj2 (mem_In _ _) (choice_in st u)). reflexivity.
Qed.

Lemma legalb_all : forall ps h, forallb (fun x : Q * N => mem (snd x) ps) h = true -> legalb (list_prod ps ps) h = true.
Proof.
  intros ps h. induction h as [|a r IH]; intro H; [reflexivity|]. destruct r as [|b r']; [reflexivity|].
  cbn [forallb] in H. apply andb_true_iff in H. destruct H as [Ha Hr].
  change (legalb (list_prod ps ps) (a :: b :: r')) with (move_ok (list_prod ps ps) (snd a) (snd b) && legalb (list_prod ps ps) (b :: r')).
  rewrite (IH Hr), andb_true_r. unfold move_ok. apply existsb_exists. exists (snd a, snd b). split.
  - apply in_prod; apply mem_In; [exact Ha|]. cbn [forallb] in Hr. apply andb_true_iff in Hr. exact (proj1 Hr).
  - cbn [fst snd]. rewrite !N.eqb_refl. reflexivity.
Qed.

Theorem complex_summary_equals_arrays : forall (ic : node -> option N) fuel ds out tr,
  (forall u, In u (gnodes g) -> ic u <> None) ->
  exec (Complex.complex g rate choice infl rstats tmin tmax true ic fuel) ds [] = (Ok out, tr) ->
  let st0 := fun u => match ic u with Some s => s | None => 0%N end in
  exists (evs : list (Q * node)) (fd : fulldata),
    let log := ComplexExec.ev_elog choice st0 evs in
    so_full (fst out) = Some fd /\
    fd_hist fd = iv_hist (log_inv (gnodes g) rstats tmin st0 log) /\
    so_rows (fst out) = log_arrays (gnodes g) rstats tmin st0 log /\
    (gnodes g <> [] -> (forall u, In u (gnodes g) -> In (st0 u) rstats) -> increasing tmin log = true ->
       summary (mkInv (gnodes g) (fd_hist fd) None (Some rstats)) None = Ok (so_rows (fst out)) /\
       consistent_b (mkInv (gnodes g) (fd_hist fd) None (Some rstats)) (so_rows (fst out)) tmin (ComplexExecChk.all_moves rstats) = true).
Proof.
  intros ic fuel ds out tr Hic Hex st0.
  destruct (ComplexExec.complex_exec_output g rate choice infl rstats tmin tmax true Hnd rate_nonneg infl_in covers ic fuel ds out tr Hic Hex)
    as [evs [st' [t' [Hlog [Hrows [_ Hfull]]]]]].
  fold st0 in Hlog, Hrows, Hfull.
  exists evs. eexists. cbn zeta. split; [exact Hfull|]. cbn [fd_hist]. split; [reflexivity|].
  assert (Earr : so_rows (fst out) = log_arrays (gnodes g) rstats tmin st0 (ComplexExec.ev_elog choice st0 evs)).
  { rewrite Hrows. unfold log_arrays. rewrite rows_log_rows. reflexivity. }
  split; [exact Earr|].
  intros Hne Hst0 Hinc.
  pose proof (clog_nodes_statuses st0 tmin evs st' t' Hlog) as Hns.
  set (log := ComplexExec.ev_elog choice st0 evs) in *.
  assert (Hok : log_okb (gnodes g) rstats tmin st0 log = true).
  { unfold log_okb. rewrite Hinc, Hns. cbn [andb].
    assert (E : forallb (fun u => mem (st0 u) rstats) (gnodes g) = true).
    { apply forallb_forall. intros u Hu. apply mem_In. apply Hst0. exact Hu. }
    rewrite E. cbn [andb]. destruct (gnodes g); [contradiction Hne; reflexivity|reflexivity]. }
  pose proof (log_lemma (gnodes g) rstats tmin st0 log Hok) as LL.
  change (mkInv (gnodes g) (map (fun u => (u, (tmin, st0 u) :: node_events u log)) (gnodes g)) None (Some rstats))
    with (log_inv (gnodes g) rstats tmin st0 log).
  rewrite Earr. split; [exact LL|].
  unfold consistent_b, consistent. cbn [possible_statuses log_inv iv_ps iv_nodes].
  rewrite first_bad_hist_all'.
  2:{ intros u Hu. exists (project tmin st0 log u). split; [apply log_hist_of; exact Hu|].
      assert (Hw : wf_histb rstats tmin (project tmin st0 log u) = true).
      { unfold wf_histb. rewrite project_eq. cbn [fst].
        rewrite (proj2 (qeqb_t tmin tmin) (Qeq_refl _)). cbn [andb].
        pose proof (project_sorted tmin st0 u log Hinc) as Hso. rewrite project_eq in Hso. rewrite Hso. cbn [andb].
        cbn [forallb snd]. rewrite (proj2 (mem_In _ _) (Hst0 u Hu)). cbn [andb].
        apply forallb_forall. intros x Hx. apply in_map_iff in Hx. destruct Hx as [e [Ex He]]. apply filter_In in He.
        destruct He as [He _]. subst x. cbn [pe snd].
        pose proof Hns as K. rewrite forallb_forall in K. specialize (K e He). apply andb_true_iff in K. exact (proj2 K). }
      unfold good_histb. rewrite Hw. cbn [andb]. apply legalb_all.
      unfold wf_histb in Hw. rewrite project_eq in *. apply andb_true_iff in Hw. exact (proj2 Hw). }
  match goal with |- context [summary ?iv None] => change (summary iv None) with (summary (log_inv (gnodes g) rstats tmin st0 log) None) end. rewrite LL.
  unfold first_diff. rewrite find_none_all'; [reflexivity|].
  intros t0 _. apply negb_false_iff. apply opt_eqb_refl.
Qed.

End CX.
