(* C10 for Gillespie_simple_contagion: the node histories of the full-data object are the
   per-node projections of ONE event log and the rows are its running counts (one count per
   return status); by the generic log lemma of Proofs/InvestigationP.v the summary() of the
   histories therefore equals the arrays whenever the event times are strictly increasing and
   return_statuses covers; and the decidable checker [consistent_b] of Model/Investigation.v
   accepts every such run (histories start at tmin, ordered, possible statuses, legal moves of
   the specification; summary = arrays as step functions). *)
From EoNV Require Import Prelude Samp Graph ListDict ListDictP Gillespie KldP GillespieInv SampP Simple SimpleP
  SimpleExecS SimpleExec SimpleExecLog SimpleExecTop SimpleExecChk.
From EoNV Require Import Investigation InvestigationP.
From Coq Require Import Permutation Lqa.

Lemma ev_rows_log_rows : forall g rstat evs st,
  ev_rows g rstat st evs = log_rows (gnodes g) rstat st (map ev3 evs).
Proof.
  intros g rstat. induction evs as [|e evs IH]; intro st; [reflexivity|].
  cbn [ev_rows map log_rows]. rewrite IH. reflexivity.
Qed.

Lemma hists_of_log_inv : forall g rstat ic tmin evs,
  hists_of g ic tmin evs = iv_hist (log_inv (gnodes g) rstat tmin ic (map ev3 evs)).
Proof. reflexivity. Qed.

Lemma first_bad_hist_all' : forall iv ps mv tmin l,
  (forall u, In u l -> exists h, Investigation.hist_of iv u = Ok h /\ good_histb ps mv tmin h = true) ->
  first_bad_hist iv ps mv tmin l = None.
Proof.
  intros iv ps mv tmin l. induction l as [|u l IH]; intros H; [reflexivity|]. cbn [first_bad_hist].
  destruct (H u (or_introl eq_refl)) as [h [Eh G]]. rewrite Eh, G. apply IH. intros v Hv. apply H. right. exact Hv.
Qed.

Lemma find_none_all' : forall A (f : A -> bool) l, (forall x, In x l -> f x = false) -> find f l = None.
Proof.
  intros A f l. induction l as [|a l IH]; intro H; [reflexivity|]. cbn [find].
  rewrite (H a (or_introl eq_refl)). apply IH. intros x Hx. apply H. right. exact Hx.
Qed.

Lemma opt_eqb_refl : forall a, opt_eqb a a = true.
Proof. intros [x|]; [apply zlist_eqb_refl|reflexivity]. Qed.

Section C10.
Variable g : graph.
Hypothesis Hg : wfg2 g.
Variables H J : list trans.
Variable rstat : list N.
Variable tmax : xtime.

(* every node's history only makes moves of the specification *)
Lemma glog_legalb : forall st t evs st' t', glog g H J tmax st t evs st' t' ->
  forall u t0, legalb (moves_of H J) ((t0, st u) :: map pe (filter (of_node u) (map ev3 evs))) = true.
Proof.
  intros st t evs st' t' Hl. induction Hl as [|st t e l st' t' Hleg Ht Hx Hr IH]; intros u t0; [reflexivity|].
  cbn [map filter]. unfold of_node at 1. unfold ev3 at 1. cbn [ev_u fst snd].
  destruct (N.eqb_spec (ge_node e) u) as [E|E].
  - cbn [map]. unfold pe at 1. cbn [ev_t ev_s fst snd].
    change (legalb (moves_of H J) ((t0, st u) :: (ge_t e, ge_new e) :: ?r))
      with (move_ok (moves_of H J) (st u) (ge_new e) && legalb (moves_of H J) ((ge_t e, ge_new e) :: r)).
    apply andb_true_iff. split.
    + pose proof (legal_move_in g H J st e Hleg) as Hin. destruct Hleg as [_ [Hold _]]. subst u. rewrite Hold.
      unfold move_ok. apply existsb_exists. exists (ge_old e, ge_new e). split; [exact Hin|].
      cbn [fst snd]. rewrite !N.eqb_refl. reflexivity.
    + specialize (IH u (ge_t e)). subst u. rewrite fupdN_same in IH. exact IH.
  - specialize (IH u t0). rewrite fupdN_other in IH by (intro K; apply E; symmetry; exact K). exact IH.
Qed.

Lemma glog_nodes_statuses : forall st t evs st' t', glog g H J tmax st t evs st' t' ->
  (forall tr, In tr H -> In (hd_status (tr_to tr)) rstat) -> (forall tr, In tr J -> In (snd_status (tr_to tr)) rstat) ->
  forallb (fun e => mem (ev_u e) (gnodes g) && mem (ev_s e) rstat) (map ev3 evs) = true.
Proof.
  intros st t evs st' t' Hl H1 H2. induction Hl as [|st t e l st' t' Hleg Ht Hx Hr IH]; [reflexivity|].
  cbn [map forallb]. rewrite IH, andb_true_r. unfold ev3. cbn [ev_u ev_s fst snd].
  destruct Hleg as [Hm [_ Hleg]]. rewrite (proj2 (mem_In _ _) Hm). cbn [andb]. apply mem_In.
  destruct (ge_src e) as [w|].
  - destruct Hleg as [_ [_ [tr [Hin [_ [_ E]]]]]]. rewrite <- E. apply H2. exact Hin.
  - destruct Hleg as [tr [Hin [_ [_ E]]]]. rewrite <- E. apply H1. exact Hin.
Qed.

End C10.

(* the main statement: every returning full-data run, every draw script *)
Theorem simple_summary_equals_arrays :
  forall g (Hg : wfg2 g) ic rstat tmin tmax sortable spont induced fuel ds out tr,
  Forall (sp_tr_ok g) spont -> Forall (in_tr_ok g) induced ->
  exec (simple g sortable spont induced ic rstat tmin tmax true fuel) ds [] = (Ok out, tr) ->
  exists (evs : list gev) (fd : fulldata),
    so_full out = Some fd /\
    fd_hist fd = iv_hist (log_inv (gnodes g) rstat tmin ic (map ev3 evs)) /\
    so_rows out = log_arrays (gnodes g) rstat tmin ic (map ev3 evs) /\
    (covered g ic rstat spont induced -> increasing tmin (map ev3 evs) = true ->
       summary (mkInv (gnodes g) (fd_hist fd) None (Some rstat)) None = Ok (so_rows out) /\
       consistent_b (mkInv (gnodes g) (fd_hist fd) None (Some rstat)) (so_rows out) tmin (moves_of spont induced) = true).
Proof.
  intros g Hg ic rstat tmin tmax sortable spont induced fuel ds out tr Hsp Hin Hex.
  destruct (simple_exec_output g Hg ic rstat tmin tmax true sortable spont induced fuel ds out tr Hsp Hin Hex)
    as [evs [st' [t' [Hlog [Hrows Hfull]]]]].
  exists evs. eexists. split; [exact Hfull|]. cbn [fd_hist].
  split; [reflexivity|]. split.
  { rewrite Hrows. unfold log_arrays, row0. rewrite ev_rows_log_rows. reflexivity. }
  intros [Hne [Hic [C1 C2]]] Hinc.
  pose proof (glog_nodes_statuses g spont induced rstat tmax ic tmin evs st' t' Hlog C1 C2) as Hns.
  set (log := map ev3 evs) in *.
  assert (Hok : log_okb (gnodes g) rstat tmin ic log = true).
  { unfold log_okb. rewrite Hinc. cbn [andb].
    rewrite Hns. cbn [andb].
    assert (E : forallb (fun u => mem (ic u) rstat) (gnodes g) = true).
    { apply forallb_forall. intros u Hu. apply mem_In. apply Hic. exact Hu. }
    rewrite E. cbn [andb]. destruct (gnodes g); [contradiction Hne; reflexivity|reflexivity]. }
  pose proof (log_lemma (gnodes g) rstat tmin ic log Hok) as LL.
  assert (Earr : so_rows out = log_arrays (gnodes g) rstat tmin ic log).
  { rewrite Hrows. unfold log_arrays, row0. rewrite ev_rows_log_rows. reflexivity. }
  change (mkInv (gnodes g) (map (fun u => (u, (tmin, ic u) :: node_events u log)) (gnodes g)) None (Some rstat))
    with (log_inv (gnodes g) rstat tmin ic log).
  rewrite Earr. split; [exact LL|].
  unfold consistent_b, consistent. cbn [possible_statuses log_inv iv_ps iv_nodes].
  rewrite first_bad_hist_all'.
  2:{ intros u Hu. exists (project tmin ic log u). split; [apply log_hist_of; exact Hu|].
      unfold good_histb. apply andb_true_iff. split.
      - unfold wf_histb. rewrite project_eq. cbn [fst].
        rewrite (proj2 (qeqb_t tmin tmin) (Qeq_refl _)). cbn [andb].
        pose proof (project_sorted tmin ic u log Hinc) as Hso. rewrite project_eq in Hso. rewrite Hso. cbn [andb].
        cbn [forallb snd]. rewrite (proj2 (mem_In _ _) (Hic u Hu)). cbn [andb].
        apply forallb_forall. intros x Hx. apply in_map_iff in Hx. destruct Hx as [e [Ex He]]. apply filter_In in He.
        destruct He as [He _]. subst x. cbn [pe snd].
        pose proof Hns as K. rewrite forallb_forall in K. specialize (K e He). apply andb_true_iff in K. exact (proj2 K).
      - rewrite project_eq. apply (glog_legalb g spont induced tmax ic tmin evs st' t' Hlog u tmin). }
  fold (log_inv (gnodes g) rstat tmin ic log). rewrite LL.
  unfold first_diff. rewrite find_none_all'; [reflexivity|].
  intros t0 _. apply negb_false_iff. apply opt_eqb_refl.
Qed.
