(* C08, tree exactness of SIR_pair_based: the parts that hold on EVERY graph.

     marg_layout        the accessors of the pair-based code applied to `marginals p` are the marginals
     closure_of_product p >= 0 and  <A_i S_j B_k> <S_j> = <A_i S_j> <S_j B_k>  give the closure in the code's
                        solved form (multiplication by inv0 <S_j>, i.e. 0 when <S_j> = 0)
     closed_eq_open     wherever the closure holds at p, _dSIR_pair_based_ at the marginals of p equals the
                        exact unclosed moment system `open_rhs p` (Model/Master.v)
     inM_residual0      on M_{j,U} every sum of minors vanishes
   Everything over Q, closed under the global context. *)
From EoNV Require Import Prelude Vec VecP Graph Rhs2D Rhs2DP Rhs2 Rhs2GenP Master.
From Coq Require Import Lqa Setoid Morphisms.

Lemma inv0_z v : v == 0 -> inv0 v == 0.
Proof.
  intros H. unfold inv0, Qeqb. destruct (Qeq_bool v 0) eqn:E; [reflexivity|].
  apply Qeq_bool_neq in E. contradiction.
Qed.

Section General.
Variables (G : graph) (nodelist : list node) (idx : node -> nat) (tr : node -> node -> Q) (rc : node -> Q).
Notation n_ := (nN nodelist).
Notation nd := (node_at nodelist).
Notation edge := (is_edge G nodelist).
Notation marg := (marginals G nodelist).
Notation P := (prob nodelist).

(* ---------------- layout ---------------- *)
Lemma layout4 (fX fY : nat -> Q) (fXY fXX : nat -> nat -> Q) i j : (i < n_)%nat -> (j < n_)%nat ->
  let D := tab n_ fX ++ tab n_ fY ++ tab2 n_ n_ fXY ++ tab2 n_ n_ fXX in
  prX D i = fX i /\ prY nodelist D i = fY i /\ prXY nodelist D i j = fXY i j /\ prXX nodelist D i j = fXX i j.
Proof.
  intros Hi Hj D. unfold D, prX, prY, prXY, prXX, vnth. repeat split.
  - rewrite nth_app_lt by (rewrite tab_length; exact Hi). apply nth_tab. exact Hi.
  - rewrite nth_app_at by apply tab_length. rewrite nth_app_lt by (rewrite tab_length; exact Hi). apply nth_tab. exact Hi.
  - replace (2 * n_ + i * n_ + j)%nat with (n_ + (n_ + (i * n_ + j)))%nat by lia.
    rewrite !nth_app_at by apply tab_length.
    rewrite nth_app_lt by (rewrite tab2_length; nia). apply nth_tab2; assumption.
  - replace (2 * n_ + n_ * n_ + i * n_ + j)%nat with (n_ + (n_ + (n_ * n_ + (i * n_ + j))))%nat by lia.
    rewrite !nth_app_at by apply tab_length. rewrite nth_app_at by apply tab2_length. apply nth_tab2; assumption.
Qed.
Lemma marg_layout p i j : (i < n_)%nat -> (j < n_)%nat ->
  prX (marg p) i = mX nodelist p i /\ prY nodelist (marg p) i = mY nodelist p i /\
  prXY nodelist (marg p) i j = mXY G nodelist p i j /\ prXX nodelist (marg p) i j = mXX G nodelist p i j.
Proof. intros Hi Hj. apply (layout4 _ _ _ _ i j Hi Hj). Qed.

(* ---------------- probabilities of events ---------------- *)
Definition nonneg (p : state -> Q) : Prop := forall s, In s (all_states n_) -> 0 <= p s.

Lemma prob_ext p c c' : (forall s, c s = c' s) -> P p c == P p c'.
Proof. intros H. unfold prob. apply sum_map_ext. intros s _. rewrite H. reflexivity. Qed.
Lemma prob_nonneg p c : nonneg p -> 0 <= P p c.
Proof.
  intros Hp. unfold prob. apply sum_map_nonneg. intros s Hs. destruct (c s); [apply Hp; exact Hs|apply Qle_refl].
Qed.
Lemma prob_mono p c c' : nonneg p -> (forall s, c s = true -> c' s = true) -> P p c <= P p c'.
Proof.
  intros Hp Hc. unfold prob. unfold nonneg in Hp. revert Hp. generalize (all_states n_) as l.
  induction l as [|s l IH]; intros Hp; cbn [map]; rewrite ?sumQ_cons, ?sumQ_nil; [apply Qle_refl|].
  assert (H1 : (if c s then p s else 0) <= (if c' s then p s else 0)).
  { destruct (c s) eqn:E; [rewrite (Hc s E); apply Qle_refl|]. destruct (c' s); [apply Hp; left; reflexivity|apply Qle_refl]. }
  assert (H2 := IH (fun s' Hs' => Hp s' (or_intror Hs'))). lra.
Qed.
Lemma m2_comm p a i b j : m2 nodelist p a i b j == m2 nodelist p b j a i.
Proof. unfold m2. apply prob_ext. intros s. apply andb_comm. Qed.

(* the closure, in the solved form the code uses, from its polynomial form and p >= 0 *)
Lemma closure_of_product p a i j b k : nonneg p ->
  m3 nodelist p a i stS j b k * mX nodelist p j == m2 nodelist p a i stS j * m2 nodelist p stS j b k ->
  closure_at nodelist p a i j b k.
Proof.
  intros Hp H. unfold closure_at. destruct (Qeq_dec (mX nodelist p j) 0) as [E|E].
  - rewrite (inv0_z _ E).
    assert (H0 : 0 <= m3 nodelist p a i stS j b k) by (apply prob_nonneg; exact Hp).
    assert (H1 : m3 nodelist p a i stS j b k <= mX nodelist p j).
    { unfold m3, mX, m1. apply prob_mono; [exact Hp|]. intros s Hs.
      apply andb_prop in Hs. destruct Hs as [Hs _]. apply andb_prop in Hs. apply Hs. }
    rewrite E in H1. assert (Hz : m3 nodelist p a i stS j b k == 0) by (apply Qle_antisym; assumption).
    rewrite Hz. ring.
  - rewrite (inv0_nz _ E). rewrite <- H. field. exact E.
Qed.

(* on M every sum of minors vanishes *)
Lemma inM_residual0 j U p a i b k : inM nodelist j U p -> residual nodelist j U p a i b k == 0.
Proof.
  intros HM. unfold residual. apply sum_map_zero. intros s1 H1.
  destruct (is1 i a s1 && is1 k b s1)%bool; [|reflexivity].
  apply sum_map_zero. intros s2 H2. apply HM; assumption.
Qed.

(* ---------------- closed system = open system where the closure holds ---------------- *)
Hypothesis W : pb_wfb G nodelist idx = true.

Lemma nbr_edge i w : (i < n_)%nat -> In w (gadj G (nd i)) -> (idx w < n_)%nat /\ edge i (idx w) = true.
Proof.
  intros Hi Hw. destruct (pb_wf_spec _ _ _ W) as [_ H]. destruct (H i Hi) as [_ [_ H3]].
  destruct (H3 w Hw) as [A B]. split; [exact A|]. unfold is_edge. rewrite B. apply mem_In. exact Hw.
Qed.

(* the hypotheses: for every edge (i, j) and every further neighbour w of j (resp. of i) the closure holds *)
Definition closure_on_paths (p : state -> Q) : Prop :=
  forall i j, (i < n_)%nat -> (j < n_)%nat -> edge i j = true ->
    (forall w, In w (others (nd i) (gadj G (nd j))) -> closure_at nodelist p stS i j stI (idx w)) /\
    (forall w, In w (others (nd j) (gadj G (nd i))) ->
       closure_at nodelist p stI (idx w) i stI j /\ closure_at nodelist p stI (idx w) i stS j).

Lemma closed_eq_open p t : closure_on_paths p ->
  veq (dSIR_pair_based G nodelist idx tr rc (marg p) t) (open_rhs G nodelist idx tr rc p).
Proof.
  intros HC. unfold dSIR_pair_based, open_rhs.
  apply veq_app; [reflexivity|]. apply veq_app; [reflexivity|]. apply veq_app.
  - apply veq_tab2. intros i j Hi Hj. unfold pbSIR_dXY, open_dXY. cbv zeta.
    destruct (edge i j) eqn:Eij; [|reflexivity].
    destruct (HC i j Hi Hj Eij) as [Hin Hout].
    destruct (marg_layout p i j Hi Hj) as [_ [_ [EXY _]]]. rewrite EXY.
    assert (Tin : triples_in G nodelist idx tr (fun k => inv0 (prX (marg p) k)) (prXY nodelist (marg p)) (prXX nodelist (marg p)) i j
                  == open_in G nodelist idx tr p i j).
    { unfold triples_in, open_in. cbv zeta. apply sum_map_ext. intros w Hw.
      destruct (nbr_edge j w Hj (others_In _ _ _ Hw)) as [Hk Ejk].
      destruct (marg_layout p i j Hi Hj) as [_ [_ [_ EXX]]].
      destruct (marg_layout p j (idx w) Hj Hk) as [EX [_ [EXY' _]]].
      rewrite EXX, EXY', EX. unfold mXX, mXY. rewrite Eij, Ejk.
      pose proof (Hin w Hw) as Hc. unfold closure_at in Hc. rewrite Hc. ring. }
    assert (Tout : triples_out G nodelist idx tr (fun k => inv0 (prX (marg p) k)) (prXY nodelist (marg p)) (prXY nodelist (marg p)) i j
                  == open_out G nodelist idx tr p stI i j).
    { unfold triples_out, open_out. cbv zeta. apply sum_map_ext. intros w Hw.
      destruct (nbr_edge i w Hi (others_In _ _ _ Hw)) as [Hk Eik].
      destruct (marg_layout p i (idx w) Hi Hk) as [EX [_ [EXY' _]]].
      rewrite EXY', EXY, EX. unfold mXY. rewrite Eij, Eik.
      destruct (Hout w Hw) as [HI _]. unfold closure_at in HI. rewrite HI. rewrite (m2_comm p stI (idx w) stS i). ring. }
    rewrite Tin, Tout. reflexivity.
  - apply veq_tab2. intros i j Hi Hj. unfold pbSIR_dXX, open_dXX. cbv zeta.
    destruct (edge i j) eqn:Eij; [|reflexivity].
    destruct (HC i j Hi Hj Eij) as [Hin Hout].
    destruct (marg_layout p i j Hi Hj) as [_ [_ [EXY EXX]]].
    assert (Tin : triples_in G nodelist idx tr (fun k => inv0 (prX (marg p) k)) (prXY nodelist (marg p)) (prXX nodelist (marg p)) i j
                  == open_in G nodelist idx tr p i j).
    { unfold triples_in, open_in. cbv zeta. apply sum_map_ext. intros w Hw.
      destruct (nbr_edge j w Hj (others_In _ _ _ Hw)) as [Hk Ejk].
      destruct (marg_layout p j (idx w) Hj Hk) as [EX [_ [EXY' _]]].
      rewrite EXX, EXY', EX. unfold mXX, mXY. rewrite Eij, Ejk.
      pose proof (Hin w Hw) as Hc. unfold closure_at in Hc. rewrite Hc. ring. }
    assert (Tout : triples_out G nodelist idx tr (fun k => inv0 (prX (marg p) k)) (prXY nodelist (marg p)) (prXX nodelist (marg p)) i j
                  == open_out G nodelist idx tr p stS i j).
    { unfold triples_out, open_out. cbv zeta. apply sum_map_ext. intros w Hw.
      destruct (nbr_edge i w Hi (others_In _ _ _ Hw)) as [Hk Eik].
      destruct (marg_layout p i (idx w) Hi Hk) as [EX [_ [EXY' _]]].
      rewrite EXY', EXX, EX. unfold mXY, mXX. rewrite Eij, Eik.
      destruct (Hout w Hw) as [_ HS]. unfold closure_at in HS. rewrite HS. rewrite (m2_comm p stI (idx w) stS i). ring. }
    rewrite Tin, Tout. reflexivity.
Qed.
End General.
