(* C08, tree exactness: (1) + (2) + (3) assembled for the path on 3 nodes, the path on 4 nodes and the 3-star. *)
From EoNV Require Import Prelude Vec VecP Graph Rhs2D Rhs2DP Rhs2 Rhs2GenP Master C08tG C08tS C08tT C08tP3 C08tP4.
From Coq Require Import Lqa.

Lemma delta_nonneg nodelist s0 : nonneg nodelist (delta s0).
Proof. intros s _. unfold delta. destruct (state_eqb s s0); lra. Qed.
Lemma product_nonneg nodelist w : (forall i a, 0 <= w i a) -> nonneg nodelist (product nodelist w).
Proof.
  intros Hw s _. unfold product. generalize (seq 0 (nN nodelist)) as l. induction l as [|k l IH]; cbn [map fold_right]; [lra|].
  apply Qmult_le_0_compat; [apply Hw|exact IH].
Qed.

Lemma pure_in_M nodelist j U s0 : length s0 = nN nodelist ->
  nonneg nodelist (delta s0) /\ inM nodelist j U (delta s0).
Proof. intros H. split; [apply delta_nonneg|apply delta_in_M; exact H]. Qed.
Lemma product_form_in_M nodelist j U (w : nat -> N -> Q) : (forall i a, 0 <= w i a) ->
  nonneg nodelist (product nodelist w) /\ inM nodelist j U (product nodelist w).
Proof. intros H. split; [apply product_nonneg; exact H|apply product_in_M]. Qed.
Lemma expansion_stays_in_slice nodelist j s i : (j < nN nodelist)%nat -> (i < nN nodelist)%nat ->
  In s (slice nodelist j) -> In (prev s i) (slice nodelist j).
Proof. intros Hj Hi. apply prev_in_slice; assumption. Qed.

Lemma len3 s0 : In s0 (all_states 3) -> length s0 = nN (nodes_upto 3).
Proof. intros H. apply in_all_states in H. apply H. Qed.
Lemma len4 s0 : In s0 (all_states 4) -> length s0 = nN (nodes_upto 4).
Proof. intros H. apply in_all_states in H. apply H. Qed.

Section Assembled.
Variables (tr : node -> node -> Q) (rc : node -> Q).

Theorem path3_pure_ic s0 : In s0 (all_states 3) ->
  let M := inM nl3 1 (only 0) in
  let master := master_rhs path3 nl3 idx_of tr rc in
  (nonneg nl3 (delta s0) /\ M (delta s0)) /\
  (forall p, M p -> forall s1 s2, In s1 (slice nl3 1) -> In s2 (slice nl3 1) -> dminor nl3 (only 0) p (master p) s1 s2 == 0) /\
  (forall p t, nonneg nl3 p -> M p ->
     veq (g_dSIR_pair_based (marginals path3 nl3 p) t path3 nl3 idx_of tr rc) (marginals path3 nl3 (master p))).
Proof.
  intros H0. cbv zeta. split; [|split].
  - split; [apply delta_nonneg|]. apply delta_in_M. apply len3. exact H0.
  - intros p HM s1 s2 H1 H2. apply (tangent path3 nl3 idx_of tr rc p3_wf 1 (only 0)); try assumption; [cbv; lia|exact p3_sep].
  - intros p t Hp HM. apply p3_exact_on_M_generated; assumption.
Qed.

Theorem path4_pure_ic s0 : In s0 (all_states 4) ->
  let master := master_rhs path4 nl4 idx_of tr rc in
  (nonneg nl4 (delta s0) /\ p4_M (delta s0)) /\
  (forall p, p4_M p ->
     (forall s1 s2, In s1 (slice nl4 1) -> In s2 (slice nl4 1) -> dminor nl4 (only 0) p (master p) s1 s2 == 0) /\
     (forall s1 s2, In s1 (slice nl4 2) -> In s2 (slice nl4 2) -> dminor nl4 (upto 1) p (master p) s1 s2 == 0)) /\
  (forall p t, nonneg nl4 p -> p4_M p ->
     veq (g_dSIR_pair_based (marginals path4 nl4 p) t path4 nl4 idx_of tr rc) (marginals path4 nl4 (master p))).
Proof.
  intros H0. cbv zeta. split; [|split].
  - split; [apply delta_nonneg|]. split; apply delta_in_M; apply len4; exact H0.
  - intros p [HM1 HM2]. split; intros s1 s2 H1 H2.
    + apply (tangent path4 nl4 idx_of tr rc p4_wf 1 (only 0)); try assumption; [cbv; lia|exact p4_sep1].
    + apply (tangent path4 nl4 idx_of tr rc p4_wf 2 (upto 1)); try assumption; [cbv; lia|exact p4_sep2].
  - intros p t Hp HM. apply p4_exact_on_M_generated; assumption.
Qed.

Theorem star3_pure_ic s0 : In s0 (all_states 4) ->
  let master := master_rhs star3 nl4 idx_of tr rc in
  (nonneg nl4 (delta s0) /\ s3_M (delta s0)) /\
  (forall p, s3_M p ->
     (forall s1 s2, In s1 (slice nl4 0) -> In s2 (slice nl4 0) -> dminor nl4 (only 1) p (master p) s1 s2 == 0) /\
     (forall s1 s2, In s1 (slice nl4 0) -> In s2 (slice nl4 0) -> dminor nl4 (only 2) p (master p) s1 s2 == 0)) /\
  (forall p t, nonneg nl4 p -> s3_M p ->
     veq (g_dSIR_pair_based (marginals star3 nl4 p) t star3 nl4 idx_of tr rc) (marginals star3 nl4 (master p))).
Proof.
  intros H0. cbv zeta. split; [|split].
  - split; [apply delta_nonneg|]. split; apply delta_in_M; apply len4; exact H0.
  - intros p [HM1 HM2]. split; intros s1 s2 H1 H2.
    + apply (tangent star3 nl4 idx_of tr rc s3_wf 0 (only 1)); try assumption; [cbv; lia|exact s3_sep1].
    + apply (tangent star3 nl4 idx_of tr rc s3_wf 0 (only 2)); try assumption; [cbv; lia|exact s3_sep2].
  - intros p t Hp HM. apply s3_exact_on_M_generated; assumption.
Qed.
End Assembled.
