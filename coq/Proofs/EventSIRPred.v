(* Lemmas about Model/EventSIR.v, part 7 (DESIGN A.1 J3b): every queued transmission to a
   susceptible node w is no earlier than pred_inf_time w; hence when a node is finally infected
   pred_inf_time is its infection time (the code's comment at sim:2361), the histories built
   from pred_inf_time/rec_time contain no infinite time and the full-data branch returns. *)
From EoNV Require Import Prelude Samp Graph EventSIR EventSIRP EventSIRInv EventSIRMain.
Require Import Lqa.

Section Pred.
Variable tb : tiepolicy.
Variable g : graph.
Variable tmax : xtime.
Variable delay : node -> node -> xtime.
Variable dur : node -> xtime.
Variable tmin : Q.
Variables i0 r0 : list node.
Hypothesis Hdelay : forall u v d, In u (gnodes g) -> In v (gadj g u) -> delay u v = Some d -> 0 <= d.
Hypothesis Hdur : forall u d, In u (gnodes g) -> dur u = Some d -> 0 <= d.
Hypothesis Hadj : forall u, In u (gnodes g) -> NoDup (gadj g u).
Hypothesis Hdisj : forall u, In u i0 -> ~ In u r0.
Hypothesis Htmin : ltmax tmax tmin.

Notation INV := (Inv g tmax delay dur tmin i0 r0).

Record Inv2 (s : est) : Prop := {
  j_r0 : forall u, In u r0 -> rect s u = Some (Some tmin) /\ predt s u = None;
  j_pred : forall t sr v, In (t, sr, v) (tlog s) -> exists p, predt s v = Some (Some p) /\ p == t;
  j_q : forall e src w, In e (qu s) -> qe e = ETrans src w -> stat s w = stS ->
        exists p, predt s w = Some (Some p) /\ p <= qt e
}.

Lemma step2 : forall c s e q',
  INV c s -> Inv2 s -> qu s = e :: q' -> (forall src v, qe e = ETrans src v -> In v (gnodes g)) ->
  Inv2 (step_det tb g tmax delay dur e (set_qu s q')).
Proof.
  intros c s e q' HI H2 Hq Hg.
  assert (Hsub : forall x, In x q' -> In x (qu s)) by (intros; rewrite Hq; right; auto).
  assert (Hin_e : In e (qu s)) by (rewrite Hq; left; auto).
  unfold step_det. destruct (qe e) as [src v|u] eqn:He.
  - change (stat (set_qu s q') v) with (stat s v).
    destruct (N.eqb (stat s v) stS) eqn:E.
    + apply N.eqb_eq in E. cbv zeta. change (stat (set_qu s q')) with (stat s).
      pose proof (Hg src v eq_refl) as Hvg.
      set (t := qt e). set (s0 := set_qu s q').
      set (sus := sus_nbrs g (fupdN (stat s) v stI) v).
      set (td := det_delays delay v sus). set (rt := xadd t (dur v)).
      set (s' := apply_inf tb tmax t src v td (dur v) (det_calls v sus) s0).
      destruct (i_qtime _ _ _ _ _ _ _ _ _ HI e Hin_e) as [Hce Hlte]. fold t in Hce, Hlte.
      pose proof (i_sorted _ _ _ _ _ _ _ _ _ HI) as Hs. rewrite Hq in Hs. destruct Hs as [Hhd _]. fold t in Hhd.
      destruct (i_qjust _ _ _ _ _ _ _ _ _ HI e src v Hin_e He) as [Hvr0 _].
      assert (Hninf : ~ infd (tlog s) v).
      { intros H. apply (i_stat _ _ _ _ _ _ _ _ _ HI v Hvr0) in H. contradiction. }
      assert (Hst : stat s' = fupdN (stat s) v stI) by (unfold s'; rewrite ai_stat; reflexivity).
      assert (Htl : tlog s' = (t, src, v) :: tlog s) by (unfold s'; rewrite ai_tlog; reflexivity).
      assert (Hrc : rect s' = fupdN (rect s) v (Some rt)) by (unfold s'; rewrite ai_rect; reflexivity).
      assert (Hsus : forall w, In w sus <-> In w (gadj g v) /\ w <> v /\ stat s w = stS).
      { intros w. unfold sus. rewrite sus_nbrs_In. unfold fupdN.
        destruct (N.eqb w v) eqn:E1.
        - apply N.eqb_eq in E1. subst. split; [intros [_ H]; discriminate|intros [_ [H _]]; congruence].
        - apply N.eqb_neq in E1. tauto. }
      assert (Hnd : NoDup (map fst td)).
      { unfold td. rewrite det_delays_fst. apply (sus_nbrs_nodup g Hadj). exact Hvg. }
      pose proof (q1_In tb tmax t v td (dur v) s0) as Hq1. fold rt in Hq1.
      pose proof (ai_qu tb tmax t src v td (dur v) (det_calls v sus) s0) as Hqu. fold rt s' in Hqu.
      pose proof (ai_predt tb tmax t src v td (dur v) (det_calls v sus) s0) as Hpr. fold rt s' in Hpr.
      assert (PA : forall w, ~ In w sus -> predt s' w = predt s w).
      { intros w Hw. rewrite Hpr. apply sfold_pred_other. unfold td. rewrite det_delays_fst. auto. }
      assert (PB : forall w, In w sus -> predt s' w = new_pred tmax t rt (predt s) w (delay v w)).
      { intros w Hw. rewrite Hpr. apply sfold_pred_in; auto. unfold td. apply det_delays_In. auto. }
      assert (HnS : forall w, stat s w <> stS -> ~ In w sus).
      { intros w Hw Hin. apply Hsus in Hin. tauto. }
      constructor.
      * intros u Hu. destruct (j_r0 _ H2 u Hu) as [R1 R2].
        destruct (i_r0 _ _ _ _ _ _ _ _ _ HI u Hu) as [SR _].
        split.
        -- rewrite Hrc. rewrite fupdN_other; auto. intros ->. contradiction.
        -- rewrite PA; auto. apply HnS. rewrite SR. discriminate.
      * intros t1 sr w Hin. rewrite Htl in Hin. destruct Hin as [H|Hin].
        -- inversion H; subst t1 sr w. clear H.
           rewrite PA. 2:{ intros Hin. apply Hsus in Hin. tauto. }
           destruct (j_q _ H2 e src v Hin_e He E) as [p [Hp Hle]]. fold t in Hle.
           exists p. split; auto.
           destruct (i_j3 _ _ _ _ _ _ _ _ _ HI v p E Hp) as [x [sx [Hx [Hqx Htx]]]].
           { eapply ltmax_le; eauto. }
           rewrite Hq in Hx. destruct Hx as [<-|Hx].
           ++ fold t in Htx. lra.
           ++ specialize (Hhd x Hx). lra.
        -- assert (Hwr : ~ In w r0).
           { intros Hr. destruct (i_r0 _ _ _ _ _ _ _ _ _ HI w Hr) as [_ Hn]. apply Hn. exists t1, sr. auto. }
           assert (HwS : stat s w <> stS).
           { apply (i_stat _ _ _ _ _ _ _ _ _ HI w Hwr). exists t1, sr. auto. }
           rewrite PA; [|apply HnS; auto]. apply (j_pred _ H2 t1 sr w Hin).
      * intros x sr w Hx Hqx HwS. rewrite Hst in HwS. unfold fupdN in HwS.
        destruct (N.eqb w v) eqn:Ew; [discriminate|]. apply N.eqb_neq in Ew.
        rewrite Hqu in Hx. apply sfold_queue_new in Hx; auto.
        destruct Hx as [Hx|[w' [d [Hin [Hp Hqx']]]]].
        -- apply Hq1 in Hx. destruct Hx as [Hx|[r [_ [_ ->]]]]; [|discriminate].
           destruct (j_q _ H2 x sr w (Hsub x Hx) Hqx HwS) as [p [Hp Hle]].
           destruct (in_dec N.eq_dec w sus) as [Hws|Hws].
           ++ rewrite (PB w Hws).
              destruct (new_pred_le tmax t rt (predt s) w (delay v w) p Hp) as [y [Hy Hyp]].
              exists y. split; auto. lra.
           ++ rewrite (PA w Hws). exists p. auto.
        -- rewrite Hqx in Hqx'. inversion Hqx'; subst w' sr.
           unfold td in Hin. apply det_delays_In in Hin. destruct Hin as [Hws ->].
           rewrite (PB w Hws). destruct Hp as [Hx0 [Hle [Hlt Hmx]]].
           change (predt s0) with (predt s) in Hlt.
           unfold new_pred. rewrite Hx0, Hle, Hlt. rewrite (xltb_xleb _ _ Hmx). simpl.
           exists (qt x). split; auto. lra.
    + constructor.
      * apply (j_r0 _ H2).
      * apply (j_pred _ H2).
      * intros x sr w Hx. apply (j_q _ H2). auto.
  - constructor.
    + apply (j_r0 _ H2).
    + apply (j_pred _ H2).
    + intros x sr w Hx Hqx HwS. simpl in HwS. unfold fupdN in HwS.
      destruct (N.eqb w u); [discriminate|]. apply (j_q _ H2 x sr w); auto.
Qed.

End Pred.

Section Pred2.
Variable tb : tiepolicy.
Variable g : graph.
Variable tmax : xtime.
Variable delay : node -> node -> xtime.
Variable dur : node -> xtime.
Variable tmin : Q.
Variables i0 r0 : list node.
Hypothesis Hdelay : forall u v d, In u (gnodes g) -> In v (gadj g u) -> delay u v = Some d -> 0 <= d.
Hypothesis Hdur : forall u d, In u (gnodes g) -> dur u = Some d -> 0 <= d.
Hypothesis Hadj : forall u, In u (gnodes g) -> NoDup (gadj g u).
Hypothesis Hdisj : forall u, In u i0 -> ~ In u r0.
Hypothesis Htmin : ltmax tmax tmin.
Hypothesis Hgn : NoDup (gnodes g).
Hypothesis Hi0g : forall u, In u i0 -> In u (gnodes g).
Hypothesis Hadjg : forall u v, In u (gnodes g) -> In v (gadj g u) -> In v (gnodes g).

Notation INV := (Inv g tmax delay dur tmin i0 r0).
Notation INV2 := (Inv2 tmin r0).

Lemma init2 : INV2 (init_state tb g tmin tmax i0 r0).
Proof.
  unfold init_state. set (s0 := mkE _ _ _ _ _ _ _ _). fold (iniF tb tmax tmin i0 s0).
  destruct (iniF_spec tb tmax tmin Htmin i0 s0) as [H1 [H2 [H3 [H4 [_ [_ [H7 _]]]]]]].
  constructor.
  - intros u Hu. split.
    + rewrite H2. simpl. rewrite set_all_spec. apply mem_In in Hu. rewrite Hu. reflexivity.
    + rewrite H4. simpl. destruct (mem u i0) eqn:E; auto. apply mem_In in E. exfalso. eapply Hdisj; eauto.
  - intros t sr v Hin. rewrite H3 in Hin. destruct Hin.
  - intros x src w Hx Hq _. apply H7 in Hx. destruct Hx as [[]|[Ht [u [Hu Hq']]]].
    rewrite Hq in Hq'. injection Hq' as Hs Hw. rewrite Hw. exists tmin. split.
    + rewrite H4. apply mem_In in Hu. rewrite Hu. reflexivity.
    + rewrite Ht. lra.
Qed.

Lemma loop_inv2 : forall fuel s c s',
  INV c s -> INV2 s -> fuel_inv g s ->
  loop_det tb g tmax delay dur fuel s = Ok s' -> INV2 s'.
Proof.
  induction fuel as [|f IH]; intros s c s' HI H2 HF Hrun.
  - simpl in Hrun. destruct (qu s); [inversion Hrun; subst; auto|discriminate].
  - simpl in Hrun. destruct (qu s) as [|e q'] eqn:Hq; [inversion Hrun; subst; auto|].
    assert (Hg : forall src v, qe e = ETrans src v -> In v (gnodes g)).
    { intros src v He. apply (HF e src v); auto. rewrite Hq. left. auto. }
    destruct (step_fuel tb g tmax delay dur Hadj Hgn Hadjg s e q' HF Hq) as [HF' _].
    apply (IH (step_det tb g tmax delay dur e (set_qu s q')) (qt e) s'); auto.
    + apply (step_det_inv tb g tmax delay dur tmin i0 r0 Hdelay Hdur Hadj Htmin c s e q' HI Hq Hg).
    + apply (step2 tb g tmax delay dur tmin i0 r0 Hadj c s e q' HI H2 Hq Hg).
Qed.

(* no infinite time can enter a node history: the full-data branch always returns *)
Lemma all_ok_map : forall A B (f : A -> result B) l,
  (forall a, In a l -> exists b, f a = Ok b) -> exists bs, all_ok (map f l) = Ok bs.
Proof.
  induction l as [|a l IH]; intros H; simpl; [exists []; auto|].
  destruct (H a (or_introl eq_refl)) as [b Hb]. rewrite Hb. simpl.
  destruct IH as [bs Hbs]. { intros x Hx. apply H. right. auto. }
  rewrite Hbs. simpl. exists (b :: bs). auto.
Qed.

Lemma node_hist_ok : forall c s u, INV c s -> INV2 s -> exists hst, node_hist tmin s u = Ok hst.
Proof.
  intros c s u HI H2. unfold node_hist.
  assert (P1 : exists h1,
     match predt s u with
     | Some x => if negb (N.eqb (stat s u) stS)
                 then match x with Some t => Ok (hist_step tmin [(tmin, stS)] (t, stI)) | None => Err ValueErr end
                 else Ok [(tmin, stS)]
     | None => Ok [(tmin, stS)]
     end = Ok h1).
  { destruct (predt s u) as [x|] eqn:Ep; [|eexists; reflexivity].
    destruct (N.eqb (stat s u) stS) eqn:Es; simpl; [eexists; reflexivity|].
    apply N.eqb_neq in Es.
    destruct (in_dec N.eq_dec u r0) as [Hr|Hr].
    - destruct (j_r0 _ _ _ H2 u Hr) as [_ Hn]. congruence.
    - apply (i_stat _ _ _ _ _ _ _ _ _ HI u Hr) in Es. destruct Es as [t [sr Hin]].
      destruct (j_pred _ _ _ H2 t sr u Hin) as [p [Hp _]]. rewrite Ep in Hp. inversion Hp; subst.
      eexists; reflexivity. }
  destruct P1 as [h1 E1]. rewrite E1. simpl.
  destruct (rect s u) as [x|] eqn:Er; [|eexists; reflexivity].
  destruct (N.eqb (stat s u) stR) eqn:Es; [|eexists; reflexivity].
  apply N.eqb_eq in Es.
  destruct (in_dec N.eq_dec u r0) as [Hr|Hr].
  - destruct (j_r0 _ _ _ H2 u Hr) as [Hx _]. rewrite Er in Hx. inversion Hx; subst. eexists; reflexivity.
  - destruct (i_recd _ _ _ _ _ _ _ _ _ HI u Es Hr) as [t [sr [r [Hin [Hx _]]]]].
    pose proof (i_rect _ _ _ _ _ _ _ _ _ HI t sr u Hin) as Hrc. rewrite Er, Hx in Hrc.
    inversion Hrc; subst. eexists; reflexivity.
Qed.

(* fast_nonMarkov_SIR returns in BOTH return modes, and in full-data mode transmissions()
   is the log of the run while each infected node's pred_inf_time equals its infection time *)
Theorem esir_det_full : forall full fuel, (esir_fuel g i0 <= fuel)%nat ->
  exists sF o cs, esir_run tb g delay dur i0 r0 tmin tmax fuel = Ok sF /\
    esir_det tb g delay dur i0 r0 tmin tmax full fuel = Ok (o, cs) /\
    (forall t sr v, In (t, sr, v) (tlog sF) -> exists p, predt sF v = Some (Some p) /\ p == t).
Proof.
  intros full fuel Hf.
  destruct (esir_terminates tb g tmax delay dur tmin i0 r0 Hdelay Hdur Hadj Hdisj Htmin Hgn Hi0g Hadjg fuel Hf)
    as [sF [cF [Hrun [Hq [HI _]]]]].
  assert (H2 : INV2 sF).
  { unfold esir_run in Hrun. eapply (loop_inv2 fuel _ tmin sF); eauto.
    - apply (init_inv tb g tmax delay dur tmin i0 r0 Hdisj Htmin).
    - apply init2.
    - apply (init_fuel_inv tb g tmax tmin i0 r0 Htmin Hi0g). }
  unfold esir_det. rewrite Hrun. simpl. unfold finish. destruct full.
  - destruct (all_ok_map node (node * history)
                (fun u => rbind (node_hist tmin sF u) (fun hst => Ok (u, hst))) (gnodes g)) as [hs Hhs].
    { intros u _. destruct (node_hist_ok cF sF u HI H2) as [hst Hh]. rewrite Hh. simpl. eexists; reflexivity. }
    rewrite Hhs. simpl. eexists sF, _, _. split; auto. split; [reflexivity|]. apply (j_pred _ _ _ H2).
  - eexists sF, _, _. split; auto. split; [reflexivity|]. apply (j_pred _ _ _ H2).
Qed.

End Pred2.

From EoNV Require Import EventSIRChar EventSIRTop.

Theorem esir_det_full_ok : forall tb g delay dur i0 r0 tmin tmax full fuel,
  esir_okb g delay dur i0 r0 tmin tmax = true -> (esir_fuel g i0 <= fuel)%nat ->
  exists sF o cs, esir_run tb g delay dur i0 r0 tmin tmax fuel = Ok sF /\
    esir_det tb g delay dur i0 r0 tmin tmax full fuel = Ok (o, cs) /\
    (forall t sr v, In (t, sr, v) (tlog sF) -> exists p, predt sF v = Some (Some p) /\ p == t).
Proof.
  intros tb g delay dur i0 r0 tmin tmax full fuel Hok Hf.
  destruct (okb_parts g delay dur i0 r0 tmin tmax Hok) as [H1 [H2 [H3 [H4 [H5 [H6 [H7 H8]]]]]]].
  apply esir_det_full; auto.
Qed.
