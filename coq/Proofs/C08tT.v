(* C08, tree exactness, step (2): TANGENCY, for every graph and every cut vertex.

   G any graph (pb_wfb: what every caller of the pair-based code establishes), j a position, U one side of a cut
   at j (sepb).  For all p, and all joint states s1, s2 with s_j = S:

     tangent_eq    the derivative of  minor U p s1 s2  along the master equation (product rule: dminor U p (master_rhs p))
                   equals  dminor_expand U p s1 s2, an explicit linear combination -- with coefficients that do not
                   depend on p -- of minors at states of the same slice.  So the vector of minors obeys a linear
                   homogeneous ODE along every solution of the master equation;
     tangent       on M_{j,U} (all these minors vanish) the derivative of every minor vanishes: the master-equation
                   vector field is tangent to M_{j,U}.
   No nonnegativity, no normalisation, arbitrary rate functions.  Closed under the global context. *)
From EoNV Require Import Prelude Vec VecP Graph Rhs2D Rhs2DP Rhs2 Rhs2GenP Master C08tG C08tS.
From Coq Require Import Lqa Setoid Morphisms.

Lemma lin4 {A} (l : list A) (f1 f2 f3 f4 : A -> Q) (a b c d : Q) :
  sumQ (map f1 l) * a + b * sumQ (map f2 l) - sumQ (map f3 l) * c - d * sumQ (map f4 l)
  == sumQ (map (fun i => f1 i * a + b * f2 i - f3 i * c - d * f4 i) l).
Proof. induction l as [|x l IH]; cbn [map]; rewrite ?sumQ_cons, ?sumQ_nil; [ring|]. rewrite <- IH. ring. Qed.

Section Tangent.
Variables (G : graph) (nodelist : list node) (idx : node -> nat) (tr : node -> node -> Q) (rc : node -> Q).
Hypothesis W : pb_wfb G nodelist idx = true.
Variables (j : nat) (U : nat -> bool).
Notation n_ := (nN nodelist).
Notation nd := (node_at nodelist).
Notation edge := (is_edge G nodelist).
Hypothesis Hj : (j < n_)%nat.
Hypothesis Sep : sepb G nodelist j U = true.
Notation frc := (force G nodelist idx tr).
Notation mx := (mix nodelist U).
Notation mnr := (minor nodelist U).
Notation C0 := (c0 G nodelist idx tr rc).
Notation C1 := (c1 G nodelist idx tr rc).
Notation term := (master_term G nodelist idx tr rc).
Notation sl := (slice nodelist j).

Lemma term_c01 p s i : term p s i == C0 s i * p s + C1 s i * p (prev s i).
Proof. unfold master_term, c0, c1, prev. destruct (st_at s i) as [|[q|q|]]; ring. Qed.

Lemma sl_spec s : In s sl -> length s = n_ /\ Forall okst s /\ st_at s j = stS.
Proof. intros H. apply in_slice in H. destruct H as [H S]. apply in_all_states in H. tauto. Qed.

Lemma sep_spec a b : (a < n_)%nat -> (b < n_)%nat -> a <> j -> b <> j -> U a = true -> U b = false ->
  edge a b = false /\ edge b a = false.
Proof.
  intros Ha Hb Na Nb Ua Ub. unfold sepb in Sep. rewrite forallb_forall in Sep.
  assert (S1 := Sep a ltac:(apply in_seq; lia)). rewrite forallb_forall in S1.
  assert (S2 := S1 b ltac:(apply in_seq; lia)). cbv beta in S2.
  apply Nat.eqb_neq in Na, Nb. rewrite Na, Nb, Ua, Ub in S2. cbn [orb negb] in S2.
  apply andb_prop in S2. destruct S2 as [A B]. apply negb_true_iff in A, B. split; assumption.
Qed.
Lemma nbr_side i v : (i < n_)%nat -> i <> j -> In v (gadj G (nd i)) -> idx v <> j -> U (idx v) = U i.
Proof.
  intros Hi Ni Hv Nk. destruct (nbr_edge G nodelist idx W i v Hi Hv) as [Hk E].
  destruct (U i) eqn:Ui, (U (idx v)) eqn:Uk; try reflexivity; exfalso.
  - destruct (sep_spec i (idx v) Hi Hk Ni Nk Ui Uk) as [A _]. congruence.
  - destruct (sep_spec (idx v) i Hk Hi Nk Ni Uk Ui) as [_ A]. congruence.
Qed.

Lemma force_mix a b i : (i < n_)%nat -> i <> j -> st_at a j = stS -> st_at b j = stS ->
  frc (mx a b) i == frc (if U i then a else b) i.
Proof.
  intros Hi Ni Sa Sb. unfold force. apply sum_map_ext. intros v Hv.
  destruct (nbr_edge G nodelist idx W i v Hi Hv) as [Hk _].
  assert (E : is1 (idx v) stI (mx a b) = is1 (idx v) stI (if U i then a else b)).
  { unfold is1. rewrite st_at_mix by exact Hk. destruct (Nat.eq_dec (idx v) j) as [->|Nk].
    - destruct (U j), (U i); rewrite ?Sa, ?Sb; reflexivity.
    - rewrite (nbr_side i v Hi Ni Hv Nk). destruct (U i); reflexivity. }
  rewrite E. reflexivity.
Qed.
Lemma force_mix_centre a b : frc (mx a b) j + frc (mx b a) j == frc a j + frc b j.
Proof.
  unfold force. rewrite <- !sum_map_add. apply sum_map_ext. intros v Hv.
  destruct (nbr_edge G nodelist idx W j v Hj Hv) as [Hk _].
  unfold is1. rewrite !st_at_mix by exact Hk. destruct (U (idx v)); ring.
Qed.

Lemma upd_mix_l a b i x : (i < n_)%nat -> length a = n_ -> U i = true -> upd (mx a b) i x = mx (upd a i x) b.
Proof.
  intros Hi La Ui. apply state_ext; [rewrite upd_length, !mix_length; reflexivity|].
  intros k Hk. rewrite upd_length, mix_length in Hk.
  rewrite st_at_upd by (rewrite mix_length; exact Hi). rewrite !st_at_mix by exact Hk.
  rewrite st_at_upd by (rewrite La; exact Hi).
  destruct (Nat.eqb k i) eqn:E; [apply Nat.eqb_eq in E; subst k; rewrite Ui; reflexivity|reflexivity].
Qed.
Lemma upd_mix_r a b i x : (i < n_)%nat -> length b = n_ -> U i = false -> upd (mx a b) i x = mx a (upd b i x).
Proof.
  intros Hi Lb Ui. apply state_ext; [rewrite upd_length, !mix_length; reflexivity|].
  intros k Hk. rewrite upd_length, mix_length in Hk.
  rewrite st_at_upd by (rewrite mix_length; exact Hi). rewrite !st_at_mix by exact Hk.
  rewrite st_at_upd by (rewrite Lb; exact Hi).
  destruct (Nat.eqb k i) eqn:E; [apply Nat.eqb_eq in E; subst k; rewrite Ui; reflexivity|reflexivity].
Qed.
Lemma mix_upd_l a b i x : (i < n_)%nat -> length a = n_ -> U i = false -> mx (upd a i x) b = mx a b.
Proof.
  intros Hi La Ui. apply state_ext; [rewrite !mix_length; reflexivity|].
  intros k Hk. rewrite mix_length in Hk. rewrite !st_at_mix by exact Hk.
  rewrite st_at_upd by (rewrite La; exact Hi).
  destruct (Nat.eqb k i) eqn:E; [apply Nat.eqb_eq in E; subst k; rewrite Ui; reflexivity|reflexivity].
Qed.
Lemma mix_upd_r a b i x : (i < n_)%nat -> length b = n_ -> U i = true -> mx a (upd b i x) = mx a b.
Proof.
  intros Hi Lb Ui. apply state_ext; [rewrite !mix_length; reflexivity|].
  intros k Hk. rewrite mix_length in Hk. rewrite !st_at_mix by exact Hk.
  rewrite st_at_upd by (rewrite Lb; exact Hi).
  destruct (Nat.eqb k i) eqn:E; [apply Nat.eqb_eq in E; subst k; rewrite Ui; reflexivity|reflexivity].
Qed.

Lemma st_upd_other a i x : (i < n_)%nat -> length a = n_ -> i <> j -> st_at (upd a i x) j = st_at a j.
Proof.
  intros Hi La Ni. rewrite st_at_upd by (rewrite La; exact Hi).
  replace (Nat.eqb j i) with false by (symmetry; apply Nat.eqb_neq; lia). reflexivity.
Qed.

(* position i on the U side: the glued state behaves at i like its first component *)
Lemma facts_true a b i : (i < n_)%nat -> i <> j -> U i = true -> In a sl -> In b sl ->
  C0 (mx a b) i == C0 a i /\ C1 (mx a b) i == C1 a i /\ prev (mx a b) i = mx (prev a i) b /\ mx b (prev a i) = mx b a.
Proof.
  intros Hi Ni Ui Ha Hb. destruct (sl_spec a Ha) as [La [_ Sa]]. destruct (sl_spec b Hb) as [Lb [_ Sb]].
  assert (A : st_at (mx a b) i = st_at a i) by (rewrite st_at_mix by exact Hi; rewrite Ui; reflexivity).
  assert (F : frc (mx a b) i == frc a i) by (rewrite (force_mix a b i Hi Ni Sa Sb), Ui; reflexivity).
  assert (F' : frc (upd (mx a b) i stS) i == frc (upd a i stS) i).
  { rewrite (upd_mix_l a b i stS Hi La Ui).
    rewrite (force_mix (upd a i stS) b i Hi Ni); [rewrite Ui; reflexivity| |exact Sb].
    rewrite (st_upd_other a i stS Hi La Ni). exact Sa. }
  repeat split.
  - unfold c0. rewrite A. destruct (st_at a i) as [|[q|q|]]; try reflexivity. rewrite F. reflexivity.
  - unfold c1. rewrite A. destruct (st_at a i) as [|[q|q|]]; try reflexivity. exact F'.
  - unfold prev. rewrite A. destruct (st_at a i) as [|[q|q|]]; try reflexivity; apply upd_mix_l; assumption.
  - unfold prev. destruct (st_at a i) as [|[q|q|]]; try reflexivity; apply mix_upd_r; assumption.
Qed.
(* position i on the other side: like its second component *)
Lemma facts_false a b i : (i < n_)%nat -> i <> j -> U i = false -> In a sl -> In b sl ->
  C0 (mx a b) i == C0 b i /\ C1 (mx a b) i == C1 b i /\ prev (mx a b) i = mx a (prev b i) /\ mx (prev b i) a = mx b a.
Proof.
  intros Hi Ni Ui Ha Hb. destruct (sl_spec a Ha) as [La [_ Sa]]. destruct (sl_spec b Hb) as [Lb [_ Sb]].
  assert (A : st_at (mx a b) i = st_at b i) by (rewrite st_at_mix by exact Hi; rewrite Ui; reflexivity).
  assert (F : frc (mx a b) i == frc b i) by (rewrite (force_mix a b i Hi Ni Sa Sb), Ui; reflexivity).
  assert (F' : frc (upd (mx a b) i stS) i == frc (upd b i stS) i).
  { rewrite (upd_mix_r a b i stS Hi Lb Ui).
    rewrite (force_mix a (upd b i stS) i Hi Ni); [rewrite Ui; reflexivity|exact Sa|].
    rewrite (st_upd_other b i stS Hi Lb Ni). exact Sb. }
  repeat split.
  - unfold c0. rewrite A. destruct (st_at b i) as [|[q|q|]]; try reflexivity. rewrite F. reflexivity.
  - unfold c1. rewrite A. destruct (st_at b i) as [|[q|q|]]; try reflexivity. exact F'.
  - unfold prev. rewrite A. destruct (st_at b i) as [|[q|q|]]; try reflexivity; apply upd_mix_r; assumption.
  - unfold prev. destruct (st_at b i) as [|[q|q|]]; try reflexivity; apply mix_upd_l; assumption.
Qed.

(* the events at one position *)
Lemma node_tangent p s1 s2 i : (i < n_)%nat -> In s1 sl -> In s2 sl ->
  term p s1 i * p s2 + p s1 * term p s2 i - term p (mx s1 s2) i * p (mx s2 s1) - p (mx s1 s2) * term p (mx s2 s1) i
  == (C0 s1 i + C0 s2 i) * mnr p s1 s2 + C1 s1 i * mnr p (prev s1 i) s2 + C1 s2 i * mnr p s1 (prev s2 i).
Proof.
  intros Hi H1 H2. rewrite !term_c01. unfold minor.
  destruct (Nat.eq_dec i j) as [->|Ni].
  - destruct (sl_spec s1 H1) as [_ [_ S1]]. destruct (sl_spec s2 H2) as [_ [_ S2]].
    assert (S12 : st_at (mx s1 s2) j = stS) by (rewrite st_at_mix by exact Hj; destruct (U j); assumption).
    assert (S21 : st_at (mx s2 s1) j = stS) by (rewrite st_at_mix by exact Hj; destruct (U j); assumption).
    assert (F := force_mix_centre s1 s2).
    unfold c0, c1, prev. rewrite S1, S2, S12, S21. unfold stS.
    set (f12 := frc (mx s1 s2) j) in *. set (f21 := frc (mx s2 s1) j) in *.
    set (f1 := frc s1 j) in *. set (f2 := frc s2 j) in *.
    assert (E : f12 == f1 + f2 - f21) by lra. rewrite E. ring.
  - destruct (U i) eqn:Ui.
    + destruct (facts_true s1 s2 i Hi Ni Ui H1 H2) as [A0 [A1 [Ap Am]]].
      destruct (facts_true s2 s1 i Hi Ni Ui H2 H1) as [B0 [B1 [Bp Bm]]].
      rewrite A0, A1, Ap, B0, B1, Bp, Am, Bm. ring.
    + destruct (facts_false s1 s2 i Hi Ni Ui H1 H2) as [A0 [A1 [Ap Am]]].
      destruct (facts_false s2 s1 i Hi Ni Ui H2 H1) as [B0 [B1 [Bp Bm]]].
      rewrite A0, A1, Ap, B0, B1, Bp, Am, Bm. ring.
Qed.

Theorem tangent_eq p s1 s2 : In s1 sl -> In s2 sl ->
  dminor nodelist U p (master_rhs G nodelist idx tr rc p) s1 s2 == dminor_expand G nodelist idx tr rc U p s1 s2.
Proof.
  intros H1 H2. unfold dminor, master_rhs, dminor_expand. rewrite lin4.
  apply sum_map_ext. intros i Hi. apply in_seq in Hi. apply node_tangent; [lia|assumption|assumption].
Qed.

Lemma prev_in_slice s i : (i < n_)%nat -> In s sl -> In (prev s i) sl.
Proof.
  intros Hi Hs. destruct (sl_spec s Hs) as [L [O S]]. unfold prev.
  destruct (st_at s i) as [|[q|q|]] eqn:E; try exact Hs.
  all: assert (Ni : i <> j) by (intros ->; rewrite S in E; discriminate E).
  all: apply in_slice; split; [apply in_all_states; split; [rewrite upd_length; exact L|apply upd_okst; [exact O|unfold okst; auto]]|].
  all: rewrite (st_upd_other s i _ Hi L Ni); exact S.
Qed.

Theorem tangent p s1 s2 : inM nodelist j U p -> In s1 sl -> In s2 sl ->
  dminor nodelist U p (master_rhs G nodelist idx tr rc p) s1 s2 == 0.
Proof.
  intros HM H1 H2. rewrite (tangent_eq p s1 s2 H1 H2). unfold dminor_expand.
  apply sum_map_zero. intros i Hi. apply in_seq in Hi.
  rewrite (HM s1 s2 H1 H2).
  rewrite (HM (prev s1 i) s2 (prev_in_slice s1 i ltac:(lia) H1) H2).
  rewrite (HM s1 (prev s2 i) H1 (prev_in_slice s2 i ltac:(lia) H2)). ring.
Qed.
End Tangent.
