(* C14, proof side: fast_nonMarkov_SIS with deterministic rule tables, through the C13 theorem nmsis_refines
   (the model of the code returns literally the output of the plain reference agenda semantics ref_sis whenever that
   run is inside its domain: all event times distinct).  Here: the reference semantics is equivariant under a graph
   isomorphism with ANY order of every adjacency list (the neighbours' events are inserted into the agenda in another
   order; with distinct times the sorted agenda is the same), hence so is the simulator. *)
From EoNV Require Import Prelude Samp Graph EventSIS EventSISP EventSISP2 EventSISP3 C14xOut.
From Coq Require Import Permutation Lqa.

(* ====================================================================== *)
(* the agenda                                                              *)
(* ====================================================================== *)
Lemma Qltb_t a b : Qltb a b = true <-> a < b.
Proof. unfold Qltb. destruct (Qlt_le_dec a b) as [H|H]; split; intros; try assumption; try reflexivity; try discriminate. exfalso. apply (Qlt_not_le _ _ H0 H). Qed.
Lemma Qltb_f a b : Qltb a b = false <-> b <= a.
Proof. unfold Qltb. destruct (Qlt_le_dec a b) as [H|H]; split; intros; try assumption; try reflexivity; try discriminate. exfalso. apply (Qlt_not_le _ _ H H0). Qed.

Lemma ains_comm x y l : ~ fst x == fst y -> ains x (ains y l) = ains y (ains x l).
Proof.
  intros N. induction l as [|h t IH]; cbn [ains].
  - destruct (Qltb (fst x) (fst y)) eqn:A, (Qltb (fst y) (fst x)) eqn:B; try reflexivity.
    + apply Qltb_t in A. apply Qltb_t in B. lra.
    + apply Qltb_f in A. apply Qltb_f in B. exfalso. apply N. lra.
  - destruct (Qltb (fst y) (fst h)) eqn:Yh, (Qltb (fst x) (fst h)) eqn:Xh; cbn [ains]; rewrite ?Yh, ?Xh.
    + destruct (Qltb (fst x) (fst y)) eqn:A, (Qltb (fst y) (fst x)) eqn:B; try reflexivity.
      * apply Qltb_t in A. apply Qltb_t in B. lra.
      * apply Qltb_f in A. apply Qltb_f in B. exfalso. apply N. lra.
    + assert (A : Qltb (fst x) (fst y) = false) by (apply Qltb_f; apply Qltb_t in Yh; apply Qltb_f in Xh; lra).
      rewrite A. reflexivity.
    + assert (B : Qltb (fst y) (fst x) = false) by (apply Qltb_f; apply Qltb_t in Xh; apply Qltb_f in Yh; lra).
      rewrite B. reflexivity.
    + rewrite IH. reflexivity.
Qed.
Lemma forallb_ains (p : Q * aev -> bool) x l : forallb p (ains x l) = (p x && forallb p l)%bool.
Proof.
  induction l as [|h t IH]; cbn [ains forallb]; [reflexivity|].
  destruct (Qltb (fst x) (fst h)); cbn [forallb]; [reflexivity|]. rewrite IH. destruct (p x), (p h); reflexivity.
Qed.
Lemma Qeqb_sym a b : Qeqb a b = Qeqb b a.
Proof. unfold Qeqb. apply Bool.eq_iff_eq_true. rewrite !Qeq_bool_iff. split; intros H; symmetry; exact H. Qed.

Section Ref.
Variable tmax : xtime.
Notation ins := (r_insert tmax).

Definition and_ok (s : rst) (b : bool) : rst := mkR (r_stat s) (r_ord s) (r_ag s) (r_log s) (r_ok s && b).
Definition ins_all (now : Q) (s : rst) (items : list (Q * aev)) : rst :=
  fold_left (fun s x => ins now s (fst x) (snd x)) items s.

Lemma ins_ok_mono now s t a : r_ok (ins now s t a) = true -> r_ok s = true.
Proof. unfold r_insert. destruct (xlt t tmax); cbn [r_ok]; [|auto]. intros H. apply andb_true_iff in H. apply H. Qed.
Lemma ins_all_ok_mono now items : forall s, r_ok (ins_all now s items) = true -> r_ok s = true.
Proof.
  induction items as [|x l IH]; intros s H; [exact H|]. cbn [ins_all fold_left] in H. apply IH in H. apply ins_ok_mono in H. exact H.
Qed.

(* two insertions commute as soon as the run stays inside its domain (the two times differ) *)
Lemma ins_comm now s x y :
  r_ok (ins now (ins now s (fst x) (snd x)) (fst y) (snd y)) = true ->
  ins now (ins now s (fst y) (snd y)) (fst x) (snd x) = ins now (ins now s (fst x) (snd x)) (fst y) (snd y).
Proof.
  unfold r_insert. destruct (xlt (fst x) tmax) eqn:Ex, (xlt (fst y) tmax) eqn:Ey; cbn [r_stat r_ord r_ag r_log r_ok]; rewrite ?Ex, ?Ey;
    cbn [r_stat r_ord r_ag r_log r_ok]; try reflexivity.
  intros H. apply andb_true_iff in H. destruct H as [H Fy]. apply andb_true_iff in H. destruct H as [H0 Fx].
  unfold fresh in *. rewrite forallb_ains in Fy. cbn [fst] in Fy.
  apply andb_true_iff in Fy. destruct Fy as [Ny Fy]. apply andb_true_iff in Fy. destruct Fy as [Nxy Fy].
  apply andb_true_iff in Fx. destruct Fx as [Nx Fx].
  assert (NE : ~ fst x == fst y).
  { intro E. apply negb_true_iff in Nxy. unfold Qeqb in Nxy. apply (proj2 (Qeq_bool_iff _ _)) in E. rewrite E in Nxy. discriminate. }
  rewrite !forallb_ains. cbn [fst]. rewrite (Qeqb_sym (fst y) (fst x)), Nxy, Fx, Fy, Nx, Ny, H0. cbn [andb].
  rewrite <- (surjective_pairing x), <- (surjective_pairing y). rewrite (ains_comm x y _ NE). reflexivity.
Qed.

Lemma ins_all_perm now l l' : Permutation l l' -> forall s, r_ok (ins_all now s l) = true -> ins_all now s l' = ins_all now s l.
Proof.
  induction 1 as [|x l l' P IH|x y l|l l' l'' P1 IH1 P2 IH2]; intros s H.
  - reflexivity.
  - cbn [ins_all fold_left] in *. apply IH, H.
  - cbn [ins_all fold_left] in *. fold (ins_all now (ins now (ins now s (fst y) (snd y)) (fst x) (snd x)) l) in H.
    pose proof (ins_all_ok_mono now l _ H) as H1. rewrite (ins_comm now s y x H1). reflexivity.
  - rewrite <- (IH1 s H). apply IH2. rewrite (IH1 s H). exact H.
Qed.

(* and_ok commutes with insertions *)
Lemma ins_and_ok now s b t a : ins now (and_ok s b) t a = and_ok (ins now s t a) b.
Proof.
  unfold r_insert, and_ok. destruct (xlt t tmax); cbn [r_stat r_ord r_ag r_log r_ok]; [|reflexivity].
  f_equal. destruct (r_ok s), b, (fresh now t (r_ag s)); reflexivity.
Qed.
Lemma ins_all_and_ok now items : forall s b, ins_all now (and_ok s b) items = and_ok (ins_all now s items) b.
Proof.
  induction items as [|x l IH]; intros s b; [reflexivity|]. cbn [ins_all fold_left]. rewrite ins_and_ok. apply IH.
Qed.
Lemma and_ok_and_ok s b c : and_ok (and_ok s b) c = and_ok s (b && c).
Proof. unfold and_ok. cbn [r_stat r_ord r_ag r_log r_ok]. f_equal. symmetry. apply andb_assoc. Qed.
Lemma ins_all_app now a b s : ins_all now s (a ++ b) = ins_all now (ins_all now s a) b.
Proof. unfold ins_all. apply fold_left_app. Qed.
End Ref.

(* ====================================================================== *)
(* r_infect: the insertions of one infection, flattened                    *)
(* ====================================================================== *)
Section Flat.
Variables (g : graph) (dur : node -> nat -> Q) (delays : node -> node -> nat -> list Q) (tmax : xtime).
Notation ins := (r_insert tmax).

Lemma and_ok_true s : and_ok s true = s.
Proof. destruct s as [a b c d e]. unfold and_ok. cbn. rewrite andb_true_r. reflexivity. Qed.
Definition items_of (time : Q) (v : node) (k : nat) (w : node) : list (Q * aev) :=
  map (fun d => (tadd time d, AAtt v w)) (delays v w k).
Definition flat_items (time : Q) (v : node) (k : nat) (ws : list node) : list (Q * aev) := flat_map (items_of time v k) ws.
Definition asc_all (v : node) (k : nat) (ws : list node) : bool := forallb (fun w => ascending (delays v w k)) ws.

Lemma fold_ins_map (time : Q) (v w : node) dl s :
  fold_left (fun s d => ins time s (tadd time d) (AAtt v w)) dl s = ins_all tmax time s (map (fun d => (tadd time d, AAtt v w)) dl).
Proof. revert s. induction dl as [|d dl IH]; intros s; [reflexivity|]. cbn [fold_left map ins_all]. apply IH. Qed.

Lemma nbr_fold_flat time v k ws : forall s,
  fold_left (fun s w => let dl := delays v w k in
               fold_left (fun s d => ins time s (tadd time d) (AAtt v w)) dl
                         (mkR (r_stat s) (r_ord s) (r_ag s) (r_log s) (r_ok s && ascending dl))) ws s =
  and_ok (ins_all tmax time s (flat_items time v k ws)) (asc_all v k ws).
Proof.
  induction ws as [|w ws IH]; intros s; [symmetry; apply and_ok_true|].
  cbn [fold_left flat_items flat_map asc_all forallb]. cbv zeta. rewrite fold_ins_map.
  change (mkR (r_stat s) (r_ord s) (r_ag s) (r_log s) (r_ok s && ascending (delays v w k))) with (and_ok s (ascending (delays v w k))).
  rewrite ins_all_and_ok, IH. fold (items_of time v k w). fold (flat_items time v k ws). fold (asc_all v k ws).
  rewrite ins_all_and_ok, and_ok_and_ok, ins_all_app. reflexivity.
Qed.

Definition infect0 (time : Q) (src : option node) (v : node) (s : rst) : rst :=
  mkR (fupdN (r_stat s) v stI) (fupdN (r_ord s) v (S (r_ord s v))) (r_ag s) (log_inf (r_log s) time src v) (r_ok s).
Lemma r_infect_flat time src v s :
  r_infect g dur delays tmax time src v s =
  and_ok (ins_all tmax time (ins time (infect0 time src v s) (tadd time (dur v (r_ord s v))) (ARec v))
                  (flat_items time v (r_ord s v) (gadj g v)))
         (asc_all v (r_ord s v) (gadj g v)).
Proof. unfold r_infect. cbv zeta. rewrite nbr_fold_flat. reflexivity. Qed.

Lemma and_ok_ok s b : r_ok (and_ok s b) = true -> r_ok s = true /\ b = true.
Proof. unfold and_ok. cbn [r_ok]. apply andb_true_iff. Qed.
Lemma r_infect_ok_mono time src v s : r_ok (r_infect g dur delays tmax time src v s) = true -> r_ok s = true.
Proof.
  rewrite r_infect_flat. intros H. apply and_ok_ok in H. destruct H as [H _].
  apply ins_all_ok_mono in H. apply ins_ok_mono in H. exact H.
Qed.
Lemma r_event_ok_mono t a s : r_ok (r_event g dur delays tmax t a s) = true -> r_ok s = true.
Proof.
  unfold r_event. destruct a as [v|u v]; [auto|]. destruct (N.eqb (r_stat s v) stS); [apply r_infect_ok_mono|auto].
Qed.
Lemma r_loop_ok_mono fuel : forall s sF, r_loop g dur delays tmax fuel s = Ok sF -> r_ok sF = true -> r_ok s = true.
Proof.
  induction fuel as [|f IH]; intros s sF H Hok; cbn [r_loop] in H.
  - destruct (r_ag s) as [|[t a] rest]; [injection H as <-; exact Hok|discriminate].
  - destruct (r_ag s) as [|[t a] rest]; [injection H as <-; exact Hok|].
    apply (IH _ _ H) in Hok. apply r_event_ok_mono in Hok. exact Hok.
Qed.
End Flat.

(* ====================================================================== *)
(* the reference semantics is equivariant                                  *)
(* ====================================================================== *)
Section Equivariance.
Variables (g g' : graph) (phi : node -> node).
Variables (dur dur' : node -> nat -> Q) (delays delays' : node -> node -> nat -> list Q).
Variable tmax : xtime.
Hypothesis Hinj : forall u v, phi u = phi v -> u = v.
Hypothesis Hnodes : Permutation (gnodes g') (map phi (gnodes g)).
Hypothesis Hadj : forall u, Permutation (gadj g' (phi u)) (map phi (gadj g u)).
Hypothesis Hdur : forall u k, dur' (phi u) k = dur u k.
Hypothesis Hdel : forall u v k, delays' (phi u) (phi v) k = delays u v k.
Notation ins := (r_insert tmax).

Definition ra (a : aev) : aev := match a with ARec v => ARec (phi v) | AAtt u v => AAtt (phi u) (phi v) end.
Definition re (x : Q * aev) : Q * aev := (fst x, ra (snd x)).
Definition rl (l : logs) : logs :=
  mkL (l_rows l) (map (fun e => (fst (fst e), phi (snd (fst e)), snd e)) (l_elog l))
      (map (fun e => (fst (fst e), option_map phi (snd (fst e)), phi (snd e))) (l_tlog l)).

Record Rel (s s' : rst) : Prop := mkRel {
  rel_stat : forall v, r_stat s' (phi v) = r_stat s v;
  rel_ord : forall v, r_ord s' (phi v) = r_ord s v;
  rel_ag : r_ag s' = map re (r_ag s);
  rel_log : r_log s' = rl (r_log s);
  rel_ok : r_ok s' = r_ok s
}.

Lemma ains_map x l : ains (re x) (map re l) = map re (ains x l).
Proof.
  induction l as [|h t IH]; [reflexivity|]. cbn [map ains]. unfold re at 1 2. cbn [fst].
  destruct (Qltb (fst x) (fst h)); cbn [map]; [reflexivity|]. f_equal. exact IH.
Qed.
Lemma fresh_map now t l : fresh now t (map re l) = fresh now t l.
Proof. unfold fresh. f_equal. induction l as [|h l IH]; [reflexivity|]. cbn [map forallb]. rewrite IH. reflexivity. Qed.
Lemma fupd_phi {V} (f f' : node -> V) v x : (forall u, f' (phi u) = f u) -> forall u, fupdN f' (phi v) x (phi u) = fupdN f v x u.
Proof.
  intros H u. unfold fupdN. rewrite H. destruct (N.eqb_spec u v) as [E|E]; [subst; rewrite N.eqb_refl; reflexivity|].
  replace (N.eqb (phi u) (phi v)) with false; [reflexivity|]. symmetry. apply N.eqb_neq. intro C. apply E, Hinj, C.
Qed.

Lemma Rel_ins now s s' t a : Rel s s' -> Rel (ins now s t a) (ins now s' t (ra a)).
Proof.
  intros [R1 R2 R3 R4 R5]. unfold r_insert. destruct (xlt t tmax); [|constructor; assumption].
  constructor; cbn [r_stat r_ord r_ag r_log r_ok]; try assumption.
  - rewrite R3. apply (ains_map (t, a)).
  - rewrite R5, R3, fresh_map. reflexivity.
Qed.
Lemma Rel_ins_all now items : forall s s', Rel s s' -> Rel (ins_all tmax now s items) (ins_all tmax now s' (map re items)).
Proof.
  induction items as [|x l IH]; intros s s' R; [exact R|]. cbn [map ins_all fold_left]. apply IH.
  unfold re at 1 2. cbn [fst snd]. apply Rel_ins, R.
Qed.
Lemma Rel_and_ok s s' b : Rel s s' -> Rel (and_ok s b) (and_ok s' b).
Proof. intros [R1 R2 R3 R4 R5]. constructor; cbn [and_ok r_stat r_ord r_ag r_log r_ok]; try assumption. rewrite R5. reflexivity. Qed.

Lemma rl_log_inf l t src v : rl (log_inf l t src v) = log_inf (rl l) t (option_map phi src) (phi v).
Proof. reflexivity. Qed.
Lemma rl_log_rec l t v : rl (log_rec l t v) = log_rec (rl l) t (phi v).
Proof. reflexivity. Qed.

Lemma forallb_perm {A} (p : A -> bool) l l' : Permutation l l' -> forallb p l = forallb p l'.
Proof.
  induction 1 as [|x l l' H IH|x y l|l l' l'' H1 IH1 H2 IH2]; cbn [forallb]; try congruence.
  destruct (p x), (p y); reflexivity.
Qed.
Lemma flat_items_phi time v k ws :
  flat_items delays' time (phi v) k (map phi ws) = map re (flat_items delays time v k ws).
Proof.
  unfold flat_items. induction ws as [|w ws IH]; [reflexivity|]. cbn [map flat_map]. rewrite map_app, IH. f_equal.
  unfold items_of. rewrite Hdel, map_map. reflexivity.
Qed.
Lemma asc_all_phi v k ws : asc_all delays' (phi v) k (map phi ws) = asc_all delays v k ws.
Proof. unfold asc_all. induction ws as [|w ws IH]; [reflexivity|]. cbn [map forallb]. rewrite Hdel, IH. reflexivity. Qed.

(* one infection *)
Lemma Rel_infect time src v s s' : Rel s s' -> r_ok (r_infect g dur delays tmax time src v s) = true ->
  Rel (r_infect g dur delays tmax time src v s) (r_infect g' dur' delays' tmax time (option_map phi src) (phi v) s').
Proof.
  intros R Hok. rewrite r_infect_flat in Hok. rewrite !r_infect_flat. pose proof R as [R1 R2 R3 R4 R5]. rewrite (R2 v), Hdur.
  apply and_ok_ok in Hok. destruct Hok as [Hok Hb].
  set (s1 := ins time (infect0 time src v s) (tadd time (dur v (r_ord s v))) (ARec v)) in *.
  set (s1' := ins time (infect0 time (option_map phi src) (phi v) s') (tadd time (dur v (r_ord s v))) (ARec (phi v))).
  assert (R0 : Rel (infect0 time src v s) (infect0 time (option_map phi src) (phi v) s')).
  { unfold infect0. constructor; cbn [r_stat r_ord r_ag r_log r_ok]; try assumption.
    - apply fupd_phi, R1.
    - rewrite (R2 v). apply fupd_phi, R2.
    - rewrite R4. symmetry. apply rl_log_inf. }
  assert (RS1 : Rel s1 s1') by (apply (Rel_ins time _ _ _ (ARec v)), R0).
  set (fl := flat_items delays time v (r_ord s v) (gadj g v)) in *.
  pose proof (Rel_ins_all time fl s1 s1' RS1) as RA.
  assert (P : Permutation (map re fl) (flat_items delays' time (phi v) (r_ord s v) (gadj g' (phi v)))).
  { unfold fl. rewrite <- flat_items_phi. unfold flat_items. apply Permutation_flat_map. symmetry. apply Hadj. }
  assert (Hok' : r_ok (ins_all tmax time s1' (map re fl)) = true) by (rewrite (rel_ok _ _ RA); exact Hok).
  rewrite (ins_all_perm tmax time _ _ P s1' Hok').
  replace (asc_all delays' (phi v) (r_ord s v) (gadj g' (phi v))) with (asc_all delays v (r_ord s v) (gadj g v)).
  - apply Rel_and_ok, RA.
  - rewrite <- asc_all_phi. unfold asc_all. apply forallb_perm. symmetry. apply Hadj.
Qed.

Lemma Rel_event t a s s' : Rel s s' -> r_ok (r_event g dur delays tmax t a s) = true ->
  Rel (r_event g dur delays tmax t a s) (r_event g' dur' delays' tmax t (ra a) s').
Proof.
  intros R Hok. destruct a as [v|u v]; cbn [r_event ra] in *.
  - destruct R as [R1 R2 R3 R4 R5]. constructor; cbn [r_stat r_ord r_ag r_log r_ok]; try assumption.
    + apply fupd_phi, R1.
    + rewrite R4. symmetry. apply rl_log_rec.
  - rewrite (rel_stat _ _ R v). destruct (N.eqb (r_stat s v) stS); [|exact R].
    apply (Rel_infect t (Some u) v s s' R Hok).
Qed.

Lemma Rel_loop fuel : forall s s' sF, Rel s s' -> r_loop g dur delays tmax fuel s = Ok sF -> r_ok sF = true ->
  exists sF', r_loop g' dur' delays' tmax fuel s' = Ok sF' /\ Rel sF sF'.
Proof.
  induction fuel as [|f IH]; intros s s' sF R H Hok; cbn [r_loop] in *; rewrite (rel_ag _ _ R).
  - destruct (r_ag s) as [|[t a] rest]; [|discriminate]. injection H as <-. exists s'. split; [reflexivity|exact R].
  - destruct (r_ag s) as [|[t a] rest] eqn:E; cbn [map]; [injection H as <-; exists s'; split; [reflexivity|exact R]|].
    unfold re at 1. cbn [fst snd].
    set (p := mkR (r_stat s) (r_ord s) rest (r_log s) (r_ok s)) in *.
    set (p' := mkR (r_stat s') (r_ord s') (map re rest) (r_log s') (r_ok s')).
    assert (Rp : Rel p p') by (destruct R as [R1 R2 R3 R4 R5]; constructor; cbn [r_stat r_ord r_ag r_log r_ok]; try assumption; reflexivity).
    pose proof (r_loop_ok_mono g dur delays tmax f _ _ H Hok) as Hok1.
    apply (IH _ _ sF (Rel_event t a p p' Rp Hok1) H Hok).
Qed.

(* the initially infected nodes, in the same order *)
Lemma Rel_init_step s s' tmin u : Rel s s' ->
  r_ok (if N.eqb (r_stat s u) stS then r_infect g dur delays tmax tmin None u s else mkR (r_stat s) (r_ord s) (r_ag s) (r_log s) false) = true ->
  Rel (if N.eqb (r_stat s u) stS then r_infect g dur delays tmax tmin None u s else mkR (r_stat s) (r_ord s) (r_ag s) (r_log s) false)
      (if N.eqb (r_stat s' (phi u)) stS then r_infect g' dur' delays' tmax tmin None (phi u) s'
       else mkR (r_stat s') (r_ord s') (r_ag s') (r_log s') false).
Proof.
  intros R Hok. rewrite (rel_stat _ _ R u). destruct (N.eqb (r_stat s u) stS); [|discriminate Hok].
  apply (Rel_infect tmin None u s s' R Hok).
Qed.
Lemma init_fold_ok_mono tmin l : forall s,
  r_ok (fold_left (fun s u => if N.eqb (r_stat s u) stS then r_infect g dur delays tmax tmin None u s
                              else mkR (r_stat s) (r_ord s) (r_ag s) (r_log s) false) l s) = true -> r_ok s = true.
Proof.
  induction l as [|u l IH]; intros s H; [exact H|]. cbn [fold_left] in H. apply IH in H.
  destruct (N.eqb (r_stat s u) stS); [apply r_infect_ok_mono in H; exact H|discriminate H].
Qed.
Lemma Rel_init_fold tmin l : forall s s', Rel s s' ->
  r_ok (fold_left (fun s u => if N.eqb (r_stat s u) stS then r_infect g dur delays tmax tmin None u s
                              else mkR (r_stat s) (r_ord s) (r_ag s) (r_log s) false) l s) = true ->
  Rel (fold_left (fun s u => if N.eqb (r_stat s u) stS then r_infect g dur delays tmax tmin None u s
                             else mkR (r_stat s) (r_ord s) (r_ag s) (r_log s) false) l s)
      (fold_left (fun s u => if N.eqb (r_stat s u) stS then r_infect g' dur' delays' tmax tmin None u s
                             else mkR (r_stat s) (r_ord s) (r_ag s) (r_log s) false) (map phi l) s').
Proof.
  induction l as [|u l IH]; intros s s' R H; [exact R|]. cbn [fold_left map] in *.
  apply IH; [|exact H]. apply Rel_init_step; [exact R|]. apply (init_fold_ok_mono tmin l _ H).
Qed.
Lemma order_iso : order g' = order g.
Proof. unfold order. rewrite (Permutation_length Hnodes), map_length. reflexivity. Qed.
Lemma Rel_init tmin i0 : r_ok (r_init g dur delays tmax tmin i0) = true ->
  Rel (r_init g dur delays tmax tmin i0) (r_init g' dur' delays' tmax tmin (map phi i0)).
Proof.
  intros H. unfold r_init in *. apply Rel_init_fold; [|exact H].
  constructor; cbn [r_stat r_ord r_ag r_log r_ok]; try reflexivity. unfold logs0, rl. cbn [l_rows l_elog l_tlog map]. rewrite order_iso. reflexivity.
Qed.

(* ---------- outputs ---------- *)
Definition rt (e : Q * option node * node) : Q * option node * node := (fst (fst e), option_map phi (snd (fst e)), phi (snd e)).
Definition relabel_hist (h : list (node * history)) : list (node * history) := map (fun uh => (phi (fst uh), snd uh)) h.
Definition out_rel (o o' : simout) : Prop :=
  so_rows o' = so_rows o /\
  match so_full o, so_full o' with
  | Some fd, Some fd' => fd_trans fd' = map rt (fd_trans fd) /\ Permutation (fd_hist fd') (relabel_hist (fd_hist fd))
  | None, None => True
  | _, _ => False
  end.

Lemma filter_map_comm {A B} (f : A -> B) (p : B -> bool) l : filter p (map f l) = map f (filter (fun x => p (f x)) l).
Proof. induction l as [|x l IH]; [reflexivity|]. cbn [map filter]. destruct (p (f x)); cbn [map]; rewrite IH; reflexivity. Qed.
Lemma eqb_phi x u : N.eqb (phi x) (phi u) = N.eqb x u.
Proof.
  destruct (N.eqb_spec x u) as [E|E]; [rewrite E; apply N.eqb_refl|]. apply N.eqb_neq. intro C. apply E, Hinj, C.
Qed.
Lemma times_of_phi u st lg :
  times_of (phi u) st (map (fun e : Q * node * N => (fst (fst e), phi (snd (fst e)), snd e)) lg) = times_of u st lg.
Proof.
  unfold times_of. rewrite filter_map_comm, map_map. cbn [fst snd].
  rewrite (filter_ext _ (fun e : Q * node * N => N.eqb (snd (fst e)) u && N.eqb (snd e) st)) by (intros e; rewrite eqb_phi; reflexivity).
  reflexivity.
Qed.
Lemma finish_rel tmin full n0 l : out_rel (finish g tmin full n0 l) (finish g' tmin full n0 (rl l)).
Proof.
  unfold out_rel, finish. cbn [so_rows so_full]. split; [reflexivity|]. destruct full; [|exact I].
  unfold build_full. cbn [fd_trans fd_hist rl l_elog l_tlog]. split.
  - rewrite <- map_rev. reflexivity.
  - unfold relabel_hist. rewrite map_map. cbn [fst snd]. rewrite <- map_rev.
    set (H' := fun u' : node => (u', hist_sis tmin (interleave
                 (times_of u' stI (map (fun e : Q * node * N => (fst (fst e), phi (snd (fst e)), snd e)) (rev (l_elog l))))
                 (times_of u' stS (map (fun e : Q * node * N => (fst (fst e), phi (snd (fst e)), snd e)) (rev (l_elog l))))))).
    etransitivity; [apply (Permutation_map H' Hnodes)|]. rewrite map_map.
    rewrite (map_ext (fun x => H' (phi x)) (fun x => (phi x, hist_sis tmin (interleave (times_of x stI (rev (l_elog l))) (times_of x stS (rev (l_elog l)))))));
      [apply Permutation_refl|].
    intros u. unfold H'. rewrite !times_of_phi. reflexivity.
Qed.

(* the reference semantics on the renamed input, adjacency lists in any order: the renamed output *)
Theorem ref_sis_equivariant tmin full fuel i0 out :
  ref_sis g dur delays tmax tmin full fuel i0 = Ok (out, true) ->
  exists out', ref_sis g' dur' delays' tmax tmin full fuel (map phi i0) = Ok (out', true) /\ out_rel out out'.
Proof.
  unfold ref_sis. intros H.
  destruct (r_loop g dur delays tmax fuel (r_init g dur delays tmax tmin i0)) as [sF|e] eqn:EL; [|discriminate H].
  cbn [rbind] in H. injection H as Ho Hok.
  pose proof (r_loop_ok_mono g dur delays tmax fuel _ _ EL Hok) as Hok0.
  destruct (Rel_loop fuel _ _ sF (Rel_init tmin i0 Hok0) EL Hok) as [sF' [EL' RF]].
  rewrite EL'. cbn [rbind]. rewrite (rel_ok _ _ RF), Hok, (rel_log _ _ RF), map_length.
  eexists. split; [reflexivity|]. rewrite <- Ho. apply finish_rel.
Qed.

(* fast_nonMarkov_SIS (its model nm_run) through C13 *)
Theorem nmsis_relabel_invariant tmin full fuel i0 out :
  xlt tmin tmax = true -> ref_sis g dur delays tmax tmin full fuel i0 = Ok (out, true) ->
  exists out',
    nm_run g dur delays tmax tmin full (length i0 + fuel) i0 = Ok out /\
    nm_run g' dur' delays' tmax tmin full (length i0 + fuel) (map phi i0) = Ok out' /\
    out_rel out out'.
Proof.
  intros Ht H. destruct (ref_sis_equivariant tmin full fuel i0 out H) as [out' [H' Ro]].
  exists out'. split; [apply (nmsis_refines _ _ _ _ _ _ _ _ _ Ht H)|]. split; [|exact Ro].
  rewrite <- (map_length phi i0). apply (nmsis_refines _ _ _ _ _ _ _ _ _ Ht H').
Qed.
End Equivariance.
