(* C10 for the discrete-time simulators, part 2: the statements of Proofs/DiscreteC10.v for every
   full-data run of discrete_SIR (any rules, with or without test_recovery) and of
   basic_discrete_SIS (reach form and every-draw-script form), and the two return modes under
   table rules (no recovery test: both are the L1 generation sequence). *)
From EoNV Require Import Prelude Samp Graph Discrete DiscreteP SampP DiscreteChk DiscreteRun DiscreteRunS DiscreteTop DiscreteC04 DiscreteC05 DiscreteHist.
From EoNV Require Import Investigation InvestigationP DiscreteC10.
From EoNV Require Gillespie GillespieP.
From Coq Require Import Permutation Lqa Sorting.Sorted.

(* what is stated of (node histories hs, arrays arr) *)
Definition c10_good (g : graph) (kind : Gillespie.model_kind) (tmin : Q) (hs : list (node * history)) : Prop :=
  let iv := mkInv (gnodes g) hs None (Some (dps_of kind)) in
  forall u, In u (gnodes g) -> exists h, hist_of iv u = Ok h /\
    good_histb (dps_of kind) (dmv_of kind) tmin h = true /\ StronglySorted Qlt (map fst h).

Definition c10_summary (g : graph) (kind : Gillespie.model_kind) (hs : list (node * history)) (arr : list row) : Prop :=
  let iv := mkInv (gnodes g) hs None (Some (dps_of kind)) in
  exists rows', summary iv None = Ok rows' /\ rows' <> [] /\ StronglySorted Qlt (map fst rows') /\
    (forall r, In r rows' -> In r arr /\ snd r = map (count_at iv (gnodes g) (fst r)) (dps_of kind)) /\
    (forall r, In r arr -> step_at rows' (fst r) None = Some (snd r)).

Lemma drun_c10 : forall g kind os tmin tmax st0 tl0 K t st rows hl tl, whole_steps tmin tmax ->
  drun g kind os tmin tmax true st0 tl0 K t st rows hl tl ->
  let hs := map (fun u => (u, (tmin, st0 u) :: node_events u (rev hl))) (gnodes g) in
  c10_good g kind tmin hs /\
  (gnodes g <> [] -> c10_summary g kind hs (rev rows) /\
     consistent_b (mkInv (gnodes g) hs None (Some (dps_of kind))) (rev rows) tmin (dmv_of kind) = true).
Proof.
  intros g kind os tmin tmax st0 tl0 K t st rows hl tl Hw H hs.
  destruct (drun_F g kind os tmin tmax st0 tl0 Hw K t st rows hl tl H) as [sq [HF _]].
  split.
  - intros u Hu. exists (hist_of_log tmin st0 hl u). split; [apply (iv_hist_of g kind tmin st0 hl u Hu)|].
    destruct (hof_facts g kind os tmin tmax st0 tl0 sq K t rows hl tl HF u Hu) as [_ [_ [_ D]]].
    split; [apply (hof_good g kind os tmin tmax st0 tl0 sq K t rows hl tl HF u Hu)|exact D].
  - intro Hne. rewrite (arr_rows g kind os tmin tmax st0 tl0 sq K t rows hl tl HF). split.
    + destruct (iv_summary g kind os tmin tmax st0 tl0 sq K t rows hl tl HF Hne) as [rows' [S1 [S2 [S3 [S4 [S5 _]]]]]].
      exists rows'. split; [exact S1|]. split; [exact S2|]. split; [exact S3|]. split.
      * intros [x cs] Hin. destruct (S4 x cs Hin) as [j [Hj [Ej [Ec Em]]]]. cbn [fst snd]. split; [|exact Em].
        subst x cs. unfold arr_of. apply in_map_iff. exists j. split; [reflexivity|apply in_seq; lia].
      * intros r Hr. unfold arr_of in Hr. apply in_map_iff in Hr. destruct Hr as [j [Er Hj]]. subst r. apply in_seq in Hj.
        cbn [fst snd]. apply S5. lia.
    + apply (iv_consistent g kind os tmin tmax st0 tl0 sq K t rows hl tl HF Hne).
Qed.

Notation sir_ps := [stS; stI; stR].
Notation sis_ps := [stS; stI].
Notation sir_mv := [(stS, stI); (stI, stR)].
Notation sis_mv := [(stS, stI); (stI, stS)].

(* ---------------- discrete_SIR ---------------- *)
Theorem dsir_c10_reach : forall g R trec ord i0 r0o tmin tmax fuel out,
  wf_inputb g i0 (opt_list r0o) = true -> perm_oracle ord -> pick_sound R -> whole_steps tmin tmax ->
  reach (discrete_SIR g R trec ord (Some i0) r0o None tmin tmax true fuel) out ->
  exists fd, so_full (o_sim out) = Some fd /\
    c10_good g kSIR tmin (fd_hist fd) /\
    (gnodes g <> [] -> c10_summary g kSIR (fd_hist fd) (so_rows (o_sim out)) /\
       consistent_b (mkInv (gnodes g) (fd_hist fd) None (Some sir_ps)) (so_rows (o_sim out)) tmin sir_mv = true).
Proof.
  intros g R trec ord i0 r0o tmin tmax fuel out Hwf Hord Hpick Hw H.
  destruct (dsir_run g R trec ord i0 r0o tmin tmax true fuel out Hwf Hord (fun _ => Hpick) H)
    as [K [t [st [rows [hl [tl [Hrun [_ [Er Ef]]]]]]]]].
  eexists. split; [exact Ef|]. cbn [fd_hist]. rewrite Er.
  exact (drun_c10 g kSIR _ tmin tmax _ _ K t st rows hl tl Hw Hrun).
Qed.

Theorem dsis_c10_reach : forall g R ord i0 tmin tmax fuel out,
  wf_inputb g i0 [] = true -> perm_oracle ord -> pick_sound R -> whole_steps tmin tmax ->
  reach (basic_discrete_SIS_R g R ord (Some i0) None tmin tmax true fuel) out ->
  exists fd, so_full (o_sim out) = Some fd /\
    c10_good g kSIS tmin (fd_hist fd) /\
    (gnodes g <> [] -> c10_summary g kSIS (fd_hist fd) (so_rows (o_sim out)) /\
       consistent_b (mkInv (gnodes g) (fd_hist fd) None (Some sis_ps)) (so_rows (o_sim out)) tmin sis_mv = true).
Proof.
  intros g R ord i0 tmin tmax fuel out Hwf Hord Hpick Hw H.
  destruct (dsis_run g R ord i0 tmin tmax true fuel out Hwf Hord (fun _ => Hpick) H)
    as [K [t [st [rows [hl [tl [Hrun [_ [Er Ef]]]]]]]]].
  eexists. split; [exact Ef|]. cbn [fd_hist]. rewrite Er.
  exact (drun_c10 g kSIS _ tmin tmax _ _ K t st rows hl tl Hw Hrun).
Qed.

(* the statements, unfolded, in the every-draw-script form *)
Section Statements.
Variable g : graph.
Variable tmin : Q.

Theorem dsir_histories_good : forall R trec ord i0 r0o tmax fuel ds out tr,
  wf_inputb g i0 (opt_list r0o) = true -> perm_oracle ord -> pick_sound R -> whole_steps tmin tmax ->
  exec (discrete_SIR g R trec ord (Some i0) r0o None tmin tmax true fuel) ds [] = (Ok out, tr) ->
  exists fd, so_full (o_sim out) = Some fd /\
    forall u, In u (gnodes g) -> exists h, hist_of (mkInv (gnodes g) (fd_hist fd) None (Some sir_ps)) u = Ok h /\
      good_histb sir_ps sir_mv tmin h = true /\ StronglySorted Qlt (map fst h).
Proof.
  intros R trec ord i0 r0o tmax fuel ds out tr Hwf Hord Hpick Hw H. apply exec_reach in H.
  destruct (dsir_c10_reach g R trec ord i0 r0o tmin tmax fuel out Hwf Hord Hpick Hw H) as [fd [Ef [G _]]].
  exists fd. split; [exact Ef|exact G].
Qed.

Theorem dsir_summary_is_arrays : forall R trec ord i0 r0o tmax fuel ds out tr,
  wf_inputb g i0 (opt_list r0o) = true -> perm_oracle ord -> pick_sound R -> whole_steps tmin tmax -> gnodes g <> [] ->
  exec (discrete_SIR g R trec ord (Some i0) r0o None tmin tmax true fuel) ds [] = (Ok out, tr) ->
  exists fd rows', so_full (o_sim out) = Some fd /\
    let iv := mkInv (gnodes g) (fd_hist fd) None (Some sir_ps) in
    summary iv None = Ok rows' /\ rows' <> [] /\ StronglySorted Qlt (map fst rows') /\
    (forall r, In r rows' -> In r (so_rows (o_sim out)) /\ snd r = map (count_at iv (gnodes g) (fst r)) sir_ps) /\
    (forall r, In r (so_rows (o_sim out)) -> step_at rows' (fst r) None = Some (snd r)).
Proof.
  intros R trec ord i0 r0o tmax fuel ds out tr Hwf Hord Hpick Hw Hne H. apply exec_reach in H.
  destruct (dsir_c10_reach g R trec ord i0 r0o tmin tmax fuel out Hwf Hord Hpick Hw H) as [fd [Ef [_ G]]].
  destruct (G Hne) as [[rows' G1] _]. exists fd, rows'. split; [exact Ef|exact G1].
Qed.

Theorem dsir_outputs_consistent : forall R trec ord i0 r0o tmax fuel ds out tr,
  wf_inputb g i0 (opt_list r0o) = true -> perm_oracle ord -> pick_sound R -> whole_steps tmin tmax -> gnodes g <> [] ->
  exec (discrete_SIR g R trec ord (Some i0) r0o None tmin tmax true fuel) ds [] = (Ok out, tr) ->
  exists fd, so_full (o_sim out) = Some fd /\
    consistent_b (mkInv (gnodes g) (fd_hist fd) None (Some sir_ps)) (so_rows (o_sim out)) tmin sir_mv = true.
Proof.
  intros R trec ord i0 r0o tmax fuel ds out tr Hwf Hord Hpick Hw Hne H. apply exec_reach in H.
  destruct (dsir_c10_reach g R trec ord i0 r0o tmin tmax fuel out Hwf Hord Hpick Hw H) as [fd [Ef [_ G]]].
  exists fd. split; [exact Ef|exact (proj2 (G Hne))].
Qed.

Theorem dsis_histories_good : forall R ord i0 tmax fuel ds out tr,
  wf_inputb g i0 [] = true -> perm_oracle ord -> pick_sound R -> whole_steps tmin tmax ->
  exec (basic_discrete_SIS_R g R ord (Some i0) None tmin tmax true fuel) ds [] = (Ok out, tr) ->
  exists fd, so_full (o_sim out) = Some fd /\
    forall u, In u (gnodes g) -> exists h, hist_of (mkInv (gnodes g) (fd_hist fd) None (Some sis_ps)) u = Ok h /\
      good_histb sis_ps sis_mv tmin h = true /\ StronglySorted Qlt (map fst h).
Proof.
  intros R ord i0 tmax fuel ds out tr Hwf Hord Hpick Hw H. apply exec_reach in H.
  destruct (dsis_c10_reach g R ord i0 tmin tmax fuel out Hwf Hord Hpick Hw H) as [fd [Ef [G _]]].
  exists fd. split; [exact Ef|exact G].
Qed.

Theorem dsis_summary_is_arrays : forall R ord i0 tmax fuel ds out tr,
  wf_inputb g i0 [] = true -> perm_oracle ord -> pick_sound R -> whole_steps tmin tmax -> gnodes g <> [] ->
  exec (basic_discrete_SIS_R g R ord (Some i0) None tmin tmax true fuel) ds [] = (Ok out, tr) ->
  exists fd rows', so_full (o_sim out) = Some fd /\
    let iv := mkInv (gnodes g) (fd_hist fd) None (Some sis_ps) in
    summary iv None = Ok rows' /\ rows' <> [] /\ StronglySorted Qlt (map fst rows') /\
    (forall r, In r rows' -> In r (so_rows (o_sim out)) /\ snd r = map (count_at iv (gnodes g) (fst r)) sis_ps) /\
    (forall r, In r (so_rows (o_sim out)) -> step_at rows' (fst r) None = Some (snd r)).
Proof.
  intros R ord i0 tmax fuel ds out tr Hwf Hord Hpick Hw Hne H. apply exec_reach in H.
  destruct (dsis_c10_reach g R ord i0 tmin tmax fuel out Hwf Hord Hpick Hw H) as [fd [Ef [_ G]]].
  destruct (G Hne) as [[rows' G1] _]. exists fd, rows'. split; [exact Ef|exact G1].
Qed.

Theorem dsis_outputs_consistent : forall R ord i0 tmax fuel ds out tr,
  wf_inputb g i0 [] = true -> perm_oracle ord -> pick_sound R -> whole_steps tmin tmax -> gnodes g <> [] ->
  exec (basic_discrete_SIS_R g R ord (Some i0) None tmin tmax true fuel) ds [] = (Ok out, tr) ->
  exists fd, so_full (o_sim out) = Some fd /\
    consistent_b (mkInv (gnodes g) (fd_hist fd) None (Some sis_ps)) (so_rows (o_sim out)) tmin sis_mv = true.
Proof.
  intros R ord i0 tmax fuel ds out tr Hwf Hord Hpick Hw Hne H. apply exec_reach in H.
  destruct (dsis_c10_reach g R ord i0 tmin tmax fuel out Hwf Hord Hpick Hw H) as [fd [Ef [_ G]]].
  exists fd. split; [exact Ef|exact (proj2 (G Hne))].
Qed.

End Statements.

(* ---------------- both return modes, table rules, no recovery test ---------------- *)
Theorem dsir_both_modes : forall g tt pick ord i0 r0o tmin tmax fuel,
  wf_inputb g i0 (opt_list r0o) = true -> perm_oracle ord -> (length (gnodes g) < fuel)%nat ->
  whole_steps tmin tmax -> gnodes g <> [] ->
  exists outP outF fd,
    discrete_SIR g (det_rules tt pick) None ord (Some i0) r0o None tmin tmax false fuel = Ret outP /\
    discrete_SIR g (det_rules tt pick) None ord (Some i0) r0o None tmin tmax true fuel = Ret outF /\
    so_full (o_sim outP) = None /\ so_full (o_sim outF) = Some fd /\
    so_rows (o_sim outP) = so_rows (o_sim outF) /\
    consistent_b (mkInv (gnodes g) (fd_hist fd) None (Some sir_ps)) (so_rows (o_sim outP)) tmin sir_mv = true.
Proof.
  intros g tt pick ord i0 r0o tmin tmax fuel Hwf Hord Hf Hw Hne.
  destruct (dsir_bfs g tt pick ord i0 r0o tmin tmax false fuel Hwf Hord Hf) as [K1 [o1 [Hs1 [Hr1 [Hrows1 [Hh1 _]]]]]].
  destruct (dsir_bfs g tt pick ord i0 r0o tmin tmax true fuel Hwf Hord Hf) as [K2 [o2 [Hs2 [Hr2 [Hrows2 _]]]]].
  assert (E : K1 = K2) by (eapply first_stop_unique; eassumption). subst K2.
  assert (Hreach : reach (discrete_SIR g (det_rules tt pick) None ord (Some i0) r0o None tmin tmax true fuel) o2)
    by (rewrite Hr2; constructor).
  destruct (dsir_c10_reach g _ None ord i0 r0o tmin tmax fuel o2 Hwf Hord (det_pick_sound tt pick) Hw Hreach) as [fd [Ef [_ G]]].
  exists o1, o2, fd. split; [exact Hr1|]. split; [exact Hr2|]. split; [exact Hh1|]. split; [exact Ef|].
  assert (Erows : so_rows (o_sim o1) = so_rows (o_sim o2)) by (rewrite Hrows1, Hrows2; reflexivity).
  split; [exact Erows|]. rewrite Erows. exact (proj2 (G Hne)).
Qed.
