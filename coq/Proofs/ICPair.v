(* Row 0 of the homogeneous pairwise wrappers (partial: acceptance, i.e. that the
   guard SS0 + 2 SI0 <= n N does not fire in exact arithmetic, is not proved). *)
From EoNV Require Import Prelude Graph Aux Vec IC Wrappers VecP AuxP ICP ICHand.
From Coq Require Import Lqa Setoid Morphisms.

(* n = sum(k*Pk[k]) is the mean degree: n N = sum of the degrees *)
Lemma mean_degree_N g : wf_ugraph g = true -> mean_degree g * gN g == degsum g.
Proof.
  intros WG. destruct (wf_ugraph_nodes g WG) as [_ NE].
  assert (DN : degseq g <> []) by (unfold degseq; destruct (gnodes g); [congruence|discriminate]).
  unfold mean_degree. 
  rewrite (ICP.sumQ_map_ext _ (fun k => Pk (degseq g) k * Qnat k)) by (intros; ring).
  rewrite (sum_weighted Qnat (degseq g) (Pk_keys (degseq g))).
  - unfold degsum, gN, degseq. rewrite map_map, map_length. field.
    apply Qnat_nz. apply length_pos. exact NE.
  - unfold Pk_keys. apply NoDup_nodup.
  - intros d Hd. unfold Pk_keys. apply nodup_In. exact Hd.
  - exact DN.
Qed.

Lemma init_status_someR g rq I0 :
  initialize_node_status g I0 (Some (reqR rq)) = initialize_node_status g I0 (rq_R rq).
Proof. unfold initialize_node_status, reqR. destruct (rq_R rq); reflexivity. Qed.

Lemma row0_SIS_hpw g rq full sv out :
  wf_ugraph g = true -> wf_req g false rq = true -> solver_ok sv ->
  SIS_homogeneous_pairwise_from_graph g rq full sv = Ok out ->
  exists S I, lookup nS out = Some (Sc S) /\ lookup nI out = Some (Sc I) /\
    S 0%nat == reqS_n g rq /\ I 0%nat == reqI_n g rq /\
    (full = true -> exists SI SS II, lookup nSI out = Some (Sc SI) /\ lookup nSS out = Some (Sc SS) /\ lookup nII out = Some (Sc II) /\
       SI 0%nat == pSI (req_pairs g rq) /\ SS 0%nat == pSS (req_pairs g rq) /\
       II 0%nat == degsum g - pSS (req_pairs g rq) - 2 * pSI (req_pairs g rq)).
Proof.
  intros WG W OK. pose proof (wf_req_noR g rq W) as NR. pose proof (mean_degree_N g WG) as MD.
  unfold SIS_homogeneous_pairwise_from_graph.
  assert (NB : (isSome (rq_rho rq) && isSome (rq_I rq))%bool = false).
  { destruct (rq_I rq) eqn:E, (rq_rho rq) eqn:Er; try reflexivity. exfalso; eapply wf_req_not_both; eauto. }
  rewrite NB. unfold reqS_n, reqI_n, req_pairs, reqR. rewrite NR.
  destruct (rq_I rq) as [I0|] eqn:E.
  - destruct (init_status_noR g false rq I0 W E) as [st [-> Hst]]. cbn [rbind].
    unfold SIS_homogeneous_pairwise. destruct (Qltb _ _); [discriminate|]. intros H. injection H as <-.
    do 2 eexists. split; [look|]. split; [look|]. unfold comp, vnth. cbv beta. rewrite !OK. cbn [nth].
    unfold len. cbn [length]. change (Qnat 0) with 0. split; [ring|]. split; [ring|].
    intros ->. do 3 eexists. split; [look|]. split; [look|]. split; [look|]. cbv beta. rewrite !OK. cbn [nth].
    assert (RS : forall u, req_status rq u = st u).
    { intros u. unfold req_status. rewrite E, NR, Hst. reflexivity. }
    assert (SI_ok : esum g (fun u v => if N.eqb (st u) (st v) then 0 else 1)
                    == pSI (count_edge_types_st g (req_status rq))).
    { unfold pSI, count_edge_types_st. cbn [fst snd]. apply esum_ext. intros u v. unfold isS, isI, ind. rewrite !RS, !Hst.
      destruct (mem u I0), (mem v I0); reflexivity. }
    assert (SS_ok : esum g (fun u v => if (N.eqb (st u) (st v) && isS st u)%bool then 2 else 0)
                    == pSS (count_edge_types_st g (req_status rq))).
    { unfold pSS, count_edge_types_st. cbn [fst snd]. apply esum_ext. intros u v. unfold isS. rewrite !RS, !Hst.
      destruct (mem u I0), (mem v I0); reflexivity. }
    rewrite SI_ok, SS_ok. split; [reflexivity|]. split; [reflexivity|].
    setoid_replace (gN g - Qnat (length I0) + Qnat (length I0)) with (gN g) by ring. rewrite (Qmult_comm (gN g)), MD. reflexivity.
  - unfold SIS_homogeneous_pairwise. destruct (Qltb _ _); [discriminate|]. intros H. injection H as <-.
    do 2 eexists. split; [look|]. split; [look|]. unfold comp, vnth. cbv beta. rewrite !OK. cbn [nth].
    split; [ring|]. split; [ring|].
    intros ->. do 3 eexists. split; [look|]. split; [look|]. split; [look|]. cbv beta. rewrite !OK. cbn [nth].
    unfold pSI, pSS. cbn [fst snd]. rewrite <- MD. repeat split; ring.
Qed.

Lemma row0_SIR_hpw g rq full sv out :
  wf_ugraph g = true -> wf_req g true rq = true -> solver_ok sv ->
  SIR_homogeneous_pairwise_from_graph g rq full sv = Ok out ->
  exists S I R, lookup nS out = Some (Sc S) /\ lookup nI out = Some (Sc I) /\ lookup nR out = Some (Sc R) /\
    S 0%nat == reqS_n g rq /\ I 0%nat == reqI_n g rq /\ R 0%nat == reqR_n g rq /\
    (full = true -> exists SI SS, lookup nSI out = Some (Sc SI) /\ lookup nSS out = Some (Sc SS) /\
       SI 0%nat == pSI (req_pairs g rq) /\ SS 0%nat == pSS (req_pairs g rq)).
Proof.
  intros WG W OK. pose proof (mean_degree_N g WG) as MD.
  unfold SIR_homogeneous_pairwise_from_graph.
  assert (NB : (isSome (rq_rho rq) && isSome (rq_I rq))%bool = false).
  { destruct (rq_I rq) eqn:E, (rq_rho rq) eqn:Er; try reflexivity. exfalso; eapply wf_req_not_both; eauto. }
  rewrite NB. unfold reqS_n, reqI_n, reqR_n, req_pairs.
  destruct (rq_I rq) as [I0|] eqn:E.
  - destruct (wf_req_sets g true rq I0 W E) as (Hrho & _). rewrite Hrho. cbn [isSome andb].
    fold (reqR rq). rewrite init_status_someR.
    destruct (init_status_ok g true rq I0 W E) as [st [-> Hst]]. cbn [rbind].
    rewrite (cet_ext g st (req_status rq) Hst).
    destruct (count_edge_types_st g (req_status rq)) as [[ss si] ii].
    unfold SIR_homogeneous_pairwise. destruct (Qltb _ _); [discriminate|]. intros H. injection H as <-.
    do 3 eexists. split; [look|]. split; [look|]. split; [look|]. unfold comp, vnth. cbv beta. rewrite !OK. cbn [nth].
    split; [ring|]. split; [ring|]. split; [ring|].
    intros ->. do 2 eexists. split; [look|]. split; [look|]. cbv beta. rewrite !OK. cbn [nth]. split; reflexivity.
  - rewrite (wf_req_rho g true rq W E). cbn [isSome andb]. rewrite andb_false_r.
    unfold SIR_homogeneous_pairwise. destruct (Qltb _ _); [discriminate|]. intros H. injection H as <-.
    do 3 eexists. split; [look|]. split; [look|]. split; [look|]. unfold comp, vnth. cbv beta. rewrite !OK. cbn [nth].
    split; [ring|]. split; [ring|]. split; [ring|].
    intros ->. do 2 eexists. split; [look|]. split; [look|]. cbv beta. rewrite !OK. cbn [nth].
    unfold pSI, pSS. cbn [fst snd]. rewrite <- MD. split; ring.
Qed.
