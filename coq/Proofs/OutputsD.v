(* C06, output layer: EBCM_uniform_introduction, EBCM_pref_mix(_from_graph), the discrete-time EBCM functions and
   the Attack_rate_*_from_graph wrappers (Model/Outputs2.v). *)
From EoNV Require Import Prelude Graph Aux Vec IC Wrappers VecP ICP ICEbcm Rhs Attack Pgf Outputs Outputs2 OutputsP OutputsE1.
From Coq Require Import Lqa Setoid Morphisms Qpower.

(* ---------------- EBCM_uniform_introduction ---------------- *)
Lemma out_EBCM_uniform_introduction_forwards N psi psiP rho full :
  m_EBCM_uniform_introduction N psi psiP rho full = m_EBCM N (fun x => (1 - rho) * psi x) 0 full /\
  fwd_EBCM_uniform_introduction N psi psiP rho = mkEb N (fun x => (1 - rho) * psi x) (fun x => (1 - rho) * psiP x) (1 - rho) 0 0.
Proof. split; reflexivity. Qed.

Lemma out_EBCM_uniform_introduction sv N psi psiP rho full tmin tmax n r :
  msolver_ok sv -> (0 < n)%nat -> psi 1 == 1 ->
  run_model (m_EBCM_uniform_introduction N psi psiP rho full) tmin tmax n sv = Ok r ->
  shaped r tmin tmax n [1; 0] (if full then [oS; oI; oR; oTheta] else [oS; oI; oR]) /\
  sval oS 0 r == (1 - rho) * N /\ sval oI 0 r == rho * N /\ sval oR 0 r = 0 /\
  (full = true -> sval oTheta 0 r = 1) /\
  (forall j, (j < n)%nat -> sval oS j r + sval oI j r + sval oR j r == N).
Proof.
  intros OK Hn P1 H. destruct (out_EBCM sv N (fun x => (1 - rho) * psi x) 0 full tmin tmax n r OK Hn H) as (S1 & S2 & S3 & S4 & S5 & S6).
  split; [exact S1|]. split; [rewrite S2, P1; ring|]. split; [rewrite S3, P1; ring|]. split; [exact S4|]. split; assumption.
Qed.

(* ---------------- EBCM_pref_mix ---------------- *)
Lemma nth_pm_IC {A} (l : list A) i : (i < length l)%nat -> nth (2 * i) (concat (map (fun _ => [1; 0]) l)) 0 = 1.
Proof.
  revert i. induction l as [|a l IH]; intros i Hi; cbn in Hi; [lia|]. cbn [map concat app].
  destruct i as [|i]; [reflexivity|]. replace (2 * S i)%nat with (S (S (2 * i))) by lia. cbn [nth]. apply IH. lia.
Qed.
Lemma kidx_lt k keys : In k keys -> (kidx k keys < length keys)%nat.
Proof.
  induction keys as [|h t IH]; intros H; [destruct H|]. cbn [kidx length]. destruct (Nat.eqb k h) eqn:E; [lia|].
  destruct H as [->|H]; [rewrite Nat.eqb_refl in E; discriminate|]. specialize (IH H). lia.
Qed.
Lemma pm_theta_IC spk k : In k (map fst spk) -> pm_theta spk (pm_IC spk) k = 1.
Proof.
  intros H. unfold pm_theta, pm_IC, vnth.
  pose proof (kidx_lt k (map fst spk) H) as L. rewrite map_length in L.
  change (nth (1 + 2 * kidx k (map fst spk)) (0 :: concat (map (fun _ => [1; 0]) spk)) 0)
    with (nth (2 * kidx k (map fst spk)) (concat (map (fun _ => [1; 0]) spk)) 0).
  exact (nth_pm_IC spk (kidx k (map fst spk)) L).
Qed.
Lemma dsum_ext (d : list (nat * Q)) f h : (forall kp, In kp d -> f (fst kp) (snd kp) == h (fst kp) (snd kp)) -> dsum d f == dsum d h.
Proof. intros E. unfold dsum. apply ICP.sumQ_map_ext. exact E. Qed.

Lemma out_EBCM_pref_mix sv N pk rho full tmin tmax n r :
  msolver_ok sv -> (0 < n)%nat -> run_model (m_EBCM_pref_mix N pk rho full) tmin tmax n sv = Ok r ->
  let rho' := match rho with Some x => x | None => 1 / N end in
  let spk := pk_sorted pk in
  shaped r tmin tmax n (pm_IC spk) (if full then [oS; oI; oR; oTheta] else [oS; oI; oR]) /\
  sval oS 0 r == N * ((1 - rho') * dsum spk (fun _ p => p)) /\ sval oR 0 r == 0 /\
  (full = true -> vval oTheta 0 r = map (fun k => pm_theta spk (pm_IC spk) k) (map fst spk)) /\
  (forall j, (j < n)%nat -> sval oS j r + sval oI j r + sval oR j r == N).
Proof.
  intros OK Hn H rho' spk. inv_run H OK Hn. pose proof (rf_asm F) as HA. unfold asm_EBCM_pref_mix in HA. injection HA as <-.
  pose proof (rf_row0 F) as H0. fold rho' spk in F, H0 |- *. shp F full. rd F Hn. unfold sser, vser.
  assert (S0 : pm_fracS spk rho' (x 0%nat) == (1 - rho') * dsum spk (fun _ p => p)).
  { rewrite H0. unfold pm_fracS. apply Qmult_comp; [reflexivity|]. apply dsum_ext. intros kp Hk.
    rewrite pm_theta_IC by (apply in_map; exact Hk). unfold qpow. rewrite Qpower_1. ring. }
  destruct full; look.
  - split; [rewrite S0; reflexivity|]. split; [rewrite H0; unfold pm_IC; cbn [vnth nth]; ring|]. split; [intros _; rewrite H0; reflexivity|].
    intros j Hj. rd F Hj. unfold sser. look. ring.
  - split; [rewrite S0; reflexivity|]. split; [rewrite H0; unfold pm_IC; cbn [vnth nth]; ring|]. split; [discriminate|].
    intros j Hj. rd F Hj. unfold sser. look. ring.
Qed.
(* the assembled S is the pm_out_S of Model/Pgf.v that the C07 theorems (pref-mix = EBCM) are about *)
Lemma asm_EBCM_pref_mix_is_pm_out spk N rho X : N * pm_fracS spk rho X = pm_out_S spk N rho X.
Proof. reflexivity. Qed.
Lemma out_EBCM_pref_mix_from_graph_forwards g rho full :
  m_EBCM_pref_mix_from_graph g rho full = m_EBCM_pref_mix (gN g) (pk_of_graph g) rho full.
Proof. reflexivity. Qed.

(* ---------------- discrete time ---------------- *)
Lemma dtimes_spec tmin tmax : length (dtimes tmin tmax) = S (dsteps tmin tmax) /\
  forall j, (j <= dsteps tmin tmax)%nat -> nth j (dtimes tmin tmax) 0 = inject_Z (tmin + Z.of_nat j).
Proof.
  unfold dtimes. split; [rewrite map_length, seq_length; reflexivity|]. intros j Hj. apply (nth_map_seq' (fun j => inject_Z (tmin + Z.of_nat j))). lia.
Qed.

Section Disc.
Variables (a : ebcm_args) (p : Q).
Let N := eb_N a.
Let row t := ebcm_discrete_row N (eb_psihat a) (eb_psihatP a) p (eb_phiS0 a) (eb_phiR0 a) (eb_R0 a) t.
Definition rTheta (x : Q * Q * Q * Q) := fst (fst (fst x)).
Definition rR (x : Q * Q * Q * Q) := snd (fst (fst x)).
Definition rS (x : Q * Q * Q * Q) := snd (fst x).
Definition rI (x : Q * Q * Q * Q) := snd x.

Lemma disc_row0 : row 0%nat = (1, eb_R0 a, N * eb_psihat a 1, N - N * eb_psihat a 1 - eb_R0 a).
Proof. reflexivity. Qed.
Lemma disc_row_S t : row (S t) = EBCM_discrete_step (eb_R0 a) N (eb_psihat a) p (eb_phiR0 a) (eb_phiS0 a) (eb_psihatP a) (row t).
Proof. reflexivity. Qed.
(* one pass of the loop: R(t+1) = R(t) + I(t), S(t+1) = N psihat(theta(t+1)), I = N - R - S *)
Lemma disc_step t : rR (row (S t)) = rR (row t) + rI (row t) /\ rS (row (S t)) = N * eb_psihat a (rTheta (row (S t))) /\
  rI (row (S t)) = N - rR (row (S t)) - rS (row (S t)).
Proof. rewrite disc_row_S. destruct (row t) as [[[th R] S] I]. unfold EBCM_discrete_step, rR, rI, rS, rTheta. cbn [fst snd]. auto. Qed.
Lemma disc_conserve t : rS (row t) + rI (row t) + rR (row t) == N.
Proof.
  destruct t as [|t]; [rewrite disc_row0; unfold rS, rI, rR; cbn [fst snd]; ring|].
  destruct (disc_step t) as (_ & _ & E). rewrite E. ring.
Qed.
End Disc.

Lemma out_EBCM_discrete a p tmin tmax full :
  let r := o_EBCM_discrete a p tmin tmax full in
  let T := dsteps tmin tmax in
  r_times r = dtimes tmin tmax /\ all_len (S T) r /\
  names (r_series r) = (if full then [oS; oI; oR; oTheta] else [oS; oI; oR]) /\
  sval oS 0 r = eb_N a * eb_psihat a 1 /\ sval oR 0 r = eb_R0 a /\ sval oI 0 r = eb_N a - eb_N a * eb_psihat a 1 - eb_R0 a /\
  (full = true -> sval oTheta 0 r = 1) /\
  (forall j, (j <= T)%nat -> sval oS j r + sval oI j r + sval oR j r == eb_N a) /\
  (forall j, (j < T)%nat -> sval oR (S j) r = sval oR j r + sval oI j r).
Proof.
  intros r T. unfold r, o_EBCM_discrete. fold T. unfold ebcm_discrete_rows.
  set (row := ebcm_discrete_row (eb_N a) (eb_psihat a) (eb_psihatP a) p (eb_phiS0 a) (eb_phiR0 a) (eb_R0 a)).
  assert (RD : forall (f : Q * Q * Q * Q -> Q) j, (j <= T)%nat -> nth j (map f (map row (seq 0 (S T)))) 0 = f (row j)).
  { intros f j Hj. rewrite map_map. apply (nth_map_seq' (fun t => f (row t))). lia. }
  split; [reflexivity|]. split.
  { unfold all_len. cbn [r_series]. destruct full; cbn [app]; repeat constructor; cbn [snd rlen]; rewrite !map_length, seq_length; reflexivity. }
  split; [destruct full; reflexivity|].
  unfold sval. cbn [r_series]. destruct full; cbn [app oget oname_eqb]; rewrite !RD by lia.
  - repeat split; try reflexivity.
    + intros j Hj. rewrite !RD by lia. apply (disc_conserve a p j).
    + intros j Hj. rewrite !RD by lia. apply (disc_step a p j).
  - repeat split; try reflexivity; try discriminate.
    + intros j Hj. rewrite !RD by lia. apply (disc_conserve a p j).
    + intros j Hj. rewrite !RD by lia. apply (disc_step a p j).
Qed.

(* EBCM_discrete_uniform_introduction starts at tmin = 0 with phiS0 = 1 - rho, phiR0 = 0, R0 = 0 *)
Lemma out_EBCM_discrete_uniform_introduction N psi psiP p rho tmax full :
  o_EBCM_discrete_uniform_introduction N psi psiP p rho tmax full =
  o_EBCM_discrete (mkEb N (fun x => (1 - rho) * psi x) (fun x => (1 - rho) * psiP x) (1 - rho) 0 0) p 0 tmax full.
Proof. reflexivity. Qed.

(* ---------------- what the *_from_graph wrappers hand over ---------------- *)
(* explicit sets: N psihat(1) = number of susceptible nodes, R0 = number of recovered nodes, phiS0 = [SS]/[SX] *)
Lemma sumPk_ext g f h : (forall k, In k (Pk_keys (degseq g)) -> f k == h k) -> sumPk g f == sumPk g h.
Proof. intros E. unfold sumPk. apply ICP.sumQ_map_ext. exact E. Qed.

Lemma fwd_EBCM_discrete_from_graph_sets g rq I0 a :
  wf_ugraph g = true -> rq_I rq = Some I0 -> fwd_EBCM_discrete_from_graph g rq = Ok a ->
  exists st, initialize_node_status g I0 (rq_R rq) = Ok st /\
    eb_N a = gN g /\ eb_N a * eb_psihat a 1 == cnt (isS st) (gnodes g) /\ eb_R0 a = cnt (isR st) (gnodes g) /\
    eb_phiS0 a == SS_of g st / SX_of g st /\ eb_phiR0 a == SR_of g st / SX_of g st.
Proof.
  intros WG EI. unfold fwd_EBCM_discrete_from_graph. rewrite EI.
  destruct (isSome (rq_rho rq) && isSome (Some I0)); [discriminate|]. destruct (isSome (rq_rho rq) && isSome (rq_R rq)); [discriminate|].
  destruct (initialize_node_status g I0 (rq_R rq)) as [st|e]; cbn [rbind]; [|discriminate].
  destruct (gnodes g) as [|n0 l0] eqn:EG; [discriminate|]. rewrite <- EG.
  destruct (Qeqb (SX_of g st) 0); [discriminate|]. intros H. injection H as <-. exists st. cbn [eb_N eb_psihat eb_R0 eb_phiS0 eb_phiR0].
  split; [reflexivity|]. split; [reflexivity|]. split; [|split; [reflexivity|split; unfold Qdiv; ring]].
  rewrite <- (psihat1_sets g (isS st) WG). apply Qmult_comp; [reflexivity|]. apply sumPk_ext. intros k _. unfold Sk_cnt, Qdiv. ring.
Qed.

Lemma fwd_EBCM_discrete_from_graph_rho g rq :
  wf_ugraph g = true -> rq_I rq = None -> rq_R rq = None ->
  exists a, fwd_EBCM_discrete_from_graph g rq = Ok a /\ eb_N a = gN g /\
    eb_N a * eb_psihat a 1 == (1 - rho_or_default g (rq_rho rq)) * gN g /\ eb_R0 a = 0 /\ eb_phiS0 a = 1 - rho_or_default g (rq_rho rq) /\ eb_phiR0 a = 0.
Proof.
  intros WG EI ER. unfold fwd_EBCM_discrete_from_graph. rewrite EI, ER. cbn [isSome andb]. rewrite !andb_false_r.
  eexists. split; [reflexivity|]. cbn [eb_N eb_psihat eb_R0 eb_phiS0 eb_phiR0]. split; [reflexivity|]. split; [|auto].
  unfold fg_psihat. rewrite (psihat1_rho g _ WG). ring.
Qed.

(* Attack_rate_*_from_graph: explicit sets -> Sk0[k] = (#susceptible of degree k)/Nk[k], phiS0 = [SS]/[SX], phiR0 = [SR]/[SX], rho not forwarded;
   otherwise only rho is forwarded; the degree distribution is the graph's *)
Lemma fwd_Attack_rate_from_graph_spec g rq a :
  fwd_Attack_rate_from_graph g rq = Ok a ->
  ar_pk a = pk_of_graph g /\
  match rq_I rq with
  | Some I0 => exists st, initialize_node_status g I0 (rq_R rq) = Ok st /\ ar_rho a = None /\
      (exists s, ar_Sk0 a = Some s /\ forall k, s k = Sk_cnt g st k * (1 / vnth k (Nk_of g))) /\
      ar_phiS0 a = Some (SS_of g st * 1 / SX_of g st) /\ ar_phiR0 a = SR_of g st * 1 / SX_of g st
  | None => ar_rho a = rq_rho rq /\ ar_Sk0 a = None /\ ar_phiS0 a = None /\ ar_phiR0 a = 0
  end.
Proof.
  unfold fwd_Attack_rate_from_graph.
  destruct (isSome (rq_rho rq) && isSome (rq_I rq)); [discriminate|]. destruct (isSome (rq_rho rq) && isSome (rq_R rq)); [discriminate|].
  destruct (rq_I rq) as [I0|].
  - destruct (initialize_node_status g I0 (rq_R rq)) as [st|e]; cbn [rbind]; [|discriminate].
    destruct (gnodes g) as [|n0 l0]; [discriminate|]. destruct (Qeqb (SX_of g st) 0); [discriminate|].
    intros H. injection H as <-. cbn. split; [reflexivity|]. exists st. repeat split. eexists. split; [reflexivity|]. reflexivity.
  - intros H. injection H as <-. cbn. auto.
Qed.

(* with explicit sets the attack rate before any iteration is 1 - S0/N: the closure psihat built from the forwarded
   Sk0 satisfies N psihat(1) = number of susceptible nodes *)
Lemma attack_psihat1_sets g st : wf_ugraph g = true ->
  gN g * psihat_of (pk_of_graph g) (fun k => Sk_cnt g st k * (1 / vnth k (Nk_of g))) 1 == cnt (isS st) (gnodes g).
Proof.
  intros WG. rewrite <- (psihat1_sets g (isS st) WG). apply Qmult_comp; [reflexivity|].
  unfold psihat_of, pk_of_graph, sumPk. rewrite map_map. apply ICP.sumQ_map_ext. intros k _. cbn [fst snd]. unfold Sk_cnt. ring.
Qed.

(* ---------------- EBCM_pref_mix_discrete ---------------- *)
Lemma pmd_conserve N rho p pk pnk t : let st := pmd_loop N rho p pk pnk t in pd_S st + pd_I st + pd_R st == N.
Proof.
  destruct t as [|t]; cbn zeta.
  - unfold pmd_loop. cbn [iter]. unfold pmd_init. cbn [pd_S pd_I pd_R]. ring.
  - unfold pmd_loop. cbn [iter]. set (s0 := iter t _ _). unfold pmd_step. cbv zeta. cbn [pd_S pd_I pd_R]. ring.
Qed.
Lemma pmd_R_step N rho p pk pnk t :
  pd_R (pmd_loop N rho p pk pnk (S t)) = pd_R (pmd_loop N rho p pk pnk t) + pd_I (pmd_loop N rho p pk pnk t).
Proof. reflexivity. Qed.

Lemma out_EBCM_pref_mix_discrete N pk pnk p rho tmin tmax full :
  let r := o_EBCM_pref_mix_discrete N pk pnk p rho tmin tmax full in
  let rho' := match rho with Some x => x | None => 1 / N end in
  let T := dsteps tmin tmax in
  r_times r = dtimes tmin tmax /\ all_len (S T) r /\
  names (r_series r) = (if full then [oS; oI; oR; oTheta] else [oS; oI; oR]) /\
  sval oS 0 r = N * (1 - rho') /\ sval oI 0 r = N * rho' /\ sval oR 0 r = 0 /\
  (full = true -> vval oTheta 0 r = map (fun k => plookup k (map (fun k => (k, 1)) (map fst pk))) (sort_keys (map fst pk))) /\
  (forall j, (j <= T)%nat -> sval oS j r + sval oI j r + sval oR j r == N) /\
  (forall j, (j < T)%nat -> sval oR (S j) r = sval oR j r + sval oI j r).
Proof.
  intros r rho' T. unfold r, o_EBCM_pref_mix_discrete. fold rho' T.
  set (st := fun t => pmd_loop N rho' p pk pnk t).
  assert (RD : forall (f : nat -> Q) j, (j <= T)%nat -> nth j (map f (seq 0 (S T))) 0 = f j) by (intros f j Hj; apply nth_map_seq'; lia).
  split; [reflexivity|]. split.
  { unfold all_len. cbn [r_series]. destruct full; cbn [app]; repeat constructor; cbn [snd rlen]; rewrite !map_length, seq_length; reflexivity. }
  split; [destruct full; reflexivity|].
  unfold sval, vval. cbn [r_series]. destruct full; cbn [app oget oname_eqb]; rewrite !RD by lia.
  - repeat split; try reflexivity.
    + intros j Hj. rewrite !RD by lia. apply (pmd_conserve N rho' p pk pnk j).
    + intros j Hj. rewrite !RD by lia. reflexivity.
  - repeat split; try reflexivity; try discriminate.
    + intros j Hj. rewrite !RD by lia. apply (pmd_conserve N rho' p pk pnk j).
    + intros j Hj. rewrite !RD by lia. reflexivity.
Qed.
Lemma out_EBCM_pref_mix_discrete_from_graph_forwards g p rho tmin tmax full :
  o_EBCM_pref_mix_discrete_from_graph g p rho tmin tmax full = o_EBCM_pref_mix_discrete (gN g) (pk_of_graph g) (pnk_of_graph g) p rho tmin tmax full.
Proof. reflexivity. Qed.
