(* C09 for the discrete-time simulators: the transmissions of a full-data run against the
   sequence of status maps; the checker [dtx_okb] (Model/DiscreteChk.v) accepts every run of
   the model (horizons of whole steps) and what its acceptance means. *)
From EoNV Require Import Prelude Samp Graph Discrete DiscreteP SampP DiscreteChk DiscreteRun DiscreteRunS DiscreteTop DiscreteC04 DiscreteC05 DiscreteHist.
From EoNV Require Gillespie GillespieP InvestigationP.
From Coq Require Import Permutation Lqa.

(* ---------------- small facts ---------------- *)
Lemma tsortedb_app : forall a b, tsortedb a = true -> tsortedb b = true ->
  (forall x y, In x a -> In y b -> tx_t x <= tx_t y) -> tsortedb (a ++ b) = true.
Proof.
  induction a as [|x a IH]; intros b Ha Hb H; [exact Hb|].
  cbn [app tsortedb] in *. destruct a as [|y a'].
  - cbn [app]. destruct b as [|z b']; [reflexivity|]. rewrite Hb, andb_true_r.
    apply InvestigationP.qleb_t. apply H; left; reflexivity.
  - apply andb_true_iff in Ha. destruct Ha as [A1 A2]. cbn [app]. rewrite A1. cbn [andb].
    apply IH; [exact A2|exact Hb|]. intros p q Hp Hq. apply H; [right; exact Hp|exact Hq].
Qed.

Lemma tsortedb_const : forall l t, (forall e, In e l -> tx_t e = t) -> tsortedb l = true.
Proof.
  induction l as [|x l IH]; intros t H; [reflexivity|]. cbn [tsortedb]. destruct l as [|y l']; [reflexivity|].
  rewrite (IH t) by (intros e He; apply H; right; exact He). rewrite andb_true_r.
  apply InvestigationP.qleb_t. rewrite (H x (or_introl eq_refl)), (H y (or_intror (or_introl eq_refl))). apply Qle_refl.
Qed.

Lemma NoDup_nodupb : forall l, NoDup l -> nodupb l = true.
Proof.
  intros l H. induction H as [|x l Hx Hn IH]; [reflexivity|]. cbn [nodupb]. rewrite IH, andb_true_r.
  apply negb_true_iff. apply dmem_false. exact Hx.
Qed.

Lemma filter_rev_len : forall (A : Type) (f : A -> bool) l, length (filter f (rev l)) = length (filter f l).
Proof.
  intros A f l. induction l as [|x l IH]; [reflexivity|]. cbn [rev]. rewrite filter_app, app_length, IH. cbn [filter].
  destruct (f x); cbn [length]; lia.
Qed.

Lemma Qeqb_compat_r : forall a b c, b == c -> Qeqb a b = Qeqb a c.
Proof.
  intros a b c E. destruct (Qeqb a c) eqn:E1.
  - apply Qeq_bool_iff. apply Qeq_bool_iff in E1. rewrite E1, E. reflexivity.
  - apply InvestigationP.qeqb_f. apply InvestigationP.qeqb_f in E1. intro H. apply E1. rewrite H, E. reflexivity.
Qed.

Section TX.
Variable g : graph.
Variable kind : Gillespie.model_kind.
Variable os : bool.
Variable tmin : Q.
Variable tmax : xtime.
Variable st0 : node -> N.
Variable tl0 : list tx.

(* the list is time-ordered; SIR: nobody is the target of two entries *)
Lemma drunF_tx_sorted : forall sq K t rows hl tl, drunF g kind os tmin tmax st0 tl0 sq K t rows hl tl ->
  tsortedb (rev tl0) = true -> (forall e, In e tl0 -> tx_t e <= tmin) ->
  tsortedb (rev tl) = true /\ forall e, In e tl -> tx_t e <= t.
Proof.
  intros sq K t rows hl tl H S0 L0. induction H as [sq H0 Hok|sq sq' k t rows hl tl hnew tnew H [IH1 IH2] Hag Hlt Hinf Hok Hstep Hh Ht].
  - split; assumption.
  - destruct Ht as [T1 [T2 T3]]. split.
    + rewrite rev_app_distr. apply tsortedb_app; [exact IH1|apply (tsortedb_const _ t); intros e He; apply in_rev in He; apply (T2 e He)|].
      intros x y Hx Hy. apply in_rev in Hx. apply in_rev in Hy. destruct (T2 y Hy) as [E _]. rewrite E. apply IH2. exact Hx.
    + intros e He. apply in_app_or in He. destruct He as [He|He].
      * destruct (T2 e He) as [E _]. rewrite E. lra.
      * pose proof (IH2 e He). lra.
Qed.

Lemma drunF_tx_once : kind = kSIR -> forall sq K t rows hl tl, drunF g kind os tmin tmax st0 tl0 sq K t rows hl tl ->
  NoDup (map tx_v tl0) -> (forall e, In e tl0 -> In (tx_v e) (gnodes g) /\ st0 (tx_v e) <> stS) ->
  NoDup (map tx_v tl) /\ forall e, In e tl -> In (tx_v e) (gnodes g) /\ sq K (tx_v e) <> stS.
Proof.
  intros Hk sq K t rows hl tl H N0 L0. induction H as [sq H0 Hok|sq sq' k t rows hl tl hnew tnew H [IH1 IH2] Hag Hlt Hinf Hok Hstep Hh Ht].
  - split; [exact N0|]. intros e He. destruct (L0 e He) as [A B]. split; [exact A|]. rewrite (H0 _ A). exact B.
  - destruct Ht as [T1 [T2 T3]]. split.
    + rewrite map_app. apply NoDup_app_disj; [exact T1|exact IH1|].
      intros v Hv Hv'. apply in_map_iff in Hv. destruct Hv as [e [Ee He]]. apply in_map_iff in Hv'. destruct Hv' as [e' [Ee' He']].
      destruct (T2 e He) as [_ [_ [A _]]]. destruct (IH2 e' He') as [_ B]. apply B. rewrite Ee', <- Ee. exact A.
    + intros e He. apply in_app_or in He. destruct He as [He|He].
      * destruct (T2 e He) as [_ [A [_ [B _]]]]. split; [exact A|]. rewrite B. discriminate.
      * destruct (IH2 e He) as [A B]. split; [exact A|]. specialize (Hstep _ A). rewrite Hk in Hstep.
        destruct Hstep as [[K1 _]|[[K1 [K2|[_ K2]]]|[K1 K2]]]; [contradiction|rewrite K2; discriminate|rewrite K2; discriminate|rewrite K2; discriminate].
Qed.

End TX.

Lemma count_init : forall tmin l u, NoDup l -> In u l ->
  length (filter (fun e : tx => match tx_s e with None => N.eqb (tx_v e) u | Some _ => false end) (init_tx tmin l)) = 1%nat.
Proof.
  intros tmin l u Hnd. unfold init_tx. induction Hnd as [|x l Hx Hn IH]; intro Hu; [destruct Hu|].
  cbn [map filter tx_s tx_v fst snd]. destruct (N.eqb_spec x u) as [E|E].
  - subst x. cbn [length]. f_equal. rewrite InvestigationP.filter_none; [reflexivity|].
    intros e He. apply in_map_iff in He. destruct He as [y [Ey Hy]]. subst e. cbn [tx_s tx_v fst snd].
    apply N.eqb_neq. intro Q. subst y. contradiction.
  - destruct Hu as [Hu|Hu]; [contradiction|]. apply IH. exact Hu.
Qed.

(* ---------------- every full-data run passes the checker ---------------- *)
Section Accept.
Variable g : graph.
Variable kind : Gillespie.model_kind.
Variable os : bool.
Variable tmin : Q.
Variable tmax : xtime.
Variables i0 r0 : list node.
Hypothesis Hw : whole_steps tmin tmax.
Hypothesis Hi0 : forall v, In v i0 -> In v (gnodes g).
Hypothesis Hi0nd : NoDup i0.
Hypothesis Hdisj : forall v, In v i0 -> ~ In v r0.

Notation st0 := (init_status i0 r0).
Notation tl0 := (rev (init_tx tmin i0)).

Lemma st0_i0 : forall v, In v i0 -> st0 v = stI.
Proof.
  intros v Hv. unfold init_status. assert (M : mem v r0 = false) by (apply dmem_false; apply Hdisj; exact Hv).
  rewrite M. apply dmem_In in Hv. rewrite Hv. reflexivity.
Qed.

Theorem drun_tx_accepted : forall K t st rows hl tl,
  drun g kind os tmin tmax true st0 tl0 K t st rows hl tl ->
  dtx_okb (sir_of kind) g i0 tmin (build_hist g tmin i0 r0 hl) (rev tl) = true.
Proof.
  intros K t st rows hl tl Hrun.
  destruct (drun_F g kind os tmin tmax st0 tl0 Hw K t st rows hl tl Hrun) as [sq [HF _]].
  destruct (drunF_tx g kind os tmin tmax st0 tl0 sq K t rows hl tl HF) as [pre [Etl [P1 P2]]].
  assert (Etxs : rev tl = init_tx tmin i0 ++ rev pre) by (rewrite Etl, rev_app_distr, rev_involutive; reflexivity).
  assert (Hsrc : forall e, In e pre -> sourced e = true).
  { intros e He. destruct (P1 e He) as [j [u [_ [_ [Es _]]]]]. unfold sourced. rewrite Es. reflexivity. }
  assert (Hinit : forall e, In e (init_tx tmin i0) -> tx_s e = None /\ tx_t e = tmin - 1 /\ In (tx_v e) i0).
  { intros e He. unfold init_tx in He. apply in_map_iff in He. destruct He as [u [Ee Hu]]. subst e. repeat split. exact Hu. }
  assert (Hassoc : forall u, In u (gnodes g) -> assocN (build_hist g tmin i0 r0 hl) u = Some (hist_of_log tmin st0 hl u)).
  { intros u Hu. unfold build_hist. cbv zeta. erewrite assocN_map by exact Hu. reflexivity. }
  assert (Hst : forall u j, In u (gnodes g) -> (j <= K)%nat -> status_in (build_hist g tmin i0 r0 hl) u (tq tmin j) = Some (sq j u)).
  { intros u j Hu Hj. unfold status_in. rewrite (Hassoc u Hu).
    apply (drunF_status g kind os tmin tmax st0 tl0 sq K t rows hl tl HF u Hu j (tq tmin j) Hj); [apply Qle_refl|].
    intro L. apply tq_lt. lia. }
  unfold dtx_okb. repeat (apply andb_true_iff; split).
  - (* time order *)
    apply (drunF_tx_sorted g kind os tmin tmax st0 tl0 sq K t rows hl tl HF).
    + rewrite rev_involutive. apply (tsortedb_const _ (tmin - 1)). intros e He. apply (Hinit e He).
    + intros e He. apply in_rev in He. destruct (Hinit e He) as [_ [E _]]. rewrite E. lra.
  - (* source-less entries *)
    apply forallb_forall. intros e He. destruct (tx_s e) eqn:Es; [reflexivity|].
    rewrite Etxs in He. apply in_app_or in He. destruct He as [He|He].
    + destruct (Hinit e He) as [_ [E Hv]]. apply dmem_In in Hv. rewrite Hv, E. cbn [andb]. apply Qeq_bool_iff. reflexivity.
    + apply in_rev in He. apply Hsrc in He. unfold sourced in He. rewrite Es in He. discriminate.
  - (* one source-less entry per initial node *)
    apply forallb_forall. intros u Hu. apply Nat.eqb_eq. rewrite Etxs, filter_app, app_length, (count_init tmin i0 u Hi0nd Hu).
    rewrite InvestigationP.filter_none; [reflexivity|]. intros e He. apply in_rev in He. apply Hsrc in He.
    unfold sourced in He. destruct (tx_s e); [reflexivity|discriminate].
  - (* every sourced entry is valid *)
    apply forallb_forall. intros e He. unfold dentry_okb. destruct (tx_s e) as [u|] eqn:Es; [|reflexivity].
    rewrite Etxs in He. apply in_app_or in He. destruct He as [He|He]; [destruct (Hinit e He) as [E _]; congruence|].
    apply in_rev in He. destruct (P1 e He) as [j [u' [Hj [Et [Es' [Hu [Su [Hadj [Hv [Sv Sv']]]]]]]]]].
    rewrite Es in Es'. injection Es' as Eu. subst u'.
    rewrite Et, (Hst u j Hu) by lia. rewrite (Hst (tx_v e) j Hv) by lia. rewrite Su, Sv. cbn [is_st N.eqb].
    rewrite (proj2 (dmem_In _ _) Hu), (proj2 (dmem_In _ _) Hadj). cbn [andb].
    rewrite (proj2 (InvestigationP.qleb_t tmin (tq tmin j)) (tq_le tmin 0 j (Nat.le_0_l j))). cbn [andb].
    unfold infected_at. rewrite (Hassoc _ Hv). apply existsb_exists. exists (tq tmin (S j), stI). split.
    + unfold hist_of_log. right. apply (drunF_events g kind os tmin tmax st0 tl0 sq K t rows hl tl HF _ Hv).
      exists j. split; [exact Hj|]. rewrite Sv'. split; [reflexivity|]. rewrite Sv. discriminate.
    + cbn [fst snd tq]. rewrite N.eqb_refl, andb_true_r. apply Qeq_bool_iff. reflexivity.
  - (* every infection after tmin has exactly one entry *)
    apply forallb_forall. intros v Hv. rewrite (Hassoc v Hv). apply forallb_forall. intros e He.
    destruct (N.eqb (snd e) stI && Qltb tmin (fst e)) eqn:Ec; [|reflexivity].
    apply andb_true_iff in Ec. destruct Ec as [Ec1 Ec2]. apply N.eqb_eq in Ec1. apply InvestigationP.qltb_t in Ec2.
    unfold hist_of_log in He. destruct He as [He|He]; [subst e; cbn [fst] in Ec2; lra|].
    apply (drunF_events g kind os tmin tmax st0 tl0 sq K t rows hl tl HF v Hv) in He.
    destruct He as [j [Hj [Ee Hne]]]. subst e. cbn [fst snd] in *. rewrite Ec1 in Hne.
    destruct (drunF_steps g kind os tmin tmax st0 tl0 sq K t rows hl tl HF j Hj) as [Hstep _].
    assert (Sv : sq j v = stS).
    { specialize (Hstep v Hv). destruct kind.
      - destruct Hstep as [[K1 _]|[[K1 _]|[K1 K2]]]; [exact K1|contradiction|rewrite K2 in Ec1; discriminate].
      - destruct Hstep as [[K1 _]|[K1 _]]; [exact K1|contradiction]. }
    apply Nat.eqb_eq. unfold count_tx. rewrite Etxs, filter_app, app_length.
    rewrite (InvestigationP.filter_none _ (init_tx tmin i0)).
    2:{ intros e He. destruct (Hinit e He) as [E _]. rewrite E. apply andb_false_r. }
    cbn [length plus]. rewrite filter_rev_len. rewrite <- (P2 j v Hj Hv Sv Ec1). f_equal. apply filter_ext_in.
    intros e He. assert (Es := Hsrc e He). unfold sourced in Es. destruct (tx_s e); [|discriminate]. rewrite andb_true_r.
    f_equal. apply Qeqb_compat_r. cbn [tq]. ring.
  - (* SIR: nobody is infected twice *)
    destruct kind; cbn [sir_of]; [|reflexivity]. apply NoDup_nodupb. rewrite map_rev. apply NoDup_rev.
    apply (drunF_tx_once g kSIR os tmin tmax st0 tl0 eq_refl sq K t rows hl tl HF).
    + rewrite map_rev. apply NoDup_rev. unfold init_tx. rewrite map_map. cbn [tx_v snd]. rewrite map_id. exact Hi0nd.
    + intros e He. apply in_rev in He. destruct (Hinit e He) as [_ [_ Hin]]. split; [apply Hi0; exact Hin|].
      rewrite (st0_i0 _ Hin). discriminate.
Qed.

End Accept.

(* ---------------- the simulators ---------------- *)
Theorem dsir_tx_accepted : forall g R trec ord i0 r0o tmin tmax fuel ds out tr,
  wf_inputb g i0 (opt_list r0o) = true -> perm_oracle ord -> pick_sound R -> whole_steps tmin tmax ->
  exec (discrete_SIR g R trec ord (Some i0) r0o None tmin tmax true fuel) ds [] = (Ok out, tr) ->
  exists fd, so_full (o_sim out) = Some fd /\ dtx_okb true g i0 tmin (fd_hist fd) (fd_trans fd) = true.
Proof.
  intros g R trec ord i0 r0o tmin tmax fuel ds out tr Hwf Hord Hpick Hw H.
  destruct (wf_input_props g i0 _ Hwf) as [Hnd [Hadj [Hi0 [Hr0 [Hi0nd [Hr0nd Hdisj]]]]]].
  destruct (dsir_exec_run _ _ _ _ _ _ _ _ _ _ _ _ _ Hwf Hord (fun _ => Hpick) H) as [K [t [st [rows [hl [tl [Hrun [_ [_ Ef]]]]]]]]].
  eexists. split; [exact Ef|]. cbn [fd_hist fd_trans].
  apply (drun_tx_accepted g kSIR (onestep_of trec) tmin tmax i0 (opt_list r0o) Hw Hi0 Hi0nd Hdisj K t st rows hl tl Hrun).
Qed.

Theorem dsis_tx_accepted : forall g R ord i0 tmin tmax fuel ds out tr,
  wf_inputb g i0 [] = true -> perm_oracle ord -> pick_sound R -> whole_steps tmin tmax ->
  exec (basic_discrete_SIS_R g R ord (Some i0) None tmin tmax true fuel) ds [] = (Ok out, tr) ->
  exists fd, so_full (o_sim out) = Some fd /\ dtx_okb false g i0 tmin (fd_hist fd) (fd_trans fd) = true.
Proof.
  intros g R ord i0 tmin tmax fuel ds out tr Hwf Hord Hpick Hw H.
  destruct (wf_input_props g i0 _ Hwf) as [Hnd [Hadj [Hi0 [Hr0 [Hi0nd [Hr0nd Hdisj]]]]]].
  destruct (dsis_exec_run _ _ _ _ _ _ _ _ _ _ _ Hwf Hord (fun _ => Hpick) H) as [K [t [st [rows [hl [tl [Hrun [_ [_ Ef]]]]]]]]].
  eexists. split; [exact Ef|]. cbn [fd_hist fd_trans].
  apply (drun_tx_accepted g kSIS true tmin tmax i0 [] Hw Hi0 Hi0nd Hdisj K t st rows hl tl Hrun).
Qed.

Lemma drunF_init : forall g kind os tmin tmax st0 tl0 sq K t rows hl tl, drunF g kind os tmin tmax st0 tl0 sq K t rows hl tl ->
  forall v, In v (gnodes g) -> sq O v = st0 v.
Proof.
  intros g kind os tmin tmax st0 tl0 sq K t rows hl tl H. induction H as [sq H0 Hok|sq sq' k t rows hl tl hnew tnew H IH Hag]; [exact H0|].
  intros v Hv. rewrite (Hag O v) by lia. apply IH. exact Hv.
Qed.

(* ---------------- lock-step statement: rows, histories and transmissions of one run ---------------- *)
Definition tx_lockstep (g : graph) (kind : Gillespie.model_kind) (os : bool) (tmin : Q) (i0 r0 : list node)
    (rows : list row) (hs : list (node * history)) (txs : list tx) (sq : nat -> node -> N) (K : nat) (pre : list tx) : Prop :=
  txs = init_tx tmin i0 ++ rev pre /\
  (forall e, In e pre -> exists j u, (j < K)%nat /\ tx_t e = tq tmin j /\ tx_s e = Some u /\ In u (gnodes g) /\ sq j u = stI /\
      In (tx_v e) (gadj g u) /\ In (tx_v e) (gnodes g) /\ sq j (tx_v e) = stS /\ sq (S j) (tx_v e) = stI) /\
  (forall j v, (j < K)%nat -> In v (gnodes g) -> sq j v = stS -> sq (S j) v = stI ->
      length (filter (fun e => Qeqb (tx_t e) (tq tmin j) && N.eqb (tx_v e) v) pre) = 1%nat) /\
  rows = map (fun j => (tq tmin j, GillespieP.census g kind (sq j))) (seq 0 (S K)) /\
  (forall u j, In u (gnodes g) -> (j <= K)%nat -> status_in hs u (tq tmin j) = Some (sq j u)) /\
  (forall j, (j < K)%nat -> (exists u, In u (gnodes g) /\ sq j u = stI) /\ dstep g kind os (sq j) (sq (S j))) /\
  (forall v, In v (gnodes g) -> sq O v = init_status i0 r0 v).

Lemma drun_lockstep : forall g kind os tmin tmax i0 r0 K t st rows hl tl, whole_steps tmin tmax ->
  drun g kind os tmin tmax true (init_status i0 r0) (rev (init_tx tmin i0)) K t st rows hl tl ->
  exists sq pre, tx_lockstep g kind os tmin i0 r0 (rev rows) (build_hist g tmin i0 r0 hl) (rev tl) sq K pre.
Proof.
  intros g kind os tmin tmax i0 r0 K t st rows hl tl Hw Hrun.
  destruct (drun_F g kind os tmin tmax _ _ Hw K t st rows hl tl Hrun) as [sq [HF _]].
  destruct (drunF_tx g kind os tmin tmax _ _ sq K t rows hl tl HF) as [pre [Etl [P1 P2]]].
  exists sq, pre. split; [rewrite Etl, rev_app_distr, rev_involutive; reflexivity|]. split; [exact P1|]. split; [exact P2|].
  split; [apply (drunF_rows g kind os tmin tmax _ _ sq K t rows hl tl HF)|]. split.
  - intros u j Hu Hj. unfold status_in, build_hist. cbv zeta. erewrite assocN_map by exact Hu.
    apply (drunF_status g kind os tmin tmax _ _ sq K t rows hl tl HF u Hu j (tq tmin j) Hj); [apply Qle_refl|].
    intro L. apply tq_lt. lia.
  - split.
    + intros j Hj. destruct (drunF_steps g kind os tmin tmax _ _ sq K t rows hl tl HF j Hj) as [Hs [Hi _]]. split; assumption.
    + apply (drunF_init g kind os tmin tmax _ _ sq K t rows hl tl HF).
Qed.

Theorem dsir_tx_lockstep : forall g R trec ord i0 r0o tmin tmax fuel ds out tr,
  wf_inputb g i0 (opt_list r0o) = true -> perm_oracle ord -> pick_sound R -> whole_steps tmin tmax ->
  exec (discrete_SIR g R trec ord (Some i0) r0o None tmin tmax true fuel) ds [] = (Ok out, tr) ->
  exists fd sq K pre, so_full (o_sim out) = Some fd /\
    tx_lockstep g kSIR (onestep_of trec) tmin i0 (opt_list r0o) (so_rows (o_sim out)) (fd_hist fd) (fd_trans fd) sq K pre.
Proof.
  intros g R trec ord i0 r0o tmin tmax fuel ds out tr Hwf Hord Hpick Hw H.
  destruct (dsir_exec_run _ _ _ _ _ _ _ _ _ _ _ _ _ Hwf Hord (fun _ => Hpick) H) as [K [t [st [rows [hl [tl [Hrun [_ [Er Ef]]]]]]]]].
  destruct (drun_lockstep _ _ _ _ _ _ _ _ _ _ _ _ _ Hw Hrun) as [sq [pre L]].
  eexists. exists sq, K, pre. split; [exact Ef|]. rewrite Er. exact L.
Qed.

Theorem dsis_tx_lockstep : forall g R ord i0 tmin tmax fuel ds out tr,
  wf_inputb g i0 [] = true -> perm_oracle ord -> pick_sound R -> whole_steps tmin tmax ->
  exec (basic_discrete_SIS_R g R ord (Some i0) None tmin tmax true fuel) ds [] = (Ok out, tr) ->
  exists fd sq K pre, so_full (o_sim out) = Some fd /\
    tx_lockstep g kSIS true tmin i0 [] (so_rows (o_sim out)) (fd_hist fd) (fd_trans fd) sq K pre.
Proof.
  intros g R ord i0 tmin tmax fuel ds out tr Hwf Hord Hpick Hw H.
  destruct (dsis_exec_run _ _ _ _ _ _ _ _ _ _ _ Hwf Hord (fun _ => Hpick) H) as [K [t [st [rows [hl [tl [Hrun [_ [Er Ef]]]]]]]]].
  destruct (drun_lockstep _ _ _ _ _ _ _ _ _ _ _ _ _ Hw Hrun) as [sq [pre L]].
  eexists. exists sq, K, pre. split; [exact Ef|]. rewrite Er. exact L.
Qed.

(* SIR forest: a node that is infectious after j steps is initially infected or the target of an
   entry of an earlier step; so the source of every entry is (with "nobody is the target of two
   entries") the target of exactly one earlier entry or a root *)
Lemma lockstep_infectious_has_entry : forall g os tmin i0 r0 rows hs txs sq K pre,
  tx_lockstep g kSIR os tmin i0 r0 rows hs txs sq K pre ->
  forall j u, (j <= K)%nat -> In u (gnodes g) -> sq j u = stI ->
  In u i0 \/ exists e j', In e pre /\ tx_v e = u /\ (j' < j)%nat /\ tx_t e == tq tmin j'.
Proof.
  intros g os tmin i0 r0 rows hs txs sq K pre [_ [P1 [P2 [_ [_ [P5 P6]]]]]]. induction j as [|j IH]; intros u Hj Hu Hi.
  - left. rewrite (P6 u Hu) in Hi. unfold init_status in Hi. destruct (mem u r0); [discriminate|].
    destruct (mem u i0) eqn:E; [apply dmem_In; exact E|discriminate].
  - destruct (P5 j) as [_ Hstep]; [lia|]. specialize (Hstep u Hu). cbn match in Hstep.
    destruct Hstep as [[K1 [K2|[K2 _]]]|[[K1 _]|[_ K2]]].
    + rewrite K2 in Hi. discriminate.
    + right. assert (L : length (filter (fun e => Qeqb (tx_t e) (tq tmin j) && N.eqb (tx_v e) u) pre) = 1%nat) by (apply P2; [lia|assumption..]).
      destruct (filter (fun e => Qeqb (tx_t e) (tq tmin j) && N.eqb (tx_v e) u) pre) as [|e l] eqn:Ef; [discriminate|].
      assert (Hin : In e (filter (fun e => Qeqb (tx_t e) (tq tmin j) && N.eqb (tx_v e) u) pre)) by (rewrite Ef; left; reflexivity).
      apply filter_In in Hin. destruct Hin as [Hin Hp]. apply andb_true_iff in Hp. destruct Hp as [A B].
      exists e, j. split; [exact Hin|]. split; [apply N.eqb_eq; exact B|]. split; [lia|apply Qeq_bool_iff; exact A].
    + destruct (IH u) as [A|[e [j' [A [B [C D]]]]]]; [lia|exact Hu|exact K1|left; exact A|].
      right. exists e, j'. split; [exact A|]. split; [exact B|]. split; [lia|exact D].
    + rewrite K2 in Hi. discriminate.
Qed.

(* ---------------- what acceptance of the checker means ---------------- *)
Lemma tsortedb_adjacent : forall l, tsortedb l = true -> forall l1 a b l2, l = l1 ++ a :: b :: l2 -> tx_t a <= tx_t b.
Proof.
  induction l as [|x l IH]; intros H l1 a b l2 E; [destruct l1; discriminate|].
  cbn [tsortedb] in H. destruct l as [|y l']; [destruct l1 as [|? [|? ?]]; discriminate|].
  apply andb_true_iff in H. destruct H as [H1 H2]. destruct l1 as [|z l1].
  - injection E as E1 E2 E3. subst. apply InvestigationP.qleb_t. exact H1.
  - injection E as E1 E2. apply (IH H2 l1 a b l2 E2).
Qed.

Theorem dtx_okb_sound : forall sir g i0 tmin hs txs, dtx_okb sir g i0 tmin hs txs = true ->
  (forall l1 a b l2, txs = l1 ++ a :: b :: l2 -> tx_t a <= tx_t b) /\
  (forall e, In e txs -> tx_s e = None -> In (tx_v e) i0 /\ tx_t e == tmin - 1) /\
  (forall u, In u i0 -> exists e, In e txs /\ tx_s e = None /\ tx_v e = u) /\
  (forall e u, In e txs -> tx_s e = Some u ->
     In u (gnodes g) /\ In (tx_v e) (gadj g u) /\ tmin <= tx_t e /\
     status_in hs u (tx_t e) = Some stI /\ status_in hs (tx_v e) (tx_t e) = Some stS /\
     exists h e', assocN hs (tx_v e) = Some h /\ In e' h /\ fst e' == tx_t e + 1 /\ snd e' = stI) /\
  (forall v h e', In v (gnodes g) -> assocN hs v = Some h -> In e' h -> snd e' = stI -> tmin < fst e' ->
     count_tx txs (fst e' - 1) v = 1%nat) /\
  (sir = true -> NoDup (map tx_v txs)).
Proof.
  intros sir g i0 tmin hs txs H. unfold dtx_okb in H.
  apply andb_true_iff in H. destruct H as [H H6]. apply andb_true_iff in H. destruct H as [H H5].
  apply andb_true_iff in H. destruct H as [H H4]. apply andb_true_iff in H. destruct H as [H H3].
  apply andb_true_iff in H. destruct H as [H1 H2].
  rewrite forallb_forall in H2, H3, H4, H5.
  split; [apply tsortedb_adjacent; exact H1|]. split.
  { intros e He Es. specialize (H2 e He). cbv beta in H2. rewrite Es in H2. apply andb_true_iff in H2. destruct H2 as [A B].
    split; [apply dmem_In; exact A|apply Qeq_bool_iff; exact B]. }
  split.
  { intros u Hu. specialize (H3 u Hu). cbv beta in H3. apply Nat.eqb_eq in H3.
    destruct (filter (fun e : tx => match tx_s e with Some _ => false | None => N.eqb (tx_v e) u end) txs) as [|e l] eqn:Ef; [discriminate|].
    assert (Hin : In e (filter (fun e : tx => match tx_s e with Some _ => false | None => N.eqb (tx_v e) u end) txs)) by (rewrite Ef; left; reflexivity).
    apply filter_In in Hin. destruct Hin as [Hin Hp]. exists e. split; [exact Hin|]. destruct (tx_s e); [discriminate|].
    split; [reflexivity|apply N.eqb_eq; exact Hp]. }
  split.
  { intros e u He Es. specialize (H4 e He). unfold dentry_okb in H4. rewrite Es in H4.
    apply andb_true_iff in H4. destruct H4 as [H4 F]. apply andb_true_iff in H4. destruct H4 as [H4 E].
    apply andb_true_iff in H4. destruct H4 as [H4 D]. apply andb_true_iff in H4. destruct H4 as [H4 C].
    apply andb_true_iff in H4. destruct H4 as [A B].
    split; [apply dmem_In; exact A|]. split; [apply dmem_In; exact B|]. split; [apply InvestigationP.qleb_t; exact C|].
    assert (IS : forall o s, is_st o s = true -> o = Some s).
    { intros o s Ho. unfold is_st in Ho. destruct o as [x|]; [|discriminate]. apply N.eqb_eq in Ho. subst x. reflexivity. }
    split; [apply IS; exact D|]. split; [apply IS; exact E|].
    unfold infected_at in F. destruct (assocN hs (tx_v e)) as [h|]; [|discriminate].
    apply existsb_exists in F. destruct F as [e' [He' Fe]]. apply andb_true_iff in Fe. destruct Fe as [F1 F2].
    exists h, e'. split; [reflexivity|]. split; [exact He'|]. split; [apply Qeq_bool_iff; exact F1|apply N.eqb_eq; exact F2]. }
  split.
  { intros v h e' Hv Eh He' Es Hlt. specialize (H5 v Hv). cbv beta in H5. rewrite Eh in H5. rewrite forallb_forall in H5.
    specialize (H5 e' He'). cbv beta in H5. rewrite Es in H5. cbn [N.eqb] in H5.
    rewrite (proj2 (InvestigationP.qltb_t tmin (fst e')) Hlt) in H5. cbn [andb] in H5. apply Nat.eqb_eq. exact H5. }
  intro Es. subst sir. apply nodupb_NoDup. exact H6.
Qed.
