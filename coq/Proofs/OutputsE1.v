(* C06, output layer: per-entry-point theorems for the solver-level functions whose state is a short vector of
   scalars or one block of degree classes followed by scalars (homogeneous mean field / pairwise, compact pairwise,
   super compact pairwise, compact effective degree, EBCM).  Each theorem: the returned tuple is `shaped`
   (times = linspace, tcount rows, the solver started at the stated X0, documented names in documented order),
   row 0 of every series is the requested quantity, S+I(+R) at every row is the structural total. *)
From EoNV Require Import Prelude Graph Aux Vec IC Wrappers VecP Outputs OutputsP.
From Coq Require Import Lqa Setoid Morphisms.

Ltac inv_run H OK Hn :=
  let x0 := fresh "x0" in let asm := fresh "asm" in let o := fresh "o" in let x := fresh "x" in
  destruct (run_inv _ _ _ _ _ _ OK Hn H) as (x0 & asm & o & x & F);
  let Hm := fresh "Hm" in pose proof (rf_model F) as Hm; injection Hm as <- <-.
Ltac fin := repeat (split || intro); try discriminate; try reflexivity; try (solve [ring | lra]).
Ltac shp F full := split; [repeat split; [apply (rf_times F)|apply (rf_len F)|apply (rf_X0 F)|rewrite (rf_names F); try destruct full; reflexivity]|].
Ltac rd F Hn := rewrite ?(rf_s F) by exact Hn; rewrite ?(rf_v F) by exact Hn; rewrite ?(rf_m F) by exact Hn.
Ltac look := cbn [lift map fst snd on_of oget oname_eqb app].
Ltac tl F H1 W := rd F H1; unfold sser, vser, W, comp, vsumt, dlast, tlast; look.

Lemma vec2 (v : vec) : length v = 2%nat -> exists a b, v = [a; b].
Proof. destruct v as [|a [|b [|c v]]]; cbn; intros H; try discriminate. eauto. Qed.

(* ---------------- homogeneous mean field ---------------- *)
Lemma out_SIS_homogeneous_meanfield sv S0 I0 tmin tmax n r :
  msolver_ok sv -> (0 < n)%nat -> run_model (m_SIS_homogeneous_meanfield S0 I0) tmin tmax n sv = Ok r ->
  shaped r tmin tmax n [S0; I0] [oS; oI] /\
  sval oS 0 r = S0 /\ sval oI 0 r = I0 /\
  (forall j, (j < n)%nat -> sval oS j r + sval oI j r == vsum (nth j (sv [S0; I0] (linspace tmin tmax n)) [])).
Proof.
  intros OK Hn H. inv_run H OK Hn. pose proof (rf_asm F) as HA. unfold via in HA. injection HA as <-.
  pose proof (rf_row0 F) as H0. unfold X0_SIS_homogeneous_meanfield in *. shp F true.
  rd F Hn. unfold sser, SIS_homogeneous_meanfield, comp. look. rewrite !H0. cbn [vnth nth]. fin.
  tl F H1 SIS_homogeneous_meanfield. pose proof (rf_width F j H1) as W. cbn [length] in W.
  destruct (vec2 _ W) as (a & b & E). rewrite (rf_x F) in E. unfold traj_of in E. rewrite E.
  rewrite (rf_x F). unfold traj_of. rewrite E. cbn [vnth nth]. rewrite !vsum_cons, vsum_nil. ring.
Qed.

(* with a solver that keeps the sum of the components (the flow of _dSIS_homogeneous_meanfield_ does: Props/C06.v) *)
Lemma out_SIS_homogeneous_meanfield_conserve sv S0 I0 tmin tmax n r :
  msolver_ok sv -> preserves vsum sv -> (0 < n)%nat -> run_model (m_SIS_homogeneous_meanfield S0 I0) tmin tmax n sv = Ok r ->
  forall j, (j < n)%nat -> sval oS j r + sval oI j r == S0 + I0.
Proof.
  intros OK PR Hn H j Hj. destruct (out_SIS_homogeneous_meanfield sv S0 I0 tmin tmax n r OK Hn H) as (_ & _ & _ & C).
  rewrite (C j Hj). rewrite (PR [S0; I0] (linspace tmin tmax n) j) by (rewrite linspace_length; exact Hj). rewrite !vsum_cons, vsum_nil. ring.
Qed.

Lemma out_SIR_homogeneous_meanfield sv S0 I0 R0 tmin tmax n r :
  msolver_ok sv -> (0 < n)%nat -> run_model (m_SIR_homogeneous_meanfield S0 I0 R0) tmin tmax n sv = Ok r ->
  shaped r tmin tmax n [S0; I0] [oS; oI; oR] /\
  sval oS 0 r = S0 /\ sval oI 0 r = I0 /\ sval oR 0 r == R0 /\
  (forall j, (j < n)%nat -> sval oS j r + sval oI j r + sval oR j r == S0 + I0 + R0).
Proof.
  intros OK Hn H. inv_run H OK Hn. pose proof (rf_asm F) as HA. unfold via in HA. injection HA as <-.
  pose proof (rf_row0 F) as H0. unfold X0_SIR_homogeneous_meanfield in *. shp F true.
  rd F Hn. unfold sser, SIR_homogeneous_meanfield, comp. look. rewrite !H0. cbn [vnth nth]. fin.
  tl F H1 SIR_homogeneous_meanfield. ring.
Qed.

(* ---------------- homogeneous pairwise ---------------- *)
Lemma out_SIS_homogeneous_pairwise sv S0 I0 SI0 SS0 nn full tmin tmax n r :
  msolver_ok sv -> (0 < n)%nat -> run_model (m_SIS_homogeneous_pairwise S0 I0 SI0 SS0 nn full) tmin tmax n sv = Ok r ->
  shaped r tmin tmax n [S0; SI0; SS0] (if full then [oS; oI; oSI; oSS; oII] else [oS; oI]) /\
  sval oS 0 r = S0 /\ sval oI 0 r == I0 /\
  (full = true -> sval oSI 0 r = SI0 /\ sval oSS 0 r = SS0 /\ sval oII 0 r == (S0 + I0) * nn - SS0 - 2 * SI0) /\
  (forall j, (j < n)%nat -> sval oS j r + sval oI j r == S0 + I0).
Proof.
  intros OK Hn H. inv_run H OK Hn. pose proof (rf_asm F) as HA. unfold viar, SIS_homogeneous_pairwise in HA.
  destruct (Qltb _ _); [discriminate|]. cbn [rbind] in HA. injection HA as <-.
  pose proof (rf_row0 F) as H0. unfold X0_SIS_homogeneous_pairwise in *. shp F full.
  rd F Hn. unfold sser, comp. destruct full; look; rewrite !H0; cbn [vnth nth]; fin; rd F H1; unfold sser; look; ring.
Qed.
Lemma accepts_SIS_homogeneous_pairwise sv S0 I0 SI0 SS0 nn full tmin tmax n :
  SS0 + SI0 * 2 <= nn * (S0 + I0) -> exists r, run_model (m_SIS_homogeneous_pairwise S0 I0 SI0 SS0 nn full) tmin tmax n sv = Ok r.
Proof.
  intros G. eapply run_ok; [reflexivity|]. intros x. unfold viar, SIS_homogeneous_pairwise.
  unfold Qltb. destruct (Qlt_le_dec _ _) as [L|L]; [exfalso; lra|]. cbn [rbind]. eauto.
Qed.

Lemma out_SIR_homogeneous_pairwise sv S0 I0 R0 SI0 SS0 nn full tmin tmax n r :
  msolver_ok sv -> (0 < n)%nat -> run_model (m_SIR_homogeneous_pairwise S0 I0 R0 SI0 SS0 nn full) tmin tmax n sv = Ok r ->
  shaped r tmin tmax n [S0; I0; SI0; SS0] (if full then [oS; oI; oR; oSI; oSS] else [oS; oI; oR]) /\
  sval oS 0 r = S0 /\ sval oI 0 r = I0 /\ sval oR 0 r == R0 /\
  (full = true -> sval oSI 0 r = SI0 /\ sval oSS 0 r = SS0) /\
  (forall j, (j < n)%nat -> sval oS j r + sval oI j r + sval oR j r == S0 + I0 + R0).
Proof.
  intros OK Hn H. inv_run H OK Hn. pose proof (rf_asm F) as HA. unfold viar, SIR_homogeneous_pairwise in HA.
  destruct (Qltb _ _); [discriminate|]. cbn [rbind] in HA. injection HA as <-.
  pose proof (rf_row0 F) as H0. unfold X0_SIR_homogeneous_pairwise in *. shp F full.
  rd F Hn. unfold sser, comp. destruct full; look; rewrite !H0; cbn [vnth nth]; fin; rd F H1; unfold sser; look; ring.
Qed.
Lemma accepts_SIR_homogeneous_pairwise sv S0 I0 R0 SI0 SS0 nn full tmin tmax n :
  SS0 + 2 * SI0 <= nn * (S0 + I0 + R0) -> exists r, run_model (m_SIR_homogeneous_pairwise S0 I0 R0 SI0 SS0 nn full) tmin tmax n sv = Ok r.
Proof.
  intros G. eapply run_ok; [reflexivity|]. intros x. unfold viar, SIR_homogeneous_pairwise.
  unfold Qltb. destruct (Qlt_le_dec _ _) as [L|L]; [exfalso; lra|]. cbn [rbind]. eauto.
Qed.

(* ---------------- compact pairwise ---------------- *)
Lemma vsub_vadd_cancel a b : length a = length b -> veq (vsub (vadd a b) a) b.
Proof.
  revert b. induction a as [|x a IH]; intros [|y b] H; cbn in H; try discriminate; [constructor|].
  change (vsub (vadd (x :: a) (y :: b)) (x :: a)) with ((x + y - x) :: vsub (vadd a b) a). constructor; [ring|apply IH; congruence].
Qed.

Lemma out_SIS_compact_pairwise sv Sk0 Ik0 SI0 SS0 II0 full tmin tmax n r :
  msolver_ok sv -> (0 < n)%nat -> length Sk0 = length Ik0 ->
  run_model (m_SIS_compact_pairwise Sk0 Ik0 SI0 SS0 II0 full) tmin tmax n sv = Ok r ->
  shaped r tmin tmax n (Sk0 ++ [SI0; SS0]) (if full then [oS; oI; oSk; oIk; oSI; oSS; oII] else [oS; oI]) /\
  sval oS 0 r = vsum Sk0 /\ sval oI 0 r == vsum Ik0 /\
  (full = true -> vval oSk 0 r = Sk0 /\ veq (vval oIk 0 r) Ik0 /\ sval oSI 0 r = SI0 /\ sval oSS 0 r = SS0 /\ sval oII 0 r == II0) /\
  (forall j, (j < n)%nat -> sval oS j r + sval oI j r == vsum Sk0 + vsum Ik0).
Proof.
  intros OK Hn HL H. inv_run H OK Hn. pose proof (rf_asm F) as HA. unfold via in HA. injection HA as <-.
  pose proof (rf_row0 F) as H0. unfold X0_SIS_compact_pairwise in *. shp F full.
  assert (D0 : drop_last 2 (x 0%nat) = Sk0) by (rewrite H0; apply drop_last_app; reflexivity).
  assert (T0 : take_last 2 (x 0%nat) = [SI0; SS0]) by (rewrite H0; apply take_last_app; reflexivity).
  assert (CONS : forall j, (j < n)%nat -> vsum (drop_last 2 (x j)) + vsum (vsub (vadd Sk0 Ik0) (drop_last 2 (x j))) == vsum Sk0 + vsum Ik0).
  { intros j Hj. pose proof (rf_width F j Hj) as W. rewrite app_length in W. cbn [length] in W.
    rewrite vsum_vsub by (rewrite vadd_length; unfold drop_last; rewrite firstn_length; lia).
    rewrite vsum_vadd by exact HL. ring. }
  rd F Hn. unfold sser, vser, SIS_compact_pairwise, vsumt, dlast, tlast.
  destruct full; look; rewrite ?D0, ?T0; cbn [vnth nth].
  - split; [reflexivity|]. split; [apply vsum_veq, vsub_vadd_cancel; exact HL|].
    split; [intros _; repeat split; try reflexivity; [apply vsub_vadd_cancel; exact HL|ring]|].
    intros j Hj. tl F Hj SIS_compact_pairwise. apply CONS. exact Hj.
  - split; [reflexivity|]. split; [apply vsum_veq, vsub_vadd_cancel; exact HL|]. split; [discriminate|].
    intros j Hj. tl F Hj SIS_compact_pairwise. apply CONS. exact Hj.
Qed.

(* SIS_compact_effective_degree is SIS_compact_pairwise with the arguments in the same positions *)
Lemma out_SIS_compact_effective_degree_is_compact_pairwise Sk0 Ik0 SI0 SS0 II0 full :
  m_SIS_compact_effective_degree Sk0 Ik0 SI0 SS0 II0 full = m_SIS_compact_pairwise Sk0 Ik0 SI0 SS0 II0 full.
Proof. reflexivity. Qed.

Lemma out_SIR_compact_pairwise sv Sk0 I0 R0 SS0 SI0 full tmin tmax n r :
  msolver_ok sv -> (0 < n)%nat -> run_model (m_SIR_compact_pairwise Sk0 I0 R0 SS0 SI0 full) tmin tmax n sv = Ok r ->
  shaped r tmin tmax n (Sk0 ++ [SS0; SI0; R0]) (if full then [oSk; oI; oR; oSS; oSI] else [oS; oI; oR]) /\
  (full = false -> sval oS 0 r = vsum Sk0) /\ sval oI 0 r == I0 /\ sval oR 0 r = R0 /\
  (full = true -> vval oSk 0 r = Sk0 /\ sval oSS 0 r = SS0 /\ sval oSI 0 r = SI0) /\
  (forall j, (j < n)%nat -> (if full then vsum (vval oSk j r) else sval oS j r) + sval oI j r + sval oR j r == I0 + R0 + vsum Sk0).
Proof.
  intros OK Hn H. inv_run H OK Hn. pose proof (rf_asm F) as HA. unfold via in HA. injection HA as <-.
  pose proof (rf_row0 F) as H0. unfold X0_SIR_compact_pairwise in *. shp F full.
  assert (D0 : drop_last 3 (x 0%nat) = Sk0) by (rewrite H0; apply drop_last_app; reflexivity).
  assert (T0 : take_last 3 (x 0%nat) = [SS0; SI0; R0]) by (rewrite H0; apply take_last_app; reflexivity).
  rd F Hn. unfold sser, vser, SIR_compact_pairwise, vsumt, dlast, tlast.
  destruct full; look; rewrite ?D0, ?T0; cbn [vnth nth]; fin; tl F H1 SIR_compact_pairwise; ring.
Qed.

(* ---------------- super compact pairwise ---------------- *)
Lemma out_SIS_super_compact_pairwise sv S0 I0 SS0 SI0 II0 full tmin tmax n r :
  msolver_ok sv -> (0 < n)%nat -> run_model (m_SIS_super_compact_pairwise S0 I0 SS0 SI0 II0 full) tmin tmax n sv = Ok r ->
  shaped r tmin tmax n [I0; SS0; SI0; II0] (if full then [oS; oI; oSS; oSI; oII] else [oS; oI]) /\
  sval oS 0 r == S0 /\ sval oI 0 r = I0 /\
  (full = true -> sval oSS 0 r = SS0 /\ sval oSI 0 r = SI0 /\ sval oII 0 r = II0) /\
  (forall j, (j < n)%nat -> sval oS j r + sval oI j r == S0 + I0).
Proof.
  intros OK Hn H. inv_run H OK Hn. pose proof (rf_asm F) as HA. unfold via in HA. injection HA as <-.
  pose proof (rf_row0 F) as H0. unfold X0_SIS_super_compact_pairwise in *. shp F full.
  rd F Hn. unfold sser, SIS_super_compact_pairwise, comp. destruct full; look; rewrite !H0; cbn [vnth nth]; fin; tl F H1 SIS_super_compact_pairwise; ring.
Qed.

Lemma out_SIR_super_compact_pairwise sv R0 SS0 SI0 N psihat full tmin tmax n r :
  msolver_ok sv -> (0 < n)%nat -> run_model (m_SIR_super_compact_pairwise R0 SS0 SI0 N psihat full) tmin tmax n sv = Ok r ->
  shaped r tmin tmax n [1; SS0; SI0; R0] (if full then [oS; oI; oR; oSS; oSI] else [oS; oI; oR]) /\
  sval oS 0 r = N * psihat 1 /\ sval oI 0 r == N - N * psihat 1 - R0 /\ sval oR 0 r = R0 /\
  (full = true -> sval oSS 0 r = SS0 /\ sval oSI 0 r = SI0) /\
  (forall j, (j < n)%nat -> sval oS j r + sval oI j r + sval oR j r == N).
Proof.
  intros OK Hn H. inv_run H OK Hn. pose proof (rf_asm F) as HA. unfold via in HA. injection HA as <-.
  pose proof (rf_row0 F) as H0. unfold X0_SIR_super_compact_pairwise in *. shp F full.
  rd F Hn. unfold sser, SIR_super_compact_pairwise, comp. destruct full; look; rewrite !H0; cbn [vnth nth]; fin; tl F H1 SIR_super_compact_pairwise; ring.
Qed.

(* ---------------- compact effective degree (SIR) ---------------- *)
Lemma out_SIR_compact_effective_degree sv Skappa0 I0 R0 SI0 full tmin tmax n r :
  msolver_ok sv -> (0 < n)%nat -> run_model (m_SIR_compact_effective_degree Skappa0 I0 R0 SI0 full) tmin tmax n sv = Ok r ->
  shaped r tmin tmax n (Skappa0 ++ [R0; SI0]) (if full then [oS; oI; oR; oSkappa; oSI] else [oS; oI; oR]) /\
  sval oS 0 r = vsum Skappa0 /\ sval oI 0 r == I0 /\ sval oR 0 r = R0 /\
  (full = true -> vval oSkappa 0 r = Skappa0 /\ sval oSI 0 r = SI0) /\
  (forall j, (j < n)%nat -> sval oS j r + sval oI j r + sval oR j r == vsum Skappa0 + I0 + R0).
Proof.
  intros OK Hn H. inv_run H OK Hn. pose proof (rf_asm F) as HA. unfold via in HA. injection HA as <-.
  pose proof (rf_row0 F) as H0. unfold X0_SIR_compact_effective_degree in *. shp F full.
  assert (D0 : drop_last 2 (x 0%nat) = Skappa0) by (rewrite H0; apply drop_last_app; reflexivity).
  assert (T0 : take_last 2 (x 0%nat) = [R0; SI0]) by (rewrite H0; apply take_last_app; reflexivity).
  rd F Hn. unfold sser, vser, SIR_compact_effective_degree, vsumt, dlast, tlast.
  destruct full; look; rewrite ?D0, ?T0; cbn [vnth nth]; fin; tl F H1 SIR_compact_effective_degree; ring.
Qed.

(* ---------------- EBCM ---------------- *)
Lemma out_EBCM sv N psihat R0 full tmin tmax n r :
  msolver_ok sv -> (0 < n)%nat -> run_model (m_EBCM N psihat R0 full) tmin tmax n sv = Ok r ->
  shaped r tmin tmax n [1; R0] (if full then [oS; oI; oR; oTheta] else [oS; oI; oR]) /\
  sval oS 0 r = N * psihat 1 /\ sval oI 0 r == N - N * psihat 1 - R0 /\ sval oR 0 r = R0 /\
  (full = true -> sval oTheta 0 r = 1) /\
  (forall j, (j < n)%nat -> sval oS j r + sval oI j r + sval oR j r == N).
Proof.
  intros OK Hn H. inv_run H OK Hn. pose proof (rf_asm F) as HA. unfold via in HA. injection HA as <-.
  pose proof (rf_row0 F) as H0. unfold X0_EBCM in *. shp F full.
  rd F Hn. unfold sser, EBCM, comp. destruct full; look; rewrite !H0; cbn [vnth nth]; fin; tl F H1 EBCM; ring.
Qed.

(* every one of these accepts all arguments *)
Lemma accepts_plain sv m x0 asm tmin tmax n : m = Ok (x0, fun x => via (asm x)) -> exists r, run_model m tmin tmax n sv = Ok r.
Proof. intros E. eapply run_ok; [exact E|]. intros x. unfold via. eauto. Qed.
