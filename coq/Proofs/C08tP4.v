(* C08, tree exactness on the two trees with 4 nodes (81 joint states): the path 0 - 1 - 2 - 3 and the star with
   centre 0 and leaves 1, 2, 3; arbitrary rate functions.  Evaluation + `ring` for the identities valid for every p
   (unclosed moment equations, closure residual = sum of minors); tangency is the general theorem of C08tT. *)
From EoNV Require Import Prelude Vec VecP Graph Rhs2D Rhs2DP Rhs2 Rhs2GenP Master C08tG C08tS C08tT.
From Coq Require Import Lqa Setoid Morphisms.

Ltac crunch := cbv beta iota zeta delta -[Qplus Qmult Qopp Qminus Qeq Qdiv Qinv inv0 Qle].
Ltac in2 H := cbn [In] in H; destruct H as [<-|[<-|[]]].
Ltac inSI := cbn [In]; auto.

Notation nl4 := (nodes_upto 4).
Lemma p4_wf : pb_wfb path4 nl4 idx_of = true. Proof. vm_compute. reflexivity. Qed.
Lemma s3_wf : pb_wfb star3 nl4 idx_of = true. Proof. vm_compute. reflexivity. Qed.
Lemma p4_sep1 : sepb path4 nl4 1 (only 0) = true. Proof. vm_compute. reflexivity. Qed.
Lemma p4_sep2 : sepb path4 nl4 2 (upto 1) = true. Proof. vm_compute. reflexivity. Qed.
Lemma s3_sep1 : sepb star3 nl4 0 (only 1) = true. Proof. vm_compute. reflexivity. Qed.
Lemma s3_sep2 : sepb star3 nl4 0 (only 2) = true. Proof. vm_compute. reflexivity. Qed.

(* residual identity for the path i - j - k, i on the U side: both orientations of the closure *)
Definition resid_id (p : state -> Q) (j : nat) (U : nat -> bool) (a : N) (i : nat) (b : N) (k : nat) : Prop :=
  m3 nl4 p a i stS j b k * mX nl4 p j - m2 nl4 p a i stS j * m2 nl4 p stS j b k == residual nl4 j U p a i b k /\
  m3 nl4 p b k stS j a i * mX nl4 p j - m2 nl4 p b k stS j * m2 nl4 p stS j a i == residual nl4 j U p a i b k.

Lemma closure_of_resid p j U a i b k : nonneg nl4 p -> inM nl4 j U p -> resid_id p j U a i b k ->
  closure_at nl4 p a i j b k /\ closure_at nl4 p b k j a i.
Proof.
  intros Hp HM [R1 R2]. rewrite (inM_residual0 nl4 j U p a i b k HM) in R1, R2.
  split; apply closure_of_product; try exact Hp; lra.
Qed.

Section P4.
Variables (tr : node -> node -> Q) (rc : node -> Q).

(* ---------------- path 0 - 1 - 2 - 3 ---------------- *)
Lemma p4_open p : veq (open_rhs path4 nl4 idx_of tr rc p) (marginals path4 nl4 (master_rhs path4 nl4 idx_of tr rc p)).
Proof. crunch. repeat constructor; ring. Qed.
Lemma p4_resid1 p a b : In a [stS; stI] -> In b [stS; stI] -> resid_id p 1 (only 0) a 0 b 2.
Proof. intros Ha Hb. in2 Ha; in2 Hb; split; crunch; ring. Qed.
Lemma p4_resid2 p a b : In a [stS; stI] -> In b [stS; stI] -> resid_id p 2 (upto 1) a 1 b 3.
Proof. intros Ha Hb. in2 Ha; in2 Hb; split; crunch; ring. Qed.

Definition p4_M (p : state -> Q) : Prop := inM nl4 1 (only 0) p /\ inM nl4 2 (upto 1) p.

Lemma p4_closure_on_paths p : nonneg nl4 p -> p4_M p -> closure_on_paths path4 nl4 idx_of p.
Proof.
  intros Hp [HM1 HM2] i j Hi Hj E.
  assert (C1 := fun a b Ha Hb => closure_of_resid p 1 (only 0) a 0 b 2 Hp HM1 (p4_resid1 p a b Ha Hb)).
  assert (C2 := fun a b Ha Hb => closure_of_resid p 2 (upto 1) a 1 b 3 Hp HM2 (p4_resid2 p a b Ha Hb)).
  destruct i as [|[|[|[|i]]]]; try (exfalso; cbv in Hi; lia); destruct j as [|[|[|[|j]]]]; try (exfalso; cbv in Hj; lia);
    try (exfalso; vm_compute in E; discriminate E); split; intros w Hw; vm_compute in Hw;
    repeat (destruct Hw as [<-|Hw]); try contradiction;
    change (idx_of 0%N) with 0%nat; change (idx_of 1%N) with 1%nat; change (idx_of 2%N) with 2%nat; change (idx_of 3%N) with 3%nat;
    repeat (lazymatch goal with |- _ /\ _ => split end);
    lazymatch goal with
    | |- closure_at _ _ ?a 0 1 ?b 2 => exact (proj1 (C1 a b ltac:(inSI) ltac:(inSI)))
    | |- closure_at _ _ ?b 2 1 ?a 0 => exact (proj2 (C1 a b ltac:(inSI) ltac:(inSI)))
    | |- closure_at _ _ ?a 1 2 ?b 3 => exact (proj1 (C2 a b ltac:(inSI) ltac:(inSI)))
    | |- closure_at _ _ ?b 3 2 ?a 1 => exact (proj2 (C2 a b ltac:(inSI) ltac:(inSI)))
    end.
Qed.

Theorem p4_exact_on_M p t : nonneg nl4 p -> p4_M p ->
  veq (dSIR_pair_based path4 nl4 idx_of tr rc (marginals path4 nl4 p) t)
      (marginals path4 nl4 (master_rhs path4 nl4 idx_of tr rc p)).
Proof.
  intros Hp HM. etransitivity; [|apply p4_open].
  apply (closed_eq_open path4 nl4 idx_of tr rc p4_wf p t). apply p4_closure_on_paths; assumption.
Qed.
Theorem p4_exact_on_M_generated p t : nonneg nl4 p -> p4_M p ->
  veq (g_dSIR_pair_based (marginals path4 nl4 p) t path4 nl4 idx_of tr rc)
      (marginals path4 nl4 (master_rhs path4 nl4 idx_of tr rc p)).
Proof.
  intros Hp HM. etransitivity; [apply (gen_dSIR_pair_based path4 nl4 idx_of tr rc p4_wf)|]. apply p4_exact_on_M; assumption.
Qed.

(* ---------------- star: centre 0, leaves 1, 2, 3 ---------------- *)
Lemma s3_open p : veq (open_rhs star3 nl4 idx_of tr rc p) (marginals star3 nl4 (master_rhs star3 nl4 idx_of tr rc p)).
Proof. crunch. repeat constructor; ring. Qed.
Lemma s3_resid12 p a b : In a [stS; stI] -> In b [stS; stI] -> resid_id p 0 (only 1) a 1 b 2.
Proof. intros Ha Hb. in2 Ha; in2 Hb; split; crunch; ring. Qed.
Lemma s3_resid13 p a b : In a [stS; stI] -> In b [stS; stI] -> resid_id p 0 (only 1) a 1 b 3.
Proof. intros Ha Hb. in2 Ha; in2 Hb; split; crunch; ring. Qed.
Lemma s3_resid23 p a b : In a [stS; stI] -> In b [stS; stI] -> resid_id p 0 (only 2) a 2 b 3.
Proof. intros Ha Hb. in2 Ha; in2 Hb; split; crunch; ring. Qed.

Definition s3_M (p : state -> Q) : Prop := inM nl4 0 (only 1) p /\ inM nl4 0 (only 2) p.

Lemma s3_closure_on_paths p : nonneg nl4 p -> s3_M p -> closure_on_paths star3 nl4 idx_of p.
Proof.
  intros Hp [HM1 HM2] i j Hi Hj E.
  assert (C12 := fun a b Ha Hb => closure_of_resid p 0 (only 1) a 1 b 2 Hp HM1 (s3_resid12 p a b Ha Hb)).
  assert (C13 := fun a b Ha Hb => closure_of_resid p 0 (only 1) a 1 b 3 Hp HM1 (s3_resid13 p a b Ha Hb)).
  assert (C23 := fun a b Ha Hb => closure_of_resid p 0 (only 2) a 2 b 3 Hp HM2 (s3_resid23 p a b Ha Hb)).
  destruct i as [|[|[|[|i]]]]; try (exfalso; cbv in Hi; lia); destruct j as [|[|[|[|j]]]]; try (exfalso; cbv in Hj; lia);
    try (exfalso; vm_compute in E; discriminate E); split; intros w Hw; vm_compute in Hw;
    repeat (destruct Hw as [<-|Hw]); try contradiction;
    change (idx_of 0%N) with 0%nat; change (idx_of 1%N) with 1%nat; change (idx_of 2%N) with 2%nat; change (idx_of 3%N) with 3%nat;
    repeat (lazymatch goal with |- _ /\ _ => split end);
    lazymatch goal with
    | |- closure_at _ _ ?a 1 0 ?b 2 => exact (proj1 (C12 a b ltac:(inSI) ltac:(inSI)))
    | |- closure_at _ _ ?b 2 0 ?a 1 => exact (proj2 (C12 a b ltac:(inSI) ltac:(inSI)))
    | |- closure_at _ _ ?a 1 0 ?b 3 => exact (proj1 (C13 a b ltac:(inSI) ltac:(inSI)))
    | |- closure_at _ _ ?b 3 0 ?a 1 => exact (proj2 (C13 a b ltac:(inSI) ltac:(inSI)))
    | |- closure_at _ _ ?a 2 0 ?b 3 => exact (proj1 (C23 a b ltac:(inSI) ltac:(inSI)))
    | |- closure_at _ _ ?b 3 0 ?a 2 => exact (proj2 (C23 a b ltac:(inSI) ltac:(inSI)))
    end.
Qed.

Theorem s3_exact_on_M p t : nonneg nl4 p -> s3_M p ->
  veq (dSIR_pair_based star3 nl4 idx_of tr rc (marginals star3 nl4 p) t)
      (marginals star3 nl4 (master_rhs star3 nl4 idx_of tr rc p)).
Proof.
  intros Hp HM. etransitivity; [|apply s3_open].
  apply (closed_eq_open star3 nl4 idx_of tr rc s3_wf p t). apply s3_closure_on_paths; assumption.
Qed.
Theorem s3_exact_on_M_generated p t : nonneg nl4 p -> s3_M p ->
  veq (g_dSIR_pair_based (marginals star3 nl4 p) t star3 nl4 idx_of tr rc)
      (marginals star3 nl4 (master_rhs star3 nl4 idx_of tr rc p)).
Proof.
  intros Hp HM. etransitivity; [apply (gen_dSIR_pair_based star3 nl4 idx_of tr rc s3_wf)|]. apply s3_exact_on_M; assumption.
Qed.
End P4.
