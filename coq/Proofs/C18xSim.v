(* C18 for the event-driven SIR, simple-contagion and complex-contagion simulators: the
   general part.  [FlagIndep.simrel] relates two sampler programs whose leaves are both
   values or both the same failure.  The three simulators treated here build the full-data
   object AFTER the last draw, and that construction can fail where the plain mode
   returns (an unreachable infinite time in a node history; Simulation_Investigation's
   constructor rejecting the statuses).  [simrelx] therefore compares LEAVES as results
   through a relation on results; everything above the leaves is as in [simrel]: same call,
   same arguments, related continuations.  Same for the sampler [bsamp] of
   Model/EventSIRConst.v (fast_SIR's constant-tau path with its binomial draw). *)
From EoNV Require Import Prelude Samp FlagIndep Graph EventSIR EventSIRConst.

Definition leaf {A} (m : samp A) : option (result A) :=
  match m with Ret a => Some (Ok a) | Fail e => Some (Err e) | _ => None end.

Inductive simrelx {A B} (R : result A -> result B -> Prop) : samp A -> samp B -> Prop :=
| sx_leaf : forall m1 m2 r1 r2, leaf m1 = Some r1 -> leaf m2 = Some r2 -> R r1 r2 -> simrelx R m1 m2
| sx_expo : forall r k1 k2, (forall d, simrelx R (k1 d) (k2 d)) -> simrelx R (Expo r k1) (Expo r k2)
| sx_flip : forall p a1 b1 a2 b2, simrelx R a1 a2 -> simrelx R b1 b2 -> simrelx R (Flip p a1 b1) (Flip p a2 b2)
| sx_casc : forall ps k1 k2, (forall i, simrelx R (k1 i) (k2 i)) -> simrelx R (Casc ps k1) (Casc ps k2)
| sx_choose : forall w c k1 k2, (forall x, simrelx R (k1 x) (k2 x)) -> simrelx R (Choose w c k1) (Choose w c k2)
| sx_unif : forall c k1 k2, (forall x, simrelx R (k1 x) (k2 x)) -> simrelx R (Unif c k1) (Unif c k2)
| sx_sample : forall pop n k1 k2, (forall l, simrelx R (k1 l) (k2 l)) -> simrelx R (Sample pop n k1) (Sample pop n k2).

Lemma exec_leaf : forall A (m : samp A) r ds tr, leaf m = Some r -> exec m ds tr = (r, rev tr).
Proof. intros A m r ds tr H. destruct m; cbn in H; try discriminate H; injection H as <-; reflexivity. Qed.

(* a relation on results that relates every failure of the scripted source to itself *)
Definition err_refl {A B} (R : result A -> result B -> Prop) : Prop := forall e, R (Err e) (Err e).

(* same script => the whole trace of calls is equal and the results are related *)
Theorem simrelx_exec : forall A B (R : result A -> result B -> Prop) m1 m2, err_refl R -> simrelx R m1 m2 ->
  forall ds tr, snd (exec m1 ds tr) = snd (exec m2 ds tr) /\ R (fst (exec m1 ds tr)) (fst (exec m2 ds tr)).
Proof.
  intros A B R m1 m2 HR H.
  induction H as [m1 m2 r1 r2 H1 H2 Hr|r k1 k2 Hk IH|p a1 b1 a2 b2 Ha IHa Hb IHb|ps k1 k2 Hk IH
                 |w c k1 k2 Hk IH|c k1 k2 Hk IH|pop n k1 k2 Hk IH]; intros ds tr.
  - rewrite (exec_leaf _ _ _ ds tr H1), (exec_leaf _ _ _ ds tr H2). split; [reflexivity|exact Hr].
  - cbn [exec]. destruct (Qeqb r 0); [split; [reflexivity|apply HR]|].
    destruct ds as [|d ds']; [split; [reflexivity|apply HR]|].
    destruct (Qltb d 0); [split; [reflexivity|apply HR]|]. apply IH.
  - cbn [exec]. destruct ds as [|d ds']; [split; [reflexivity|apply HR]|].
    destruct (unit_draw d); [|split; [reflexivity|apply HR]].
    destruct (Qltb d p); [apply IHa|apply IHb].
  - cbn [exec]. destruct ds as [|d ds']; [split; [reflexivity|apply HR]|].
    destruct (unit_draw d); [|split; [reflexivity|apply HR]]. apply IH.
  - cbn [exec]. destruct (choose_exec w c ds tr) as [[[x|e] tr1] ds1]; [apply IH|split; [reflexivity|apply HR]].
  - cbn [exec]. destruct c as [|c0 c']; [split; [reflexivity|apply HR]|].
    destruct ds as [|d ds']; [split; [reflexivity|apply HR]|].
    destruct (nth_error (c0 :: c') (rank d)); [apply IH|split; [reflexivity|apply HR]].
  - cbn [exec]. destruct (Nat.ltb (length pop) n); [split; [reflexivity|apply HR]|].
    destruct ds as [|d ds']; [split; [reflexivity|apply HR]|]. apply IH.
Qed.

(* every program is related to itself by equality *)
Lemma simrel_refl : forall A (m : samp A), simrel eq m m.
Proof. intros A m. induction m; constructor; auto. Qed.

Definition lift_rel {A B} (R : A -> B -> Prop) : result A -> result B -> Prop := rel_result R.

Lemma simrel_simrelx : forall A B (R : A -> B -> Prop) m1 m2, simrel R m1 m2 -> simrelx (rel_result R) m1 m2.
Proof.
  intros A B R m1 m2 H. induction H; try (constructor; auto; fail).
  - eapply sx_leaf; [reflexivity|reflexivity|exact H].
  - eapply sx_leaf; [reflexivity|reflexivity|reflexivity].
Qed.

(* bind: the first parts are related as values, the continuations as results *)
Lemma simrelx_bind : forall A B A' B' (R : A -> B -> Prop) (R' : result A' -> result B' -> Prop) m1 m2 f1 f2,
  err_refl R' -> simrel R m1 m2 -> (forall a b, R a b -> simrelx R' (f1 a) (f2 b)) ->
  simrelx R' (bind m1 f1) (bind m2 f2).
Proof.
  intros A B A' B' R R' m1 m2 f1 f2 HR H Hf.
  induction H; cbn [bind]; try (constructor; auto; fail).
  - apply Hf. assumption.
  - eapply sx_leaf; [reflexivity|reflexivity|apply HR].
Qed.

Lemma simrelx_bind_same : forall A A' B' (R' : result A' -> result B' -> Prop) (m : samp A) f1 f2,
  err_refl R' -> (forall a, simrelx R' (f1 a) (f2 a)) -> simrelx R' (bind m f1) (bind m f2).
Proof.
  intros A A' B' R' m f1 f2 HR Hf. eapply simrelx_bind; [exact HR|apply simrel_refl|].
  intros a b <-. apply Hf.
Qed.

(* weakening of the leaf relation *)
Lemma simrelx_weaken : forall A B (R R' : result A -> result B -> Prop) m1 m2,
  (forall r1 r2, R r1 r2 -> R' r1 r2) -> simrelx R m1 m2 -> simrelx R' m1 m2.
Proof.
  intros A B R R' m1 m2 HRR H. induction H; try (constructor; auto; fail).
  eapply sx_leaf; eauto.
Qed.

(* with equality at the leaves the two programs are indistinguishable by [exec] *)
Corollary simrelx_eq_exec : forall A (m1 m2 : samp A), simrelx eq m1 m2 ->
  forall ds tr, exec m1 ds tr = exec m2 ds tr.
Proof.
  intros A m1 m2 H ds tr. destruct (simrelx_exec A A eq m1 m2 (fun e => eq_refl) H ds tr) as [H1 H2].
  destruct (exec m1 ds tr), (exec m2 ds tr). cbn in *. congruence.
Qed.

(* ------------------------------------------------------------------ *)
(* the same for the sampler with the binomial call (Model/EventSIRConst.v) *)

Definition bleaf {A} (m : bsamp A) : option (result A) :=
  match m with BRet a => Some (Ok a) | BFail e => Some (Err e) | _ => None end.

Inductive bsimrelx {A B} (R : result A -> result B -> Prop) : bsamp A -> bsamp B -> Prop :=
| bx_leaf : forall m1 m2 r1 r2, bleaf m1 = Some r1 -> bleaf m2 = Some r2 -> R r1 r2 -> bsimrelx R m1 m2
| bx_expo : forall r k1 k2, (forall d, bsimrelx R (k1 d) (k2 d)) -> bsimrelx R (BExpo r k1) (BExpo r k2)
| bx_sample : forall pop n k1 k2, (forall l, bsimrelx R (k1 l) (k2 l)) -> bsimrelx R (BSample pop n k1) (BSample pop n k2)
| bx_binom : forall n tau d k1 k2, (forall i, bsimrelx R (k1 i) (k2 i)) -> bsimrelx R (BBinom n tau d k1) (BBinom n tau d k2).

Lemma bexec_leaf : forall A (m : bsamp A) r ds tr, bleaf m = Some r -> bexec m ds tr = (r, rev tr).
Proof. intros A m r ds tr H. destruct m; cbn in H; try discriminate H; injection H as <-; reflexivity. Qed.

Theorem bsimrelx_bexec : forall A B (R : result A -> result B -> Prop) m1 m2, err_refl R -> bsimrelx R m1 m2 ->
  forall ds tr, snd (bexec m1 ds tr) = snd (bexec m2 ds tr) /\ R (fst (bexec m1 ds tr)) (fst (bexec m2 ds tr)).
Proof.
  intros A B R m1 m2 HR H.
  induction H as [m1 m2 r1 r2 H1 H2 Hr|r k1 k2 Hk IH|pop n k1 k2 Hk IH|n tau dd k1 k2 Hk IH]; intros ds tr.
  - rewrite (bexec_leaf _ _ _ ds tr H1), (bexec_leaf _ _ _ ds tr H2). split; [reflexivity|exact Hr].
  - cbn [bexec]. destruct (Qeqb r 0); [split; [reflexivity|apply HR]|].
    destruct ds as [|d ds']; [split; [reflexivity|apply HR]|].
    destruct (Qltb d 0); [split; [reflexivity|apply HR]|]. apply IH.
  - cbn [bexec]. destruct (Nat.ltb (length pop) n); [split; [reflexivity|apply HR]|].
    destruct ds as [|d ds']; [split; [reflexivity|apply HR]|]. apply IH.
  - cbn [bexec]. destruct ds as [|d ds']; [split; [reflexivity|apply HR]|].
    destruct (binom_possible n tau dd (rank d)); [apply IH|split; [reflexivity|apply HR]].
Qed.

Lemma bsimrelx_bind_same : forall A A' B' (R' : result A' -> result B' -> Prop) (m : bsamp A) f1 f2,
  err_refl R' -> (forall a, bsimrelx R' (f1 a) (f2 a)) -> bsimrelx R' (bbind m f1) (bbind m f2).
Proof.
  intros A A' B' R' m f1 f2 HR Hf. induction m; cbn [bbind]; try (constructor; auto; fail).
  - apply Hf.
  - eapply bx_leaf; [reflexivity|reflexivity|apply HR].
Qed.

Corollary bsimrelx_eq_bexec : forall A (m1 m2 : bsamp A), bsimrelx eq m1 m2 ->
  forall ds tr, bexec m1 ds tr = bexec m2 ds tr.
Proof.
  intros A m1 m2 H ds tr. destruct (bsimrelx_bexec A A eq m1 m2 (fun e => eq_refl) H ds tr) as [H1 H2].
  destruct (bexec m1 ds tr), (bexec m2 ds tr). cbn in *. congruence.
Qed.
