(* Gillespie_simple_contagion: return_full_data does not influence the run.  For EVERY draw
   script the plain run and the full-data run make the same calls to the random source and
   consume the same draws; when both return, their rows are equal (the arrays the plain mode
   returns are the `data` lists inside the full-data run); the only way they can differ is the
   constructor of the full-data object failing after the simulation (KeyError / IndexError when
   return_statuses misses a status).  This is the "both return modes consume the same random
   draws" premise of C10, proved; no invariant is needed -- it is a simulation between the two
   programs that ignores node_history / transmissions. *)
From EoNV Require Import Prelude Samp Graph ListDict ListDictP Gillespie KldP GillespieInv SampP Simple SimpleP
  SimpleExecS SimpleExec SimpleExecLog SimpleExecTop SimpleExecFuel.
From Coq Require Import Lqa.

Definition sim (s1 s2 : sst) : Prop :=
  s_stat s1 = s_stat s2 /\ s_sp s1 = s_sp s2 /\ s_in s1 = s_in s2 /\ s_rows s1 = s_rows s2.

Definition rsim (r1 r2 : result sst) : Prop :=
  match r1, r2 with
  | Ok a, Ok b => sim a b
  | Err e1, Err e2 => e1 = e2
  | _, _ => False
  end.

Section Flag.
Variable g : graph.
Variable ic : node -> N.
Variable rstat : list N.
Variable tmin : Q.
Variable tmax : xtime.

Lemma apply_event_sim : forall t b tr a s1 s2, sim s1 s2 ->
  rsim (apply_event g rstat false t b tr a s1) (apply_event g rstat true t b tr a s2).
Proof.
  intros t b tr a [st1 sp1 in1 rows1 el1 tl1] [st2 sp2 in2 rows2 el2 tl2] [E1 [E2 [E3 E4]]].
  cbn [s_stat s_sp s_in s_rows] in E1, E2, E3, E4. subst st2 sp2 in2 rows2.
  unfold apply_event. cbn [s_stat s_sp s_in s_rows s_elog s_tlog].
  destruct (if b then rbind (keynode a) (fun u => Ok (None, u, hd_status (tr_from tr), hd_status (tr_to tr)))
            else rbind (keypair a) (fun uv => Ok (Some (fst uv), snd uv, snd_status (tr_from tr), snd_status (tr_to tr))))
    as [[[[src m] old] new]|e]; cbn [rbind rsim]; [|reflexivity].
  destruct (rmap (upd_spont m old new) sp1) as [sp'|e]; cbn [rbind rsim]; [|reflexivity].
  destruct (rmap (upd_induced g (fupdN st1 m new) m old new) in1) as [in'|e]; cbn [rbind rsim]; [|reflexivity].
  unfold sim. cbn [s_stat s_sp s_in s_rows]. repeat split; reflexivity.
Qed.

Lemma fire_sim : forall t s1 s2 ia, sim s1 s2 -> rsim (fire g rstat false t s1 ia) (fire g rstat true t s2 ia).
Proof.
  intros t s1 s2 ia Hs. unfold fire. destruct Hs as [E1 [E2 [E3 E4]]]. rewrite E2, E3.
  destruct (nth_error (s_sp s2 ++ s_in s2) (fst ia)) as [sl|]; [|cbn [rsim]; reflexivity].
  apply apply_event_sim. repeat split; assumption.
Qed.

Lemma select_sim : forall s1 s2, sim s1 s2 -> select s1 = select s2 /\ total_rate s1 = total_rate s2.
Proof.
  intros s1 s2 [_ [E2 [E3 _]]]. unfold select, total_rate. rewrite E2, E3. split; reflexivity.
Qed.

(* what the two runs return: same rows; or the full-data constructor fails *)
Definition osim (r1 r2 : result simout) : Prop :=
  match r1, r2 with
  | Ok o1, Ok o2 => so_rows o1 = so_rows o2 /\ so_full o1 = None /\ so_full o2 <> None
  | Ok o1, Err e => e = KeyErr \/ e = IndexErr
  | Err e1, Err e2 => e1 = e2
  | Err _, Ok _ => False
  end.

Lemma finish_sim : forall s1 s2, sim s1 s2 ->
  osim (finish g ic rstat tmin false s1) (finish g ic rstat tmin true s2).
Proof.
  intros s1 s2 [_ [_ [_ E4]]]. unfold finish.
  destruct (si_constructor_cases rstat (histories g ic tmin s2)) as [E|[E|E]]; rewrite E; cbn [rbind osim so_rows so_full].
  - rewrite E4. split; [reflexivity|]. split; [reflexivity|discriminate].
  - left. reflexivity.
  - right. reflexivity.
Qed.

Definition xsim (x1 x2 : result simout * list call * list Q) : Prop :=
  osim (fst (fst x1)) (fst (fst x2)) /\ snd (fst x1) = snd (fst x2) /\ snd x1 = snd x2.

Lemma lifts_finish_xsim : forall s1 s2 ds tr, sim s1 s2 ->
  xsim (execr (lifts (finish g ic rstat tmin false s1)) ds tr) (execr (lifts (finish g ic rstat tmin true s2)) ds tr).
Proof.
  intros s1 s2 ds tr Hs. pose proof (finish_sim s1 s2 Hs) as H.
  destruct (finish g ic rstat tmin false s1) as [o1|e1], (finish g ic rstat tmin true s2) as [o2|e2];
    cbn [lifts execr]; unfold xsim; cbn [fst snd]; (split; [exact H|split; reflexivity]).
Qed.

Lemma loop_sim : forall fuel t s1 s2 ds tr, sim s1 s2 ->
  xsim (execr (loop g ic rstat tmin tmax false fuel t s1) ds tr) (execr (loop g ic rstat tmin tmax true fuel t s2) ds tr).
Proof.
  induction fuel as [|f IH]; intros t s1 s2 ds tr Hs; rewrite !loop_unfold;
    destruct (select_sim s1 s2 Hs) as [Esel Etot]; rewrite Etot;
    (destruct (Qltb 0 (total_rate s2)); [|apply lifts_finish_xsim; exact Hs]);
    cbn [execr];
    (destruct (Qeqb (total_rate s2) 0); [unfold xsim; cbn [fst snd osim]; repeat split; reflexivity|]);
    (destruct ds as [|d ds']; [unfold xsim; cbn [fst snd osim]; repeat split; reflexivity|]);
    (destruct (Qltb d 0); [unfold xsim; cbn [fst snd osim]; repeat split; reflexivity|]);
    (destruct (xlt (t + d) tmax); [|apply lifts_finish_xsim; exact Hs]).
  - cbn [execr]. unfold xsim; cbn [fst snd osim]. repeat split; reflexivity.
  - rewrite !execr_bind. unfold jump. rewrite !execr_bind, Esel.
    destruct (execr (select s2) ds' (CExpo (total_rate s2) :: tr)) as [[[ia|e] tr1] ds1];
      [|unfold xsim; cbn [fst snd osim]; repeat split; reflexivity].
    pose proof (fire_sim (t + d) s1 s2 ia Hs) as Hf.
    destruct (fire g rstat false (t + d) s1 ia) as [a1|e1], (fire g rstat true (t + d) s2 ia) as [a2|e2];
      cbn [rsim] in Hf; try contradiction; cbn [lifts execr].
    + apply IH. exact Hf.
    + subst e2. unfold xsim; cbn [fst snd osim]. repeat split; reflexivity.
Qed.

(* the whole program: same calls, same draws consumed, same rows *)
Theorem simple_flag_independent : forall sortable spont induced fuel ds,
  let r1 := exec (simple g sortable spont induced ic rstat tmin tmax false fuel) ds [] in
  let r2 := exec (simple g sortable spont induced ic rstat tmin tmax true fuel) ds [] in
  snd r1 = snd r2 /\ osim (fst r1) (fst r2).
Proof.
  intros sortable spont induced fuel ds. cbv zeta. unfold simple.
  destruct (rbind (rmap (setup_spont g) (sort_trans sortable spont))
              (fun sp => rbind (rmap (setup_induced g) (sort_trans sortable induced)) (fun inn => init_all g ic sp inn))) as [[sp inn]|e].
  - rewrite !execr_exec. cbn [fst snd].
    destruct (loop_sim fuel tmin (mkS ic sp inn [(tmin, map (count_status g ic) rstat)] [] [])
                (mkS ic sp inn [(tmin, map (count_status g ic) rstat)] [] []) ds []) as [H1 [H2 _]].
    { repeat split; reflexivity. }
    split; [rewrite H2; reflexivity|exact H1].
  - cbn [exec fst snd osim]. split; reflexivity.
Qed.

End Flag.
