(* Proofs about Model/EventSIS.v, part 2: the simulation relation of DESIGN A.2
   between the queue of fast_nonMarkov_SIS and the agenda of ref_sis, and its
   preservation by an infection. *)
From EoNV Require Import Prelude Samp Graph EventSIS EventSISP.
From Coq Require Import Permutation Sorted Lqa.

Lemma Q_eq_dec : forall a b : Q, {a = b} + {a <> b}.
Proof. decide equality; [apply Pos.eq_dec|apply Z.eq_dec]. Defined.
Lemma aev_eq_dec : forall a b : aev, {a = b} + {a <> b}.
Proof. decide equality; apply N.eq_dec. Defined.
Lemma item_eq_dec : forall a b : Q * aev, {a = b} + {a <> b}.
Proof. decide equality; [apply aev_eq_dec|apply Q_eq_dec]. Defined.
Notation cnt := (count_occ item_eq_dec).

Lemma perm_cnt : forall l1 l2, Permutation l1 l2 <-> forall x, cnt l1 x = cnt l2 x.
Proof. intros. apply Permutation_count_occ. Qed.

Lemma fupdN_same : forall {V} (f : node -> V) k v, fupdN f k v k = v.
Proof. intros. unfold fupdN. rewrite N.eqb_refl. reflexivity. Qed.
Lemma fupdN_other : forall {V} (f : node -> V) k v x, x <> k -> fupdN f k v x = f x.
Proof. intros. unfold fupdN. destruct (N.eqb_spec x k); [contradiction|reflexivity]. Qed.

Section NM2.
Variable g : graph.
Variable dur : node -> nat -> Q.
Variable delays : node -> node -> nat -> list Q.
Variable tmax : xtime.

Notation vis := (vis tmax).
Notation vis1 := (vis1 tmax).
Notation RInv := RInv.
Notation new_atts := (new_atts delays).

Definition satts (src : option node) (v : node) (l : list Q) : list (Q * aev) :=
  match src with Some u => atts u v l | None => [] end.

Definition deadP (stat : node -> N) (rec : node -> Q) (x : Q * aev) : Prop :=
  match snd x with AAtt u v => stat v = stI /\ fst x < rec v | ARec _ => False end.

Definition entry_ok (stat : node -> N) (rec : node -> Q) (x : qent nev) : Prop :=
  xlt (qtime x) tmax = true /\
  match snd x with
  | NRec v => stat v = stI /\ rec v = qtime x
  | NTrans (Some u) v fut => ascending (qtime x :: fut) = true
  | NTrans None _ _ => False
  end.

Definition QI (stat : node -> N) (rec : node -> Q) (l : list (qent nev)) : Prop :=
  tsorted l /\ Forall (entry_ok stat rec) l.

Record Rel (now : Q) (S : nst) (R : rst) : Prop := mkRel {
  rel_stat : forall x, ns_stat S x = r_stat R x;
  rel_ord : forall x, ns_ord S x = r_ord R x;
  rel_log : ns_log S = r_log R;
  rel_ag : exists dead, Permutation (r_ag R) (vis (expandQ (q_items (ns_q S))) ++ dead) /\
                        Forall (deadP (ns_stat S) (ns_rec S)) dead;
  rel_q : QI (ns_stat S) (ns_rec S) (q_items (ns_q S));
  rel_rec : forall v, ns_stat S v = stI -> xlt (ns_rec S v) tmax = true -> In (ns_rec S v, ARec v) (r_ag R);
  rel_inv : RInv now (r_ag R);
  rel_bin : forall x, ns_stat S x = stS \/ ns_stat S x = stI
}.

(* ---------------- queue invariants under Q.add ---------------- *)
Lemma QI_add : forall stat rec q t e,
  QI stat rec (q_items q) -> (xlt t tmax = true -> entry_ok stat rec (t, q_ctr q, e)) ->
  QI stat rec (q_items (q_add tmax q t e)).
Proof.
  intros stat rec q t e [Hs Hf] He. unfold q_add. destruct (xlt t tmax) eqn:V; cbn [q_items]; [|split; assumption].
  split; [apply qins_sorted; exact Hs|].
  eapply Permutation_Forall; [apply Permutation_sym; apply qins_perm|]. constructor; [apply He; reflexivity|exact Hf].
Qed.

Lemma QI_chain : forall stat rec q u v tt,
  QI stat rec (q_items q) -> ascending tt = true ->
  QI stat rec (q_items (chain tmax q (Some u) v tt)).
Proof.
  intros stat rec q u v [|h tl] Hq Ha; cbn [chain]; [exact Hq|].
  apply QI_add; [exact Hq|]. intro V. split; [exact V|]. cbn [snd qtime fst]. exact Ha.
Qed.

(* the status/recovery maps change only at a susceptible node *)
Lemma QI_upd : forall stat rec l v s r,
  stat v <> stI -> QI stat rec l -> QI (fupdN stat v s) (fupdN rec v r) l.
Proof.
  intros stat rec l v s r Hv [Hs Hf]. split; [exact Hs|].
  eapply Forall_impl; [|exact Hf]. intros [[t c] e] [V He]. split; [exact V|].
  cbn [snd] in *. destruct e as [w|[u|] w fut]; try exact He.
  destruct He as [H1 H2]. assert (w <> v) by (intro; subst; contradiction).
  rewrite !fupdN_other by assumption. split; assumption.
Qed.

(* ---------------- scheduling the neighbours ---------------- *)
Definition allw (t : Q) (v : node) (k : nat) (w : node) : list Q := map (fun d => tadd t d) (delays v w k).
Definition keptw (t : Q) (v : node) (k : nat) (stat : node -> N) (rec : node -> Q) (w : node) : list Q :=
  if N.eqb (stat w) stI then filter (fun x => Qltb (rec w) x) (allw t v k w) else allw t v k w.
Definition dropw (t : Q) (v : node) (k : nat) (stat : node -> N) (rec : node -> Q) (w : node) : list Q :=
  if N.eqb (stat w) stI then filter (fun x => negb (Qltb (rec w) x)) (allw t v k w) else [].

Lemma n_sched_eq : forall t v k stat rec q w,
  n_sched delays tmax t v k stat rec q w = chain tmax q (Some v) w (keptw t v k stat rec w).
Proof.
  intros. unfold n_sched, keptw, allw. destruct (delays v w k) as [|d dl]; [|reflexivity].
  cbn [map filter]. destruct (N.eqb (stat w) stI); reflexivity.
Qed.

Lemma keptw_ascending : forall t v k stat rec w,
  ascending (delays v w k) = true -> ascending (keptw t v k stat rec w) = true.
Proof.
  intros. unfold keptw, allw. destruct (N.eqb (stat w) stI).
  - apply ascending_filter. apply ascending_map_tadd. assumption.
  - apply ascending_map_tadd. assumption.
Qed.

Lemma sched_fold : forall t v k stat rec ws q,
  Forall (fun w => ascending (delays v w k) = true) ws ->
  QI stat rec (q_items q) ->
  let q' := fold_left (n_sched delays tmax t v k stat rec) ws q in
  QI stat rec (q_items q') /\
  Permutation (vis (expandQ (q_items q')))
              (vis (flat_map (fun w => atts v w (keptw t v k stat rec w)) ws) ++ vis (expandQ (q_items q))).
Proof.
  intros t v k stat rec ws. induction ws as [|w ws IH]; intros q F Hq q'.
  - subst q'. cbn [fold_left flat_map]. split; [exact Hq|apply Permutation_refl].
  - subst q'. cbn [fold_left]. inversion F as [|? ? Fw F']; subst.
    rewrite n_sched_eq.
    pose proof (keptw_ascending t v k stat rec w Fw) as Ha.
    destruct (IH (chain tmax q (Some v) w (keptw t v k stat rec w)) F' (QI_chain _ _ _ _ _ _ Hq Ha)) as [Hq2 Hp2].
    split; [exact Hq2|].
    eapply Permutation_trans; [exact Hp2|]. cbn [flat_map]. rewrite vis_app.
    eapply Permutation_trans; [apply Permutation_app_head; apply chain_expand; exact Ha|].
    rewrite !app_assoc. apply Permutation_app_tail. apply Permutation_app_comm.
Qed.

Lemma atts_split : forall u v p l,
  Permutation (vis (atts u v l))
              (vis (atts u v (filter p l)) ++ vis (atts u v (filter (fun x => negb (p x)) l))).
Proof.
  intros u v p l. induction l as [|a l IH]; [apply Permutation_refl|].
  unfold atts in *. cbn [map filter]. destruct (p a); cbn [negb map].
  - change ((a, AAtt u v) :: map (fun t => (t, AAtt u v)) l) with ([(a, AAtt u v)] ++ map (fun t => (t, AAtt u v)) l).
    change ((a, AAtt u v) :: map (fun t => (t, AAtt u v)) (filter p l)) with ([(a, AAtt u v)] ++ map (fun t => (t, AAtt u v)) (filter p l)).
    rewrite !vis_app. rewrite <- app_assoc. apply Permutation_app_head. exact IH.
  - change ((a, AAtt u v) :: map (fun t => (t, AAtt u v)) l) with ([(a, AAtt u v)] ++ map (fun t => (t, AAtt u v)) l).
    change ((a, AAtt u v) :: map (fun t => (t, AAtt u v)) (filter (fun x => negb (p x)) l))
      with ([(a, AAtt u v)] ++ map (fun t => (t, AAtt u v)) (filter (fun x => negb (p x)) l)).
    rewrite !vis_app. eapply Permutation_trans; [apply Permutation_app_head; exact IH|].
    rewrite !app_assoc. apply Permutation_app_tail. apply Permutation_app_comm.
Qed.

Lemma new_atts_split : forall t v k stat rec ws,
  Permutation (vis (new_atts t v k ws))
              (vis (flat_map (fun w => atts v w (keptw t v k stat rec w)) ws) ++
               vis (flat_map (fun w => atts v w (dropw t v k stat rec w)) ws)).
Proof.
  intros t v k stat rec ws. induction ws as [|w ws IH]; [apply Permutation_refl|].
  unfold EventSISP.new_atts in *. cbn [flat_map]. rewrite !vis_app.
  assert (Hw : Permutation (vis (atts v w (map (fun d => tadd t d) (delays v w k))))
                           (vis (atts v w (keptw t v k stat rec w)) ++ vis (atts v w (dropw t v k stat rec w)))).
  { unfold keptw, dropw, allw. destruct (N.eqb (stat w) stI).
    - apply atts_split.
    - cbn [atts map]. unfold EventSISP.vis at 3. cbn [filter]. rewrite app_nil_r. apply Permutation_refl. }
  apply perm_cnt. intro x. rewrite perm_cnt in Hw, IH. specialize (Hw x). specialize (IH x).
  rewrite !count_occ_app in *. lia.
Qed.


(* ---------------- an infection preserves the relation ---------------- *)
Lemma n_trans_S : forall t src v fut s, ns_stat s v = stS ->
  n_trans g dur delays tmax t src v fut s =
  let k := ns_ord s v in
  let stat' := fupdN (ns_stat s) v stI in
  let rt := tadd t (dur v k) in
  let rec' := fupdN (ns_rec s) v rt in
  let q1 := if xlt rt tmax then q_add tmax (ns_q s) rt (NRec v) else ns_q s in
  let q2 := fold_left (n_sched delays tmax t v k stat' rec') (gadj g v) q1 in
  mkN stat' rec' (fupdN (ns_ord s) v (S k))
      (chain tmax q2 src v (filter (fun x => Qltb (rec' v) x) fut)) (log_inf (ns_log s) t src v).
Proof. intros t src v fut s H. unfold n_trans. rewrite H. reflexivity. Qed.

Lemma n_trans_I : forall t src v fut s, ns_stat s v <> stS ->
  n_trans g dur delays tmax t src v fut s =
  mkN (ns_stat s) (ns_rec s) (ns_ord s)
      (chain tmax (ns_q s) src v (filter (fun x => Qltb (ns_rec s v) x) fut)) (ns_log s).
Proof.
  intros t src v fut s H. unfold n_trans.
  destruct (N.eqb_spec (ns_stat s v) stS) as [E|E]; [contradiction|reflexivity].
Qed.

Lemma strict_from_agenda : forall ag tx u w r,
  StronglySorted ltT ag -> In (tx, AAtt u w) ag -> (xlt r tmax = true -> In (r, ARec w) ag) ->
  xlt tx tmax = true -> tx <= r -> tx < r.
Proof.
  intros ag tx u w r Hs Hx Hr Vx Hle. destruct (xlt r tmax) eqn:Vr.
  - destruct (Qeq_dec tx r) as [E|E]; [|lra].
    pose proof (sorted_unique ag (tx, AAtt u w) (r, ARec w) Hs Hx (Hr eq_refl) E) as K. discriminate K.
  - apply (xlt_lt tmax); assumption.
Qed.

Lemma in_vis : forall x l, In x (vis l) <-> In x l /\ xlt (fst x) tmax = true.
Proof. intros. unfold EventSISP.vis. apply filter_In. Qed.

Lemma satts_split : forall src v p l,
  Permutation (vis (satts src v l))
              (vis (satts src v (filter p l)) ++ vis (satts src v (filter (fun x => negb (p x)) l))).
Proof. intros [u|] v p l; cbn [satts]; [apply atts_split|apply Permutation_refl]. Qed.

Lemma infect_rel : forall t src v fut S R0 dead,
  (forall x, ns_stat S x = r_stat R0 x) -> (forall x, ns_ord S x = r_ord R0 x) -> ns_log S = r_log R0 ->
  ns_stat S v = stS ->
  Permutation (r_ag R0) (vis (satts src v fut) ++ vis (expandQ (q_items (ns_q S))) ++ dead) ->
  Forall (deadP (ns_stat S) (ns_rec S)) dead ->
  QI (ns_stat S) (ns_rec S) (q_items (ns_q S)) ->
  (forall w, ns_stat S w = stI -> xlt (ns_rec S w) tmax = true -> In (ns_rec S w, ARec w) (r_ag R0)) ->
  RInv t (r_ag R0) ->
  ascending fut = true -> (src = None -> fut = []) ->
  (forall x, ns_stat S x = stS \/ ns_stat S x = stI) ->
  r_ok (r_infect g dur delays tmax t src v R0) = true ->
  Rel t (n_trans g dur delays tmax t src v fut S) (r_infect g dur delays tmax t src v R0).
Proof.
  intros t src v fut S R0 dead Hst Hord Hlog HvS Hperm Hdead Hq Hrec Hinv Hasc Hnone Hbin Hok.
  destruct (r_infect_spec g dur delays tmax t src v R0 Hinv Hok) as [Hok0 [Fasc [Hinv' [HpA [Es [Eo El]]]]]].
  rewrite (n_trans_S t src v fut S HvS). cbv zeta.
  rewrite <- (Hord v) in *.
  set (k := ns_ord S v) in *.
  set (rt := tadd t (dur v k)) in *.
  set (stat' := fupdN (ns_stat S) v stI).
  set (rec' := fupdN (ns_rec S) v rt).
  set (q1 := if xlt rt tmax then q_add tmax (ns_q S) rt (NRec v) else ns_q S).
  set (q2 := fold_left (n_sched delays tmax t v k stat' rec') (gadj g v) q1).
  assert (Erv : rec' v = rt) by (unfold rec'; apply fupdN_same).
  assert (Esv : stat' v = stI) by (unfold stat'; apply fupdN_same).
  rewrite (filter_ext (fun x => Qltb (rec' v) x) (fun x => Qltb rt x)) by (intro; rewrite Erv; reflexivity).
  set (futk := filter (fun x => Qltb rt x) fut).
  set (futd := filter (fun x => negb (Qltb rt x)) fut).
  assert (HvI : ns_stat S v <> stI) by (rewrite HvS; discriminate).
  (* queue invariants *)
  assert (Hq0 : QI stat' rec' (q_items (ns_q S))) by (apply QI_upd; assumption).
  assert (Hq1 : QI stat' rec' (q_items q1)).
  { unfold q1. destruct (xlt rt tmax) eqn:V; [|exact Hq0]. apply QI_add; [exact Hq0|].
    intros _. split; [exact V|]. cbn [snd qtime fst]. split; assumption. }
  assert (HC : Permutation (vis (expandQ (q_items q1))) (vis1 rt (ARec v) ++ vis (expandQ (q_items (ns_q S))))).
  { unfold q1, EventSISP.vis1, q_add. destruct (xlt rt tmax) eqn:V.
    - cbn [q_items]. eapply Permutation_trans; [apply expandQ_qins|]. apply Permutation_refl.
    - unfold EventSISP.vis at 2. cbn [filter fst]. rewrite V. apply Permutation_refl. }
  destruct (sched_fold t v k stat' rec' (gadj g v) q1 Fasc Hq1) as [Hq2 HD]. fold q2 in Hq2, HD.
  assert (Hfk : ascending futk = true) by (apply ascending_filter; exact Hasc).
  assert (Hq3 : QI stat' rec' (q_items (chain tmax q2 src v futk))).
  { destruct src as [u|]; [apply QI_chain; assumption|].
    unfold futk. rewrite (Hnone eq_refl). exact Hq2. }
  assert (HE : Permutation (vis (expandQ (q_items (chain tmax q2 src v futk))))
                           (vis (satts src v futk) ++ vis (expandQ (q_items q2)))).
  { destruct src as [u|]; [apply chain_expand; exact Hfk|].
    unfold futk. rewrite (Hnone eq_refl). apply Permutation_refl. }
  pose proof (new_atts_split t v k stat' rec' (gadj g v)) as HF.
  pose proof (satts_split src v (fun x => Qltb rt x) fut) as HG. fold futk futd in HG.
  set (dropped := vis (flat_map (fun w => atts v w (dropw t v k stat' rec' w)) (gadj g v))) in *.
  (* membership in the new agenda *)
  assert (InA0 : forall x, In x (r_ag R0) -> In x (r_ag (r_infect g dur delays tmax t src v R0))).
  { intros x Hx. eapply Permutation_in; [apply Permutation_sym; exact HpA|].
    apply in_or_app. right. apply in_or_app. right. exact Hx. }
  assert (InRec : forall w, stat' w = stI -> xlt (rec' w) tmax = true ->
                            In (rec' w, ARec w) (r_ag (r_infect g dur delays tmax t src v R0))).
  { intros w Hw Vw. destruct (N.eq_dec w v) as [->|Nwv].
    - rewrite Erv in *. eapply Permutation_in; [apply Permutation_sym; exact HpA|].
      apply in_or_app. right. apply in_or_app. left. unfold EventSISP.vis1. apply in_vis.
      split; [left; reflexivity|exact Vw].
    - unfold stat' in Hw. unfold rec' in Vw |- *. rewrite fupdN_other in Hw by assumption. rewrite fupdN_other in Vw by assumption. rewrite fupdN_other by assumption. apply InA0. apply Hrec; assumption. }
  destruct Hinv' as [Hsorted' Hnow'].
  constructor; cbn [ns_stat ns_ord ns_log ns_q ns_rec q_items].
  - intro x. rewrite Es. unfold stat', fupdN. destruct (N.eqb x v); [reflexivity|apply Hst].
  - intro x. rewrite Eo. unfold fupdN. destruct (N.eqb x v); [reflexivity|apply Hord].
  - rewrite El, Hlog. reflexivity.
  - exists (dead ++ dropped ++ vis (satts src v futd)). split.
    + apply perm_cnt. intro x. rewrite perm_cnt in HpA, Hperm, HC, HD, HE, HF, HG.
      specialize (HpA x). specialize (Hperm x). specialize (HC x). specialize (HD x).
      specialize (HE x). specialize (HF x). specialize (HG x). fold dropped in HF.
      rewrite !count_occ_app in *. unfold futd in *. cbv beta in *. lia.
    + apply Forall_app. split; [|apply Forall_app; split].
      * eapply Forall_impl; [|exact Hdead]. intros [tx [w|u w]]; unfold deadP; cbn [snd fst]; [tauto|].
        intros [H1 H2]. assert (w <> v) by (intro; subst; contradiction).
        unfold stat', rec'. rewrite !fupdN_other by assumption. split; assumption.
      * apply Forall_forall. intros x Hx.
        assert (Hx' : In x (r_ag (r_infect g dur delays tmax t src v R0))).
        { eapply Permutation_in; [apply Permutation_sym; exact HpA|]. apply in_or_app. left.
          eapply Permutation_in; [apply Permutation_sym; exact HF|]. apply in_or_app. right. exact Hx. }
        unfold dropped in Hx. apply in_vis in Hx. destruct Hx as [Hx Vx].
        apply in_flat_map in Hx. destruct Hx as [w [Hw Hx]]. unfold atts in Hx. apply in_map_iff in Hx.
        destruct Hx as [tx [<- Htx]]. unfold deadP. cbn [snd fst] in *.
        unfold dropw in Htx. destruct (N.eqb_spec (stat' w) stI) as [Ew|Ew]; [|destruct Htx].
        apply filter_In in Htx. destruct Htx as [_ Hle]. apply negb_true_iff in Hle. apply Qltb_false in Hle.
        split; [exact Ew|]. eapply strict_from_agenda; [exact Hsorted'|exact Hx'|apply InRec; exact Ew|exact Vx|exact Hle].
      * apply Forall_forall. intros x Hx. apply in_vis in Hx. destruct Hx as [Hx Vx].
        destruct src as [u|]; [|destruct Hx]. cbn [satts] in Hx. unfold atts in Hx. apply in_map_iff in Hx.
        destruct Hx as [tx [<- Htx]]. unfold futd in Htx. apply filter_In in Htx. destruct Htx as [Hin Hle].
        apply negb_true_iff in Hle. apply Qltb_false in Hle. unfold deadP. cbn [snd fst] in *.
        split; [exact Esv|]. rewrite Erv.
        assert (Hx' : In (tx, AAtt u v) (r_ag (r_infect g dur delays tmax t (Some u) v R0))).
        { apply InA0. eapply Permutation_in; [apply Permutation_sym; exact Hperm|]. apply in_or_app. left.
          apply in_vis. split; [|exact Vx]. cbn [satts]. unfold atts. apply in_map_iff. exists tx. split; [reflexivity|exact Hin]. }
        eapply strict_from_agenda; [exact Hsorted'|exact Hx'| |exact Vx|exact Hle].
        intro V. rewrite <- Erv. apply InRec; [exact Esv|rewrite Erv; exact V].
  - exact Hq3.
  - intros w Hw Vw. apply InRec; assumption.
  - split; assumption.
  - intro x. unfold stat', fupdN. destruct (N.eqb x v); [right; reflexivity|apply Hbin].
Qed.

End NM2.
