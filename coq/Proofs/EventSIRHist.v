(* Event-driven SIR, cross-cutting properties, part 7 (C10 without the strictness
   hypothesis, generic part): a history built from the time-ordered events of one node by
   the transform step with its `time == tmin` reset is well-formed, and scanning it at a
   time t >= tmin gives the status after the node's events up to t. *)
From EoNV Require Import Prelude Samp Graph EventSIR EventSIRP.
From EoNV Require Import Investigation InvestigationP EventSIRLog.
From Coq Require Import Sorting.Sorted.
Require Import Lqa.

Definition tle (a b : event) : Prop := ev_t a <= ev_t b.
Definition le_ev (t : Q) (e : event) : bool := Qleb (ev_t e) t.
Definition hstep (tmin : Q) (h : history) (e : event) : history := hist_step tmin h (ev_t e, ev_s e).
Definition hist_of_chain (tmin : Q) (s0 : N) (l : list event) : history := fold_left (hstep tmin) l [(tmin, s0)].
Definition last_status (s0 : N) (l : list event) : N := fold_left (fun _ e => ev_s e) l s0.

Lemma ssorted_snoc_inv : forall (l : list event) e, StronglySorted tle (l ++ [e]) ->
  StronglySorted tle l /\ Forall (fun x => tle x e) l.
Proof.
  induction l as [|a l IH]; intros e H; [split; constructor|].
  cbn [app] in H. apply StronglySorted_inv in H. destruct H as [H1 H2].
  destruct (IH e H1) as [I1 I2]. split.
  - constructor; [exact I1|]. rewrite Forall_forall in *. intros x Hx. apply H2. apply in_or_app. left. exact Hx.
  - constructor; [|exact I2]. rewrite Forall_forall in H2. apply H2. apply in_or_app. right. left. reflexivity.
Qed.

Lemma ssorted_snoc : forall (l : list event) e, StronglySorted tle l -> Forall (fun x => tle x e) l ->
  StronglySorted tle (l ++ [e]).
Proof.
  induction l as [|a l IH]; intros e H1 H2; cbn [app]; [constructor; constructor|].
  apply StronglySorted_inv in H1. destruct H1 as [H1 H3]. inversion H2 as [|? ? Ha H2']; subst.
  constructor; [apply IH; assumption|]. apply Forall_app. split; [exact H3|constructor; [exact Ha|constructor]].
Qed.

Lemma ssorted_filter : forall (f : event -> bool) l, StronglySorted tle l -> StronglySorted tle (filter f l).
Proof.
  intros f l H. induction H as [|a l H IH Ha]; [constructor|]. cbn [filter]. destruct (f a); [|exact IH].
  constructor; [exact IH|]. rewrite Forall_forall in *. intros x Hx. apply filter_In in Hx. apply Ha. apply Hx.
Qed.

Lemma sortedb_snoc : forall (h : history) t s, sortedb h = true -> (forall x, In x h -> fst x <= t) ->
  sortedb (h ++ [(t, s)]) = true.
Proof.
  induction h as [|a h IH]; intros t s Hs Hle; [reflexivity|].
  destruct h as [|b h].
  - cbn. rewrite (proj2 (qleb_t (fst a) t)); [reflexivity|]. apply Hle. left. reflexivity.
  - change (sortedb (a :: b :: h)) with (Qleb (fst a) (fst b) && sortedb (b :: h)) in Hs.
    apply andb_true_iff in Hs. destruct Hs as [H1 H2].
    change ((a :: b :: h) ++ [(t, s)]) with (a :: (b :: h) ++ [(t, s)]).
    change (sortedb (a :: (b :: h) ++ [(t, s)])) with (Qleb (fst a) (fst b) && sortedb ((b :: h) ++ [(t, s)])).
    rewrite H1. cbn [andb]. apply IH; [exact H2|]. intros x Hx. apply Hle. right. exact Hx.
Qed.

Lemma scan_snoc : forall t p (h : history) x, scan t p (h ++ [x]) = if le_t t x then snd x else scan t p h.
Proof. intros. rewrite scan_app. reflexivity. Qed.

Lemma last_status_snoc : forall s0 l e, last_status s0 (l ++ [e]) = ev_s e.
Proof. intros. unfold last_status. rewrite fold_left_app. reflexivity. Qed.

Section Chain.
Variable tmin : Q.
Variable s0 : N.

Record chain_ok (l : list event) (h : history) : Prop := {
  c_head : exists e0 r, h = e0 :: r /\ fst e0 == tmin;
  c_sorted : sortedb h = true;
  c_times : forall x, In x h -> fst x == tmin \/ exists e, In e l /\ fst x = ev_t e;
  c_stats : forall x, In x h -> snd x = s0 \/ exists e, In e l /\ snd x = ev_s e;
  c_cover : forall e, In e l -> exists x, In x h /\ fst x == ev_t e;
  c_scan : forall t p, tmin <= t -> scan t p h = last_status s0 (filter (le_ev t) l)
}.

Lemma chain_props : forall l, StronglySorted tle l -> (forall e, In e l -> tmin <= ev_t e) ->
  chain_ok l (hist_of_chain tmin s0 l).
Proof.
  intros l. induction l as [|e l IH] using rev_ind; intros Hs Hge.
  - unfold hist_of_chain. cbn [fold_left]. constructor.
    + exists (tmin, s0), []. split; reflexivity.
    + reflexivity.
    + intros x [<-|[]]. left. reflexivity.
    + intros x [<-|[]]. left. reflexivity.
    + intros e [].
    + intros t p Ht. cbn. unfold le_t. cbn [fst]. rewrite (proj2 (qleb_t tmin t) Ht). reflexivity.
  - apply ssorted_snoc_inv in Hs. destruct Hs as [Hs Hle].
    assert (Hge' : forall x, In x l -> tmin <= ev_t x) by (intros x Hx; apply Hge; apply in_or_app; left; exact Hx).
    specialize (IH Hs Hge'). assert (Hte : tmin <= ev_t e) by (apply Hge; apply in_or_app; right; left; reflexivity).
    unfold hist_of_chain in *. rewrite fold_left_app. cbn [fold_left]. set (h' := fold_left (hstep tmin) l [(tmin, s0)]) in *.
    unfold hstep at 1, hist_step. cbn [fst].
    assert (Hfil : forall t, filter (le_ev t) (l ++ [e]) = filter (le_ev t) l ++ (if le_ev t e then [e] else [])).
    { intros t. rewrite filter_app. cbn [filter]. reflexivity. }
    destruct (Qeqb (ev_t e) tmin) eqn:Eq.
    + (* reset *)
      apply qeqb_t in Eq. constructor.
      * exists (ev_t e, ev_s e), []. split; [reflexivity|exact Eq].
      * reflexivity.
      * intros x [<-|[]]. left. exact Eq.
      * intros x [<-|[]]. right. exists e. split; [apply in_or_app; right; left; reflexivity|reflexivity].
      * intros e' He'. exists (ev_t e, ev_s e). split; [left; reflexivity|]. cbn [fst].
        apply in_app_or in He'. destruct He' as [He'|[<-|[]]]; [|reflexivity].
        rewrite Forall_forall in Hle. pose proof (Hle e' He') as H1. unfold tle in H1. pose proof (Hge' e' He'). lra.
      * intros t p Ht. cbn. unfold le_t. cbn [fst snd].
        assert (Hl : Qleb (ev_t e) t = true) by (apply qleb_t; lra).
        rewrite Hl, Hfil. unfold le_ev at 2. rewrite Hl. symmetry. apply last_status_snoc.
    + (* append *)
      apply qeqb_f in Eq.
      assert (Hh' : forall x, In x h' -> fst x <= ev_t e).
      { intros x Hx. destruct (c_times _ _ IH x Hx) as [H1|[e' [He' H1]]]; [lra|].
        rewrite H1. rewrite Forall_forall in Hle. apply (Hle e' He'). }
      constructor.
      * destruct (c_head _ _ IH) as [e0 [r [E0 H0]]]. exists e0, (r ++ [(ev_t e, ev_s e)]). rewrite E0. split; [reflexivity|exact H0].
      * apply sortedb_snoc; [apply (c_sorted _ _ IH)|exact Hh'].
      * intros x Hx. apply in_app_or in Hx. destruct Hx as [Hx|[<-|[]]].
        -- destruct (c_times _ _ IH x Hx) as [H1|[e' [He' H1]]]; [left; exact H1|].
           right. exists e'. split; [apply in_or_app; left; exact He'|exact H1].
        -- right. exists e. split; [apply in_or_app; right; left; reflexivity|reflexivity].
      * intros x Hx. apply in_app_or in Hx. destruct Hx as [Hx|[<-|[]]].
        -- destruct (c_stats _ _ IH x Hx) as [H1|[e' [He' H1]]]; [left; exact H1|].
           right. exists e'. split; [apply in_or_app; left; exact He'|exact H1].
        -- right. exists e. split; [apply in_or_app; right; left; reflexivity|reflexivity].
      * intros e' He'. apply in_app_or in He'. destruct He' as [He'|[<-|[]]].
        -- destruct (c_cover _ _ IH e' He') as [x [Hx Ex]]. exists x. split; [apply in_or_app; left; exact Hx|exact Ex].
        -- exists (ev_t e, ev_s e). split; [apply in_or_app; right; left; reflexivity|reflexivity].
      * intros t p Ht. rewrite scan_snoc, Hfil. unfold le_t, le_ev at 2. cbn [fst snd].
        destruct (Qleb (ev_t e) t).
        -- symmetry. apply last_status_snoc.
        -- rewrite app_nil_r. apply (c_scan _ _ IH t p Ht).
Qed.

End Chain.
