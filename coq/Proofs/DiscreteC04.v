(* C04 for the discrete-time simulators: the decidable checker [dwf_rowsb]
   (Model/DiscreteChk.v) accepts the rows of every [drun] (hence of every run of the model,
   Proofs/DiscreteTop.v), and acceptance means the discrete-time clause of the property. *)
From EoNV Require Import Prelude Samp Graph Discrete DiscreteP SampP DiscreteChk DiscreteRun DiscreteRunS DiscreteTop.
From EoNV Require Gillespie GillespieP InvestigationP.
From Coq Require Import Permutation.

Definition sir_of (kind : Gillespie.model_kind) : bool := match kind with kSIR => true | kSIS => false end.

(* ---------------- counting under one step ---------------- *)
Section Count.
Variable g : graph.
Notation cnt := (GillespieP.cntst g).

Lemma cnt_le : forall st st' a b, (forall v, In v (gnodes g) -> st v = a -> st' v = b) ->
  (cnt st a <= cnt st' b)%Z.
Proof.
  intros st st' a b H. unfold GillespieP.cntst. apply inj_le. apply filter_len_imp.
  intros x Hx E. apply N.eqb_eq in E. apply N.eqb_eq. apply H; assumption.
Qed.

Lemma cnt_or : forall st a b, a <> b ->
  Z.of_nat (length (filter (fun u => N.eqb (st u) a || N.eqb (st u) b) (gnodes g))) = (cnt st a + cnt st b)%Z.
Proof.
  intros st a b Hab. unfold GillespieP.cntst. rewrite filter_len_or; [lia|].
  intros x _. destruct (N.eqb_spec (st x) a) as [E1|E1]; [|reflexivity]. destruct (N.eqb_spec (st x) b) as [E2|E2]; [congruence|reflexivity].
Qed.

Lemma cnt_le_or : forall st st' c a b, a <> b ->
  (forall v, In v (gnodes g) -> st' v = c -> st v = a \/ st v = b) -> (cnt st' c <= cnt st a + cnt st b)%Z.
Proof.
  intros st st' c a b Hab H. rewrite <- (cnt_or st a b Hab). unfold GillespieP.cntst. apply inj_le. apply filter_len_imp.
  intros x Hx E. apply N.eqb_eq in E. destruct (H x Hx E) as [K|K]; rewrite K, N.eqb_refl; [reflexivity|apply orb_true_r].
Qed.

Lemma cnt_ge_or : forall st st' c a b, a <> b ->
  (forall v, In v (gnodes g) -> st v = a \/ st v = b -> st' v = c) -> (cnt st a + cnt st b <= cnt st' c)%Z.
Proof.
  intros st st' c a b Hab H. rewrite <- (cnt_or st a b Hab). unfold GillespieP.cntst. apply inj_le. apply filter_len_imp.
  intros x Hx E. apply N.eqb_eq. apply H; [exact Hx|]. apply orb_true_iff in E. destruct E as [E|E]; apply N.eqb_eq in E; [left|right]; exact E.
Qed.

Lemma has_inf_cnt : forall st, has_inf g st <-> (0 < cnt st stI)%Z.
Proof.
  intro st. unfold GillespieP.cntst. split.
  - intros [u [Hu Hi]]. assert (Hin : In u (filter (fun x => N.eqb (st x) stI) (gnodes g))) by (apply filter_In; split; [exact Hu|rewrite Hi; reflexivity]).
    destruct (filter (fun x => N.eqb (st x) stI) (gnodes g)); [destruct Hin|cbn [length]; lia].
  - intro H. destruct (filter (fun x => N.eqb (st x) stI) (gnodes g)) as [|u l] eqn:E; [cbn in H; lia|].
    assert (Hin : In u (filter (fun x => N.eqb (st x) stI) (gnodes g))) by (rewrite E; left; reflexivity).
    apply filter_In in Hin. destruct Hin as [Hu Hi]. exists u. split; [exact Hu|apply N.eqb_eq; exact Hi].
Qed.

End Count.

Lemma census_row_okb : forall g kind st, GillespieP.stat_ok kind st ->
  drow_okb (sir_of kind) (order g) (GillespieP.census g kind st) = true.
Proof.
  intros g kind st Hok.
  destruct (GillespieP.census_counts g kind (GillespieP.census g kind st)) as [A [B C]]; [exists st; split; [exact Hok|reflexivity]|].
  unfold drow_okb. rewrite C, B, Z.eqb_refl. rewrite andb_true_r. apply andb_true_iff. split.
  - destruct kind; reflexivity.
  - apply forallb_forall. intros x Hx. rewrite Forall_forall in A. apply Z.leb_le. apply A. exact Hx.
Qed.

Ltac stc := unfold stS, stI, stR in *; congruence.

Lemma dstep_move_okb : forall g kind onestep st st', dstep g kind onestep st st' ->
  dmove_okb (sir_of kind) onestep (GillespieP.census g kind st) (GillespieP.census g kind st') = true.
Proof.
  intros g kind onestep st st' H. unfold dmove_okb, dstep in *. destruct kind; cbn [sir_of GillespieP.census cntz nth].
  - assert (L1 : (GillespieP.cntst g st' stS <= GillespieP.cntst g st stS)%Z).
    { apply cnt_le. intros v Hv E. destruct (H v Hv) as [[K _]|[[K [K'|[_ K']]]|[K K']]]; [exact K|stc|stc|stc]. }
    assert (L2 : (GillespieP.cntst g st stR <= GillespieP.cntst g st' stR)%Z).
    { apply cnt_le. intros v Hv E. destruct (H v Hv) as [[K _]|[[K _]|[_ K']]]; [stc|stc|exact K']. }
    assert (L3 : (GillespieP.cntst g st' stR <= GillespieP.cntst g st stR + GillespieP.cntst g st stI)%Z).
    { apply cnt_le_or; [discriminate|]. intros v Hv E.
      destruct (H v Hv) as [[K [K'|[K' _]]]|[[K _]|[K _]]]; [stc|stc|right; exact K|left; exact K]. }
    apply Z.leb_le in L1. apply Z.leb_le in L2. rewrite L1, L2. cbn [andb].
    assert (L3' : (GillespieP.cntst g st' stR - GillespieP.cntst g st stR <=? GillespieP.cntst g st stI)%Z = true) by (apply Z.leb_le; lia).
    rewrite L3'. cbn [andb]. destruct onestep; [|reflexivity]. apply Z.eqb_eq.
    assert (L4 : (GillespieP.cntst g st stR + GillespieP.cntst g st stI <= GillespieP.cntst g st' stR)%Z).
    { apply cnt_ge_or; [discriminate|]. intros v Hv E.
      destruct (H v Hv) as [[K _]|[[K [K'|[K' _]]]|[_ K']]]; [destruct E; stc|exact K'|discriminate|exact K']. }
    lia.
  - apply Z.leb_le. apply cnt_le. intros v Hv E. destruct (H v Hv) as [[K _]|[_ K']]; [exact K|stc].
Qed.

(* every drun passes the chain checker; its head row is the census of its last status map *)
Lemma drun_chain : forall g kind os tmin tmax full st0 tl0 K t st rows hl tl,
  drun g kind os tmin tmax full st0 tl0 K t st rows hl tl ->
  dchainb (sir_of kind) os (order g) tmin tmax rows = true.
Proof.
  intros g kind os tmin tmax full st0 tl0 K t st rows hl tl H.
  induction H as [st Hst Hok|k t st rows hl tl st' hnew tnew H IH Hlt Hinf Hok Hstep Hh Ht].
  - cbn [dchainb fst snd]. rewrite (census_row_okb g kind st Hok), andb_true_r. apply Qeq_bool_iff. reflexivity.
  - destruct (drun_head _ _ _ _ _ _ _ _ _ _ _ _ _ _ H) as [rest E]. subst rows.
    assert (U : forall b a rest', dchainb (sir_of kind) os (order g) tmin tmax (b :: a :: rest') =
              dpair_okb (sir_of kind) os (order g) tmax a b && dchainb (sir_of kind) os (order g) tmin tmax (a :: rest')) by reflexivity.
    rewrite U. apply andb_true_iff. split; [|exact IH]. unfold dpair_okb. cbn [fst snd].
    rewrite Hlt, (census_row_okb g kind st' Hok), (dstep_move_okb g kind os st st' Hstep). rewrite !andb_true_r.
    apply andb_true_iff. split.
    + apply Z.ltb_lt. apply has_inf_cnt in Hinf. destruct kind; exact Hinf.
    + apply Qeq_bool_iff. reflexivity.
Qed.

Theorem drun_rows_accepted : forall g kind os tmin tmax full st0 tl0 K t st rows hl tl,
  drun g kind os tmin tmax full st0 tl0 K t st rows hl tl -> dstopped g tmax t st ->
  dwf_rowsb (sir_of kind) os g tmin tmax (rev rows) = true.
Proof.
  intros g kind os tmin tmax full st0 tl0 K t st rows hl tl H Hstop.
  unfold dwf_rowsb. rewrite rev_involutive.
  destruct (drun_head _ _ _ _ _ _ _ _ _ _ _ _ _ _ H) as [rest E]. rewrite E. rewrite <- E.
  rewrite (drun_chain _ _ _ _ _ _ _ _ _ _ _ _ _ _ H). cbn [andb]. unfold dstopb. cbn [fst snd].
  destruct (Z.eqb_spec (cntz (GillespieP.census g kind st) 1) 0) as [Ez|Ez]; [reflexivity|]. cbn [orb].
  rewrite Hstop; [reflexivity|]. apply has_inf_cnt.
  assert (P : (0 <= GillespieP.cntst g st stI)%Z) by (unfold GillespieP.cntst; lia).
  destruct kind; cbn [GillespieP.census cntz nth] in Ez; lia.
Qed.

(* ---------------- what acceptance means ---------------- *)
Definition drow_spec (sir : bool) (n : Z) (c : list Z) : Prop :=
  length c = (if sir then 3 else 2)%nat /\ Forall (fun x => (0 <= x)%Z) c /\ sumZ c = n.

Definition dmove_spec (sir onestep : bool) (a b : list Z) : Prop :=
  if sir then (cntz b 0 <= cntz a 0)%Z /\ (cntz a 2 <= cntz b 2)%Z /\ (cntz b 2 - cntz a 2 <= cntz a 1)%Z /\
              (onestep = true -> cntz b 2 = (cntz a 2 + cntz a 1)%Z)
  else (cntz b 1 <= cntz a 0)%Z.

Lemma drow_okb_spec : forall sir n c, drow_okb sir n c = true -> drow_spec sir n c.
Proof.
  intros sir n c H. unfold drow_okb in H. apply andb_true_iff in H. destruct H as [H H3]. apply andb_true_iff in H. destruct H as [H1 H2].
  split; [apply Nat.eqb_eq; exact H1|]. split; [|apply Z.eqb_eq; exact H3].
  apply Forall_forall. intros x Hx. rewrite forallb_forall in H2. apply Z.leb_le. apply H2. exact Hx.
Qed.

Lemma dmove_okb_spec : forall sir os a b, dmove_okb sir os a b = true -> dmove_spec sir os a b.
Proof.
  intros sir os a b H. unfold dmove_okb, dmove_spec in *. destruct sir.
  - apply andb_true_iff in H. destruct H as [H H4]. apply andb_true_iff in H. destruct H as [H H3]. apply andb_true_iff in H. destruct H as [H1 H2].
    apply Z.leb_le in H1. apply Z.leb_le in H2. apply Z.leb_le in H3. split; [exact H1|]. split; [exact H2|]. split; [exact H3|].
    intro E. subst os. apply Z.eqb_eq. exact H4.
  - apply Z.leb_le. exact H.
Qed.

Definition dpair_spec (sir os : bool) (n : Z) (tmax : xtime) (a b : row) : Prop :=
  (0 < cntz (snd a) 1)%Z /\ xlt (fst a) tmax = true /\ fst b == fst a + 1 /\ drow_spec sir n (snd b) /\ dmove_spec sir os (snd a) (snd b).

Lemma dpair_okb_spec : forall sir os n tmax a b, dpair_okb sir os n tmax a b = true -> dpair_spec sir os n tmax a b.
Proof.
  intros sir os n tmax a b H. unfold dpair_okb in H.
  apply andb_true_iff in H. destruct H as [H H5]. apply andb_true_iff in H. destruct H as [H H4].
  apply andb_true_iff in H. destruct H as [H H3]. apply andb_true_iff in H. destruct H as [H1 H2].
  split; [apply Z.ltb_lt; exact H1|]. split; [exact H2|]. split; [apply Qeq_bool_iff; exact H3|].
  split; [apply drow_okb_spec; exact H4|apply dmove_okb_spec; exact H5].
Qed.

(* on the newest-first list *)
Lemma dchain_pairs : forall sir os n tmin tmax m, dchainb sir os n tmin tmax m = true ->
  (forall m1 b a m2, m = m1 ++ b :: a :: m2 -> dpair_spec sir os n tmax a b) /\
  (exists m1 r, m = m1 ++ [r] /\ fst r == tmin /\ drow_spec sir n (snd r)).
Proof.
  intros sir os n tmin tmax m. induction m as [|b m IH]; intro H; [discriminate|].
  cbn [dchainb] in H. destruct m as [|a m'].
  - apply andb_true_iff in H. destruct H as [H1 H2]. split.
    + intros m1 b' a' m2 E. destruct m1 as [|x [|y m1]]; discriminate.
    + exists [], b. split; [reflexivity|]. split; [apply Qeq_bool_iff; exact H1|apply drow_okb_spec; exact H2].
  - apply andb_true_iff in H. destruct H as [H1 H2]. destruct (IH H2) as [P1 [m1 [r [E [P2 P3]]]]]. split.
    + intros k1 b' a' k2 Ek. destruct k1 as [|x k1].
      * injection Ek as E1 E2 E3. subst b' a' k2. apply dpair_okb_spec. exact H1.
      * injection Ek as E1 E2. apply (P1 k1 b' a' k2 E2).
    + exists (b :: m1), r. split; [rewrite E; reflexivity|]. split; assumption.
Qed.

Theorem dwf_rowsb_sound : forall sir os g tmin tmax l, dwf_rowsb sir os g tmin tmax l = true ->
  (exists r l', l = r :: l' /\ fst r == tmin /\ drow_spec sir (order g) (snd r)) /\
  (forall l1 a b l2, l = l1 ++ a :: b :: l2 -> dpair_spec sir os (order g) tmax a b) /\
  (exists l1 z, l = l1 ++ [z] /\ ((cntz (snd z) 1 = 0)%Z \/ xlt (fst z) tmax = false)).
Proof.
  intros sir os g tmin tmax l H. unfold dwf_rowsb in H. destruct (rev l) as [|z m] eqn:E; [discriminate|].
  apply andb_true_iff in H. destruct H as [H1 H2].
  destruct (dchain_pairs _ _ _ _ _ _ H1) as [P1 [m1 [r [Em [P2 P3]]]]].
  assert (El : l = rev (z :: m)) by (rewrite <- E, rev_involutive; reflexivity).
  split; [|split].
  - exists r, (rev m1). split; [rewrite El, Em, rev_app_distr; reflexivity|]. split; assumption.
  - intros l1 a b l2 Ea. apply (P1 (rev l2) b a (rev l1)).
    rewrite <- (rev_involutive (z :: m)), <- El, Ea. rewrite rev_app_distr. cbn [rev]. rewrite <- !app_assoc. reflexivity.
  - exists (rev m), z. split; [rewrite El; reflexivity|]. unfold dstopb in H2. apply orb_true_iff in H2.
    destruct H2 as [H2|H2]; [left; apply Z.eqb_eq; exact H2|right; apply negb_true_iff; exact H2].
Qed.

(* consequences, clause by clause *)
Lemma accepted_rows_ok : forall sir os g tmin tmax l, dwf_rowsb sir os g tmin tmax l = true ->
  forall r, In r l -> drow_spec sir (order g) (snd r).
Proof.
  intros sir os g tmin tmax l H r Hr. destruct (dwf_rowsb_sound _ _ _ _ _ _ H) as [[r0 [l' [E [_ P0]]]] [P _]].
  apply in_split in Hr. destruct Hr as [l1 [l2 Er]]. destruct l1 as [|a l1] using rev_ind.
  - rewrite E in Er. injection Er as E1 _. subst r0. exact P0.
  - clear IHl1. rewrite <- app_assoc in Er. cbn [app] in Er. apply (P l1 a r l2 Er).
Qed.

(* the k-th row is at time tmin + k *)
Lemma accepted_times : forall sir os g tmin tmax l, dwf_rowsb sir os g tmin tmax l = true ->
  forall k r, nth_error l k = Some r -> fst r == tmin + inject_Z (Z.of_nat k).
Proof.
  intros sir os g tmin tmax l H. destruct (dwf_rowsb_sound _ _ _ _ _ _ H) as [[r0 [l' [E [P0 _]]]] [P _]].
  induction k as [|k IH]; intros r Hr.
  - rewrite E in Hr. injection Hr as Hr. subst r0. rewrite P0. cbn. ring.
  - destruct (nth_error l k) as [a|] eqn:Ea.
    + destruct (nth_error_split l k Ea) as [l1 [l2 [El Hl]]].
      assert (Eb : exists l3, l2 = r :: l3).
      { rewrite El in Hr. rewrite nth_error_app2 in Hr by lia. rewrite Hl in Hr.
        replace (S k - k)%nat with 1%nat in Hr by lia. cbn in Hr. destruct l2 as [|b l3]; [discriminate|]. injection Hr as Hr. subst b. exists l3. reflexivity. }
      destruct Eb as [l3 Eb]. subst l2. destruct (P l1 a r l3 El) as [_ [_ [Et _]]].
      rewrite Et, (IH a eq_refl). rewrite Nat2Z.inj_succ. unfold Z.succ. rewrite inject_Z_plus. ring.
    + exfalso. apply nth_error_None in Ea. assert (nth_error l (S k) <> None) by congruence. apply nth_error_Some in H0. lia.
Qed.

(* a horizon of a whole number of steps is never exceeded *)
Lemma accepted_within_horizon : forall sir os g tmin l (n : nat),
  dwf_rowsb sir os g tmin (Some (tmin + inject_Z (Z.of_nat n))) l = true ->
  forall r, In r l -> fst r <= tmin + inject_Z (Z.of_nat n).
Proof.
  intros sir os g tmin l n H r Hr. destruct (dwf_rowsb_sound _ _ _ _ _ _ H) as [_ [P _]].
  apply In_nth_error in Hr. destruct Hr as [k Hk]. pose proof (accepted_times _ _ _ _ _ _ H k r Hk) as Et.
  destruct k as [|k].
  - rewrite Et. apply (proj2 (Qplus_le_r _ _ _)). rewrite <- Zle_Qle. lia.
  - destruct (nth_error l k) as [a|] eqn:Ea.
    + destruct (nth_error_split l k Ea) as [l1 [l2 [El Hl]]].
      assert (Eb : exists l3, l2 = r :: l3).
      { rewrite El in Hk. rewrite nth_error_app2 in Hk by lia. rewrite Hl in Hk.
        replace (S k - k)%nat with 1%nat in Hk by lia. cbn in Hk. destruct l2 as [|b l3]; [discriminate|]. injection Hk as Hk. subst b. exists l3. reflexivity. }
      destruct Eb as [l3 Eb]. subst l2. destruct (P l1 a r l3 El) as [_ [Hlt _]].
      pose proof (accepted_times _ _ _ _ _ _ H k a Ea) as Eta.
      unfold xlt in Hlt. destruct (Qlt_le_dec (fst a) (tmin + inject_Z (Z.of_nat n))) as [L|L]; [|discriminate].
      rewrite Eta in L. apply (proj1 (Qplus_lt_r _ _ _)) in L. rewrite <- Zlt_Qlt in L.
      rewrite Et. apply (proj2 (Qplus_le_r _ _ _)). rewrite <- Zle_Qle. lia.
    + exfalso. apply nth_error_None in Ea. assert (nth_error l (S k) <> None) by congruence. apply nth_error_Some in H0. lia.
Qed.

(* SIR: S never increases, R never decreases, along the whole list *)
Lemma accepted_SIR_monotone : forall os g tmin tmax l, dwf_rowsb true os g tmin tmax l = true ->
  forall l1 a b l2, l = l1 ++ a :: b :: l2 -> (cntz (snd b) 0 <= cntz (snd a) 0)%Z /\ (cntz (snd a) 2 <= cntz (snd b) 2)%Z.
Proof.
  intros os g tmin tmax l H l1 a b l2 E. destruct (dwf_rowsb_sound _ _ _ _ _ _ H) as [_ [P _]].
  destruct (P l1 a b l2 E) as [_ [_ [_ [_ M]]]]. cbn in M. split; apply M.
Qed.

(* ---------------- every run of the model, every draw script ---------------- *)
Theorem dsir_exec_run : forall g R trec ord i0 r0o tmin tmax full fuel ds out tr,
  wf_inputb g i0 (opt_list r0o) = true -> perm_oracle ord -> (full = true -> pick_sound R) ->
  exec (discrete_SIR g R trec ord (Some i0) r0o None tmin tmax full fuel) ds [] = (Ok out, tr) ->
  exists K t st rows hl tl,
    drun g kSIR (onestep_of trec) tmin tmax full (init_status i0 (opt_list r0o)) (init_tl full tmin i0) K t st rows hl tl /\
    dstopped g tmax t st /\
    so_rows (o_sim out) = rev rows /\
    so_full (o_sim out) = (if full then Some (mkFull (build_hist g tmin i0 (opt_list r0o) hl) (rev tl)) else None).
Proof.
  intros g R trec ord i0 r0o tmin tmax full fuel ds out tr Hwf Hord Hpick H. apply exec_reach in H.
  exact (dsir_run g R trec ord i0 r0o tmin tmax full fuel out Hwf Hord Hpick H).
Qed.

Theorem dsir_rows_accepted : forall g R trec ord i0 r0o tmin tmax full fuel ds out tr,
  wf_inputb g i0 (opt_list r0o) = true -> perm_oracle ord -> (full = true -> pick_sound R) ->
  exec (discrete_SIR g R trec ord (Some i0) r0o None tmin tmax full fuel) ds [] = (Ok out, tr) ->
  dwf_rowsb true (onestep_of trec) g tmin tmax (so_rows (o_sim out)) = true.
Proof.
  intros g R trec ord i0 r0o tmin tmax full fuel ds out tr Hwf Hord Hpick H.
  destruct (dsir_exec_run _ _ _ _ _ _ _ _ _ _ _ _ _ Hwf Hord Hpick H) as [K [t [st [rows [hl [tl [Hrun [Hstop [Er _]]]]]]]]].
  rewrite Er. exact (drun_rows_accepted _ _ _ _ _ _ _ _ _ _ _ _ _ _ Hrun Hstop).
Qed.

Theorem dsis_exec_run : forall g R ord i0 tmin tmax full fuel ds out tr,
  wf_inputb g i0 [] = true -> perm_oracle ord -> (full = true -> pick_sound R) ->
  exec (basic_discrete_SIS_R g R ord (Some i0) None tmin tmax full fuel) ds [] = (Ok out, tr) ->
  exists K t st rows hl tl,
    drun g kSIS true tmin tmax full (init_status i0 []) (init_tl full tmin i0) K t st rows hl tl /\
    dstopped g tmax t st /\
    so_rows (o_sim out) = rev rows /\
    so_full (o_sim out) = (if full then Some (mkFull (build_hist g tmin i0 [] hl) (rev tl)) else None).
Proof.
  intros g R ord i0 tmin tmax full fuel ds out tr Hwf Hord Hpick H. apply exec_reach in H.
  exact (dsis_run g R ord i0 tmin tmax full fuel out Hwf Hord Hpick H).
Qed.

Theorem dsis_rows_accepted : forall g R ord i0 tmin tmax full fuel ds out tr,
  wf_inputb g i0 [] = true -> perm_oracle ord -> (full = true -> pick_sound R) ->
  exec (basic_discrete_SIS_R g R ord (Some i0) None tmin tmax full fuel) ds [] = (Ok out, tr) ->
  dwf_rowsb false true g tmin tmax (so_rows (o_sim out)) = true.
Proof.
  intros g R ord i0 tmin tmax full fuel ds out tr Hwf Hord Hpick H.
  destruct (dsis_exec_run _ _ _ _ _ _ _ _ _ _ _ Hwf Hord Hpick H) as [K [t [st [rows [hl [tl [Hrun [Hstop [Er _]]]]]]]]].
  rewrite Er. exact (drun_rows_accepted _ _ _ _ _ _ _ _ _ _ _ _ _ _ Hrun Hstop).
Qed.

(* the rows of a drun are, chronologically, the censuses of its status maps: what "rows
   consistent with the status changes" means is the definition of [drun]; this lemma
   exposes the k-th status map *)
Lemma drun_nth : forall g kind os tmin tmax full st0 tl0 K t st rows hl tl,
  drun g kind os tmin tmax full st0 tl0 K t st rows hl tl ->
  length rows = S K /\ nth_error (rev rows) K = Some (t, GillespieP.census g kind st).
Proof.
  intros g kind os tmin tmax full st0 tl0 K t st rows hl tl H.
  induction H as [st Hst Hok|k t st rows hl tl st' hnew tnew H [IH1 IH2]].
  - split; reflexivity.
  - split; [cbn [length]; rewrite IH1; reflexivity|]. cbn [rev]. rewrite nth_error_app2 by (rewrite rev_length; lia).
    rewrite rev_length, IH1, Nat.sub_diag. reflexivity.
Qed.

(* unbounded horizon: the last row has no infected node *)
Lemma accepted_unbounded_ends_without_infection : forall sir os g tmin l, dwf_rowsb sir os g tmin None l = true ->
  exists l1 z, l = l1 ++ [z] /\ cntz (snd z) 1 = 0%Z.
Proof.
  intros sir os g tmin l H. destruct (dwf_rowsb_sound _ _ _ _ _ _ H) as [_ [_ [l1 [z [E [Hz|Hz]]]]]].
  - exists l1, z. split; assumption.
  - discriminate Hz.
Qed.
