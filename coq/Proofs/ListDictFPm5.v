(* The running total _total_weight under binary64, with the monotonicity of rnd53:
   it is a binary64 number after every history; an increment >= 0 (update, or insert of
   a key that is absent) never lowers it; a removal that leaves a candidate never raises
   it, and leaves it >= 0 whenever the removed weight does not exceed it (the removal that
   empties the structure resets it to exactly 0). *)
From EoNV Require Import Prelude Samp ListDict ListDictP ListDictF ListDictFP ListDictFPr ListDictFPr2
  ListDictFP2 ListDictFP3 ListDictFP4 ListDictFPb ListDictFPm ListDictFPm2 ListDictFPm3 ListDictFPm4.
From Coq Require Import Qabs Qpower Lqa.

Section B64T.
Variable K : Type.
Variable Keqb : K -> K -> bool.
Hypothesis Keqb_spec : forall a b, reflect (a = b) (Keqb a b).

Definition trep (s : ld K) : Prop := rnd53 (total s) == total s.

Lemma upd_total : forall s k d s', ldf_inv K s -> weighted s = true -> 0 <= d ->
  ldf_update K Keqb rnd53 s k (Some d) = Ok s' -> total s' = fadd rnd53 (total s) d.
Proof.
  intros s k d s' Hinv Hw Hd He. destruct eps53_range as [_ H1].
  destruct (ldf_update_spec K Keqb Keqb_spec rnd53 eps53 H1 rnd53_err s k d Hinv Hw Hd)
    as [s2 [E2 [_ [_ [Et _]]]]].
  rewrite E2 in He. injection He as He. subst s2. exact Et.
Qed.

Lemma rem_total : forall s k s', ldf_inv K s -> weighted s = true ->
  ldf_remove K Keqb rnd53 s k = Ok s' ->
  ldf_inv K s' /\ weighted s' = true /\
  total s' = match items s' with [] => 0 | _ => fsub rnd53 (total s) (wread K s k) end.
Proof.
  intros s k s' Hinv Hw He.
  destruct (ldf_remove_spec K Keqb Keqb_spec rnd53 s k Hinv Hw) as [[_ E]|[_ [s2 [E [Hi [Hw2 [Et _]]]]]]];
    rewrite E in He; [discriminate He|]. injection He as He. subst s2.
  split; [exact Hi|]. split; [exact Hw2|exact Et].
Qed.

Lemma step_trep : forall s o s', ldf_inv K s -> weighted s = true -> op_ok K true o ->
  trep s -> ldf_step K Keqb rnd53 s o = Ok s' -> trep s'.
Proof.
  intros s o s' Hinv Hw Hok Ht He. unfold trep in *.
  destruct o as [k q|k d|k|k]; cbn [op_ok] in Hok; cbn [ListDictF.ldf_step] in He.
  - destruct Hok as [_ Hq]. unfold ListDictF.ldf_insert in He.
    destruct (contains K s k) eqn:Hc.
    + destruct (ldf_remove K Keqb rnd53 s k) as [s1|e] eqn:E; cbn [rbind] in He; [|discriminate He].
      destruct (rem_total s k s1 Hinv Hw E) as [Hi1 [Hw1 Et1]].
      assert (Ht1 : rnd53 (total s1) == total s1).
      { rewrite Et1. destruct (items s1); [exact rnd53_zero|unfold fsub; apply rnd53_idem]. }
      destruct (Qeqb q 0); [injection He as He; subst s'; exact Ht1|].
      rewrite (upd_total s1 k q s' Hi1 Hw1 Hq He). unfold fadd. apply rnd53_idem.
    + cbn [rbind] in He. destruct (Qeqb q 0); [injection He as He; subst s'; exact Ht|].
      rewrite (upd_total s k q s' Hinv Hw Hq He). unfold fadd. apply rnd53_idem.
  - destruct Hok as [_ Hd]. rewrite (upd_total s k d s' Hinv Hw Hd He). unfold fadd. apply rnd53_idem.
  - destruct (rem_total s k s' Hinv Hw He) as [_ [_ Et]]. rewrite Et.
    destruct (items s'); [exact rnd53_zero|unfold fsub; apply rnd53_idem].
  - discriminate Hok.
Qed.

Theorem b64_total_representable : forall (ops : list (op K)) (s : ld K),
  Forall (op_ok K true) ops -> ldf_run K Keqb rnd53 (ld_empty true) ops = Ok s ->
  rnd53 (total s) == total s.
Proof.
  intros ops s Hok He. destruct eps53_range as [H0 H1].
  assert (G : forall l s0 s1, ldf_inv K s0 -> weighted s0 = true -> trep s0 ->
            Forall (op_ok K true) l -> ldf_run K Keqb rnd53 s0 l = Ok s1 -> trep s1).
  { clear ops s Hok He. intros l. induction l as [|o l IH]; intros s0 s1 Hinv Hw Hm Hok He.
    - cbn [ListDictF.ldf_run] in He. injection He as He. subst s1. exact Hm.
    - cbn [ListDictF.ldf_run] in He. inversion Hok as [|o' ops' Ho Hops]; subst o' ops'.
      destruct (ldf_step_spec K Keqb Keqb_spec rnd53 eps53 H0 H1 rnd53_err s0 o Hinv Hw Ho)
        as [[k [_ [_ E]]]|[s2 [E [Hi2 [Hw2 _]]]]]; rewrite E in He; cbn [rbind] in He;
        [discriminate He|].
      apply (IH s2 s1 Hi2 Hw2); [|exact Hops|exact He].
      apply (step_trep s0 o s2 Hinv Hw Ho Hm E). }
  apply (G ops (ld_empty true) s (ldf_empty_inv K true) eq_refl); [|exact Hok|exact He].
  unfold trep. cbn [ld_empty total]. exact rnd53_zero.
Qed.

(* the total along one more operation of a history *)
Theorem b64_total_monotone_steps : forall (ops : list (op K)) (s s' : ld K) o,
  Forall (op_ok K true) ops -> ldf_run K Keqb rnd53 (ld_empty true) ops = Ok s ->
  op_ok K true o -> ldf_step K Keqb rnd53 s o = Ok s' ->
  match o with
  | OpUpdate _ _ => total s <= total s'
  | OpInsert k _ => contains K s k = false -> total s <= total s'
  | OpRemove k => (items s' <> [] -> total s' <= total s) /\ (wread K s k <= total s -> 0 <= total s')
  | OpAdd _ => True
  end.
Proof.
  intros ops s s' o Hok He Ho Hs.
  destruct (b64_run_inv K Keqb Keqb_spec ops s Hok He) as [Hinv Hw].
  pose proof (b64_total_representable ops s Hok He) as Ht.
  pose proof (fwread_nonneg K s) as Hnn.
  destruct o as [k q|k d|k|k]; cbn [op_ok] in Ho; cbn [ListDictF.ldf_step] in Hs; [| | |exact I].
  - destruct Ho as [_ Hq]. intro Hc. unfold ListDictF.ldf_insert in Hs. rewrite Hc in Hs.
    cbn [rbind] in Hs. destruct (Qeqb q 0); [injection Hs as Hs; subst s'; lra|].
    rewrite (upd_total s k q s' Hinv Hw Hq Hs). apply b64_fadd_ge; assumption.
  - destruct Ho as [_ Hd]. rewrite (upd_total s k d s' Hinv Hw Hd Hs). apply b64_fadd_ge; assumption.
  - destruct (rem_total s k s' Hinv Hw Hs) as [_ [_ Et]]. rewrite Et.
    specialize (Hnn k Hinv Hw). destruct (items s').
    + (* emptied: exact reset to 0 (this can RAISE a total that had drifted below 0) *)
      split; [intro H; contradiction H; reflexivity|intros _; lra].
    + split; [intros _; apply b64_fsub_le; assumption|intro H; apply b64_fsub_nonneg; exact H].
Qed.

End B64T.

Print Assumptions b64_total_representable.
Print Assumptions b64_total_monotone_steps.
