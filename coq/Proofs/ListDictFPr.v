(* The concrete rounding [rnd53] of Model/ListDictF.v (round to nearest, ties to
   even, 53 significant bits, over Q and Z only) satisfies the standard model of
   floating-point arithmetic: |rnd53 x - x| <= 2^-53 |x| for EVERY rational x. *)
From EoNV Require Import Prelude ListDict ListDictF.
From Coq Require Import Qabs Qpower Lqa.

(* ---------- round-half-even to an integer ---------- *)
Lemma rne_Z : forall n d, (2 * Z.abs (rne n d * Zpos d - n) <= Zpos d)%Z.
Proof.
  intros n d. unfold rne. cbv zeta.
  assert (Hd0 : Zpos d <> 0%Z) by discriminate.
  assert (Hd1 : (0 < Zpos d)%Z) by reflexivity.
  pose proof (Z.div_mod n (Zpos d) Hd0) as Hdm.
  pose proof (Z.mod_pos_bound n (Zpos d) Hd1) as Hr.
  set (q := (n / Zpos d)%Z) in *. set (r := (n mod Zpos d)%Z) in *. clearbody q r.
  destruct (2 * r ?= Zpos d)%Z eqn:E.
  - apply Z.compare_eq in E. destruct (Z.even q); lia.
  - rewrite Z.compare_lt_iff in E. lia.
  - rewrite Z.compare_gt_iff in E. lia.
Qed.

Lemma rne_Q : forall y : Q, Qabs (inject_Z (rne (Qnum y) (Qden y)) - y) <= 1 # 2.
Proof.
  intros [n d]. cbn [Qnum Qden]. pose proof (rne_Z n d) as H.
  set (m := rne n d) in *.
  apply Qabs_Qle_condition. unfold Qle, Qminus, Qplus, Qopp, inject_Z. cbn [Qnum Qden].
  split; nia.
Qed.

(* ---------- powers of two ---------- *)
Lemma two_pow_pos : forall e : Z, 0 < 2 ^ e.
Proof. intro e. apply Qpower_0_lt. reflexivity. Qed.

Lemma two_pow_add : forall a b : Z, 2 ^ (a + b) == 2 ^ a * 2 ^ b.
Proof. intros a b. apply Qpower_plus. discriminate. Qed.

Lemma two_pow_cancel : forall e : Z, 2 ^ (- e) * 2 ^ e == 1.
Proof.
  intro e. rewrite <- two_pow_add. replace (- e + e)%Z with 0%Z by lia. reflexivity.
Qed.

(* ---------- the exponent is not above floor(log2 x) ---------- *)
Lemma log2_candidate_low : forall (n d : positive),
  2 ^ (Z.log2 (Zpos n) - Z.log2 (Zpos d) - 1) <= Zpos n # d.
Proof.
  intros n d.
  assert (Hn1 : (0 < Zpos n)%Z) by reflexivity.
  assert (Hd1 : (0 < Zpos d)%Z) by reflexivity.
  destruct (Z.log2_spec (Zpos n) Hn1) as [Ha _].
  destruct (Z.log2_spec (Zpos d) Hd1) as [_ Hb].
  pose proof (Z.log2_nonneg (Zpos n)) as Ha0. pose proof (Z.log2_nonneg (Zpos d)) as Hb0.
  set (a := Z.log2 (Zpos n)) in *. set (b := Z.log2 (Zpos d)) in *.
  replace (a - b - 1)%Z with (a + - (Z.succ b))%Z by lia.
  rewrite two_pow_add, Qpower_opp.
  change 2 with (inject_Z 2).
  rewrite <- !Zpower_Qpower by lia.
  assert (Hp : (0 < 2 ^ Z.succ b)%Z) by (apply Z.pow_pos_nonneg; lia).
  assert (Hq : (0 < 2 ^ a)%Z) by (apply Z.pow_pos_nonneg; lia).
  destruct (2 ^ Z.succ b)%Z as [|pb|pb] eqn:Eb; try lia.
  destruct (2 ^ a)%Z as [|pa|pa] eqn:Ea; try lia.
  unfold Qle, Qmult, Qinv, inject_Z. cbn [Qnum Qden]. nia.
Qed.

Definition rnd_L (x : Q) : Z :=
  let e0 := (Z.log2 (Qnum x) - Z.log2 (Zpos (Qden x)))%Z in
  if Qle_bool (2 ^ e0) x then e0 else (e0 - 1)%Z.

Lemma rnd_L_low : forall x, 0 < x -> 2 ^ rnd_L x <= x.
Proof.
  intros [n d] Hx. unfold rnd_L. cbv zeta. cbn [Qnum Qden].
  destruct (Qle_bool (2 ^ (Z.log2 n - Z.log2 (Z.pos d))) (n # d)) eqn:E.
  - apply Qle_bool_iff. exact E.
  - destruct n as [|n|n]; [discriminate Hx| |discriminate Hx].
    apply log2_candidate_low.
Qed.

(* ---------- relative error of one rounding ---------- *)
Lemma rnd_pos_err : forall prec x, 0 < x ->
  Qabs (rnd_pos prec x - x) <= 2 ^ (- prec) * x.
Proof.
  intros prec x Hx. unfold rnd_pos. cbv zeta. fold (rnd_L x).
  set (e := (rnd_L x - (prec - 1))%Z).
  set (y := x * 2 ^ (- e)).
  pose proof (rne_Q y) as Hm. set (m := inject_Z (rne (Qnum y) (Qden y))) in *.
  pose proof (two_pow_pos e) as He.
  assert (Exy : x == y * 2 ^ e).
  { unfold y. rewrite <- Qmult_assoc, two_pow_cancel. ring. }
  assert (E1 : m * 2 ^ e - x == (m - y) * 2 ^ e) by (rewrite Exy at 1; ring).
  rewrite E1, Qabs_Qmult, (Qabs_pos (2 ^ e)) by lra.
  assert (H1 : Qabs (m - y) * 2 ^ e <= (1 # 2) * 2 ^ e).
  { apply Qmult_le_compat_r; [exact Hm|lra]. }
  eapply Qle_trans; [exact H1|].
  (* 2^e / 2 = 2^-prec * 2^L <= 2^-prec * x *)
  assert (E2 : (1 # 2) * 2 ^ e == 2 ^ (- prec) * 2 ^ rnd_L x).
  { unfold e. replace (rnd_L x - (prec - 1))%Z with (- prec + (rnd_L x + 1))%Z by lia.
    rewrite !two_pow_add. change (2 ^ 1) with 2. ring. }
  rewrite E2. pose proof (two_pow_pos (- prec)) as Hp.
  rewrite (Qmult_comm (2 ^ - prec) (2 ^ rnd_L x)), (Qmult_comm (2 ^ - prec) x).
  apply Qmult_le_compat_r; [apply rnd_L_low; exact Hx|lra].
Qed.

Theorem rnd_prec_err : forall prec x,
  Qabs (rnd_prec prec x - x) <= 2 ^ (- prec) * Qabs x.
Proof.
  intros prec x. unfold rnd_prec. cbv zeta.
  pose proof (Qred_correct x) as Hr. set (r := Qred x) in *.
  rewrite <- Hr. clearbody r. clear Hr x.
  destruct r as [n d]. cbn [Qnum]. destruct n as [|n|n].
  - assert (E : 0 # d == 0) by reflexivity. rewrite E. change (Qabs 0) with 0.
    setoid_replace (0 - 0) with 0 by ring. change (Qabs 0) with 0.
    pose proof (two_pow_pos (- prec)). lra.
  - assert (Hx : 0 < Zpos n # d) by reflexivity.
    rewrite (Qabs_pos (Zpos n # d)) by (apply Qlt_le_weak; exact Hx).
    apply rnd_pos_err. exact Hx.
  - assert (Hx : 0 < - (Zneg n # d)) by reflexivity.
    pose proof (rnd_pos_err prec (- (Zneg n # d)) Hx) as H.
    assert (E : - rnd_pos prec (- (Z.neg n # d)) - (Z.neg n # d)
                == - (rnd_pos prec (- (Z.neg n # d)) - - (Z.neg n # d))) by ring.
    rewrite E, Qabs_opp.
    assert (E2 : Qabs (Z.neg n # d) == - (Z.neg n # d)).
    { apply Qabs_neg. apply Qlt_le_weak. reflexivity. }
    rewrite E2. exact H.
Qed.

Lemma eps53_pow : eps53 == 2 ^ (- 53).
Proof. reflexivity. Qed.

Theorem rnd53_err : forall x, Qabs (rnd53 x - x) <= eps53 * Qabs x.
Proof. intro x. rewrite eps53_pow. apply rnd_prec_err. Qed.

(* [rnd53] respects equality of rationals (it starts by reducing its argument) *)
Theorem rnd53_proper : forall x y, x == y -> rnd53 x = rnd53 y.
Proof.
  intros x y H. unfold rnd53, rnd_prec. rewrite (Qred_complete x y H). reflexivity.
Qed.

Lemma eps53_range : 0 <= eps53 /\ eps53 <= 1.
Proof. split; discriminate. Qed.

Print Assumptions rnd53_err.
