(* Lemmas about Model/Percolation.v (property C17). *)
From EoNV Require Import Prelude Samp Graph Percolation.
From Coq Require Import Permutation Lqa.

(* ---------------- booleans and lists ---------------- *)
Lemma mem_In x l : mem x l = true <-> In x l.
Proof.
  unfold mem. rewrite existsb_exists. split.
  - intros [y [Hy He]]. apply N.eqb_eq in He. subst. exact Hy.
  - intros H. exists x. split; [exact H|apply N.eqb_refl].
Qed.

Lemma mem_nIn x l : mem x l = false <-> ~ In x l.
Proof.
  rewrite <- mem_In. destruct (mem x l); split; intro H.
  - discriminate H.
  - exfalso. apply H. reflexivity.
  - intro H'. discriminate H'.
  - reflexivity.
Qed.

Lemma nodupb_NoDup l : nodupb l = true -> NoDup l.
Proof.
  induction l as [|a l IH]; intro H; [constructor|].
  cbn in H. apply andb_true_iff in H. destruct H as [H1 H2].
  constructor; [|apply IH; exact H2].
  apply mem_nIn. apply negb_true_iff in H1. exact H1.
Qed.

Lemma subsetb_incl a b : subsetb a b = true -> incl a b.
Proof.
  unfold subsetb. rewrite forallb_forall. intros H x Hx. apply mem_In. apply H. exact Hx.
Qed.

Lemma nodup_app (a b : list node) :
  NoDup a -> NoDup b -> (forall x, In x a -> ~ In x b) -> NoDup (a ++ b).
Proof.
  induction a as [|x a IH]; intros Ha Hb Hd; [exact Hb|].
  inversion Ha as [|? ? Hx Ha']; subst. cbn. constructor.
  - rewrite in_app_iff. intros [H|H]; [exact (Hx H)|]. apply (Hd x); [left; reflexivity|exact H].
  - apply IH; [exact Ha'|exact Hb|]. intros y Hy. apply Hd. right. exact Hy.
Qed.

Lemma same_members_length (a b : list node) :
  NoDup a -> NoDup b -> (forall x, In x a <-> In x b) -> length a = length b.
Proof.
  intros Ha Hb H. apply Permutation_length. apply NoDup_Permutation; assumption.
Qed.

(* ---------------- fresh / dedup / union / drop ---------------- *)
Lemma fresh_In l : forall seen y, In y (fresh l seen) <-> In y l /\ ~ In y seen.
Proof.
  induction l as [|a l IH]; intros seen y; cbn.
  - tauto.
  - destruct (mem a seen) eqn:Hm.
    + apply mem_In in Hm. rewrite IH. split.
      * intros [H1 H2]. split; [right; exact H1|exact H2].
      * intros [[H1|H1] H2]; [subst; contradiction|split; assumption].
    + apply mem_nIn in Hm. cbn. rewrite IH. cbn. split.
      * intros [H|[H1 H2]]; [subst; split; [left; reflexivity|exact Hm]|].
        split; [right; exact H1|]. intro H3. apply H2. right. exact H3.
      * intros [[H1|H1] H2]; [left; exact H1|].
        destruct (N.eq_dec a y) as [E|E]; [left; exact E|].
        right. split; [exact H1|]. intros [H3|H3]; [exact (E H3)|exact (H2 H3)].
Qed.

Lemma fresh_NoDup l : forall seen, NoDup (fresh l seen).
Proof.
  induction l as [|a l IH]; intros seen; cbn; [constructor|].
  destruct (mem a seen); [apply IH|].
  constructor; [|apply IH]. rewrite fresh_In. intros [_ H]. apply H. left. reflexivity.
Qed.

Lemma nodup_app_fresh seen l : NoDup seen -> NoDup (seen ++ fresh l seen).
Proof.
  intro H. apply nodup_app; [exact H|apply fresh_NoDup|].
  intros x Hx Hf. apply fresh_In in Hf. exact (proj2 Hf Hx).
Qed.

Lemma dedup_In l y : In y (dedup l) <-> In y l.
Proof. unfold dedup. rewrite fresh_In. cbn. tauto. Qed.
Lemma dedup_NoDup l : NoDup (dedup l).
Proof. apply fresh_NoDup. Qed.

Lemma union_In a b y : In y (union a b) <-> In y a \/ In y b.
Proof.
  unfold union. rewrite in_app_iff, fresh_In. split.
  - intros [H|[H _]]; [left|right]; exact H.
  - intros [H|H]; [left; exact H|].
    destruct (in_dec N.eq_dec y a) as [Hi|Hi]; [left; exact Hi|right; split; assumption].
Qed.
Lemma union_NoDup a b : NoDup a -> NoDup (union a b).
Proof. apply nodup_app_fresh. Qed.

Lemma drop_In s l y : In y (drop s l) <-> In y l /\ y <> s.
Proof.
  unfold drop. rewrite filter_In, negb_true_iff, N.eqb_neq. tauto.
Qed.
Lemma drop_NoDup s l : NoDup l -> NoDup (drop s l).
Proof. apply NoDup_filter. Qed.

(* ---------------- reachability and the breadth-first closure ---------------- *)
Section BFS.
Variable succ : node -> list node.

Inductive reach : node -> node -> Prop :=
| reach_refl x : reach x x
| reach_step x y z : reach x y -> In z (succ y) -> reach x z.

Lemma reach_trans x y z : reach x y -> reach y z -> reach x z.
Proof.
  intros Hxy Hyz. induction Hyz as [|y w z Hyw IH Hz]; [exact Hxy|].
  eapply reach_step; [apply IH; exact Hxy|exact Hz].
Qed.

Lemma reach_left x y z : In y (succ x) -> reach y z -> reach x z.
Proof.
  intros H1 H2. eapply reach_trans; [|exact H2].
  eapply reach_step; [apply reach_refl|exact H1].
Qed.

Lemma bfs_seen : forall fuel work seen r,
  bfs succ fuel work seen = Ok r -> incl seen r.
Proof.
  induction fuel as [|f IH]; intros work seen r H; destruct work as [|x rest]; cbn in H.
  - inversion H; subst. apply incl_refl.
  - discriminate.
  - inversion H; subst. apply incl_refl.
  - apply IH in H. intros y Hy. apply H. apply in_or_app. left. exact Hy.
Qed.

(* everything found satisfies any property that holds of the start set and is
   preserved by the successor relation *)
Lemma bfs_sound (P : node -> Prop) :
  (forall x y, P x -> In y (succ x) -> P y) ->
  forall fuel work seen r,
  incl work seen -> (forall x, In x seen -> P x) ->
  bfs succ fuel work seen = Ok r -> forall y, In y r -> P y.
Proof.
  intros HP. induction fuel as [|f IH]; intros work seen r Hw Hs H; destruct work as [|x rest]; cbn in H.
  - inversion H; subst. exact Hs.
  - discriminate.
  - inversion H; subst. exact Hs.
  - eapply IH; [| |exact H].
    + intros z Hz. apply in_app_or in Hz. apply in_or_app. destruct Hz as [Hz|Hz]; [left|right; exact Hz].
      apply Hw. right. exact Hz.
    + intros z Hz. apply in_app_or in Hz. destruct Hz as [Hz|Hz]; [exact (Hs z Hz)|].
      apply fresh_In in Hz. apply (HP x); [|exact (proj1 Hz)]. apply Hs. apply Hw. left. reflexivity.
Qed.

(* the result is closed under the successor relation *)
Lemma bfs_closed : forall fuel work seen r,
  (forall x, In x seen -> In x work \/ incl (succ x) seen) ->
  bfs succ fuel work seen = Ok r -> forall x, In x r -> incl (succ x) r.
Proof.
  induction fuel as [|f IH]; intros work seen r Hinv H; destruct work as [|x rest]; cbn in H.
  - inversion H; subst. intros z Hz. destruct (Hinv z Hz) as [[]|Hc]. exact Hc.
  - discriminate.
  - inversion H; subst. intros z Hz. destruct (Hinv z Hz) as [[]|Hc]. exact Hc.
  - eapply IH; [|exact H]. intros z Hz. apply in_app_or in Hz. destruct Hz as [Hz|Hz].
    + destruct (Hinv z Hz) as [[Hx|Hr]|Hc].
      * subst z. right. intros y Hy.
        destruct (in_dec N.eq_dec y seen) as [Hi|Hi]; apply in_or_app; [left; exact Hi|right].
        apply fresh_In. split; assumption.
      * left. apply in_or_app. left. exact Hr.
      * right. intros y Hy. apply in_or_app. left. apply Hc. exact Hy.
    + left. apply in_or_app. right. exact Hz.
Qed.

(* fuel: every node is dequeued at most once *)
Lemma bfs_total (nodes : list node) :
  NoDup nodes -> (forall x, In x nodes -> incl (succ x) nodes) ->
  forall fuel done work,
  NoDup (done ++ work) -> incl (done ++ work) nodes -> (length nodes <= fuel + length done)%nat ->
  exists r, bfs succ fuel work (done ++ work) = Ok r /\ NoDup r /\ incl r nodes.
Proof.
  intros Hnd Hcl. induction fuel as [|f IH]; intros done work Hn Hi Hl; destruct work as [|x rest].
  - exists (done ++ []). cbn. auto.
  - exfalso. pose proof (NoDup_incl_length Hn Hi) as HL. rewrite app_length in HL. cbn in HL, Hl. lia.
  - exists (done ++ []). cbn. auto.
  - cbn [bfs].
    set (nw := fresh (succ x) (done ++ x :: rest)).
    assert (E : (done ++ x :: rest) ++ nw = (done ++ [x]) ++ (rest ++ nw)).
    { rewrite <- !app_assoc. reflexivity. }
    rewrite E. apply IH.
    + rewrite <- E. apply nodup_app_fresh. exact Hn.
    + rewrite <- E. apply incl_app; [exact Hi|].
      intros y Hy. apply fresh_In in Hy. apply (Hcl x); [|exact (proj1 Hy)].
      apply Hi. apply in_or_app. right. left. reflexivity.
    + rewrite app_length. cbn. lia.
Qed.
End BFS.

Lemma reach_rev (succ pred : node -> list node) (nodes : list node) :
  (forall a b, In a nodes -> In b (succ a) -> In b nodes /\ In a (pred b)) ->
  forall x y, In x nodes -> reach succ x y -> In y nodes /\ reach pred y x.
Proof.
  intros H x y Hx Hr. induction Hr as [x|x y z Hxy IH Hz].
  - split; [exact Hx|apply reach_refl].
  - destruct (IH Hx) as [Hy Hyx]. destruct (H y z Hy Hz) as [Hzn Hyz].
    split; [exact Hzn|]. eapply reach_left; [exact Hyz|exact Hyx].
Qed.

(* ---------------- well-formed graphs ---------------- *)
Record wfg (g : graph) : Prop := {
  wf_nodes : NoDup (gnodes g);
  wf_adj_in : forall u, In u (gnodes g) -> incl (gadj g u) (gnodes g);
  wf_pred_in : forall u, In u (gnodes g) -> incl (gpred g u) (gnodes g);
  wf_adj_pred : forall u v, In u (gnodes g) -> In v (gadj g u) -> In u (gpred g v);
  wf_pred_adj : forall u v, In u (gnodes g) -> In v (gpred g u) -> In u (gadj g v);
  wf_adj_nodup : forall u, In u (gnodes g) -> NoDup (gadj g u)
}.

Lemma wf_graphb_wfg g : wf_graphb g = true -> wfg g.
Proof.
  unfold wf_graphb. rewrite !andb_true_iff. intros [[H1 H2] _].
  rewrite forallb_forall in H2.
  assert (K : forall u, In u (gnodes g) ->
     NoDup (gadj g u) /\ incl (gadj g u) (gnodes g) /\
     (forall v, In v (gadj g u) -> In u (gpred g v)) /\
     incl (gpred g u) (gnodes g) /\ (forall v, In v (gpred g u) -> In u (gadj g v))).
  { intros u Hu. specialize (H2 u Hu). rewrite !andb_true_iff in H2.
    destruct H2 as [[[[[[A B] _] D] _] F] G].
    rewrite forallb_forall in D, G.
    repeat split.
    - apply nodupb_NoDup; exact A.
    - apply subsetb_incl; exact B.
    - intros v Hv. apply mem_In. apply D. exact Hv.
    - apply subsetb_incl; exact F.
    - intros v Hv. apply mem_In. apply G. exact Hv. }
  constructor.
  - apply nodupb_NoDup; exact H1.
  - intros u Hu. apply (K u Hu).
  - intros u Hu. apply (K u Hu).
  - intros u v Hu Hv. apply (K u Hu). exact Hv.
  - intros u v Hu Hv. apply (K u Hu). exact Hv.
  - intros u Hu. apply (K u Hu).
Qed.

Definition fwd (g : graph) := reach (gadj g).

Lemma bwd_fwd g : wfg g -> forall u x, In u (gnodes g) -> (reach (gpred g) u x <-> In x (gnodes g) /\ fwd g x u).
Proof.
  intros W u x Hu. split.
  - intro H. eapply (reach_rev (gpred g) (gadj g) (gnodes g)); [|exact Hu|exact H].
    intros a b Ha Hb. split; [apply (wf_pred_in g W a Ha); exact Hb|apply (wf_pred_adj g W); assumption].
  - intros [Hx H]. eapply (reach_rev (gadj g) (gpred g) (gnodes g)); [|exact Hx|exact H].
    intros a b Ha Hb. split; [apply (wf_adj_in g W a Ha); exact Hb|apply (wf_adj_pred g W); assumption].
Qed.

Lemma fwd_in_nodes g : wfg g -> forall u x, In u (gnodes g) -> fwd g u x -> In x (gnodes g).
Proof.
  intros W u x Hu H. induction H as [|x y z Hxy IH Hz]; [exact Hu|].
  apply (wf_adj_in g W y (IH Hu)). exact Hz.
Qed.

(* ---------------- closure = reachable set, no OutOfFuel ---------------- *)
Lemma closure_spec g (succ : node -> list node) s :
  NoDup (gnodes g) -> (forall x, In x (gnodes g) -> incl (succ x) (gnodes g)) -> In s (gnodes g) ->
  exists r, closure g succ s = Ok r /\ NoDup r /\ incl r (gnodes g) /\ forall y, In y r <-> reach succ s y.
Proof.
  intros Hnd Hcl Hs. unfold closure.
  destruct (bfs_total succ (gnodes g) Hnd Hcl (length (gnodes g)) [] [s]) as [r [Hr [Hn Hi]]].
  - cbn. constructor; [intros []|constructor].
  - cbn. intros y [Hy|[]]. subst. exact Hs.
  - cbn. lia.
  - cbn in Hr. exists r. split; [exact Hr|]. split; [exact Hn|]. split; [exact Hi|].
    intro y. split.
    + apply (bfs_sound succ (reach succ s)) with (fuel := length (gnodes g)) (work := [s]) (seen := [s]).
      * intros a b Ha Hb. eapply reach_step; eassumption.
      * apply incl_refl.
      * intros x [Hx|[]]. subst. apply reach_refl.
      * exact Hr.
    + intro H. induction H as [|x y z Hxy IH Hz].
      * apply (bfs_seen _ _ _ _ _ Hr). left. reflexivity.
      * eapply (bfs_closed succ _ _ _ _ _ Hr); [exact (IH Hs Hr)|exact Hz].
        Unshelve. intros a [Ha|[]]. left. left. exact Ha.
Qed.

Lemma closure_fwd g : wfg g -> forall s, In s (gnodes g) ->
  exists r, closure g (gadj g) s = Ok r /\ NoDup r /\ forall y, In y r <-> fwd g s y.
Proof.
  intros W s Hs. destruct (closure_spec g (gadj g) s (wf_nodes g W) (wf_adj_in g W) Hs) as [r [H1 [H2 [_ H3]]]].
  exists r. auto.
Qed.

Lemma closure_bwd g : wfg g -> forall s, In s (gnodes g) ->
  exists r, closure g (gpred g) s = Ok r /\ NoDup r /\ forall y, In y r <-> (In y (gnodes g) /\ fwd g y s).
Proof.
  intros W s Hs. destruct (closure_spec g (gpred g) s (wf_nodes g W) (wf_pred_in g W) Hs) as [r [H1 [H2 [_ H3]]]].
  exists r. split; [exact H1|]. split; [exact H2|]. intro y. rewrite H3. apply bwd_fwd; assumption.
Qed.

(* ---------------- _out_component_ / _in_component_ ---------------- *)
Lemma comp_loop_spec (desc : node -> result (list node)) (R : node -> node -> Prop) :
  forall srcs acc,
  (forall s, In s srcs -> exists d, desc s = Ok d /\ forall y, In y d <-> R s y /\ y <> s) ->
  NoDup acc ->
  exists r, comp_loop desc srcs acc = Ok r /\ NoDup r /\
            forall y, In y r <-> In y acc \/ exists s, In s srcs /\ R s y /\ y <> s.
Proof.
  induction srcs as [|s t IH]; intros acc Hd Ha.
  - exists acc. cbn. split; [reflexivity|]. split; [exact Ha|]. intro y. split; [auto|].
    intros [H|[s [[] _]]]. exact H.
  - destruct (Hd s (or_introl eq_refl)) as [d [E Hdy]]. cbn. rewrite E. cbn.
    destruct (IH (union acc d)) as [r [Hr [Hn Hy]]].
    + intros s' Hs'. apply Hd. right. exact Hs'.
    + apply union_NoDup. exact Ha.
    + exists r. split; [exact Hr|]. split; [exact Hn|]. intro y. rewrite Hy, union_In, Hdy. split.
      * intros [[H|H]|[s' [H1 H2]]]; [left; exact H|right; exists s; split; [left; reflexivity|exact H]|].
        right. exists s'. split; [right; exact H1|exact H2].
      * intros [H|[s' [[H1|H1] H2]]]; [left; left; exact H|subst; left; right; exact H2|].
        right. exists s'. split; assumption.
Qed.

Lemma descendants_spec g : wfg g -> forall s, In s (gnodes g) ->
  exists d, descendants g s = Ok d /\ forall y, In y d <-> fwd g s y /\ y <> s.
Proof.
  intros W s Hs. unfold descendants, has_node. rewrite (proj2 (mem_In s _) Hs).
  destruct (closure_fwd g W s Hs) as [r [E [_ H]]]. rewrite E. cbn.
  eexists. split; [reflexivity|]. intro y. rewrite drop_In, H. tauto.
Qed.

Lemma ancestors_spec g : wfg g -> forall s, In s (gnodes g) ->
  exists d, ancestors g s = Ok d /\ forall y, In y d <-> (In y (gnodes g) /\ fwd g y s) /\ y <> s.
Proof.
  intros W s Hs. unfold ancestors, has_node. rewrite (proj2 (mem_In s _) Hs).
  destruct (closure_bwd g W s Hs) as [r [E [_ H]]]. rewrite E. cbn.
  eexists. split; [reflexivity|]. intro y. rewrite drop_In, H. tauto.
Qed.

(* the set of sources after the has_node dispatch *)
Definition sources (src : source) : list node := match src with One u => [u] | Many l => l end.

Lemma component_spec g (desc : node -> result (list node)) (R : node -> node -> Prop) :
  (forall s, R s s) ->
  (forall s, In s (gnodes g) -> exists d, desc s = Ok d /\ forall y, In y d <-> R s y /\ y <> s) ->
  forall src, incl (sources src) (gnodes g) ->
  exists r, component g desc src = Ok r /\ NoDup r /\
            forall y, In y r <-> exists s, In s (sources src) /\ R s y.
Proof.
  intros Rrefl Hd src Hin.
  assert (K : forall l, incl l (gnodes g) -> NoDup l ->
     exists r, comp_loop desc l l = Ok r /\ NoDup r /\ forall y, In y r <-> exists s, In s l /\ R s y).
  { intros l Hl Hn. destruct (comp_loop_spec desc R l l) as [r [Hr [Hnr Hy]]].
    - intros s Hs. apply Hd. apply Hl. exact Hs.
    - exact Hn.
    - exists r. split; [exact Hr|]. split; [exact Hnr|]. intro y. rewrite Hy. split.
      + intros [H|[s [H1 [H2 _]]]]; [exists y; split; [exact H|apply Rrefl]|exists s; split; assumption].
      + intros [s [H1 H2]]. destruct (N.eq_dec y s) as [E|E]; [subst; left; exact H1|].
        right. exists s. repeat split; assumption. }
  destruct src as [u|l]; cbn [component sources] in *.
  - unfold has_node. rewrite (proj2 (mem_In u _) (Hin u (or_introl eq_refl))).
    apply (K [u]); [exact Hin|]. constructor; [intros []|constructor].
  - destruct (K (dedup l)) as [r [Hr [Hn Hy]]].
    + intros x Hx. apply Hin. apply dedup_In. exact Hx.
    + apply dedup_NoDup.
    + exists r. split; [exact Hr|]. split; [exact Hn|]. intro y. rewrite Hy. split.
      * intros [s [H1 H2]]. exists s. split; [apply dedup_In; exact H1|exact H2].
      * intros [s [H1 H2]]. exists s. split; [apply dedup_In; exact H1|exact H2].
Qed.

Lemma out_comp_spec g : wfg g -> forall src, incl (sources src) (gnodes g) ->
  exists r, out_component g src = Ok r /\ NoDup r /\
            forall y, In y r <-> exists s, In s (sources src) /\ fwd g s y.
Proof.
  intros W src Hin. apply (component_spec g (descendants g) (fwd g)); [apply reach_refl| |exact Hin].
  intros s Hs. apply descendants_spec; assumption.
Qed.

Lemma in_comp_spec g : wfg g -> forall src, incl (sources src) (gnodes g) ->
  exists r, in_component g src = Ok r /\ NoDup r /\
            forall y, In y r <-> exists s, In s (sources src) /\ In y (gnodes g) /\ fwd g y s.
Proof.
  intros W src Hin.
  destruct (component_spec g (ancestors g) (fun s y => In s (gnodes g) -> In y (gnodes g) /\ fwd g y s)) with (src := src)
    as [r [Hr [Hn Hy]]].
  - intros s Hs. split; [exact Hs|apply reach_refl].
  - intros s Hs. destruct (ancestors_spec g W s Hs) as [d [E Hd]]. exists d. split; [exact E|].
    intro y. rewrite Hd. split; [intros [H1 H2]; split; [intros _; exact H1|exact H2]|].
    intros [H1 H2]. split; [exact (H1 Hs)|exact H2].
  - exact Hin.
  - exists r. split; [exact Hr|]. split; [exact Hn|]. intro y. rewrite Hy. split.
    + intros [s [H1 H2]]. exists s. split; [exact H1|]. apply H2. apply Hin. exact H1.
    + intros [s [H1 H2]]. exists s. split; [exact H1|]. intros _. exact H2.
Qed.

(* the answer does not depend on the order (or multiplicity) in which the
   sources are listed: two listings of one set give the same set *)
Lemma out_comp_order_indep g : wfg g -> forall l l', incl l (gnodes g) -> (forall x, In x l <-> In x l') ->
  exists r r', out_component g (Many l) = Ok r /\ out_component g (Many l') = Ok r' /\
               (forall y, In y r <-> In y r') /\ length r = length r'.
Proof.
  intros W l l' Hl Hll.
  destruct (out_comp_spec g W (Many l) Hl) as [r [E [N1 H]]].
  destruct (out_comp_spec g W (Many l')) as [r' [E' [N2 H']]].
  { intros x Hx. apply Hl. apply Hll. exact Hx. }
  exists r, r'. split; [exact E|]. split; [exact E'|].
  assert (S : forall y, In y r <-> In y r').
  { intro y. rewrite H, H'. cbn. split; intros [s [H1 H2]]; exists s; (split; [apply Hll; exact H1|exact H2]). }
  split; [exact S|]. apply same_members_length; assumption.
Qed.

Lemma in_comp_order_indep g : wfg g -> forall l l', incl l (gnodes g) -> (forall x, In x l <-> In x l') ->
  exists r r', in_component g (Many l) = Ok r /\ in_component g (Many l') = Ok r' /\
               (forall y, In y r <-> In y r') /\ length r = length r'.
Proof.
  intros W l l' Hl Hll.
  destruct (in_comp_spec g W (Many l) Hl) as [r [E [N1 H]]].
  destruct (in_comp_spec g W (Many l')) as [r' [E' [N2 H']]].
  { intros x Hx. apply Hl. apply Hll. exact Hx. }
  exists r, r'. split; [exact E|]. split; [exact E'|].
  assert (S : forall y, In y r <-> In y r').
  { intro y. rewrite H, H'. cbn. split; intros [s [H1 H2]]; exists s; (split; [apply Hll; exact H1|exact H2]). }
  split; [exact S|]. apply same_members_length; assumption.
Qed.

(* ---------------- strongly connected components ---------------- *)
Definition mutual (g : graph) (u v : node) : Prop := fwd g u v /\ fwd g v u.

Lemma mutual_sym g u v : mutual g u v -> mutual g v u.
Proof. unfold mutual; tauto. Qed.
Lemma mutual_trans g u v w : mutual g u v -> mutual g v w -> mutual g u w.
Proof. unfold mutual, fwd. intros [A B] [C D]. split; eapply reach_trans; eassumption. Qed.
Lemma mutual_refl g u : mutual g u u.
Proof. split; apply reach_refl. Qed.

Lemma scc_of_spec g : wfg g -> forall u, In u (gnodes g) ->
  exists c, scc_of g u = Ok c /\ NoDup c /\ incl c (gnodes g) /\ forall x, In x c <-> mutual g u x.
Proof.
  intros W u Hu. unfold scc_of.
  destruct (closure_fwd g W u Hu) as [f [Ef [_ Hf]]].
  destruct (closure_bwd g W u Hu) as [b [Eb [_ Hb]]].
  rewrite Ef, Eb. cbn. eexists. split; [reflexivity|]. split; [apply NoDup_filter; apply (wf_nodes g W)|].
  split; [intros x Hx; apply filter_In in Hx; exact (proj1 Hx)|].
  intro x. rewrite filter_In, andb_true_iff, !mem_In, Hf, Hb. unfold mutual. split.
  - intros [_ [H1 [_ H2]]]. split; assumption.
  - intros [H1 H2]. pose proof (fwd_in_nodes g W u x Hu H1) as Hx. tauto.
Qed.

(* canonical representation: mutually reachable nodes have the same class list *)
Lemma scc_of_canon g : wfg g -> forall u v, In u (gnodes g) -> In v (gnodes g) -> mutual g u v ->
  scc_of g u = scc_of g v.
Proof.
  intros W u v Hu Hv M. unfold scc_of.
  destruct (closure_fwd g W u Hu) as [f [Ef [_ Hf]]].
  destruct (closure_bwd g W u Hu) as [b [Eb [_ Hb]]].
  destruct (closure_fwd g W v Hv) as [f' [Ef' [_ Hf']]].
  destruct (closure_bwd g W v Hv) as [b' [Eb' [_ Hb']]].
  rewrite Ef, Eb, Ef', Eb'. cbn. f_equal. apply filter_ext_in. intros x Hx.
  destruct M as [Muv Mvu].
  assert (A : mem x f = mem x f').
  { apply eq_true_iff_eq. rewrite !mem_In, Hf, Hf'. unfold fwd.
    split; intro H; eapply reach_trans; eassumption. }
  assert (B : mem x b = mem x b').
  { apply eq_true_iff_eq. rewrite !mem_In, Hb, Hb'. unfold fwd.
    split; intros [H0 H]; (split; [exact H0|]); eapply reach_trans; eassumption. }
  rewrite A, B. reflexivity.
Qed.

Lemma classes_loop_spec (cls : node -> result (list node)) (nodes : list node)
      (E : node -> node -> Prop) :
  (forall u, In u nodes -> exists c, cls u = Ok c /\ forall x, In x c <-> E u x) ->
  (forall u, E u u) ->
  forall todo acc,
  incl todo nodes ->
  (forall c, In c acc -> exists u, In u nodes /\ cls u = Ok c) ->
  exists L, classes_loop cls todo acc = Ok L /\
    (forall c, In c L -> exists u, In u nodes /\ cls u = Ok c) /\
    (forall c, In c acc -> In c L) /\
    (forall u, In u todo -> exists c, In c L /\ In u c).
Proof.
  intros Hc Hrefl. induction todo as [|u t IH]; intros acc Ht Ha.
  - exists (rev acc). cbn. split; [reflexivity|]. split; [|split].
    + intros c Hcin. apply Ha. apply in_rev. exact Hcin.
    + intros c Hcin. apply in_rev in Hcin. exact Hcin.
    + intros u [].
  - cbn. destruct (existsb (mem u) acc) eqn:Ex.
    + destruct (IH acc) as [L [HL [H1 [H2 H3]]]].
      * intros x Hx. apply Ht. right. exact Hx.
      * exact Ha.
      * exists L. split; [exact HL|]. split; [exact H1|]. split; [exact H2|].
        intros v [Hv|Hv]; [|apply H3; exact Hv]. subst v.
        apply existsb_exists in Ex. destruct Ex as [c [Hcin Hm]]. exists c. split; [apply H2; exact Hcin|].
        apply mem_In. exact Hm.
    + destruct (Hc u (Ht u (or_introl eq_refl))) as [c [Ec Hcx]]. rewrite Ec. cbn.
      destruct (IH (c :: acc)) as [L [HL [H1 [H2 H3]]]].
      * intros x Hx. apply Ht. right. exact Hx.
      * intros c' [Hc'|Hc']; [subst c'; exists u; split; [apply Ht; left; reflexivity|exact Ec]|apply Ha; exact Hc'].
      * exists L. split; [exact HL|]. split; [exact H1|]. split; [intros c' Hc'; apply H2; right; exact Hc'|].
        intros v [Hv|Hv]; [|apply H3; exact Hv]. subst v. exists c. split; [apply H2; left; reflexivity|].
        apply Hcx. apply Hrefl.
Qed.

Lemma maxlen_ge L : forall c, In c L -> (length c <= maxlen L)%nat.
Proof.
  induction L as [|a L IH]; intros c [].
  - subst. change (maxlen (c :: L)) with (Nat.max (length c) (maxlen L)). lia.
  - change (maxlen (a :: L)) with (Nat.max (length a) (maxlen L)). specialize (IH c H). lia.
Qed.

Lemma maxlen_cons a L : maxlen (a :: L) = Nat.max (length a) (maxlen L).
Proof. reflexivity. Qed.

Lemma largest_spec L c : In c (largest L) <-> In c L /\ forall c', In c' L -> (length c' <= length c)%nat.
Proof.
  unfold largest. rewrite filter_In, Nat.eqb_eq. split.
  - intros [H1 H2]. split; [exact H1|]. intros c' Hc'. rewrite H2. apply maxlen_ge. exact Hc'.
  - intros [H1 H2]. split; [exact H1|]. apply Nat.le_antisymm; [apply maxlen_ge; exact H1|].
    clear H1. induction L as [|a L IH]; [cbn; lia|]. rewrite maxlen_cons.
    apply Nat.max_lub; [apply H2; left; reflexivity|apply IH]. intros c' Hc'. apply H2. right. exact Hc'.
Qed.

Lemma largest_nonempty L : L <> [] -> largest L <> [].
Proof.
  intro HL.
  assert (exists c, In c L /\ length c = maxlen L) as [c [Hc Hl]].
  { induction L as [|a L IH]; [contradiction|]. destruct L as [|b L'].
    - exists a. split; [left; reflexivity|]. cbn. lia.
    - destruct IH as [c [Hc Hl]]; [discriminate|].
      rewrite (maxlen_cons a).
      destruct (Nat.max_spec (length a) (maxlen (b :: L'))) as [[_ E]|[_ E]].
      + exists c. split; [right; exact Hc|]. rewrite E. exact Hl.
      + exists a. split; [left; reflexivity|]. rewrite E. reflexivity. }
  intro E. assert (In c (largest L)) as Hin.
  { unfold largest. apply filter_In. split; [exact Hc|]. apply Nat.eqb_eq. exact Hl. }
  rewrite E in Hin. exact Hin.
Qed.

(* what strongly_connected_components is specified to return *)
Definition is_scc (g : graph) (c : list node) : Prop :=
  NoDup c /\ incl c (gnodes g) /\ exists u, In u c /\ forall x, In x c <-> mutual g u x.

Lemma sccs_spec g : wfg g ->
  exists L, sccs g = Ok L /\
    (forall c, In c L -> is_scc g c) /\
    (forall u, In u (gnodes g) -> exists c, In c L /\ In u c) /\
    (L = [] <-> gnodes g = []).
Proof.
  intros W. unfold sccs.
  destruct (classes_loop_spec (scc_of g) (gnodes g) (mutual g)) with (todo := gnodes g) (acc := @nil (list node))
    as [L [HL [H1 [_ H3]]]].
  - intros u Hu. destruct (scc_of_spec g W u Hu) as [c [E [_ [_ H]]]]. exists c. auto.
  - apply mutual_refl.
  - apply incl_refl.
  - intros c [].
  - exists L. split; [exact HL|]. split; [|split; [exact H3|]].
    + intros c Hc. destruct (H1 c Hc) as [u [Hu E]].
      destruct (scc_of_spec g W u Hu) as [c' [E' [Hn [Hi Hx]]]]. rewrite E in E'. inversion E'; subst c'.
      split; [exact Hn|]. split; [exact Hi|]. exists u. split; [apply Hx; apply mutual_refl|exact Hx].
    + split.
      * intro E. subst L. destruct (gnodes g) as [|u t]; [reflexivity|].
        destruct (H3 u (or_introl eq_refl)) as [c [[] _]].
      * intro E. destruct L as [|c L']; [reflexivity|].
        destruct (H1 c (or_introl eq_refl)) as [u [Hu _]]. rewrite E in Hu. destruct Hu.
Qed.

Lemma is_scc_length g : wfg g -> forall c c', is_scc g c -> is_scc g c' ->
  (exists x, In x c /\ In x c') -> length c = length c'.
Proof.
  intros W c c' [N1 [_ [u [Hu H]]]] [N2 [_ [u' [Hu' H']]]] [x [Hx Hx']].
  apply same_members_length; [exact N1|exact N2|]. intro y. rewrite H, H'.
  apply H in Hx. apply H' in Hx'.
  split; intro M.
  - eapply mutual_trans; [exact Hx'|]. eapply mutual_trans; [apply mutual_sym; exact Hx|exact M].
  - eapply mutual_trans; [exact Hx|]. eapply mutual_trans; [apply mutual_sym; exact Hx'|exact M].
Qed.

(* ---------------- the estimator ---------------- *)
Definition card_of (P : node -> Prop) (k : nat) : Prop :=
  exists l, NoDup l /\ (forall x, In x l <-> P x) /\ length l = k.

Lemma frac_01 k n : (k <= n)%nat -> (0 < n)%nat -> 0 <= frac k n /\ frac k n <= 1.
Proof.
  intros Hk Hn. unfold frac.
  assert (0 < inject_Z (Z.of_nat n)) as Hp.
  { replace 0 with (inject_Z 0) by reflexivity. rewrite <- Zlt_Qlt. lia. }
  split.
  - apply Qle_shift_div_l; [exact Hp|]. rewrite Qmult_0_l.
    replace 0 with (inject_Z 0) by reflexivity. rewrite <- Zle_Qle. lia.
  - apply Qle_shift_div_r; [exact Hp|]. rewrite Qmult_1_l. rewrite <- Zle_Qle. lia.
Qed.

Lemma est_at_spec g : wfg g -> forall u, In u (gnodes g) ->
  exists a b, est_at g u = Ok (frac a (length (gnodes g)), frac b (length (gnodes g))) /\
    card_of (fun x => In x (gnodes g) /\ fwd g x u) a /\
    card_of (fun x => fwd g u x) b /\
    (a <= length (gnodes g))%nat /\ (b <= length (gnodes g))%nat.
Proof.
  intros W u Hu. unfold est_at.
  assert (Hs : incl (sources (One u)) (gnodes g)) by (intros x [Hx|[]]; subst; exact Hu).
  destruct (in_comp_spec g W (One u) Hs) as [ri [Ei [Ni Hi]]].
  destruct (out_comp_spec g W (One u) Hs) as [ro [Eo [No Ho]]].
  rewrite Ei, Eo. cbn. exists (length ri), (length ro). split; [reflexivity|].
  assert (Hi' : forall x, In x ri <-> In x (gnodes g) /\ fwd g x u).
  { intro x. rewrite Hi. cbn. split; [intros [s [[E|[]] H]]; subst; exact H|intro H; exists u; split; [left; reflexivity|exact H]]. }
  assert (Ho' : forall x, In x ro <-> fwd g u x).
  { intro x. rewrite Ho. cbn. split; [intros [s [[E|[]] H]]; subst; exact H|intro H; exists u; split; [left; reflexivity|exact H]]. }
  split; [exists ri; auto|]. split; [exists ro; auto|].
  split; apply NoDup_incl_length; try assumption.
  - intros x Hx. apply Hi' in Hx. exact (proj1 Hx).
  - intros x Hx. apply Ho' in Hx. eapply fwd_in_nodes; eassumption.
Qed.

(* independence of the element chosen inside the component *)
Lemma scc_indep g : wfg g -> forall u v, In u (gnodes g) -> In v (gnodes g) -> mutual g u v ->
  est_at g u = est_at g v.
Proof.
  intros W u v Hu Hv [Muv Mvu].
  destruct (est_at_spec g W u Hu) as [a [b [E [[la [Na [Ha La]]] [[lb [Nb [Hb Lb]]] _]]]]].
  destruct (est_at_spec g W v Hv) as [a' [b' [E' [[la' [Na' [Ha' La']]] [[lb' [Nb' [Hb' Lb']]] _]]]]].
  rewrite E, E'.
  assert (a = a') as ->.
  { rewrite <- La, <- La'. apply same_members_length; try assumption. intro x. rewrite Ha, Ha'. unfold fwd.
    split; intros [H0 H]; (split; [exact H0|]); eapply reach_trans; eassumption. }
  assert (b = b') as ->.
  { rewrite <- Lb, <- Lb'. apply same_members_length; try assumption. intro x. rewrite Hb, Hb'. unfold fwd.
    split; intro H; eapply reach_trans; eassumption. }
  reflexivity.
Qed.

(* PE and AR expressed through the component rather than through the element *)
Lemma to_component g c u : (forall x, In x c <-> mutual g u x) ->
  forall x, (exists y, In y c /\ fwd g x y) <-> fwd g x u.
Proof.
  intros H x. split.
  - intros [y [Hy Hxy]]. apply H in Hy. destruct Hy as [_ Hyu]. eapply reach_trans; eassumption.
  - intro Hx. exists u. split; [apply H; apply mutual_refl|exact Hx].
Qed.
Lemma from_component g c u : (forall x, In x c <-> mutual g u x) ->
  forall x, (exists y, In y c /\ fwd g y x) <-> fwd g u x.
Proof.
  intros H x. split.
  - intros [y [Hy Hyx]]. apply H in Hy. destruct Hy as [Huy _]. eapply reach_trans; eassumption.
  - intro Hx. exists u. split; [apply H; apply mutual_refl|exact Hx].
Qed.

Lemma card_of_ext (P Q : node -> Prop) k : (forall x, P x <-> Q x) -> card_of P k -> card_of Q k.
Proof.
  intros H [l [N [Hl L]]]. exists l. split; [exact N|]. split; [|exact L]. intro x. rewrite Hl. apply H.
Qed.

Lemma estimator_formula g : wfg g -> gnodes g <> [] ->
  exists L, sccs g = Ok L /\ largest L <> [] /\
  forall k j c u, nth_error (largest L) k = Some c -> nth_error c j = Some u ->
    (* c is a strongly connected component and none is larger *)
    is_scc g c /\ (forall c', is_scc g c' -> c' <> [] -> (length c' <= length c)%nat) /\
    exists a b,
      estimate_from_dir_perc g k j = Ok (frac a (length (gnodes g)), frac b (length (gnodes g))) /\
      card_of (fun x => In x (gnodes g) /\ exists y, In y c /\ fwd g x y) a /\
      card_of (fun x => exists y, In y c /\ fwd g y x) b /\
      (0 <= frac a (length (gnodes g)) /\ frac a (length (gnodes g)) <= 1) /\
      (0 <= frac b (length (gnodes g)) /\ frac b (length (gnodes g)) <= 1).
Proof.
  intros W Hne. destruct (sccs_spec g W) as [L [EL [H1 [H2 H3]]]].
  exists L. split; [exact EL|].
  assert (HL : L <> []) by (intro E; apply Hne; apply H3; exact E).
  split; [apply largest_nonempty; exact HL|].
  intros k j c u Hk Hj.
  pose proof (nth_error_In _ _ Hk) as HcIn. apply largest_spec in HcIn. destruct HcIn as [HcL Hmax].
  pose proof (H1 c HcL) as Hscc. pose proof (nth_error_In _ _ Hj) as Huc.
  split; [exact Hscc|]. split.
  - intros c' Hc' Hne'. destruct c' as [|x t]; [contradiction|].
    pose proof Hc' as [N' [I' S']]. destruct (H2 x (I' x (or_introl eq_refl))) as [c'' [Hc''L Hx]].
    rewrite (is_scc_length g W (x :: t) c'' Hc' (H1 c'' Hc''L)); [apply Hmax; exact Hc''L|].
    exists x. split; [left; reflexivity|exact Hx].
  - destruct Hscc as [Nc [Ic [w [Hw Hcw]]]].
    assert (Hu : In u (gnodes g)) by (apply Ic; exact Huc).
    assert (Hcu : forall x, In x c <-> mutual g u x).
    { intro x. rewrite Hcw. apply Hcw in Huc. split; intro M.
      - eapply mutual_trans; [apply mutual_sym; exact Huc|exact M].
      - eapply mutual_trans; [exact Huc|exact M]. }
    destruct (est_at_spec g W u Hu) as [a [b [E [Ca [Cb [La Lb]]]]]].
    assert (Hpos : (0 < length (gnodes g))%nat) by (destruct (gnodes g); [contradiction|cbn; lia]).
    exists a, b. split.
    + unfold estimate_from_dir_perc. rewrite EL. cbn [rbind]. destruct L as [|c0 L0]; [contradiction|].
      rewrite Hk, Hj. exact E.
    + split.
      * eapply card_of_ext; [|exact Ca]. intro x. cbv beta. split; intros [A B]; (split; [exact A|]);
          apply (to_component g c u Hcu x); exact B.
      * split; [eapply card_of_ext; [|exact Cb]; intro x; symmetry; apply (from_component g c u Hcu x)|].
        split; apply frac_01; assumption.
Qed.

(* a graph without nodes: max() of an empty sequence *)
Lemma estimator_empty g : gnodes g = [] -> forall k j, estimate_from_dir_perc g k j = Err ValueErr.
Proof.
  intros E k j. unfold estimate_from_dir_perc, sccs. rewrite E. reflexivity.
Qed.

(* ---------------- graphs built from edge lists ---------------- *)
Lemma graph_of_adj nodes es u v :
  In v (gadj (graph_of nodes es false) u) <-> In (u, v) es \/ In (v, u) es.
Proof.
  cbn. rewrite in_flat_map. split.
  - intros [[a b] [He Hv]]. cbn in Hv.
    destruct (N.eqb a u) eqn:E1.
    + apply N.eqb_eq in E1. destruct Hv as [Hv|[]]. subst. left. exact He.
    + destruct (N.eqb b u) eqn:E2; cbn in Hv; [|destruct Hv].
      apply N.eqb_eq in E2. destruct Hv as [Hv|[]]. subst. right. exact He.
  - intros [H|H].
    + exists (u, v). split; [exact H|]. cbn. rewrite N.eqb_refl. left. reflexivity.
    + exists (v, u). split; [exact H|]. cbn. destruct (N.eqb v u) eqn:E1.
      * apply N.eqb_eq in E1. subst. left. reflexivity.
      * rewrite N.eqb_refl. cbn. left. reflexivity.
Qed.

Lemma graph_of_adj_dir nodes es u v :
  In v (gadj (graph_of nodes es true) u) <-> In (u, v) es.
Proof.
  cbn. rewrite in_flat_map. split.
  - intros [[a b] [He Hv]]. cbn in Hv. destruct (N.eqb a u) eqn:E1; [|destruct Hv].
    apply N.eqb_eq in E1. destruct Hv as [Hv|[]]. subst. exact He.
  - intro H. exists (u, v). split; [exact H|]. cbn. rewrite N.eqb_refl. left. reflexivity.
Qed.

Lemma graph_of_pred_dir nodes es u v :
  In v (gpred (graph_of nodes es true) u) <-> In (v, u) es.
Proof.
  cbn. rewrite in_flat_map. split.
  - intros [[a b] [He Hv]]. cbn in Hv. destruct (N.eqb b u) eqn:E1; [|destruct Hv].
    apply N.eqb_eq in E1. destruct Hv as [Hv|[]]. subst. exact He.
  - intro H. exists (v, u). split; [exact H|]. cbn. rewrite N.eqb_refl. left. reflexivity.
Qed.

Lemma edges_from_In g : forall todo seen u v,
  In (u, v) (edges_from g todo seen) -> In u todo /\ In v (gadj g u).
Proof.
  induction todo as [|a t IH]; intros seen u v H; cbn in H; [destruct H|].
  apply in_app_or in H. destruct H as [H|H].
  - apply in_map_iff in H. destruct H as [x [E Hx]]. inversion E; subst.
    apply filter_In in Hx. split; [left; reflexivity|exact (proj1 Hx)].
  - apply IH in H. split; [right; exact (proj1 H)|exact (proj2 H)].
Qed.

(* ---------------- percolate_network / estimate_SIR_prob_size ---------------- *)
(* the kept edges are exactly those whose draw was below p, in order *)
Definition kept_of (p : Q) (es : list (node * node)) (us : list Q) : list (node * node) :=
  map fst (filter (fun eu => Qltb (snd eu) p) (combine es us)).

Lemma perc_edges_spec p : forall es us kept r,
  perc_edges p es us kept = Ok r -> r = kept ++ kept_of p es us /\ (length es <= length us)%nat.
Proof.
  induction es as [|e t IH]; intros us kept r H; cbn in H.
  - inversion H; subst. unfold kept_of. cbn. rewrite app_nil_r. split; [reflexivity|lia].
  - destruct us as [|u us']; [discriminate|]. apply IH in H. destruct H as [H1 H2].
    split; [|cbn; lia]. subst r. unfold kept_of. cbn. destruct (Qltb u p); cbn.
    + rewrite <- app_assoc. reflexivity.
    + reflexivity.
Qed.

Lemma perc_edges_total p : forall es us kept, (length es <= length us)%nat ->
  exists r, perc_edges p es us kept = Ok r.
Proof.
  induction es as [|e t IH]; intros us kept H; cbn.
  - eexists; reflexivity.
  - destruct us as [|u us']; [cbn in H; lia|]. apply IH. cbn in H. lia.
Qed.

Lemma kept_of_incl p es us : incl (kept_of p es us) es.
Proof.
  intros e H. unfold kept_of in H. apply in_map_iff in H. destruct H as [[e' u] [E H]]. cbn in E. subst e'.
  apply filter_In in H. destruct H as [H _]. apply in_combine_l in H. exact H.
Qed.

(* reachable-set sizes of a graph whose adjacency stays inside its node list *)
Lemma cc_of_spec h : NoDup (gnodes h) -> (forall x, In x (gnodes h) -> incl (gadj h x) (gnodes h)) ->
  forall u, In u (gnodes h) ->
  exists c, cc_of h u = Ok c /\ NoDup c /\ incl c (gnodes h) /\ forall x, In x c <-> reach (gadj h) u x.
Proof.
  intros Hn Hc u Hu. unfold cc_of.
  destruct (closure_spec h (gadj h) u Hn Hc Hu) as [r [E [_ [Hi Hr]]]]. rewrite E. cbn.
  eexists. split; [reflexivity|]. split; [apply NoDup_filter; exact Hn|].
  split; [intros x Hx; apply filter_In in Hx; exact (proj1 Hx)|].
  intro x. rewrite filter_In, mem_In, <- Hr. split; [tauto|]. intro H. split; [apply Hi; exact H|exact H].
Qed.

Lemma largest_cc_spec h : NoDup (gnodes h) -> (forall x, In x (gnodes h) -> incl (gadj h x) (gnodes h)) ->
  gnodes h <> [] ->
  exists m, largest_cc_size h = Ok m /\
    (exists v, In v (gnodes h) /\ card_of (reach (gadj h) v) m) /\
    (forall v k, In v (gnodes h) -> card_of (reach (gadj h) v) k -> (k <= m)%nat) /\
    (m <= length (gnodes h))%nat.
Proof.
  intros Hn Hc Hne. unfold largest_cc_size, ccs.
  destruct (classes_loop_spec (cc_of h) (gnodes h) (reach (gadj h))) with (todo := gnodes h) (acc := @nil (list node))
    as [L [HL [H1 [_ H3]]]].
  - intros u Hu. destruct (cc_of_spec h Hn Hc u Hu) as [c [E [_ [_ H]]]]. exists c. auto.
  - apply reach_refl.
  - apply incl_refl.
  - intros c [].
  - rewrite HL. cbn [rbind].
    assert (HLne : L <> []).
    { intro E. subst L. destruct (gnodes h) as [|u t]; [contradiction|]. destruct (H3 u (or_introl eq_refl)) as [c [[] _]]. }
    destruct L as [|c0 L0]; [contradiction|]. exists (maxlen (c0 :: L0)). split; [reflexivity|].
    assert (Hlg := largest_nonempty (c0 :: L0) HLne).
    destruct (largest (c0 :: L0)) as [|c lg] eqn:El; [contradiction|].
    assert (Hc' : In c (largest (c0 :: L0))) by (rewrite El; left; reflexivity).
    pose proof Hc' as Hc''. unfold largest in Hc''. apply filter_In in Hc''. destruct Hc'' as [HcL Hlen]. apply Nat.eqb_eq in Hlen.
    destruct (H1 c HcL) as [v [Hv Ev]]. destruct (cc_of_spec h Hn Hc v Hv) as [c' [E' [N' [I' S']]]].
    rewrite Ev in E'. inversion E'; subst c'.
    split; [exists v; split; [exact Hv|]; exists c; auto|]. split.
    + intros w k Hw [l [Nl [Sl Ll]]]. destruct (H3 w Hw) as [cw [HcwL Hwin]].
      destruct (H1 cw HcwL) as [z [Hz Ez]]. destruct (cc_of_spec h Hn Hc z Hz) as [cz [E2 [N2 [I2 S2]]]].
      rewrite Ez in E2. inversion E2; subst cz.
      rewrite <- Ll. apply Nat.le_trans with (length cw); [|apply maxlen_ge; exact HcwL].
      apply NoDup_incl_length; [exact Nl|]. intros x Hx. apply S2. apply Sl in Hx. apply S2 in Hwin.
      eapply reach_trans; eassumption.
    + rewrite <- Hlen. apply NoDup_incl_length; assumption.
Qed.

Lemma estimate_SIR_prob_size_spec g p us : wfg g -> gnodes g <> [] ->
  forall h, percolate_network g p us = Ok h ->
  gnodes h = gnodes g /\
  (forall u v, In v (gadj h u) <-> In (u, v) (kept_of p (edges g) us) \/ In (v, u) (kept_of p (edges g) us)) /\
  exists m, estimate_SIR_prob_size g p us = Ok (frac m (length (gnodes g)), frac m (length (gnodes g))) /\
    (exists v, In v (gnodes h) /\ card_of (reach (gadj h) v) m) /\
    (forall v k, In v (gnodes h) -> card_of (reach (gadj h) v) k -> (k <= m)%nat) /\
    0 <= frac m (length (gnodes g)) /\ frac m (length (gnodes g)) <= 1.
Proof.
  intros W Hne h Hh. unfold estimate_SIR_prob_size. rewrite Hh. cbn [rbind].
  unfold percolate_network in Hh. destruct (perc_edges p (edges g) us []) as [kept|e] eqn:Ek; [|discriminate].
  cbn in Hh. inversion Hh; subst h. clear Hh.
  apply perc_edges_spec in Ek. destruct Ek as [Ek _]. cbn in Ek. subst kept.
  split; [reflexivity|]. split; [intros u v; apply graph_of_adj|].
  destruct (largest_cc_spec (graph_of (gnodes g) (kept_of p (edges g) us) false)) as [m [Em [Hex [Hmax Hle]]]].
  - exact (wf_nodes g W).
  - intros x Hx y Hy. apply graph_of_adj in Hy. cbn [gnodes graph_of].
    destruct Hy as [Hy|Hy]; apply kept_of_incl in Hy; apply edges_from_In in Hy; destruct Hy as [Ha Hb].
    + apply (wf_adj_in g W x Ha). exact Hb.
    + exact Ha.
  - exact Hne.
  - exists m. unfold size_answer. rewrite Em. cbn [rbind]. split; [reflexivity|]. split; [exact Hex|]. split; [exact Hmax|].
    apply frac_01; [exact Hle|]. cbn [gnodes graph_of]. destruct (gnodes g); [contradiction|cbn; lia].
Qed.

(* bond percolation keeps the relation symmetric: reach is "same component" *)
Lemma graph_of_undirected_sym nodes es u v :
  In v (gadj (graph_of nodes es false) u) -> In u (gadj (graph_of nodes es false) v).
Proof. rewrite !graph_of_adj. tauto. Qed.

(* ---------------- the directed-percolation builders ---------------- *)
Lemma eqe_spec a b : eqe a b = true <-> a = b.
Proof.
  destruct a as [a1 a2], b as [b1 b2]. unfold eqe. cbn. rewrite andb_true_iff, !N.eqb_eq.
  split; [intros [-> ->]; reflexivity|intro E; inversion E; auto].
Qed.

Lemma addn_In x l y : In y (addn x l) <-> y = x \/ In y l.
Proof.
  unfold addn. destruct (mem x l) eqn:E.
  - apply mem_In in E. split; [auto|]. intros [->|H]; assumption.
  - rewrite in_app_iff. cbn. split; [intros [H|[H|[]]]; auto|intros [H|H]; auto].
Qed.

Lemma addn_NoDup x l : NoDup l -> NoDup (addn x l).
Proof.
  intro H. unfold addn. destruct (mem x l) eqn:E; [exact H|]. apply mem_nIn in E.
  apply nodup_app; [exact H|constructor; [intros []|constructor]|].
  intros y Hy [Hx|[]]. subst. exact (E Hy).
Qed.

Lemma adde_In e l e' : In e' (adde e l) <-> e' = e \/ In e' l.
Proof.
  unfold adde. destruct (existsb (eqe e) l) eqn:E.
  - apply existsb_exists in E. destruct E as [x [Hx He]]. apply eqe_spec in He. subst x.
    split; [auto|]. intros [->|H]; assumption.
  - rewrite in_app_iff. cbn. split; [intros [H|[H|[]]]; auto|intros [H|H]; auto].
Qed.

Lemma pe_edges w h u v d e : In e (pg_edges (p_add_edge w h u v d)) <-> e = (u, v) \/ In e (pg_edges h).
Proof. cbn. apply adde_In. Qed.
Lemma pe_nodes w h u v d x : In x (pg_nodes (p_add_edge w h u v d)) <-> x = u \/ x = v \/ In x (pg_nodes h).
Proof. cbn. rewrite !addn_In. tauto. Qed.
Lemma pe_nodup w h u v d : NoDup (pg_nodes h) -> NoDup (pg_nodes (p_add_edge w h u v d)).
Proof. intro H. cbn. apply addn_NoDup, addn_NoDup, H. Qed.
Lemma pn_nodes w h u d x : In x (pg_nodes (p_add_node w h u d)) <-> x = u \/ In x (pg_nodes h).
Proof. cbn. apply addn_In. Qed.
Lemma pn_nodup w h u d : NoDup (pg_nodes h) -> NoDup (pg_nodes (p_add_node w h u d)).
Proof. intro H. cbn. apply addn_NoDup, H. Qed.

(* what it means for a built graph h' to extend h by the arcs u->v, v in nbrs, on which [fire] holds *)
Definition extends (fire : node -> bool) (u : node) (nbrs : list node) (h h' : pgraph) : Prop :=
  (forall e, In e (pg_edges h') <-> In e (pg_edges h) \/ exists v, In v nbrs /\ fire v = true /\ e = (u, v)) /\
  (forall x, In x (pg_nodes h') <-> In x (pg_nodes h) \/ exists v, In v nbrs /\ fire v = true /\ (x = u \/ x = v)) /\
  (NoDup (pg_nodes h) -> NoDup (pg_nodes h')).

Lemma extends_nil fire u h : extends fire u [] h h.
Proof.
  split; [|split]; try (intro; split; [auto|intros [H|[v [[] _]]]; exact H]). auto.
Qed.

Lemma extends_cons (fire : node -> bool) u v t h h1 h' w d :
  h1 = (if fire v then p_add_edge w h u v d else h) -> extends fire u t h1 h' -> extends fire u (v :: t) h h'.
Proof.
  intros E [He [Hn Hd]]. subst h1. split; [|split].
  - intro e. rewrite He. destruct (fire v) eqn:F.
    + rewrite pe_edges. split.
      * intros [[H|H]|[v' [H1 H2]]]; [right; exists v; split; [left; reflexivity|split; assumption]|left; exact H|].
        right. exists v'. split; [right; exact H1|exact H2].
      * intros [H|[v' [[H1|H1] [H2 H3]]]]; [left; right; exact H|subst v'; left; left; exact H3|].
        right. exists v'. split; [exact H1|split; assumption].
    + split.
      * intros [H|[v' [H1 H2]]]; [left; exact H|right; exists v'; split; [right; exact H1|exact H2]].
      * intros [H|[v' [[H1|H1] [H2 H3]]]]; [left; exact H|subst v'; rewrite F in H2; discriminate|].
        right. exists v'. split; [exact H1|split; assumption].
  - intro x. rewrite Hn. destruct (fire v) eqn:F.
    + rewrite pe_nodes. split.
      * intros [[H|[H|H]]|[v' [H1 H2]]].
        -- right. exists v. split; [left; reflexivity|split; [exact F|left; exact H]].
        -- right. exists v. split; [left; reflexivity|split; [exact F|right; exact H]].
        -- left. exact H.
        -- right. exists v'. split; [right; exact H1|exact H2].
      * intros [H|[v' [[H1|H1] [H2 H3]]]]; [left; right; right; exact H| |].
        -- subst v'. left. destruct H3 as [H3|H3]; [left; exact H3|right; left; exact H3].
        -- right. exists v'. split; [exact H1|split; assumption].
    + split.
      * intros [H|[v' [H1 H2]]]; [left; exact H|right; exists v'; split; [right; exact H1|exact H2]].
      * intros [H|[v' [[H1|H1] [H2 H3]]]]; [left; exact H|subst v'; rewrite F in H2; discriminate|].
        right. exists v'. split; [exact H1|split; assumption].
  - intro H. apply Hd. destruct (fire v); [apply pe_nodup; exact H|exact H].
Qed.

(* the whole construction: arcs exactly where the rule fired, nodes = those visited
   so far and the targets of fired arcs *)
Definition built (g : graph) (fire : node -> node -> bool) (todo : list node) (h h' : pgraph) : Prop :=
  (forall a b, In (a, b) (pg_edges h') <-> In (a, b) (pg_edges h) \/ (In a todo /\ In b (gadj g a) /\ fire a b = true)) /\
  (forall x, In x (pg_nodes h') <-> In x (pg_nodes h) \/ In x todo \/ exists a, In a todo /\ In x (gadj g a) /\ fire a x = true) /\
  (NoDup (pg_nodes h) -> NoDup (pg_nodes h')).

Lemma built_nil g fire h : built g fire [] h h.
Proof.
  split; [|split]; auto.
  - intros a b. split; [auto|]. intros [H|[[] _]]. exact H.
  - intro x. split; [auto|]. intros [H|[[]|[a [[] _]]]]. exact H.
Qed.

Lemma built_cons g (fire : node -> node -> bool) u t h h0 h1 h' w d :
  h0 = p_add_node w h u d -> extends (fire u) u (gadj g u) h0 h1 -> built g fire t h1 h' ->
  built g fire (u :: t) h h'.
Proof.
  intros E0 [Xe [Xn Xd]] [Be [Bn Bd]]. subst h0. split; [|split].
  - intros a b. rewrite Be, Xe. cbn [pg_edges p_add_node]. split.
    + intros [[H|[v [H1 [H2 H3]]]]|[H1 H2]]; [left; exact H| |right; split; [right; exact H1|exact H2]].
      inversion H3; subst. right. split; [left; reflexivity|split; assumption].
    + intros [H|[[H1|H1] [H2 H3]]]; [left; left; exact H| |right; split; [exact H1|split; assumption]].
      subst a. left. right. exists b. split; [exact H2|split; [exact H3|reflexivity]].
  - intro x. rewrite Bn, Xn, pn_nodes. split.
    + intros [[[H|H]|[v [H1 [H2 [H3|H3]]]]]|[H|[a [H1 H2]]]].
      * subst. right. left. left. reflexivity.
      * left. exact H.
      * subst. right. left. left. reflexivity.
      * subst. right. right. exists u. split; [left; reflexivity|split; assumption].
      * right. left. right. exact H.
      * right. right. exists a. split; [right; exact H1|exact H2].
    + intros [H|[[H|H]|[a [[H1|H1] [H2 H3]]]]].
      * left. left. right. exact H.
      * subst. left. left. left. reflexivity.
      * right. left. exact H.
      * subst a. left. right. exists x. split; [exact H2|split; [exact H3|right; reflexivity]].
      * right. right. exists a. split; [exact H1|split; assumption].
  - intro H. apply Bd, Xd, pn_nodup, H.
Qed.

Lemma built_final g fire h : wfg g -> built g fire (gnodes g) pg_empty h ->
  NoDup (pg_nodes h) /\ (forall x, In x (pg_nodes h) <-> In x (gnodes g)) /\
  length (pg_nodes h) = length (gnodes g) /\
  (forall u v, In (u, v) (pg_edges h) <-> In u (gnodes g) /\ In v (gadj g u) /\ fire u v = true).
Proof.
  intros W [Be [Bn Bd]].
  assert (N : NoDup (pg_nodes h)) by (apply Bd; constructor).
  assert (S : forall x, In x (pg_nodes h) <-> In x (gnodes g)).
  { intro x. rewrite Bn. cbn. split; [|auto].
    intros [[]|[H|[a [H1 [H2 _]]]]]; [exact H|]. apply (wf_adj_in g W a H1). exact H2. }
  split; [exact N|]. split; [exact S|]. split; [apply same_members_length; [exact N|apply (wf_nodes g W)|exact S]|].
  intros u v. rewrite Be. cbn. tauto.
Qed.

Section RulesP.
Variable dur : node -> xtime.
Variable delay : node -> node -> xtime.
Definition fired (u v : node) : bool := xle (delay u v) (dur u).

Lemma timing_inner_extends w u : forall nbrs h,
  extends (fired u) u nbrs h (timing_inner delay w u (dur u) nbrs h).
Proof.
  induction nbrs as [|v t IH]; intro h; [apply extends_nil|].
  cbn. eapply extends_cons; [reflexivity|]. apply IH.
Qed.

Lemma timing_outer_built g w : forall todo h,
  built g fired todo h
    (fold_left (fun h u => timing_inner delay w u (dur u) (gadj g u) (p_add_node w h u (dur u))) todo h).
Proof.
  induction todo as [|u t IH]; intro h; [apply built_nil|].
  cbn. eapply built_cons; [reflexivity|apply timing_inner_extends|apply IH].
Qed.

(* nonMarkov_directed_percolate_network_with_timing: same nodes as G; u->v iff v is
   a neighbour of u and the rule fired (delay <= duration) *)
Lemma nm_perc_timing_spec g w : wfg g ->
  let h := nm_perc_timing dur delay g w in
  NoDup (pg_nodes h) /\ (forall x, In x (pg_nodes h) <-> In x (gnodes g)) /\
  length (pg_nodes h) = length (gnodes g) /\
  (forall u v, In (u, v) (pg_edges h) <-> In u (gnodes g) /\ In v (gadj g u) /\ xle (delay u v) (dur u) = true).
Proof.
  intros W h. apply (built_final g fired h W). apply timing_outer_built.
Qed.

Lemma timing_inner_cons w u du v t h :
  timing_inner delay w u du (v :: t) h =
  timing_inner delay w u du t (if xle (delay u v) du then p_add_edge w h u v (delay u v) else h).
Proof. reflexivity. Qed.

(* attributes: what is recorded is what the rules returned *)
Lemma timing_inner_attr w u : forall nbrs h,
  pg_dur (timing_inner delay w u (dur u) nbrs h) = pg_dur h /\
  (forall a b d, In (a, b, d) (pg_delay (timing_inner delay w u (dur u) nbrs h)) ->
                 In (a, b, d) (pg_delay h) \/ (w = true /\ a = u /\ In b nbrs /\ d = delay u b /\ fired u b = true)).
Proof.
  induction nbrs as [|v t IH]; intro h; [cbn; split; [reflexivity|auto]|].
  rewrite timing_inner_cons.
  destruct (IH (if xle (delay u v) (dur u) then p_add_edge w h u v (delay u v) else h)) as [I1 I2].
  split.
  - rewrite I1. destruct (xle (delay u v) (dur u)); reflexivity.
  - intros a b d H. apply I2 in H. destruct H as [H|[H1 [H2 [H3 [H4 H5]]]]]; [|right; split; [exact H1|split; [exact H2|split; [right; exact H3|split; assumption]]]].
    destruct (xle (delay u v) (dur u)) eqn:F; [|left; exact H].
    cbn in H. destruct w; [|left; exact H].
    apply in_app_or in H. destruct H as [H|[H|[]]].
    + apply filter_In in H. left. exact (proj1 H).
    + inversion H; subst. right. repeat split; auto. left. reflexivity.
Qed.

Lemma nm_perc_timing_attr g w :
  let h := nm_perc_timing dur delay g w in
  (forall u d, In (u, d) (pg_dur h) -> w = true /\ In u (gnodes g) /\ d = dur u) /\
  (forall u v d, In (u, v, d) (pg_delay h) -> w = true /\ In u (gnodes g) /\ In v (gadj g u) /\ d = delay u v /\ xle d (dur u) = true).
Proof.
  cbn zeta. unfold nm_perc_timing.
  assert (K : forall todo h,
     let h' := fold_left (fun h u => timing_inner delay w u (dur u) (gadj g u) (p_add_node w h u (dur u))) todo h in
     (forall u d, In (u, d) (pg_dur h') -> In (u, d) (pg_dur h) \/ (w = true /\ In u todo /\ d = dur u)) /\
     (forall u v d, In (u, v, d) (pg_delay h') -> In (u, v, d) (pg_delay h) \/
                    (w = true /\ In u todo /\ In v (gadj g u) /\ d = delay u v /\ xle d (dur u) = true))).
  { induction todo as [|a t IH]; intro h; cbn zeta; cbn [fold_left]; [split; auto|].
    destruct (IH (timing_inner delay w a (dur a) (gadj g a) (p_add_node w h a (dur a)))) as [I1 I2].
    destruct (timing_inner_attr w a (gadj g a) (p_add_node w h a (dur a))) as [A1 A2].
    split.
    - intros u d H. apply I1 in H. destruct H as [H|[H1 [H2 H3]]]; [|right; split; [exact H1|split; [right; exact H2|exact H3]]].
      rewrite A1 in H. cbn in H. destruct w; [|left; exact H].
      apply in_app_or in H. destruct H as [H|[H|[]]].
      + apply filter_In in H. left. exact (proj1 H).
      + inversion H; subst. right. split; [reflexivity|split; [left; reflexivity|reflexivity]].
    - intros u v d H. apply I2 in H. destruct H as [H|[H1 [H2 H3]]]; [|right; split; [exact H1|split; [right; exact H2|exact H3]]].
      apply A2 in H. destruct H as [H|[H1 [H2 [H3 [H4 H5]]]]]; [left; exact H|].
      subst. right. split; [reflexivity|split; [left; reflexivity|split; [exact H3|split; [reflexivity|exact H5]]]]. }
  destruct (K (gnodes g) pg_empty) as [K1 K2]. split.
  - intros u d H. apply K1 in H. destruct H as [[]|H]. exact H.
  - intros u v d H. apply K2 in H. destruct H as [[]|H]. exact H.
Qed.

(* every arc of G is put to the rule exactly once, every node once *)
Lemma nm_perc_timing_calls_spec g : wfg g ->
  (forall u, In (CallRec u) (nm_perc_timing_calls g) <-> In u (gnodes g)) /\
  (forall u v, In (CallTrans u v) (nm_perc_timing_calls g) <-> In u (gnodes g) /\ In v (gadj g u)).
Proof.
  intros W. unfold nm_perc_timing_calls. split.
  - intro u. rewrite in_flat_map. split.
    + intros [a [Ha [H|H]]]; [inversion H; subst; exact Ha|]. apply in_map_iff in H. destruct H as [x [E _]]. discriminate.
    + intro H. exists u. split; [exact H|left; reflexivity].
  - intros u v. rewrite in_flat_map. split.
    + intros [a [Ha [H|H]]]; [discriminate|]. apply in_map_iff in H. destruct H as [x [E Hx]]. inversion E; subst. split; assumption.
    + intros [H1 H2]. exists u. split; [exact H1|right]. apply in_map. exact H2.
Qed.
End RulesP.

Section Rules2P.
Variables X Z : Type.
Variable xi : node -> option X.
Variable zeta : node -> option Z.
Variable transmission : X -> Z -> bool.

Definition fired2 (u v : node) : bool :=
  match xi u, zeta v with Some a, Some b => transmission a b | _, _ => false end.

Lemma nm_inner_extends u : forall nbrs h h',
  nm_inner X Z xi zeta transmission u nbrs h = Ok h' -> extends (fired2 u) u nbrs h h'.
Proof.
  induction nbrs as [|v t IH]; intros h h' H; cbn in H.
  - inversion H; subst. apply extends_nil.
  - destruct (xi u) as [a|] eqn:Ex; [|discriminate]. destruct (zeta v) as [b|] eqn:Ez; [|discriminate].
    eapply extends_cons with (w := false) (d := None); [|apply IH; exact H].
    unfold fired2. rewrite Ex, Ez. reflexivity.
Qed.

Lemma nm_outer_built g : forall todo h h',
  nm_outer X Z xi zeta transmission g todo h = Ok h' -> built g fired2 todo h h'.
Proof.
  induction todo as [|u t IH]; intros h h' H; cbn in H.
  - inversion H; subst. apply built_nil.
  - destruct (nm_inner X Z xi zeta transmission u (gadj g u) (p_add_node false h u None)) as [h1|e] eqn:E1; [|discriminate].
    cbn in H. eapply built_cons; [reflexivity|apply nm_inner_extends; exact E1|apply IH; exact H].
Qed.

(* nonMarkov_directed_percolate_network: same nodes; u->v iff transmission(xi[u],zeta[v]) *)
Lemma nm_perc_spec g h : wfg g -> nm_perc X Z xi zeta transmission g = Ok h ->
  NoDup (pg_nodes h) /\ (forall x, In x (pg_nodes h) <-> In x (gnodes g)) /\
  length (pg_nodes h) = length (gnodes g) /\
  (forall u v, In (u, v) (pg_edges h) <->
     In u (gnodes g) /\ In v (gadj g u) /\ exists a b, xi u = Some a /\ zeta v = Some b /\ transmission a b = true).
Proof.
  intros W H. destruct (built_final g fired2 h W (nm_outer_built g _ _ _ H)) as [A [B [C D]]].
  split; [exact A|]. split; [exact B|]. split; [exact C|].
  intros u v. rewrite D. unfold fired2. split.
  - intros [H1 [H2 H3]]. split; [exact H1|]. split; [exact H2|].
    destruct (xi u) as [a|]; [|discriminate]. destruct (zeta v) as [b|]; [|discriminate]. exists a, b. auto.
  - intros [H1 [H2 [a [b [Ea [Eb T]]]]]]. rewrite Ea, Eb. auto.
Qed.

(* it succeeds when the dicts cover the nodes, and the only failure is a KeyError *)
Lemma nm_inner_total u : forall nbrs h, xi u <> None -> (forall v, In v nbrs -> zeta v <> None) ->
  exists h', nm_inner X Z xi zeta transmission u nbrs h = Ok h'.
Proof.
  induction nbrs as [|v t IH]; intros h Hx Hz; cbn; [eexists; reflexivity|].
  destruct (xi u) as [a|] eqn:Ex; [|contradiction]. destruct (zeta v) as [b|] eqn:Ez; [|exfalso; apply (Hz v (or_introl eq_refl)); exact Ez].
  apply IH; [discriminate|intros v' Hv'; apply Hz; right; exact Hv'].
Qed.

Lemma nm_perc_total g : wfg g -> (forall u, In u (gnodes g) -> xi u <> None /\ zeta u <> None) ->
  exists h, nm_perc X Z xi zeta transmission g = Ok h.
Proof.
  intros W Hk. unfold nm_perc.
  assert (K : forall todo h, incl todo (gnodes g) -> exists h', nm_outer X Z xi zeta transmission g todo h = Ok h').
  { induction todo as [|u t IH]; intros h Hi; cbn; [eexists; reflexivity|].
    destruct (nm_inner_total u (gadj g u) (p_add_node false h u None)) as [h1 E1].
    - apply Hk. apply Hi. left. reflexivity.
    - intros v Hv. apply Hk. apply (wf_adj_in g W u); [apply Hi; left; reflexivity|exact Hv].
    - rewrite E1. cbn. apply IH. intros x Hx. apply Hi. right. exact Hx. }
  apply K. apply incl_refl.
Qed.

Lemma nm_perc_err g e : nm_perc X Z xi zeta transmission g = Err e -> e = KeyErr.
Proof.
  unfold nm_perc.
  assert (I : forall u nbrs h, nm_inner X Z xi zeta transmission u nbrs h = Err e -> e = KeyErr).
  { induction nbrs as [|v t IH]; intros h H; cbn in H; [discriminate|].
    destruct (xi u); [|inversion H; reflexivity]. destruct (zeta v); [|inversion H; reflexivity]. eapply IH; exact H. }
  assert (K : forall todo h, nm_outer X Z xi zeta transmission g todo h = Err e -> e = KeyErr).
  { induction todo as [|u t IH]; intros h H; cbn in H; [discriminate|].
    destruct (nm_inner X Z xi zeta transmission u (gadj g u) (p_add_node false h u None)) as [h1|e1] eqn:E1.
    - cbn in H. eapply IH; exact H.
    - cbn in H. inversion H; subst. eapply I; exact E1. }
  apply K.
Qed.
End Rules2P.

(* ---------------- directed_percolate_network (Markovian rules, sampler program) ---------------- *)
(* a property of every value the program can return, whatever the draws *)
Inductive always {A} (P : A -> Prop) : samp A -> Prop :=
| al_ret a : P a -> always P (Ret a)
| al_fail e : always P (Fail e)
| al_expo r k : (forall d, always P (k d)) -> always P (Expo r k)
| al_flip p a b : always P a -> always P b -> always P (Flip p a b)
| al_casc ps k : (forall i, always P (k i)) -> always P (Casc ps k)
| al_choose w c k : (forall x, always P (k x)) -> always P (Choose w c k)
| al_unif c k : (forall x, always P (k x)) -> always P (Unif c k)
| al_sample pop n k : (forall l, always P (k l)) -> always P (Sample pop n k).

Lemma exec_always {A} (P : A -> Prop) (m : samp A) : always P m ->
  forall ds tr a tr', exec m ds tr = (Ok a, tr') -> P a.
Proof.
  induction 1 as [a Ha|e|r k _ IH|p a b _ IHa _ IHb|ps k _ IH|w c k _ IH|c k _ IH|pop n k _ IH];
    intros ds tr x tr' E; cbn [exec] in E.
  - inversion E; subst. exact Ha.
  - discriminate.
  - destruct (Qeqb r 0); [discriminate|]. destruct ds as [|d ds']; [discriminate|].
    destruct (Qltb d 0); [discriminate|]. eapply IH; exact E.
  - destruct ds as [|d ds']; [discriminate|]. destruct (unit_draw d); [|discriminate].
    destruct (Qltb d p); [eapply IHa|eapply IHb]; exact E.
  - destruct ds as [|d ds']; [discriminate|]. destruct (unit_draw d); [|discriminate]. eapply IH; exact E.
  - destruct (choose_exec w c ds tr) as [[[y|e] tr1] ds1]; [eapply IH; exact E|discriminate].
  - destruct c as [|c0 c']; [discriminate|]. destruct ds as [|d ds']; [discriminate|].
    destruct (nth_error (c0 :: c') (rank d)); [eapply IH; exact E|discriminate].
  - destruct (Nat.ltb (length pop) n); [discriminate|]. destruct ds as [|d ds']; [discriminate|]. eapply IH; exact E.
Qed.

Lemma always_bind {A B} (Q : A -> Prop) (P : B -> Prop) (m : samp A) (f : A -> samp B) :
  always Q m -> (forall a, Q a -> always P (f a)) -> always P (bind m f).
Proof.
  intros Hm Hf. induction Hm; cbn; try (constructor; auto; fail). apply Hf. assumption.
Qed.

Lemma always_draw_time {A} (P : A -> Prop) rate (k : xtime -> samp A) :
  (forall d, always P (k d)) -> always P (draw_time rate k).
Proof.
  intro H. unfold draw_time. destruct (Qltb 0 rate); [constructor; intro d; apply H|apply H].
Qed.

Definition shape_inner (u : node) (nbrs : list node) (h h' : pgraph) : Prop :=
  (forall e, In e (pg_edges h') -> In e (pg_edges h) \/ exists v, In v nbrs /\ e = (u, v)) /\
  (forall x, In x (pg_nodes h') -> In x (pg_nodes h) \/ x = u \/ In x nbrs) /\
  incl (pg_nodes h) (pg_nodes h') /\ (NoDup (pg_nodes h) -> NoDup (pg_nodes h')).

Lemma always_weaken {A} (Q P : A -> Prop) (m : samp A) :
  always Q m -> (forall a, Q a -> P a) -> always P m.
Proof.
  intros Hm Hf. induction Hm; try (constructor; auto; fail).
Qed.

Lemma dpn_inner_shape tau w u du : forall nbrs h,
  always (shape_inner u nbrs h) (dpn_inner tau w u du nbrs h).
Proof.
  induction nbrs as [|v t IH]; intro h; cbn.
  - constructor. split; [auto|]. split; [auto|]. split; [apply incl_refl|auto].
  - apply always_draw_time. intro d.
    eapply always_weaken; [apply IH|]. intros h' [A [B [C D]]].
    destruct (xle d du).
    + split; [|split; [|split]].
      * intros e He. apply A in He. destruct He as [He|[v' [H1 H2]]].
        -- apply pe_edges in He. destruct He as [He|He]; [right; exists v; split; [left; reflexivity|exact He]|left; exact He].
        -- right. exists v'. split; [right; exact H1|exact H2].
      * intros x Hx. apply B in Hx. destruct Hx as [Hx|[Hx|Hx]]; [|right; left; exact Hx|right; right; right; exact Hx].
        apply pe_nodes in Hx. destruct Hx as [Hx|[Hx|Hx]]; [right; left; exact Hx|right; right; left; symmetry; exact Hx|left; exact Hx].
      * intros x Hx. apply C. apply pe_nodes. right. right. exact Hx.
      * intro N. apply D. apply pe_nodup. exact N.
    + split; [|split; [|split]].
      * intros e He. apply A in He. destruct He as [He|[v' [H1 H2]]]; [left; exact He|right; exists v'; split; [right; exact H1|exact H2]].
      * intros x Hx. apply B in Hx. destruct Hx as [Hx|[Hx|Hx]]; [left; exact Hx|right; left; exact Hx|right; right; right; exact Hx].
      * exact C.
      * exact D.
Qed.

Definition shape (g : graph) (todo : list node) (h h' : pgraph) : Prop :=
  (forall a b, In (a, b) (pg_edges h') -> In (a, b) (pg_edges h) \/ (In a todo /\ In b (gadj g a))) /\
  (forall x, In x (pg_nodes h') -> In x (pg_nodes h) \/ In x todo \/ exists a, In a todo /\ In x (gadj g a)) /\
  (forall x, In x (pg_nodes h) \/ In x todo -> In x (pg_nodes h')) /\
  (NoDup (pg_nodes h) -> NoDup (pg_nodes h')).

Lemma dpn_outer_shape g tau gamma w : forall todo h,
  always (shape g todo h) (dpn_outer g tau gamma w todo h).
Proof.
  induction todo as [|u t IH]; intro h; cbn.
  - constructor. split; [auto|]. split; [auto|]. split; [intros x [H|[]]; exact H|auto].
  - apply always_draw_time. intro du.
    eapply always_bind; [apply dpn_inner_shape|]. intros h1 [A [B [C D]]].
    eapply always_weaken; [apply IH|]. intros h' [A' [B' [C' D']]].
    split; [|split; [|split]].
    + intros a b He. apply A' in He. destruct He as [He|[H1 H2]]; [|right; split; [right; exact H1|exact H2]].
      apply A in He. cbn [pg_edges p_add_node] in He. destruct He as [He|[v [H1 H2]]]; [left; exact He|].
      inversion H2; subst. right. split; [left; reflexivity|exact H1].
    + intros x Hx. apply B' in Hx. destruct Hx as [Hx|[Hx|[a [H1 H2]]]].
      * apply B in Hx. destruct Hx as [Hx|[Hx|Hx]].
        -- apply pn_nodes in Hx. destruct Hx as [Hx|Hx]; [right; left; left; symmetry; exact Hx|left; exact Hx].
        -- right. left. left. symmetry. exact Hx.
        -- right. right. exists u. split; [left; reflexivity|exact Hx].
      * right. left. right. exact Hx.
      * right. right. exists a. split; [right; exact H1|exact H2].
    + intros x [Hx|[Hx|Hx]]; apply C'.
      * left. apply C. apply pn_nodes. right. exact Hx.
      * left. apply C. apply pn_nodes. left. symmetry. exact Hx.
      * right. exact Hx.
    + intro N. apply D', D, pn_nodup, N.
Qed.

(* whatever is drawn: the nodes of G, and only arcs of G *)
Lemma directed_percolate_network_shape g tau gamma w : wfg g ->
  forall ds tr h tr', exec (directed_percolate_network g tau gamma w) ds tr = (Ok h, tr') ->
  NoDup (pg_nodes h) /\ (forall x, In x (pg_nodes h) <-> In x (gnodes g)) /\
  length (pg_nodes h) = length (gnodes g) /\
  (forall u v, In (u, v) (pg_edges h) -> In u (gnodes g) /\ In v (gadj g u)).
Proof.
  intros W ds tr h tr' E.
  destruct (exec_always _ _ (dpn_outer_shape g tau gamma w (gnodes g) pg_empty) ds tr h tr' E) as [A [B [C D]]].
  assert (N : NoDup (pg_nodes h)) by (apply D; constructor).
  assert (S : forall x, In x (pg_nodes h) <-> In x (gnodes g)).
  { intro x. split.
    - intro Hx. apply B in Hx. destruct Hx as [[]|[Hx|[a [H1 H2]]]]; [exact Hx|]. apply (wf_adj_in g W a H1). exact H2.
    - intro Hx. apply C. right. exact Hx. }
  split; [exact N|]. split; [exact S|]. split; [apply same_members_length; [exact N|apply (wf_nodes g W)|exact S]|].
  intros u v He. apply A in He. destruct He as [[]|He]. exact He.
Qed.

(* ---------------- directed_percolate_network = the timing builder on the drawn values ---------------- *)
(* a rule value is consistent with a rate when it is a drawn number exactly if the rate is positive *)
Definition drawn (rate : Q) (x : xtime) : bool :=
  match x with Some d => Qltb 0 rate && negb (Qltb d 0) | None => negb (Qltb 0 rate) end.   (* expovariate returns d >= 0 *)
Definition draws_x (x : xtime) : list Q := match x with Some d => [d] | None => [] end.

Lemma exec_draw_time {A} rate (k : xtime -> samp A) x rest tr : drawn rate x = true ->
  exists tr', exec (draw_time rate k) (draws_x x ++ rest) tr = exec (k x) rest tr'.
Proof.
  unfold drawn, draw_time. destruct x as [d|]; intro H.
  - apply andb_true_iff in H. destruct H as [H Hd]. apply negb_true_iff in Hd.
    rewrite H. cbn [draws_x app exec]. rewrite Hd.
    assert (Qeqb rate 0 = false) as ->.
    { unfold Qeqb. destruct (Qeq_bool rate 0) eqn:E; [|reflexivity]. apply Qeq_bool_iff in E.
      unfold Qltb in H. destruct (Qlt_le_dec 0 rate) as [L|L]; [|discriminate]. rewrite E in L. exfalso. exact (Qlt_irrefl _ L). }
    eexists. reflexivity.
  - apply negb_true_iff in H. rewrite H. cbn [draws_x app]. eexists. reflexivity.
Qed.

Lemma bind_draw_time {A B} rate (k : xtime -> samp A) (f : A -> samp B) :
  bind (draw_time rate k) f = draw_time rate (fun x => bind (k x) f).
Proof. unfold draw_time. destruct (Qltb 0 rate); reflexivity. Qed.

Section DPN.
Variable dur : node -> xtime.
Variable delay : node -> node -> xtime.
Variables tau gamma : Q.

(* the numbers expovariate returns, in the order of the calls *)
Definition inner_draws (u : node) (nbrs : list node) : list Q := flat_map (fun v => draws_x (delay u v)) nbrs.
Definition outer_draws (g : graph) (nodes : list node) : list Q :=
  flat_map (fun u => draws_x (dur u) ++ inner_draws u (gadj g u)) nodes.

Lemma exec_dpn_inner {B} w u du (f : pgraph -> samp B) : forall nbrs h rest tr,
  (forall v, In v nbrs -> drawn tau (delay u v) = true) ->
  exists tr', exec (bind (dpn_inner tau w u du nbrs h) f) (inner_draws u nbrs ++ rest) tr
              = exec (f (timing_inner delay w u du nbrs h)) rest tr'.
Proof.
  induction nbrs as [|v t IH]; intros h rest tr Hd.
  - cbn. eexists. reflexivity.
  - cbn [dpn_inner]. rewrite bind_draw_time. unfold inner_draws. cbn [flat_map]. rewrite <- app_assoc.
    destruct (exec_draw_time tau (fun x => bind (dpn_inner tau w u du t (if xle x du then p_add_edge w h u v x else h)) f)
                (delay u v) (flat_map (fun v0 => draws_x (delay u v0)) t ++ rest) tr (Hd v (or_introl eq_refl))) as [tr1 E1].
    rewrite E1.
    destruct (IH (if xle (delay u v) du then p_add_edge w h u v (delay u v) else h) rest tr1 (fun v' Hv' => Hd v' (or_intror Hv'))) as [tr2 E2].
    exists tr2. exact E2.
Qed.

Lemma exec_dpn_outer g w : forall nodes h tr,
  (forall u, In u nodes -> drawn gamma (dur u) = true /\ forall v, In v (gadj g u) -> drawn tau (delay u v) = true) ->
  exists tr', exec (dpn_outer g tau gamma w nodes h) (outer_draws g nodes) tr
              = (Ok (fold_left (fun h u => timing_inner delay w u (dur u) (gadj g u) (p_add_node w h u (dur u))) nodes h), tr').
Proof.
  induction nodes as [|u t IH]; intros h tr Hd.
  - cbn. eexists. reflexivity.
  - cbn [dpn_outer outer_draws flat_map fold_left]. rewrite <- !app_assoc.
    destruct (Hd u (or_introl eq_refl)) as [Hu Hv].
    destruct (exec_draw_time gamma (fun du => bind (dpn_inner tau w u du (gadj g u) (p_add_node w h u du)) (dpn_outer g tau gamma w t))
                (dur u) (inner_draws u (gadj g u) ++ outer_draws g t) tr Hu) as [tr1 E1].
    fold (outer_draws g t). rewrite E1.
    destruct (exec_dpn_inner w u (dur u) (dpn_outer g tau gamma w t) (gadj g u) (p_add_node w h u (dur u)) (outer_draws g t) tr1 Hv) as [tr2 E2].
    rewrite E2. apply IH. intros u' Hu'. apply Hd. right. exact Hu'.
Qed.

(* directed_percolate_network on the draws that the rules (dur, delay) stand for is the
   timing builder with those rules *)
Lemma directed_percolate_network_spec g w :
  (forall u, In u (gnodes g) -> drawn gamma (dur u) = true /\ forall v, In v (gadj g u) -> drawn tau (delay u v) = true) ->
  exists tr', exec (directed_percolate_network g tau gamma w) (outer_draws g (gnodes g)) []
              = (Ok (nm_perc_timing dur delay g w), tr').
Proof.
  intro H. unfold directed_percolate_network, nm_perc_timing. apply exec_dpn_outer. exact H.
Qed.
End DPN.

(* ---------------- the built digraph is a well-formed graph ---------------- *)
Lemma adde_NoDup e l : NoDup l -> NoDup (adde e l).
Proof.
  intro H. unfold adde. destruct (existsb (eqe e) l) eqn:E; [exact H|].
  assert (~ In e l) as Hn.
  { intro Hi. assert (existsb (eqe e) l = true) as K by (apply existsb_exists; exists e; split; [exact Hi|apply eqe_spec; reflexivity]).
    rewrite K in E. discriminate. }
  clear E. induction l as [|a l IH]; cbn; [constructor; [intros []|constructor]|].
  inversion H as [|? ? Ha Hl]; subst. constructor.
  - rewrite in_app_iff. intros [K|[K|[]]]; [exact (Ha K)|subst; apply Hn; left; reflexivity].
  - apply IH; [exact Hl|intro K; apply Hn; right; exact K].
Qed.

Lemma pe_edges_nodup w h u v d : NoDup (pg_edges h) -> NoDup (pg_edges (p_add_edge w h u v d)).
Proof. intro H. cbn. apply adde_NoDup. exact H. Qed.

Lemma timing_edges_nodup dur delay g w : NoDup (pg_edges (nm_perc_timing dur delay g w)).
Proof.
  unfold nm_perc_timing.
  assert (I : forall u du nbrs h, NoDup (pg_edges h) -> NoDup (pg_edges (timing_inner delay w u du nbrs h))).
  { intros u du. induction nbrs as [|v t IH]; intros h H; [exact H|]. rewrite timing_inner_cons. apply IH.
    destruct (xle (delay u v) du); [apply pe_edges_nodup; exact H|exact H]. }
  assert (K : forall todo h, NoDup (pg_edges h) ->
     NoDup (pg_edges (fold_left (fun h u => timing_inner delay w u (dur u) (gadj g u) (p_add_node w h u (dur u))) todo h))).
  { induction todo as [|u t IH]; intros h H; [exact H|]. cbn [fold_left]. apply IH. apply I. exact H. }
  apply K. constructor.
Qed.

Lemma nm_perc_edges_nodup X Z xi zeta tr g hh : nm_perc X Z xi zeta tr g = Ok hh -> NoDup (pg_edges hh).
Proof.
  unfold nm_perc.
  assert (I : forall u nbrs h h', NoDup (pg_edges h) -> nm_inner X Z xi zeta tr u nbrs h = Ok h' -> NoDup (pg_edges h')).
  { intros u. induction nbrs as [|v t IH]; intros h h' H E; cbn in E; [inversion E; subst; exact H|].
    destruct (xi u) as [a|]; [|discriminate]. destruct (zeta v) as [b|]; [|discriminate]. eapply IH; [|exact E].
    destruct (tr a b); [apply pe_edges_nodup; exact H|exact H]. }
  assert (K : forall todo h h', NoDup (pg_edges h) -> nm_outer X Z xi zeta tr g todo h = Ok h' -> NoDup (pg_edges h')).
  { induction todo as [|u t IH]; intros h h' H E; cbn in E; [inversion E; subst; exact H|].
    destruct (nm_inner X Z xi zeta tr u (gadj g u) (p_add_node false h u None)) as [h1|e] eqn:E1; [|discriminate].
    cbn in E. eapply IH; [|exact E]. eapply I; [|exact E1]. exact H. }
  intro E. eapply K; [|exact E]. constructor.
Qed.

Lemma flat_adj_nodup (es : list (node * node)) u : NoDup es ->
  NoDup (flat_map (fun e => if N.eqb (fst e) u then [snd e] else if negb true && N.eqb (snd e) u then [fst e] else []) es).
Proof.
  induction es as [|[a b] r IH]; intro H; [constructor|]. inversion H as [|? ? Ha Hr]; subst.
  cbn [flat_map fst snd negb andb]. destruct (N.eqb a u) eqn:E; cbn [app]; [|apply IH; exact Hr].
  constructor; [|apply IH; exact Hr]. intro K. apply in_flat_map in K. destruct K as [[a' b'] [Hin Hb]].
  cbn [fst snd negb andb] in Hb. destruct (N.eqb a' u) eqn:E'; [|destruct Hb].
  destruct Hb as [Hb|[]]. subst b'. apply N.eqb_eq in E, E'. subst. exact (Ha Hin).
Qed.

Lemma graph_of_wfg nodes es : NoDup nodes -> NoDup es ->
  (forall u v, In (u, v) es -> In u nodes /\ In v nodes) -> wfg (graph_of nodes es true).
Proof.
  intros Hn He Hin. constructor.
  - exact Hn.
  - intros u Hu v Hv. apply graph_of_adj_dir in Hv. exact (proj2 (Hin u v Hv)).
  - intros u Hu v Hv. apply graph_of_pred_dir in Hv. exact (proj1 (Hin v u Hv)).
  - intros u v Hu Hv. apply graph_of_adj_dir in Hv. apply graph_of_pred_dir. exact Hv.
  - intros u v Hu Hv. apply graph_of_pred_dir in Hv. apply graph_of_adj_dir. exact Hv.
  - intros u Hu. cbn [gadj graph_of]. apply flat_adj_nodup. exact He.
Qed.

Lemma timing_output_wfg dur delay g w : wfg g -> wfg (to_graph (nm_perc_timing dur delay g w)).
Proof.
  intro W. destruct (nm_perc_timing_spec dur delay g w W) as [N [S [_ E]]].
  unfold to_graph. apply graph_of_wfg; [exact N|apply timing_edges_nodup|].
  intros u v H. apply E in H. destruct H as [Hu [Hv _]]. split; apply S; [exact Hu|apply (wf_adj_in g W u Hu); exact Hv].
Qed.

Lemma nm_perc_output_wfg X Z xi zeta tr g h : wfg g -> nm_perc X Z xi zeta tr g = Ok h -> wfg (to_graph h).
Proof.
  intros W Eh. destruct (nm_perc_spec X Z xi zeta tr g h W Eh) as [N [S [_ E]]].
  unfold to_graph. apply graph_of_wfg; [exact N|eapply nm_perc_edges_nodup; exact Eh|].
  intros u v H. apply E in H. destruct H as [Hu [Hv _]]. split; apply S; [exact Hu|apply (wf_adj_in g W u Hu); exact Hv].
Qed.

(* the statement of the estimator formula for a digraph H and an estimator f of (k, j) *)
Definition estimator_ok (H : graph) (f : nat -> nat -> result (Q * Q)) : Prop :=
  exists L, sccs H = Ok L /\ largest L <> [] /\
  forall k j c u, nth_error (largest L) k = Some c -> nth_error c j = Some u ->
    is_scc H c /\ (forall c', is_scc H c' -> c' <> [] -> (length c' <= length c)%nat) /\
    exists a b,
      f k j = Ok (frac a (length (gnodes H)), frac b (length (gnodes H))) /\
      card_of (fun x => In x (gnodes H) /\ exists y, In y c /\ fwd H x y) a /\
      card_of (fun x => exists y, In y c /\ fwd H y x) b /\
      (0 <= frac a (length (gnodes H)) /\ frac a (length (gnodes H)) <= 1) /\
      (0 <= frac b (length (gnodes H)) /\ frac b (length (gnodes H)) <= 1).

Lemma estimator_ok_formula g : wfg g -> gnodes g <> [] -> estimator_ok g (estimate_from_dir_perc g).
Proof. exact (estimator_formula g). Qed.

Lemma nodes_nonempty (a b : list node) : (forall x, In x a <-> In x b) -> b <> [] -> a <> [].
Proof.
  intros H Hb E. subst a. destruct b as [|x b]; [contradiction|]. apply (proj2 (H x)). left. reflexivity.
Qed.

Lemma estimate_with_timing_ok dur delay g : wfg g -> gnodes g <> [] ->
  estimator_ok (to_graph (nm_perc_timing dur delay g true)) (estimate_nonMarkov_with_timing dur delay g).
Proof.
  intros W Hne. unfold estimate_nonMarkov_with_timing. apply estimator_ok_formula; [apply timing_output_wfg; exact W|].
  destruct (nm_perc_timing_spec dur delay g true W) as [_ [S _]]. cbn [gnodes to_graph graph_of].
  eapply nodes_nonempty; [exact S|exact Hne].
Qed.

Lemma estimate_nonMarkov_ok X Z xi zeta tr g h : wfg g -> gnodes g <> [] -> nm_perc X Z xi zeta tr g = Ok h ->
  estimator_ok (to_graph h) (estimate_nonMarkov X Z xi zeta tr g).
Proof.
  intros W Hne Eh. unfold estimate_nonMarkov. rewrite Eh. cbn [rbind].
  apply estimator_ok_formula; [eapply nm_perc_output_wfg; eassumption|].
  destruct (nm_perc_spec X Z xi zeta tr g h W Eh) as [_ [S _]]. cbn [gnodes to_graph graph_of].
  eapply nodes_nonempty; [exact S|exact Hne].
Qed.

(* ---------------- get_infected_nodes ---------------- *)
Definition pg_wf (h : pgraph) : Prop :=
  NoDup (pg_nodes h) /\ NoDup (pg_edges h) /\ forall u v, In (u, v) (pg_edges h) -> In u (pg_nodes h) /\ In v (pg_nodes h).

Lemma timing_pg_wf dur delay g w : wfg g -> pg_wf (nm_perc_timing dur delay g w).
Proof.
  intro W. destruct (nm_perc_timing_spec dur delay g w W) as [N [S [_ E]]].
  split; [exact N|]. split; [apply timing_edges_nodup|].
  intros u v H. apply E in H. destruct H as [Hu [Hv _]]. split; apply S; [exact Hu|apply (wf_adj_in g W u Hu); exact Hv].
Qed.

Lemma removed_adj h r0 u v :
  In v (gadj (to_graph (remove_nodes h r0)) u) <-> In (u, v) (pg_edges h) /\ ~ In u r0 /\ ~ In v r0.
Proof.
  unfold to_graph. rewrite graph_of_adj_dir. cbn [pg_edges remove_nodes]. rewrite filter_In. cbn [fst snd].
  rewrite andb_true_iff, !negb_true_iff, !mem_nIn. tauto.
Qed.

(* the nodes reachable from the initial infecteds in the percolated network from which
   the initially recovered nodes (and their arcs) have been removed *)
Lemma infected_nodes_in_spec h i0 r0 : pg_wf h -> incl r0 (pg_nodes h) -> incl i0 (pg_nodes h) ->
  (forall x, In x i0 -> ~ In x r0) ->
  exists r, infected_nodes_in h i0 r0 = Ok r /\ NoDup r /\
            forall y, In y r <-> exists s, In s i0 /\ reach (gadj (to_graph (remove_nodes h r0))) s y.
Proof.
  intros [N [NE EI]] Hr Hi Hd. unfold infected_nodes_in.
  assert (forallb (fun x => mem x (pg_nodes h)) r0 = true) as ->.
  { apply forallb_forall. intros x Hx. apply mem_In. apply Hr. exact Hx. }
  assert (W : wfg (to_graph (remove_nodes h r0))).
  { unfold to_graph. apply graph_of_wfg.
    - cbn. apply NoDup_filter. exact N.
    - cbn. apply NoDup_filter. exact NE.
    - intros u v H. cbn [pg_edges pg_nodes remove_nodes] in *. apply filter_In in H. destruct H as [H1 H2]. cbn [fst snd] in H2.
      apply andb_true_iff in H2. destruct H2 as [A B]. destruct (EI u v H1) as [Hu Hv].
      split; apply filter_In; split; assumption. }
  apply (out_comp_spec _ W (Many i0)). cbn [sources to_graph gnodes graph_of pg_nodes remove_nodes].
  intros x Hx. apply filter_In. split; [apply Hi; exact Hx|]. apply negb_true_iff. apply mem_nIn. apply Hd. exact Hx.
Qed.
