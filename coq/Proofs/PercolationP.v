(* Lemmas about Model/Percolation.v (property C17). *)
From EoNV Require Import Prelude Samp Graph Percolation.
From Coq Require Import Permutation Lqa.

(* ---------------- booleans and lists ---------------- *)
Lemma mem_In x l : mem x l = true <-> In x l.
Proof.
  unfold mem. rewrite existsb_exists. split.
  - intros [y [Hy He]]. apply N.eqb_eq in He. subst. exact Hy.
  - intros H. exists x. split; [exact H|apply N.eqb_refl].
Qed.

Lemma mem_nIn x l : mem x l = false <-> ~ In x l.
Proof.
  rewrite <- mem_In. destruct (mem x l); split; intro H.
  - discriminate H.
  - exfalso. apply H. reflexivity.
  - intro H'. discriminate H'.
  - reflexivity.
Qed.

Lemma nodupb_NoDup l : nodupb l = true -> NoDup l.
Proof.
  induction l as [|a l IH]; intro H; [constructor|].
  cbn in H. apply andb_true_iff in H. destruct H as [H1 H2].
  constructor; [|apply IH; exact H2].
  apply mem_nIn. apply negb_true_iff in H1. exact H1.
Qed.

Lemma subsetb_incl a b : subsetb a b = true -> incl a b.
Proof.
  unfold subsetb. rewrite forallb_forall. intros H x Hx. apply mem_In. apply H. exact Hx.
Qed.

Lemma nodup_app (a b : list node) :
  NoDup a -> NoDup b -> (forall x, In x a -> ~ In x b) -> NoDup (a ++ b).
Proof.
  induction a as [|x a IH]; intros Ha Hb Hd; [exact Hb|].
  inversion Ha as [|? ? Hx Ha']; subst. cbn. constructor.
  - rewrite in_app_iff. intros [H|H]; [exact (Hx H)|]. apply (Hd x); [left; reflexivity|exact H].
  - apply IH; [exact Ha'|exact Hb|]. intros y Hy. apply Hd. right. exact Hy.
Qed.

Lemma same_members_length (a b : list node) :
  NoDup a -> NoDup b -> (forall x, In x a <-> In x b) -> length a = length b.
Proof.
  intros Ha Hb H. apply Permutation_length. apply NoDup_Permutation; assumption.
Qed.

(* ---------------- fresh / dedup / union / drop ---------------- *)
Lemma fresh_In l : forall seen y, In y (fresh l seen) <-> In y l /\ ~ In y seen.
Proof.
  induction l as [|a l IH]; intros seen y; cbn.
  - tauto.
  - destruct (mem a seen) eqn:Hm.
    + apply mem_In in Hm. rewrite IH. split.
      * intros [H1 H2]. split; [right; exact H1|exact H2].
      * intros [[H1|H1] H2]; [subst; contradiction|split; assumption].
    + apply mem_nIn in Hm. cbn. rewrite IH. cbn. split.
      * intros [H|[H1 H2]]; [subst; split; [left; reflexivity|exact Hm]|].
        split; [right; exact H1|]. intro H3. apply H2. right. exact H3.
      * intros [[H1|H1] H2]; [left; exact H1|].
        destruct (N.eq_dec a y) as [E|E]; [left; exact E|].
        right. split; [exact H1|]. intros [H3|H3]; [exact (E H3)|exact (H2 H3)].
Qed.

Lemma fresh_NoDup l : forall seen, NoDup (fresh l seen).
Proof.
  induction l as [|a l IH]; intros seen; cbn; [constructor|].
  destruct (mem a seen); [apply IH|].
  constructor; [|apply IH]. rewrite fresh_In. intros [_ H]. apply H. left. reflexivity.
Qed.

Lemma nodup_app_fresh seen l : NoDup seen -> NoDup (seen ++ fresh l seen).
Proof.
  intro H. apply nodup_app; [exact H|apply fresh_NoDup|].
  intros x Hx Hf. apply fresh_In in Hf. exact (proj2 Hf Hx).
Qed.

Lemma dedup_In l y : In y (dedup l) <-> In y l.
Proof. unfold dedup. rewrite fresh_In. cbn. tauto. Qed.
Lemma dedup_NoDup l : NoDup (dedup l).
Proof. apply fresh_NoDup. Qed.

Lemma union_In a b y : In y (union a b) <-> In y a \/ In y b.
Proof.
  unfold union. rewrite in_app_iff, fresh_In. split.
  - intros [H|[H _]]; [left|right]; exact H.
  - intros [H|H]; [left; exact H|].
    destruct (in_dec N.eq_dec y a) as [Hi|Hi]; [left; exact Hi|right; split; assumption].
Qed.
Lemma union_NoDup a b : NoDup a -> NoDup (union a b).
Proof. apply nodup_app_fresh. Qed.

Lemma drop_In s l y : In y (drop s l) <-> In y l /\ y <> s.
Proof.
  unfold drop. rewrite filter_In, negb_true_iff, N.eqb_neq. tauto.
Qed.
Lemma drop_NoDup s l : NoDup l -> NoDup (drop s l).
Proof. apply NoDup_filter. Qed.

(* ---------------- reachability and the breadth-first closure ---------------- *)
Section BFS.
Variable succ : node -> list node.

Inductive reach : node -> node -> Prop :=
| reach_refl x : reach x x
| reach_step x y z : reach x y -> In z (succ y) -> reach x z.

Lemma reach_trans x y z : reach x y -> reach y z -> reach x z.
Proof.
  intros Hxy Hyz. induction Hyz as [|y w z Hyw IH Hz]; [exact Hxy|].
  eapply reach_step; [apply IH; exact Hxy|exact Hz].
Qed.

Lemma reach_left x y z : In y (succ x) -> reach y z -> reach x z.
Proof.
  intros H1 H2. eapply reach_trans; [|exact H2].
  eapply reach_step; [apply reach_refl|exact H1].
Qed.

Lemma bfs_seen : forall fuel work seen r,
  bfs succ fuel work seen = Ok r -> incl seen r.
Proof.
  induction fuel as [|f IH]; intros work seen r H; destruct work as [|x rest]; cbn in H.
  - inversion H; subst. apply incl_refl.
  - discriminate.
  - inversion H; subst. apply incl_refl.
  - apply IH in H. intros y Hy. apply H. apply in_or_app. left. exact Hy.
Qed.

(* everything found satisfies any property that holds of the start set and is
   preserved by the successor relation *)
Lemma bfs_sound (P : node -> Prop) :
  (forall x y, P x -> In y (succ x) -> P y) ->
  forall fuel work seen r,
  incl work seen -> (forall x, In x seen -> P x) ->
  bfs succ fuel work seen = Ok r -> forall y, In y r -> P y.
Proof.
  intros HP. induction fuel as [|f IH]; intros work seen r Hw Hs H; destruct work as [|x rest]; cbn in H.
  - inversion H; subst. exact Hs.
  - discriminate.
  - inversion H; subst. exact Hs.
  - eapply IH; [| |exact H].
    + intros z Hz. apply in_app_or in Hz. apply in_or_app. destruct Hz as [Hz|Hz]; [left|right; exact Hz].
      apply Hw. right. exact Hz.
    + intros z Hz. apply in_app_or in Hz. destruct Hz as [Hz|Hz]; [exact (Hs z Hz)|].
      apply fresh_In in Hz. apply (HP x); [|exact (proj1 Hz)]. apply Hs. apply Hw. left. reflexivity.
Qed.

(* the result is closed under the successor relation *)
Lemma bfs_closed : forall fuel work seen r,
  (forall x, In x seen -> In x work \/ incl (succ x) seen) ->
  bfs succ fuel work seen = Ok r -> forall x, In x r -> incl (succ x) r.
Proof.
  induction fuel as [|f IH]; intros work seen r Hinv H; destruct work as [|x rest]; cbn in H.
  - inversion H; subst. intros z Hz. destruct (Hinv z Hz) as [[]|Hc]. exact Hc.
  - discriminate.
  - inversion H; subst. intros z Hz. destruct (Hinv z Hz) as [[]|Hc]. exact Hc.
  - eapply IH; [|exact H]. intros z Hz. apply in_app_or in Hz. destruct Hz as [Hz|Hz].
    + destruct (Hinv z Hz) as [[Hx|Hr]|Hc].
      * subst z. right. intros y Hy.
        destruct (in_dec N.eq_dec y seen) as [Hi|Hi]; apply in_or_app; [left; exact Hi|right].
        apply fresh_In. split; assumption.
      * left. apply in_or_app. left. exact Hr.
      * right. intros y Hy. apply in_or_app. left. apply Hc. exact Hy.
    + left. apply in_or_app. right. exact Hz.
Qed.

(* fuel: every node is dequeued at most once *)
Lemma bfs_total (nodes : list node) :
  NoDup nodes -> (forall x, In x nodes -> incl (succ x) nodes) ->
  forall fuel done work,
  NoDup (done ++ work) -> incl (done ++ work) nodes -> (length nodes <= fuel + length done)%nat ->
  exists r, bfs succ fuel work (done ++ work) = Ok r /\ NoDup r /\ incl r nodes.
Proof.
  intros Hnd Hcl. induction fuel as [|f IH]; intros done work Hn Hi Hl; destruct work as [|x rest].
  - exists (done ++ []). cbn. auto.
  - exfalso. pose proof (NoDup_incl_length Hn Hi) as HL. rewrite app_length in HL. cbn in HL, Hl. lia.
  - exists (done ++ []). cbn. auto.
  - cbn [bfs].
    set (nw := fresh (succ x) (done ++ x :: rest)).
    assert (E : (done ++ x :: rest) ++ nw = (done ++ [x]) ++ (rest ++ nw)).
    { rewrite <- !app_assoc. reflexivity. }
    rewrite E. apply IH.
    + rewrite <- E. apply nodup_app_fresh. exact Hn.
    + rewrite <- E. apply incl_app; [exact Hi|].
      intros y Hy. apply fresh_In in Hy. apply (Hcl x); [|exact (proj1 Hy)].
      apply Hi. apply in_or_app. right. left. reflexivity.
    + rewrite app_length. cbn. lia.
Qed.
End BFS.

Lemma reach_rev (succ pred : node -> list node) (nodes : list node) :
  (forall a b, In a nodes -> In b (succ a) -> In b nodes /\ In a (pred b)) ->
  forall x y, In x nodes -> reach succ x y -> In y nodes /\ reach pred y x.
Proof.
  intros H x y Hx Hr. induction Hr as [x|x y z Hxy IH Hz].
  - split; [exact Hx|apply reach_refl].
  - destruct (IH Hx) as [Hy Hyx]. destruct (H y z Hy Hz) as [Hzn Hyz].
    split; [exact Hzn|]. eapply reach_left; [exact Hyz|exact Hyx].
Qed.

(* ---------------- well-formed graphs ---------------- *)
Record wfg (g : graph) : Prop := {
  wf_nodes : NoDup (gnodes g);
  wf_adj_in : forall u, In u (gnodes g) -> incl (gadj g u) (gnodes g);
  wf_pred_in : forall u, In u (gnodes g) -> incl (gpred g u) (gnodes g);
  wf_adj_pred : forall u v, In u (gnodes g) -> In v (gadj g u) -> In u (gpred g v);
  wf_pred_adj : forall u v, In u (gnodes g) -> In v (gpred g u) -> In u (gadj g v);
  wf_adj_nodup : forall u, In u (gnodes g) -> NoDup (gadj g u)
}.

Lemma wf_graphb_wfg g : wf_graphb g = true -> wfg g.
Proof.
  unfold wf_graphb. rewrite !andb_true_iff. intros [[H1 H2] _].
  rewrite forallb_forall in H2.
  assert (K : forall u, In u (gnodes g) ->
     NoDup (gadj g u) /\ incl (gadj g u) (gnodes g) /\
     (forall v, In v (gadj g u) -> In u (gpred g v)) /\
     incl (gpred g u) (gnodes g) /\ (forall v, In v (gpred g u) -> In u (gadj g v))).
  { intros u Hu. specialize (H2 u Hu). rewrite !andb_true_iff in H2.
    destruct H2 as [[[[[[A B] _] D] _] F] G].
    rewrite forallb_forall in D, G.
    repeat split.
    - apply nodupb_NoDup; exact A.
    - apply subsetb_incl; exact B.
    - intros v Hv. apply mem_In. apply D. exact Hv.
    - apply subsetb_incl; exact F.
    - intros v Hv. apply mem_In. apply G. exact Hv. }
  constructor.
  - apply nodupb_NoDup; exact H1.
  - intros u Hu. apply (K u Hu).
  - intros u Hu. apply (K u Hu).
  - intros u v Hu Hv. apply (K u Hu). exact Hv.
  - intros u v Hu Hv. apply (K u Hu). exact Hv.
  - intros u Hu. apply (K u Hu).
Qed.

Definition fwd (g : graph) := reach (gadj g).

Lemma bwd_fwd g : wfg g -> forall u x, In u (gnodes g) -> (reach (gpred g) u x <-> In x (gnodes g) /\ fwd g x u).
Proof.
  intros W u x Hu. split.
  - intro H. eapply (reach_rev (gpred g) (gadj g) (gnodes g)); [|exact Hu|exact H].
    intros a b Ha Hb. split; [apply (wf_pred_in g W a Ha); exact Hb|apply (wf_pred_adj g W); assumption].
  - intros [Hx H]. eapply (reach_rev (gadj g) (gpred g) (gnodes g)); [|exact Hx|exact H].
    intros a b Ha Hb. split; [apply (wf_adj_in g W a Ha); exact Hb|apply (wf_adj_pred g W); assumption].
Qed.

Lemma fwd_in_nodes g : wfg g -> forall u x, In u (gnodes g) -> fwd g u x -> In x (gnodes g).
Proof.
  intros W u x Hu H. induction H as [|x y z Hxy IH Hz]; [exact Hu|].
  apply (wf_adj_in g W y (IH Hu)). exact Hz.
Qed.

(* ---------------- closure = reachable set, no OutOfFuel ---------------- *)
Lemma closure_spec g (succ : node -> list node) s :
  NoDup (gnodes g) -> (forall x, In x (gnodes g) -> incl (succ x) (gnodes g)) -> In s (gnodes g) ->
  exists r, closure g succ s = Ok r /\ NoDup r /\ incl r (gnodes g) /\ forall y, In y r <-> reach succ s y.
Proof.
  intros Hnd Hcl Hs. unfold closure.
  destruct (bfs_total succ (gnodes g) Hnd Hcl (length (gnodes g)) [] [s]) as [r [Hr [Hn Hi]]].
  - cbn. constructor; [intros []|constructor].
  - cbn. intros y [Hy|[]]. subst. exact Hs.
  - cbn. lia.
  - cbn in Hr. exists r. split; [exact Hr|]. split; [exact Hn|]. split; [exact Hi|].
    intro y. split.
    + apply (bfs_sound succ (reach succ s)) with (fuel := length (gnodes g)) (work := [s]) (seen := [s]).
      * intros a b Ha Hb. eapply reach_step; eassumption.
      * apply incl_refl.
      * intros x [Hx|[]]. subst. apply reach_refl.
      * exact Hr.
    + intro H. induction H as [|x y z Hxy IH Hz].
      * apply (bfs_seen _ _ _ _ _ Hr). left. reflexivity.
      * eapply (bfs_closed succ _ _ _ _ _ Hr); [exact (IH Hs Hr)|exact Hz].
        Unshelve. intros a [Ha|[]]. left. left. exact Ha.
Qed.

Lemma closure_fwd g : wfg g -> forall s, In s (gnodes g) ->
  exists r, closure g (gadj g) s = Ok r /\ NoDup r /\ forall y, In y r <-> fwd g s y.
Proof.
  intros W s Hs. destruct (closure_spec g (gadj g) s (wf_nodes g W) (wf_adj_in g W) Hs) as [r [H1 [H2 [_ H3]]]].
  exists r. auto.
Qed.

Lemma closure_bwd g : wfg g -> forall s, In s (gnodes g) ->
  exists r, closure g (gpred g) s = Ok r /\ NoDup r /\ forall y, In y r <-> (In y (gnodes g) /\ fwd g y s).
Proof.
  intros W s Hs. destruct (closure_spec g (gpred g) s (wf_nodes g W) (wf_pred_in g W) Hs) as [r [H1 [H2 [_ H3]]]].
  exists r. split; [exact H1|]. split; [exact H2|]. intro y. rewrite H3. apply bwd_fwd; assumption.
Qed.

(* ---------------- _out_component_ / _in_component_ ---------------- *)
Lemma comp_loop_spec (desc : node -> result (list node)) (R : node -> node -> Prop) :
  forall srcs acc,
  (forall s, In s srcs -> exists d, desc s = Ok d /\ forall y, In y d <-> R s y /\ y <> s) ->
  NoDup acc ->
  exists r, comp_loop desc srcs acc = Ok r /\ NoDup r /\
            forall y, In y r <-> In y acc \/ exists s, In s srcs /\ R s y /\ y <> s.
Proof.
  induction srcs as [|s t IH]; intros acc Hd Ha.
  - exists acc. cbn. split; [reflexivity|]. split; [exact Ha|]. intro y. split; [auto|].
    intros [H|[s [[] _]]]. exact H.
  - destruct (Hd s (or_introl eq_refl)) as [d [E Hdy]]. cbn. rewrite E. cbn.
    destruct (IH (union acc d)) as [r [Hr [Hn Hy]]].
    + intros s' Hs'. apply Hd. right. exact Hs'.
    + apply union_NoDup. exact Ha.
    + exists r. split; [exact Hr|]. split; [exact Hn|]. intro y. rewrite Hy, union_In, Hdy. split.
      * intros [[H|H]|[s' [H1 H2]]]; [left; exact H|right; exists s; split; [left; reflexivity|exact H]|].
        right. exists s'. split; [right; exact H1|exact H2].
      * intros [H|[s' [[H1|H1] H2]]]; [left; left; exact H|subst; left; right; exact H2|].
        right. exists s'. split; assumption.
Qed.

Lemma descendants_spec g : wfg g -> forall s, In s (gnodes g) ->
  exists d, descendants g s = Ok d /\ forall y, In y d <-> fwd g s y /\ y <> s.
Proof.
  intros W s Hs. unfold descendants, has_node. rewrite (proj2 (mem_In s _) Hs).
  destruct (closure_fwd g W s Hs) as [r [E [_ H]]]. rewrite E. cbn.
  eexists. split; [reflexivity|]. intro y. rewrite drop_In, H. tauto.
Qed.

Lemma ancestors_spec g : wfg g -> forall s, In s (gnodes g) ->
  exists d, ancestors g s = Ok d /\ forall y, In y d <-> (In y (gnodes g) /\ fwd g y s) /\ y <> s.
Proof.
  intros W s Hs. unfold ancestors, has_node. rewrite (proj2 (mem_In s _) Hs).
  destruct (closure_bwd g W s Hs) as [r [E [_ H]]]. rewrite E. cbn.
  eexists. split; [reflexivity|]. intro y. rewrite drop_In, H. tauto.
Qed.

(* the set of sources after the has_node dispatch *)
Definition sources (src : source) : list node := match src with One u => [u] | Many l => l end.

Lemma component_spec g (desc : node -> result (list node)) (R : node -> node -> Prop) :
  (forall s, R s s) ->
  (forall s, In s (gnodes g) -> exists d, desc s = Ok d /\ forall y, In y d <-> R s y /\ y <> s) ->
  forall src, incl (sources src) (gnodes g) ->
  exists r, component g desc src = Ok r /\ NoDup r /\
            forall y, In y r <-> exists s, In s (sources src) /\ R s y.
Proof.
  intros Rrefl Hd src Hin.
  assert (K : forall l, incl l (gnodes g) -> NoDup l ->
     exists r, comp_loop desc l l = Ok r /\ NoDup r /\ forall y, In y r <-> exists s, In s l /\ R s y).
  { intros l Hl Hn. destruct (comp_loop_spec desc R l l) as [r [Hr [Hnr Hy]]].
    - intros s Hs. apply Hd. apply Hl. exact Hs.
    - exact Hn.
    - exists r. split; [exact Hr|]. split; [exact Hnr|]. intro y. rewrite Hy. split.
      + intros [H|[s [H1 [H2 _]]]]; [exists y; split; [exact H|apply Rrefl]|exists s; split; assumption].
      + intros [s [H1 H2]]. destruct (N.eq_dec y s) as [E|E]; [subst; left; exact H1|].
        right. exists s. repeat split; assumption. }
  destruct src as [u|l]; cbn [component sources] in *.
  - unfold has_node. rewrite (proj2 (mem_In u _) (Hin u (or_introl eq_refl))).
    apply (K [u]); [exact Hin|]. constructor; [intros []|constructor].
  - destruct (K (dedup l)) as [r [Hr [Hn Hy]]].
    + intros x Hx. apply Hin. apply dedup_In. exact Hx.
    + apply dedup_NoDup.
    + exists r. split; [exact Hr|]. split; [exact Hn|]. intro y. rewrite Hy. split.
      * intros [s [H1 H2]]. exists s. split; [apply dedup_In; exact H1|exact H2].
      * intros [s [H1 H2]]. exists s. split; [apply dedup_In; exact H1|exact H2].
Qed.

Lemma out_comp_spec g : wfg g -> forall src, incl (sources src) (gnodes g) ->
  exists r, out_component g src = Ok r /\ NoDup r /\
            forall y, In y r <-> exists s, In s (sources src) /\ fwd g s y.
Proof.
  intros W src Hin. apply (component_spec g (descendants g) (fwd g)); [apply reach_refl| |exact Hin].
  intros s Hs. apply descendants_spec; assumption.
Qed.

Lemma in_comp_spec g : wfg g -> forall src, incl (sources src) (gnodes g) ->
  exists r, in_component g src = Ok r /\ NoDup r /\
            forall y, In y r <-> exists s, In s (sources src) /\ In y (gnodes g) /\ fwd g y s.
Proof.
  intros W src Hin.
  destruct (component_spec g (ancestors g) (fun s y => In s (gnodes g) -> In y (gnodes g) /\ fwd g y s)) with (src := src)
    as [r [Hr [Hn Hy]]].
  - intros s Hs. split; [exact Hs|apply reach_refl].
  - intros s Hs. destruct (ancestors_spec g W s Hs) as [d [E Hd]]. exists d. split; [exact E|].
    intro y. rewrite Hd. split; [intros [H1 H2]; split; [intros _; exact H1|exact H2]|].
    intros [H1 H2]. split; [exact (H1 Hs)|exact H2].
  - exact Hin.
  - exists r. split; [exact Hr|]. split; [exact Hn|]. intro y. rewrite Hy. split.
    + intros [s [H1 H2]]. exists s. split; [exact H1|]. apply H2. apply Hin. exact H1.
    + intros [s [H1 H2]]. exists s. split; [exact H1|]. intros _. exact H2.
Qed.

(* the answer does not depend on the order (or multiplicity) in which the
   sources are listed: two listings of one set give the same set *)
Lemma out_comp_order_indep g : wfg g -> forall l l', incl l (gnodes g) -> (forall x, In x l <-> In x l') ->
  exists r r', out_component g (Many l) = Ok r /\ out_component g (Many l') = Ok r' /\
               (forall y, In y r <-> In y r') /\ length r = length r'.
Proof.
  intros W l l' Hl Hll.
  destruct (out_comp_spec g W (Many l) Hl) as [r [E [N1 H]]].
  destruct (out_comp_spec g W (Many l')) as [r' [E' [N2 H']]].
  { intros x Hx. apply Hl. apply Hll. exact Hx. }
  exists r, r'. split; [exact E|]. split; [exact E'|].
  assert (S : forall y, In y r <-> In y r').
  { intro y. rewrite H, H'. cbn. split; intros [s [H1 H2]]; exists s; (split; [apply Hll; exact H1|exact H2]). }
  split; [exact S|]. apply same_members_length; assumption.
Qed.

Lemma in_comp_order_indep g : wfg g -> forall l l', incl l (gnodes g) -> (forall x, In x l <-> In x l') ->
  exists r r', in_component g (Many l) = Ok r /\ in_component g (Many l') = Ok r' /\
               (forall y, In y r <-> In y r') /\ length r = length r'.
Proof.
  intros W l l' Hl Hll.
  destruct (in_comp_spec g W (Many l) Hl) as [r [E [N1 H]]].
  destruct (in_comp_spec g W (Many l')) as [r' [E' [N2 H']]].
  { intros x Hx. apply Hl. apply Hll. exact Hx. }
  exists r, r'. split; [exact E|]. split; [exact E'|].
  assert (S : forall y, In y r <-> In y r').
  { intro y. rewrite H, H'. cbn. split; intros [s [H1 H2]]; exists s; (split; [apply Hll; exact H1|exact H2]). }
  split; [exact S|]. apply same_members_length; assumption.
Qed.

(* ---------------- strongly connected components ---------------- *)
Definition mutual (g : graph) (u v : node) : Prop := fwd g u v /\ fwd g v u.

Lemma mutual_sym g u v : mutual g u v -> mutual g v u.
Proof. unfold mutual; tauto. Qed.
Lemma mutual_trans g u v w : mutual g u v -> mutual g v w -> mutual g u w.
Proof. unfold mutual, fwd. intros [A B] [C D]. split; eapply reach_trans; eassumption. Qed.
Lemma mutual_refl g u : mutual g u u.
Proof. split; apply reach_refl. Qed.

Lemma scc_of_spec g : wfg g -> forall u, In u (gnodes g) ->
  exists c, scc_of g u = Ok c /\ NoDup c /\ incl c (gnodes g) /\ forall x, In x c <-> mutual g u x.
Proof.
  intros W u Hu. unfold scc_of.
  destruct (closure_fwd g W u Hu) as [f [Ef [_ Hf]]].
  destruct (closure_bwd g W u Hu) as [b [Eb [_ Hb]]].
  rewrite Ef, Eb. cbn. eexists. split; [reflexivity|]. split; [apply NoDup_filter; apply (wf_nodes g W)|].
  split; [intros x Hx; apply filter_In in Hx; exact (proj1 Hx)|].
  intro x. rewrite filter_In, andb_true_iff, !mem_In, Hf, Hb. unfold mutual. split.
  - intros [_ [H1 [_ H2]]]. split; assumption.
  - intros [H1 H2]. pose proof (fwd_in_nodes g W u x Hu H1) as Hx. tauto.
Qed.

(* canonical representation: mutually reachable nodes have the same class list *)
Lemma scc_of_canon g : wfg g -> forall u v, In u (gnodes g) -> In v (gnodes g) -> mutual g u v ->
  scc_of g u = scc_of g v.
Proof.
  intros W u v Hu Hv M. unfold scc_of.
  destruct (closure_fwd g W u Hu) as [f [Ef [_ Hf]]].
  destruct (closure_bwd g W u Hu) as [b [Eb [_ Hb]]].
  destruct (closure_fwd g W v Hv) as [f' [Ef' [_ Hf']]].
  destruct (closure_bwd g W v Hv) as [b' [Eb' [_ Hb']]].
  rewrite Ef, Eb, Ef', Eb'. cbn. f_equal. apply filter_ext_in. intros x Hx.
  destruct M as [Muv Mvu].
  assert (A : mem x f = mem x f').
  { apply eq_true_iff_eq. rewrite !mem_In, Hf, Hf'. unfold fwd.
    split; intro H; eapply reach_trans; eassumption. }
  assert (B : mem x b = mem x b').
  { apply eq_true_iff_eq. rewrite !mem_In, Hb, Hb'. unfold fwd.
    split; intros [H0 H]; (split; [exact H0|]); eapply reach_trans; eassumption. }
  rewrite A, B. reflexivity.
Qed.

Lemma classes_loop_spec (cls : node -> result (list node)) (nodes : list node)
      (E : node -> node -> Prop) :
  (forall u, In u nodes -> exists c, cls u = Ok c /\ forall x, In x c <-> E u x) ->
  (forall u, E u u) ->
  forall todo acc,
  incl todo nodes ->
  (forall c, In c acc -> exists u, In u nodes /\ cls u = Ok c) ->
  exists L, classes_loop cls todo acc = Ok L /\
    (forall c, In c L -> exists u, In u nodes /\ cls u = Ok c) /\
    (forall c, In c acc -> In c L) /\
    (forall u, In u todo -> exists c, In c L /\ In u c).
Proof.
  intros Hc Hrefl. induction todo as [|u t IH]; intros acc Ht Ha.
  - exists (rev acc). cbn. split; [reflexivity|]. split; [|split].
    + intros c Hcin. apply Ha. apply in_rev. exact Hcin.
    + intros c Hcin. apply in_rev in Hcin. exact Hcin.
    + intros u [].
  - cbn. destruct (existsb (mem u) acc) eqn:Ex.
    + destruct (IH acc) as [L [HL [H1 [H2 H3]]]].
      * intros x Hx. apply Ht. right. exact Hx.
      * exact Ha.
      * exists L. split; [exact HL|]. split; [exact H1|]. split; [exact H2|].
        intros v [Hv|Hv]; [|apply H3; exact Hv]. subst v.
        apply existsb_exists in Ex. destruct Ex as [c [Hcin Hm]]. exists c. split; [apply H2; exact Hcin|].
        apply mem_In. exact Hm.
    + destruct (Hc u (Ht u (or_introl eq_refl))) as [c [Ec Hcx]]. rewrite Ec. cbn.
      destruct (IH (c :: acc)) as [L [HL [H1 [H2 H3]]]].
      * intros x Hx. apply Ht. right. exact Hx.
      * intros c' [Hc'|Hc']; [subst c'; exists u; split; [apply Ht; left; reflexivity|exact Ec]|apply Ha; exact Hc'].
      * exists L. split; [exact HL|]. split; [exact H1|]. split; [intros c' Hc'; apply H2; right; exact Hc'|].
        intros v [Hv|Hv]; [|apply H3; exact Hv]. subst v. exists c. split; [apply H2; left; reflexivity|].
        apply Hcx. apply Hrefl.
Qed.

Lemma maxlen_ge L : forall c, In c L -> (length c <= maxlen L)%nat.
Proof.
  induction L as [|a L IH]; intros c [].
  - subst. change (maxlen (c :: L)) with (Nat.max (length c) (maxlen L)). lia.
  - change (maxlen (a :: L)) with (Nat.max (length a) (maxlen L)). specialize (IH c H). lia.
Qed.

Lemma maxlen_cons a L : maxlen (a :: L) = Nat.max (length a) (maxlen L).
Proof. reflexivity. Qed.

Lemma largest_spec L c : In c (largest L) <-> In c L /\ forall c', In c' L -> (length c' <= length c)%nat.
Proof.
  unfold largest. rewrite filter_In, Nat.eqb_eq. split.
  - intros [H1 H2]. split; [exact H1|]. intros c' Hc'. rewrite H2. apply maxlen_ge. exact Hc'.
  - intros [H1 H2]. split; [exact H1|]. apply Nat.le_antisymm; [apply maxlen_ge; exact H1|].
    clear H1. induction L as [|a L IH]; [cbn; lia|]. rewrite maxlen_cons.
    apply Nat.max_lub; [apply H2; left; reflexivity|apply IH]. intros c' Hc'. apply H2. right. exact Hc'.
Qed.

Lemma largest_nonempty L : L <> [] -> largest L <> [].
Proof.
  intro HL.
  assert (exists c, In c L /\ length c = maxlen L) as [c [Hc Hl]].
  { induction L as [|a L IH]; [contradiction|]. destruct L as [|b L'].
    - exists a. split; [left; reflexivity|]. cbn. lia.
    - destruct IH as [c [Hc Hl]]; [discriminate|].
      rewrite (maxlen_cons a).
      destruct (Nat.max_spec (length a) (maxlen (b :: L'))) as [[_ E]|[_ E]].
      + exists c. split; [right; exact Hc|]. rewrite E. exact Hl.
      + exists a. split; [left; reflexivity|]. rewrite E. reflexivity. }
  intro E. assert (In c (largest L)) as Hin.
  { unfold largest. apply filter_In. split; [exact Hc|]. apply Nat.eqb_eq. exact Hl. }
  rewrite E in Hin. exact Hin.
Qed.

(* what strongly_connected_components is specified to return *)
Definition is_scc (g : graph) (c : list node) : Prop :=
  NoDup c /\ incl c (gnodes g) /\ exists u, In u c /\ forall x, In x c <-> mutual g u x.

Lemma sccs_spec g : wfg g ->
  exists L, sccs g = Ok L /\
    (forall c, In c L -> is_scc g c) /\
    (forall u, In u (gnodes g) -> exists c, In c L /\ In u c) /\
    (L = [] <-> gnodes g = []).
Proof.
  intros W. unfold sccs.
  destruct (classes_loop_spec (scc_of g) (gnodes g) (mutual g)) with (todo := gnodes g) (acc := @nil (list node))
    as [L [HL [H1 [_ H3]]]].
  - intros u Hu. destruct (scc_of_spec g W u Hu) as [c [E [_ [_ H]]]]. exists c. auto.
  - apply mutual_refl.
  - apply incl_refl.
  - intros c [].
  - exists L. split; [exact HL|]. split; [|split; [exact H3|]].
    + intros c Hc. destruct (H1 c Hc) as [u [Hu E]].
      destruct (scc_of_spec g W u Hu) as [c' [E' [Hn [Hi Hx]]]]. rewrite E in E'. inversion E'; subst c'.
      split; [exact Hn|]. split; [exact Hi|]. exists u. split; [apply Hx; apply mutual_refl|exact Hx].
    + split.
      * intro E. subst L. destruct (gnodes g) as [|u t]; [reflexivity|].
        destruct (H3 u (or_introl eq_refl)) as [c [[] _]].
      * intro E. destruct L as [|c L']; [reflexivity|].
        destruct (H1 c (or_introl eq_refl)) as [u [Hu _]]. rewrite E in Hu. destruct Hu.
Qed.

Lemma is_scc_length g : wfg g -> forall c c', is_scc g c -> is_scc g c' ->
  (exists x, In x c /\ In x c') -> length c = length c'.
Proof.
  intros W c c' [N1 [_ [u [Hu H]]]] [N2 [_ [u' [Hu' H']]]] [x [Hx Hx']].
  apply same_members_length; [exact N1|exact N2|]. intro y. rewrite H, H'.
  apply H in Hx. apply H' in Hx'.
  split; intro M.
  - eapply mutual_trans; [exact Hx'|]. eapply mutual_trans; [apply mutual_sym; exact Hx|exact M].
  - eapply mutual_trans; [exact Hx|]. eapply mutual_trans; [apply mutual_sym; exact Hx'|exact M].
Qed.

(* ---------------- the estimator ---------------- *)
Definition card_of (P : node -> Prop) (k : nat) : Prop :=
  exists l, NoDup l /\ (forall x, In x l <-> P x) /\ length l = k.

Lemma frac_01 k n : (k <= n)%nat -> (0 < n)%nat -> 0 <= frac k n /\ frac k n <= 1.
Proof.
  intros Hk Hn. unfold frac.
  assert (0 < inject_Z (Z.of_nat n)) as Hp.
  { replace 0 with (inject_Z 0) by reflexivity. rewrite <- Zlt_Qlt. lia. }
  split.
  - apply Qle_shift_div_l; [exact Hp|]. rewrite Qmult_0_l.
    replace 0 with (inject_Z 0) by reflexivity. rewrite <- Zle_Qle. lia.
  - apply Qle_shift_div_r; [exact Hp|]. rewrite Qmult_1_l. rewrite <- Zle_Qle. lia.
Qed.

Lemma est_at_spec g : wfg g -> forall u, In u (gnodes g) ->
  exists a b, est_at g u = Ok (frac a (length (gnodes g)), frac b (length (gnodes g))) /\
    card_of (fun x => In x (gnodes g) /\ fwd g x u) a /\
    card_of (fun x => fwd g u x) b /\
    (a <= length (gnodes g))%nat /\ (b <= length (gnodes g))%nat.
Proof.
  intros W u Hu. unfold est_at.
  assert (Hs : incl (sources (One u)) (gnodes g)) by (intros x [Hx|[]]; subst; exact Hu).
  destruct (in_comp_spec g W (One u) Hs) as [ri [Ei [Ni Hi]]].
  destruct (out_comp_spec g W (One u) Hs) as [ro [Eo [No Ho]]].
  rewrite Ei, Eo. cbn. exists (length ri), (length ro). split; [reflexivity|].
  assert (Hi' : forall x, In x ri <-> In x (gnodes g) /\ fwd g x u).
  { intro x. rewrite Hi. cbn. split; [intros [s [[E|[]] H]]; subst; exact H|intro H; exists u; split; [left; reflexivity|exact H]]. }
  assert (Ho' : forall x, In x ro <-> fwd g u x).
  { intro x. rewrite Ho. cbn. split; [intros [s [[E|[]] H]]; subst; exact H|intro H; exists u; split; [left; reflexivity|exact H]]. }
  split; [exists ri; auto|]. split; [exists ro; auto|].
  split; apply NoDup_incl_length; try assumption.
  - intros x Hx. apply Hi' in Hx. exact (proj1 Hx).
  - intros x Hx. apply Ho' in Hx. eapply fwd_in_nodes; eassumption.
Qed.

(* independence of the element chosen inside the component *)
Lemma scc_indep g : wfg g -> forall u v, In u (gnodes g) -> In v (gnodes g) -> mutual g u v ->
  est_at g u = est_at g v.
Proof.
  intros W u v Hu Hv [Muv Mvu].
  destruct (est_at_spec g W u Hu) as [a [b [E [[la [Na [Ha La]]] [[lb [Nb [Hb Lb]]] _]]]]].
  destruct (est_at_spec g W v Hv) as [a' [b' [E' [[la' [Na' [Ha' La']]] [[lb' [Nb' [Hb' Lb']]] _]]]]].
  rewrite E, E'.
  assert (a = a') as ->.
  { rewrite <- La, <- La'. apply same_members_length; try assumption. intro x. rewrite Ha, Ha'. unfold fwd.
    split; intros [H0 H]; (split; [exact H0|]); eapply reach_trans; eassumption. }
  assert (b = b') as ->.
  { rewrite <- Lb, <- Lb'. apply same_members_length; try assumption. intro x. rewrite Hb, Hb'. unfold fwd.
    split; intro H; eapply reach_trans; eassumption. }
  reflexivity.
Qed.

(* PE and AR expressed through the component rather than through the element *)
Lemma to_component g c u : (forall x, In x c <-> mutual g u x) ->
  forall x, (exists y, In y c /\ fwd g x y) <-> fwd g x u.
Proof.
  intros H x. split.
  - intros [y [Hy Hxy]]. apply H in Hy. destruct Hy as [_ Hyu]. eapply reach_trans; eassumption.
  - intro Hx. exists u. split; [apply H; apply mutual_refl|exact Hx].
Qed.
Lemma from_component g c u : (forall x, In x c <-> mutual g u x) ->
  forall x, (exists y, In y c /\ fwd g y x) <-> fwd g u x.
Proof.
  intros H x. split.
  - intros [y [Hy Hyx]]. apply H in Hy. destruct Hy as [Huy _]. eapply reach_trans; eassumption.
  - intro Hx. exists u. split; [apply H; apply mutual_refl|exact Hx].
Qed.

Lemma card_of_ext (P Q : node -> Prop) k : (forall x, P x <-> Q x) -> card_of P k -> card_of Q k.
Proof.
  intros H [l [N [Hl L]]]. exists l. split; [exact N|]. split; [|exact L]. intro x. rewrite Hl. apply H.
Qed.

Lemma estimator_formula g : wfg g -> gnodes g <> [] ->
  exists L, sccs g = Ok L /\ largest L <> [] /\
  forall k j c u, nth_error (largest L) k = Some c -> nth_error c j = Some u ->
    (* c is a strongly connected component and none is larger *)
    is_scc g c /\ (forall c', is_scc g c' -> c' <> [] -> (length c' <= length c)%nat) /\
    exists a b,
      estimate_from_dir_perc g k j = Ok (frac a (length (gnodes g)), frac b (length (gnodes g))) /\
      card_of (fun x => In x (gnodes g) /\ exists y, In y c /\ fwd g x y) a /\
      card_of (fun x => exists y, In y c /\ fwd g y x) b /\
      (0 <= frac a (length (gnodes g)) /\ frac a (length (gnodes g)) <= 1) /\
      (0 <= frac b (length (gnodes g)) /\ frac b (length (gnodes g)) <= 1).
Proof.
  intros W Hne. destruct (sccs_spec g W) as [L [EL [H1 [H2 H3]]]].
  exists L. split; [exact EL|].
  assert (HL : L <> []) by (intro E; apply Hne; apply H3; exact E).
  split; [apply largest_nonempty; exact HL|].
  intros k j c u Hk Hj.
  pose proof (nth_error_In _ _ Hk) as HcIn. apply largest_spec in HcIn. destruct HcIn as [HcL Hmax].
  pose proof (H1 c HcL) as Hscc. pose proof (nth_error_In _ _ Hj) as Huc.
  split; [exact Hscc|]. split.
  - intros c' Hc' Hne'. destruct c' as [|x t]; [contradiction|].
    pose proof Hc' as [N' [I' S']]. destruct (H2 x (I' x (or_introl eq_refl))) as [c'' [Hc''L Hx]].
    rewrite (is_scc_length g W (x :: t) c'' Hc' (H1 c'' Hc''L)); [apply Hmax; exact Hc''L|].
    exists x. split; [left; reflexivity|exact Hx].
  - destruct Hscc as [Nc [Ic [w [Hw Hcw]]]].
    assert (Hu : In u (gnodes g)) by (apply Ic; exact Huc).
    assert (Hcu : forall x, In x c <-> mutual g u x).
    { intro x. rewrite Hcw. apply Hcw in Huc. split; intro M.
      - eapply mutual_trans; [apply mutual_sym; exact Huc|exact M].
      - eapply mutual_trans; [exact Huc|exact M]. }
    destruct (est_at_spec g W u Hu) as [a [b [E [Ca [Cb [La Lb]]]]]].
    assert (Hpos : (0 < length (gnodes g))%nat) by (destruct (gnodes g); [contradiction|cbn; lia]).
    exists a, b. split.
    + unfold estimate_from_dir_perc. rewrite EL. cbn [rbind]. destruct L as [|c0 L0]; [contradiction|].
      rewrite Hk, Hj. exact E.
    + split.
      * eapply card_of_ext; [|exact Ca]. intro x. cbv beta. split; intros [A B]; (split; [exact A|]);
          apply (to_component g c u Hcu x); exact B.
      * split; [eapply card_of_ext; [|exact Cb]; intro x; symmetry; apply (from_component g c u Hcu x)|].
        split; apply frac_01; assumption.
Qed.

(* a graph without nodes: max() of an empty sequence *)
Lemma estimator_empty g : gnodes g = [] -> forall k j, estimate_from_dir_perc g k j = Err ValueErr.
Proof.
  intros E k j. unfold estimate_from_dir_perc, sccs. rewrite E. reflexivity.
Qed.
