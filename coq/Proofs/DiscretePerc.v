(* percolation_based_discrete_SIR under arbitrary rules: every reachable result is the result
   of discrete_SIR on a percolated graph H (same nodes, edges among those examined, i.e. the
   edges of G) with the rule H.has_edge; so C04 / C05 / C09 carry over, for every draw script. *)
From EoNV Require Import Prelude Samp Graph Discrete DiscreteP SampP DiscreteChk DiscreteRun DiscreteRunS DiscreteTop DiscreteC04 DiscreteC05 DiscreteHist DiscreteC09.
From EoNV Require Gillespie GillespieP InvestigationP.
From Coq Require Import Permutation.

Lemma perc_loop_reach : forall R es kept q r, reach (perc_loop R es kept q) r ->
  forall e, In e (fst r) -> In e kept \/ In e es.
Proof.
  intros R es. induction es as [|[u v] es IH]; intros kept q r H e He; cbn [perc_loop] in H.
  - apply reach_ret_inv in H. subst r. left. exact He.
  - apply reach_bind in H. destruct H as [b [_ H]]. destruct (IH _ _ _ H e He) as [K|K].
    + destruct b; [|left; exact K]. apply in_app_or in K. destruct K as [K|[K|[]]]; [left; exact K|right; left; exact K].
    + right. right. exact K.
Qed.

Lemma subsetb_intro : forall a b, (forall v, In v a -> In v b) -> subsetb a b = true.
Proof. intros a b H. unfold subsetb. apply forallb_forall. intros x Hx. apply dmem_In. apply H. exact Hx. Qed.

Lemma wf_inputb_intro : forall g i0 r0,
  NoDup (gnodes g) -> (forall u v, In u (gnodes g) -> In v (gadj g u) -> In v (gnodes g)) ->
  (forall v, In v i0 -> In v (gnodes g)) -> (forall v, In v r0 -> In v (gnodes g)) ->
  NoDup i0 -> NoDup r0 -> (forall v, In v i0 -> ~ In v r0) -> wf_inputb g i0 r0 = true.
Proof.
  intros g i0 r0 H1 H2 H3 H4 H5 H6 H7. unfold wf_inputb. repeat (apply andb_true_iff; split).
  - apply NoDup_nodupb. exact H1.
  - apply forallb_forall. intros u Hu. apply subsetb_intro. intros v Hv. apply (H2 u v Hu Hv).
  - apply NoDup_nodupb. exact H5.
  - apply NoDup_nodupb. exact H6.
  - apply subsetb_intro. exact H3.
  - apply subsetb_intro. exact H4.
  - apply forallb_forall. intros v Hv. apply negb_true_iff. apply dmem_false. apply H7. exact Hv.
Qed.

(* the arcs listed by G.edges() join nodes of G along its adjacency *)
Lemma gedges_sound : forall g a b, In (a, b) (gedges g) -> In a (gnodes g) /\ In b (gadj g a).
Proof.
  intros g a b H. unfold gedges in H. destruct (gdirected g).
  - apply contacts_In in H. exact H.
  - apply edges_from_sound in H. exact H.
Qed.

Lemma perc_wf : forall g kept i0 r0, wf_inputb g i0 r0 = true -> (forall e, In e kept -> In e (gedges g)) ->
  wf_inputb (perc_graph g kept) i0 r0 = true.
Proof.
  intros g kept i0 r0 Hwf Hk. destruct (wf_input_props g i0 r0 Hwf) as [Hnd [Hadj [Hi0 [Hr0 [Hi0nd [Hr0nd Hdisj]]]]]].
  apply wf_inputb_intro; try assumption.
  intros u v Hu Hv. cbn [perc_graph gnodes gadj] in *. apply perc_adj_In in Hv. destruct Hv as [Hv|Hv].
  - apply Hk in Hv. apply gedges_sound in Hv. destruct Hv as [A B]. apply (Hadj u v A B).
  - apply Hk in Hv. apply gedges_sound in Hv. apply Hv.
Qed.

(* on an undirected (symmetric) G the edges of H are edges of G *)
Lemma perc_edges_sub : forall g kept, sym_graphb g = true -> (forall e, In e kept -> In e (gedges g)) ->
  forall u v, In v (gadj (perc_graph g kept) u) -> In v (gadj g u).
Proof.
  intros g kept Hs Hk u v Hv. cbn [perc_graph gadj] in Hv. apply perc_adj_In in Hv.
  unfold sym_graphb in Hs. apply andb_true_iff in Hs. destruct Hs as [_ Hs]. rewrite forallb_forall in Hs.
  destruct Hv as [Hv|Hv]; apply Hk in Hv; apply gedges_sound in Hv; destruct Hv as [A B]; [exact B|].
  specialize (Hs v A). cbv beta in Hs. rewrite forallb_forall in Hs. apply dmem_In. apply Hs. exact B.
Qed.

(* the decomposition *)
Theorem psir_is_dsir_on_percolated : forall g R ord i0 r0o rho tmin tmax full fuel out,
  reach (percolation_based_discrete_SIR_R g R ord i0 r0o rho tmin tmax full fuel) out ->
  exists kept ql o, (forall e, In e kept -> In e (gedges g)) /\
    reach (discrete_SIR (perc_graph g kept) (has_edge_rules (perc_graph g kept) R) None ord i0 r0o rho tmin tmax full fuel) o /\
    out = add_qlog ql o.
Proof.
  intros g R ord i0 r0o rho tmin tmax full fuel out H. unfold percolation_based_discrete_SIR_R, percolate_network_R in H.
  apply reach_bind in H. destruct H as [[h q] [Hh H]]. apply reach_bind in Hh. destruct Hh as [[kept q'] [Hp Hh]].
  apply reach_ret_inv in Hh. injection Hh as E1 E2. subst h q. cbn [fst snd] in *.
  apply reach_bind in H. destruct H as [o [Ho H]]. apply reach_ret_inv in H.
  exists kept, q', o. split; [|split; [exact Ho|symmetry; exact H]].
  intros e He. destruct (perc_loop_reach R _ _ _ _ Hp e He) as [[]|K]. exact K.
Qed.

Lemma has_edge_pick_sound : forall h R, pick_sound R -> pick_sound (has_edge_rules h R).
Proof. intros h R H k v c s Hs. exact (H k v c s Hs). Qed.

(* C04 / C05: the rows *)
Theorem psir_rows_accepted : forall g R ord i0 r0o tmin tmax full fuel ds out tr,
  wf_inputb g i0 (opt_list r0o) = true -> perm_oracle ord -> (full = true -> pick_sound R) ->
  exec (percolation_based_discrete_SIR_R g R ord (Some i0) r0o None tmin tmax full fuel) ds [] = (Ok out, tr) ->
  dwf_rowsb true true g tmin tmax (so_rows (o_sim out)) = true /\
  exists rest, so_rows (o_sim out) = (tmin, row0_of true g i0 (opt_list r0o)) :: rest.
Proof.
  intros g R ord i0 r0o tmin tmax full fuel ds out tr Hwf Hord Hpick H. apply exec_reach in H.
  destruct (psir_is_dsir_on_percolated _ _ _ _ _ _ _ _ _ _ _ H) as [kept [ql [o [Hk [Ho Eo]]]]]. subst out. cbn [add_qlog o_sim].
  pose proof (perc_wf g kept i0 _ Hwf Hk) as Hwf'.
  assert (Hp' : full = true -> pick_sound (has_edge_rules (perc_graph g kept) R)) by (intro Hf; apply has_edge_pick_sound; apply Hpick; exact Hf).
  destruct (dsir_run _ _ _ _ _ _ _ _ _ _ _ Hwf' Hord Hp' Ho) as [K [t [st [rows [hl [tl [Hrun [Hstop [Er _]]]]]]]]].
  split.
  - rewrite Er. exact (drun_rows_accepted _ _ _ _ _ _ _ _ _ _ _ _ _ _ Hrun Hstop).
  - destruct (drun_first _ _ _ _ _ _ _ _ _ _ _ _ _ _ Hrun) as [rest E]. exists rest.
    rewrite Er, E, (init_status_counts _ i0 _ Hwf'). reflexivity.
Qed.

(* C09: the transmissions, in lock-step with a run on H; H's edges are edges of G *)
Theorem psir_tx_lockstep : forall g R ord i0 r0o tmin tmax fuel ds out tr,
  wf_inputb g i0 (opt_list r0o) = true -> perm_oracle ord -> pick_sound R -> whole_steps tmin tmax ->
  exec (percolation_based_discrete_SIR_R g R ord (Some i0) r0o None tmin tmax true fuel) ds [] = (Ok out, tr) ->
  exists kept fd sq K pre, so_full (o_sim out) = Some fd /\ (forall e, In e kept -> In e (gedges g)) /\
    tx_lockstep (perc_graph g kept) kSIR true tmin i0 (opt_list r0o) (so_rows (o_sim out)) (fd_hist fd) (fd_trans fd) sq K pre /\
    dtx_okb true (perc_graph g kept) i0 tmin (fd_hist fd) (fd_trans fd) = true /\
    dinit_okb true g i0 (opt_list r0o) tmin (so_rows (o_sim out)) (Some (fd_hist fd)) = true.
Proof.
  intros g R ord i0 r0o tmin tmax fuel ds out tr Hwf Hord Hpick Hw H. apply exec_reach in H.
  destruct (psir_is_dsir_on_percolated _ _ _ _ _ _ _ _ _ _ _ H) as [kept [ql [o [Hk [Ho Eo]]]]]. subst out. cbn [add_qlog o_sim].
  pose proof (perc_wf g kept i0 _ Hwf Hk) as Hwf'.
  destruct (wf_input_props _ i0 _ Hwf') as [Hnd [Hadj [Hi0 [Hr0 [Hi0nd [Hr0nd Hdisj]]]]]].
  destruct (dsir_run _ _ _ _ _ _ _ _ _ _ _ Hwf' Hord (fun _ => has_edge_pick_sound _ R Hpick) Ho) as [K [t [st [rows [hl [tl [Hrun [_ [Er Ef]]]]]]]]].
  destruct (drun_lockstep _ _ _ _ _ _ _ _ _ _ _ _ _ Hw Hrun) as [sq [pre L]].
  exists kept. eexists. exists sq, K, pre. split; [exact Ef|]. split; [exact Hk|]. cbn [fd_hist fd_trans]. split; [rewrite Er; exact L|].
  split; [apply (drun_tx_accepted (perc_graph g kept) kSIR true tmin tmax i0 (opt_list r0o) Hw Hi0 Hi0nd Hdisj K t st rows hl tl Hrun)|].
  rewrite Er. exact (drun_init_accepted (perc_graph g kept) true tmin tmax true i0 (opt_list r0o) _ K t st rows hl tl Hwf' Hw Hrun).
Qed.

(* the checker is monotone in the edge set: accepted on H, hence on G when H's edges are G's *)
Lemma dtx_okb_mono : forall sir h g i0 tmin hs txs, gnodes h = gnodes g ->
  (forall u v, In v (gadj h u) -> In v (gadj g u)) ->
  dtx_okb sir h i0 tmin hs txs = true -> dtx_okb sir g i0 tmin hs txs = true.
Proof.
  intros sir h g i0 tmin hs txs En Hsub H. unfold dtx_okb in *. rewrite En in H.
  apply andb_true_iff in H. destruct H as [H H6]. apply andb_true_iff in H. destruct H as [H H5].
  apply andb_true_iff in H. destruct H as [H H4]. rewrite H, H5, H6, !andb_true_r. cbn [andb].
  rewrite forallb_forall in H4. apply forallb_forall. intros e He. specialize (H4 e He).
  unfold dentry_okb in *. rewrite En in H4. destruct (tx_s e) as [u|]; [|reflexivity].
  destruct (mem u (gnodes g)); [|discriminate]. cbn [andb] in *.
  destruct (mem (tx_v e) (gadj h u)) eqn:M; [|discriminate]. apply dmem_In in M. apply Hsub in M. apply dmem_In in M. rewrite M. exact H4.
Qed.

Theorem psir_tx_accepted : forall g R ord i0 r0o tmin tmax fuel ds out tr,
  wf_inputb g i0 (opt_list r0o) = true -> sym_graphb g = true -> perm_oracle ord -> pick_sound R -> whole_steps tmin tmax ->
  exec (percolation_based_discrete_SIR_R g R ord (Some i0) r0o None tmin tmax true fuel) ds [] = (Ok out, tr) ->
  exists fd, so_full (o_sim out) = Some fd /\ dtx_okb true g i0 tmin (fd_hist fd) (fd_trans fd) = true /\
    dinit_okb true g i0 (opt_list r0o) tmin (so_rows (o_sim out)) (Some (fd_hist fd)) = true.
Proof.
  intros g R ord i0 r0o tmin tmax fuel ds out tr Hwf Hs Hord Hpick Hw H.
  destruct (psir_tx_lockstep _ _ _ _ _ _ _ _ _ _ _ Hwf Hord Hpick Hw H) as [kept [fd [sq [K [pre [Ef [Hk [_ [Hacc Hinit]]]]]]]]].
  exists fd. split; [exact Ef|]. split.
  - apply (dtx_okb_mono true (perc_graph g kept) g); [reflexivity|apply perc_edges_sub; assumption|exact Hacc].
  - exact Hinit.
Qed.

(* ---------------- runs without initial_infecteds (rho, or the default single node) ---------------- *)
(* the sampled set is duplicate-free, inside the graph and disjoint from initial_recovereds (the random
   index nodes are drawn among the nodes that are not initially recovered), so a run that returns is in
   the domain of the theorems: its rows pass the C04 checker and row 0 is (N - n - |R0|, n, |R0|) with
   n = int(round(N * rho)), or 1 when rho is not given (rho and initial_recovereds are never both given:
   that is rejected) *)
Theorem dsir_sampled_rows_accepted : forall g R trec ord r0o rho tmin tmax full fuel out,
  NoDup (gnodes g) -> (forall u v, In u (gnodes g) -> In v (gadj g u) -> In v (gnodes g)) ->
  NoDup (opt_list r0o) -> (forall v, In v (opt_list r0o) -> In v (gnodes g)) ->
  perm_oracle ord -> (full = true -> pick_sound R) ->
  reach (discrete_SIR g R trec ord None r0o rho tmin tmax full fuel) out ->
  let n := match rho with None => 1%Z | Some r => d_round_half_even (Qnat (length (gnodes g)) * r) end in
  (rho = None \/ r0o = None) /\
  dwf_rowsb true (onestep_of trec) g tmin tmax (so_rows (o_sim out)) = true /\
  exists rest, so_rows (o_sim out) = (tmin, [(order g - n - lenZ (opt_list r0o))%Z; n; lenZ (opt_list r0o)]) :: rest.
Proof.
  intros g R trec ord r0o rho tmin tmax full fuel out Hnd Hadj Hr0nd Hr0 Hord Hpick H. cbv zeta.
  destruct (dsir_rho g R trec ord r0o rho tmin tmax full fuel out Hnd H) as [Hcase [Hn [i0 [Hi0nd [Hi0 [Hdisj [Hlen Hr]]]]]]].
  split; [exact Hcase|].
  assert (Hwf : wf_inputb g i0 (opt_list r0o) = true) by (apply wf_inputb_intro; assumption).
  destruct (dsir_run _ _ _ _ _ _ _ _ _ _ _ Hwf Hord Hpick Hr) as [K [t [st [rows [hl [tl [Hrun [Hstop [Er _]]]]]]]]].
  split.
  - rewrite Er. exact (drun_rows_accepted _ _ _ _ _ _ _ _ _ _ _ _ _ _ Hrun Hstop).
  - destruct (drun_first _ _ _ _ _ _ _ _ _ _ _ _ _ _ Hrun) as [rest E]. exists rest.
    rewrite Er, E, (init_status_counts _ i0 _ Hwf). unfold row0_of.
    assert (El : lenZ i0 = match rho with None => 1%Z | Some r => d_round_half_even (Qnat (length (gnodes g)) * r) end) by exact Hlen.
    rewrite El. reflexivity.
Qed.

(* the same through the percolation wrapper *)
Theorem psir_sampled_rows_accepted : forall g R ord r0o rho tmin tmax full fuel out,
  NoDup (gnodes g) -> (forall u v, In u (gnodes g) -> In v (gadj g u) -> In v (gnodes g)) ->
  NoDup (opt_list r0o) -> (forall v, In v (opt_list r0o) -> In v (gnodes g)) ->
  perm_oracle ord -> (full = true -> pick_sound R) ->
  reach (percolation_based_discrete_SIR_R g R ord None r0o rho tmin tmax full fuel) out ->
  let n := match rho with None => 1%Z | Some r => d_round_half_even (Qnat (length (gnodes g)) * r) end in
  (rho = None \/ r0o = None) /\
  dwf_rowsb true true g tmin tmax (so_rows (o_sim out)) = true /\
  exists rest, so_rows (o_sim out) = (tmin, [(order g - n - lenZ (opt_list r0o))%Z; n; lenZ (opt_list r0o)]) :: rest.
Proof.
  intros g R ord r0o rho tmin tmax full fuel out Hnd Hadj Hr0nd Hr0 Hord Hpick H.
  destruct (psir_is_dsir_on_percolated _ _ _ _ _ _ _ _ _ _ _ H) as [kept [ql [o [Hk [Ho Eo]]]]]. subst out. cbn [add_qlog o_sim].
  assert (HadjH : forall u v, In u (gnodes (perc_graph g kept)) -> In v (gadj (perc_graph g kept) u) -> In v (gnodes (perc_graph g kept))).
  { intros u v Hu Hv. cbn [perc_graph gnodes gadj] in *. apply perc_adj_In in Hv. destruct Hv as [Hv|Hv].
    - apply Hk in Hv. apply gedges_sound in Hv. destruct Hv as [A B]. apply (Hadj u v A B).
    - apply Hk in Hv. apply gedges_sound in Hv. apply Hv. }
  exact (dsir_sampled_rows_accepted (perc_graph g kept) (has_edge_rules (perc_graph g kept) R) None ord r0o rho tmin tmax full fuel o
           Hnd HadjH Hr0nd Hr0 Hord (fun Hf => has_edge_pick_sound _ R (Hpick Hf)) Ho).
Qed.

(* percolation_based_discrete_SIR with both rho and initial_infecteds: the network is percolated
   first (the coins are consumed), then discrete_SIR raises EoNError: no result is reachable, and
   the only reachable failures are EoNError or a failure of the rule itself *)
Theorem psir_both_rejected : forall g R ord i0 r0o rho tmin tmax full fuel,
  (forall out, ~ reach (percolation_based_discrete_SIR_R g R ord (Some i0) r0o (Some rho) tmin tmax full fuel) out) /\
  (forall e, reach_err (percolation_based_discrete_SIR_R g R ord (Some i0) r0o (Some rho) tmin tmax full fuel) e ->
     e = EoNError \/ exists es kept q, reach_err (perc_loop R es kept q) e).
Proof.
  intros g R ord i0 r0o rho tmin tmax full fuel. unfold percolation_based_discrete_SIR_R, percolate_network_R. split.
  - intros out H. apply reach_bind in H. destruct H as [hq [_ H]]. apply reach_bind in H. destruct H as [o [Ho _]].
    rewrite dsir_both_rejected in Ho. inversion Ho.
  - intros e H. apply reach_err_bind in H. destruct H as [H|[hq [_ H]]].
    + apply reach_err_bind in H. destruct H as [H|[kq [_ H]]]; [right; eexists; eexists; eexists; exact H|inversion H].
    + apply reach_err_bind in H. destruct H as [H|[o [Ho _]]].
      * rewrite dsir_both_rejected in H. inversion H. left. reflexivity.
      * rewrite dsir_both_rejected in Ho. inversion Ho.
Qed.

(* ... and rho together with initial_recovereds: percolate_network has already drawn its coins (one
   test per edge of G) when discrete_SIR raises EoNError *)
Theorem psir_rho_r0_rejected : forall g R ord i0o r0 rho tmin tmax full fuel,
  percolation_based_discrete_SIR_R g R ord i0o (Some r0) (Some rho) tmin tmax full fuel =
    bind (percolate_network_R g R) (fun _ => Fail EoNError) /\
  (forall out, ~ reach (percolation_based_discrete_SIR_R g R ord i0o (Some r0) (Some rho) tmin tmax full fuel) out) /\
  (forall e, reach_err (percolation_based_discrete_SIR_R g R ord i0o (Some r0) (Some rho) tmin tmax full fuel) e ->
     e = EoNError \/ exists es kept q, reach_err (perc_loop R es kept q) e).
Proof.
  intros g R ord i0o r0 rho tmin tmax full fuel. unfold percolation_based_discrete_SIR_R. split; [reflexivity|]. split.
  - intros out H. apply reach_bind in H. destruct H as [hq [_ H]]. cbn [discrete_SIR bind] in H. inversion H.
  - intros e H. apply reach_err_bind in H. destruct H as [H|[hq [_ H]]].
    + unfold percolate_network_R in H. apply reach_err_bind in H. destruct H as [H|[kq [_ H]]]; [right; eexists; eexists; eexists; exact H|inversion H].
    + cbn [discrete_SIR bind] in H. inversion H. left. reflexivity.
Qed.
