(* _ListDict_ under rounded arithmetic (Model/ListDictF.v): structure of the
   operations and the arithmetic of one rounded step.  The history theorems are
   in ListDictFP2.v. *)
From EoNV Require Import Prelude Samp ListDict ListDictP ListDictF.
From Coq Require Import Qabs Lqa Permutation.

(* ---------- absolute values ---------- *)
Lemma Qabs_bound : forall x y, Qabs x <= y <-> - y <= x /\ x <= y.
Proof. intros x y. apply Qabs_Qle_condition. Qed.

Lemma Qabs_nonneg' : forall x, 0 <= Qabs x.
Proof. intro x. apply Qabs_nonneg. Qed.

Lemma Qabs_of_nonneg : forall x, 0 <= x -> Qabs x == x.
Proof. intros x H. apply Qabs_pos. exact H. Qed.

Lemma Qabs_le_sum3 : forall a b c, Qabs (a + b + c) <= Qabs a + Qabs b + Qabs c.
Proof.
  intros a b c. eapply Qle_trans; [apply Qabs_triangle|].
  pose proof (Qabs_triangle a b). lra.
Qed.

Lemma Qmult_le_nonneg_l : forall e a b, 0 <= e -> a <= b -> e * a <= e * b.
Proof.
  intros e a b He Hab. rewrite (Qmult_comm e a), (Qmult_comm e b).
  apply Qmult_le_compat_r; assumption.
Qed.

(* ---------- powers of 1 + eps ---------- *)
Lemma qpow_ge1 : forall x n, 1 <= x -> 1 <= qpow x n.
Proof.
  intros x n H. induction n as [|n IH]; cbn [qpow]; [lra|].
  assert (H1 : 1 * 1 <= x * qpow x n).
  { apply Qmult_le_compat_nonneg; split; lra. }
  lra.
Qed.

Lemma qpow_add : forall x n m, qpow x (n + m) == qpow x n * qpow x m.
Proof.
  intros x n m. induction n as [|n IH]; cbn [qpow Nat.add]; [ring|]. rewrite IH. ring.
Qed.

Lemma qpow_mono : forall x n m, 1 <= x -> (n <= m)%nat -> qpow x n <= qpow x m.
Proof.
  intros x n m Hx Hnm. replace m with (n + (m - n))%nat by lia. rewrite qpow_add.
  pose proof (qpow_ge1 x (m - n) Hx) as H1. pose proof (qpow_ge1 x n Hx) as H2.
  assert (H : qpow x n * 1 <= qpow x n * qpow x (m - n)).
  { apply Qmult_le_nonneg_l; lra. }
  lra.
Qed.

(* ---------- sums of non-negative terms ---------- *)
Lemma sumQ_map_nonneg : forall (A : Type) (f : A -> Q) l,
  (forall x, In x l -> 0 <= f x) -> 0 <= sumQ (map f l).
Proof.
  intros A f l H. apply sumQ_nonneg. intros y Hy. apply in_map_iff in Hy.
  destruct Hy as [x [E Hx]]. subst y. apply H. exact Hx.
Qed.

Lemma sumQ_map_term_le : forall (A : Type) (f : A -> Q) l a,
  (forall x, In x l -> 0 <= f x) -> In a l -> f a <= sumQ (map f l).
Proof.
  intros A f. induction l as [|h l IH]; intros a Hnn Hin; [destruct Hin|].
  cbn [map]. rewrite sumQ_cons.
  assert (Hl : 0 <= sumQ (map f l)).
  { apply sumQ_map_nonneg. intros x Hx. apply Hnn. right. exact Hx. }
  destruct Hin as [E|Hin].
  - subst h. lra.
  - pose proof (IH a (fun x Hx => Hnn x (or_intror Hx)) Hin) as H1.
    pose proof (Hnn h (or_introl eq_refl)) as H2. lra.
Qed.

(* ========================================================================= *)
Section FP.
Variable K : Type.
Variable Keqb : K -> K -> bool.
Hypothesis Keqb_spec : forall a b, reflect (a = b) (Keqb a b).
Variable rnd : Q -> Q.
Variable eps : Q.
Hypothesis eps_nonneg : 0 <= eps.
Hypothesis eps_le1 : eps <= 1.
Hypothesis rnd_err : forall x, Qabs (rnd x - x) <= eps * Qabs x.

Notation ld := (ld K).
Notation op := (op K).
Notation fupd := (fupd K Keqb).
Notation wread := (wread K).
Notation contains := (contains K).
Notation wsum := (wsum K).
Notation drift := (drift K).
Notation ldf_update := (ldf_update K Keqb rnd).
Notation ldf_remove := (ldf_remove K Keqb rnd).
Notation ldf_insert := (ldf_insert K Keqb rnd).
Notation ldf_step := (ldf_step K Keqb rnd).
Notation ldf_run := (ldf_run K Keqb rnd).
Notation fadd := (fadd rnd).
Notation fsub := (fsub rnd).

Definition g (n : nat) : Q := qpow (1 + eps) n.
Definition gam (n : nat) : Q := g n - 1.

Lemma g_ge1 : forall n, 1 <= g n.
Proof. intro n. apply qpow_ge1. lra. Qed.
Lemma g_S : forall n, g (S n) == (1 + eps) * g n.
Proof. intro n. reflexivity. Qed.
Lemma g_add : forall n m, g (n + m) == g n * g m.
Proof. intros n m. apply qpow_add. Qed.
Lemma g_mono : forall n m, (n <= m)%nat -> g n <= g m.
Proof. intros n m H. apply qpow_mono; [lra|exact H]. Qed.
Lemma gam_nonneg : forall n, 0 <= gam n.
Proof. intro n. unfold gam. pose proof (g_ge1 n). lra. Qed.
Lemma gam_mono : forall n m, (n <= m)%nat -> gam n <= gam m.
Proof. intros n m H. unfold gam. pose proof (g_mono n m H). lra. Qed.

(* ---------- one rounding ---------- *)
Lemma rnd_bounds : forall x, - (eps * Qabs x) <= rnd x - x /\ rnd x - x <= eps * Qabs x.
Proof. intro x. apply Qabs_bound. apply rnd_err. Qed.

Lemma rnd_nonneg : forall x, 0 <= x -> 0 <= rnd x.
Proof.
  intros x Hx. destruct (rnd_bounds x) as [H1 _]. rewrite (Qabs_of_nonneg x Hx) in H1.
  assert (H : eps * x <= 1 * x) by (apply Qmult_le_compat_r; assumption). lra.
Qed.

Lemma rnd_le : forall x, 0 <= x -> rnd x <= (1 + eps) * x.
Proof.
  intros x Hx. destruct (rnd_bounds x) as [_ H1]. rewrite (Qabs_of_nonneg x Hx) in H1. lra.
Qed.

Lemma rnd_ge : forall x, 0 <= x -> (1 - eps) * x <= rnd x.
Proof.
  intros x Hx. destruct (rnd_bounds x) as [H1 _]. rewrite (Qabs_of_nonneg x Hx) in H1. lra.
Qed.

Lemma rnd_zero : rnd 0 == 0.
Proof.
  destruct (rnd_bounds 0) as [H1 H2]. change (Qabs 0) with 0 in *. lra.
Qed.

(* |rnd x - x| <= eps * m whenever |x| <= m *)
Lemma rnd_err_le : forall x m, Qabs x <= m -> Qabs (rnd x - x) <= eps * m.
Proof.
  intros x m H. eapply Qle_trans; [apply rnd_err|]. apply Qmult_le_nonneg_l; assumption.
Qed.

(* ---------- the arithmetic of one step of the running total ---------- *)
(* update: T' = rnd (T + d), the stored weight becomes rnd (w0 + d) *)
Lemma drift_step_update : forall T S w0 d,
  0 <= S -> 0 <= d -> 0 <= w0 -> w0 <= S ->
  Qabs (rnd (T + d) - (S - w0 + rnd (w0 + d)))
    <= (1 + eps) * Qabs (T - S) + eps * (2 * (S + d)).
Proof.
  intros T S w0 d HS Hd Hw0 Hw0S.
  assert (Ha : Qabs (rnd (T + d) - (T + d)) <= eps * (Qabs (T - S) + (S + d))).
  { apply rnd_err_le. setoid_replace (T + d) with ((T - S) + (S + d)) by ring.
    eapply Qle_trans; [apply Qabs_triangle|]. rewrite (Qabs_of_nonneg (S + d)) by lra. lra. }
  assert (Hb : Qabs (rnd (w0 + d) - (w0 + d)) <= eps * (w0 + d)).
  { apply rnd_err_le. rewrite Qabs_of_nonneg by lra. lra. }
  apply Qabs_bound in Ha. apply Qabs_bound in Hb.
  assert (Hc : eps * (w0 + d) <= eps * (S + d)) by (apply Qmult_le_nonneg_l; lra).
  pose proof (Qabs_nonneg' (T - S)) as HD0.
  assert (HD : - Qabs (T - S) <= T - S /\ T - S <= Qabs (T - S)).
  { apply Qabs_bound. lra. }
  apply Qabs_bound. split; lra.
Qed.

(* remove: T' = rnd (T - w) *)
Lemma drift_step_remove : forall T S w,
  0 <= w -> w <= S ->
  Qabs (rnd (T - w) - (S - w)) <= (1 + eps) * Qabs (T - S) + eps * S.
Proof.
  intros T S w Hw HwS.
  assert (Ha : Qabs (rnd (T - w) - (T - w)) <= eps * (Qabs (T - S) + (S - w))).
  { apply rnd_err_le. setoid_replace (T - w) with ((T - S) + (S - w)) by ring.
    eapply Qle_trans; [apply Qabs_triangle|]. rewrite (Qabs_of_nonneg (S - w)) by lra. lra. }
  apply Qabs_bound in Ha.
  assert (Hc : eps * (S - w) <= eps * S) by (apply Qmult_le_nonneg_l; lra).
  pose proof (Qabs_nonneg' (T - S)) as HD0.
  assert (HD : - Qabs (T - S) <= T - S /\ T - S <= Qabs (T - S)).
  { apply Qabs_bound. lra. }
  apply Qabs_bound. split; lra.
Qed.

(* the stored sum grows by at most a factor 1 + eps per update *)
Lemma wsum_step_update : forall S w0 d,
  0 <= d -> 0 <= w0 -> w0 <= S ->
  0 <= S - w0 + rnd (w0 + d) /\ S - w0 + rnd (w0 + d) <= (1 + eps) * (S + d).
Proof.
  intros S w0 d Hd Hw0 Hw0S.
  pose proof (rnd_nonneg (w0 + d)) as H1. pose proof (rnd_le (w0 + d)) as H2.
  assert (Hc : eps * (w0 + d) <= eps * (S + d)) by (apply Qmult_le_nonneg_l; lra).
  split; lra.
Qed.

(* ========================================================================= *)
(* ---------- structural invariant of the rounded structure ---------- *)
Record ldf_inv (s : ld) : Prop := {
  finv_nodup : NoDup (items s);
  finv_pos : forall k i, pos s k = Some i <-> nth_error (items s) i = Some k;
  finv_dom : weighted s = true -> forall k, (wt s k <> None <-> In k (items s));
  finv_nonneg : weighted s = true -> forall k w, wt s k = Some w -> 0 <= w
}.

(* the same items and positions seen as an unweighted exact structure: the
   structural lemmas of ListDictP.v apply to it *)
Definition struct_of (s : ld) : ld :=
  mkLD false (items s) (pos s) (wt s) (maxw s) (maxc s) (total s).

Lemma struct_inv : forall s, ldf_inv s -> ld_inv K (struct_of s).
Proof.
  intros s H. constructor; cbn [struct_of items pos weighted];
    try (intro Hf; discriminate Hf).
  - apply (finv_nodup s H).
  - apply (finv_pos s H).
Qed.

Lemma ldf_empty_inv : forall w, ldf_inv (ld_empty w).
Proof.
  intro w. constructor; cbn [ld_empty items pos wt weighted].
  - constructor.
  - intros k i. split; intro H; [discriminate H|]. destruct i; discriminate H.
  - intros _ k. split; intro H; [contradiction H; reflexivity|destruct H].
  - intros _ k q H. discriminate H.
Qed.

Lemma fcontains_true : forall s k, ldf_inv s -> (contains s k = true <-> In k (items s)).
Proof. intros s k H. apply (contains_true K (struct_of s) k (struct_inv s H)). Qed.

Lemma fcontains_false : forall s k, ldf_inv s -> (contains s k = false <-> ~ In k (items s)).
Proof. intros s k H. apply (contains_false K (struct_of s) k (struct_inv s H)). Qed.

Lemma fwread_notin : forall s k, ldf_inv s -> weighted s = true ->
  ~ In k (items s) -> wread s k = 0.
Proof.
  intros s k Hinv Hw Hn. unfold ListDict.wread.
  destruct (wt s k) as [w|] eqn:E; [|reflexivity].
  exfalso. apply Hn. apply (finv_dom s Hinv Hw). congruence.
Qed.

Lemma fwread_nonneg : forall s k, ldf_inv s -> weighted s = true -> 0 <= wread s k.
Proof.
  intros s k Hinv Hw. unfold ListDict.wread.
  destruct (wt s k) as [w|] eqn:E; [|lra].
  apply (finv_nonneg s Hinv Hw k). exact E.
Qed.

Lemma wsum_nonneg : forall s, ldf_inv s -> weighted s = true -> 0 <= wsum s.
Proof.
  intros s Hinv Hw. unfold ListDictF.wsum. apply sumQ_map_nonneg.
  intros x _. apply fwread_nonneg; assumption.
Qed.

Lemma fwread_le_wsum : forall s k, ldf_inv s -> weighted s = true -> wread s k <= wsum s.
Proof.
  intros s k Hinv Hw. destruct (fcontains_true s k Hinv) as [_ H1].
  destruct (contains s k) eqn:Hc.
  - unfold ListDictF.wsum. apply sumQ_map_term_le.
    + intros x _. apply fwread_nonneg; assumption.
    + apply (fcontains_true s k Hinv). exact Hc.
  - rewrite (fwread_notin s k Hinv Hw).
    + apply wsum_nonneg; assumption.
    + apply (fcontains_false s k Hinv). exact Hc.
Qed.


(* ---------- update(item, weight_increment) ---------- *)
Lemma ldf_update_eq : forall s k d, weighted s = true ->
  exists mw mc, ldf_update s k (Some d) =
  Ok (mkLD true (if contains s k then items s else items s ++ [k])
        (if contains s k then pos s else fupd (pos s) k (Some (length (items s))))
        (fupd (wt s) k (Some (fadd (wread s k) d)))
        mw mc (fadd (total s) d)).
Proof.
  intros s k d Hw. unfold ListDictF.ldf_update. rewrite Hw. cbv zeta. cbn [negb].
  match goal with |- context [let '(a, b) := ?X in _] => destruct X as [mw mc] end.
  exists mw, mc. destruct (contains s k); reflexivity.
Qed.

Lemma ldf_update_spec : forall s k d, ldf_inv s -> weighted s = true -> 0 <= d ->
  exists s', ldf_update s k (Some d) = Ok s' /\ ldf_inv s' /\ weighted s' = true /\
    total s' = fadd (total s) d /\
    wsum s' == wsum s - wread s k + fadd (wread s k) d /\
    (forall x, wread s' x = if Keqb x k then fadd (wread s k) d else wread s x) /\
    (forall x, In x (items s') <-> In x (items s) \/ x = k).
Proof.
  intros s k d Hinv Hw Hd.
  destruct (ldf_update_eq s k d Hw) as [mw [mc He]].
  eexists. split; [exact He|]. clear He.
  pose proof (fwread_nonneg s k Hinv Hw) as Hw0.
  assert (Hw1 : 0 <= fadd (wread s k) d) by (apply rnd_nonneg; lra).
  set (w1 := fadd (wread s k) d) in *.
  assert (Hnn : forall x v, fupd (wt s) k (Some w1) x = Some v -> 0 <= v).
  { intros x v. unfold ListDict.fupd. destruct (Keqb x k).
    - intro H. injection H as H. subst v. exact Hw1.
    - apply (finv_nonneg s Hinv Hw). }
  assert (Hwr : forall its p m c t x, wread (mkLD true its p (fupd (wt s) k (Some w1)) m c t) x
        = if Keqb x k then w1 else wread s x).
  { intros its p m c t x. unfold ListDict.wread. cbn [wt]. unfold ListDict.fupd.
    destruct (Keqb x k); reflexivity. }
  destruct (contains s k) eqn:Hc.
  - assert (Hin : In k (items s)) by (apply (fcontains_true s k Hinv); exact Hc).
    split; [|split; [reflexivity|split; [reflexivity|split; [|split]]]].
    + constructor; cbn [items pos wt weighted].
      * apply (finv_nodup s Hinv).
      * apply (finv_pos s Hinv).
      * intros _ x. unfold ListDict.fupd. destruct (Keqb_spec x k) as [E|E].
        -- subst x. split; [intros _; exact Hin|intros _ H; discriminate H].
        -- apply (finv_dom s Hinv Hw).
      * intros _. exact Hnn.
    + unfold ListDictF.wsum. cbn [items].
      rewrite (sumQ_map_ext_in K _ (fun x => if Keqb x k then w1 else wread s x))
        by (intros x _; rewrite Hwr; reflexivity).
      apply (sumQ_upd_in K Keqb Keqb_spec (wread s) k w1 (items s) (finv_nodup s Hinv) Hin).
    + intro x. apply Hwr.
    + intro x. cbn [items]. split; [intro H; left; exact H|].
      intros [H|H]; [exact H|subst x; exact Hin].
  - assert (Hnin : ~ In k (items s)) by (apply (fcontains_false s k Hinv); exact Hc).
    pose proof (fwread_notin s k Hinv Hw Hnin) as Hwk.
    split; [|split; [reflexivity|split; [reflexivity|split; [|split]]]].
    + constructor; cbn [items pos wt weighted].
      * apply NoDup_snoc. split; [apply (finv_nodup s Hinv)|exact Hnin].
      * apply (append_pos K Keqb Keqb_spec); [apply (finv_pos s Hinv)|exact Hnin].
      * intros _ x. rewrite in_app_iff. unfold ListDict.fupd.
        destruct (Keqb_spec x k) as [E|E].
        -- subst x. split; [intros _; right; left; reflexivity|intros _ H; discriminate H].
        -- rewrite (finv_dom s Hinv Hw x). split.
           ++ intro H. left. exact H.
           ++ intros [H|[H|[]]]; [exact H|]. exfalso. apply E. symmetry. exact H.
      * intros _. exact Hnn.
    + unfold ListDictF.wsum. cbn [items]. rewrite map_app, sumQ_app. cbn [map].
      rewrite Hwr, (Keqb_refl K Keqb Keqb_spec).
      rewrite (sumQ_map_ext_in K _ (fun x => if Keqb x k then w1 else wread s x))
        by (intros x _; rewrite Hwr; reflexivity).
      rewrite (sumQ_upd_notin K Keqb Keqb_spec (wread s) k w1 (items s) Hnin).
      unfold sumQ at 2. cbn [fold_right]. rewrite Hwk. ring.
    + intro x. apply Hwr.
    + intro x. cbn [items]. rewrite in_app_iff. split.
      * intros [H|[H|[]]]; [left; exact H|right; symmetry; exact H].
      * intros [H|H]; [left; exact H|right; left; symmetry; exact H].
Qed.

(* ---------- remove(choice) ---------- *)
Definition frm_tail (s : ld) (k : K) (its1 : list K) (pos1 : K -> option nat) : result ld :=
  if weighted s then
    match wt s k with
    | None => Err KeyErr
    | Some w =>
      let wt1 := fupd (wt s) k None in
      let tot := match its1 with [] => 0 | _ => fsub (total s) w end in
      if Qeqb w (maxw s) then
        let mc := (maxc s - 1)%Z in
        if Z.eqb mc 0 && negb (Nat.eqb (length its1) 0) then
          let '(m, c) := recompute_max K s its1 wt1 in
          Ok (mkLD true its1 pos1 wt1 m c tot)
        else Ok (mkLD true its1 pos1 wt1 (maxw s) mc tot)
      else Ok (mkLD true its1 pos1 wt1 (maxw s) (maxc s) tot)
    end
  else Ok (mkLD false its1 pos1 (wt s) (maxw s) (maxc s) (total s)).

Lemma ldf_remove_eq : forall s k,
  ldf_remove s k =
  match pos s k with
  | None => Err KeyErr
  | Some p =>
    match rev (items s) with
    | [] => Err IndexErr
    | last :: rest_rev =>
      let '(its1, pos1) := rm_lp K Keqb (struct_of s) k p last rest_rev in frm_tail s k its1 pos1
    end
  end.
Proof. reflexivity. Qed.

Lemma frm_tail_weighted : forall s k its1 pos1 w, weighted s = true -> wt s k = Some w ->
  exists m c, frm_tail s k its1 pos1 =
    Ok (mkLD true its1 pos1 (fupd (wt s) k None) m c
          (match its1 with [] => 0 | _ => fsub (total s) w end)).
Proof.
  intros s k its1 pos1 w Hw Hk. unfold frm_tail. rewrite Hw, Hk. cbv zeta.
  destruct (Qeqb w (maxw s)).
  - destruct ((maxc s - 1 =? 0)%Z && negb (Nat.eqb (length its1) 0)).
    + destruct (recompute_max K s its1 (fupd (wt s) k None)) as [m c].
      exists m, c. reflexivity.
    + eexists. eexists. reflexivity.
  - eexists. eexists. reflexivity.
Qed.

Lemma ldf_remove_spec : forall s k, ldf_inv s -> weighted s = true ->
  (pos s k = None /\ ldf_remove s k = Err KeyErr) \/
  (In k (items s) /\
   exists s', ldf_remove s k = Ok s' /\ ldf_inv s' /\ weighted s' = true /\
     total s' = match items s' with [] => 0 | _ => fsub (total s) (wread s k) end /\
     wsum s' == wsum s - wread s k /\
     (forall x, wread s' x = if Keqb x k then 0 else wread s x) /\
     (forall x, In x (items s') <-> In x (items s) /\ x <> k)).
Proof.
  intros s k Hinv Hw. rewrite ldf_remove_eq. destruct (pos s k) as [p|] eqn:Hp.
  2:{ left. split; reflexivity. }
  right.
  assert (Hin : In k (items s)).
  { apply nth_error_In with p. apply (finv_pos s Hinv). exact Hp. }
  split; [exact Hin|].
  destruct (rev (items s)) as [|last rest_rev] eqn:Hr.
  { exfalso. rewrite <- (rev_involutive (items s)), Hr in Hin. destruct Hin. }
  destruct (rm_lp K Keqb (struct_of s) k p last rest_rev) as [its1 pos1] eqn:Hlp.
  destruct (rm_lp_spec K Keqb Keqb_spec (struct_of s) k p last rest_rev its1 pos1
              (struct_inv s Hinv) Hp Hr Hlp) as [Hperm Hpos1].
  cbn [struct_of items] in Hperm.
  destruct (wt s k) as [w|] eqn:Hwk.
  2:{ exfalso. apply (finv_dom s Hinv Hw k) in Hin. contradiction. }
  destruct (frm_tail_weighted s k its1 pos1 w Hw Hwk) as [m [c He]].
  eexists. split; [exact He|]. clear He.
  assert (Hwrk : wread s k = w) by (unfold ListDict.wread; rewrite Hwk; reflexivity).
  assert (Hnd : NoDup (k :: its1)).
  { apply (Permutation_NoDup (l := items s)).
    - apply Permutation_sym. exact Hperm.
    - apply (finv_nodup s Hinv). }
  inversion Hnd as [|k' l' Hk1 Hnd1]; subst k' l'.
  assert (Hmem : forall x, In x its1 <-> (In x (items s) /\ x <> k)).
  { intro x. split.
    - intro H. split.
      + apply (Permutation_in x Hperm). right. exact H.
      + intro E. subst x. contradiction.
    - intros [H E]. apply (Permutation_in x (Permutation_sym Hperm)) in H.
      destruct H as [H|H]; [|exact H]. exfalso. apply E. symmetry. exact H. }
  assert (Hwr : forall t x, wread (mkLD true its1 pos1 (fupd (wt s) k None) m c t) x
                 = if Keqb x k then 0 else wread s x).
  { intros t x. unfold ListDict.wread. cbn [wt]. unfold ListDict.fupd.
    destruct (Keqb x k); reflexivity. }
  split; [|split; [reflexivity|split; [|split; [|split]]]].
  - constructor; cbn [items pos wt weighted].
    + exact Hnd1.
    + exact Hpos1.
    + intros _ x. rewrite Hmem. unfold ListDict.fupd.
      destruct (Keqb_spec x k) as [E|E].
      * split; [intro H; contradiction H; reflexivity|intros [_ H]; contradiction].
      * rewrite (finv_dom s Hinv Hw x). split.
        -- intro H. split; [exact H|exact E].
        -- intros [H _]. exact H.
    + intros _ x v. unfold ListDict.fupd. destruct (Keqb x k).
      * intro H. discriminate H.
      * apply (finv_nonneg s Hinv Hw).
  - cbn [items total]. rewrite Hwrk. reflexivity.
  - unfold ListDictF.wsum. cbn [items].
    rewrite (sumQ_map_ext_in K _ (wread s) its1).
    + rewrite <- (sumQ_map_perm K (wread s) _ _ Hperm). cbn [map]. rewrite sumQ_cons. ring.
    + intros x Hx. rewrite Hwr. destruct (Keqb_spec x k) as [E|E]; [|reflexivity].
      subst x. contradiction.
  - intro x. apply Hwr.
  - intro x. cbn [items]. apply Hmem.
Qed.


(* ========================================================================= *)
(* ---------- one rounded sub-step in terms of states ---------- *)
Lemma drift_unfold : forall s, drift s = total s - wsum s.
Proof. reflexivity. Qed.

Lemma upd_sub : forall s k d s', ldf_inv s -> weighted s = true -> 0 <= d ->
  total s' = fadd (total s) d ->
  wsum s' == wsum s - wread s k + fadd (wread s k) d ->
  Qabs (drift s') <= (1 + eps) * Qabs (drift s) + eps * (2 * (wsum s + d)) /\
  0 <= wsum s' /\ wsum s' <= (1 + eps) * (wsum s + d).
Proof.
  intros s k d s' Hinv Hw Hd Ht Hs.
  pose proof (wsum_nonneg s Hinv Hw) as HS. pose proof (fwread_nonneg s k Hinv Hw) as Hw0.
  pose proof (fwread_le_wsum s k Hinv Hw) as Hw0S.
  split.
  - rewrite !drift_unfold, Ht, Hs. unfold ListDictF.fadd.
    apply drift_step_update; assumption.
  - rewrite Hs. unfold ListDictF.fadd. apply wsum_step_update; assumption.
Qed.

Lemma rem_sub : forall s k s', ldf_inv s -> weighted s = true ->
  total s' = match items s' with [] => 0 | _ => fsub (total s) (wread s k) end ->
  wsum s' == wsum s - wread s k ->
  Qabs (drift s') <= (1 + eps) * Qabs (drift s) + eps * wsum s /\
  0 <= wsum s' /\ wsum s' <= wsum s.
Proof.
  intros s k s' Hinv Hw Ht Hs.
  pose proof (wsum_nonneg s Hinv Hw) as HS. pose proof (fwread_nonneg s k Hinv Hw) as Hw0.
  pose proof (fwread_le_wsum s k Hinv Hw) as Hw0S.
  split; [|rewrite Hs; split; lra].
  destruct (items s') as [|y l] eqn:Hi.
  - (* emptied: the total is reset, no drift is left *)
    assert (H0 : drift s' == 0).
    { rewrite drift_unfold, Ht. unfold ListDictF.wsum. rewrite Hi. reflexivity. }
    rewrite H0. change (Qabs 0) with 0.
    pose proof (Qabs_nonneg' (drift s)) as HD.
    assert (H1 : 0 <= eps * wsum s) by (apply Qmult_le_0_compat; assumption).
    assert (H2 : 0 <= (1 + eps) * Qabs (drift s)) by (apply Qmult_le_0_compat; lra).
    lra.
  - rewrite !drift_unfold, Ht, Hs. unfold ListDictF.fsub.
    apply drift_step_remove; assumption.
Qed.

(* a sub-step with magnitude c <= C advances the bound gam j * C to gam (S j) * C *)
Lemma sub_comb : forall D D' c C j,
  D' <= (1 + eps) * D + eps * c -> c <= C -> D <= gam j * C -> D' <= gam (S j) * C.
Proof.
  intros D D' c C j H1 H2 H3.
  assert (E : gam (S j) * C == (1 + eps) * (gam j * C) + eps * C).
  { unfold gam. rewrite g_S. ring. }
  assert (H4 : (1 + eps) * D <= (1 + eps) * (gam j * C)) by (apply Qmult_le_nonneg_l; lra).
  assert (H5 : eps * c <= eps * C) by (apply Qmult_le_nonneg_l; assumption).
  rewrite E. lra.
Qed.

Lemma gam_le_C : forall j j' D C, 0 <= C -> (j <= j')%nat -> D <= gam j * C -> D <= gam j' * C.
Proof.
  intros j j' D C HC Hj H. eapply Qle_trans; [exact H|].
  apply Qmult_le_compat_r; [apply gam_mono; exact Hj|exact HC].
Qed.

(* ---------- one operation of a history ---------- *)
Definition reset_ok (s : ld) : Prop := items s = [] -> total s = 0.

Lemma ldf_step_spec : forall s o, ldf_inv s -> weighted s = true -> op_ok K true o ->
  (exists k, o = OpRemove k /\ pos s k = None /\ ldf_step s o = Err KeyErr) \/
  (exists s', ldf_step s o = Ok s' /\ ldf_inv s' /\ weighted s' = true /\
     (reset_ok s -> reset_ok s') /\
     0 <= wsum s' /\ wsum s' <= (1 + eps) * (wsum s + hist_weight K o) /\
     forall j C, 0 <= C -> Qabs (drift s) <= gam j * C ->
       2 * (wsum s + hist_weight K o) <= C ->
       Qabs (drift s') <= gam (j + hist_cost K o) * C).
Proof.
  intros s o Hinv Hw Hok.
  pose proof (wsum_nonneg s Hinv Hw) as HS.
  destruct o as [k q|k d|k|k]; cbn [op_ok] in Hok;
    cbn [ListDictF.ldf_step ListDictF.hist_weight ListDictF.hist_cost].
  - (* insert *)
    destruct Hok as [_ Hq]. right. unfold ListDictF.ldf_insert.
    assert (H1 : exists s1, (if contains s k then ldf_remove s k else Ok s) = Ok s1 /\
       ldf_inv s1 /\ weighted s1 = true /\ (reset_ok s -> reset_ok s1) /\
       0 <= wsum s1 /\ wsum s1 <= wsum s /\
       forall j C, 0 <= C -> Qabs (drift s) <= gam j * C -> 2 * (wsum s + q) <= C ->
         Qabs (drift s1) <= gam (S j) * C).
    { destruct (contains s k) eqn:Hc.
      - destruct (ldf_remove_spec s k Hinv Hw)
          as [[Hp _]|[_ [s1 [He [Hi [Hw1 [Ht [Hs [_ _]]]]]]]]].
        + destruct (contains_pos_some K s k Hc) as [i Hi]. congruence.
        + destruct (rem_sub s k s1 Hinv Hw Ht Hs) as [Hd [Hs0 Hs1]].
          exists s1. split; [exact He|]. split; [exact Hi|]. split; [exact Hw1|].
          split; [|split; [exact Hs0|split; [exact Hs1|]]].
          * intros _ Hnil. rewrite Ht, Hnil. reflexivity.
          * intros j C HC HD Hm.
            apply (sub_comb (Qabs (drift s)) _ (wsum s) C j Hd); [lra|exact HD].
      - exists s. split; [reflexivity|]. split; [exact Hinv|]. split; [exact Hw|].
        split; [tauto|]. split; [exact HS|]. split; [lra|].
        intros j C HC HD Hm. apply (gam_le_C j (S j) _ C HC); [lia|exact HD]. }
    destruct H1 as [s1 [He [Hi [Hw1 [Hr1 [Hs0 [Hs1 Hd1]]]]]]]. rewrite He. cbn [rbind].
    destruct (Qeqb q 0) eqn:Hq0.
    + exists s1. split; [reflexivity|]. split; [exact Hi|]. split; [exact Hw1|].
      split; [exact Hr1|]. split; [exact Hs0|]. split.
      * assert (H : 0 <= eps * (wsum s + q)) by (apply Qmult_le_0_compat; lra). lra.
      * intros j C HC HD Hm. apply (gam_le_C (S j) (j + 2) _ C HC); [lia|].
        apply Hd1; assumption.
    + destruct (ldf_update_spec s1 k q Hi Hw1 Hq) as [s2 [He2 [Hi2 [Hw2 [Ht2 [Hs2 [_ Hm2]]]]]]].
      destruct (upd_sub s1 k q s2 Hi Hw1 Hq Ht2 Hs2) as [Hd2 [Hs20 Hs21]].
      exists s2. split; [exact He2|]. split; [exact Hi2|]. split; [exact Hw2|].
      split; [|split; [exact Hs20|split]].
      * intros _ Hnil. exfalso. assert (H : In k (items s2)) by (apply Hm2; right; reflexivity).
        rewrite Hnil in H. destruct H.
      * eapply Qle_trans; [exact Hs21|]. apply Qmult_le_nonneg_l; lra.
      * intros j C HC HD Hm. replace (j + 2)%nat with (S (S j)) by lia.
        apply (sub_comb (Qabs (drift s1)) _ (2 * (wsum s1 + q)) C (S j) Hd2); [lra|].
        apply Hd1; assumption.
  - (* update *)
    destruct Hok as [_ Hd]. right.
    destruct (ldf_update_spec s k d Hinv Hw Hd) as [s2 [He2 [Hi2 [Hw2 [Ht2 [Hs2 [_ Hm2]]]]]]].
    destruct (upd_sub s k d s2 Hinv Hw Hd Ht2 Hs2) as [Hd2 [Hs20 Hs21]].
    exists s2. split; [exact He2|]. split; [exact Hi2|]. split; [exact Hw2|].
    split; [|split; [exact Hs20|split; [exact Hs21|]]].
    + intros _ Hnil. exfalso. assert (H : In k (items s2)) by (apply Hm2; right; reflexivity).
      rewrite Hnil in H. destruct H.
    + intros j C HC HD Hm. replace (j + 1)%nat with (S j) by lia.
      apply (sub_comb (Qabs (drift s)) _ (2 * (wsum s + d)) C j Hd2); [lra|exact HD].
  - (* remove *)
    destruct (ldf_remove_spec s k Hinv Hw) as [[Hp He]|[_ [s1 [He [Hi [Hw1 [Ht [Hs [_ _]]]]]]]]].
    + left. exists k. split; [reflexivity|]. split; assumption.
    + right. destruct (rem_sub s k s1 Hinv Hw Ht Hs) as [Hd [Hs0 Hs1]].
      exists s1. split; [exact He|]. split; [exact Hi|]. split; [exact Hw1|].
      split; [|split; [exact Hs0|split]].
      * intros _ Hnil. rewrite Ht, Hnil. reflexivity.
      * assert (H : 0 <= eps * (wsum s + 0)) by (apply Qmult_le_0_compat; lra). lra.
      * intros j C HC HD Hm. replace (j + 1)%nat with (S j) by lia.
        apply (sub_comb (Qabs (drift s)) _ (wsum s) C j Hd); [lra|exact HD].
  - discriminate Hok.
Qed.


(* ========================================================================= *)
(* ---------- histories ---------- *)
Notation hist_total := (hist_total K).
Notation hist_count := (hist_count K).
Notation ldf_peak := (ldf_peak K Keqb rnd).

Lemma hist_weight_nonneg : forall o, op_ok K true o -> 0 <= hist_weight K o.
Proof. intros [k q|k d|k|k] H; cbn [op_ok ListDictF.hist_weight] in *; try lra; tauto. Qed.

Lemma hist_total_nonneg : forall ops, Forall (op_ok K true) ops -> 0 <= hist_total ops.
Proof.
  intros ops H. unfold ListDictF.hist_total. apply sumQ_map_nonneg. intros o Ho.
  apply hist_weight_nonneg. rewrite Forall_forall in H. apply H. exact Ho.
Qed.

Lemma hist_cost_pos : forall o, op_ok K true o -> (1 <= hist_cost K o)%nat.
Proof. intros [k q|k d|k|k] H; cbn [op_ok ListDictF.hist_cost] in *; try lia; discriminate H. Qed.

Lemma qmax_lub : forall a b c, a <= c -> b <= c -> qmax a b <= c.
Proof. intros a b c Ha Hb. unfold qmax. destruct (Qltb a b); assumption. Qed.

(* every reachable state keeps the structural invariant and the reset property *)
Lemma ldf_run_inv : forall ops s s', ldf_inv s -> weighted s = true -> reset_ok s ->
  Forall (op_ok K true) ops -> ldf_run s ops = Ok s' ->
  ldf_inv s' /\ weighted s' = true /\ reset_ok s'.
Proof.
  induction ops as [|o ops IH]; intros s s' Hinv Hw Hr Hok He.
  - cbn [ListDictF.ldf_run] in He. injection He as He. subst s'. split; [exact Hinv|split; [exact Hw|exact Hr]].
  - cbn [ListDictF.ldf_run] in He. inversion Hok as [|o' ops' Ho Hops]; subst o' ops'.
    destruct (ldf_step_spec s o Hinv Hw Ho) as [[k [_ [_ E]]]|[s1 [E [Hi [Hw1 [Hr1 _]]]]]];
      rewrite E in He; cbn [rbind] in He; [discriminate He|].
    apply (IH s1 s' Hi Hw1 (Hr1 Hr) Hops He).
Qed.

(* the only failure is the removal of an absent key, exactly as for exact arithmetic *)
Lemma ldf_step_fails : forall s o e, ldf_inv s -> weighted s = true -> op_ok K true o ->
  ldf_step s o = Err e -> exists k, o = OpRemove k /\ pos s k = None /\ e = KeyErr.
Proof.
  intros s o e Hinv Hw Ho He.
  destruct (ldf_step_spec s o Hinv Hw Ho) as [[k [Ek [Hp E]]]|[s1 [E _]]].
  - exists k. split; [exact Ek|]. split; [exact Hp|]. congruence.
  - congruence.
Qed.

(* drift against the peak magnitude of the run *)
Lemma drift_le_peak : forall ops s s' j C, ldf_inv s -> weighted s = true ->
  Forall (op_ok K true) ops -> ldf_run s ops = Ok s' ->
  0 <= C -> Qabs (drift s) <= gam j * C -> 2 * ldf_peak s ops <= C ->
  Qabs (drift s') <= gam (j + hist_count ops) * C.
Proof.
  induction ops as [|o ops IH]; intros s s' j C Hinv Hw Hok He HC HD HP.
  - cbn [ListDictF.ldf_run] in He. injection He as He. subst s'.
    cbn [ListDictF.hist_count fold_right]. rewrite Nat.add_0_r. exact HD.
  - cbn [ListDictF.ldf_run] in He. inversion Hok as [|o' ops' Ho Hops]; subst o' ops'.
    cbn [ListDictF.ldf_peak] in HP. cbv zeta in HP.
    destruct (ldf_step_spec s o Hinv Hw Ho) as [[k [_ [_ E]]]|[s1 [E [Hi [Hw1 [_ [_ [_ Hd]]]]]]]];
      rewrite E in He; cbn [rbind] in He; [discriminate He|].
    rewrite E in HP.
    pose proof (qmax_l (wsum s + hist_weight K o) (ldf_peak s1 ops)) as Hm1.
    pose proof (qmax_r (wsum s + hist_weight K o) (ldf_peak s1 ops)) as Hm2.
    assert (E2 : (j + hist_count (o :: ops))%nat = (j + hist_cost K o + hist_count ops)%nat).
    { unfold ListDictF.hist_count. cbn [fold_right]. lia. }
    rewrite E2. apply (IH s1 s' (j + hist_cost K o)%nat C Hi Hw1 Hops He HC).
    + apply Hd; [exact HC|exact HD|lra].
    + lra.
Qed.

(* the peak against the weights the history ever handed in *)
Lemma peak_le_hist : forall ops s j A, ldf_inv s -> weighted s = true ->
  Forall (op_ok K true) ops -> 0 <= A -> wsum s <= g j * A ->
  ldf_peak s ops <= g (j + hist_count ops) * (A + hist_total ops).
Proof.
  induction ops as [|o ops IH]; intros s j A Hinv Hw Hok HA HS.
  - cbn [ListDictF.ldf_peak]. pose proof (g_ge1 (j + hist_count [])).
    apply Qmult_le_0_compat; [lra|]. unfold ListDictF.hist_total. cbn [map sumQ fold_right]. lra.
  - inversion Hok as [|o' ops' Ho Hops]; subst o' ops'.
    pose proof (hist_weight_nonneg o Ho) as Hh. pose proof (hist_total_nonneg ops Hops) as Ht.
    pose proof (hist_cost_pos o Ho) as Hc.
    assert (Et : hist_total (o :: ops) == hist_weight K o + hist_total ops).
    { unfold ListDictF.hist_total. cbn [map]. rewrite sumQ_cons. reflexivity. }
    assert (E2 : (j + hist_count (o :: ops))%nat = (j + hist_cost K o + hist_count ops)%nat).
    { unfold ListDictF.hist_count. cbn [fold_right]. lia. }
    pose proof (g_ge1 j) as Hg1.
    (* the magnitude of this operation *)
    assert (Hm : wsum s + hist_weight K o <= g j * (A + hist_weight K o)).
    { assert (H : 1 * hist_weight K o <= g j * hist_weight K o)
        by (apply Qmult_le_compat_r; assumption). lra. }
    assert (Hmono : forall i, (j <= i)%nat ->
              g j * (A + hist_weight K o) <= g i * (A + hist_weight K o + hist_total ops)).
    { intros i Hi. pose proof (g_mono j i Hi) as H1. pose proof (g_ge1 i) as H2.
      eapply Qle_trans; [apply (Qmult_le_compat_r _ _ (A + hist_weight K o) H1); lra|].
      apply Qmult_le_nonneg_l; lra. }
    assert (Hfin : wsum s + hist_weight K o <=
                   g (j + hist_count (o :: ops)) * (A + hist_total (o :: ops))).
    { rewrite Et. eapply Qle_trans; [exact Hm|].
      setoid_replace (A + (hist_weight K o + hist_total ops))
        with (A + hist_weight K o + hist_total ops) by ring.
      apply Hmono. lia. }
    cbn [ListDictF.ldf_peak]. cbv zeta.
    destruct (ldf_step_spec s o Hinv Hw Ho) as [[k [_ [_ E]]]|[s1 [E [Hi [Hw1 [_ [Hs0 [Hs1 _]]]]]]]];
      rewrite E; [exact Hfin|].
    apply qmax_lub; [exact Hfin|].
    rewrite E2, Et.
    setoid_replace (A + (hist_weight K o + hist_total ops))
      with (A + hist_weight K o + hist_total ops) by ring.
    apply (IH s1 (j + hist_cost K o)%nat (A + hist_weight K o) Hi Hw1 Hops); [lra|].
    eapply Qle_trans; [exact Hs1|].
    assert (H1 : (1 + eps) * (wsum s + hist_weight K o)
                 <= (1 + eps) * (g j * (A + hist_weight K o)))
      by (apply Qmult_le_nonneg_l; lra).
    eapply Qle_trans; [exact H1|].
    rewrite Qmult_assoc, <- g_S.
    apply Qmult_le_compat_r; [apply g_mono; lia|lra].
Qed.

(* ---------- from the empty structure ---------- *)
Lemma drift_empty : drift (ld_empty true) == 0.
Proof. reflexivity. Qed.

Theorem ldf_drift_peak : forall ops s,
  Forall (op_ok K true) ops -> ldf_run (ld_empty true) ops = Ok s ->
  Qabs (drift s) <= gam (hist_count ops) * (2 * ldf_peak (ld_empty true) ops).
Proof.
  intros ops s Hok He.
  assert (HP : 0 <= ldf_peak (ld_empty true) ops).
  { destruct ops as [|o ops]; cbn [ListDictF.ldf_peak]; [lra|]. cbv zeta.
    inversion Hok as [|o' ops' Ho Hops]; subst o' ops'.
    pose proof (hist_weight_nonneg o Ho) as Hh.
    assert (H0 : 0 <= wsum (ld_empty true) + hist_weight K o).
    { unfold ListDictF.wsum. cbn [ld_empty items map sumQ fold_right]. lra. }
    destruct (ListDictF.ldf_step K Keqb rnd (ld_empty true) o); [|exact H0].
    eapply Qle_trans; [exact H0|apply qmax_l]. }
  apply (drift_le_peak ops (ld_empty true) s 0 _ (ldf_empty_inv true) eq_refl Hok He).
  - lra.
  - rewrite drift_empty. change (Qabs 0) with 0. unfold gam, g. cbn [qpow]. lra.
  - lra.
Qed.

Theorem ldf_drift_hist : forall ops s,
  Forall (op_ok K true) ops -> ldf_run (ld_empty true) ops = Ok s ->
  Qabs (drift s) <= gam (hist_count ops) * (2 * (g (hist_count ops) * hist_total ops)).
Proof.
  intros ops s Hok He.
  eapply Qle_trans; [apply (ldf_drift_peak ops s Hok He)|].
  apply Qmult_le_nonneg_l; [apply gam_nonneg|].
  pose proof (peak_le_hist ops (ld_empty true) 0 0 (ldf_empty_inv true) eq_refl Hok) as H.
  cbn [Nat.add] in H.
  assert (H1 : ldf_peak (ld_empty true) ops <= g (hist_count ops) * (0 + hist_total ops)).
  { apply H; [lra|]. unfold ListDictF.wsum. cbn [ld_empty items map sumQ fold_right]. lra. }
  setoid_replace (0 + hist_total ops) with (hist_total ops) in H1 by ring. lra.
Qed.

(* an emptied structure carries no drift: the total is exactly 0 *)
Theorem ldf_empty_total_zero : forall ops s,
  Forall (op_ok K true) ops -> ldf_run (ld_empty true) ops = Ok s ->
  items s = [] -> total s = 0.
Proof.
  intros ops s Hok He.
  destruct (ldf_run_inv ops (ld_empty true) s (ldf_empty_inv true) eq_refl
              (fun _ => eq_refl) Hok He) as [_ [_ Hr]].
  exact Hr.
Qed.

End FP.
