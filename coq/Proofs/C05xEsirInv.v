(* C05, event-driven SIR with ANY provider of delays (the user's tables, fast_SIR's
   per-edge expovariate path, fast_SIR's binomial path): the run as a sequence of queue
   steps [gstep], each infection using SOME answer the provider can give.  Under the code's
   heap order (time, counter) the first |I0| steps are the infections of the initial nodes
   at tmin (phase 1: [Inv1]); after them the initial nodes are never susceptible again, the
   initially recovered nodes are never touched, and rows are only appended (phase 2:
   [Inv2]).  Needs of the provider: it answers with delays for susceptible neighbours only,
   and no delay or duration is negative ([okans]). *)
From EoNV Require Import Prelude Samp Graph EventSIR InitChk.
Require Import Lqa.

Definition outcome := (list (node * xtime) * xtime)%type.

Definition okans (sus : list node) (a : outcome) : Prop :=
  (forall v d, In (v, d) (fst a) -> In v sus /\ nonnegx d = true) /\ nonnegx (snd a) = true.

Section Steps.
Variable g : graph.
Variable tmin : Q.
Variable tmax : xtime.
Variable P : node -> list node -> outcome -> Prop.

Inductive gstep : est -> est -> Prop :=
| gs_rec : forall s e q' u, qu s = e :: q' -> qe e = ERec u ->
    gstep s (apply_rec (qt e) u (set_qu s q'))
| gs_skip : forall s e q' src tgt, qu s = e :: q' -> qe e = ETrans src tgt -> N.eqb (stat s tgt) stS = false ->
    gstep s (set_qu s q')
| gs_inf : forall s e q' src tgt a calls, qu s = e :: q' -> qe e = ETrans src tgt -> N.eqb (stat s tgt) stS = true ->
    P tgt (sus_nbrs g (fupdN (stat s) tgt stI) tgt) a ->
    gstep s (apply_inf fifo tmax (qt e) src tgt (fst a) (snd a) calls (set_qu s q')).

Inductive gsteps : est -> est -> Prop :=
| gss_refl : forall s, gsteps s s
| gss_step : forall s s1 s2, gstep s s1 -> gsteps s1 s2 -> gsteps s s2.

Hypothesis HP : forall u sus a, P u sus a -> okans sus a.

(* ---------------- the queue keeps a prefix of entries at tmin with small counters ---------------- *)
Definition early (c : nat) (h : qent) : Prop := qt h = tmin /\ (qc h < c)%nat.

Lemma qinsert_after : forall e pre rest, (forall h, In h pre -> goes_before fifo e h = false) ->
  qinsert fifo e (pre ++ rest) = pre ++ qinsert fifo e rest.
Proof.
  intros e. induction pre as [|h pre IH]; intros rest H; [reflexivity|]. cbn [app qinsert].
  rewrite (H h (or_introl eq_refl)). rewrite IH; [reflexivity|]. intros h' Hin. apply H. right. exact Hin.
Qed.

Lemma late_not_before : forall c t ev h, tmin <= t -> early c h -> goes_before fifo (mkQ t c ev) h = false.
Proof.
  intros c t ev h Ht [Hq Hc]. unfold goes_before. cbn [qt qc]. rewrite Hq.
  destruct (Qlt_le_dec t tmin) as [Hlt|Hge] eqn:E1; unfold Qltb; rewrite E1; [lra|].
  destruct (Qlt_le_dec tmin t); [reflexivity|]. unfold fifo. cbn [qc]. apply Nat.ltb_ge. lia.
Qed.

(* Q.add of an event at a time >= tmin *)
Lemma qadd_prefix : forall pre rest c t ev, (forall h, In h pre -> early c h) -> tmin <= t ->
  exists rest' c', qadd fifo tmax (Some t) ev (pre ++ rest, c) = (pre ++ rest', c') /\ (c <= c')%nat.
Proof.
  intros pre rest c t ev Hpre Ht. unfold qadd. destruct (xltb (Some t) tmax).
  - cbn [fst snd]. rewrite qinsert_after.
    + eexists. exists (S c). split; [reflexivity|lia].
    + intros h Hin. apply late_not_before; [exact Ht|apply Hpre; exact Hin].
  - exists rest, c. split; [reflexivity|lia].
Qed.

Lemma early_mono : forall c c' h, (c <= c')%nat -> early c h -> early c' h.
Proof. intros c c' h Hle [H1 H2]. split; [exact H1|lia]. Qed.

Lemma xadd_nonneg : forall t d x, nonnegx d = true -> xadd t d = Some x -> t <= x.
Proof.
  intros t [d|] x Hd H; cbn [xadd] in H; [|discriminate H]. injection H as <-. cbn [nonnegx] in Hd.
  unfold Qleb in Hd. destruct (Qlt_le_dec d 0); [discriminate Hd|lra].
Qed.

(* one iteration of `for v in trans_delay:` at time tmin' >= tmin *)
Lemma sched_one_prefix : forall time rt tgt pre rest c p v d,
  (forall h, In h pre -> early c h) -> tmin <= time -> nonnegx d = true ->
  exists rest' c' p', sched_one fifo tmax time rt tgt (pre ++ rest, c, p) (v, d) = (pre ++ rest', c', p') /\ (c <= c')%nat /\
    (forall u, u <> v -> p' u = p u) /\
    (time = tmin -> p v = Some (Some tmin) -> forall u, p' u = p u).
Proof.
  intros time rt tgt pre rest c p v d Hpre Ht Hd. unfold sched_one.
  destruct (xleb (xadd time d) rt); [|exists rest, c, p; repeat split; auto; lia].
  destruct (xltb (xadd time d) (pget p v) && xleb (xadd time d) tmax) eqn:Ec.
  - destruct (xadd time d) as [x|] eqn:Ex; [|cbn [xltb andb] in Ec; discriminate Ec].
    assert (Hx : tmin <= x) by (pose proof (xadd_nonneg time d x Hd Ex); lra).
    destruct (qadd_prefix pre rest c x (ETrans (Some tgt) v) Hpre Hx) as [rest' [c' [Hq Hc]]].
    rewrite Hq. exists rest', c', (fupdN p v (Some (Some x))). split; [reflexivity|]. split; [exact Hc|]. split.
    + intros u Hu. unfold fupdN. destruct (N.eqb u v) eqn:E; [apply N.eqb_eq in E; contradiction|reflexivity].
    + intros Htime Hpv. exfalso. apply andb_true_iff in Ec. destruct Ec as [Ec _]. unfold pget in Ec. rewrite Hpv in Ec.
      cbn [xltb] in Ec. unfold Qltb in Ec. destruct (Qlt_le_dec x tmin); [|discriminate Ec].
      subst time. pose proof (xadd_nonneg tmin d x Hd Ex). lra.
  - exists rest, c, (fupdN p v (Some (pget p v))). split; [reflexivity|]. split; [lia|]. split.
    + intros u Hu. unfold fupdN. destruct (N.eqb u v) eqn:E; [apply N.eqb_eq in E; contradiction|reflexivity].
    + intros _ Hpv u. unfold fupdN, pget. destruct (N.eqb u v) eqn:E; [|reflexivity]. apply N.eqb_eq in E. subst u. rewrite Hpv. reflexivity.
Qed.

Lemma fold_sched_prefix : forall time rt tgt td pre rest c p,
  (forall h, In h pre -> early c h) -> tmin <= time -> (forall v d, In (v, d) td -> nonnegx d = true) ->
  exists rest' c' p', fold_left (sched_one fifo tmax time rt tgt) td (pre ++ rest, c, p) = (pre ++ rest', c', p') /\ (c <= c')%nat /\
    (forall u, ~ In u (map fst td) -> p' u = p u) /\
    (time = tmin -> forall u, p u = Some (Some tmin) -> p' u = Some (Some tmin)).
Proof.
  intros time rt tgt. induction td as [|[v d] td IH]; intros pre rest c p Hpre Ht Hd; cbn [fold_left].
  - exists rest, c, p. repeat split; auto; lia.
  - destruct (sched_one_prefix time rt tgt pre rest c p v d Hpre Ht (Hd v d (or_introl eq_refl))) as [r1 [c1 [p1 [E1 [Hc1 [Hp1 Hq1]]]]]].
    rewrite E1.
    destruct (IH pre r1 c1 p1 (fun h Hin => early_mono c c1 h Hc1 (Hpre h Hin)) Ht (fun v' d' Hin => Hd v' d' (or_intror Hin)))
      as [r2 [c2 [p2 [E2 [Hc2 [Hp2 Hq2]]]]]].
    rewrite E2. exists r2, c2, p2. split; [reflexivity|]. split; [lia|]. split.
    + intros u Hu. cbn [map fst In] in Hu. rewrite Hp2 by tauto. apply Hp1. intro E. apply Hu. left. symmetry. exact E.
    + intros Htime u Hu. apply (Hq2 Htime). destruct (N.eq_dec u v) as [E|E].
      * subst u. rewrite (Hq1 Htime Hu v). exact Hu.
      * rewrite (Hp1 u E). exact Hu.
Qed.

(* `if status[target]=='S':` body, at a time >= tmin, the queue being pre ++ rest *)
Lemma apply_inf_prefix : forall time src tgt a calls s pre rest sus,
  okans sus a -> qu s = pre ++ rest -> (forall h, In h pre -> early (ctr s) h) -> tmin <= time ->
  let s' := apply_inf fifo tmax time src tgt (fst a) (snd a) calls s in
  (exists rest', qu s' = pre ++ rest') /\ (ctr s <= ctr s')%nat /\
  stat s' = fupdN (stat s) tgt stI /\ rect s' = fupdN (rect s) tgt (Some (xadd time (snd a))) /\
  rows s' = push_row (rows s) time (-1) 1 0 /\
  (forall u, ~ In u sus -> predt s' u = predt s u) /\
  (time = tmin -> forall u, predt s u = Some (Some tmin) -> predt s' u = Some (Some tmin)).
Proof.
  intros time src tgt a calls s pre rest sus [Htd Hrd] Hq Hpre Ht. cbv zeta. unfold apply_inf. rewrite Hq.
  assert (Hqc1 : exists r1 c1, (if xleb (xadd time (snd a)) tmax then qadd fifo tmax (xadd time (snd a)) (ERec tgt) (pre ++ rest, ctr s)
                               else (pre ++ rest, ctr s)) = (pre ++ r1, c1) /\ (ctr s <= c1)%nat).
  { destruct (xleb (xadd time (snd a)) tmax); [|exists rest, (ctr s); split; [reflexivity|lia]].
    destruct (xadd time (snd a)) as [x|] eqn:Ex; [|exists rest, (ctr s); split; [reflexivity|lia]].
    apply qadd_prefix; [exact Hpre|]. pose proof (xadd_nonneg time (snd a) x Hrd Ex). lra. }
  destruct Hqc1 as [r1 [c1 [E1 Hc1]]]. rewrite E1. cbn [fst snd].
  destruct (fold_sched_prefix time (xadd time (snd a)) tgt (fst a) pre r1 c1 (predt s)
              (fun h Hin => early_mono _ c1 h Hc1 (Hpre h Hin)) Ht (fun v d Hin => proj2 (Htd v d Hin)))
    as [r2 [c2 [p2 [E2 [Hc2 [Hp2 Hq2]]]]]].
  rewrite E2. cbn [qu ctr stat rect rows predt].
  split; [exists r2; reflexivity|]. split; [lia|]. split; [reflexivity|]. split; [reflexivity|]. split; [reflexivity|]. split.
  - intros u Hu. apply Hp2. intro Hin. apply Hu. apply in_map_iff in Hin. destruct Hin as [[v d] [Ev Hin]]. cbn [fst] in Ev. subst v.
    exact (proj1 (Htd u d Hin)).
  - exact Hq2.
Qed.

End Steps.
