(* C05 for the discrete-time simulators: row 0 and the first history entries are the request,
   initially recovered nodes never change, the checker [dinit_okb] accepts every run. *)
From EoNV Require Import Prelude Samp Graph Discrete DiscreteP SampP DiscreteChk DiscreteRun DiscreteRunS DiscreteTop DiscreteC04.
From EoNV Require Gillespie GillespieP InvestigationP.
From Coq Require Import Permutation Lqa.

(* the horizon is a whole number of steps after tmin (or infinite) *)
Definition whole_steps (tmin : Q) (tmax : xtime) : Prop :=
  match tmax with None => True | Some m => exists n : nat, m == tmin + inject_Z (Z.of_nat n) end.

Lemma drun_time : forall g kind os tmin tmax full st0 tl0 K t st rows hl tl,
  drun g kind os tmin tmax full st0 tl0 K t st rows hl tl -> t == tmin + inject_Z (Z.of_nat K).
Proof.
  intros g kind os tmin tmax full st0 tl0 K t st rows hl tl H.
  induction H as [st Hst Hok|k t st rows hl tl st' hnew tnew H IH].
  - cbn. ring.
  - rewrite IH, Nat2Z.inj_succ. unfold Z.succ. rewrite inject_Z_plus. ring.
Qed.

Lemma whole_steps_next : forall tmin tmax t (k : nat), whole_steps tmin tmax ->
  t == tmin + inject_Z (Z.of_nat k) -> xlt t tmax = true -> le_x (t + 1) tmax = true.
Proof.
  intros tmin tmax t k Hw Et Hlt. destruct tmax as [m|]; [|reflexivity].
  destruct Hw as [n En]. unfold xlt in Hlt. destruct (Qlt_le_dec t m) as [L|L]; [|discriminate].
  cbn [le_x]. apply InvestigationP.qleb_t. rewrite Et, En in L. apply (proj1 (Qplus_lt_r _ _ _)) in L.
  rewrite <- Zlt_Qlt in L. rewrite Et, En. rewrite <- Qplus_assoc. apply (proj2 (Qplus_le_r _ _ _)).
  change 1 with (inject_Z 1). rewrite <- inject_Z_plus, <- Zle_Qle. lia.
Qed.

(* an initially recovered node keeps status R and its history gets no further entry *)
Lemma drun_r0_quiet : forall g os tmin tmax st0 tl0 K t st rows hl tl, whole_steps tmin tmax ->
  drun g kSIR os tmin tmax true st0 tl0 K t st rows hl tl ->
  forall u, In u (gnodes g) -> st0 u = stR -> st u = stR /\ node_events u (rev hl) = [].
Proof.
  intros g os tmin tmax st0 tl0 K t st rows hl tl Hw H u Hu H0.
  induction H as [st Hst Hok|k t st rows hl tl st' hnew tnew H IH Hlt Hinf Hok Hstep Hh Ht].
  - split; [rewrite (Hst u Hu); exact H0|reflexivity].
  - destruct IH as [I1 I2].
    assert (E' : st' u = stR).
    { destruct (Hstep u Hu) as [[K1 _]|[[K1 _]|[_ K2]]]; [stc|stc|exact K2]. }
    split; [exact E'|]. rewrite rev_app_distr, node_events_app, I2.
    pose proof (drun_time _ _ _ _ _ _ _ _ _ _ _ _ _ _ H) as Et.
    rewrite (Hh eq_refl (whole_steps_next tmin tmax t k Hw Et Hlt) u Hu), I1, E'. reflexivity.
Qed.

Lemma assocN_map : forall (V : Type) (f : node -> V) l u, In u l -> assocN (map (fun v => (v, f v)) l) u = Some (f u).
Proof.
  intros V f l u. unfold assocN. induction l as [|x l IH]; intro H; [destruct H|].
  cbn [map find fst]. destruct (N.eqb_spec x u) as [E|E]; [subst x; reflexivity|].
  destruct H as [H|H]; [contradiction|]. apply IH. exact H.
Qed.

Lemma zeqb_list_refl : forall a, zeqb_list a a = true.
Proof. induction a as [|x a IH]; [reflexivity|]. cbn. rewrite Z.eqb_refl. exact IH. Qed.

Lemma zeqb_list_eq : forall a b, zeqb_list a b = true -> a = b.
Proof.
  induction a as [|x a IH]; intros [|y b] H; try discriminate; [reflexivity|].
  cbn in H. apply andb_true_iff in H. destruct H as [H1 H2]. apply Z.eqb_eq in H1. subst y. rewrite (IH b H2). reflexivity.
Qed.

(* ---------------- discrete_SIR ---------------- *)
Theorem dsir_row0 : forall g R trec ord i0 r0o tmin tmax full fuel ds out tr,
  wf_inputb g i0 (opt_list r0o) = true -> perm_oracle ord -> (full = true -> pick_sound R) ->
  exec (discrete_SIR g R trec ord (Some i0) r0o None tmin tmax full fuel) ds [] = (Ok out, tr) ->
  exists rest, so_rows (o_sim out) = (tmin, row0_of true g i0 (opt_list r0o)) :: rest.
Proof.
  intros g R trec ord i0 r0o tmin tmax full fuel ds out tr Hwf Hord Hpick H.
  destruct (dsir_exec_run _ _ _ _ _ _ _ _ _ _ _ _ _ Hwf Hord Hpick H) as [K [t [st [rows [hl [tl [Hrun [_ [Er _]]]]]]]]].
  destruct (drun_first _ _ _ _ _ _ _ _ _ _ _ _ _ _ Hrun) as [rest E]. exists rest.
  rewrite Er, E, (init_status_counts g i0 _ Hwf). reflexivity.
Qed.

Theorem dsir_hist0 : forall g R trec ord i0 r0o tmin tmax fuel ds out tr,
  wf_inputb g i0 (opt_list r0o) = true -> perm_oracle ord -> pick_sound R ->
  exec (discrete_SIR g R trec ord (Some i0) r0o None tmin tmax true fuel) ds [] = (Ok out, tr) ->
  exists fd, so_full (o_sim out) = Some fd /\ map fst (fd_hist fd) = gnodes g /\
    forall u, In u (gnodes g) -> exists evs,
      assocN (fd_hist fd) u = Some ((tmin, init_status i0 (opt_list r0o) u) :: evs) /\
      (whole_steps tmin tmax -> In u (opt_list r0o) -> evs = []).
Proof.
  intros g R trec ord i0 r0o tmin tmax fuel ds out tr Hwf Hord Hpick H.
  destruct (dsir_exec_run _ _ _ _ _ _ _ _ _ _ _ _ _ Hwf Hord (fun _ => Hpick) H) as [K [t [st [rows [hl [tl [Hrun [_ [_ Ef]]]]]]]]].
  eexists. split; [exact Ef|]. cbn [fd_hist]. unfold build_hist. split.
  - rewrite map_map. cbn [fst]. apply map_id.
  - intros u Hu. eexists. split; [apply (assocN_map _ (fun u => (tmin, init_status i0 (opt_list r0o) u) :: node_events u (rev hl))); exact Hu|].
    intros Hw Hr. apply (drun_r0_quiet _ _ _ _ _ _ _ _ _ _ _ _ Hw Hrun u Hu).
    unfold init_status. apply dmem_In in Hr. rewrite Hr. reflexivity.
Qed.

Theorem dsir_init_accepted : forall g R trec ord i0 r0o tmin tmax full fuel ds out tr,
  wf_inputb g i0 (opt_list r0o) = true -> perm_oracle ord -> (full = true -> pick_sound R) -> whole_steps tmin tmax ->
  exec (discrete_SIR g R trec ord (Some i0) r0o None tmin tmax full fuel) ds [] = (Ok out, tr) ->
  dinit_okb true g i0 (opt_list r0o) tmin (so_rows (o_sim out)) (option_map fd_hist (so_full (o_sim out))) = true.
Proof.
  intros g R trec ord i0 r0o tmin tmax full fuel ds out tr Hwf Hord Hpick Hw H.
  destruct (dsir_row0 _ _ _ _ _ _ _ _ _ _ _ _ _ Hwf Hord Hpick H) as [rest Er].
  unfold dinit_okb. rewrite Er. cbn [fst snd]. rewrite zeqb_list_refl, andb_true_r.
  assert (Eq : Qeqb tmin tmin = true) by (apply Qeq_bool_iff; reflexivity). rewrite Eq. cbn [andb].
  destruct full.
  - destruct (dsir_hist0 _ _ _ _ _ _ _ _ _ _ _ _ Hwf Hord (Hpick eq_refl) H) as [fd [Ef [_ Hh]]]. rewrite Ef. cbn [option_map].
    apply forallb_forall. intros u Hu. destruct (Hh u Hu) as [evs [Ea Hq]]. rewrite Ea. cbn [fst snd].
    rewrite Eq, N.eqb_refl. cbn [andb]. destruct (mem u (opt_list r0o)) eqn:Er0; [|reflexivity].
    rewrite (Hq Hw (proj1 (dmem_In _ _) Er0)). reflexivity.
  - destruct (dsir_exec_run _ _ _ _ _ _ _ _ _ _ _ _ _ Hwf Hord Hpick H) as [K [t [st [rows [hl [tl [_ [_ [_ Ef]]]]]]]]].
    rewrite Ef. reflexivity.
Qed.

(* ---------------- basic_discrete_SIS ---------------- *)
Theorem dsis_row0 : forall g R ord i0 tmin tmax full fuel ds out tr,
  wf_inputb g i0 [] = true -> perm_oracle ord -> (full = true -> pick_sound R) ->
  exec (basic_discrete_SIS_R g R ord (Some i0) None tmin tmax full fuel) ds [] = (Ok out, tr) ->
  exists rest, so_rows (o_sim out) = (tmin, row0_of false g i0 []) :: rest.
Proof.
  intros g R ord i0 tmin tmax full fuel ds out tr Hwf Hord Hpick H.
  destruct (dsis_exec_run _ _ _ _ _ _ _ _ _ _ _ Hwf Hord Hpick H) as [K [t [st [rows [hl [tl [Hrun [_ [Er _]]]]]]]]].
  destruct (drun_first _ _ _ _ _ _ _ _ _ _ _ _ _ _ Hrun) as [rest E]. exists rest.
  rewrite Er, E, (init_status_counts_sis g i0 Hwf). reflexivity.
Qed.

Theorem dsis_init_accepted : forall g R ord i0 tmin tmax full fuel ds out tr,
  wf_inputb g i0 [] = true -> perm_oracle ord -> (full = true -> pick_sound R) ->
  exec (basic_discrete_SIS_R g R ord (Some i0) None tmin tmax full fuel) ds [] = (Ok out, tr) ->
  dinit_okb false g i0 [] tmin (so_rows (o_sim out)) (option_map fd_hist (so_full (o_sim out))) = true.
Proof.
  intros g R ord i0 tmin tmax full fuel ds out tr Hwf Hord Hpick H.
  destruct (dsis_row0 _ _ _ _ _ _ _ _ _ _ _ Hwf Hord Hpick H) as [rest Er].
  unfold dinit_okb. rewrite Er. cbn [fst snd]. rewrite zeqb_list_refl, andb_true_r.
  assert (Eq : Qeqb tmin tmin = true) by (apply Qeq_bool_iff; reflexivity). rewrite Eq. cbn [andb].
  destruct (dsis_exec_run _ _ _ _ _ _ _ _ _ _ _ Hwf Hord Hpick H) as [K [t [st [rows [hl [tl [_ [_ [_ Ef]]]]]]]]].
  rewrite Ef. destruct full; [|reflexivity]. cbn [option_map fd_hist]. unfold build_hist.
  apply forallb_forall. intros u Hu.
  cbv zeta. erewrite assocN_map by exact Hu. cbn [fst snd].
  rewrite Eq, N.eqb_refl. reflexivity.
Qed.

(* what acceptance means *)
Theorem dinit_okb_sound : forall sir g i0 r0 tmin rows hist, dinit_okb sir g i0 r0 tmin rows hist = true ->
  (exists r rest, rows = r :: rest /\ fst r == tmin /\ snd r = row0_of sir g i0 r0) /\
  (forall hs, hist = Some hs -> forall u, In u (gnodes g) -> exists e rest,
     assocN hs u = Some (e :: rest) /\ fst e == tmin /\ snd e = init_status i0 r0 u /\ (In u r0 -> rest = [])).
Proof.
  intros sir g i0 r0 tmin rows hist H. unfold dinit_okb in H. apply andb_true_iff in H. destruct H as [H1 H2]. split.
  - destruct rows as [|r rest]; [discriminate|]. apply andb_true_iff in H1. destruct H1 as [A B].
    exists r, rest. split; [reflexivity|]. split; [apply Qeq_bool_iff; exact A|apply zeqb_list_eq; exact B].
  - intros hs Eh u Hu. subst hist. rewrite forallb_forall in H2. specialize (H2 u Hu). cbv beta in H2.
    destruct (assocN hs u) as [[|e rest]|]; try discriminate.
    apply andb_true_iff in H2. destruct H2 as [H2 C]. apply andb_true_iff in H2. destruct H2 as [A B].
    exists e, rest. split; [reflexivity|]. split; [apply Qeq_bool_iff; exact A|]. split; [apply N.eqb_eq; exact B|].
    intro Hr. apply dmem_In in Hr. rewrite Hr in C. destruct rest; [reflexivity|discriminate].
Qed.

(* the requested statuses *)
Lemma init_status_spec : forall i0 r0 u, (forall v, In v i0 -> ~ In v r0) ->
  (init_status i0 r0 u = stI <-> In u i0) /\ (init_status i0 r0 u = stR <-> In u r0) /\
  (init_status i0 r0 u = stS <-> ~ In u i0 /\ ~ In u r0).
Proof.
  intros i0 r0 u Hd. unfold init_status.
  destruct (mem u r0) eqn:Er; [|destruct (mem u i0) eqn:Ei];
    [apply dmem_In in Er|apply dmem_In in Ei; apply dmem_false in Er|apply dmem_false in Er; apply dmem_false in Ei];
    (split; [|split]); split; intro H; try (unfold stS, stI, stR in H; discriminate H); try reflexivity; try tauto;
    try solve [exfalso; apply (Hd u); assumption].
Qed.

(* rho and initial_infecteds *)
Theorem dsir_both_rejected : forall g R trec ord i0 r0o rho tmin tmax full fuel,
  discrete_SIR g R trec ord (Some i0) r0o (Some rho) tmin tmax full fuel = Fail EoNError.
Proof. intros. unfold discrete_SIR. destruct r0o; reflexivity. Qed.

(* rho together with initial_recovereds is rejected too (whatever initial_infecteds is) *)
Theorem dsir_rho_r0_rejected : forall g R trec ord i0o r0 rho tmin tmax full fuel,
  discrete_SIR g R trec ord i0o (Some r0) (Some rho) tmin tmax full fuel = Fail EoNError.
Proof. reflexivity. Qed.

Theorem dsis_both_rejected : forall g R ord i0 rho tmin tmax full fuel,
  basic_discrete_SIS_R g R ord (Some i0) (Some rho) tmin tmax full fuel = Fail EoNError.
Proof. reflexivity. Qed.

Lemma sample_pop_spec : forall g r0o v, In v (sample_pop g r0o) <-> In v (gnodes g) /\ ~ In v (opt_list r0o).
Proof.
  intros g r0o v. unfold sample_pop. destruct r0o as [l|]; cbn [opt_list].
  - rewrite filter_In, negb_true_iff, dmem_false. tauto.
  - cbn. tauto.
Qed.

Lemma sample_pop_NoDup : forall g r0o, NoDup (gnodes g) -> NoDup (sample_pop g r0o).
Proof. intros g r0o H. unfold sample_pop. destruct r0o; [apply NoDup_filter|]; exact H. Qed.

(* a run without initial_infecteds that returns: rho and initial_recovereds were not both given
   (that combination is rejected); the sampled nodes are distinct nodes of the graph that are NOT
   initially recovered, int(round(N*rho)) of them (one when rho is not given), and the run is the run
   from that explicit set *)
Theorem dsir_rho : forall g R trec ord r0o rho tmin tmax full fuel out, NoDup (gnodes g) ->
  reach (discrete_SIR g R trec ord None r0o rho tmin tmax full fuel) out ->
  let n := match rho with None => 1%Z | Some r => d_round_half_even (Qnat (length (gnodes g)) * r) end in
  (rho = None \/ r0o = None) /\
  (0 <= n)%Z /\ exists i0, NoDup i0 /\ incl i0 (gnodes g) /\ (forall v, In v i0 -> ~ In v (opt_list r0o)) /\
    Z.of_nat (length i0) = n /\
    reach (discrete_SIR g R trec ord (Some i0) r0o None tmin tmax full fuel) out.
Proof.
  intros g R trec ord r0o rho tmin tmax full fuel out Hnd H. unfold discrete_SIR in H. cbv zeta.
  assert (G : forall rho', (rho' = None \/ r0o = None) ->
     reach (with_initial g (sample_pop g r0o) None rho' (fun l =>
              dloop g R trec ord tmin tmax full l (opt_list r0o) fuel O tmin (init_state g tmin full l (opt_list r0o)))) out ->
     (0 <= match rho' with None => 1%Z | Some r => d_round_half_even (Qnat (length (gnodes g)) * r) end)%Z /\
     exists i0, NoDup i0 /\ incl i0 (gnodes g) /\ (forall v, In v i0 -> ~ In v (opt_list r0o)) /\
       Z.of_nat (length i0) = match rho' with None => 1%Z | Some r => d_round_half_even (Qnat (length (gnodes g)) * r) end /\
       reach (discrete_SIR g R trec ord (Some i0) r0o None tmin tmax full fuel) out).
  { intros rho' _ Hr. destruct (with_initial_rho g _ rho' _ out (sample_pop_NoDup g r0o Hnd) Hr) as [Hn [i0 [A [B [C D]]]]].
    split; [exact Hn|]. exists i0. split; [exact A|]. split; [intros v Hv; apply (sample_pop_spec g r0o v); apply B; exact Hv|].
    split; [intros v Hv; apply (sample_pop_spec g r0o v); apply B; exact Hv|]. split; [exact C|].
    unfold discrete_SIR. destruct r0o; exact D. }
  destruct rho as [r|]; [destruct r0o as [r0|]; [inversion H|]|].
  - split; [right; reflexivity|]. apply (G (Some r)); [right; reflexivity|exact H].
  - split; [left; reflexivity|]. apply (G None); [left; reflexivity|]. destruct r0o; exact H.
Qed.

(* every node initially recovered and neither rho nor initial_infecteds: random.sample([], 1) is a
   ValueError, in the model as in the code *)
Theorem dsir_all_recovered_ValueError : forall g R trec ord r0 tmin tmax full fuel ds,
  (forall v, In v (gnodes g) -> In v r0) ->
  exists tr, exec (discrete_SIR g R trec ord None (Some r0) None tmin tmax full fuel) ds [] = (Err ValueErr, tr).
Proof.
  intros g R trec ord r0 tmin tmax full fuel ds H. unfold discrete_SIR. cbn [with_initial sample_pop].
  assert (E : filter (fun u => negb (mem u r0)) (gnodes g) = []).
  { apply InvestigationP.filter_none. intros x Hx. apply negb_false_iff. apply dmem_In. apply H. exact Hx. }
  rewrite E. cbn. eexists. reflexivity.
Qed.

Theorem dsis_rho : forall g R ord rho tmin tmax full fuel out, NoDup (gnodes g) ->
  reach (basic_discrete_SIS_R g R ord None rho tmin tmax full fuel) out ->
  let n := match rho with None => 1%Z | Some r => d_round_half_even (Qnat (length (gnodes g)) * r) end in
  (0 <= n)%Z /\ exists i0, NoDup i0 /\ incl i0 (gnodes g) /\ Z.of_nat (length i0) = n /\
    reach (basic_discrete_SIS_R g R ord (Some i0) None tmin tmax full fuel) out.
Proof.
  intros g R ord rho tmin tmax full fuel out Hnd H. unfold basic_discrete_SIS_R in H.
  exact (with_initial_rho g (gnodes g) rho _ out Hnd H).
Qed.

(* the same for any [drun] of kind SIR (used for percolation_based_discrete_SIR) *)
Lemma drun_init_accepted : forall g os tmin tmax full i0 r0 tl0 K t st rows hl tl,
  wf_inputb g i0 r0 = true -> whole_steps tmin tmax ->
  drun g kSIR os tmin tmax full (init_status i0 r0) tl0 K t st rows hl tl ->
  dinit_okb true g i0 r0 tmin (rev rows) (if full then Some (build_hist g tmin i0 r0 hl) else None) = true.
Proof.
  intros g os tmin tmax full i0 r0 tl0 K t st rows hl tl Hwf Hw Hrun.
  destruct (drun_first _ _ _ _ _ _ _ _ _ _ _ _ _ _ Hrun) as [rest E].
  unfold dinit_okb. rewrite E, (init_status_counts g i0 r0 Hwf). cbn [fst snd]. rewrite zeqb_list_refl, andb_true_r.
  assert (Eq : Qeqb tmin tmin = true) by (apply Qeq_bool_iff; reflexivity). rewrite Eq. cbn [andb].
  destruct full; [|reflexivity]. apply forallb_forall. intros u Hu. unfold build_hist. cbv zeta.
  erewrite assocN_map by exact Hu. cbn [fst snd]. rewrite Eq, N.eqb_refl. cbn [andb].
  destruct (mem u r0) eqn:Er0; [|reflexivity].
  destruct (drun_r0_quiet _ _ _ _ _ _ _ _ _ _ _ _ Hw Hrun u Hu) as [_ HQ]; [unfold init_status; rewrite Er0; reflexivity|].
  match goal with |- match ?x with _ => _ end = _ => replace x with (@nil (Q * N)) by (symmetry; exact HQ) end. reflexivity.
Qed.
