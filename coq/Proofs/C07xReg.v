(* C07, regular graphs, uniformly random initial infection rho: the initial vectors that the compact pairwise and the
   homogeneous pairwise wrappers hand to their solvers correspond under the change of variables of
   Rhs7P.lump_SIS/SIR_compact_pairwise_regular (single degree class k, n = k), and the heterogeneous / homogeneous
   mean-field wrappers likewise: the wrappers start on the symmetric subspace on which Props/C07.v proves the
   vector fields correspond. *)
From EoNV Require Import Prelude Graph Vec VecP Aux AuxP IC Wrappers ICP ICPair ICEbcm Pgf C07xPoly C07xIC.
From Coq Require Import Qpower Lqa Setoid Morphisms.

Definition regularb (g : graph) (k : nat) : bool := forallb (fun u => Nat.eqb (deg g u) k) (gnodes g).

Lemma regular_deg g k u : regularb g k = true -> In u (gnodes g) -> deg g u = k.
Proof. unfold regularb. rewrite forallb_forall. intros H Hu. apply Nat.eqb_eq. apply H. exact Hu. Qed.
Lemma maxdeg_const (l : list node) (f : node -> nat) k : l <> [] -> (forall u, In u l -> f u = k) -> maxdeg (map f l) = k.
Proof.
  induction l as [|u l IH]; intros NE H; [congruence|]. cbn [map maxdeg fold_right].
  rewrite (H u (or_introl eq_refl)). destruct l as [|v l]; [cbn; lia|].
  change (fold_right Nat.max 0%nat (map f (v :: l))) with (maxdeg (map f (v :: l))).
  rewrite IH; [lia|discriminate|]. intros w Hw. apply H. right. exact Hw.
Qed.
Lemma gmaxdeg_regular g k : wf_ugraph g = true -> regularb g k = true -> gmaxdeg g = k.
Proof.
  intros WG RG. destruct (wf_ugraph_nodes g WG) as [_ NE]. unfold gmaxdeg, degseq.
  apply maxdeg_const; [exact NE|]. intros u Hu. apply (regular_deg g k u RG Hu).
Qed.
Lemma cnt_all (p : node -> bool) l : (forall u, In u l -> p u = true) -> cnt p l == Qnat (length l).
Proof.
  induction l as [|u l IH]; intros H; [reflexivity|]. rewrite cnt_cons, IH by (intros v Hv; apply H; right; exact Hv).
  rewrite (H u (or_introl eq_refl)). cbn [ind length]. rewrite AuxP.Qnat_S. ring.
Qed.
Lemma Nk_regular g k : wf_ugraph g = true -> regularb g k = true -> veq (Nk_of g) (unitv k (gN g)).
Proof.
  intros WG RG. pose proof (gmaxdeg_regular g k WG RG) as HM.
  apply veq_unitv.
  - unfold Nk_of. rewrite byclass_length, HM. reflexivity.
  - intros i Hi. change (nth i (Nk_of g) 0) with (vnth i (Nk_of g)). unfold Nk_of. rewrite vnth_byclass by lia.
    apply cnt_none. intros u Hu. rewrite (regular_deg g k u RG Hu). rewrite (proj2 (Nat.eqb_neq k i)) by lia. reflexivity.
  - change (nth k (Nk_of g) 0) with (vnth k (Nk_of g)). unfold Nk_of. rewrite vnth_byclass by lia.
    unfold gN. apply cnt_all. intros u Hu. rewrite (regular_deg g k u RG Hu), Nat.eqb_refl. reflexivity.
Qed.
Lemma sum_const_deg g k (l : list node) : (forall u, In u l -> deg g u = k) ->
  sumQ (map (fun u => Qnat (deg g u)) l) == Qnat k * Qnat (length l).
Proof.
  induction l as [|u l IH]; intros H; [cbn [map length]; rewrite ICP.sumQ_nil; change (Qnat 0) with 0; ring|]. cbn [map length]. rewrite ICP.sumQ_cons, IH by (intros v Hv; apply H; right; exact Hv).
  rewrite (H u (or_introl eq_refl)), AuxP.Qnat_S. ring.
Qed.
Lemma mean_degree_regular g k : wf_ugraph g = true -> regularb g k = true -> mean_degree g == Qnat k.
Proof.
  intros WG RG. pose proof (mean_degree_N g WG) as H. pose proof (gN_nonzero g WG) as HN.
  unfold degsum in H. rewrite (sum_const_deg g k (gnodes g) (fun u Hu => regular_deg g k u RG Hu)) in H. fold (gN g) in H.
  apply (Qmult_inj_r _ _ (gN g) HN). exact H.
Qed.

Lemma Qltb_false a b : b <= a -> Qltb a b = false.
Proof. intros H. unfold Qltb. destruct (Qlt_le_dec a b) as [L|L]; [exfalso; apply (Qlt_not_le _ _ L H)|reflexivity]. Qed.

Section RegularRho.
Variables (g : graph) (k : nat) (rho_opt : option Q).
Hypothesis WG : wf_ugraph g = true.
Hypothesis RG : regularb g k = true.
Let r := rho_or_default g rho_opt.
Let rq := mkReq None None rho_opt.
Let N := gN g.
Hypothesis Hr0 : 0 <= r.
Hypothesis Hr1 : r <= 1.

Lemma N_pos : 0 < N.
Proof.
  destruct (wf_ugraph_nodes g WG) as [_ NE]. unfold N, gN. apply Qnat_pos. apply length_pos. exact NE.
Qed.
Lemma Sk0_regular : veq (smul (1 - r) (Nk_of g)) (unitv k ((1 - r) * N)).
Proof. etransitivity; [apply smul_veq, (Nk_regular g k WG RG)|]. apply smul_unitv. Qed.
Lemma SX0_regular : dot (smul (1 - r) (Nk_of g)) (ksv (Nk_of g)) == (1 - r) * N * Qnat k.
Proof.
  rewrite (dot_veq_l _ _ _ Sk0_regular). unfold ksv.
  assert (HL : length (Nk_of g) = S k) by (unfold Nk_of; rewrite byclass_length, (gmaxdeg_regular g k WG RG); reflexivity).
  rewrite HL, dot_unitv_l by (rewrite arange_length; lia). rewrite nth_arange by lia. reflexivity.
Qed.

(* SIR: compact pairwise (S_k, SS, SI, R) and homogeneous pairwise (S, I, SI, SS) start at corresponding points *)
Lemma SIR_pairwise_regular_ic :
  let s := (1 - r) * N in let SS := (1 - r) * ((1 - r) * N * Qnat k) in let SI := r * ((1 - r) * N * Qnat k) in
  exists Sk0 I0 R0 SS0 SI0 S0' I0' SI0' SS0' n,
    (forall full sv, SIR_compact_pairwise_from_graph g rq full sv = Ok (SIR_compact_pairwise Sk0 I0 R0 SS0 SI0 full sv)) /\
    (forall full sv, SIR_homogeneous_pairwise_from_graph g rq full sv = SIR_homogeneous_pairwise S0' I0' 0 SI0' SS0' n full sv) /\
    Qltb (n * (S0' + I0' + 0)) (SS0' + 2 * SI0') = false /\
    veq (Sk0 ++ [SS0; SI0; R0]) (unitv k s ++ [SS; SI; 0]) /\
    veq [S0'; I0'; SI0'; SS0'] [s; N - s - 0; SI; SS] /\ n == Qnat k /\ I0 + R0 + vsum Sk0 == N.
Proof.
  cbv zeta.
  exists (smul (1 - r) (Nk_of g)), (vsum (smul r (Nk_of g))), (vsum (smul 0 (Nk_of g))),
         ((1 - r) * dot (smul (1 - r) (Nk_of g)) (ksv (Nk_of g))), (r * dot (smul (1 - r) (Nk_of g)) (ksv (Nk_of g))),
         ((1 - r) * N), (r * N), ((1 - r) * N * mean_degree g * r), ((1 - r) * N * mean_degree g * (1 - r)), (mean_degree g).
  pose proof (mean_degree_regular g k WG RG) as Hn. pose proof N_pos as HN.
  split; [|split; [|split; [|split; [|split; [|split]]]]].
  - intros full sv. unfold SIR_compact_pairwise_from_graph, rq. cbn [rq_rho rq_I rq_R isSome andb]. rewrite andb_false_r.
    unfold r. destruct rho_opt as [r0|]; cbn [rho_or_default]; rewrite (get_Nk_rho g _ WG); reflexivity.
  - intros full sv. unfold SIR_homogeneous_pairwise_from_graph, rq. cbn [rq_rho rq_I rq_R isSome andb]. rewrite !andb_false_r. reflexivity.
  - apply Qltb_false. rewrite Hn.
    setoid_replace (Qnat k * ((1 - r) * N + r * N + 0)) with (Qnat k * N) by ring.
    setoid_replace ((1 - r) * N * Qnat k * (1 - r) + 2 * ((1 - r) * N * Qnat k * r)) with (Qnat k * N - r * r * (Qnat k * N)) by ring.
    assert (0 <= Qnat k * N) by (apply Qmult_le_0_compat; [unfold Qnat; change 0 with (inject_Z 0); rewrite <- Zle_Qle; lia|apply Qlt_le_weak; exact HN]).
    assert (0 <= r * r * (Qnat k * N)) by (apply Qmult_le_0_compat; [apply Qmult_le_0_compat; assumption|assumption]). lra.
  - apply veq_app; [apply Sk0_regular|].
    constructor; [rewrite SX0_regular; reflexivity|]. constructor; [rewrite SX0_regular; reflexivity|]. constructor; [rewrite vsum_smul; ring|constructor].
  - (constructor; [|constructor; [|constructor; [|constructor; [|constructor]]]]); rewrite ?Hn; ring.
  - exact Hn.
  - rewrite !vsum_smul, (Nk_sum g). unfold N. ring.
Qed.

(* SIS: compact pairwise (S_k, SI, SS; Nk, twoM) and homogeneous pairwise (S, SI, SS; N, n) *)
Lemma SIS_pairwise_regular_ic :
  let s := (1 - r) * N in let SS := (1 - r) * N * Qnat k * (1 - r) in let SI := (1 - r) * N * Qnat k * r in
  exists Sk0 Ik0 SI0 SS0 II0 S0' I0' SI0' SS0' n,
    (forall full sv, SIS_compact_pairwise_from_graph g rq full sv = Ok (SIS_compact_pairwise Sk0 Ik0 SI0 SS0 II0 full sv)) /\
    (forall full sv, SIS_homogeneous_pairwise_from_graph g rq full sv = SIS_homogeneous_pairwise S0' I0' SI0' SS0' n full sv) /\
    Qltb (n * (S0' + I0')) (SS0' + SI0' * 2) = false /\
    veq (Sk0 ++ [SI0; SS0]) (unitv k s ++ [SI; SS]) /\ veq (vadd Sk0 Ik0) (unitv k N) /\ SS0 + II0 + 2 * SI0 == N * Qnat k /\
    veq [S0'; SI0'; SS0'] [s; SI; SS] /\ S0' + I0' == N /\ n == Qnat k.
Proof.
  cbv zeta.
  exists (smul (1 - r) (Nk_of g)), (smul r (Nk_of g)),
         (vsum (map (fun j => vnth j (Nk_of g) * Qnat j * (1 - r) * r) (classes g))),
         (vsum (map (fun j => vnth j (Nk_of g) * Qnat j * (1 - r) * (1 - r)) (classes g))),
         (vsum (map (fun j => vnth j (Nk_of g) * Qnat j * r * r) (classes g))),
         ((1 - r) * N), (r * N), ((1 - r) * N * mean_degree g * r), ((1 - r) * N * mean_degree g * (1 - r)), (mean_degree g).
  pose proof (mean_degree_regular g k WG RG) as Hn. pose proof N_pos as HN.
  pose proof (gmaxdeg_regular g k WG RG) as HM.
  (* sum_j Nk[j] j w = N k w on a k-regular graph *)
  assert (Hsum : forall w1 w2, vsum (map (fun j => vnth j (Nk_of g) * Qnat j * w1 * w2) (classes g)) == N * Qnat k * w1 * w2).
  { intros w1 w2. unfold vsum. rewrite (ICP.sumQ_map_ext _ (fun j => (w1 * w2) * (Qnat j * vnth j (Nk_of g)))) by (intros; ring).
    rewrite ICP.sumQ_map_scal, (Nk_degsum g). unfold degsum.
    rewrite (sum_const_deg g k (gnodes g) (fun u Hu => regular_deg g k u RG Hu)). fold (gN g). fold N. ring. }
  split; [|split; [|split; [|split; [|split; [|split; [|split; [|split]]]]]]].
  - intros full sv. unfold SIS_compact_pairwise_from_graph, rq. cbn [rq_rho rq_I rq_R isSome andb]. rewrite andb_false_r.
    assert (G : get_Nk_and_IC g (mkReq None None (Some r)) false = Ok (mkNkic (Nk_of g) (smul (1 - r) (Nk_of g)) (smul r (Nk_of g)) (smul 0 (Nk_of g)))).
    { destruct (wf_ugraph_nodes g WG) as [_ NE]. unfold get_Nk_and_IC. cbn [rq_rho rq_I rq_R isSome andb negb].
      destruct (gnodes g) as [|u l]; [congruence|]. reflexivity. }
    unfold r in *. destruct rho_opt as [r0|]; cbn [rho_or_default] in *; rewrite G; reflexivity.
  - intros full sv. unfold SIS_homogeneous_pairwise_from_graph, rq. cbn [rq_rho rq_I rq_R isSome andb]. rewrite !andb_false_r. reflexivity.
  - apply Qltb_false. rewrite Hn.
    setoid_replace (Qnat k * ((1 - r) * N + r * N)) with (Qnat k * N) by ring.
    setoid_replace ((1 - r) * N * Qnat k * (1 - r) + (1 - r) * N * Qnat k * r * 2) with (Qnat k * N - r * r * (Qnat k * N)) by ring.
    assert (0 <= Qnat k * N) by (apply Qmult_le_0_compat; [unfold Qnat; change 0 with (inject_Z 0); rewrite <- Zle_Qle; lia|apply Qlt_le_weak; exact HN]).
    assert (0 <= r * r * (Qnat k * N)) by (apply Qmult_le_0_compat; [apply Qmult_le_0_compat; assumption|assumption]). lra.
  - apply veq_app; [apply Sk0_regular|]. constructor; [rewrite Hsum; ring|]. constructor; [rewrite Hsum; ring|constructor].
  - apply veq_unitv.
    + rewrite vadd_length, !smul_length. unfold Nk_of. rewrite byclass_length, HM. lia.
    + intros i Hi. assert (HL : length (Nk_of g) = S k) by (unfold Nk_of; rewrite byclass_length, HM; reflexivity).
      rewrite nth_vadd, !nth_smul by (rewrite ?smul_length, HL; lia).
      rewrite (veq_nth_all _ _ (Nk_regular g k WG RG) i), nth_unitv_lt by lia. ring.
    + assert (HL : length (Nk_of g) = S k) by (unfold Nk_of; rewrite byclass_length, HM; reflexivity).
      rewrite nth_vadd, !nth_smul by (rewrite ?smul_length, HL; lia).
      rewrite (veq_nth_all _ _ (Nk_regular g k WG RG) k), nth_unitv_k. fold N. ring.
  - rewrite !Hsum. ring.
  - (constructor; [|constructor; [|constructor; [|constructor]]]); rewrite ?Hn; ring.
  - ring.
  - exact Hn.
Qed.

Lemma get_Nk_rho_opt sir : get_Nk_and_IC g (mkReq None None rho_opt) sir =
  Ok (mkNkic (Nk_of g) (smul (1 - r) (Nk_of g)) (smul r (Nk_of g)) (smul 0 (Nk_of g))).
Proof.
  destruct (wf_ugraph_nodes g WG) as [_ NE]. unfold get_Nk_and_IC. cbn [rq_rho rq_I rq_R isSome andb negb]. rewrite !andb_false_r.
  destruct (gnodes g) as [|u l]; [congruence|]. reflexivity.
Qed.
Lemma I0_hom : (match @None (list node), rho_opt with Some l, _ => len l | None, Some r0 => r0 * gN g | None, None => 1 end) == r * N.
Proof.
  unfold r, N, rho_or_default. destruct rho_opt as [r0|]; [reflexivity|]. field. apply gN_nonzero; exact WG.
Qed.

(* SIS: heterogeneous mean-field (S_k ++ I_k) and homogeneous mean-field (S, I) *)
Lemma SIS_meanfield_regular_ic :
  exists Sk0 Ik0 S0' I0',
    (forall full sv, SIS_heterogeneous_meanfield_from_graph g rq full sv = SIS_heterogeneous_meanfield Sk0 Ik0 full sv) /\
    (forall sv, SIS_homogeneous_meanfield_from_graph g rq sv = Ok (SIS_homogeneous_meanfield S0' I0' sv)) /\
    veq (Sk0 ++ Ik0) (unitv k ((1 - r) * N) ++ unitv k (r * N)) /\ veq [S0'; I0'] [(1 - r) * N; r * N].
Proof.
  exists (smul (1 - r) (Nk_of g)), (smul r (Nk_of g)),
         (gN g - match @None (list node), rho_opt with Some l, _ => len l | None, Some r0 => r0 * gN g | None, None => 1 end),
         (match @None (list node), rho_opt with Some l, _ => len l | None, Some r0 => r0 * gN g | None, None => 1 end).
  split; [|split; [|split]].
  - intros full sv. unfold SIS_heterogeneous_meanfield_from_graph, rq. cbn [rq_rho rq_I rq_R isSome andb]. rewrite andb_false_r.
    rewrite get_Nk_rho_opt. reflexivity.
  - intros sv. unfold SIS_homogeneous_meanfield_from_graph, rq. cbn [rq_rho rq_I rq_R isSome andb]. rewrite andb_false_r. reflexivity.
  - apply veq_app; [apply Sk0_regular|]. etransitivity; [apply smul_veq, (Nk_regular g k WG RG)|]. apply smul_unitv.
  - constructor; [rewrite I0_hom; unfold N; ring|]. constructor; [apply I0_hom|constructor].
Qed.
(* SIR: heterogeneous mean-field (theta, R_k; S0_k, N_k) and homogeneous mean-field (S, I): the point (theta, r) = (1, 0) of
   C07x_lump_SIR_heterogeneous_meanfield_regular with s0 = (1-rho) N *)
Lemma SIR_meanfield_regular_ic :
  exists Sk0 Ik0 Rk0 S0' I0',
    (forall full sv, SIR_heterogeneous_meanfield_from_graph g rq full sv = SIR_heterogeneous_meanfield Sk0 Ik0 Rk0 full sv) /\
    (forall sv, SIR_homogeneous_meanfield_from_graph g rq sv = Ok (SIR_homogeneous_meanfield S0' I0' 0 sv)) /\
    veq (1 :: Rk0) ([1] ++ unitv k 0) /\ veq Sk0 (unitv k ((1 - r) * N)) /\ veq (vadd (vadd Sk0 Ik0) Rk0) (unitv k N) /\
    veq [S0'; I0'] [(1 - r) * N * qpow 1 (Z.of_nat k); N - (1 - r) * N * qpow 1 (Z.of_nat k) - 0].
Proof.
  exists (smul (1 - r) (Nk_of g)), (smul r (Nk_of g)), (smul 0 (Nk_of g)),
         (gN g - match @None (list node), rho_opt with Some l, _ => len l | None, Some r0 => r0 * gN g | None, None => 1 end - len (@nil node)),
         (match @None (list node), rho_opt with Some l, _ => len l | None, Some r0 => r0 * gN g | None, None => 1 end).
  pose proof (gmaxdeg_regular g k WG RG) as HM.
  assert (HL : length (Nk_of g) = S k) by (unfold Nk_of; rewrite byclass_length, HM; reflexivity).
  split; [|split; [|split; [|split; [|split]]]].
  - intros full sv. unfold SIR_heterogeneous_meanfield_from_graph, rq. rewrite get_Nk_rho_opt. reflexivity.
  - intros sv. unfold SIR_homogeneous_meanfield_from_graph, rq. cbn [rq_rho rq_I rq_R isSome andb]. rewrite !andb_false_r. reflexivity.
  - constructor; [reflexivity|]. etransitivity; [apply smul_veq, (Nk_regular g k WG RG)|]. etransitivity; [apply smul_unitv|].
    unfold unitv. apply veq_app; [apply veq_refl|]. constructor; [ring|constructor].
  - apply Sk0_regular.
  - apply veq_unitv.
    + rewrite !vadd_length, !smul_length, HL. lia.
    + intros i Hi. rewrite !nth_vadd, !nth_smul by (rewrite ?vadd_length, ?smul_length, HL; lia).
      rewrite (veq_nth_all _ _ (Nk_regular g k WG RG) i), nth_unitv_lt by lia. ring.
    + rewrite !nth_vadd, !nth_smul by (rewrite ?vadd_length, ?smul_length, HL; lia).
      rewrite (veq_nth_all _ _ (Nk_regular g k WG RG) k), nth_unitv_k. fold N. ring.
  - unfold len. cbn [length]. change (Qnat 0) with 0.
    constructor; [rewrite I0_hom, pw_1; unfold N; ring|]. constructor; [rewrite I0_hom, pw_1; unfold N; ring|constructor].
Qed.
End RegularRho.
