(* C05, fast_SIS: the tie clause of the checker [ic_sisb] bites only on draw scripts that
   contain the value 0 (a measure-zero value of random.expovariate).  On every script whose
   draws are strictly positive, nothing but the requested infections is dated tmin: every sourced
   transmission and every later history entry is strictly after tmin ([quiet_at_tmin]), so
   node_status(u, tmin) is exactly the request (Proofs/C05sStatus.v).
   Technique: the loop as a relation with annotated clocks (Proofs/EventSISRel.v: [ml_rel]); an
   invariant [JM] (every queue entry is an initial entry at tmin or lies strictly after tmin;
   logged recoveries and sourced transmissions lie strictly after tmin) preserved by every step
   whose clocks returned positive values; combined with the lock-step log invariant [LL]. *)
From EoNV Require Import Prelude Samp Graph ListDict ListDictP Gillespie KldP GillespieInv SampP GillespieP GillespieLog.
From EoNV Require Import Investigation InvestigationP GillespieC10.
From EoNV Require Import EventSIS EventSISP EventSISP4 EventSISRows EventSISLog EventSISTrace EventSISRel EventSISFast EventSISNM EventSISOut.
From EoNV Require Import InitChk InitChkSIS C05sHist C05sTop C05sStatus.
From Coq Require Import Permutation Sorted Lqa.

Definition clkpos (c : clk) : Prop :=
  match c with KRec _ _ d => 0 < d | KAtt _ _ _ _ d _ => 0 < d end.

Section QuietF.
Variable g : graph.
Hypothesis Hnd : NoDup (gnodes g).
Hypothesis Hadj : forall u v, In v (gadj g u) -> In v (gnodes g).
Variables tau gamma : Q.
Variable tmax : xtime.
Variable tmin : Q.
Hypothesis Hvis : xlt tmin tmax = true.
Variable i0 : list node.
Hypothesis Hi0 : NoDup i0.
Hypothesis Hinc : incl i0 (gnodes g).

Definition eposM (x : qent mev) : Prop :=
  match snd x with
  | MRec _ => tmin < qtime x
  | MTrans None _ => qtime x == tmin
  | MTrans (Some _) _ => tmin < qtime x
  end.

Record JM (s : mst) : Prop := mkJM {
  jm_q : Forall eposM (q_items (ms_q s));
  jm_t : Forall (fun x : tx => snd (fst x) <> None -> tmin < fst (fst x)) (l_tlog (ms_log s));
  jm_e : Forall (fun e : ev => snd e = stS -> tmin < fst (fst e)) (l_elog (ms_log s))
}.

(* steps that only add attempts: the logs do not move *)
Lemma fin_state_J : forall src tgt s t, tmin < t -> JM s -> JM (fin_state tmax src tgt s t).
Proof.
  intros src tgt s t Ht [Jq Jt Je]. unfold fin_state. destruct (xtlt (Some t) (ms_rec s src) && xlt t tmax); [|constructor; assumption].
  constructor; cbn [set_q ms_q ms_log]; [|exact Jt|exact Je].
  apply Forall_q_add; [exact Jq|]. intros _. unfold eposM. cbn [snd qtime fst]. exact Ht.
Qed.

Lemma fn_rel_J : forall time src tgt s s' cs, fn_rel g tau tmax time src tgt s s' cs ->
  Forall clkpos cs -> tmin <= time -> JM s -> JM s'.
Proof.
  intros time src tgt s s' cs H Hc Ht Hj. destruct H as [|? ?|d ? ? ? ?|d r d2 ? ? ? ? Hlt ?].
  - exact Hj.
  - exact Hj.
  - apply fin_state_J; [|exact Hj]. inversion Hc as [|? ? Hd _]; subst. cbn [clkpos] in Hd. rewrite tadd_eq. lra.
  - apply fin_state_J; [|exact Hj]. inversion Hc as [|? ? Hd Hc2]; subst. inversion Hc2 as [|? ? Hd2 _]; subst.
    cbn [clkpos] in Hd, Hd2. rewrite tadd_eq in *. lra.
Qed.

Lemma fna_rel_J : forall time u nbrs s s' cs, fna_rel g tau tmax time u nbrs s s' cs ->
  Forall clkpos cs -> tmin <= time -> JM s -> JM s'.
Proof.
  intros time u nbrs s s' cs H. induction H as [s|v rest s s1 s2 c1 c2 H1 H2 IH]; intros Hc Ht Hj; [exact Hj|].
  apply Forall_app in Hc. destruct Hc as [Hc1 Hc2]. apply IH; [exact Hc2|exact Ht|]. apply (fn_rel_J _ _ _ _ _ _ H1 Hc1 Ht Hj).
Qed.

Lemma after_rel_J : forall time src tgt s s' cs, after_rel g tau tmax time src tgt s s' cs ->
  Forall clkpos cs -> tmin <= time -> JM s -> JM s'.
Proof.
  intros time src tgt s s' cs H Hc Ht Hj. destruct H as [_|u s' c _ Hf]; [exact Hj|]. apply (fn_rel_J _ _ _ _ _ _ Hf Hc Ht Hj).
Qed.

Lemma mt_rel_J : forall time src tgt s s' cs, mt_rel g tau gamma tmax time src tgt s s' cs ->
  Forall clkpos cs -> tmin <= time -> (src <> None -> tmin < time) -> JM s -> JM s'.
Proof.
  intros time src tgt s s' cs H Hc Ht Hsrc Hj.
  destruct H as [s' c _ Ha|rt c0 s1 c1 s2 c2 _ Hrd Hfna Ha].
  - apply (after_rel_J _ _ _ _ _ _ Ha Hc Ht Hj).
  - apply Forall_app in Hc. destruct Hc as [Hc0 Hc]. apply Forall_app in Hc. destruct Hc as [Hc1 Hc2].
    apply (after_rel_J _ _ _ _ _ _ Ha Hc2 Ht). apply (fna_rel_J _ _ _ _ _ _ Hfna Hc1 Ht).
    destruct Hj as [Jq Jt Je]. unfold inf_state. constructor; cbn [ms_q ms_log log_inf l_tlog l_elog].
    + destruct Hrd as [d Hr Hd|Hz]; [|exact Jq].
      destruct (xtlt (Some (tadd time d)) tmax); [|exact Jq].
      apply Forall_q_add; [exact Jq|]. intros _. unfold eposM. cbn [snd qtime fst].
      inversion Hc0 as [|? ? Hd0 _]; subst. cbn [clkpos] in Hd0. rewrite tadd_eq. lra.
    + constructor; [|exact Jt]. cbn [fst snd]. exact Hsrc.
    + constructor; [|exact Je]. cbn [snd]. intro K. discriminate K.
Qed.

Lemma ml_rel_J : forall s s' cs, ml_rel g tau gamma tmax s s' cs -> Forall clkpos cs -> JM s -> JM s'.
Proof.
  intros s s' cs H. induction H as [s Eq|s t c v rest s' cs Eq H IH|s t c src tgt rest s1 c1 s' c2 Eq Hm H IH]; intros Hc Hj.
  - exact Hj.
  - apply IH; [exact Hc|]. destruct Hj as [Jq Jt Je]. rewrite Eq in Jq. inversion Jq as [|x l Hx Hrest]; subst.
    unfold eposM in Hx. cbn [snd qtime fst] in Hx.
    constructor; cbn [m_recover pop_state set_q ms_q ms_log q_items log_rec l_tlog l_elog]; [exact Hrest|exact Jt|].
    constructor; [intros _; cbn [fst]; exact Hx|exact Je].
  - apply Forall_app in Hc. destruct Hc as [Hc1 Hc2]. apply IH; [exact Hc2|].
    destruct Hj as [Jq Jt Je]. rewrite Eq in Jq. inversion Jq as [|x l Hx Hrest]; subst.
    unfold eposM in Hx. cbn [snd qtime fst] in Hx.
    apply (mt_rel_J t src tgt (pop_state s rest) s1 c1 Hm Hc1).
    + destruct src; [lra|rewrite Hx; lra].
    + intro Hs. destruct src; [exact Hx|contradiction Hs; reflexivity].
    + constructor; cbn [pop_state set_q ms_q ms_log q_items]; assumption.
Qed.

Lemma m_init_J : JM (m_init g tmax tmin i0).
Proof.
  constructor; cbn [m_init ms_q ms_log logs0 l_tlog l_elog]; [|constructor|constructor].
  assert (K : forall l q, Forall eposM (q_items q) ->
            Forall eposM (q_items (fold_left (fun q u => q_add tmax q tmin (MTrans None u)) l q))).
  { induction l as [|u l IH]; intros q Hq; [exact Hq|]. cbn [fold_left]. apply IH. apply Forall_q_add; [exact Hq|].
    intros _. unfold eposM. cbn [snd qtime fst]. reflexivity. }
  apply K. constructor.
Qed.

(* every draw the run consumed is one of the script's *)
Lemma clks_positive : forall (cs : list clk) ds, Forall (fun d => 0 < d) ds ->
  map (fun c => snd (clk_call g tau gamma c)) cs = firstn (length cs) ds -> Forall clkpos cs.
Proof.
  intros cs ds Hd E. apply Forall_forall. intros c Hc.
  assert (Hin : In (snd (clk_call g tau gamma c)) ds).
  { rewrite <- (firstn_skipn (length cs) ds). apply in_or_app. left. rewrite <- E. apply in_map_iff. exists c. split; [reflexivity|exact Hc]. }
  rewrite Forall_forall in Hd. specialize (Hd _ Hin). destruct c; cbn [clk_call snd clkpos] in *; exact Hd.
Qed.

Theorem fsis_quiet : forall full fuel ds out tr fd,
  Forall (fun d => 0 < d) ds ->
  exec (fast_SIS g tau gamma tmax (Some i0) None tmin full fuel) ds [] = (Ok out, tr) -> so_full out = Some fd ->
  quiet_at_tmin (gnodes g) tmin fd = true.
Proof.
  intros full fuel ds out tr fd Hds H Hfd.
  destruct (fast_SIS_reachT g tau gamma tmax i0 tmin full fuel ds out tr H) as [s' [cs [H1 [H2 [H3 [_ H5]]]]]].
  pose proof (ml_rel_FI g Hnd Hadj tau gamma tmax tmin i0 Hi0 Hinc _ _ _ H1 (ex_intro _ tmin (FInv_init g tmax tmin Hvis i0))) as Hf.
  destruct (FI_final g tmax tmin i0 s' Hf H2) as [evs [txs [HL _]]].
  pose proof (ml_rel_J _ _ _ H1 (clks_positive cs ds Hds H5) m_init_J) as [_ Jt Je].
  subst out. destruct full; [|discriminate Hfd]. unfold finish in Hfd. cbn [so_full] in Hfd. injection Hfd as <-.
  set (st := ms_stat s') in *. set (lg := ms_log s') in *.
  destruct (out_trans g tmin tmax i0 true evs txs lg st HL true eq_refl) as [fd [Efd [Etr [_ Hsrc]]]].
  unfold finish in Efd. cbn [so_full] in Efd. injection Efd as Efd. rewrite <- Efd in Etr.
  pose proof HL as [He Ht _].
  assert (Hctx : forall x, In x (rev txs) -> tmin < fst (fst x)).
  { intros x Hx. rewrite Forall_forall in Jt. apply Jt; [rewrite Ht; apply in_or_app; left; apply in_rev; exact Hx|].
    rewrite Forall_forall in Hsrc. destruct (Hsrc x Hx) as [u [Hu _]]. rewrite Hu. discriminate. }
  assert (Hcev : forall e, In e (rev evs) -> tmin < fst (fst e)).
  { intros [[t u] s] Hx. cbn [fst].
    destruct (out_times g tmin tmax i0 true evs txs lg st HL) as [_ B]. rewrite Forall_forall in B.
    destruct (B _ Hx) as [_ [Hs|Hs]]; unfold ev_st in Hs; cbn [snd] in Hs; subst s.
    - destruct (infection_in_ctx g tmin tmax i0 true evs txs lg st HL t u Hx) as [src Hsrc2]. apply (Hctx _ Hsrc2).
    - rewrite Forall_forall in Je. apply (Je (t, u, stS)); [rewrite He; apply in_or_app; left; apply in_rev; exact Hx|reflexivity]. }
  unfold quiet_at_tmin. apply andb_true_iff. split.
  - rewrite Etr. unfold quiet_transb. apply forallb_forall. intros x Hx. apply in_app_or in Hx. destruct Hx as [Hx|Hx].
    + apply in_map_iff in Hx. destruct Hx as [u [<- _]]. reflexivity.
    + rewrite Forall_forall in Hsrc. destruct (Hsrc x Hx) as [u [Hu _]]. rewrite Hu. apply Qltb_true. apply Hctx. exact Hx.
  - apply forallb_forall. intros u Hu.
    rewrite (full_hist_node g tmin tmax i0 Hi0 true evs txs lg st HL u Hu).
    assert (Hafter : forall e, In e (node_events u (rev evs)) -> tmin < fst e).
    { intros e Hin. unfold node_events in Hin. apply in_map_iff in Hin. destruct Hin as [x [<- Hx]]. apply filter_In in Hx.
      cbn [fst]. apply Hcev. apply Hx. }
    assert (Hq : forallb (fun e : Q * N => Qltb tmin (fst e)) (node_events u (rev evs)) = true).
    { apply forallb_forall. intros e Hin. apply Qltb_true. apply Hafter. exact Hin. }
    unfold hist_sis. destruct (mem u i0); cbn [app fold_left fst snd].
    + unfold Qeqb at 1. rewrite Qeq_bool_refl. change (N.eqb stI stI) with true. cbn [andb].
      rewrite (hist_of_no_reset SIS tmin _ _ Hafter). cbn [app quiet_histb]. exact Hq.
    + rewrite (hist_of_no_reset SIS tmin _ _ Hafter). cbn [app quiet_histb]. exact Hq.
Qed.

End QuietF.

Theorem fsis_positive_draws_exact_start : forall g, (forall u v, In v (gadj g u) -> In v (gnodes g)) ->
  forall tau gamma tmax tmin i0 fuel ds out tr fd,
  ic_sis_domb (gnodes g) i0 tmin tmax = true -> Forall (fun d => 0 < d) ds ->
  exec (fast_SIS g tau gamma tmax (Some i0) None tmin true fuel) ds [] = (Ok out, tr) -> so_full out = Some fd ->
  quiet_at_tmin (gnodes g) tmin fd = true /\
  forall u, In u (gnodes g) ->
    node_status (mkInv (gnodes g) (fd_hist fd) (Some [(tmin, stS)]) (Some [stS; stI])) u tmin = Ok (if mem u i0 then stI else stS).
Proof.
  intros g Hadj tau gamma tmax tmin i0 fuel ds out tr fd Hd Hds H Hfd.
  destruct (ic_sis_domb_elim _ _ _ _ Hd) as [Hnd [Hi0 [Hinc Hvis]]].
  pose proof (fsis_quiet g Hnd Hadj tau gamma tmax tmin Hvis i0 Hi0 Hinc true fuel ds out tr fd Hds H Hfd) as Hq.
  split; [exact Hq|].
  pose proof (fsis_starts_as_requested g Hadj tau gamma tmax tmin i0 true fuel ds out tr Hd H) as Hic. rewrite Hfd in Hic.
  apply (statuses_at_tmin (gnodes g) i0 tmin (so_rows out) fd Hic Hq).
Qed.
