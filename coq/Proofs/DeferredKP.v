(* Deferred decisions with KEYED coins: the question (u, v) is answered by the coin of the key
   kf u v (e.g. the undirected edge {u, v}).  Obtained from Proofs/DeferredP.v by relabelling the
   questions of the tree: [lazy] ignores the labels, [eager] reads the table through the key. *)
From EoNV Require Import Prelude Samp Graph Discrete DiscreteP DiscreteO DiscreteOP DeferredP.
From Coq Require Import Lqa.

Fixpoint orelabel {A} (kf : node -> node -> arc) (t : otree A) : otree A :=
  match t with
  | ORet a => ORet a
  | OFail e => OFail e
  | OAsk u v kt kf' => OAsk (fst (kf u v)) (snd (kf u v)) (orelabel kf kt) (orelabel kf kf')
  | OUnif c k => OUnif c (fun x => orelabel kf (k x))
  end.

(* along every branch the KEYS of the questions are distinct elements of es *)
Definition fresh_k {A} (kf : node -> node -> arc) (es : list arc) (t : otree A) : Prop :=
  fresh_in es (orelabel kf t).

Definition tblk (kf : node -> node -> arc) (kept : list arc) (u v : node) : bool := meme (kf u v) kept.

Lemma law_lazy_relabel : forall A p kf (t : otree A), law (lazy p (orelabel kf t)) = law (lazy p t).
Proof.
  intros A p kf t. induction t as [a|e|u v kt IHt kf' IHf|c k IH]; cbn [orelabel lazy law]; try reflexivity.
  - rewrite IHt, IHf. reflexivity.
  - f_equal. apply map_ext. intro x. rewrite IH. reflexivity.
Qed.

Lemma law_eager_relabel : forall A tb kf (t : otree A),
  law (eager tb (orelabel kf t)) = law (eager (fun u v => tb (fst (kf u v)) (snd (kf u v))) t).
Proof.
  intros A tb kf t. induction t as [a|e|u v kt IHt kf' IHf|c k IH]; cbn [orelabel eager law]; try reflexivity.
  - destruct (tb (fst (kf u v)) (snd (kf u v))); assumption.
  - f_equal. apply map_ext. intro x. rewrite IH. reflexivity.
Qed.

Lemma fresh_k_ask : forall A kf es u v (kt kf' : otree A),
  fresh_k kf es (OAsk u v kt kf') <->
  In (kf u v) es /\ fresh_k kf (rm (kf u v) es) kt /\ fresh_k kf (rm (kf u v) es) kf'.
Proof.
  intros. unfold fresh_k. cbn [orelabel fresh_in]. rewrite <- surjective_pairing. reflexivity.
Qed.

Lemma fresh_k_mono : forall A kf (t : otree A) es es', fresh_k kf es t -> incl es es' -> fresh_k kf es' t.
Proof. intros A kf t es es' H Hi. unfold fresh_k in *. eapply fresh_mono; eassumption. Qed.

Lemma fresh_k_bind : forall A B kf (P : A -> Prop) (t : otree A) (K : A -> otree B) es1 es2,
  fresh_k kf es1 t -> oall P t -> (forall a, P a -> fresh_k kf es2 (K a)) ->
  (forall e, In e es1 -> ~ In e es2) ->
  fresh_k kf (es1 ++ es2) (obind t K).
Proof.
  intros A B kf P t K. induction t as [a|e|u v kt IHt kf' IHf|c k IH]; intros es1 es2 Hf Ha HK Hd.
  - cbn [obind oall] in *. eapply fresh_k_mono; [apply HK; exact Ha|]. apply incl_appr. apply incl_refl.
  - exact I.
  - cbn [obind]. apply fresh_k_ask. apply fresh_k_ask in Hf. destruct Hf as [H1 [H2 H3]].
    cbn [oall] in Ha. destruct Ha as [Ha1 Ha2].
    split; [apply in_or_app; left; exact H1|].
    rewrite rm_app, (rm_notin (kf u v) es2 (Hd _ H1)).
    assert (Hd' : forall e, In e (rm (kf u v) es1) -> ~ In e es2).
    { intros e He. apply Hd. apply rm_In in He. apply He. }
    split; [apply IHt|apply IHf]; assumption.
  - cbn [obind]. unfold fresh_k in *. cbn [orelabel fresh_in oall] in *. intro x.
    apply IH; [apply Hf|apply Ha|exact HK|exact Hd].
Qed.

Theorem deferred_k : forall p A (f : A -> bool) kf (t : otree A) es,
  NoDup es -> fresh_k kf es t ->
  prob f (law (lazy p t)) == expect (clamp01 p) es (fun kept => prob f (law (eager (tblk kf kept) t))).
Proof.
  intros p A f kf t es Hnd Hf.
  rewrite <- (law_lazy_relabel A p kf t). rewrite (deferred p A f (orelabel kf t) es Hnd Hf).
  apply expect_ext. intro kept. rewrite law_eager_relabel.
  rewrite (eager_ext A t _ (tblk kf kept)); [reflexivity|].
  intros u v. unfold tbl, tblk. rewrite <- surjective_pairing. reflexivity.
Qed.
