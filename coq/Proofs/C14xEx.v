(* Non-vacuity instances for Props/C14x.v: a triangle with a pendant node, labels 10..40,
   relabelled by u -> 100 - u, adjacency lists listed in another order, nodelist re-ordered;
   direction-dependent transmission rates and node-dependent recovery rates. *)
From EoNV Require Import Prelude Vec Graph Rhs2D VecP C14xDef C14xRhs C14xTop.
From Coq Require Import Permutation.

Definition exA (u : node) : list node :=
  if N.eqb u 10%N then [20%N; 30%N] else if N.eqb u 20%N then [10%N; 30%N; 40%N] else if N.eqb u 30%N then [10%N; 20%N] else if N.eqb u 40%N then [20%N] else [].
Definition exG : graph := mkGraph [10; 20; 30; 40]%N exA exA false (fun _ _ => 1) (fun _ => 1) false false.
Definition ex_nodelist : list node := [30; 10; 40; 20]%N.
Definition ex_idx (u : node) : nat :=
  if N.eqb u 30%N then 0%nat else if N.eqb u 10%N then 1%nat else if N.eqb u 40%N then 2%nat else 3%nat.
Definition ex_tr (u v : node) : Q := (inject_Z (Z.of_N u) + 2 * inject_Z (Z.of_N v)) / 70.
Definition ex_rc (u : node) : Q := inject_Z (Z.of_N u) / 30.

Definition ex_phi (u : node) : node := (100 - u)%N.
Definition exA' (u : node) : list node :=
  if N.eqb u 90%N then [70%N; 80%N] else if N.eqb u 80%N then [60%N; 70%N; 90%N] else if N.eqb u 70%N then [80%N; 90%N] else if N.eqb u 60%N then [80%N] else [].
Definition exG' : graph := mkGraph [60; 90; 70; 80]%N exA' exA' false (fun _ _ => 1) (fun _ => 1) false false.
Definition ex_nl2 : list node := [20; 40; 10; 30]%N.
Definition ex_idx' (u : node) : nat :=
  if N.eqb u 80%N then 0%nat else if N.eqb u 60%N then 1%nat else if N.eqb u 90%N then 2%nat else 3%nat.
Definition ex_tr' (u v : node) : Q := ex_tr (100 - u)%N (100 - v)%N.
Definition ex_rc' (u : node) : Q := ex_rc (100 - u)%N.

Definition ex_V (sys : nat) : vec := map (fun k => inject_Z (Z.of_nat (k + 1)) / 50) (seq 0 (state_len sys 4)).

Lemma ex_relabel_ok : relabel_okb exG ex_nodelist ex_idx ex_tr ex_rc exG' ex_nl2 ex_phi ex_idx' ex_tr' ex_rc' = true.
Proof. vm_compute. reflexivity. Qed.
(* the action moves things: the re-ordered state differs from the state *)
Lemma ex_action_nontrivial : veqb (perm_state ex_idx ex_nl2 3 (ex_V 3)) (ex_V 3) = false.
Proof. vm_compute. reflexivity. Qed.
(* the right-hand side is not identically zero there *)
Lemma ex_field_nonzero : existsb (fun x => negb (Qeqb x 0)) (rhs2_node 3 exG ex_nodelist ex_idx ex_tr ex_rc (ex_V 3) 0) = true.
Proof. vm_compute. reflexivity. Qed.
(* a label-as-index slip is NOT a relabelled copy: with positional indices on the relabelled side the checker refuses *)
Lemma ex_wrong_index_refused :
  relabel_okb exG ex_nodelist ex_idx ex_tr ex_rc exG' ex_nl2 ex_phi (fun u => ex_idx (100 - u)%N) ex_tr' ex_rc' = false.
Proof. vm_compute. reflexivity. Qed.
(* and the commutation fails at this point for it (the decidable statement is not vacuous) *)
Lemma ex_wrong_index_not_equivariant :
  equivariant_at 0 exG ex_nodelist ex_idx ex_tr ex_rc exG' ex_nl2 ex_phi (fun u => ex_idx (100 - u)%N) ex_tr' ex_rc' (ex_V 0) 0 = false.
Proof. vm_compute. reflexivity. Qed.
Lemma ex_wf : nl_wfb exG ex_nodelist ex_idx = true.
Proof. vm_compute. reflexivity. Qed.
Lemma ex_adj_perm : forall u, In u ex_nodelist -> Permutation (gadj exG' (ex_phi u)) (map ex_phi (gadj exG u)).
Proof. exact (rl_adj _ _ _ _ _ _ _ _ _ _ _ (relabel_okb_spec _ _ _ _ _ _ _ _ _ _ _ ex_relabel_ok)). Qed.

(* ---------- graph isomorphism instance for the degree-based wrappers ---------- *)
From EoNV Require Import Aux IC Wrappers ICP C14xOut C14xWrap.
Definition ex_phi_g (u : node) : node := if N.leb u 100 then (100 - u)%N else u.
Lemma ex_phi_g_inj : forall u v, ex_phi_g u = ex_phi_g v -> u = v.
Proof.
  intros u v. unfold ex_phi_g. destruct (N.leb_spec u 100), (N.leb_spec v 100); lia.
Qed.
Lemma ex_iso_wf : wf_ugraph exG = true /\ wf_ugraph exG' = true.
Proof. split; vm_compute; reflexivity. Qed.
Lemma ex_iso_nodes : Permutation (gnodes exG') (map ex_phi_g (gnodes exG)).
Proof. apply permb_spec. vm_compute. reflexivity. Qed.
Lemma ex_iso_adj : forall u, In u (gnodes exG) -> Permutation (gadj exG' (ex_phi_g u)) (map ex_phi_g (gadj exG u)).
Proof. intros u [<-|[<-|[<-|[<-|[]]]]]; apply permb_spec; vm_compute; reflexivity. Qed.
(* G.edges() of the copy is NOT the renamed G.edges(): other order, other orientations *)
Lemma ex_iso_edges_differ :
  gedges exG = [(10, 20); (10, 30); (20, 30); (20, 40)]%N /\ gedges exG' = [(60, 80); (90, 70); (90, 80); (70, 80)]%N.
Proof. split; vm_compute; reflexivity. Qed.
Definition ex_rq : icreq := mkReq (Some [10; 30]%N) (Some [40]%N) None.
Lemma ex_iso_output_nontrivial :
  match row0_entry eSIRp exG ex_rq true, row0_entry eSIRp exG' (map_req ex_phi_g ex_rq) true with
  | Ok a, Ok b => negb (Nat.eqb (length a) 0) && Nat.eqb (length a) (length b)
  | _, _ => false
  end = true.
Proof. vm_compute. reflexivity. Qed.

(* ---------- simulators ---------- *)
From EoNV Require Import Samp EventSIR EventSIRP EventSIRInv EventSIRChar EventSIRTop Discrete DiscreteP C14xSim.
Lemma ex_phi_g_invol u : ex_phi_g (ex_phi_g u) = u.
Proof. unfold ex_phi_g. destruct (N.leb_spec u 100) as [H|H]; [|destruct (N.leb_spec u 100); [lia|reflexivity]].
  destruct (N.leb_spec (100 - u) 100); lia. Qed.
(* contact succeeds iff the labels are not (30, 20): 30 does not infect 20 directly *)
Definition ex_tt (u v : node) (k : nat) : bool := negb (N.eqb u 30 && N.eqb v 20).
Definition ex_tt' (u v : node) (k : nat) : bool := ex_tt (ex_phi_g u) (ex_phi_g v) k.
Lemma ex_tt_transported u v : ex_tt' (ex_phi_g u) (ex_phi_g v) O = ex_tt u v O.
Proof. unfold ex_tt'. rewrite !ex_phi_g_invol. reflexivity. Qed.
Definition ex_delay (u v : node) : xtime := if N.eqb u 10 && N.eqb v 20 then Some 3 else Some (inject_Z (Z.of_N u) / 20).
Definition ex_dur (u : node) : xtime := Some 2.
Definition ex_delay' (u v : node) : xtime := ex_delay (ex_phi_g u) (ex_phi_g v).
Definition ex_dur' (u : node) : xtime := ex_dur (ex_phi_g u).
Lemma ex_delay_transported u v : ex_delay' (ex_phi_g u) (ex_phi_g v) = ex_delay u v.
Proof. unfold ex_delay'. rewrite !ex_phi_g_invol. reflexivity. Qed.
Lemma ex_dur_transported u : ex_dur' (ex_phi_g u) = ex_dur u.
Proof. unfold ex_dur'. rewrite ex_phi_g_invol. reflexivity. Qed.
Lemma ex_sets : Permutation [90%N] (map ex_phi_g [10%N]) /\ Permutation [60%N] (map ex_phi_g [40%N]).
Proof. split; apply Permutation_refl. Qed.
Lemma ex_sim_domains :
  wf_inputb exG [10%N] [40%N] = true /\ wf_inputb exG' [90%N] [60%N] = true /\
  esir_okb exG ex_delay ex_dur [10%N] [40%N] (1#2) (Some 9) = true /\ esir_okb exG' ex_delay' ex_dur' [90%N] [60%N] (1#2) (Some 9) = true.
Proof. repeat split; vm_compute; reflexivity. Qed.
(* the epidemics are not trivial: two generations (three rows) in the discrete run, three infections in the event-driven one *)
Lemma ex_sim_nontrivial :
  (match discrete_SIR exG (det_rules ex_tt (fun _ _ => O)) None (fun _ l => l) (Some [10%N]) (Some [40%N]) None 0 None false 10 with
   | Ret out => length (so_rows (o_sim out)) | _ => O end = 3%nat) /\
  (match esir_run fifo exG ex_delay ex_dur [10%N] [40%N] (1#2) (Some 9) (esir_fuel exG [10%N]) with
   | Ok s => length (tlog s) | Err _ => O end = 3%nat).
Proof. split; vm_compute; reflexivity. Qed.

(* one RK4 step moves the example state *)
Lemma ex_rk4_moves :
  veqb (rk_iter rk4_tab rk4_b (rhs2_node 0 exG ex_nodelist ex_idx ex_tr ex_rc) (1 # 10) 0 1 (ex_V 0)) (ex_V 0) = false.
Proof. vm_compute. reflexivity. Qed.

(* ---------- fast_nonMarkov_SIS ---------- *)
From EoNV Require Import EventSIS C14xSis.
Lemma ex_iso_adj_all : forall u, Permutation (gadj exG' (ex_phi_g u)) (map ex_phi_g (gadj exG u)).
Proof.
  intros u. cbn [gadj exG exG']. unfold exA.
  destruct (N.eqb_spec u 10) as [->|N1]; [apply permb_spec; vm_compute; reflexivity|].
  destruct (N.eqb_spec u 20) as [->|N2]; [apply permb_spec; vm_compute; reflexivity|].
  destruct (N.eqb_spec u 30) as [->|N3]; [apply permb_spec; vm_compute; reflexivity|].
  destruct (N.eqb_spec u 40) as [->|N4]; [apply permb_spec; vm_compute; reflexivity|].
  cbn [map]. unfold exA', ex_phi_g.
  destruct (N.leb_spec u 100) as [L|L];
    repeat match goal with |- context [N.eqb ?a ?b] => destruct (N.eqb_spec a b); [exfalso; lia|] end; apply Permutation_refl.
Qed.
Definition ex_sdur (v : node) (k : nat) : Q := 1 + inject_Z (Z.of_N v) / 1000 + inject_Z (Z.of_nat k) / 7.
Definition ex_sdel (v w : node) (k : nat) : list Q := [(inject_Z (Z.of_N v) + 3 * inject_Z (Z.of_N w)) / 400 + inject_Z (Z.of_nat k) / 11].
Definition ex_sdur' (v : node) (k : nat) : Q := ex_sdur (ex_phi_g v) k.
Definition ex_sdel' (v w : node) (k : nat) : list Q := ex_sdel (ex_phi_g v) (ex_phi_g w) k.
Lemma ex_srules_transported : (forall u k, ex_sdur' (ex_phi_g u) k = ex_sdur u k) /\ (forall u v k, ex_sdel' (ex_phi_g u) (ex_phi_g v) k = ex_sdel u v k).
Proof. split; intros; unfold ex_sdur', ex_sdel'; rewrite !ex_phi_g_invol; reflexivity. Qed.
(* the reference run is inside its domain (all event times distinct) and is not trivial *)
Lemma ex_ref_sis_in_domain :
  match ref_sis exG ex_sdur ex_sdel (Some 3) 0 true 400 [10%N] with
  | Ok (out, ok) => ok && Nat.ltb 6 (length (so_rows out))
  | Err _ => false
  end = true.
Proof. vm_compute. reflexivity. Qed.
