(* C10 for Gillespie_SIR / Gillespie_SIS: the per-node histories of the full-data
   object are the per-node projections of ONE event log and the arrays are its
   running counts; by the generic log lemma of Proofs/InvestigationP.v the summary
   of the histories therefore equals the arrays, whenever the event times are
   strictly increasing (no two events at the same instant, none at tmin). *)
From EoNV Require Import Prelude Samp Graph ListDict ListDictP Gillespie KldP GillespieInv SampP GillespieP GillespieLog.
From EoNV Require Import Investigation InvestigationP.
From Coq Require Import Lqa.

(* status chains of one node: S -> I -> R (SIR), S -> I -> S -> ... (SIS) *)
Fixpoint chain (kind : model_kind) (s : N) (l : list N) : bool :=
  match l with
  | [] => true
  | x :: r =>
    (if N.eqb s stS then N.eqb x stI
     else if N.eqb s stI then N.eqb x (rec_status kind)
     else false) && chain kind x r
  end.

Section G.
Variable g : graph.
Variable kind : model_kind.

Definition evs_of (u : node) (evs : list ev) : list ev := filter (fun e => N.eqb (ev_node e) u) evs.

Lemma valid_chain : forall evs txs st u, valid_logb g kind st evs txs = true ->
  chain kind (st u) (map ev_st (evs_of u evs)) = true.
Proof.
  induction evs as [|[[t0 y] s] evs IH]; intros txs st u Hv; cbn [valid_logb] in Hv; [reflexivity|].
  cbn [evs_of filter ev_node fst snd].
  assert (Hstep : forall txs', valid_logb g kind (fupdN st y s) evs txs' = true ->
            (N.eqb s stI = true /\ st y = stS) \/ (s = rec_status kind /\ st y = stI) ->
            chain kind (st u) (map ev_st (if N.eqb y u then (t0, y, s) :: evs_of u evs else evs_of u evs)) = true).
  { intros txs' Hv' Hcase. specialize (IH txs' (fupdN st y s) u Hv').
    destruct (N.eqb_spec y u) as [E|E].
    - subst y. unfold fupdN in IH. rewrite N.eqb_refl in IH. cbn [map chain ev_st snd].
      fold (evs_of u evs). rewrite IH, andb_true_r.
      destruct Hcase as [[Hs Hy]|[Hs Hy]]; rewrite Hy.
      + exact Hs.
      + cbn. subst s. apply N.eqb_refl.
    - unfold fupdN in IH. destruct (N.eqb_spec u y) as [E2|_]; [exfalso; apply E; symmetry; exact E2|]. exact IH. }
  destruct (N.eqb s stI) eqn:Es.
  - destruct txs as [|[[t' [u'|]] v'] txs']; try discriminate Hv.
    repeat (apply andb_true_iff in Hv; destruct Hv as [Hv ?]).
    apply (Hstep txs'); [assumption|]. left. split; [reflexivity|].
    match goal with H : N.eqb (st y) stS = true |- _ => apply N.eqb_eq in H; exact H end.
  - repeat (apply andb_true_iff in Hv; destruct Hv as [Hv ?]).
    apply (Hstep txs); [assumption|]. right. split.
    + apply N.eqb_eq. assumption.
    + match goal with H : N.eqb (st y) stI = true |- _ => apply N.eqb_eq in H; exact H end.
Qed.

End G.

(* SIR chains are short: first_with I ++ first_with R reproduces the node's events *)
Lemma first_with_chain_SIR : forall (s0 : N) (es : list (Q * N)),
  chain SIR s0 (map snd es) = true ->
  first_with stI es ++ first_with stR es = es.
Proof.
  intros s0 es H. unfold first_with.
  destruct es as [|[t1 x1] [|[t2 x2] [|[t3 x3] r]]]; cbn [map snd chain] in H.
  - reflexivity.
  - destruct (N.eqb_spec s0 stS) as [E|E].
    + rewrite andb_true_r in H. apply N.eqb_eq in H. subst x1. reflexivity.
    + destruct (N.eqb_spec s0 stI) as [E2|E2]; [|discriminate H].
      rewrite andb_true_r in H. apply N.eqb_eq in H. subst x1. reflexivity.
  - apply andb_true_iff in H. destruct H as [H1 H2]. rewrite andb_true_r in H2.
    destruct (N.eqb_spec s0 stS) as [E|E].
    + apply N.eqb_eq in H1. subst x1. cbn in H2. apply N.eqb_eq in H2. subst x2. reflexivity.
    + destruct (N.eqb_spec s0 stI) as [E2|E2]; [|discriminate H1].
      apply N.eqb_eq in H1. subst x1. cbn in H2. discriminate H2.
  - exfalso. apply andb_true_iff in H. destruct H as [H1 H2]. apply andb_true_iff in H2. destruct H2 as [H2 H3].
    apply andb_true_iff in H3. destruct H3 as [H3 _].
    destruct (N.eqb_spec s0 stS) as [E|E].
    + apply N.eqb_eq in H1. subst x1. cbn in H2. apply N.eqb_eq in H2. subst x2. cbn in H3. discriminate H3.
    + destruct (N.eqb_spec s0 stI) as [E2|E2]; [|discriminate H1].
      apply N.eqb_eq in H1. subst x1. cbn in H2. discriminate H2.
Qed.

Lemma increasing_after : forall (evs : list ev) lo, increasing lo evs = true -> forall e, In e evs -> lo < ev_time e.
Proof.
  induction evs as [|e evs IH]; intros lo Hinc x Hx; [destruct Hx|].
  cbn [increasing] in Hinc. apply andb_true_iff in Hinc. destruct Hinc as [H1 H2]. apply Qltb_true in H1.
  destruct Hx as [E|Hx]; [subst x; exact H1|].
  eapply Qlt_trans; [exact H1|]. apply (IH (Investigation.ev_t e) H2 x Hx).
Qed.

(* hist_of on a list whose times are all after tmin appends; a first entry at tmin resets *)
Lemma hist_of_no_reset : forall kind tmin (es : list (Q * N)) h0,
  (forall e, In e es -> tmin < fst e) ->
  fold_left (fun h e => if Qeqb (fst e) tmin && (match kind with SIR => true | SIS => N.eqb (snd e) stI end)
                        then [e] else h ++ [e]) es h0 = h0 ++ es.
Proof.
  intros kind tmin es. induction es as [|e es IH]; intros h0 H; [rewrite app_nil_r; reflexivity|].
  cbn [fold_left].
  assert (Hne : Qeqb (fst e) tmin = false).
  { apply Qeqb_false. intro E. pose proof (H e (or_introl eq_refl)) as Hl. rewrite E in Hl. apply (Qlt_irrefl tmin). exact Hl. }
  rewrite Hne. cbn [andb]. rewrite IH by (intros x Hx; apply H; right; exact Hx).
  rewrite <- app_assoc. reflexivity.
Qed.

Section Run.
Variable g : graph.
Hypothesis Hg : wfg g.
Hypothesis Hnd : NoDup (gnodes g).
Hypothesis Hadj : forall u v, In v (gadj g u) -> In v (gnodes g).
Variable kind : model_kind.
Variables tau gamma tmin : Q.
Variable tmax : xtime.

Definition ps_of : list N := match kind with SIR => [stS; stI; stR] | SIS => [stS; stI] end.

Lemma census_is_counts : forall st, census g kind st = map (count_status (gnodes g) st) ps_of.
Proof. intro st. unfold census, ps_of. destruct kind; reflexivity. Qed.

(* the rows are the running counts of the log *)
Lemma rows_are_log_rows : forall (evs : list ev) st0 (rs : list row),
  map fst rs = map ev_time evs ->
  (forall k e r, nth_error evs k = Some e -> nth_error rs k = Some r ->
     snd r = census g kind (replay st0 (firstn (S k) evs))) ->
  rs = log_rows (gnodes g) ps_of st0 evs.
Proof.
  induction evs as [|e evs IH]; intros st0 rs Ht Hc.
  - destruct rs; [reflexivity|discriminate Ht].
  - destruct rs as [|r rs]; [discriminate Ht|]. cbn [map] in Ht. injection Ht as Ht1 Ht2.
    cbn [log_rows]. f_equal.
    + destruct r as [t c]. cbn [fst] in Ht1. subst t. f_equal.
      rewrite <- census_is_counts. apply (Hc 0%nat e (ev_time e, c)); reflexivity.
    + apply IH; [exact Ht2|]. intros k e' r' Hk Hr.
      rewrite (Hc (S k) e' r' Hk Hr). reflexivity.
Qed.

Lemma node_events_map_init : forall (u : node) (s : N) (l : list node), NoDup l ->
  node_events u (map (fun x => (tmin, x, s)) l) = if mem u l then [(tmin, s)] else [].
Proof.
  intros u s l. unfold node_events. induction l as [|y l IH]; intro H; [reflexivity|].
  apply NoDup_cons_iff in H. destruct H as [Hy H]. cbn [map filter fst snd mem existsb].
  rewrite (N.eqb_sym y u). destruct (N.eqb_spec u y) as [E|E].
  - subst y. cbn [orb map fst snd]. unfold node_events in IH. fold (mem u l). rewrite (IH H).
    assert (Hm : mem u l = false) by (apply mem_false; exact Hy). rewrite Hm. reflexivity.
  - cbn [orb]. fold (mem u l). apply IH. exact H.
Qed.

Lemma node_events_app : forall u a b, node_events u (a ++ b) = node_events u a ++ node_events u b.
Proof. intros. unfold node_events. rewrite filter_app, map_app. reflexivity. Qed.

Lemma node_events_evs : forall u evs,
  node_events u evs = map (fun e => (Investigation.ev_t e, Investigation.ev_s e)) (filter (fun e => N.eqb (Investigation.ev_u e) u) evs).
Proof. reflexivity. Qed.

(* the main statement *)
Theorem gillespie_summary_equals_arrays : forall i0 r0 fuel out, wf_init g kind i0 r0 ->
  reach (gillespie g kind tau gamma (Some i0) r0 None tmin tmax true fuel) out ->
  exists (evs : list ev) (fd : fulldata),
    so_full out = Some fd /\
    (increasing tmin evs = true ->
       (* histories = per-node projections of the log; arrays = its running counts *)
       fd_hist fd = iv_hist (log_inv (gnodes g) ps_of tmin (st_init i0 (r0_list kind r0)) evs) /\
       so_rows out = log_arrays (gnodes g) ps_of tmin (st_init i0 (r0_list kind r0)) evs /\
       (* hence: summary of the histories = the arrays *)
       (gnodes g <> [] ->
        summary (log_inv (gnodes g) ps_of tmin (st_init i0 (r0_list kind r0)) evs) None = Ok (so_rows out))).
Proof.
  intros i0 r0 fuel out Hwf H.
  destruct (gillespie_full_output g Hg Hnd Hadj kind tau gamma tmin tmax i0 r0 fuel out Hwf H)
    as [evs [txs [fd [rs [Hfd [Htr [Hv [_ [_ [_ [Hnodes [Hrows [Htimes [Hcen Hhist]]]]]]]]]]]]]].
  exists evs, fd. split; [exact Hfd|]. intro Hinc.
  destruct Hwf as [Hi [Hr [Hii [Hri Hdis]]]].
  set (st0 := st_init i0 (r0_list kind r0)) in *.
  assert (Hsis : kind = SIS -> r0_list kind r0 = []). { intro E. unfold r0_list. rewrite E. reflexivity. }
  (* all event times are after tmin *)
  assert (Hafter : forall e, In e evs -> tmin < ev_time e) by (apply increasing_after; exact Hinc).
  (* rows *)
  assert (Hinit : init_rows g kind tmin i0 (r0_list kind r0) = [(tmin, map (count_status (gnodes g) st0) ps_of)]).
  { destruct (init_ginv g Hg Hnd kind tmin tmax i0 (r0_list kind r0) [] [] Hi Hr Hii Hri Hdis Hsis) as [I [L [_ HG]]].
    pose proof (g_census g kind tmin tmax _ HG) as Hc. cbn [rows] in Hc.
    rewrite census_is_counts in Hc. unfold init_rows. destruct kind; cbn [hd_counts] in Hc; rewrite Hc; reflexivity. }
  assert (Hrows' : so_rows out = log_arrays (gnodes g) ps_of tmin st0 evs).
  { rewrite Hrows, Hinit. unfold log_arrays. cbn [app]. f_equal. apply rows_are_log_rows; assumption. }
  (* histories *)
  assert (Hh : fd_hist fd = iv_hist (log_inv (gnodes g) ps_of tmin st0 evs)).
  { rewrite Hhist. unfold log_inv. cbn [iv_hist]. apply map_ext_in. intros u Hu. f_equal.
    cbv zeta. rewrite !node_events_app.
    rewrite (node_events_map_init u stI i0 Hi), (node_events_map_init u stR (r0_list kind r0) Hr).
    pose proof (valid_chain g kind evs txs st0 u Hv) as Hch.
    assert (Hev : map ev_st (evs_of u evs) = map snd (node_events u evs)).
    { unfold evs_of, node_events. rewrite map_map. reflexivity. }
    rewrite Hev in Hch.
    assert (Htimes_u : forall e, In e (node_events u evs) -> tmin < fst e).
    { intros e He. unfold node_events in He. apply in_map_iff in He. destruct He as [x [E Hx]]. subst e.
      apply filter_In in Hx. cbn [fst]. apply (Hafter x). apply Hx. }
    unfold project. fold (node_events u evs).
    pose proof (st_init_I i0 (r0_list kind r0) u Hdis) as HI. pose proof (st_init_R i0 (r0_list kind r0) u) as HR.
    fold st0 in HI, HR.
    destruct (mem u i0) eqn:Ei0.
    - (* initially infected *)
      assert (Hr0 : mem u (r0_list kind r0) = false).
      { apply mem_false. intro Hin. apply mem_In in Ei0. exact (Hdis u Ei0 Hin). }
      rewrite Hr0. cbn [app]. apply N.eqb_eq in HI. rewrite HI in *.
      assert (Hes : (match kind with
                     | SIR => first_with stI ((tmin, stI) :: node_events u evs) ++ first_with stR ((tmin, stI) :: node_events u evs)
                     | SIS => (tmin, stI) :: node_events u evs end) = (tmin, stI) :: node_events u evs).
      { destruct kind; [|reflexivity]. apply (first_with_chain_SIR stS). cbn [map snd chain]. rewrite Hch. reflexivity. }
      rewrite Hes. unfold Gillespie.hist_of. cbn [fold_left fst snd]. unfold Qeqb. rewrite Qeq_bool_refl.
      assert (Hk : (match kind with SIR => true | SIS => N.eqb stI stI end) = true) by (destruct kind; reflexivity).
      rewrite Hk. cbn [andb]. rewrite (hist_of_no_reset kind tmin _ _ Htimes_u). reflexivity.
    - destruct (mem u (r0_list kind r0)) eqn:Er0.
      + (* initially recovered (SIR only) *)
        apply N.eqb_eq in HR. rewrite HR in *. cbn [app].
        assert (Ek : kind = SIR). { destruct kind; [reflexivity|]. rewrite (Hsis eq_refl) in Er0. discriminate Er0. }
        assert (Hnil : node_events u evs = []).
        { destruct (node_events u evs) as [|[t x] r]; [reflexivity|]. cbn [map snd chain] in Hch. discriminate Hch. }
        rewrite Hnil. rewrite Ek. unfold first_with. cbn [filter snd app]. unfold Gillespie.hist_of.
        change (N.eqb stR stI) with false. change (N.eqb stR stR) with true. cbn [app fold_left fst snd].
        unfold Qeqb. rewrite Qeq_bool_refl. cbn [andb].
        change (map (fun e : event => (Investigation.ev_t e, Investigation.ev_s e)) (filter (fun e : event => N.eqb (Investigation.ev_u e) u) evs))
          with (node_events u evs). rewrite Hnil. reflexivity.
      + (* initially susceptible *)
        cbn [app].
        assert (HS : st0 u = stS).
        { destruct (st_init_values i0 (r0_list kind r0) u) as [E|[E|E]]; fold st0 in E; [exact E| |]; rewrite E in *; discriminate. }
        rewrite HS in *.
        assert (Hes : (match kind with
                       | SIR => first_with stI (node_events u evs) ++ first_with stR (node_events u evs)
                       | SIS => node_events u evs end) = node_events u evs).
        { destruct kind; [|reflexivity]. apply (first_with_chain_SIR stS). exact Hch. }
        rewrite Hes. unfold Gillespie.hist_of. rewrite (hist_of_no_reset kind tmin _ _ Htimes_u). reflexivity. }
  split; [exact Hh|]. split; [exact Hrows'|].
  intro Hne. rewrite Hrows'. apply log_lemma. unfold log_okb.
  rewrite Hinc. cbn [andb].
  apply andb_true_iff. split; [apply andb_true_iff; split|].
  - (* every event is on a node of the graph with a possible status *)
    apply forallb_forall. intros e He. rewrite Forall_forall in Hnodes. destruct (Hnodes e He) as [Hn Hs].
    apply andb_true_iff. split; [apply memb_In; exact Hn|].
    unfold ps_of, rec_status in *. destruct kind; destruct Hs as [Hs|Hs]; unfold Investigation.ev_s; unfold ev_st in Hs; rewrite Hs; reflexivity.
  - apply forallb_forall. intros u Hu. unfold ps_of.
    destruct (st_init_values i0 (r0_list kind r0) u) as [E|[E|E]]; fold st0 in E; rewrite E.
    + destruct kind; reflexivity.
    + destruct kind; reflexivity.
    + pose proof (st_init_R i0 (r0_list kind r0) u) as HR. fold st0 in HR. rewrite E in HR.
      assert (Ek : kind = SIR). { destruct kind; [reflexivity|]. rewrite (Hsis eq_refl) in HR. discriminate HR. }
      rewrite Ek. reflexivity.
  - destruct (gnodes g); [contradiction Hne; reflexivity|reflexivity].
Qed.

End Run.
