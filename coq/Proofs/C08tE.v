(* C08, tree exactness: the general master equation / marginals of Model/Master.v specialise, on the single edge, to
   the 9-state generator `master1` and the layout `marginals1` that C08_pair_based_tree_exact_partial (Props/C08.v,
   Proofs/Rhs2DP.v) was stated with; and the single-edge theorem restated over the general definitions. *)
From EoNV Require Import Prelude Vec VecP Graph Rhs2D Rhs2DP Master.
From Coq Require Import Lqa.

Ltac crunch := cbv beta iota zeta delta -[Qplus Qmult Qopp Qminus Qeq Qdiv Qinv inv0 Qle].

Section Edge.
Variables (t01 t10 g0 g1 : Q).
Notation etr := (edge_tr t01 t10).
Notation erc := (edge_rc g0 g1).
Notation enl := [0%N; 1%N].

Lemma master_vec_edge pSS pSI pSR pIS pII pIR pRS pRI pRR :
  let p := [pSS; pSI; pSR; pIS; pII; pIR; pRS; pRI; pRR] in
  veq (master_vec edge_graph enl edge_idx etr erc p) (master1 t01 t10 g0 g1 p).
Proof. crunch. repeat constructor; ring. Qed.
Lemma marginals_edge pSS pSI pSR pIS pII pIR pRS pRI pRR :
  let p := [pSS; pSI; pSR; pIS; pII; pIR; pRS; pRI; pRR] in
  veq (marginals edge_graph enl (pfun p)) (marginals1 p).
Proof. crunch. repeat constructor; ring. Qed.
(* no closure on one edge: exact for EVERY p, no invariant set needed *)
Lemma edge_exact_general (p : state -> Q) t :
  veq (dSIR_pair_based edge_graph enl edge_idx etr erc (marginals edge_graph enl p) t)
      (marginals edge_graph enl (master_rhs edge_graph enl edge_idx etr erc p)).
Proof. crunch. repeat constructor; ring. Qed.
End Edge.
