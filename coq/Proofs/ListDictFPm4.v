(* Consequences of the monotonicity of rnd53 for the history of a _ListDict_:
   (a) every stored weight is a binary64 number after every history (rnd53 w == w);
   (b) the float operations on weights are monotone; an increment >= 0 never lowers the
       stored weight, a subtraction of a smaller value never goes negative;
   (c) the per-round acceptance rate with rounded thresholds is within 1 -+ eps of the
       exact one;
   (d) END TO END for the histories the simulators produce (every increment creates its
       key, weights handed in are doubles): the selection ratio with rounded thresholds
       is within [1 - 2 eps, 1 + 3 eps] of weight_k / total of the finite-map
       SPECIFICATION of Props/C16.v. *)
From EoNV Require Import Prelude Samp ListDict ListDictP ListDictF ListDictFP ListDictFPr ListDictFPr2
  ListDictFP2 ListDictFP3 ListDictFP4 ListDictFPb ListDictFPm ListDictFPm2 ListDictFPm3.
From Coq Require Import Qabs Qpower Lqa.

(* ---------- (b) monotone float operations ---------- *)
Lemma b64_fadd_mono : forall a a' b b', a <= a' -> b <= b' -> fadd rnd53 a b <= fadd rnd53 a' b'.
Proof. intros a a' b b' H1 H2. unfold fadd. apply rnd53_monotone. lra. Qed.

Lemma b64_fsub_mono : forall a a' b b', a <= a' -> b' <= b -> fsub rnd53 a b <= fsub rnd53 a' b'.
Proof. intros a a' b b' H1 H2. unfold fsub. apply rnd53_monotone. lra. Qed.

Lemma b64_fdiv_mono : forall a a' m, 0 < m -> a <= a' -> fdiv rnd53 a m <= fdiv rnd53 a' m.
Proof.
  intros a a' m Hm H. unfold fdiv. apply rnd53_monotone. unfold Qdiv.
  apply Qmult_le_compat_r; [exact H|]. apply Qlt_le_weak, Qinv_lt_0_compat, Hm.
Qed.

Lemma b64_fadd_ge : forall a d, rnd53 a == a -> 0 <= d -> a <= fadd rnd53 a d.
Proof.
  intros a d Ha Hd. unfold fadd. rewrite <- Ha at 1. apply rnd53_monotone. lra.
Qed.

Lemma b64_fsub_nonneg : forall t w, w <= t -> 0 <= fsub rnd53 t w.
Proof.
  intros t w H. unfold fsub. rewrite <- rnd53_zero. apply rnd53_monotone. lra.
Qed.

Lemma b64_fsub_le : forall t w, rnd53 t == t -> 0 <= w -> fsub rnd53 t w <= t.
Proof.
  intros t w Ht Hw. unfold fsub. rewrite <- Ht at 2. apply rnd53_monotone. lra.
Qed.

(* the left-fold float sum of non-negative doubles dominates each of its terms *)
Lemma b64_fsum_ge_acc : forall l a, rnd53 a == a -> (forall x, In x l -> 0 <= x) ->
  a <= fold_left (fadd rnd53) l a.
Proof.
  induction l as [|x l IH]; intros a Ha Hl; cbn [fold_left]; [lra|].
  assert (H1 : a <= fadd rnd53 a x) by (apply b64_fadd_ge; [exact Ha|apply Hl; left; reflexivity]).
  assert (H2 : fadd rnd53 a x <= fold_left (fadd rnd53) l (fadd rnd53 a x)).
  { apply IH; [unfold fadd; apply rnd53_idem|]. intros y Hy. apply Hl. right. exact Hy. }
  lra.
Qed.

Section B64H.
Variable K : Type.
Variable Keqb : K -> K -> bool.
Hypothesis Keqb_spec : forall a b, reflect (a = b) (Keqb a b).

(* ---------- (a) stored weights are doubles ---------- *)
Theorem b64_stored_weights_representable : forall (ops : list (op K)) (s : ld K),
  Forall (op_ok K true) ops -> ldf_run K Keqb rnd53 (ld_empty true) ops = Ok s ->
  forall k, rnd53 (wread K s k) == wread K s k.
Proof.
  intros ops s Hok He. destruct eps53_range as [H0 H1].
  assert (G : forall l s0 s1, ldf_inv K s0 -> weighted s0 = true -> minv K rnd53 s0 ->
            Forall (op_ok K true) l -> ldf_run K Keqb rnd53 s0 l = Ok s1 -> minv K rnd53 s1).
  { clear ops s Hok He. intros l. induction l as [|o l IH]; intros s0 s1 Hinv Hw Hm Hok He.
    - cbn [ListDictF.ldf_run] in He. injection He as He. subst s1. exact Hm.
    - cbn [ListDictF.ldf_run] in He. inversion Hok as [|o' ops' Ho Hops]; subst o' ops'.
      destruct (ldf_step_spec K Keqb Keqb_spec rnd53 eps53 H0 H1 rnd53_err s0 o Hinv Hw Ho)
        as [[k [_ [_ E]]]|[s2 [E [Hi2 [Hw2 _]]]]]; rewrite E in He; cbn [rbind] in He;
        [discriminate He|].
      apply (IH s2 s1 Hi2 Hw2); [|exact Hops|exact He].
      apply (step_minv K Keqb Keqb_spec rnd53 eps53 rnd53_err rnd53_proper_eq rnd53_idem
               s0 o s2 Hinv Hw Ho Hm E). }
  assert (Hm : minv K rnd53 s).
  { apply (G ops (ld_empty true) s (ldf_empty_inv K true) eq_refl); [|exact Hok|exact He].
    intros k w H. discriminate H. }
  intro k. apply (rep_wread K rnd53 eps53 rnd53_err s k Hm).
Qed.

(* an increment d >= 0 never lowers the stored weight (it may leave it unchanged:
   absorption), whatever the history before *)
Theorem b64_update_never_lowers : forall (ops : list (op K)) (s s' : ld K) k d,
  Forall (op_ok K true) ops -> ldf_run K Keqb rnd53 (ld_empty true) ops = Ok s ->
  0 <= d -> ldf_step K Keqb rnd53 s (OpUpdate k d) = Ok s' ->
  wread K s k <= wread K s' k /\ (forall x, x <> k -> wread K s' x = wread K s x).
Proof.
  intros ops s s' k d Hok He Hd Hs. destruct eps53_range as [H0 H1].
  destruct (b64_run_inv K Keqb Keqb_spec ops s Hok He) as [Hinv Hw].
  destruct (ldf_update_stores K Keqb Keqb_spec rnd53 eps53 H1 rnd53_err rnd53_proper_eq
              s k d s' Hinv Hw Hd Hs) as [_ [E [_ [_ Hx]]]].
  split.
  - rewrite E. apply b64_fadd_ge; [|exact Hd].
    apply (b64_stored_weights_representable ops s Hok He k).
  - intros x Hxk. apply (Hx x Hxk).
Qed.

(* ---------- (c) the acceptance rate ---------- *)
Theorem b64_acc_rate_relative : forall (ops : list (op K)) (s : ld K),
  Forall (op_ok K true) ops -> ldf_run K Keqb rnd53 (ld_empty true) ops = Ok s ->
  0 < wsum K s ->
  let a' := acc_rate K (thr_state K rnd53 s) in
  let a := wsum K s / (Qnat (length (items s)) * maxw s) in
  (1 - eps53) * a <= a' /\ a' <= (1 + eps53) * a /\ 0 < a' /\ a' <= 1.
Proof.
  intros ops s Hok He HW. cbv zeta.
  destruct (b64_run_inv K Keqb Keqb_spec ops s Hok He) as [Hinv Hw].
  pose proof (b64_wsum_pos_maxw_pos K Keqb Keqb_spec ops s Hok He HW) as HM.
  destruct eps53_range as [H0 _].
  destruct (thr_sum_bounds K rnd53 eps53 rnd53_err s Hinv Hw HM) as [A B].
  pose proof (thr_state_inv K rnd53 s Hinv Hw (b64_thr_all K Keqb Keqb_spec ops s Hok He HM)) as Hi.
  pose proof (thr_sum_pos K rnd53 eps53 eps53_lt1 rnd53_err s Hinv Hw HM HW) as HA.
  destruct (weighted_pos_facts K (thr_state K rnd53 s) Hi eq_refl HA) as [Hn _].
  destruct (acc_rate_01 K (thr_state K rnd53 s) Hi eq_refl HA) as [R0 R1].
  unfold acc_rate in *. cbn [thr_state items total maxw] in *.
  set (n := Qnat (length (items s))) in *. set (T := thr_sum K rnd53 s) in *.
  set (W := wsum K s) in *. set (M := maxw s) in *.
  assert (E1 : (1 - eps53) * (W / (n * M)) == ((1 - eps53) * (W / M)) / (n * 1))
    by (field; split; lra).
  assert (E2 : (1 + eps53) * (W / (n * M)) == ((1 + eps53) * (W / M)) / (n * 1))
    by (field; split; lra).
  assert (Hn1 : 0 < / (n * 1)) by (apply Qinv_lt_0_compat; lra).
  split; [|split; [|split; [exact R0|exact R1]]].
  - rewrite E1. unfold Qdiv. apply Qmult_le_compat_r; [exact A|lra].
  - rewrite E2. unfold Qdiv. apply Qmult_le_compat_r; [exact B|lra].
Qed.

(* ---------- (d) end to end against the finite-map specification ---------- *)
Definition spw (m : wmap K) (k : K) : Q := match m k with Some w => w | None => 0 end.

Theorem b64_selection_vs_specification : forall (ops : list (op K)) (s : ld K) k,
  Forall (op_ok K true) ops -> Forall (op_rep K rnd53) ops ->
  hist_fresh K Keqb (sp_empty K) ops ->
  ldf_run K Keqb rnd53 (ld_empty true) ops = Ok s ->
  let m := fold_left (sp_step K Keqb) ops (sp_empty K) in
  let W := sumQ (map (spw m) (items s)) in
  0 < W -> In k (items s) ->
  (forall x, In x (items s) <-> m x <> None) /\
  let p := ldf_threshold K rnd53 s k / thr_sum K rnd53 s in
  (1 - 2 * eps53) * (spw m k / W) <= p /\ p <= (1 + 3 * eps53) * (spw m k / W).
Proof.
  intros ops s k Hok Hrep Hfr He. cbv zeta. intros HWm Hin.
  destruct (b64_run_inv K Keqb Keqb_spec ops s Hok He) as [Hinv Hw].
  pose proof (b64_refines_fresh K Keqb Keqb_spec ops s Hok Hrep Hfr He) as Href.
  set (m := fold_left (sp_step K Keqb) ops (sp_empty K)) in *.
  assert (Hdom : forall x, In x (items s) <-> m x <> None).
  { intro x. specialize (Href x). unfold abs in Href. rewrite Hw in Href. split; intro H.
    - destruct (In_nth_error _ _ H) as [i Hi]. apply (finv_pos K s Hinv x i) in Hi.
      rewrite Hi in Href. destruct (m x); [discriminate|contradiction Href].
    - destruct (pos s x) as [i|] eqn:E.
      + apply (finv_pos K s Hinv x i) in E. apply (nth_error_In _ _ E).
      + destruct (m x); [contradiction Href|contradiction H; reflexivity]. }
  assert (Hsp : forall x, In x (items s) -> spw m x == wread K s x).
  { intros x H. specialize (Href x). unfold abs in Href. rewrite Hw in Href.
    destruct (In_nth_error _ _ H) as [i Hi]. apply (finv_pos K s Hinv x i) in Hi.
    rewrite Hi in Href. unfold spw. destruct (m x) as [y|]; [|contradiction Href].
    cbn [oQeq] in Href. symmetry. exact Href. }
  assert (EW : sumQ (map (spw m) (items s)) == wsum K s).
  { unfold wsum. apply sumQ_map_ext_in. exact Hsp. }
  split; [exact Hdom|].
  assert (HW : 0 < wsum K s) by (rewrite <- EW; exact HWm).
  destruct (b64_selection_ratio K Keqb Keqb_spec ops s k Hok He HW) as [_ [_ [C D]]].
  cbv zeta in C, D. rewrite EW, (Hsp k Hin). split; assumption.
Qed.

End B64H.

(* ---------- non-vacuity ---------- *)
(* a fresh history of doubles: every increment creates its key *)
Definition f_ops : list (op N) :=
  [OpUpdate 1%N d01; OpUpdate 2%N d03; OpInsert 3%N d07; OpRemove 2%N; OpUpdate 2%N d02].
Definition f_state : ld N :=
  match ldf_run N N.eqb rnd53 (ld_empty true) f_ops with Ok s => s | Err _ => ld_empty true end.

Definition b64_spec_example_statement : Prop :=
  Forall (op_ok N true) f_ops /\ Forall (op_rep N rnd53) f_ops /\
  hist_fresh N N.eqb (sp_empty N) f_ops /\
  ldf_run N N.eqb rnd53 (ld_empty true) f_ops = Ok f_state /\
  let m := fold_left (sp_step N N.eqb) f_ops (sp_empty N) in
  let W := sumQ (map (spw N m) (items f_state)) in
  0 < W /\ In 1%N (items f_state) /\
  let p := ldf_threshold N rnd53 f_state 1%N / thr_sum N rnd53 f_state in
  ~ p == spw N m 1%N / W.
Lemma b64_spec_example_proof : b64_spec_example_statement.
Proof.
  split.
  { unfold f_ops. repeat (apply Forall_cons;
      [vm_compute; first [exact I | split; [reflexivity|discriminate]]|]). apply Forall_nil. }
  split.
  { unfold f_ops. repeat (apply Forall_cons; [vm_compute; first [exact I|reflexivity]|]).
    apply Forall_nil. }
  split; [vm_compute; repeat split; reflexivity|].
  split; [vm_compute; reflexivity|].
  cbv zeta. split; [vm_compute; reflexivity|]. split; [vm_compute; left; reflexivity|].
  vm_compute. discriminate.
Qed.

(* absorption: an increment far below half an ulp leaves the stored weight unchanged
   (never lowers it), so "never lowers" cannot be improved to "raises" *)
Lemma b64_absorption_example :
  fadd rnd53 d07 dtiny == d07 /\ 0 < dtiny.
Proof. split; vm_compute; reflexivity. Qed.

Print Assumptions b64_stored_weights_representable.
Print Assumptions b64_update_never_lowers.
Print Assumptions b64_acc_rate_relative.
Print Assumptions b64_selection_vs_specification.
