(* the decidable hypothesis iso_okb (Proofs/C14xDef.v) implies the hypotheses of the wrapper / simulator theorems:
   the harness evaluates the extracted iso_okb on the relabelled copies it actually builds *)
From EoNV Require Import Prelude Vec Graph Rhs2D VecP Rhs2DP C14xDef C14xRhs.
From Coq Require Import Permutation Lia.

Lemma iota_In n x : In x (iota n) <-> (x < N.of_nat n)%N.
Proof.
  unfold iota. rewrite in_map_iff. split.
  - intros [k [<- Hk]]. apply in_seq in Hk. lia.
  - intros H. exists (N.to_nat x). split; [apply N2Nat.id|]. apply in_seq. lia.
Qed.
Lemma iota_NoDup n : NoDup (iota n).
Proof.
  unfold iota. apply FinFun.Injective_map_NoDup; [|apply seq_NoDup]. intros a b H. apply Nat2N.inj, H.
Qed.

Theorem iso_okb_spec g g' tbl : iso_okb g g' tbl = true ->
  (forall u v, phi_of tbl u = phi_of tbl v -> u = v) /\
  Permutation (gnodes g') (map (phi_of tbl) (gnodes g)) /\
  (forall u, In u (gnodes g) -> Permutation (gadj g' (phi_of tbl u)) (map (phi_of tbl) (gadj g u))).
Proof.
  unfold iso_okb. cbv zeta. intros H.
  apply andb_prop in H. destruct H as [H H5]. apply andb_prop in H. destruct H as [H H4].
  apply andb_prop in H. destruct H as [H H3]. apply andb_prop in H. destruct H as [H1 H2].
  apply Nat.eqb_eq in H1. apply permb_spec in H2. apply permb_spec in H4.
  split; [|split; [exact H4|]].
  - assert (ND : NoDup tbl) by (apply (Permutation_NoDup (Permutation_sym H2)), iota_NoDup).
    assert (LT : forall x, In x tbl -> (x < N.of_nat (length tbl))%N).
    { intros x Hx. rewrite H1. apply iota_In. apply (Permutation_in _ H2), Hx. }
    intros u v E. unfold phi_of in E.
    destruct (N.ltb_spec u (N.of_nat (length tbl))) as [Lu|Lu], (N.ltb_spec v (N.of_nat (length tbl))) as [Lv|Lv].
    + assert (Hu : (N.to_nat u < length tbl)%nat) by lia. assert (Hv : (N.to_nat v < length tbl)%nat) by lia.
      rewrite (nth_indep tbl u 0%N Hu), (nth_indep tbl v 0%N Hv) in E.
      apply (proj1 (NoDup_nth tbl 0%N) ND _ _ Hu Hv) in E. lia.
    + assert (Hu : (N.to_nat u < length tbl)%nat) by lia.
      pose proof (LT _ (nth_In tbl u Hu)) as B. rewrite E in B. lia.
    + assert (Hv : (N.to_nat v < length tbl)%nat) by lia.
      pose proof (LT _ (nth_In tbl v Hv)) as B. rewrite <- E in B. lia.
    + exact E.
  - intros u Hu. rewrite forallb_forall in H5. apply permb_spec, H5, Hu.
Qed.
