(* Gillespie_complex_contagion: return_full_data does not influence the run.  For EVERY draw
   script, every user model (no hypothesis at all), the plain run and the full-data run make the
   same calls to the random source and to the user's functions; when both return their rows and
   user-call logs are equal; the only possible difference is the constructor of the full-data
   object failing after the simulation. *)
From EoNV Require Import Prelude Samp Graph ListDict ListDictP Gillespie KldP SampP Complex ComplexP SimpleExecS SimpleExecFuel.
From Coq Require Import Lqa.

Definition csim (s1 s2 : cst) : Prop :=
  cstat s1 = cstat s2 /\ cnbr s1 = cnbr s2 /\ crows s1 = crows s2 /\ ccalls s1 = ccalls s2.

Definition cosim (r1 r2 : result cout) : Prop :=
  match r1, r2 with
  | Ok o1, Ok o2 => so_rows (fst o1) = so_rows (fst o2) /\ snd o1 = snd o2 /\ so_full (fst o1) = None /\ so_full (fst o2) <> None
  | Ok o1, Err e => e = KeyErr \/ e = IndexErr
  | Err e1, Err e2 => e1 = e2
  | Err _, Ok _ => False
  end.

Definition cxsim (x1 x2 : result cout * list call * list Q) : Prop :=
  cosim (fst (fst x1)) (fst (fst x2)) /\ snd (fst x1) = snd (fst x2) /\ snd x1 = snd x2.

Section Flag.
Variable g : graph.
Variable rate : smap -> node -> Q.
Variable choice : smap -> node -> N.
Variable infl : smap -> node -> list node.
Variable rstats : list N.
Variable tmin : Q.
Variable tmax : xtime.

Lemma apply_event_csim : forall t u s1 s2, csim s1 s2 ->
  match apply_event g rate choice infl rstats false t u s1, apply_event g rate choice infl rstats true t u s2 with
  | Ok a, Ok b => csim a b
  | Err e1, Err e2 => e1 = e2
  | _, _ => False
  end.
Proof.
  intros t u [st1 n1 r1 e1 c1] [st2 n2 r2 e2 c2] [E1 [E2 [E3 E4]]].
  cbn [cstat cnbr crows ccalls] in E1, E2, E3, E4. subst st2 n2 r2 c2.
  unfold apply_event. cbn [cstat cnbr crows celog ccalls].
  destruct (refresh g rate (fupdN st1 u (choice st1 u)) (Ok (n1, call_choice g st1 u :: c1)) u) as [lc1|e]; cbn [rbind]; [|reflexivity].
  destruct (fold_left (refresh g rate (fupdN st1 u (choice st1 u))) (infl (fupdN st1 u (choice st1 u)) u)
              (Ok (fst lc1, call_infl g (fupdN st1 u (choice st1 u)) u :: snd lc1))) as [lc2|e]; cbn [rbind]; [|reflexivity].
  unfold csim. cbn [cstat cnbr crows ccalls]. repeat split; reflexivity.
Qed.

Lemma cfinish_csim : forall st0 s1 s2 ds tr, csim s1 s2 ->
  cxsim (execr (cfinish g rstats tmin false st0 s1) ds tr) (execr (cfinish g rstats tmin true st0 s2) ds tr).
Proof.
  intros st0 s1 s2 ds tr [_ [_ [E3 E4]]]. unfold cfinish.
  destruct (full_check g rstats st0 (rev (celog s2))) as [[]|e] eqn:Ef; cbn [execr]; unfold cxsim; cbn [fst snd cosim so_rows so_full].
  - rewrite E3, E4. repeat split; try reflexivity. discriminate.
  - split; [|split; reflexivity]. unfold full_check in Ef.
    destruct (existsb _ (filter _ (gnodes g))); [injection Ef as Ef; left; auto|].
    destruct (filter _ (gnodes g)); [injection Ef as Ef; right; auto|discriminate].
Qed.

Lemma cloop_csim : forall st0 fuel t s1 s2 ds tr, csim s1 s2 ->
  cxsim (execr (cloop g rate choice infl rstats tmin tmax false st0 fuel t s1) ds tr)
        (execr (cloop g rate choice infl rstats tmin tmax true st0 fuel t s2) ds tr).
Proof.
  intro st0. induction fuel as [|f IH]; intros t s1 s2 ds tr Hs; rewrite !cloop_unfold;
    pose proof Hs as [E1 [E2 _]]; rewrite E2;
    (destruct (Qltb 0 (ld_total_weight key (cnbr s2))); [|apply cfinish_csim; exact Hs]);
    cbn [execr];
    (destruct (Qeqb (ld_total_weight key (cnbr s2)) 0); [unfold cxsim; cbn [fst snd cosim]; repeat split; reflexivity|]);
    (destruct ds as [|d ds']; [unfold cxsim; cbn [fst snd cosim]; repeat split; reflexivity|]);
    (destruct (Qltb d 0); [unfold cxsim; cbn [fst snd cosim]; repeat split; reflexivity|]);
    unfold loop_body; (destruct (xlt (t + d) tmax); [|apply cfinish_csim; exact Hs]).
  - cbn [execr]. unfold cxsim; cbn [fst snd cosim]. repeat split; reflexivity.
  - unfold event. rewrite !execr_bind. unfold jump. rewrite E1, E2.
    destruct (execr (Choose true (kl_cands (cnbr s2))
                (fun c => match keynode c with Ok u => Ret (u, choice (cstat s2) u) | Err e => Fail e end))
              ds' (CExpo (ld_total_weight key (cnbr s2)) :: tr)) as [[[un|e] tr1] ds1];
      [|unfold cxsim; cbn [fst snd cosim]; repeat split; reflexivity].
    pose proof (apply_event_csim (t + d) (fst un) s1 s2 Hs) as Hf.
    destruct (apply_event g rate choice infl rstats false (t + d) (fst un) s1) as [a1|e1],
             (apply_event g rate choice infl rstats true (t + d) (fst un) s2) as [a2|e2];
      try contradiction; cbn [liftc execr].
    + apply IH. exact Hf.
    + subst e2. unfold cxsim; cbn [fst snd cosim]. repeat split; reflexivity.
Qed.

Theorem complex_flag_independent : forall (ic : node -> option N) fuel ds,
  let r1 := exec (complex g rate choice infl rstats tmin tmax false ic fuel) ds [] in
  let r2 := exec (complex g rate choice infl rstats tmin tmax true ic fuel) ds [] in
  snd r1 = snd r2 /\ cosim (fst r1) (fst r2).
Proof.
  intros ic fuel ds. cbv zeta. unfold complex.
  destruct (forallb _ (gnodes g)); [|cbn [exec fst snd cosim]; split; reflexivity].
  destruct (fill g rate (fun u => match ic u with Some s => s | None => 0%N end)) as [lc|e]; cbn [liftc];
    [|cbn [exec fst snd cosim]; split; reflexivity].
  rewrite !execr_exec. cbn [fst snd].
  match goal with |- context [cloop _ _ _ _ _ _ _ false ?st0 fuel tmin ?s] =>
    destruct (cloop_csim st0 fuel tmin s s ds []) as [H1 [H2 _]]; [repeat split; reflexivity|] end.
  split; [rewrite H2; reflexivity|exact H1].
Qed.

End Flag.
