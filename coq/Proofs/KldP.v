(* Facts about _ListDict_ instantiated at keys (lists of N), in the form the
   simulator proofs use them: the effect of one update / remove on the
   abstraction [abs], key by key. *)
From EoNV Require Import Prelude Samp Graph ListDict ListDictP Gillespie.
From Coq Require Import Lqa.

Lemma keqb_spec : forall a b : key, reflect (a = b) (keqb a b).
Proof.
  induction a as [|x a IH]; intros [|y b]; cbn [keqb].
  - constructor. reflexivity.
  - constructor. discriminate.
  - constructor. discriminate.
  - destruct (N.eqb_spec x y) as [E|E]; cbn [andb].
    + destruct (IH b) as [E2|E2]; constructor; [subst; reflexivity|].
      intro H. injection H as _ H2. contradiction.
    + constructor. intro H. injection H as H1 _. contradiction.
Qed.

Lemma keqb_refl : forall k, keqb k k = true.
Proof. intro k. destruct (keqb_spec k k); [reflexivity|contradiction]. Qed.
Lemma keqb_neq : forall a b, a <> b -> keqb a b = false.
Proof. intros a b H. destruct (keqb_spec a b); [contradiction|reflexivity]. Qed.

Notation kinv := (ld_inv key).
Notation kabs := (abs key).

Lemma kabs_none_pos : forall (s : kld) k, kabs s k = None <-> pos s k = None.
Proof.
  intros s k. rewrite (abs_unfold key). destruct (pos s k); split; intro H; try discriminate; reflexivity.
Qed.

(* update of an absent key: it appears with the given weight (1 when unweighted),
   nothing else changes *)
Lemma kl_update_absent : forall (L : kld) k flag w,
  kinv L -> weighted L = flag -> 0 <= w -> kabs L k = None ->
  exists L', kl_update L k (wopt flag w) = Ok L' /\ kinv L' /\ weighted L' = flag /\
             oQeq (kabs L' k) (Some (if flag then w else 1)) /\
             forall x, x <> k -> oQeq (kabs L' x) (kabs L x).
Proof.
  intros L k flag w Hinv Hw Hnn Habs. unfold kl_update, wopt. destruct flag.
  - destruct (ld_update_some_spec key keqb keqb_spec L k w Hinv Hw Hnn) as [L' [He [Hi [Hw' Ha]]]].
    exists L'. split; [exact He|]. split; [exact Hi|]. split; [exact Hw'|]. split.
    + eapply oQeq_trans; [apply Ha|]. unfold sp_update, fupd. rewrite keqb_refl, Habs.
      cbn [oQeq]. reflexivity.
    + intros x Hx. eapply oQeq_trans; [apply Ha|]. unfold sp_update, fupd.
      rewrite (keqb_neq x k Hx). apply oQeq_refl.
  - destruct (ld_add_spec key keqb keqb_spec L k Hinv Hw) as [L' [He [Hi [Hw' Ha]]]].
    exists L'. split; [exact He|]. split; [exact Hi|]. split; [exact Hw'|]. split.
    + eapply oQeq_trans; [apply Ha|]. unfold sp_add_unweighted, fupd. rewrite Habs, keqb_refl.
      cbn [oQeq]. reflexivity.
    + intros x Hx. eapply oQeq_trans; [apply Ha|]. unfold sp_add_unweighted, fupd. rewrite Habs.
      rewrite (keqb_neq x k Hx). apply oQeq_refl.
Qed.

(* remove of a present key: it disappears, nothing else changes *)
Lemma kl_remove_present : forall (L : kld) k,
  kinv L -> kabs L k <> None ->
  exists L', kl_remove L k = Ok L' /\ kinv L' /\ weighted L' = weighted L /\
             kabs L' k = None /\ forall x, x <> k -> kabs L' x = kabs L x.
Proof.
  intros L k Hinv Hp. unfold kl_remove.
  destruct (ld_remove_cases key keqb keqb_spec L k Hinv) as [[Hn _]|[_ [L' [He [Hi [Hw Ha]]]]]].
  - exfalso. apply Hp. apply kabs_none_pos. exact Hn.
  - exists L'. split; [exact He|]. split; [exact Hi|]. split; [exact Hw|]. split.
    + rewrite Ha. unfold sp_remove, fupd. rewrite keqb_refl. reflexivity.
    + intros x Hx. rewrite Ha. unfold sp_remove, fupd. rewrite (keqb_neq x k Hx). reflexivity.
Qed.

Lemma oQeq_none_l : forall a, oQeq a None -> a = None.
Proof. intros [x|] H; [contradiction|reflexivity]. Qed.
Lemma oQeq_some_not_none : forall a q, oQeq a (Some q) -> a <> None.
Proof. intros [x|] q H; [discriminate|contradiction]. Qed.

(* the empty structure *)
Lemma kl_empty_abs : forall w k, kabs (kl_empty w) k = None.
Proof. intros w k. reflexivity. Qed.
Lemma kl_empty_inv : forall w, kinv (kl_empty w).
Proof. intro w. apply (ld_empty_inv key). Qed.

(* total_weight is the sum of the abstract weights over the item list *)
Lemma kl_total : forall L : kld, kinv L ->
  ld_total_weight key L == sumQ (map (absw key L) (items L)).
Proof. intros L H. apply (ld_total_exact key). exact H. Qed.

Lemma kl_items_abs : forall (L : kld) k, kinv L -> (In k (items L) <-> kabs L k <> None).
Proof.
  intros L k Hinv. rewrite (abs_unfold key). split.
  - intro Hin. apply (pos_in key _ _ (inv_pos key L Hinv)) in Hin.
    destruct (pos L k); [discriminate|contradiction Hin; reflexivity].
  - intro H. destruct (pos L k) as [i|] eqn:Hp; [|contradiction H; reflexivity].
    apply nth_error_In with i. apply (inv_pos key L Hinv). exact Hp.
Qed.
