(* Gillespie_simple_contagion: the event log of a run.  Every [srun] (Proofs/SimpleExec.v)
   is, event by event, a chronological list of specification events [gev] (time, node,
   status before, status after, inducing neighbour or None), each LEGAL in the statuses of
   that moment ([ev_legal]: a spontaneous edge A->B of H with positive rate at a node of
   status A, or an edge (A,B)->(A,C) of J with positive rate at an ordered pair (u,v), v a
   successor of u, statuses (A,B)); and the three outputs of the loop -- the count rows,
   the node_history appends, the transmissions -- are projections of that one log. *)
From EoNV Require Import Prelude Samp Graph ListDict ListDictP Gillespie KldP GillespieInv SampP Simple SimpleP SimpleExecS SimpleExec.
From EoNV Require Export GenxChk.
From Coq Require Import Permutation Lqa.

Lemma ev_rows_app : forall g rstat a st b,
  ev_rows g rstat st (a ++ b) =
  ev_rows g rstat st a ++ ev_rows g rstat (fold_left (fun f e => fupdN f (ge_node e) (ge_new e)) a st) b.
Proof.
  intros g rstat. induction a as [|e a IH]; intros st b; [reflexivity|].
  cbn [app ev_rows fold_left]. rewrite IH. reflexivity.
Qed.

Section Log.
Variable g : graph.
Hypothesis Hg : wfg2 g.
Variables sp_trs in_trs : list trans.      (* the spec edges of H and of J *)
Variable rstat : list N.
Variable tmax : xtime.
Variable full : bool.

Definition ev_legal (st : node -> N) (e : gev) : Prop :=
  In (ge_node e) (gnodes g) /\ st (ge_node e) = ge_old e /\
  match ge_src e with
  | None => exists tr, In tr sp_trs /\ 0 < tr_rate tr /\ tr_from tr = [ge_old e] /\ hd_status (tr_to tr) = ge_new e
  | Some u => In u (gnodes g) /\ In (ge_node e) (gadj g u) /\
      exists tr, In tr in_trs /\ 0 < tr_rate tr /\ tr_from tr = [st u; ge_old e] /\ snd_status (tr_to tr) = ge_new e
  end.

(* a chronological log of legal events from (statuses st, clock t) to (st', t') *)
Inductive glog : (node -> N) -> Q -> list gev -> (node -> N) -> Q -> Prop :=
| gl_nil : forall st t, glog st t [] st t
| gl_cons : forall st t e l st' t', ev_legal st e -> t <= ge_t e -> xlt (ge_t e) tmax = true ->
    glog (fupdN st (ge_node e) (ge_new e)) (ge_t e) l st' t' -> glog st t (e :: l) st' t'.

Lemma slot_rate_pos_rate : forall s sl, SInv g s -> In sl (slots s) -> 0 < slot_rate sl -> 0 < tr_rate (sl_tr sl).
Proof.
  intros s sl HI Hin Hpos.
  pose proof (slot_inv_of g s sl HI Hin) as Hok.
  pose proof (total_weight_aw _ (so_inv sl Hok)) as Htw.
  assert (Hnn : 0 <= ld_total_weight key (sl_pot sl)).
  { rewrite Htw. apply sumQ_nonneg. intros x Hx. apply in_map_iff in Hx. destruct Hx as [y [E _]]. subst x.
    apply aw_nonneg. exact (so_inv sl Hok). }
  unfold slot_rate in Hpos.
  destruct (Qlt_le_dec 0 (tr_rate (sl_tr sl))) as [H|H]; [exact H|exfalso].
  assert (H2 : tr_rate (sl_tr sl) * ld_total_weight key (sl_pot sl) <= 0).
  { rewrite <- (Qmult_0_l (ld_total_weight key (sl_pot sl))). apply Qmult_le_compat_r; assumption. }
  lra.
Qed.

(* one step of the loop is one legal event, and it is what the three outputs record *)
Lemma step_log : forall t s l t1 s1, SInv g s ->
  map sl_tr (s_sp s) = sp_trs -> map sl_tr (s_in s) = in_trs ->
  step g rstat tmax full t s l t1 s1 ->
  exists e, ev_legal (s_stat s) e /\ ge_t e = t1 /\ t <= t1 /\ xlt t1 tmax = true /\
    s_stat s1 = fupdN (s_stat s) (ge_node e) (ge_new e) /\
    s_rows s1 = (t1, next_counts rstat (hd_counts (s_rows s)) (ge_old e) (ge_new e)) :: s_rows s /\
    s_elog s1 = (if full then [ev3 e] else []) ++ s_elog s /\
    s_tlog s1 = (if full then ev_tx e else []) ++ s_tlog s.
Proof.
  intros t s l t1 s1 HI Esp Ein [Htot [d [i [a [sl [l0 [Hd [Et1 [Hx [Hn [Hpos [Hs [Hw [Ef _]]]]]]]]]]]]]].
  assert (Hrate : 0 < tr_rate (sl_tr sl)) by (apply (slot_rate_pos_rate s sl HI (nth_error_In _ _ Hn) Hpos)).
  assert (Htt : t <= t1) by (subst t1; lra).
  unfold fire in Ef. cbn [fst snd] in Ef. unfold slots in Hn. rewrite Hn in Ef. revert Ef.
  destruct (Nat.ltb_spec i (length (s_sp s))) as [Hi|Hi]; intro Ef.
  - pose proof (nth_error_app_l _ _ _ _ Hi Hn) as Hin.
    pose proof (si_sp g s HI) as HF. rewrite Forall_forall in HF. destruct (HF sl Hin) as [_ [_ Hag]].
    destruct (sp_spec_some g (s_stat s) sl a (oQeq_not_none _ _ (Hag a) Hs)) as [u [Ea [Hu Hfrom]]].
    subst a.
    destruct (apply_spont_ok g Hg rstat full t1 (sl_tr sl) u s HI Hu Hfrom) as [s1' [E [_ [Hst [Hrows [Hel [Htl _]]]]]]].
    pose proof (eq_trans (eq_sym E) Ef) as X. injection X as X. subst s1'.
    exists (mkEv t1 u (s_stat s u) (hd_status (tr_to (sl_tr sl))) None). cbn [ge_t ge_node ge_old ge_new ge_src].
    split.
    { split; [exact Hu|]. split; [reflexivity|]. cbn [ge_src ge_old ge_new].
      exists (sl_tr sl). split; [rewrite <- Esp; apply in_map; exact Hin|]. split; [exact Hrate|]. split; [exact Hfrom|reflexivity]. }
    split; [reflexivity|]. split; [exact Htt|]. split; [exact Hx|]. split; [exact Hst|]. split; [exact Hrows|].
    unfold ev3, ev_tx. cbn [ge_t ge_node ge_new ge_src]. split.
    + rewrite Hel. destruct full; reflexivity.
    + rewrite Htl. destruct full; reflexivity.
  - pose proof (nth_error_app_r _ _ _ _ Hi Hn) as Hin.
    pose proof (si_in g s HI) as HF. rewrite Forall_forall in HF. destruct (HF sl Hin) as [_ [_ Hag]].
    destruct (in_spec_some g (s_stat s) sl a (oQeq_not_none _ _ (Hag a) Hs)) as [u [v [Ea [Hu [Hv Hfrom]]]]].
    subst a.
    assert (Hvn : In v (gnodes g)) by (apply (g_adj_in g Hg u v Hu Hv)).
    destruct (apply_induced_ok g Hg rstat full t1 (sl_tr sl) u v s HI Hvn Hfrom) as [s1' [E [_ [Hst [Hrows [Hel [Htl _]]]]]]].
    pose proof (eq_trans (eq_sym E) Ef) as X. injection X as X. subst s1'.
    exists (mkEv t1 v (s_stat s v) (snd_status (tr_to (sl_tr sl))) (Some u)). cbn [ge_t ge_node ge_old ge_new ge_src].
    split.
    { split; [exact Hvn|]. split; [reflexivity|]. cbn [ge_src ge_old ge_new ge_node].
      split; [exact Hu|]. split; [exact Hv|].
      exists (sl_tr sl). split; [rewrite <- Ein; apply in_map; exact Hin|]. split; [exact Hrate|]. split; [exact Hfrom|reflexivity]. }
    split; [reflexivity|]. split; [exact Htt|]. split; [exact Hx|]. split; [exact Hst|]. split; [exact Hrows|].
    unfold ev3, ev_tx. cbn [ge_t ge_node ge_new ge_src]. split.
    + rewrite Hel. destruct full; reflexivity.
    + rewrite Htl. destruct full; reflexivity.
Qed.

(* a whole run: one log, three projections *)
Lemma srun_log : forall t s l t' s', srun g rstat tmax full t s l t' s' ->
  SInv g s -> RInv g rstat s -> map sl_tr (s_sp s) = sp_trs -> map sl_tr (s_in s) = in_trs ->
  exists evs, glog (s_stat s) t evs (s_stat s') t' /\
    s_rows s' = rev (ev_rows g rstat (s_stat s) evs) ++ s_rows s /\
    s_elog s' = (if full then rev (map ev3 evs) else []) ++ s_elog s /\
    s_tlog s' = (if full then rev (flat_map ev_tx evs) else []) ++ s_tlog s.
Proof.
  intros t s l t' s' H. induction H as [t s|t s l1 t1 s1 l2 t2 s2 Hs Hr IH]; intros HI HR Esp Ein.
  - exists []. split; [constructor|]. cbn [ev_rows map flat_map rev]. destruct full; repeat split; reflexivity.
  - destruct (step_log t s l1 t1 s1 HI Esp Ein Hs) as [e [Hleg [Et [Htt [Hx [Hst [Hrows [Hel Htl]]]]]]]].
    destruct (step_inv g Hg rstat tmax full t s l1 t1 s1 HI HR Hs) as [HI1 [HR1 [F1 F2]]].
    destruct (IH HI1 HR1 (eq_trans F1 Esp) (eq_trans F2 Ein)) as [evs [Hlog [Rrows [Rel Rtl]]]].
    exists (e :: evs). split.
    { constructor; [exact Hleg|rewrite Et; exact Htt|rewrite Et; exact Hx|]. rewrite Et, <- Hst. exact Hlog. }
    assert (Hrow : s_rows s1 = (ge_t e, census g rstat (fupdN (s_stat s) (ge_node e) (ge_new e))) :: s_rows s).
    { rewrite Hrows, Et. f_equal. f_equal. destruct Hleg as [Hm [Hold _]]. rewrite <- Hold.
      unfold RInv in HR. rewrite HR. apply (next_counts_track g (g_nodup g Hg)). exact Hm. }
    split; [|split].
    + rewrite Rrows, Hrow. cbn [ev_rows rev]. rewrite <- Hst, <- app_assoc. reflexivity.
    + rewrite Rel, Hel. destruct full; cbn [map rev app]; [rewrite <- app_assoc; reflexivity|reflexivity].
    + rewrite Rtl, Htl. destruct full; cbn [flat_map app]; [|reflexivity].
      rewrite rev_app_distr, <- app_assoc. unfold ev_tx. destruct (ge_src e); reflexivity.
Qed.

(* reading [glog] *)
Lemma glog_times : forall st t evs st' t', glog st t evs st' t' ->
  t <= t' /\ Forall (fun e => t <= ge_t e /\ ge_t e <= t' /\ xlt (ge_t e) tmax = true) evs.
Proof.
  intros st t evs st' t' H. induction H as [st t|st t e l st' t' Hl Ht Hx Hr [IH1 IH2]]; [split; [lra|constructor]|].
  split; [lra|]. constructor; [split; [exact Ht|split; [exact IH1|exact Hx]]|].
  eapply Forall_impl; [|exact IH2]. intros x [A [B C]]. split; [lra|split; assumption].
Qed.

Lemma glog_sorted : forall st t evs st' t', glog st t evs st' t' ->
  forall a e1 e2 b, evs = a ++ e1 :: e2 :: b -> ge_t e1 <= ge_t e2.
Proof.
  intros st t evs st' t' H. induction H as [st t|st t e l st' t' Hl Ht Hx Hr IH]; intros a e1 e2 b E.
  - destruct a; discriminate E.
  - destruct a as [|x a]; cbn [app] in E; injection E as E1 E2.
    + subst e l. inversion Hr; subst. assumption.
    + eapply IH. exact E2.
Qed.

Lemma glog_final : forall st t evs st' t', glog st t evs st' t' ->
  st' = fold_left (fun f e => fupdN f (ge_node e) (ge_new e)) evs st.
Proof.
  intros st t evs st' t' H. induction H; [reflexivity|]. cbn [fold_left]. assumption.
Qed.

Lemma glog_app : forall st t a st1 t1 b st2 t2, glog st t a st1 t1 -> glog st1 t1 b st2 t2 -> glog st t (a ++ b) st2 t2.
Proof.
  intros st t a st1 t1 b st2 t2 H. induction H as [|st t e l st' t' Hl Ht Hx Hr IH]; intro K; [exact K|].
  cbn [app]. constructor; try assumption. apply IH. exact K.
Qed.

Lemma glog_split : forall st t a b st2 t2, glog st t (a ++ b) st2 t2 ->
  exists st1 t1, glog st t a st1 t1 /\ glog st1 t1 b st2 t2.
Proof.
  intros st t a. revert st t. induction a as [|e a IH]; intros st t b st2 t2 H.
  - exists st, t. split; [constructor|exact H].
  - cbn [app] in H. inversion H; subst.
    match goal with Hr : glog _ _ (a ++ b) _ _ |- _ => destruct (IH _ _ _ _ _ Hr) as [st1 [t1 [Ha Hb]]] end.
    exists st1, t1. split; [constructor; assumption|exact Hb].
Qed.

End Log.
