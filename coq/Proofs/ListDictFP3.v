(* _ListDict_ under rounded arithmetic, part 3: update_total_weight (the left fold
   of rounded additions), the drift guard of Gillespie_simple_contagion, and the
   accept thresholds fl(weight/max_weight) of choose_random. *)
From EoNV Require Import Prelude Samp ListDict ListDictP ListDictF ListDictFP.
From Coq Require Import Qabs Lqa.

Section FP3.
Variable K : Type.
Variable Keqb : K -> K -> bool.
Hypothesis Keqb_spec : forall a b, reflect (a = b) (Keqb a b).
Variable rnd : Q -> Q.
Variable eps : Q.
Hypothesis eps_nonneg : 0 <= eps.
Hypothesis eps_le1 : eps <= 1.
Hypothesis rnd_err : forall x, Qabs (rnd x - x) <= eps * Qabs x.

Notation ld := (ld K).
Notation wread := (wread K).
Notation wsum := (wsum K).
Notation drift := (drift K).
Notation g := (g eps).
Notation gam := (gam eps).

Let rnd_nn := rnd_nonneg rnd eps eps_le1 rnd_err.

(* ---------- a left fold of rounded additions of non-negative terms ---------- *)
Lemma fold_fadd_bound : forall l a P j,
  0 <= a -> 0 <= P -> Qabs (a - P) <= gam j * P -> (forall x, In x l -> 0 <= x) ->
  0 <= fold_left (fadd rnd) l a /\
  Qabs (fold_left (fadd rnd) l a - (P + sumQ l)) <= gam (j + length l) * (P + sumQ l).
Proof.
  induction l as [|x l IH]; intros a P j Ha HP Hd Hnn.
  - cbn [fold_left length]. rewrite Nat.add_0_r. split; [exact Ha|].
    unfold sumQ. cbn [fold_right].
    setoid_replace (a - (P + 0)) with (a - P) by ring.
    setoid_replace (P + 0) with P by ring. exact Hd.
  - cbn [fold_left length]. rewrite sumQ_cons.
    assert (Hx : 0 <= x) by (apply Hnn; left; reflexivity).
    assert (Hax : 0 <= a + x) by lra.
    assert (Ha' : 0 <= fadd rnd a x) by (apply rnd_nn; exact Hax).
    assert (Hd' : Qabs (fadd rnd a x - (P + x)) <= gam (S j) * (P + x)).
    { unfold fadd.
      pose proof (rnd_err (a + x)) as He. rewrite (Qabs_pos (a + x) Hax) in He.
      apply Qabs_Qle_condition in He. apply Qabs_Qle_condition in Hd.
      pose proof (g_ge1 eps eps_nonneg j) as Hg.
      (* a + x <= g j * (P + x) *)
      assert (E1 : gam j * P == g j * P - P) by (unfold ListDictFP.gam; ring).
      assert (H1 : 1 * x <= g j * x) by (apply Qmult_le_compat_r; assumption).
      assert (H2 : a + x <= g j * (P + x)) by lra.
      assert (H3 : eps * (a + x) <= eps * (g j * (P + x))) by (apply Qmult_le_nonneg_l; assumption).
      assert (E2 : gam (S j) * (P + x) == eps * (g j * (P + x)) + (g j * (P + x) - (P + x))).
      { unfold ListDictFP.gam. rewrite g_S. ring. }
      assert (H4 : gam j * P <= g j * (P + x) - (P + x)) by lra.
      apply Qabs_Qle_condition. rewrite E2. split; lra. }
    destruct (IH (fadd rnd a x) (P + x) (S j) Ha' ltac:(lra) Hd'
                 (fun y Hy => Hnn y (or_intror Hy))) as [H1 H2].
    split; [exact H1|].
    replace (j + S (length l))%nat with (S j + length l)%nat by lia.
    setoid_replace (P + (x + sumQ l)) with (P + x + sumQ l) by ring. exact H2.
Qed.

Lemma fsum_bound : forall l, (forall x, In x l -> 0 <= x) ->
  0 <= fsum rnd l /\ Qabs (fsum rnd l - sumQ l) <= gam (length l) * sumQ l.
Proof.
  intros l Hnn. unfold fsum.
  destruct (fold_fadd_bound l 0 0 0 ltac:(lra) ltac:(lra)) as [H1 H2]; [|exact Hnn|].
  - setoid_replace (0 - 0) with 0 by ring. change (Qabs 0) with 0. lra.
  - split; [exact H1|]. cbn [Nat.add] in H2.
    setoid_replace (0 + sumQ l) with (sumQ l) in H2 by ring. exact H2.
Qed.

(* ---------- update_total_weight() ---------- *)
Theorem ldf_resum_spec : forall s, ldf_inv K s -> weighted s = true ->
  wsum (ldf_resum K rnd s) = wsum s /\
  0 <= total (ldf_resum K rnd s) /\
  Qabs (drift (ldf_resum K rnd s)) <= gam (length (items s)) * wsum s.
Proof.
  intros s Hinv Hw.
  assert (Hnn : forall x, In x (map (wread s) (items s)) -> 0 <= x).
  { intros x Hx. apply in_map_iff in Hx. destruct Hx as [k [E _]]. subst x.
    apply fwread_nonneg; assumption. }
  destruct (fsum_bound _ Hnn) as [H1 H2]. rewrite map_length in H2.
  split; [reflexivity|]. split; [exact H1|exact H2].
Qed.

(* ---------- the drift guard of Gillespie_simple_contagion ---------- *)
(* if total_weight() < cut and total_weight() != 0: update_total_weight().
   After the guard the rate is never negative, and a rate below the cutoff is either
   exactly 0 or has RELATIVE accuracy gam (number of candidates). *)
Theorem ldf_guard_nonneg : forall cut s, ldf_inv K s -> weighted s = true -> 0 < cut ->
  let s' := ldf_guard K rnd cut s in
  wsum s' = wsum s /\ items s' = items s /\ 0 <= total s' /\
  (total s' < cut -> total s' == 0 \/ Qabs (drift s') <= gam (length (items s)) * wsum s).
Proof.
  intros cut s Hinv Hw Hcut. cbv zeta. unfold ldf_guard.
  destruct (Qltb (total s) cut && negb (Qeqb (total s) 0)) eqn:E.
  - destruct (ldf_resum_spec s Hinv Hw) as [H1 [H2 H3]].
    split; [exact H1|]. split; [reflexivity|]. split; [exact H2|]. intros _. right. exact H3.
  - split; [reflexivity|]. split; [reflexivity|].
    apply andb_false_iff in E. destruct E as [E|E].
    + apply Qltb_false in E. split; [lra|]. intro H. lra.
    + apply negb_false_iff in E. apply Qeqb_true in E. split; [lra|]. intros _. left. exact E.
Qed.

(* ---------- accept thresholds of choose_random ---------- *)
(* the threshold is one rounding of weight/max_weight: within a factor 1 -+ eps of it,
   exactly 0 for a zero weight, positive for a positive weight *)
Theorem ldf_threshold_bounds : forall s k, ldf_inv K s -> weighted s = true -> 0 < maxw s ->
  let q := wread s k / maxw s in
  (1 - eps) * q <= ldf_threshold K rnd s k /\ ldf_threshold K rnd s k <= (1 + eps) * q /\
  (eps < 1 -> 0 < wread s k -> 0 < ldf_threshold K rnd s k).
Proof.
  intros s k Hinv Hw HM. cbv zeta. unfold ldf_threshold, fdiv.
  pose proof (fwread_nonneg K s k Hinv Hw) as Hw0.
  assert (Hq : 0 <= wread s k / maxw s).
  { unfold Qdiv. apply Qmult_le_0_compat; [exact Hw0|]. apply Qlt_le_weak. apply Qinv_lt_0_compat. exact HM. }
  split; [apply (rnd_ge rnd eps rnd_err); exact Hq|].
  split; [apply (rnd_le rnd eps rnd_err); exact Hq|].
  intros He Hwp.
  assert (Hqp : 0 < wread s k / maxw s).
  { unfold Qdiv. apply Qmult_lt_0_compat; [exact Hwp|]. apply Qinv_lt_0_compat. exact HM. }
  pose proof (rnd_ge rnd eps rnd_err _ Hq) as H1.
  assert (H2 : 0 < (1 - eps) * (wread s k / maxw s)) by (apply Qmult_lt_0_compat; lra).
  lra.
Qed.

End FP3.
