(* Full-data outputs of the Gillespie_SIR / Gillespie_SIS model: the event log,
   the transmission list and the rows are three views of ONE sequence of enabled
   events (C09, C10).  [lock] ties them event by event; it is an invariant of
   every run, and the output-level statements are read off from it. *)
From EoNV Require Import Prelude Samp Graph ListDict ListDictP Gillespie KldP GillespieInv SampP GillespieP.
From Coq Require Import Lqa.

Definition ev := (Q * node * N)%type.                 (* time, node, new status *)
Definition tx := (Q * option node * node)%type.       (* time, source, target *)
Definition ev_time (e : ev) : Q := fst (fst e).
Definition ev_node (e : ev) : node := snd (fst e).
Definition ev_st (e : ev) : N := snd e.
Definition apply_ev (st : node -> N) (e : ev) : node -> N := fupdN st (ev_node e) (ev_st e).
Definition replay (st0 : node -> N) (evs : list ev) : node -> N := fold_left apply_ev evs st0.

Section Log.
Variable g : graph.
Variable kind : model_kind.
Variable tmin : Q.
Variable tmax : xtime.

Notation census := (census g kind).
Notation rec_status := (rec_status kind).

(* [lock st0 rows0 evs txs rws st]: lists newest first.  Every event is enabled in the
   state before it (a recovery hits an infectious node; a transmission goes along an
   edge from an infectious to a susceptible node), is logged once in [evs], a
   transmission once in [txs] with the same time and target, and the row pushed for it
   is the census of the state after it, at a time not before the previous row and
   before tmax. *)
Inductive lock (st0 : node -> N) (rows0 : list row) : list ev -> list tx -> list row -> (node -> N) -> Prop :=
| lock_nil : lock st0 rows0 [] [] rows0 st0
| lock_rec : forall evs txs rws st t u,
    lock st0 rows0 evs txs rws st -> st u = stI -> In u (gnodes g) ->
    (match rws with (t0, _) :: _ => t0 <= t | [] => True end) -> xlt t tmax = true ->
    lock st0 rows0 ((t, u, rec_status) :: evs) txs ((t, census (fupdN st u rec_status)) :: rws) (fupdN st u rec_status)
| lock_tr : forall evs txs rws st t u v,
    lock st0 rows0 evs txs rws st -> st u = stI -> st v = stS -> In v (gadj g u) -> In v (gnodes g) ->
    (match rws with (t0, _) :: _ => t0 <= t | [] => True end) -> xlt t tmax = true ->
    lock st0 rows0 ((t, v, stI) :: evs) ((t, Some u, v) :: txs) ((t, census (fupdN st v stI)) :: rws) (fupdN st v stI).

(* ---- reading [lock] ---- *)
(* the final statuses are the replay of the log *)
Lemma lock_replay : forall st0 rows0 evs txs rws st, lock st0 rows0 evs txs rws st ->
  st = replay st0 (rev evs).
Proof.
  intros st0 rows0 evs txs rws st H. induction H as [|evs txs rws st t u H IH|evs txs rws st t u v H IH].
  - reflexivity.
  - cbn [rev]. unfold replay in *. rewrite fold_left_app. cbn [fold_left]. rewrite <- IH. reflexivity.
  - cbn [rev]. unfold replay in *. rewrite fold_left_app. cbn [fold_left]. rewrite <- IH. reflexivity.
Qed.

(* rows: one row per event (plus the initial rows), same times, census of the replayed prefix *)
Lemma lock_rows : forall st0 rows0 evs txs rws st, lock st0 rows0 evs txs rws st ->
  exists rs, rws = rs ++ rows0 /\ length rs = length evs /\
    map fst rs = map ev_time evs /\
    forall k e r, nth_error (rev evs) k = Some e -> nth_error (rev rs) k = Some r ->
      snd r = census (replay st0 (firstn (S k) (rev evs))).
Proof.
  intros st0 rows0 evs txs rws st H. induction H as [|evs txs rws st t u H IH|evs txs rws st t u v H IH].
  - exists []. repeat split; try reflexivity. intros k e r Hk. destruct k; discriminate Hk.
  - destruct IH as [rs [E [Hl [Ht Hc]]]]. subst rws.
    exists ((t, census (fupdN st u rec_status)) :: rs). split; [reflexivity|]. split; [cbn; f_equal; exact Hl|].
    split; [cbn [map]; f_equal; exact Ht|].
    intros k e r Hk Hr. cbn [rev] in *.
    assert (Hlen : length (rev rs) = length (rev evs)) by (rewrite !rev_length; exact Hl).
    destruct (Nat.lt_ge_cases k (length (rev evs))) as [Hlt|Hge].
    + rewrite nth_error_app1 in Hk by exact Hlt. rewrite nth_error_app1 in Hr by (rewrite Hlen; exact Hlt).
      rewrite firstn_app. replace (S k - length (rev evs))%nat with 0%nat by lia. cbn [firstn]. rewrite app_nil_r.
      apply (Hc k e r Hk Hr).
    + rewrite nth_error_app2 in Hk by exact Hge. rewrite nth_error_app2 in Hr by (rewrite Hlen; exact Hge).
      rewrite Hlen in Hr. destruct (k - length (rev evs))%nat as [|j] eqn:Ej; [|destruct j; discriminate Hk].
      cbn in Hr. injection Hr as Hr. subst r. cbn [snd].
      rewrite firstn_all2 by (rewrite app_length; cbn; lia).
      unfold replay. rewrite fold_left_app. cbn [fold_left]. fold (replay st0 (rev evs)).
      rewrite <- (lock_replay _ _ _ _ _ _ H). reflexivity.
  - destruct IH as [rs [E [Hl [Ht Hc]]]]. subst rws.
    exists ((t, census (fupdN st v stI)) :: rs). split; [reflexivity|]. split; [cbn; f_equal; exact Hl|].
    split; [cbn [map]; f_equal; exact Ht|].
    intros k e r Hk Hr. cbn [rev] in *.
    assert (Hlen : length (rev rs) = length (rev evs)) by (rewrite !rev_length; exact Hl).
    destruct (Nat.lt_ge_cases k (length (rev evs))) as [Hlt|Hge].
    + rewrite nth_error_app1 in Hk by exact Hlt. rewrite nth_error_app1 in Hr by (rewrite Hlen; exact Hlt).
      rewrite firstn_app. replace (S k - length (rev evs))%nat with 0%nat by lia. cbn [firstn]. rewrite app_nil_r.
      apply (Hc k e r Hk Hr).
    + rewrite nth_error_app2 in Hk by exact Hge. rewrite nth_error_app2 in Hr by (rewrite Hlen; exact Hge).
      rewrite Hlen in Hr. destruct (k - length (rev evs))%nat as [|j] eqn:Ej; [|destruct j; discriminate Hk].
      cbn in Hr. injection Hr as Hr. subst r. cbn [snd].
      rewrite firstn_all2 by (rewrite app_length; cbn; lia).
      unfold replay. rewrite fold_left_app. cbn [fold_left]. fold (replay st0 (rev evs)).
      rewrite <- (lock_replay _ _ _ _ _ _ H). reflexivity.
Qed.

(* an executable validity checker for (event log, transmission list), chronological:
   replays the statuses and demands every event to be enabled and every infection
   to carry exactly one transmission entry with an infectious adjacent source *)
Fixpoint valid_logb (st : node -> N) (evs : list ev) (txs : list tx) : bool :=
  match evs with
  | [] => match txs with [] => true | _ => false end
  | (t, x, s) :: evs' =>
    if N.eqb s stI then
      match txs with
      | (t', Some u, v) :: txs' =>
        Qeqb t t' && N.eqb v x && N.eqb (st u) stI && N.eqb (st x) stS && mem x (gadj g u) &&
        valid_logb (fupdN st x s) evs' txs'
      | _ => false
      end
    else N.eqb s rec_status && N.eqb (st x) stI && valid_logb (fupdN st x s) evs' txs
  end.

Lemma valid_logb_app_rec : forall evs txs st t u,
  valid_logb st evs txs = true -> replay st evs u = stI -> rec_status <> stI ->
  valid_logb st (evs ++ [(t, u, rec_status)]) txs = true.
Proof.
  induction evs as [|[[t0 x] s] evs IH]; intros txs st t u Hv Hu Hne.
  - cbn [app valid_logb]. destruct txs; [|discriminate Hv]. cbn [replay fold_left] in Hu.
    destruct (N.eqb_spec rec_status stI) as [E|_]; [contradiction|].
    rewrite N.eqb_refl, Hu. reflexivity.
  - cbn [app valid_logb] in *. destruct (N.eqb s stI).
    + destruct txs as [|[[t' [u'|]] v'] txs']; try discriminate Hv.
      apply andb_true_iff in Hv. destruct Hv as [Hv1 Hv2]. rewrite Hv1. cbn [andb].
      apply IH; [exact Hv2|exact Hu|exact Hne].
    + apply andb_true_iff in Hv. destruct Hv as [Hv1 Hv2]. rewrite Hv1. cbn [andb].
      apply IH; [exact Hv2|exact Hu|exact Hne].
Qed.

Lemma valid_logb_app_tr : forall evs txs st t u v,
  valid_logb st evs txs = true -> replay st evs u = stI -> replay st evs v = stS -> In v (gadj g u) ->
  valid_logb st (evs ++ [(t, v, stI)]) (txs ++ [(t, Some u, v)]) = true.
Proof.
  induction evs as [|[[t0 x] s] evs IH]; intros txs st t u v Hv Hu Hvs Huv.
  - cbn [app valid_logb]. destruct txs; [|discriminate Hv]. cbn [replay fold_left app] in *.
    rewrite N.eqb_refl. cbn [app]. unfold Qeqb. rewrite Qeq_bool_refl, N.eqb_refl, Hu, Hvs.
    assert (Hm : mem v (gadj g u) = true) by (apply mem_In; exact Huv). rewrite Hm. reflexivity.
  - cbn [app valid_logb] in *. destruct (N.eqb s stI).
    + destruct txs as [|[[t' [u'|]] v'] txs']; try discriminate Hv. cbn [app].
      apply andb_true_iff in Hv. destruct Hv as [Hv1 Hv2]. rewrite Hv1. cbn [andb].
      apply IH; assumption.
    + apply andb_true_iff in Hv. destruct Hv as [Hv1 Hv2]. rewrite Hv1. cbn [andb].
      apply IH; assumption.
Qed.

Lemma rec_status_not_I : rec_status <> stI.
Proof. unfold GillespieP.rec_status. destruct kind; discriminate. Qed.

Theorem lock_valid_log : forall st0 rows0 evs txs rws st, lock st0 rows0 evs txs rws st ->
  valid_logb st0 (rev evs) (rev txs) = true.
Proof.
  intros st0 rows0 evs txs rws st H. induction H as [|evs txs rws st t u H IH Hu|evs txs rws st t u v H IH Hu Hv Huv].
  - reflexivity.
  - cbn [rev]. apply valid_logb_app_rec; [exact IH| |exact rec_status_not_I].
    rewrite <- (lock_replay _ _ _ _ _ _ H). exact Hu.
  - cbn [rev]. apply valid_logb_app_tr; [exact IH| | |exact Huv];
      rewrite <- (lock_replay _ _ _ _ _ _ H); assumption.
Qed.

(* every logged event is on a node of the graph and sets I or the recovery status *)
Lemma lock_nodes : forall st0 rows0 evs txs rws st, lock st0 rows0 evs txs rws st ->
  Forall (fun e => In (ev_node e) (gnodes g) /\ (ev_st e = stI \/ ev_st e = rec_status)) evs.
Proof.
  intros st0 rows0 evs txs rws st H. induction H as [|evs txs rws st t u H IH|evs txs rws st t u v H IH].
  - constructor.
  - constructor; [split; [assumption|right; reflexivity]|exact IH].
  - constructor; [split; [assumption|left; reflexivity]|exact IH].
Qed.

(* times of the log are ordered and stay before tmax *)
Lemma lock_times : forall st0 rows0 evs txs rws st, lock st0 rows0 evs txs rws st ->
  Forall (fun e => xlt (ev_time e) tmax = true) evs /\
  map (fun x : tx => fst (fst x)) txs = map ev_time (filter (fun e => N.eqb (ev_st e) stI) evs) /\
  map (fun x : tx => snd x) txs = map ev_node (filter (fun e => N.eqb (ev_st e) stI) evs).
Proof.
  intros st0 rows0 evs txs rws st H. induction H as [|evs txs rws st t u H IH|evs txs rws st t u v H IH].
  - repeat split; constructor.
  - destruct IH as [A [B C]]. split; [constructor; [assumption|exact A]|].
    cbn [filter ev_st snd]. destruct (N.eqb_spec rec_status stI) as [E|_]; [exfalso; exact (rec_status_not_I E)|].
    split; assumption.
  - destruct IH as [A [B C]]. split; [constructor; [assumption|exact A]|].
    cbn [filter ev_st snd]. rewrite N.eqb_refl. cbn [map fst snd ev_time ev_node]. split; f_equal; assumption.
Qed.

End Log.


(* ---- SIR: the transmissions form a forest rooted at the initially infected nodes ---- *)
Section Forest.
Variable g : graph.

Lemma vl_nonS : forall evs txs st x, valid_logb g SIR st evs txs = true -> st x <> stS ->
  ~ In x (map (fun t : tx => snd t) txs).
Proof.
  induction evs as [|[[t0 y] s] evs IH]; intros txs st x Hv Hx; cbn [valid_logb] in Hv.
  - destruct txs; [intros []|discriminate Hv].
  - destruct (N.eqb_spec s stI) as [Es|Es].
    + destruct txs as [|[[t' [u'|]] v'] txs']; try discriminate Hv.
      repeat (apply andb_true_iff in Hv; destruct Hv as [Hv ?]).
      match goal with H : N.eqb v' y = true |- _ => apply N.eqb_eq in H; subst v' end.
      match goal with H : N.eqb (st y) stS = true |- _ => apply N.eqb_eq in H; rename H into HyS end.
      cbn [map snd]. intros [E|Hin].
      * subst x. contradiction.
      * revert Hin. apply (IH txs' (fupdN st y s) x); [assumption|].
        unfold fupdN. destruct (N.eqb_spec x y) as [E|E]; [subst s; discriminate|exact Hx].
    + repeat (apply andb_true_iff in Hv; destruct Hv as [Hv ?]).
      match goal with H : N.eqb s (rec_status SIR) = true |- _ => apply N.eqb_eq in H; subst s end.
      apply (IH txs (fupdN st y (rec_status SIR)) x); [assumption|].
      unfold fupdN. destruct (N.eqb_spec x y) as [E|E]; [discriminate|exact Hx].
Qed.

(* every node is infected at most once *)
Theorem vl_nodup_targets : forall evs txs st, valid_logb g SIR st evs txs = true ->
  NoDup (map (fun t : tx => snd t) txs).
Proof.
  induction evs as [|[[t0 y] s] evs IH]; intros txs st Hv; cbn [valid_logb] in Hv.
  - destruct txs; [constructor|discriminate Hv].
  - destruct (N.eqb_spec s stI) as [Es|Es].
    + destruct txs as [|[[t' [u'|]] v'] txs']; try discriminate Hv.
      repeat (apply andb_true_iff in Hv; destruct Hv as [Hv ?]).
      match goal with H : N.eqb v' y = true |- _ => apply N.eqb_eq in H; subst v' end.
      cbn [map snd]. constructor.
      * apply (vl_nonS evs txs' (fupdN st y s) y); [assumption|].
        unfold fupdN. rewrite N.eqb_refl. subst s. discriminate.
      * apply (IH txs' (fupdN st y s)). assumption.
    + repeat (apply andb_true_iff in Hv; destruct Hv as [Hv ?]). eapply IH. eassumption.
Qed.

(* every source was infectious: initially, or as the target of an EARLIER entry
   (so following sources backwards strictly decreases the position and ends at an
   initially infected node: no cycles) — holds for SIR and SIS *)
Theorem vl_sources : forall kind evs txs st, valid_logb g kind st evs txs = true ->
  forall a t u v b, txs = a ++ (t, Some u, v) :: b ->
    (st u = stI \/ In u (map (fun x : tx => snd x) a)) /\ In v (gadj g u).
Proof.
  intros kind. induction evs as [|[[t0 y] s] evs IH]; intros txs st Hv a t u v b E; cbn [valid_logb] in Hv.
  - destruct txs; [destruct a; discriminate E|discriminate Hv].
  - destruct (N.eqb_spec s stI) as [Es|Es].
    + destruct txs as [|[[t' [u'|]] v'] txs']; try discriminate Hv.
      repeat (apply andb_true_iff in Hv; destruct Hv as [Hv ?]).
      match goal with H : N.eqb v' y = true |- _ => apply N.eqb_eq in H; subst v' end.
      destruct a as [|a0 a].
      * cbn [app] in E. injection E as E1 E2 E3 E4. subst t' u' y txs'. split.
        -- left. match goal with H : N.eqb (st u) stI = true |- _ => apply N.eqb_eq in H; exact H end.
        -- apply mem_In. assumption.
      * cbn [app] in E. injection E as E1 E2. subst a0 txs'.
        destruct (IH _ (fupdN st y s) ltac:(eassumption) a t u v b eq_refl) as [[K1|K1] K2]; (split; [|exact K2]).
        -- unfold fupdN in K1. destruct (N.eqb_spec u y) as [Eu|Eu].
           ++ right. cbn [map snd]. left. symmetry. exact Eu.
           ++ left. exact K1.
        -- right. cbn [map]. right. exact K1.
    + repeat (apply andb_true_iff in Hv; destruct Hv as [Hv ?]).
      destruct (IH _ (fupdN st y s) ltac:(eassumption) a t u v b E) as [[K1|K1] K2]; (split; [|exact K2]).
      * unfold fupdN in K1. destruct (N.eqb_spec u y) as [Eu|Eu].
        -- exfalso. apply Es. exact K1.
        -- left. exact K1.
      * right. exact K1.
Qed.

End Forest.

(* ---------------- the invariant of every run ---------------- *)
Section Runs.
Variable g : graph.
Hypothesis Hg : wfg g.
Hypothesis Hnd : NoDup (gnodes g).
Hypothesis Hadj : forall u v, In v (gadj g u) -> In v (gnodes g).
Variable kind : model_kind.
Variables tau gamma tmin : Q.
Variable tmax : xtime.

Definition LInv (i0 r0l : list node) (s : gst) : Prop :=
  exists evs txs,
    elog s = evs ++ init_elog tmin true i0 r0l /\
    tlog s = txs ++ init_tlog tmin true i0 /\
    lock g kind tmax (st_init i0 r0l) (init_rows g kind tmin i0 r0l) evs txs (rows s) (stat s).

Theorem gillespie_log : forall i0 r0 fuel out, wf_init g kind i0 r0 ->
  reach (gillespie g kind tau gamma (Some i0) r0 None tmin tmax true fuel) out ->
  exists s', GInv g kind tmin tmax s' /\ LInv i0 (r0_list kind r0) s' /\ out = finish g kind tmin true s'.
Proof.
  intros i0 r0 fuel out Hwf H.
  destruct (gillespie_reach_P g Hg Hnd kind tau gamma tmin tmax true Hadj (LInv i0 (r0_list kind r0)) i0 r0 fuel Hwf)
    with (out := out) as [s' [HG [HL [E _]]]].
  - intros t1 s s' HG [evs [txs [He [Ht Hl]]]] Hlt Hx Heff.
    assert (Hlast : match rows s with (t0, _) :: _ => t0 <= t1 | [] => True end).
    { unfold last_time in Hlt. destruct (rows s) as [|[t0 c0] rs]; [exact I|exact Hlt]. }
    assert (Hcen : forall s2, GInv g kind tmin tmax s2 -> hd_counts (rows s2) = census g kind (stat s2))
      by (intros s2 H2; apply (g_census g kind tmin tmax s2 H2)).
    destruct Heff as [u Hu Hun Hst Hr Hel Htl|u v Hu Hv Huv Hvn Hst Hr Hel Htl].
    + exists ((t1, u, rec_status kind) :: evs), txs. rewrite Hel, Htl, He, Ht. split; [reflexivity|]. split; [reflexivity|].
      rewrite Hst.
      assert (Hrow : rows s' = (t1, census g kind (fupdN (stat s) u (rec_status kind))) :: rows s).
      { rewrite Hr. unfold push_row, push_row2. rewrite (Hcen s HG). unfold rec_status.
        destruct kind.
        - rewrite (census_recover_SIR g Hnd SIR (stat s) u eq_refl Hun Hu). reflexivity.
        - rewrite (census_recover_SIS g Hnd SIS (stat s) u eq_refl Hun Hu). reflexivity. }
      rewrite Hrow. apply lock_rec; assumption.
    + exists ((t1, v, stI) :: evs), ((t1, Some u, v) :: txs). rewrite Hel, Htl, He, Ht.
      split; [reflexivity|]. split; [reflexivity|]. rewrite Hst.
      assert (Hrow : rows s' = (t1, census g kind (fupdN (stat s) v stI)) :: rows s).
      { rewrite Hr. unfold push_row, push_row2. rewrite (Hcen s HG).
        rewrite (census_transmit g Hnd kind (stat s) v (g_stat g kind tmin tmax s HG) Hvn Hv).
        destruct kind; reflexivity. }
      rewrite Hrow. apply lock_tr; assumption.
  - intros I L. exists [], []. split; [reflexivity|]. split; [reflexivity|]. apply lock_nil.
  - exact H.
  - exists s'. split; [exact HG|]. split; [exact HL|exact E].
Qed.

Lemma filter_rev : forall (A : Type) (p : A -> bool) l, rev (filter p l) = filter p (rev l).
Proof.
  intros A p. induction l as [|x l IH]; [reflexivity|]. cbn [rev filter]. rewrite filter_app, <- IH. cbn [filter].
  destruct (p x); [reflexivity|rewrite app_nil_r; reflexivity].
Qed.

(* the full-data output, stated on the returned object *)
Theorem gillespie_full_output : forall i0 r0 fuel out, wf_init g kind i0 r0 ->
  reach (gillespie g kind tau gamma (Some i0) r0 None tmin tmax true fuel) out ->
  exists (evs : list ev) (txs : list tx) (fd : fulldata) (rs : list row),
    so_full out = Some fd /\
    (* transmissions(): the source-less entries of the initially infected nodes, then one
       entry per infection, in time order *)
    fd_trans fd = map (fun u => (tmin, None, u)) i0 ++ txs /\
    (* every logged event is enabled when it happens and every infection has its entry *)
    valid_logb g kind (st_init i0 (r0_list kind r0)) evs txs = true /\
    map (fun x : tx => fst (fst x)) txs = map ev_time (filter (fun e => N.eqb (ev_st e) stI) evs) /\
    map (fun x : tx => snd x) txs = map ev_node (filter (fun e => N.eqb (ev_st e) stI) evs) /\
    Forall (fun e => xlt (ev_time e) tmax = true) evs /\
    Forall (fun e => In (ev_node e) (gnodes g) /\ (ev_st e = stI \/ ev_st e = rec_status kind)) evs /\
    (* the arrays: the initial row, then one row per logged event, at the event's time,
       equal to the census of the statuses replayed up to and including that event *)
    so_rows out = init_rows g kind tmin i0 (r0_list kind r0) ++ rs /\
    map fst rs = map ev_time evs /\
    (forall k e r, nth_error evs k = Some e -> nth_error rs k = Some r ->
       snd r = census g kind (replay (st_init i0 (r0_list kind r0)) (firstn (S k) evs))) /\
    (* the per-node histories are built from the same log *)
    fd_hist fd = map (fun u =>
        let es := node_events u (map (fun u => (tmin, u, stI)) i0 ++ map (fun u => (tmin, u, stR)) (r0_list kind r0) ++ evs) in
        (u, hist_of kind tmin (match kind with SIR => first_with stI es ++ first_with stR es | SIS => es end))) (gnodes g).
Proof.
  intros i0 r0 fuel out Hwf H.
  destruct (gillespie_log i0 r0 fuel out Hwf H) as [s' [HG [[evs [txs [He [Ht Hl]]]] E]]].
  destruct (lock_rows g kind tmax _ _ _ _ _ _ Hl) as [rs [Hr [Hlen [Htimes Hcen]]]].
  destruct (lock_times g kind tmax _ _ _ _ _ _ Hl) as [Hx [Htt Htn]].
  exists (rev evs), (rev txs), (build_full g kind tmin s'), (rev rs).
  subst out. unfold finish. cbn [so_full so_rows].
  split; [reflexivity|]. split.
  { unfold build_full. cbn [fd_trans]. rewrite Ht. unfold init_tlog. rewrite rev_app_distr, rev_involutive. reflexivity. }
  split; [apply (lock_valid_log g kind tmax _ _ _ _ _ _ Hl)|].
  split.
  { rewrite map_rev. transitivity (rev (map ev_time (filter (fun e : ev => N.eqb (ev_st e) stI) evs))); [f_equal; exact Htt|].
    rewrite <- map_rev, filter_rev. reflexivity. }
  split.
  { rewrite map_rev. transitivity (rev (map ev_node (filter (fun e : ev => N.eqb (ev_st e) stI) evs))); [f_equal; exact Htn|].
    rewrite <- map_rev, filter_rev. reflexivity. }
  split; [apply Forall_rev; exact Hx|].
  split; [apply Forall_rev; apply (lock_nodes g kind tmax _ _ _ _ _ _ Hl)|].
  split.
  { rewrite Hr, rev_app_distr. f_equal. unfold init_rows. destruct kind; reflexivity. }
  split; [rewrite !map_rev; f_equal; exact Htimes|].
  split; [exact Hcen|].
  unfold build_full. cbn [fd_hist]. rewrite He. unfold init_elog.
  rewrite rev_app_distr, rev_involutive, <- app_assoc. reflexivity.
Qed.

End Runs.
