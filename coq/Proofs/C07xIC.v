(* C07: the initial conditions and function arguments that the *_from_graph wrappers build from rho
   lie on the invariant manifold of Proofs/C07xHier.v, at the EBCM point (theta, R) = (1, 0):
   - the closures psihat, psihatPrime, psihatDPrime are the polynomial with coefficients
     (1-rho) P_k (get_Pk) and its first and second formal derivatives;
   - EBCM_from_graph starts at [1; 0]; SIR_super_compact_pairwise_from_graph starts at Phi_sc(1,0);
     SIR_compact_pairwise_from_graph starts at Phi_cp(1,0), all with phiS0 = 1-rho, phiR0 = 0. *)
From EoNV Require Import Prelude Graph Vec VecP Aux AuxP IC Wrappers ICP ICEbcm Pgf C07xPoly C07xHier Rhs.
From Coq Require Import Qpower Lqa Setoid Morphisms.

(* ---------- sums over the dict keys = sums over 0..maxdeg ---------- *)
Lemma ks_keys ds : NoDup (ks ds) /\ (forall d, In d ds -> In d (ks ds)).
Proof.
  unfold ks. split; [apply seq_NoDup|]. intros d Hd. apply in_seq. pose proof (maxdeg_ge ds d Hd). lia.
Qed.
Lemma sumPk_ks g (f : nat -> Q) : wf_ugraph g = true ->
  sumPk g (fun k => Pk (degseq g) k * f k) == sumQ (map (fun k => Pk (degseq g) k * f k) (ks (degseq g))).
Proof.
  intros WG. destruct (degseq_keys g WG) as (ND & INC & NE). destruct (ks_keys (degseq g)) as (ND' & INC').
  unfold sumPk. rewrite (sum_weighted f (degseq g) _ ND INC NE), (sum_weighted f (degseq g) _ ND' INC' NE). reflexivity.
Qed.

Lemma fg_psihat_poly g rho x : wf_ugraph g = true -> fg_psihat g rho x == peval (fg_coeffs g rho) x.
Proof.
  intros WG. unfold fg_psihat, fg_coeffs. rewrite peval_pscale, <- psi_peval. unfold psi.
  rewrite (sumPk_ks g (fun k => qpow x (Z.of_nat k)) WG). reflexivity.
Qed.
Lemma fg_psihatPrime_poly g rho x : wf_ugraph g = true -> ~ x == 0 ->
  fg_psihatPrime g rho x == D (fg_coeffs g rho) x.
Proof.
  intros WG Hx. unfold fg_psihatPrime, fg_coeffs. rewrite D_pscale, <- (psiP_peval _ x Hx). unfold psiP.
  rewrite <- (sumPk_ks g (fun k => Qnat k * Qpow x (Z.of_nat k - 1)) WG). unfold sumPk.
  apply Qmult_comp; [reflexivity|]. apply ICP.sumQ_map_ext. intros k _. unfold qpow, Qpow. ring.
Qed.
Lemma D2_pscale a p x : D (pderiv (pscale a p)) x == a * D (pderiv p) x.
Proof.
  destruct p as [|p0 [|p1 p]]; cbn [pscale map pderiv pderiv_from peval]; try ring.
  fold (pscale a p).
  assert (H : forall q k j, peval (pderiv_from (pderiv_from (pscale a q) k) j) x == a * peval (pderiv_from (pderiv_from q k) j) x).
  { induction q as [|q0 q IH]; intros k j; cbn [pscale map pderiv_from peval]; [ring|]. fold (pscale a q). rewrite IH. ring. }
  rewrite H. ring.
Qed.
Lemma fg_psihatDPrime_poly g rho x : wf_ugraph g = true -> ~ x == 0 ->
  fg_psihatDPrime g rho x == D (pderiv (fg_coeffs g rho)) x.
Proof.
  intros WG Hx. unfold fg_psihatDPrime, fg_coeffs. rewrite D2_pscale, <- (psiDP_peval _ x Hx). unfold psiDP.
  rewrite <- (sumPk_ks g (fun k => Qnat k * (Qnat k - 1) * Qpow x (Z.of_nat k - 2)) WG). unfold sumPk.
  apply Qmult_comp; [reflexivity|]. apply ICP.sumQ_map_ext. intros k _. unfold qpow, Qpow. ring.
Qed.

(* ---------- N_k = N P_k ---------- *)
Lemma cnt_count (f : node -> nat) i l :
  cnt (fun u => Nat.eqb (f u) i && true) l == Qnat (count i (map f l)).
Proof.
  induction l as [|u l IH]; [reflexivity|]. rewrite cnt_cons, IH. cbn [map]. rewrite count_cons.
  destruct (Nat.eq_dec (f u) i) as [E|NE].
  - rewrite (proj2 (Nat.eqb_eq _ _) E). cbn [andb ind]. rewrite AuxP.Qnat_S. ring.
  - rewrite (proj2 (Nat.eqb_neq _ _) NE). cbn [andb ind]. ring.
Qed.
Lemma Nk_is_N_Pk g i : wf_ugraph g = true -> (i <= gmaxdeg g)%nat ->
  vnth i (Nk_of g) == gN g * Pk (degseq g) i.
Proof.
  intros WG Hi. unfold Nk_of. rewrite vnth_byclass by exact Hi. rewrite cnt_count. fold (degseq g).
  unfold Pk. unfold degseq at 3. rewrite map_length. fold (gN g). field. apply gN_nonzero; exact WG.
Qed.

Lemma Pk_coeffs_length ds : length (Pk_coeffs ds) = S (maxdeg ds).
Proof. unfold Pk_coeffs, ks. rewrite map_length, seq_length. reflexivity. Qed.
Lemma nth_Pk_coeffs ds i : (i <= maxdeg ds)%nat -> nth i (Pk_coeffs ds) 0 = Pk ds i.
Proof. intros Hi. unfold Pk_coeffs, ks. apply (nth_map_seq (Pk ds)). lia. Qed.
Lemma pscale_length a p : length (pscale a p) = length p. Proof. apply map_length. Qed.
Lemma nth_pscale a p i : (i < length p)%nat -> nth i (pscale a p) 0 = a * nth i p 0.
Proof. intros Hi. unfold pscale. apply nth_mapQ. exact Hi. Qed.

Lemma pw_1 k : qpow 1 (Z.of_nat k) == 1. Proof. unfold qpow. apply Qpower_1. Qed.

(* the S_k block of the wrappers' initial vector: (1-rho) N_k = N c_k 1^k *)
Lemma Sk0_on_manifold g rho : wf_ugraph g = true ->
  veq (smul (1 - rho) (Nk_of g)) (pm_eval (Sk_p (fg_coeffs g rho) (gN g)) 1).
Proof.
  intros WG. apply veq_of_nth.
  - unfold Sk_p, fg_coeffs. rewrite smul_length, pm_eval_length, Sk_from_length, pscale_length, Pk_coeffs_length.
    unfold Nk_of. rewrite byclass_length. reflexivity.
  - intros i Hi. rewrite smul_length in Hi. unfold Nk_of in Hi. rewrite byclass_length in Hi.
    rewrite nth_smul by (unfold Nk_of; rewrite byclass_length; exact Hi).
    unfold Sk_p. rewrite nth_Sk_eval by (unfold fg_coeffs; rewrite pscale_length, Pk_coeffs_length; exact Hi).
    unfold fg_coeffs. rewrite nth_pscale by (rewrite Pk_coeffs_length; exact Hi).
    rewrite nth_Pk_coeffs by (unfold gmaxdeg in Hi; lia). rewrite pw_1.
    change (nth i (Nk_of g) 0) with (vnth i (Nk_of g)). rewrite Nk_is_N_Pk by (try exact WG; lia). ring.
Qed.

Lemma dot_comm a : forall b, dot a b == dot b a.
Proof.
  unfold dot. induction a as [|x a IH]; intros [|y b]; cbn [vmul zipWith]; try reflexivity.
  fold (vmul a b). fold (vmul b a). rewrite !vsum_cons, IH. ring.
Qed.
Lemma dot_veq_l a b c : veq a b -> dot a c == dot b c.
Proof. intros H. rewrite (dot_comm a c), (dot_comm b c). apply dot_veq_r. exact H. Qed.

(* SX0 = dot(Sk0, ks) = N psihat'(1) *)
Lemma SX0_on_manifold g rho : wf_ugraph g = true ->
  dot (smul (1 - rho) (Nk_of g)) (ksv (Nk_of g)) == gN g * D (fg_coeffs g rho) 1.
Proof.
  intros WG. pose proof (Sk0_on_manifold g rho WG) as HS.
  destruct (moments_on_manifold (fg_coeffs g rho) (gN g) 1) as (HL & _ & H1 & _). cbv zeta in HL, H1.
  rewrite (dot_veq_l _ _ _ HS), dot_comm. unfold ksv.
  replace (length (Nk_of g)) with (length (pm_eval (Sk_p (fg_coeffs g rho) (gN g)) 1)).
  - rewrite H1. ring.
  - rewrite <- (veq_length _ _ HS), smul_length. reflexivity.
Qed.

Lemma get_Nk_rho g r : wf_ugraph g = true ->
  get_Nk_and_IC g (mkReq None None (Some r)) true =
  Ok (mkNkic (Nk_of g) (smul (1 - r) (Nk_of g)) (smul r (Nk_of g)) (smul 0 (Nk_of g))).
Proof.
  intros WG. destruct (wf_ugraph_nodes g WG) as [_ NE]. unfold get_Nk_and_IC. cbn [rq_rho rq_I rq_R isSome andb negb].
  destruct (gnodes g) as [|u l]; [congruence|]. reflexivity.
Qed.

Section RhoPath.
Variables (g : graph) (rho_opt : option Q).
Let r := rho_or_default g rho_opt.
Let rq := mkReq None None rho_opt.
Let N := gN g.
Let c := fg_coeffs g r.

Lemma rho_some : match rho_opt, @None (list node) with None, None => Some (1 / gN g) | r0, _ => r0 end = Some r.
Proof. unfold r, rho_or_default. destruct rho_opt; reflexivity. Qed.

(* EBCM_from_graph: EBCM(N, psihat, ...) started at [1; 0] *)
Lemma EBCM_fg_rho full sv : EBCM_from_graph g rq full sv = Ok (EBCM N (fg_psihat g r) 0 full sv).
Proof. unfold EBCM_from_graph, rq. cbn [rq_rho rq_I rq_R isSome andb]. rewrite !andb_false_r. reflexivity. Qed.

(* SIR_super_compact_pairwise_from_graph: started at Phi_sc(1, 0) *)
Lemma super_compact_fg_rho tau gam : wf_ugraph g = true -> ~ D c 1 == 0 ->
  exists SS0 SI0 R0, (forall full sv,
    SIR_super_compact_pairwise_from_graph g rq full sv = Ok (SIR_super_compact_pairwise R0 SS0 SI0 N (fg_psihat g r) full sv)) /\
    veq [1; SS0; SI0; R0] (Phi_sc c N tau gam (fg_phiS0 r) fg_phiR0 1 0).
Proof.
  intros WG Hc.
  exists ((1 - r) * dot (smul (1 - r) (Nk_of g)) (ksv (Nk_of g))), (r * dot (smul (1 - r) (Nk_of g)) (ksv (Nk_of g))), (vsum (smul 0 (Nk_of g))).
  split.
  - intros full sv. unfold SIR_super_compact_pairwise_from_graph, rq. cbn [rq_rho rq_I rq_R isSome andb]. rewrite andb_false_r.
    unfold N, r. destruct rho_opt as [r0|]; cbn [rho_or_default]; rewrite (get_Nk_rho g _ WG); reflexivity.
  - unfold Phi_sc, sc_p. cbn [pm_eval map app]. pose proof (SX0_on_manifold g r WG) as HX. fold c N in HX.
    constructor; [reflexivity|]. constructor; [|constructor; [|constructor; [|constructor]]].
    + rewrite HX, SS_val. unfold fg_phiS0. field. exact Hc.
    + rewrite HX, SI_val. unfold fg_phiS0, fg_phiR0.
      setoid_replace ((1 - r) * D c 1 / D c 1) with (1 - r) by (field; exact Hc). unfold Qdiv. ring.
    + rewrite vsum_smul. ring.
Qed.

(* SIR_compact_pairwise_from_graph: started at Phi_cp(1, 0); its N argument (I0 + R0 + sum Sk0) is G.order() *)
Lemma compact_fg_rho tau gam : wf_ugraph g = true -> ~ D c 1 == 0 ->
  exists Sk0 I0 R0 SS0 SI0, (forall full sv,
    SIR_compact_pairwise_from_graph g rq full sv = Ok (SIR_compact_pairwise Sk0 I0 R0 SS0 SI0 full sv)) /\
    veq (Sk0 ++ [SS0; SI0; R0]) (Phi_cp c N tau gam (fg_phiS0 r) fg_phiR0 1 0) /\
    I0 + R0 + vsum Sk0 == N.
Proof.
  intros WG Hc.
  exists (smul (1 - r) (Nk_of g)), (vsum (smul r (Nk_of g))), (vsum (smul 0 (Nk_of g))),
         ((1 - r) * dot (smul (1 - r) (Nk_of g)) (ksv (Nk_of g))), (r * dot (smul (1 - r) (Nk_of g)) (ksv (Nk_of g))).
  split; [|split].
  - intros full sv. unfold SIR_compact_pairwise_from_graph, rq. cbn [rq_rho rq_I rq_R isSome andb]. rewrite andb_false_r.
    unfold N, r. destruct rho_opt as [r0|]; cbn [rho_or_default]; rewrite (get_Nk_rho g _ WG); reflexivity.
  - rewrite Phi_cp_factor. unfold Psi_cp. pose proof (SX0_on_manifold g r WG) as HX. fold c N in HX.
    apply veq_app; [apply Sk0_on_manifold; exact WG|].
    constructor; [|constructor; [|constructor; [|constructor]]].
    + rewrite HX, SS_val. unfold fg_phiS0. field. exact Hc.
    + rewrite HX, SI_val. unfold fg_phiS0, fg_phiR0.
      setoid_replace ((1 - r) * D c 1 / D c 1) with (1 - r) by (field; exact Hc). unfold Qdiv. ring.
    + rewrite vsum_smul. ring.
  - rewrite !vsum_smul, (Nk_sum g). unfold N. ring.
Qed.
End RhoPath.

(* the two hierarchy identities instantiated with the closures the wrappers actually pass *)
Lemma hierarchy_from_graph g rho_opt t tau gam theta R :
  wf_ugraph g = true ->
  let r := rho_or_default g rho_opt in let c := fg_coeffs g r in let N := gN g in
  ~ tau == 0 -> ~ theta == 0 -> ~ D c theta == 0 -> ~ D c 1 == 0 ->
  let e := dEBCM [theta; R] t N tau gam (fg_psihat g r) (fg_psihatPrime g r) (fg_phiS0 r) fg_phiR0 in
  veq (dSIR_compact_pairwise (Phi_cp c N tau gam (fg_phiS0 r) fg_phiR0 theta R) t N tau gam)
      (DPhi_cp c N tau gam (fg_phiS0 r) fg_phiR0 theta (vnth 0 e) (vnth 1 e)) /\
  veq (dSIR_super_compact_pairwise (Phi_sc c N tau gam (fg_phiS0 r) fg_phiR0 theta R) t tau gam
         (fg_psihat g r) (fg_psihatPrime g r) (fg_psihatDPrime g r) N)
      (DPhi_sc c N tau gam (fg_phiS0 r) fg_phiR0 theta (vnth 0 e) (vnth 1 e)).
Proof.
  intros WG r c N Ht Hth Ha Hc. cbv zeta.
  assert (H1 : ~ 1 == 0) by (intro H; discriminate H).
  pose proof (gN_nonzero g WG) as HN.
  split.
  - apply ebcm_to_compact; try assumption.
    + apply fg_psihat_poly; exact WG.
    + apply fg_psihatPrime_poly; assumption.
    + apply fg_psihatPrime_poly; assumption.
  - apply ebcm_to_super_compact; try assumption.
    + apply fg_psihat_poly; exact WG.
    + apply fg_psihatPrime_poly; assumption.
    + apply fg_psihatPrime_poly; assumption.
    + apply fg_psihatDPrime_poly; assumption.
Qed.

Lemma wrapper_closures_are_polynomials g rho x : wf_ugraph g = true ->
  fg_psihat g rho x == peval (fg_coeffs g rho) x /\
  (~ x == 0 -> fg_psihatPrime g rho x == D (fg_coeffs g rho) x /\ fg_psihatDPrime g rho x == D (pderiv (fg_coeffs g rho)) x).
Proof.
  intros WG. split; [apply fg_psihat_poly; exact WG|]. intros Hx.
  split; [apply fg_psihatPrime_poly|apply fg_psihatDPrime_poly]; assumption.
Qed.

(* examples used by Props/C07x.v *)
Definition ex_c : list Q := pscale (9 # 10) [0; 1 # 4; 1 # 2; 1 # 4].
