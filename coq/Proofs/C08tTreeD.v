(* C08, tree clause: the peeling-order definition of a tree (C08tTreeA.v) against the usual one
     "connected, and |E| = |V| - 1", written as  degsum S = 2 (|S| - 1)  (the degree sum counts every edge twice).
   order_of_connected_degsum   connected + degree sum  ==>  a tree peeling order exists (a vertex of degree 1 exists by
                               counting; removing it keeps the graph connected and lowers the degree sum by 2);
   connected_degsum_of_order   the converse: a graph with a tree peeling order is connected and has that degree sum.
   Abstract symmetric adjacency on nat, vertex set a duplicate-free list. *)
From EoNV Require Import Prelude C08tTreeA.
From Coq Require Import Lia List Arith Bool.
Import ListNotations.
Local Open Scope nat_scope.

Definition sumn (l : list nat) : nat := fold_right Nat.add 0%nat l.
Definition del (v : nat) (l : list nat) : list nat := filter (fun x => negb (Nat.eqb x v)) l.

Lemma sumn_cons a l : sumn (a :: l) = a + sumn l.
Proof. reflexivity. Qed.
Lemma sumn_map_ext (f g : nat -> nat) l : (forall x, In x l -> f x = g x) -> sumn (map f l) = sumn (map g l).
Proof.
  induction l as [|a l IH]; intros H; [reflexivity|]. cbn [map]. rewrite !sumn_cons.
  rewrite (H a (or_introl eq_refl)), IH; [reflexivity|]. intros x Hx. apply H. right. exact Hx.
Qed.
Lemma sumn_map_add (f g : nat -> nat) l : sumn (map (fun x => f x + g x) l) = (sumn (map f l) + sumn (map g l))%nat.
Proof.
  induction l as [|a l IH]; [reflexivity|]. cbn [map]. rewrite !sumn_cons, IH. lia.
Qed.
Lemma filter_length_sum (f : nat -> bool) l : length (filter f l) = sumn (map (fun x => if f x then 1 else 0) l).
Proof.
  induction l as [|a l IH]; [reflexivity|]. cbn [filter map]. rewrite sumn_cons.
  destruct (f a); cbn [length]; rewrite IH; lia.
Qed.
Lemma del_In v l x : In x (del v l) <-> In x l /\ x <> v.
Proof.
  unfold del. rewrite filter_In. split; intros [A B]; (split; [exact A|]).
  - apply negb_true_iff in B. apply Nat.eqb_neq in B. exact B.
  - apply negb_true_iff. apply Nat.eqb_neq. exact B.
Qed.
Lemma del_notin v l : ~ In v l -> del v l = l.
Proof.
  intros H. induction l as [|a l IH]; [reflexivity|]. unfold del. cbn [filter].
  destruct (Nat.eqb_spec a v) as [E|E]; [exfalso; apply H; left; exact E|]. cbn [negb]. f_equal. apply IH.
  intros K. apply H. right. exact K.
Qed.
(* splitting off one element of a duplicate-free list *)
Lemma sumn_del (h : nat -> nat) v l : NoDup l -> In v l -> sumn (map h l) = (sumn (map h (del v l)) + h v)%nat.
Proof.
  intros ND. induction ND as [|a l Ha ND IH]; intros Hv; [destruct Hv|].
  unfold del. cbn [filter]. destruct (Nat.eqb_spec a v) as [E|E].
  - subst a. cbn [negb]. fold (del v l). rewrite (del_notin v l Ha). cbn [map]. rewrite sumn_cons. lia.
  - cbn [negb map]. fold (del v l). rewrite !sumn_cons.
    destruct Hv as [Hv|Hv]; [exfalso; apply E; exact Hv|]. rewrite (IH Hv). lia.
Qed.
Lemma filter_length_del (f : nat -> bool) v l : NoDup l -> In v l ->
  length (filter f l) = (length (filter f (del v l)) + (if f v then 1 else 0))%nat.
Proof. intros ND Hv. rewrite !filter_length_sum. apply (sumn_del (fun x => if f x then 1 else 0) v l ND Hv). Qed.
Lemma length_del v l : NoDup l -> In v l -> length l = S (length (del v l)).
Proof.
  intros ND Hv. assert (H := filter_length_del (fun _ => true) v l ND Hv).
  assert (E : forall l', filter (fun _ : nat => true) l' = l') by (induction l' as [|a l' IH]; [reflexivity|cbn [filter]; rewrite IH; reflexivity]).
  rewrite !E in H. lia.
Qed.
Lemma NoDup_del v l : NoDup l -> NoDup (del v l).
Proof. apply NoDup_filter. Qed.
(* a small summand exists when the sum is small *)
Lemma exists_small (f : nat -> nat) l : (sumn (map f l) < 2 * length l)%nat -> exists v, In v l /\ (f v <= 1)%nat.
Proof.
  induction l as [|a l IH]; intros H; [cbn in H; lia|]. cbn [map length] in H. rewrite sumn_cons in H.
  destruct (le_lt_dec (f a) 1) as [L|L]; [exists a; split; [left; reflexivity|exact L]|].
  destruct IH as [v [Hv Fv]]; [lia|]. exists v. split; [right; exact Hv|exact Fv].
Qed.
(* same elements, no duplicates: same count *)
Lemma filter_length_same (f : nat -> bool) l l' : NoDup l -> NoDup l' -> (forall x, In x l <-> In x l') ->
  length (filter f l) = length (filter f l').
Proof.
  intros N N' H. apply Nat.le_antisymm; apply NoDup_incl_length; try (apply NoDup_filter; assumption);
    intros x Hx; apply filter_In in Hx; apply filter_In; destruct Hx as [A B]; (split; [apply H; exact A|exact B]).
Qed.

Section Usual.
Variable adj : nat -> nat -> bool.
Hypothesis adj_sym : forall a b, adj a b = adj b a.
Notation deg_in := (deg_in adj).

Definition degsum (S : list nat) : nat := sumn (map (fun u => deg_in u S) S).

Inductive walk (S : list nat) : nat -> nat -> Prop :=
| walk_refl a : walk S a a
| walk_step a c b : adj a c = true -> In c S -> walk S c b -> walk S a b.
Definition connected (S : list nat) : Prop := forall a b, In a S -> In b S -> walk S a b.

Lemma walk_mono S S' a b : incl S S' -> walk S a b -> walk S' a b.
Proof. intros HI H. induction H as [a|a c b E Ic _ IH]; [constructor|]. apply (walk_step S' a c b E (HI c Ic) IH). Qed.
Lemma walk_trans S a b c : walk S a b -> walk S b c -> walk S a c.
Proof. intros H. induction H as [a|a c' b E Ic _ IH]; intros K; [exact K|]. apply (walk_step S a c' c E Ic (IH K)). Qed.
Lemma walk_sym S a b : In a S -> walk S a b -> walk S b a.
Proof.
  intros Ia H. induction H as [a|a c b E Ic _ IH]; [constructor|].
  apply (walk_trans S b c a (IH Ic)). apply (walk_step S c a a); [rewrite adj_sym; exact E|exact Ia|constructor].
Qed.
(* removing a pendant (or isolated) vertex does not disconnect the rest *)
Lemma walk_drop v rest a b : (forall x, In x (v :: rest) -> adj x x = false) -> (deg_in v rest <= 1)%nat ->
  walk (v :: rest) a b -> b <> v ->
  (a <> v -> In a rest -> walk rest a b) /\
  (a = v -> exists c, adj v c = true /\ In c rest /\ walk rest c b).
Proof.
  intros Irr Hd H Nb. induction H as [a|a c b E Ic _ IH].
  - split; [intros _ _; constructor|]. intros ->. exfalso. apply Nb. reflexivity.
  - specialize (IH Nb). destruct IH as [IH1 IH2]. split.
    + intros Na Ia. destruct (Nat.eq_dec c v) as [->|Ncv].
      * destruct (IH2 eq_refl) as [c' [E' [I' R']]].
        assert (a = c') by (apply (filter_le1_eq (adj v) rest a c' Hd Ia I'); [rewrite adj_sym; exact E|exact E']).
        subst c'. exact R'.
      * assert (Ic' : In c rest) by (destruct Ic as [<-|Ic]; [exfalso; apply Ncv; reflexivity|exact Ic]).
        apply (walk_step rest a c b E Ic' (IH1 Ncv Ic')).
    + intros ->. assert (Ncv : c <> v).
      { intros ->. rewrite (Irr v (or_introl eq_refl)) in E. discriminate E. }
      assert (Ic' : In c rest) by (destruct Ic as [<-|Ic]; [exfalso; apply Ncv; reflexivity|exact Ic]).
      exists c. repeat split; try assumption. apply IH1; assumption.
Qed.

(* the degree sum after removing v *)
Lemma degsum_del S v : NoDup S -> In v S -> adj v v = false ->
  degsum S = (degsum (del v S) + 2 * deg_in v (del v S))%nat.
Proof.
  intros ND Hv Irr. unfold degsum. rewrite (sumn_del _ v S ND Hv).
  assert (E1 : deg_in v S = deg_in v (del v S)).
  { unfold C08tTreeA.deg_in. rewrite (filter_length_del (adj v) v S ND Hv), Irr. lia. }
  rewrite E1.
  rewrite (sumn_map_ext (fun u => deg_in u S) (fun u => deg_in u (del v S) + (if adj u v then 1 else 0))%nat).
  2:{ intros u _. unfold C08tTreeA.deg_in. apply (filter_length_del (adj u) v S ND Hv). }
  rewrite sumn_map_add. rewrite <- (filter_length_sum (fun u => adj u v)).
  rewrite (filter_ext (fun u => adj u v) (adj v)) by (intros u; apply adj_sym).
  unfold C08tTreeA.deg_in. lia.
Qed.

Definition same_elts (l l' : list nat) : Prop := forall x, In x l <-> In x l'.

Theorem order_of_connected_degsum n : forall V, length V = n -> NoDup V -> (forall x, In x V -> adj x x = false) ->
  connected V -> degsum V = (2 * (n - 1))%nat -> exists ord, same_elts ord V /\ tree_peelb adj ord = true.
Proof.
  induction n as [|n IH]; intros V L ND Irr Con DS.
  - destruct V; [|discriminate L]. exists []. split; [intros x; reflexivity|reflexivity].
  - destruct n as [|n].
    + destruct V as [|v [|w V]]; try discriminate L. exists [v]. split; [intros x; reflexivity|reflexivity].
    + (* at least two vertices: every degree is >= 1, one is <= 1 *)
      assert (Deg1 : forall v, In v V -> (1 <= deg_in v V)%nat).
      { intros v Hv. assert (Hu : exists u, In u V /\ u <> v).
        { destruct V as [|a [|b V']]; try discriminate L. destruct (Nat.eq_dec a v) as [->|Ea].
          - exists b. split; [right; left; reflexivity|]. intros ->. inversion ND as [|? ? K _]. apply K. left. reflexivity.
          - exists a. split; [left; reflexivity|exact Ea]. }
        destruct Hu as [u [Hu Nu]]. assert (W := Con v u Hv Hu). inversion W as [|a c b E Ic _]; subst; [exfalso; apply Nu; reflexivity|].
        unfold C08tTreeA.deg_in. assert (K : In c (filter (adj v) V)) by (apply filter_In; split; assumption).
        destruct (filter (adj v) V); [destruct K|cbn [length]; lia]. }
      destruct (exists_small (fun u => deg_in u V) V) as [v [Hv Dv]]; [fold (degsum V); rewrite DS, L; lia|]. cbv beta in Dv.
      assert (Dv1 := Deg1 v Hv). set (rest := del v V).
      assert (Ev : deg_in v V = deg_in v rest).
      { unfold C08tTreeA.deg_in. rewrite (filter_length_del (adj v) v V ND Hv), (Irr v Hv). fold rest. lia. }
      assert (Lr : length rest = S n) by (assert (K := length_del v V ND Hv); fold rest in K; lia).
      assert (Sub : incl V (v :: rest)).
      { intros x Hx. destruct (Nat.eq_dec x v) as [->|Nx]; [left; reflexivity|right; apply del_In; split; assumption]. }
      assert (Irr' : forall x, In x (v :: rest) -> adj x x = false).
      { intros x [<-|Hx]; [apply Irr; exact Hv|]. apply del_In in Hx. apply Irr. apply Hx. }
      destruct (IH rest Lr (NoDup_del v V ND)) as [ord [SE TP]].
      * intros x Hx. apply Irr'. right. exact Hx.
      * intros a b Ha Hb. assert (Ha' := proj1 (del_In v V a) Ha). assert (Hb' := proj1 (del_In v V b) Hb).
        assert (W := walk_mono V (v :: rest) a b Sub (Con a b (proj1 Ha') (proj1 Hb'))).
        apply (proj1 (walk_drop v rest a b Irr' ltac:(lia) W (proj2 Hb')) (proj2 Ha') Ha).
      * assert (K := degsum_del V v ND Hv (Irr v Hv)). fold rest in K. lia.
      * exists (v :: ord). split.
        -- intros x. cbn [In]. rewrite (SE x). unfold rest. rewrite del_In. split.
           ++ intros [<-|[A _]]; assumption.
           ++ intros Hx. destruct (Nat.eq_dec v x) as [E|E]; [left; exact E|right; split; [exact Hx|intros K; apply E; symmetry; exact K]].
        -- cbn [tree_peelb]. rewrite TP, andb_true_r.
           assert (Nv : ~ In v ord) by (intros K; apply SE in K; apply del_In in K; apply (proj2 K); reflexivity).
           rewrite (proj2 (memn'_false v ord) Nv). cbn [negb andb].
           destruct ord as [|o ord']; [reflexivity|]. apply Nat.eqb_eq.
           assert (Eo : deg_in v (o :: ord') = deg_in v rest).
           { unfold C08tTreeA.deg_in. apply filter_length_same.
             - apply (forest_peel_nodup adj). apply tree_forest_peel. exact TP.
             - apply NoDup_del. exact ND.
             - exact SE. }
           lia.
Qed.

(* the converse *)
Theorem connected_degsum_of_order ord : (forall x, In x ord -> adj x x = false) -> tree_peelb adj ord = true ->
  connected ord /\ degsum ord = (2 * (length ord - 1))%nat.
Proof.
  induction ord as [|v rest IH]; intros Irr TP; [split; [intros a b []|reflexivity]|].
  cbn [tree_peelb] in TP. apply andb_prop in TP. destruct TP as [TP T3]. apply andb_prop in TP. destruct TP as [T1 T2].
  apply negb_true_iff in T1. apply memn'_false in T1.
  destruct (IH (fun x Hx => Irr x (or_intror Hx)) T3) as [Con DS].
  assert (ND : NoDup (v :: rest)) by (constructor; [exact T1|apply (forest_peel_nodup adj); apply tree_forest_peel; exact T3]).
  assert (Dl : del v (v :: rest) = rest).
  { unfold del. cbn [filter]. rewrite Nat.eqb_refl. cbn [negb]. apply (del_notin v rest T1). }
  assert (K := degsum_del (v :: rest) v ND (or_introl eq_refl) (Irr v (or_introl eq_refl))). rewrite Dl in K.
  destruct rest as [|u rest'].
  - split; [|rewrite K; reflexivity]. intros a b [<-|[]] [<-|[]]. constructor.
  - apply Nat.eqb_eq in T2. split; [|rewrite K, DS, T2; cbn [length]; lia].
    (* v is joined to its neighbour w in the rest, the rest is connected *)
    assert (Hw : exists w, In w (u :: rest') /\ adj v w = true).
    { unfold C08tTreeA.deg_in in T2. destruct (filter (adj v) (u :: rest')) as [|w l] eqn:E; [discriminate T2|].
      exists w. assert (Kw : In w (filter (adj v) (u :: rest'))) by (rewrite E; left; reflexivity).
      apply filter_In in Kw. exact Kw. }
    destruct Hw as [w [Iw Ew]].
    assert (Up : forall a b, In a (u :: rest') -> In b (u :: rest') -> walk (v :: u :: rest') a b).
    { intros a b Ha Hb. apply (walk_mono (u :: rest')); [intros x Hx; right; exact Hx|apply Con; assumption]. }
    assert (Vto : forall b, In b (u :: rest') -> walk (v :: u :: rest') v b).
    { intros b Hb. apply (walk_step (v :: u :: rest') v w b Ew); [right; exact Iw|]. apply Up; assumption. }
    intros a b [<-|Ha] [<-|Hb].
    + constructor.
    + apply Vto. exact Hb.
    + apply walk_sym; [left; reflexivity|apply Vto; exact Ha].
    + apply Up; assumption.
Qed.
End Usual.
