(* Row 0 of SIR_effective_degree_from_graph for explicit initial sets (with and
   without initially recovered nodes): S, I, R at tmin are N-|I0|-|R0|, |I0|, |R0|.
   (rho path: I and R are immediate; S needs the binomial theorem - not proved.) *)
From EoNV Require Import Prelude Graph Aux Vec IC Wrappers VecP ICP.
From Coq Require Import Lqa Setoid Morphisms.

Lemma vsum_flatten m : vsum (flatten m) == msum m.
Proof.
  unfold msum, flatten. induction m as [|r m IH]; [reflexivity|]. cbn [concat map]. rewrite vsum_app, vsum_cons, IH. reflexivity.
Qed.

Lemma filter_len_le {A} (p : A -> bool) l : (length (filter p l) <= length l)%nat.
Proof. induction l as [|x l IH]; cbn; [lia|]. destruct (p x); cbn; lia. Qed.

Lemma nbr_count_le g p u : In u (gnodes g) -> (nbr_count g p u <= gmaxdeg g)%nat.
Proof. intros H. unfold nbr_count. pose proof (filter_len_le p (gadj g u)). pose proof (deg_le_max g u H). unfold deg in *. lia. Qed.

(* a (maxk+1) x (maxk+1) table of node counts by two bounded node statistics sums to the count of the class *)
Lemma sqmat_count_sum g (p : node -> bool) (a b : node -> nat) :
  (forall u, In u (gnodes g) -> (a u <= gmaxdeg g)%nat) -> (forall u, In u (gnodes g) -> (b u <= gmaxdeg g)%nat) ->
  msum (sqmat g (fun s i => cnt (fun u => p u && Nat.eqb (a u) s && Nat.eqb (b u) i) (gnodes g))) == cnt p (gnodes g).
Proof.
  intros Ha Hb. unfold msum, sqmat, vsum. rewrite map_map.
  rewrite (sumQ_map_ext _ (fun s => 1 * cnt (fun u => Nat.eqb (a u) s && p u) (gnodes g))).
  - unfold classes. rewrite (class_sum_weighted a p (fun _ => 1) (gmaxdeg g) (gnodes g) Ha). apply sumQ_ind_cnt.
  - intros s _. 
    rewrite (sumQ_map_ext _ (fun i => 1 * cnt (fun u => Nat.eqb (b u) i && (p u && Nat.eqb (a u) s)) (gnodes g))).
    + unfold classes. rewrite (class_sum_weighted b (fun u => p u && Nat.eqb (a u) s) (fun _ => 1) (gmaxdeg g) (gnodes g) Hb).
      rewrite sumQ_ind_cnt. rewrite (cnt_ext _ (fun u => Nat.eqb (a u) s && p u)); [ring|]. intros u _. apply andb_comm.
    + intros i _. rewrite (cnt_ext _ (fun u => Nat.eqb (b u) i && (p u && Nat.eqb (a u) s))); [ring|]. intros u _. apply andb_comm.
Qed.

Lemma row0_SIR_ed_sets g rq full sv I0 :
  wf_ugraph g = true -> wf_req g true rq = true -> solver_ok sv -> rq_I rq = Some I0 ->
  exists out S I R, SIR_effective_degree_from_graph g rq full sv = Ok out /\
    lookup nS out = Some (Sc S) /\ lookup nI out = Some (Sc I) /\ lookup nR out = Some (Sc R) /\
    S 0%nat == reqS_n g rq /\ I 0%nat == reqI_n g rq /\ R 0%nat == reqR_n g rq.
Proof.
  intros WG W OK E. destruct (wf_req_sets g true rq I0 W E) as (Hrho & _).
  destruct (wf_ugraph_nodes g WG) as [_ NE].
  unfold SIR_effective_degree_from_graph. rewrite Hrho, E. cbn [isSome andb].
  destruct (gnodes g) as [|n0 l0] eqn:EG; [congruence|]. rewrite <- EG.
  destruct (init_status_ok g true rq I0 W E) as [st [-> Hst]]. cbn [rbind].
  unfold SIR_effective_degree. do 4 eexists. split; [reflexivity|]. split; [look|]. split; [look|]. split; [look|].
  unfold vsumt, dlast, tlast, vnth. cbv beta. rewrite !OK. rewrite drop_last_app, take_last_app by reflexivity. cbn [nth].
  rewrite vsum_flatten.
  assert (HS : msum (sqmat g (fun s i => cnt (fun u => isS st u && Nat.eqb (nbr_count g (isS st) u) s && Nat.eqb (nbr_count g (isI st) u) i) (gnodes g)))
               == reqS_n g rq).
  { rewrite sqmat_count_sum by (intros; apply nbr_count_le; assumption).
    rewrite (cnt_ext _ (isS (req_status rq))) by (intros u _; unfold isS; rewrite Hst; reflexivity).
    unfold reqS_n. rewrite E. apply (cnt_req_S g true rq I0 WG W E). }
  assert (HI : cnt (isI st) (gnodes g) == reqI_n g rq).
  { rewrite (cnt_ext _ (isI (req_status rq))) by (intros u _; unfold isI; rewrite Hst; reflexivity).
    unfold reqI_n. rewrite E. apply (cnt_req_I g true rq I0 WG W E). }
  assert (HR : cnt (fun u => negb (isS st u) && negb (isI st u)) (gnodes g) == reqR_n g rq).
  { rewrite (cnt_ext _ (isR (req_status rq))).
    - unfold reqR_n. rewrite E. apply (cnt_req_R g true rq I0 WG W E).
    - intros u _. rewrite <- (notSI_is_R rq I0 E u). unfold isS, isI. rewrite Hst. reflexivity. }
  rewrite HS, HI, HR. repeat split; try reflexivity. ring.
Qed.
