(* C09 for Gillespie_simple_contagion: reading the transmissions of a legal log.
   transmissions() = the induced events of the log, in order, each with the inducing
   neighbour; spontaneous events and the initial statuses leave no entry.  At the moment of an
   entry (t, u, v): v is a successor of u, u has the inducing status A and v the induced-from
   status B of an edge (A,B)->(A,C) of J with positive rate, v takes C at t; "the status at
   that moment" is the last entry so far of the node's own history. *)
From EoNV Require Import Prelude Samp Graph ListDict ListDictP Gillespie KldP GillespieInv SampP Simple SimpleP
  SimpleExecS SimpleExec SimpleExecLog SimpleExecTop.
From Coq Require Import Permutation Lqa Sorted.

Definition upd_ev (f : node -> N) (e : gev) : node -> N := fupdN f (ge_node e) (ge_new e).
Definition statuses_after (st : node -> N) (a : list gev) : node -> N := fold_left upd_ev a st.

Definition has_src (e : gev) : bool := match ge_src e with Some _ => true | None => false end.

Lemma node_events_app' : forall u (a b : list (Q * node * N)), node_events u (a ++ b) = node_events u a ++ node_events u b.
Proof. intros u a b. unfold node_events. rewrite filter_app, map_app. reflexivity. Qed.

(* transmissions = exactly the induced events, in order, each once; no source-less entry *)
Lemma txs_are_induced_events : forall evs,
  flat_map ev_tx evs = map (fun e => (ge_t e, ge_src e, ge_node e)) (filter has_src evs).
Proof.
  induction evs as [|e evs IH]; [reflexivity|]. cbn [flat_map filter]. unfold ev_tx at 1, has_src at 1.
  destruct (ge_src e) as [u|] eqn:E; cbn [app map]; rewrite IH; [rewrite E|]; reflexivity.
Qed.

Lemma txs_all_sourced : forall evs, Forall (fun x : Q * option node * node => snd (fst x) <> None) (flat_map ev_tx evs).
Proof.
  induction evs as [|e evs IH]; [constructor|]. cbn [flat_map]. apply Forall_app. split; [|exact IH].
  unfold ev_tx. destruct (ge_src e); [constructor; [cbn; discriminate|constructor]|constructor].
Qed.

Section Tx.
Variable g : graph.
Variables H J : list trans.
Variable tmax : xtime.

(* the event in the middle of a log is legal in the statuses its prefix leads to *)
Lemma glog_middle : forall a st t e b st' t', glog g H J tmax st t (a ++ e :: b) st' t' ->
  ev_legal g H J (statuses_after st a) e /\ t <= ge_t e /\ xlt (ge_t e) tmax = true.
Proof.
  induction a as [|x a IH]; intros st t e b st' t' Hl; cbn [app] in Hl; inversion Hl; subst.
  - split; [assumption|]. split; assumption.
  - match goal with K : glog _ _ _ _ _ _ (a ++ e :: b) _ _ |- _ => destruct (IH _ _ _ _ _ _ K) as [A [B C]] end.
    split; [exact A|]. split; [lra|exact C].
Qed.

(* one transmission entry, read in the statuses of its moment *)
Lemma tx_entry_valid : forall a st t e b st' t' u, glog g H J tmax st t (a ++ e :: b) st' t' ->
  ge_src e = Some u ->
  let cur := statuses_after st a in
  In u (gnodes g) /\ In (ge_node e) (gnodes g) /\ In (ge_node e) (gadj g u) /\
  cur (ge_node e) = ge_old e /\
  (exists tr, In tr J /\ 0 < tr_rate tr /\ tr_from tr = [cur u; ge_old e] /\ snd_status (tr_to tr) = ge_new e) /\
  statuses_after st (a ++ [e]) (ge_node e) = ge_new e /\
  (forall x, x <> ge_node e -> statuses_after st (a ++ [e]) x = cur x).
Proof.
  intros a st t e b st' t' u Hl Hs cur.
  destruct (glog_middle a st t e b st' t' Hl) as [[Hm [Hold Hleg]] _]. rewrite Hs in Hleg.
  destruct Hleg as [Hu [Hv Htr]].
  split; [exact Hu|]. split; [exact Hm|]. split; [exact Hv|]. split; [exact Hold|]. split; [exact Htr|].
  unfold statuses_after. rewrite fold_left_app. cbn [fold_left]. unfold upd_ev at 1 3. split.
  - apply fupdN_same.
  - intros x Hx. apply fupdN_other. exact Hx.
Qed.

(* a spontaneous event in the middle of a log: an edge of H, and it leaves no entry *)
Lemma spont_event_valid : forall a st t e b st' t', glog g H J tmax st t (a ++ e :: b) st' t' ->
  ge_src e = None ->
  statuses_after st a (ge_node e) = ge_old e /\
  (exists tr, In tr H /\ 0 < tr_rate tr /\ tr_from tr = [ge_old e] /\ hd_status (tr_to tr) = ge_new e) /\
  ev_tx e = [].
Proof.
  intros a st t e b st' t' Hl Hs.
  destruct (glog_middle a st t e b st' t' Hl) as [[Hm [Hold Hleg]] _]. rewrite Hs in Hleg.
  split; [exact Hold|]. split; [exact Hleg|]. unfold ev_tx. rewrite Hs. reflexivity.
Qed.

(* transmissions are time-ordered *)
Lemma txs_sorted : forall st t evs st' t', glog g H J tmax st t evs st' t' ->
  Forall (fun x : Q * option node * node => t <= fst (fst x)) (flat_map ev_tx evs) /\
  StronglySorted (fun x y : Q * option node * node => fst (fst x) <= fst (fst y)) (flat_map ev_tx evs).
Proof.
  intros st t evs st' t' Hl. induction Hl as [|st t e l st' t' Hleg Ht Hx Hr [IH1 IH2]]; [split; constructor|].
  cbn [flat_map]. unfold ev_tx at 1 3. destruct (ge_src e) as [u|]; cbn [app].
  - split.
    + constructor; [cbn [fst]; exact Ht|]. eapply Forall_impl; [|exact IH1]. intros x K. cbn beta in K. lra.
    + constructor; [exact IH2|]. eapply Forall_impl; [|exact IH1]. intros x K. cbn [fst]. exact K.
  - split; [|exact IH2]. eapply Forall_impl; [|exact IH1]. intros x K. cbn beta in K. lra.
Qed.

End Tx.

(* "the status at that moment" is the last entry so far of the node's own history *)
Lemma status_is_last_history_entry : forall a st u t0,
  statuses_after st a u = snd (last ((t0, st u) :: node_events u (map ev3 a)) (t0, st u)).
Proof.
  induction a as [|e a IH] using rev_ind; intros st u t0; [reflexivity|].
  unfold statuses_after. rewrite fold_left_app. cbn [fold_left]. fold (statuses_after st a).
  rewrite map_app, node_events_app'. cbn [map]. unfold node_events at 2. cbn [filter]. unfold ev3 at 2. cbn [fst snd].
  unfold upd_ev, fupdN. rewrite (N.eqb_sym u (ge_node e)).
  destruct (N.eqb (ge_node e) u) eqn:E.
  - cbn [map fst snd]. rewrite app_comm_cons, last_last. reflexivity.
  - cbn [map]. rewrite app_nil_r. apply IH.
Qed.
