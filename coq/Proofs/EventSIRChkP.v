(* The extracted checkers of Model/EventSIRChk.v: every run of the model passes them
   (completeness w.r.t. the predicates of the theorems) and what acceptance means. *)
From EoNV Require Import Prelude Samp Graph EventSIR EventSIRP EventSIRInv EventSIRMain EventSIRChar EventSIRTop EventSIRPred.
From EoNV Require Import Investigation InvestigationP EventSIRLog EventSIRRows EventSIRTraj EventSIRC04 EventSIRC09 EventSIRChk.
From EoNV Require Gillespie GillespieP.
Require Import Lqa.

(* ================= C04 ================= *)
Lemma row_okb_census : forall g c, is_censusS g c -> row_okb (order g) c = true.
Proof.
  intros g c H. destruct (GillespieP.census_counts g Gillespie.SIR c H) as [Hnn [Hsum Hlen]].
  destruct c as [|a [|b [|d [|x c]]]]; try discriminate Hlen.
  inversion Hnn as [|? ? Ha Hnn1]; subst. inversion Hnn1 as [|? ? Hb Hnn2]; subst. inversion Hnn2 as [|? ? Hd _]; subst.
  cbn [row_okb]. cbn [sumZ fold_right] in Hsum.
  rewrite (proj2 (Z.leb_le 0 a) Ha), (proj2 (Z.leb_le 0 b) Hb), (proj2 (Z.leb_le 0 d) Hd). cbn [andb].
  apply Z.eqb_eq. lia.
Qed.

Lemma zlist_eqb3 : forall a b c a' b' c', a = a' -> b = b' -> c = c' -> zlist_eqb [a; b; c] [a'; b'; c']%Z = true.
Proof. intros; subst. cbn. rewrite !Z.eqb_refl. reflexivity. Qed.

Lemma move_okb_move : forall c c', moveS c c' -> move_okb c c' = true.
Proof.
  intros c c' [E|E]; subst c'; unfold move_okb, Gillespie.cnt, cnt3; apply orb_true_iff; [left|right];
    apply zlist_eqb3; lia.
Qed.

Lemma steps_of_adj : forall g tmax (l : list row) (r : row),
  (forall (l1 : list row) (a b : row) (l2 : list row), r :: l = l1 ++ a :: b :: l2 ->
     fst a <= fst b /\ xlt (fst b) tmax = true /\ moveS (snd a) (snd b) /\ is_censusS g (snd b)) ->
  steps_okb (order g) tmax r l = true.
Proof.
  intros g tmax l. induction l as [|r2 l IH]; intros r H; [reflexivity|].
  destruct (H [] r r2 l eq_refl) as [A [B [C D]]]. cbn [steps_okb].
  rewrite (proj2 (Qleb_true _ _) A), B, (move_okb_move _ _ C), (row_okb_census g _ D). cbn [andb].
  apply IH. intros l1 a b l2 E. apply (H (r :: l1) a b l2). cbn [app]. rewrite E. reflexivity.
Qed.

Theorem wf_trajb_complete : forall g tmin tmax l, trajS g tmin tmax l -> wf_trajb g tmin tmax l = true.
Proof.
  intros g tmin tmax l H. destruct (GillespieP.traj_first g Gillespie.SIR tmin tmax l H) as [r [l' [E Hr]]]. subst l.
  unfold wf_trajb. rewrite (proj2 (qeqb_t _ _) Hr). cbn [andb].
  rewrite (row_okb_census g (snd r)) by (apply (GillespieP.traj_census g Gillespie.SIR tmin tmax _ H); left; reflexivity).
  cbn [andb]. apply steps_of_adj. intros l1 a b l2 E.
  destruct (GillespieP.traj_adjacent g Gillespie.SIR tmin tmax _ H l1 a b l2 E) as [A [B C]].
  split; auto. split; auto. split; auto.
  apply (GillespieP.traj_census g Gillespie.SIR tmin tmax _ H). rewrite E. apply in_or_app. right. right. left. reflexivity.
Qed.

Definition row_spec (n : Z) (c : list Z) : Prop :=
  exists a b d, c = [a; b; d] /\ (0 <= a)%Z /\ (0 <= b)%Z /\ (0 <= d)%Z /\ (a + b + d = n)%Z.
Definition move_spec (c c' : list Z) : Prop :=
  c' = [cnt3 c 0 - 1; cnt3 c 1 + 1; cnt3 c 2]%Z \/ c' = [cnt3 c 0; cnt3 c 1 - 1; cnt3 c 2 + 1]%Z.

Lemma row_okb_spec : forall n c, row_okb n c = true -> row_spec n c.
Proof.
  intros n c H. destruct c as [|a [|b [|d [|x c]]]]; try discriminate H. cbn [row_okb] in H.
  repeat (apply andb_prop in H; destruct H as [H ?]).
  exists a, b, d. split; [reflexivity|]. repeat split; try (apply Z.leb_le; assumption). apply Z.eqb_eq. assumption.
Qed.

Lemma move_okb_spec : forall c c', move_okb c c' = true -> move_spec c c'.
Proof.
  intros c c' H. unfold move_okb in H. apply orb_true_iff in H. destruct H as [H|H]; apply zlist_eqb_eq in H; [left|right]; exact H.
Qed.

Lemma steps_okb_spec : forall n tmax (l : list row) (r : row), steps_okb n tmax r l = true ->
  (forall (l1 : list row) (a b : row) (l2 : list row), r :: l = l1 ++ a :: b :: l2 ->
     fst a <= fst b /\ xlt (fst b) tmax = true /\ move_spec (snd a) (snd b)) /\
  (forall x, In x l -> row_spec n (snd x)).
Proof.
  intros n tmax l. induction l as [|r2 l IH]; intros r H.
  - split; [|intros x []]. intros l1 a b l2 E. destruct l1 as [|y [|z l1]]; discriminate E.
  - cbn [steps_okb] in H. repeat (apply andb_prop in H; destruct H as [H ?]).
    destruct (IH r2 ltac:(assumption)) as [I1 I2]. split.
    + intros l1 a b l2 E. destruct l1 as [|y l1]; cbn [app] in E.
      * injection E as E1 E2 E3. subst a b l2. split; [apply Qleb_true; assumption|]. split; [assumption|apply move_okb_spec; assumption].
      * injection E as E1 E2. apply (I1 l1 a b l2 E2).
    + intros x [<-|Hx]; [apply row_okb_spec; assumption|apply I2; exact Hx].
Qed.

(* what acceptance means *)
Theorem wf_trajb_sound : forall g tmin tmax l, wf_trajb g tmin tmax l = true ->
  (exists r l', l = r :: l' /\ fst r == tmin) /\
  (forall (l1 : list row) (a b : row) (l2 : list row), l = l1 ++ a :: b :: l2 ->
     fst a <= fst b /\ xlt (fst b) tmax = true /\ move_spec (snd a) (snd b)) /\
  (forall x, In x l -> row_spec (order g) (snd x)).
Proof.
  intros g tmin tmax l H. destruct l as [|r l]; [discriminate H|]. cbn [wf_trajb] in H.
  apply andb_prop in H. destruct H as [H H3]. apply andb_prop in H. destruct H as [H1 H2].
  destruct (steps_okb_spec _ _ _ _ H3) as [S1 S2].
  split; [exists r, l; split; [reflexivity|apply qeqb_t; exact H1]|]. split; [exact S1|].
  intros x [<-|Hx]; [apply row_okb_spec; exact H2|apply S2; exact Hx].
Qed.

(* every run of the model, both return modes, every tie policy, passes the checker *)
Theorem esir_rows_pass_checker : forall tb g delay dur i0 r0 tmin tmax full fuel,
  esir_okb2 g delay dur i0 r0 tmin tmax = true -> (esir_fuel g i0 <= fuel)%nat ->
  exists out cs, esir_det tb g delay dur i0 r0 tmin tmax full fuel = Ok (out, cs) /\
                 wf_trajb g tmin tmax (so_rows out) = true.
Proof.
  intros tb g delay dur i0 r0 tmin tmax full fuel Hok Hf.
  destruct (esir_rows_traj tb g delay dur i0 r0 tmin tmax full fuel Hok Hf) as [sF [evs [out [cs [_ [_ [Hd [_ [_ [_ Ht]]]]]]]]]].
  exists out, cs. split; [exact Hd|apply wf_trajb_complete; exact Ht].
Qed.

(* ================= C09 ================= *)
Lemma find_tx_none : forall v (l : list txent), (forall x, In x l -> tx_tgt x <> v) -> find_tx v l = None.
Proof.
  intros v l. induction l as [|[[t s] w] l IH]; intros H; [reflexivity|]. cbn [find_tx].
  destruct (N.eqb w v) eqn:E.
  - apply N.eqb_eq in E. exfalso. apply (H (t, s, w)); [left; reflexivity|exact E].
  - apply IH. intros x Hx. apply H. right. exact Hx.
Qed.

Lemma find_tx_none_inv : forall v (l : list txent), find_tx v l = None -> ~ In v (map tx_tgt l).
Proof.
  intros v l. induction l as [|[[t s] w] l IH]; intros H; [intros []|]. cbn [find_tx] in H.
  destruct (N.eqb w v) eqn:E; [discriminate H|]. apply N.eqb_neq in E.
  cbn [map tx_tgt snd]. intros [Hx|Hx]; [contradiction|apply (IH H Hx)].
Qed.

Lemma find_tx_some_in : forall v (l : list txent) t, find_tx v l = Some t -> exists s, In (t, s, v) l.
Proof.
  intros v l. induction l as [|[[t0 s] w] l IH]; intros t H; [discriminate H|]. cbn [find_tx] in H.
  destruct (N.eqb w v) eqn:E.
  - apply N.eqb_eq in E. subst w. injection H as <-. exists s. left. reflexivity.
  - destruct (IH t H) as [s' Hs]. exists s'. right. exact Hs.
Qed.

Lemma find_tx_unique : forall v (l : list txent) t s, NoDup (map tx_tgt l) -> In (t, s, v) l -> find_tx v l = Some t.
Proof.
  intros v l. induction l as [|[[t0 s0] w] l IH]; intros t s Hnd Hin; [destruct Hin|].
  cbn [map tx_tgt snd] in Hnd. inversion Hnd as [|? ? Hw Hnd']; subst. cbn [find_tx].
  destruct Hin as [E|Hin].
  - inversion E; subst. rewrite N.eqb_refl. reflexivity.
  - destruct (N.eqb w v) eqn:Ew.
    + apply N.eqb_eq in Ew. subst w. exfalso. apply Hw. apply in_map_iff. exists (t, s, v). auto.
    + apply (IH t s Hnd' Hin).
Qed.

Lemma NoDup_snoc : forall A (l : list A) x, NoDup l -> ~ In x l -> NoDup (l ++ [x]).
Proof.
  intros A l x H Hx. induction H as [|a l Ha H IH]; cbn [app]; [constructor; [intros []|constructor]|].
  constructor.
  - intros Hin. apply in_app_or in Hin. destruct Hin as [Hin|[E|[]]]; [contradiction|]. subst. apply Hx. left. reflexivity.
  - apply IH. intros Hin. apply Hx. right. exact Hin.
Qed.

Section TxChk.
Variable g : graph.
Variable delay : node -> node -> xtime.
Variable dur : node -> xtime.
Variable tmin : Q.
Variable tmax : xtime.
Variables i0 r0 : list node.

Notation OKB := (txs_okb g delay dur tmin tmax i0 r0).

(* what one accepted entry means, relative to the earlier entries [a] *)
Definition entry_spec (a : list txent) (x : txent) : Prop :=
  let '(t, s, v) := x in
  (forall y, In y a -> tx_time y <= t) /\ tmin <= t /\ xlt t tmax = true /\ In v (gnodes g) /\ ~ In v r0 /\
  ~ In v (map tx_tgt a) /\
  match s with
  | None => In v i0 /\ t == tmin
  | Some u => In u (gnodes g) /\ In v (gadj g u) /\
              exists tu su d, In (tu, su, u) a /\ delay u v = Some d /\ t == tu + d /\ tu <= t /\
                              xleb (Some t) (xadd tu (dur u)) = true
  end.

Lemma txs_okb_sound : forall l a last, OKB (rev a) last l = true ->
  NoDup (map tx_tgt a) -> (forall y, In y a -> tx_time y <= last) -> tmin <= last ->
  NoDup (map tx_tgt (a ++ l)) /\
  (forall l1 x l2, l = l1 ++ x :: l2 -> entry_spec (a ++ l1) x).
Proof.
  induction l as [|[[t s] v] l IH]; intros a last H Hnd Hle Hmin.
  - rewrite app_nil_r. split; [exact Hnd|]. intros l1 x l2 E. destruct l1; discriminate E.
  - cbn [txs_okb] in H. apply andb_prop in H. destruct H as [He Hr]. unfold tx_entry_okb in He.
    apply andb_prop in He. destruct He as [He Hsrc]. apply andb_prop in He. destruct He as [He Hnone].
    apply andb_prop in He. destruct He as [He Hvr]. apply andb_prop in He. destruct He as [He Hvg].
    apply andb_prop in He. destruct He as [Hlast Hx].
    apply Qleb_true in Hlast. apply mem_In in Hvg. apply negb_true_iff in Hvr.
    assert (Hvr0 : ~ In v r0) by (intro Hc; apply mem_In in Hc; congruence).
    assert (Hva : ~ In v (map tx_tgt a)).
    { destruct (find_tx v (rev a)) eqn:Ef; [discriminate Hnone|]. apply find_tx_none_inv in Ef.
      intros Hc. apply Ef. unfold tx_tgt in *. rewrite map_rev. apply in_rev in Hc. exact Hc. }
    assert (Hspec : entry_spec a (t, s, v)).
    { cbn. split; [intros y Hy; pose proof (Hle y Hy); lra|]. split; [lra|]. split; [exact Hx|]. split; [exact Hvg|].
      split; [exact Hvr0|]. split; [exact Hva|].
      destruct s as [u|].
      - apply andb_prop in Hsrc. destruct Hsrc as [Hsrc Hm]. apply andb_prop in Hsrc. destruct Hsrc as [Hug Hadj].
        apply mem_In in Hug. apply mem_In in Hadj. split; [exact Hug|]. split; [exact Hadj|].
        destruct (find_tx u (rev a)) as [tu|] eqn:Ef; [|discriminate Hm].
        destruct (delay u v) as [d|] eqn:Ed; [|discriminate Hm].
        apply andb_prop in Hm. destruct Hm as [Hm H3]. apply andb_prop in Hm. destruct Hm as [H1 H2].
        destruct (find_tx_some_in u _ tu Ef) as [su Hsu]. apply in_rev in Hsu.
        exists tu, su, d. split; [exact Hsu|]. split; [reflexivity|]. split; [apply qeqb_t; exact H1|].
        split; [apply Qleb_true; exact H2|]. destruct (dur u); [exact H3|reflexivity].
      - apply andb_prop in Hsrc. destruct Hsrc as [H1 H2]. apply mem_In in H1. apply qeqb_t in H2. auto. }
    destruct (IH (a ++ [(t, s, v)]) t) as [I1 I2].
    + rewrite rev_app_distr. exact Hr.
    + unfold tx_tgt in *. rewrite map_app. cbn [map snd]. apply NoDup_snoc; assumption.
    + intros y Hy. apply in_app_or in Hy. destruct Hy as [Hy|[<-|[]]]; [pose proof (Hle y Hy); lra|cbn; apply Qle_refl].
    + lra.
    + split; [rewrite <- app_assoc in I1; exact I1|].
      intros l1 x l2 E. destruct l1 as [|y l1]; cbn [app] in E.
      * injection E as <- _. rewrite app_nil_r. exact Hspec.
      * injection E as <- E. specialize (I2 l1 x l2 E). rewrite <- app_assoc in I2. exact I2.
Qed.

(* the pure specification of a valid transmissions list *)
Record tx_spec (txs : list txent) : Prop := {
  ts_entries : forall a x b, txs = a ++ x :: b -> entry_spec a x;
  ts_initial : forall v, In v i0 -> exists t, In (t, None, v) txs;
  ts_once : NoDup (map tx_tgt txs)
}.

Theorem tx_validb_sound : forall txs, tx_validb g delay dur tmin tmax i0 r0 txs = true -> tx_spec txs.
Proof.
  intros txs H. unfold tx_validb in H. apply andb_prop in H. destruct H as [H1 H2].
  destruct (txs_okb_sound txs [] tmin H1) as [S1 S2]; [constructor|intros y []|apply Qle_refl|].
  constructor.
  - intros a x b E. apply (S2 a x b E).
  - intros v Hv. rewrite forallb_forall in H2. specialize (H2 v Hv). apply existsb_exists in H2.
    destruct H2 as [[[t s] w] [Hin Hx]]. cbn [fst snd] in Hx. destruct s; [discriminate Hx|].
    apply N.eqb_eq in Hx. subst w. exists t. exact Hin.
  - exact S1.
Qed.

(* completeness: the validity predicate of the theorem implies acceptance *)
Variable sF : est.
Variable evs : list event.

Lemma txs_okb_complete : forall txs, tx_valid g tmax delay dur tmin i0 r0 sF evs txs ->
  forall l a last, txs = a ++ l ->
  ((a = [] /\ last = tmin) \/ exists a' y, a = a' ++ [y] /\ last = tx_time y) ->
  OKB (rev a) last l = true.
Proof.
  intros txs V. induction l as [|[[t s] v] l IH]; intros a last E Hlast; [reflexivity|].
  cbn [txs_okb]. apply andb_true_iff. split.
  - destruct (tv_target _ _ _ _ _ _ _ _ _ _ V a t s v l E) as [Hvr [Hva [Hvg Hlt]]].
    assert (Hin : In (t, s, v) txs) by (rewrite E; apply in_or_app; right; left; reflexivity).
    assert (Hnd : NoDup (map tx_tgt (rev a))).
    { pose proof (tv_once _ _ _ _ _ _ _ _ _ _ V) as Hn. rewrite E, map_app in Hn.
      unfold tx_tgt in *. rewrite map_rev. apply NoDup_rev.
      clear -Hn. induction (map snd a) as [|x m IHm]; [constructor|]. cbn [app] in Hn. inversion Hn; subst.
      constructor; [intro Hc; apply H1; apply in_or_app; left; exact Hc|apply IHm; assumption]. }
    unfold tx_entry_okb.
    assert (H1 : Qleb last t = true).
    { apply Qleb_true. destruct Hlast as [[-> ->]|[a' [y [-> ->]]]].
      - apply (tv_after _ _ _ _ _ _ _ _ _ _ V (t, s, v) Hin).
      - apply (tv_sorted _ _ _ _ _ _ _ _ _ _ V (a' ++ [y]) (t, s, v) l E). apply in_or_app. right. left. reflexivity. }
    rewrite H1, (xlt_ltmax _ _ Hlt). apply mem_In in Hvg. rewrite Hvg.
    assert (H2 : mem v r0 = false) by (apply mem_false_notin; exact Hvr). rewrite H2.
    assert (H3 : find_tx v (rev a) = None).
    { apply find_tx_none. intros x Hx Ex. apply Hva. apply in_map_iff. exists x. split; [exact Ex|]. apply in_rev. exact Hx. }
    rewrite H3. cbn [andb negb].
    destruct s as [u|].
    + destruct (tv_sourced _ _ _ _ _ _ _ _ _ _ V a t u v l E) as [Hug [Hadj [tu [su [d [Hu [Hd [Htd [Hle [_ Hcl]]]]]]]]]].
      apply mem_In in Hug. apply mem_In in Hadj. rewrite Hug, Hadj. cbn [andb].
      rewrite (find_tx_unique u (rev a) tu su Hnd) by (apply in_rev in Hu; exact Hu). rewrite Hd.
      rewrite (proj2 (qeqb_t _ _) Htd), (proj2 (Qleb_true _ _) Hle). cbn [andb].
      destruct (dur u); [exact Hcl|reflexivity].
    + destruct (tv_sourceless _ _ _ _ _ _ _ _ _ _ V t v Hin) as [Hi Ht]. apply mem_In in Hi. rewrite Hi, Ht.
      apply qeqb_t. reflexivity.
  - cbn [fst].
    assert (Hrec : OKB (rev (a ++ [(t, s, v)])) t l = true).
    { apply IH; [rewrite <- app_assoc; exact E|]. right. exists a, (t, s, v). split; reflexivity. }
    rewrite rev_app_distr in Hrec. exact Hrec.
Qed.

Theorem tx_validb_complete : forall txs, tx_valid g tmax delay dur tmin i0 r0 sF evs txs ->
  tx_validb g delay dur tmin tmax i0 r0 txs = true.
Proof.
  intros txs V. unfold tx_validb. apply andb_true_iff. split.
  - apply (txs_okb_complete txs V txs [] tmin eq_refl). left. auto.
  - apply forallb_forall. intros u Hu. apply existsb_exists. exists (tmin, None, u).
    split; [apply (tv_initial _ _ _ _ _ _ _ _ _ _ V u Hu)|]. cbn. apply N.eqb_refl.
Qed.

End TxChk.

(* every full-data run of the model, every tie policy, passes the checker *)
Theorem esir_transmissions_pass_checker : forall tb g delay dur i0 r0 tmin tmax fuel,
  esir_okb2 g delay dur i0 r0 tmin tmax = true -> (esir_fuel g i0 <= fuel)%nat ->
  exists out cs fd, esir_det tb g delay dur i0 r0 tmin tmax true fuel = Ok (out, cs) /\ so_full out = Some fd /\
                    tx_validb g delay dur tmin tmax i0 r0 (fd_trans fd) = true.
Proof.
  intros tb g delay dur i0 r0 tmin tmax fuel Hok Hf.
  destruct (esir_transmissions_valid tb g delay dur i0 r0 tmin tmax fuel Hok Hf) as [sF [evs [out [cs [fd [_ [_ [Hd [Hfd V]]]]]]]]].
  exists out, cs, fd. split; [exact Hd|]. split; [exact Hfd|]. apply (tx_validb_complete g delay dur tmin tmax i0 r0 sF evs _ V).
Qed.
