(* C13x, part 2: FINITE RULE TABLES.  If the delay tables list nothing from the
   infection ordinal K on (every node transmits during its first K infections
   only — in particular every table given as a finite array, which is what a
   caller of fast_nonMarkov_SIS with stored delay lists has), the reference agenda
   run and fast_nonMarkov_SIS both end within [ref_fuel] / [nm_fuel], for EVERY
   tmax (finite or infinite), every durations (zero, negative, anything) and every
   delay values (unsorted, tied, ...): the process dies out because the tables
   run dry.  No hypothesis about time is used. *)
From EoNV Require Import Prelude Samp Graph EventSIS EventSISP EventSISP3 C13xTerm.
From Coq Require Import Permutation Lia.

Definition cut_delays (K : nat) (delays : node -> node -> nat -> list Q) : node -> node -> nat -> list Q :=
  fun v w k => if Nat.ltb k K then delays v w k else [].
Definition delays_finite (K : nat) (delays : node -> node -> nat -> list Q) : Prop :=
  forall v w k, (K <= k)%nat -> delays v w k = [].
Lemma cut_finite : forall K delays, delays_finite K (cut_delays K delays).
Proof. intros K delays v w k H. unfold cut_delays. destruct (Nat.ltb_spec k K); [lia|reflexivity]. Qed.

Section Fin.
Variable g : graph.
Hypothesis Hnd : NoDup (gnodes g).
Hypothesis Hadj : forall u v, In u (gnodes g) -> In v (gadj g u) -> In v (gnodes g).
Variable dur : node -> nat -> Q.
Variable delays : node -> node -> nat -> list Q.
Variable tmax : xtime.
Variable K : nat.
Hypothesis Hfin : delays_finite K delays.

Lemma natt_fin : forall v k, (K <= k)%nat -> natt g delays v k = O.
Proof.
  intros v k H. unfold natt. induction (gadj g v) as [|w ws IH]; [reflexivity|].
  cbn [map]. rewrite ls_cons, IH, (Hfin v w k H). reflexivity.
Qed.
Lemma safe_fin : forall v k, In v (gnodes g) -> safe g delays K v k.
Proof.
  intros v k Hin. destruct (Nat.lt_ge_cases k K) as [H|H]; [left; split; assumption|right; apply natt_fin; exact H].
Qed.

(* targets of pending attempts are nodes of the graph *)
Definition tgt_ok (x : Q * aev) : Prop := match snd x with AAtt _ v => In v (gnodes g) | ARec _ => True end.
Definition RP (s : rst) : Prop := Forall tgt_ok (r_ag s).

Lemma ains_forall : forall (P : Q * aev -> Prop) x l, P x -> Forall P l -> Forall P (ains x l).
Proof.
  intros P x l Hx Hl. eapply Permutation_Forall; [apply Permutation_sym; apply ains_perm|]. constructor; assumption.
Qed.

Lemma RP_infect : forall t src v s, In v (gnodes g) -> RP s -> RP (r_infect g dur delays tmax t src v s).
Proof.
  intros t src v s Hv Hp. unfold RP.
  destruct (r_infect_ind g dur delays tmax K (Forall tgt_ok) t src v s) as [A _]; [| |intros ag w d Hi Hw _ _|exact A].
  - intros _. apply ains_forall; [exact I|exact Hp].
  - intros _. exact Hp.
  - apply ains_forall; [|exact Hi]. unfold tgt_ok. cbn [snd]. apply (Hadj v); [exact Hv|exact Hw].
Qed.

Lemma RP_step : forall s t a rest, RP s -> r_ag s = (t, a) :: rest ->
  RP (r_event g dur delays tmax t a (rpop s rest)) /\
  (forall u v, a = AAtt u v -> r_stat s v = stS -> safe g delays K v (r_ord s v)).
Proof.
  intros s t a rest Hp Ea. unfold RP in Hp. rewrite Ea in Hp. inversion Hp as [|? ? Hh Hr]; subst. split.
  - destruct a as [v|u v]; cbn [r_event]; [exact Hr|].
    destruct (N.eqb (r_stat (rpop s rest) v) stS); [apply RP_infect; [exact Hh|]|]; exact Hr.
  - intros u v -> _. apply safe_fin. exact Hh.
Qed.

Theorem ref_total_fin : forall tmin full i0, incl i0 (gnodes g) ->
  exists out b, ref_sis g dur delays tmax tmin full (ref_fuel g delays K i0) i0 = Ok (out, b).
Proof.
  intros tmin full i0 Hinc. unfold ref_sis. rewrite r_init_eq.
  destruct (r_init_total g dur delays tmax K Hnd RP tmin i0 (r_empty g tmin)) as [Hp Hm].
  - intros s u Hs Hu. split; [|intros _; apply safe_fin; apply Hinc; exact Hu].
    unfold r_init_step. destruct (N.eqb (r_stat s u) stS); [apply RP_infect; [apply Hinc; exact Hu|exact Hs]|exact Hs].
  - constructor.
  - destruct (r_loop_total g dur delays tmax K Hnd RP RP_step (ref_fuel g delays K i0) _ Hp) as [s' [E _]].
    + unfold ref_fuel. unfold rM in Hm at 2. cbn [r_empty r_ag r_ord] in Hm. unfold agw in Hm. cbn [map] in Hm. rewrite ls_nil in Hm. lia.
    + rewrite E. cbn [rbind]. eexists. eexists. reflexivity.
Qed.

(* the same for the queue of fast_nonMarkov_SIS *)
Definition ntgt_ok (x : qent nev) : Prop := match snd x with NTrans _ v _ => In v (gnodes g) | NRec _ => True end.
Definition NP (s : nst) : Prop := Forall ntgt_ok (q_items (ns_q s)).

Lemma NP_add : forall q t e, Forall ntgt_ok (q_items q) -> ntgt_ok (t, O, e) -> Forall ntgt_ok (q_items (q_add tmax q t e)).
Proof.
  intros q t e Hq He. unfold q_add. destruct (xlt t tmax); [|exact Hq]. cbn [q_items].
  eapply Permutation_Forall; [apply Permutation_sym; apply qins_perm|]. constructor; assumption.
Qed.
Lemma NP_chain : forall q src v tt, Forall ntgt_ok (q_items q) -> In v (gnodes g) -> Forall ntgt_ok (q_items (chain tmax q src v tt)).
Proof. intros q src v [|h tl] Hq Hv; cbn [chain]; [exact Hq|]. apply NP_add; assumption. Qed.
Lemma NP_sched_fold : forall time u k stat rec ws q, In u (gnodes g) -> incl ws (gadj g u) -> Forall ntgt_ok (q_items q) ->
  Forall ntgt_ok (q_items (fold_left (n_sched delays tmax time u k stat rec) ws q)).
Proof.
  intros time u k stat rec ws. induction ws as [|w ws IH]; intros q Hu Hinc Hq; cbn [fold_left]; [exact Hq|].
  apply IH; [exact Hu|intros x Hx; apply Hinc; right; exact Hx|].
  unfold n_sched. destruct (delays u w k) as [|d dl]; [exact Hq|].
  apply NP_chain; [exact Hq|]. apply (Hadj u); [exact Hu|]. apply Hinc. left. reflexivity.
Qed.

Lemma NP_step : forall s t c e rest, NP s -> q_items (ns_q s) = (t, c, e) :: rest ->
  NP (n_event g dur delays tmax t e (npop s rest)) /\
  (forall src v fut, e = NTrans src v fut -> ns_stat s v = stS -> safe g delays K v (ns_ord s v)).
Proof.
  intros s t c e rest Hp Eq. unfold NP in Hp. rewrite Eq in Hp. inversion Hp as [|? ? Hh Hr]; subst. split.
  - destruct e as [v|src v fut]; cbn [n_event]; [exact Hr|].
    unfold NP, n_trans. cbn [npop ns_stat ns_rec ns_ord ns_q ns_log].
    destruct (N.eqb (ns_stat s v) stS); cbn [ns_q]; apply NP_chain; try exact Hh; [|exact Hr].
    apply NP_sched_fold; [exact Hh|apply incl_refl|].
    destruct (xlt (tadd t (dur v (ns_ord s v))) tmax); [apply NP_add; [exact Hr|exact I]|exact Hr].
  - intros src v fut -> _. apply safe_fin. exact Hh.
Qed.

Theorem nm_total_fin : forall tmin full i0, incl i0 (gnodes g) ->
  exists out, nm_run g dur delays tmax tmin full (nm_fuel g delays K i0) i0 = Ok out.
Proof.
  intros tmin full i0 Hinc. unfold nm_run.
  destruct (n_loop_total g dur delays tmax K Hnd NP NP_step (nm_fuel g delays K i0) (n_init g tmax tmin i0)) as [s' [E _]].
  - unfold NP, n_init. cbn [ns_q]. clear -Hinc.
    assert (H : forall l q, incl l (gnodes g) -> Forall ntgt_ok (q_items q) ->
              Forall ntgt_ok (q_items (fold_left (fun q u => q_add tmax q tmin (NTrans None u [])) l q))).
    { induction l as [|u l IH]; intros q Hl Hq; cbn [fold_left]; [exact Hq|].
      apply IH; [intros x Hx; apply Hl; right; exact Hx|]. apply NP_add; [exact Hq|]. apply Hl. left. reflexivity. }
    apply H; [exact Hinc|constructor].
  - pose proof (n_init_M g delays tmax K tmin i0). unfold nm_fuel, ref_fuel. lia.
  - rewrite E. cbn [rbind]. eexists. reflexivity.
Qed.

(* C13 without the fuel condition: the reference run ends within [ref_fuel]; its
   second component says whether it stayed inside the domain of the property
   (distinct event times, ascending lists); when it did, fast_nonMarkov_SIS
   returns literally its output *)
Theorem nmsis_refines_fin : forall tmin full i0,
  xlt tmin tmax = true -> incl i0 (gnodes g) ->
  exists out b,
    ref_sis g dur delays tmax tmin full (ref_fuel g delays K i0) i0 = Ok (out, b) /\
    (b = true -> nm_run g dur delays tmax tmin full (nm_fuel g delays K i0) i0 = Ok out).
Proof.
  intros tmin full i0 V Hinc. destruct (ref_total_fin tmin full i0 Hinc) as [out [b E]].
  exists out, b. split; [exact E|]. intros ->. unfold nm_fuel.
  apply (nmsis_refines g dur delays tmax tmin full _ i0 out V E).
Qed.

End Fin.
