(* The handshake lemma for G.edges() as networkx enumerates it (Model/IC.v
   edges_from): for a simple undirected graph, summing f u v + f v u over the
   edge list equals summing f over all ordered adjacent pairs.  Consequences:
   sum of degrees = 2|E|, and the (SS, SI, II) counts of _count_edge_types_ are
   the numbers of ordered S-S, S-I and I-I adjacent pairs (order-free
   specification `IC.pairs`). *)
From EoNV Require Import Prelude Graph Aux Vec IC Wrappers VecP ICP.
From Coq Require Import Lqa Setoid Morphisms.

Lemma sum_map_filter (F : node * node -> Q) u c l :
  sumQ (map F (map (pair u) (filter c l))) == sumQ (map (fun v => if c v then F (u, v) else 0) l).
Proof.
  induction l as [|x l IH]; [reflexivity|]. cbn [filter map]. destruct (c x); cbn [map]; rewrite !sumQ_cons, IH; ring.
Qed.

Lemma sum_if_or (c1 c2 : node -> bool) (h : node -> Q) l :
  (forall x, In x l -> (c1 x && c2 x)%bool = false) ->
  sumQ (map (fun x => if (c1 x || c2 x)%bool then h x else 0) l)
  == sumQ (map (fun x => if c1 x then h x else 0) l) + sumQ (map (fun x => if c2 x then h x else 0) l).
Proof.
  induction l as [|x l IH]; intros H; cbn [map]; rewrite ?sumQ_nil, ?sumQ_cons; [ring|].
  rewrite IH by (intros; apply H; right; assumption). specialize (H x (or_introl eq_refl)).
  destruct (c1 x), (c2 x); cbn in *; try discriminate; ring.
Qed.

Lemma sum_eq_pick (h : node -> Q) u l : nodupb l = true ->
  sumQ (map (fun x => if N.eqb x u then h x else 0) l) == if mem u l then h u else 0.
Proof.
  induction l as [|y l IH]; intros ND; [reflexivity|].
  rewrite nodupb_cons in ND. apply andb_prop in ND. destruct ND as [Ny ND]. apply negb_true_iff in Ny.
  cbn [map]. rewrite sumQ_cons, IH, mem_cons by assumption.
  destruct (N.eqb y u) eqn:E.
  - apply N.eqb_eq in E. subst y. rewrite N.eqb_refl, Ny. cbn [orb]. ring.
  - rewrite (N.eqb_sym u y), E. cbn [orb]. ring.
Qed.

Lemma sum_inter (h : node -> Q) a : forall b, nodupb a = true -> nodupb b = true ->
  sumQ (map (fun x => if mem x b then h x else 0) a) == sumQ (map (fun x => if mem x a then h x else 0) b).
Proof.
  induction a as [|x a IH]; intros b NA NB.
  - cbn [map]. rewrite sumQ_nil. symmetry. apply sumQ_map_zero. reflexivity.
  - rewrite nodupb_cons in NA. apply andb_prop in NA. destruct NA as [Nx NA]. apply negb_true_iff in Nx.
    cbn [map]. rewrite sumQ_cons, (IH b NA NB).
    rewrite (sumQ_map_ext (fun y => if mem y (x :: a) then h y else 0) (fun y => if (N.eqb y x || mem y a)%bool then h y else 0)) by reflexivity.
    rewrite sum_if_or.
    + rewrite sum_eq_pick by assumption. reflexivity.
    + intros y _. destruct (N.eqb y x) eqn:E; [|reflexivity]. apply N.eqb_eq in E. subst. rewrite Nx. reflexivity.
Qed.

(* sum over u in l of the sum over v in adj(u) with c v *)
Definition rsum (g : graph) (f : node -> node -> Q) (c : node -> bool) (l : list node) : Q :=
  sumQ (map (fun u => sumQ (map (fun v => if c v then f u v else 0) (gadj g u))) l).

Section Handshake.
Variables (g : graph) (f : node -> node -> Q).
Definition F2 (e : node * node) : Q := f (fst e) (snd e) + f (snd e) (fst e).

Lemma handshake_gen l : forall seen,
  nodupb l = true ->
  (forall x, mem x l = true -> mem x seen = false) ->
  (forall u v, mem u l = true -> mem v (gadj g u) = true -> (mem v seen || mem v l)%bool = true) ->
  (forall u v, mem u l = true -> mem v l = true -> mem v (gadj g u) = mem u (gadj g v)) ->
  (forall u, mem u l = true -> mem u (gadj g u) = false) ->
  (forall u, mem u l = true -> nodupb (gadj g u) = true) ->
  sumQ (map F2 (edges_from g l seen)) == rsum g f (fun v => mem v l) l.
Proof.
  induction l as [|u t IH]; intros seen ND DIS ADJ SYM LOOP AND; [reflexivity|].
  rewrite nodupb_cons in ND. apply andb_prop in ND. destruct ND as [Nu ND]. apply negb_true_iff in Nu.
  assert (Mu : mem u (u :: t) = true) by (rewrite mem_cons, N.eqb_refl; reflexivity).
  assert (Mt : forall w, mem w t = true -> mem w (u :: t) = true) by (intros w H; rewrite mem_cons, H; apply orb_true_r).
  cbn [edges_from]. rewrite map_app, sumQ_app, sum_map_filter.
  rewrite (IH (u :: seen)); try assumption.
  2:{ intros x Hx. rewrite mem_cons. rewrite (DIS x (Mt x Hx)). destruct (N.eqb x u) eqn:E; [|reflexivity].
      apply N.eqb_eq in E. subst. congruence. }
  2:{ intros w v Hw Hv. specialize (ADJ w v (Mt w Hw) Hv). rewrite !mem_cons in *. destruct (N.eqb v u), (mem v seen), (mem v t); cbn in *; congruence. }
  2:{ intros w v Hw Hv. apply SYM; apply Mt; assumption. }
  2:{ intros w Hw. apply LOOP, Mt, Hw. }
  2:{ intros w Hw. apply AND, Mt, Hw. }
  unfold rsum. cbn [map]. rewrite sumQ_cons.
  (* the edges starting at u *)
  assert (EA : forall v, In v (gadj g u) -> negb (mem v seen) = mem v t /\ mem v (u :: t) = mem v t).
  { intros v Hv. apply mem_In in Hv. pose proof (ADJ u v Mu Hv) as A. rewrite mem_cons in *.
    assert (Nvu : N.eqb v u = false).
    { destruct (N.eqb v u) eqn:E; [|reflexivity]. apply N.eqb_eq in E. subst. rewrite (LOOP u Mu) in Hv. discriminate. }
    rewrite Nvu in *. cbn [orb] in *. split; [|reflexivity].
    destruct (mem v t) eqn:Et.
    - rewrite (DIS v (Mt v Et)). reflexivity.
    - rewrite orb_false_r in A. rewrite A. reflexivity. }
  rewrite (sumQ_map_ext (fun v => if negb (mem v seen) then F2 (u, v) else 0)
                        (fun v => (if mem v t then f u v else 0) + (if mem v t then f v u else 0))).
  2:{ intros v Hv. destruct (EA v Hv) as [-> _]. unfold F2. cbn [fst snd]. destruct (mem v t); ring. }
  rewrite sumQ_map_add.
  rewrite (sumQ_map_ext (fun v => if mem v (u :: t) then f u v else 0) (fun v => if mem v t then f u v else 0)).
  2:{ intros v Hv. destruct (EA v Hv) as [_ ->]. reflexivity. }
  (* the other nodes: split off the neighbour u *)
  rewrite (sumQ_map_ext (fun w => sumQ (map (fun v => if mem v (u :: t) then f w v else 0) (gadj g w)))
                        (fun w => (if mem w (gadj g u) then f w u else 0) + sumQ (map (fun v => if mem v t then f w v else 0) (gadj g w)))).
  2:{ intros w Hw. apply mem_In in Hw.
      rewrite (sumQ_map_ext (fun v => if mem v (u :: t) then f w v else 0) (fun v => if (N.eqb v u || mem v t)%bool then f w v else 0)) by reflexivity.
      rewrite sum_if_or.
      - rewrite sum_eq_pick by (apply AND, Mt, Hw). rewrite (SYM u w Mu (Mt w Hw)). reflexivity.
      - intros v _. destruct (N.eqb v u) eqn:E; [|reflexivity]. apply N.eqb_eq in E. subst. rewrite Nu. reflexivity. }
  rewrite sumQ_map_add.
  rewrite (sum_inter (fun w => f w u) (gadj g u) t (AND u Mu) ND). ring.
Qed.
End Handshake.

Lemma forallb_mem (p : node -> bool) l u : forallb p l = true -> mem u l = true -> p u = true.
Proof. intros H M. apply mem_In in M. rewrite forallb_forall in H. apply H, M. Qed.

Lemma wf_ugraph_facts g : wf_ugraph g = true ->
  nodupb (gnodes g) = true /\
  (forall u, mem u (gnodes g) = true -> nodupb (gadj g u) = true /\ subsetb (gadj g u) (gnodes g) = true /\ mem u (gadj g u) = false) /\
  (forall u v, mem u (gnodes g) = true -> mem v (gadj g u) = true -> mem u (gadj g v) = true).
Proof.
  unfold wf_ugraph, wf_graphb. intros H.
  apply andb_prop in H. destruct H as [H _]. apply andb_prop in H. destruct H as [H ND].
  apply andb_prop in H. destruct H as [H SY]. apply andb_prop in H. destruct H as [NG PER].
  apply negb_true_iff in ND. rewrite ND in SY. cbn [orb] in SY.
  split; [exact NG|]. split.
  - intros u Mu. pose proof (forallb_mem _ _ u PER Mu) as P. cbv beta in P.
    repeat (apply andb_prop in P; destruct P as [P ?]).
    repeat split; try assumption. apply negb_true_iff. assumption.
  - intros u v Mu Mv. pose proof (forallb_mem _ _ u SY Mu) as P. cbv beta in P.
    pose proof (forallb_mem _ _ v P Mv) as P2. cbv beta in P2. apply andb_prop in P2. tauto.
Qed.

(* C06 shared lemma: handshake over G.edges() *)
Theorem handshake g f : wf_ugraph g = true ->
  esum g (fun u v => f u v + f v u) == sumQ (map (fun u => sumQ (map (fun v => f u v) (gadj g u))) (gnodes g)).
Proof.
  intros WG. destruct (wf_ugraph_facts g WG) as (NG & PER & SY).
  unfold esum, gedges. change (fun e : node * node => f (fst e) (snd e) + f (snd e) (fst e)) with (F2 f).
  rewrite (handshake_gen g f (gnodes g) []); try assumption.
  - unfold rsum. apply sumQ_map_ext. intros u Hu. apply mem_In in Hu. destruct (PER u Hu) as (_ & SUB & _).
    apply sumQ_map_ext. intros v Hv. apply mem_In in Hv. rewrite (forallb_mem _ _ v SUB Hv). reflexivity.
  - reflexivity.
  - intros u v Mu Mv. destruct (PER u Mu) as (_ & SUB & _). cbn [mem existsb orb]. exact (forallb_mem _ _ v SUB Mv).
  - intros u v Mu Mv. destruct (mem v (gadj g u)) eqn:E1.
    + symmetry. apply SY; assumption.
    + destruct (mem u (gadj g v)) eqn:E2; [|reflexivity]. rewrite (SY v u Mv E2) in E1. discriminate.
  - intros u Mu. apply PER, Mu.
  - intros u Mu. apply PER, Mu.
Qed.

(* sum of the degrees = 2 |E| *)
Theorem degsum_twice_size g : wf_ugraph g = true -> degsum g == 2 * gsize g.
Proof.
  intros WG. pose proof (handshake g (fun _ _ => 1) WG) as H.
  unfold degsum, gsize.
  rewrite (sumQ_map_ext (fun u => Qnat (deg g u)) (fun u => sumQ (map (fun _ => 1) (gadj g u)))).
  - rewrite <- H. unfold esum. generalize (gedges g). intros l. induction l as [|e l IH]; [reflexivity|].
    cbn [map length]. rewrite sumQ_cons, IH, Qnat_S. ring.
  - intros u _. unfold deg. generalize (gadj g u). intros l. induction l as [|x l IH]; [reflexivity|].
    cbn [map length]. rewrite sumQ_cons, <- IH, Qnat_S. ring.
Qed.

(* the counts of _count_edge_types_ are the numbers of ordered adjacent pairs *)
Lemma pairs_as_sum g a b :
  pairs g a b == sumQ (map (fun u => sumQ (map (fun v => ind (a u && b v)) (gadj g u))) (gnodes g)).
Proof.
  unfold pairs. apply sumQ_map_ext. intros u _. destruct (a u); cbn [andb].
  - rewrite <- sumQ_ind_cnt. apply sumQ_map_ext. intros v _. unfold ind. reflexivity.
  - symmetry. apply sumQ_map_zero. reflexivity.
Qed.

Theorem count_edge_types_pairs g st : wf_ugraph g = true ->
  let '(ss, si, ii) := count_edge_types_st g st in
  ss == pairs g (isS st) (isS st) /\ si == pairs g (isS st) (isI st) /\ ii == pairs g (isI st) (isI st).
Proof.
  intros WG. unfold count_edge_types_st. rewrite !pairs_as_sum, <- !(handshake g _ WG).
  assert (X : forall u, (isS st u && isI st u)%bool = false).
  { intros u. unfold isS, isI. destruct (N.eqb (st u) stS) eqn:E; [|reflexivity]. apply N.eqb_eq in E. rewrite E. reflexivity. }
  repeat split; apply esum_ext; intros u v; unfold ind.
  - destruct (isS st u), (isS st v); cbn; ring.
  - pose proof (X u) as Xu. pose proof (X v) as Xv. destruct (isS st u), (isI st v), (isI st u), (isS st v); cbn in *; try discriminate; ring.
  - destruct (isI st u), (isI st v); cbn; ring.
Qed.
