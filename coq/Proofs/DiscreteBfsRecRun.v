(* C12 with a user recovery test, part 2: discrete_SIR with table rules that are functions of the
   contact only (age_indep tt) and ANY recovery test realises the pure sequence of
   DiscreteBfsRec.v (S column = breadth-first levels of the digraph of successful contacts, the
   same as without a recovery test; infectious set = infected nodes whose tests all failed so
   far), whatever the iteration order, in both return modes; for every fuel the run returns
   exactly when the first stop index (infectious set empty or horizon reached) is within the
   fuel, and exhausts the fuel otherwise (a recovery test that never succeeds, tmax = None). *)
From EoNV Require Import Prelude Samp Graph Discrete DiscreteP DiscreteRun DiscreteC05 DiscreteBfsRec.
From Coq Require Import Permutation Lqa.

Section RunRec.
Variable g : graph.
Variable tt : node -> node -> nat -> bool.
Variable pick : nat -> node -> nat.
Variable f : node -> nat -> bool.
Variable full : bool.
Variables i0 r0 : list node.
Variable tmin : Q.
Variable tmax : xtime.

Hypothesis Hage : age_indep tt.
Hypothesis Hnd : NoDup (gnodes g).
Hypothesis Hadj : forall u v, In u (gnodes g) -> In v (gadj g u) -> In v (gnodes g).
Hypothesis Hi0 : forall v, In v i0 -> In v (gnodes g).
Hypothesis Hr0 : forall v, In v r0 -> In v (gnodes g).
Hypothesis Hi0nd : NoDup i0.
Hypothesis Hr0nd : NoDup r0.
Hypothesis Hdisj : forall v, In v i0 -> ~ In v r0.

Notation T := (T0 tt).
Notation SG := (Sg g T i0 r0).
Notation IG := (Ig g T i0 r0).
Notation JR := (Jr g tt f i0 r0).
Notation AG := (ag g tt f i0 r0).
Notation RR := (Rr g tt f i0 r0).
Notation ROWS := (rows_r g tt f i0 r0 tmin).
Notation EV := (events_r g tt f i0 r0 tmin tmax full).
Notation STOP := (stopr g tt f i0 r0 tmin tmax).

Record rinv (k : nat) (s : dst) : Prop := {
  rv_sus : forall v, In v (gnodes g) -> d_sus s v = mem v (SG k);
  rv_infs : d_infs s = JR k;
  rv_age : forall u, d_age s u = AG k u;
  rv_nS : d_nS s = lenZ (SG k);
  rv_totR : d_totR s = RR k;
  rv_rows : d_rows s = ROWS k;
  rv_hist : forall v, node_events v (rev (d_hlog s)) = EV k v
}.

Lemma init_rinv : rinv O (init_state g tmin full i0 r0).
Proof.
  constructor; cbn [init_state d_sus d_infs d_age d_nS d_totR d_rows d_hlog].
  - intros v Hv. unfold Sg. cbn [gen gen0 fst]. rewrite mem_filter.
    assert (M : mem v (gnodes g) = true) by (apply dmem_In; exact Hv). rewrite M. reflexivity.
  - reflexivity.
  - reflexivity.
  - symmetry. apply (count_S0 g tt i0 r0 Hnd Hi0 Hr0 Hi0nd Hr0nd Hdisj).
  - reflexivity.
  - reflexivity.
  - intro v. reflexivity.
Qed.

Section WithOrd.
Variable ord : nat -> list node -> list node.
Hypothesis Hord : forall k l, Permutation (ord k l) l.

Lemma step_rinv : forall k s, rinv k s ->
  exists s', step g (det_rules tt pick) (Some f) ord tmax full k (tq tmin k) s = Ret s' /\ rinv (S k) s'.
Proof.
  intros k s Hs. destruct Hs as [Hsus Hinfs Hag HnS HtotR Hrows Hhist].
  unfold step. rewrite cloop_det. cbn [bind].
  set (us := ord k (d_infs s)).
  set (c := cfold tt full k (d_age s) (contacts g us) (mkC (d_sus s) [] [] (d_nS s) (l_q (d_logs s)))).
  assert (Hc : cinv c).
  { apply cfold_inv. split; [constructor|]. split; [intros v []|constructor]. }
  destruct Hc as [Hcn [Hcs Hcf]].
  assert (Hp : exists tp, (if full then picks (det_rules tt pick) k (tq tmin k) (c_inf c) (d_tlog s) (l_p (d_logs s))
                           else Ret (d_tlog s, l_p (d_logs s))) = Ret tp).
  { destruct full; [apply picks_det; exact Hcf|eexists; reflexivity]. }
  destruct Hp as [tp Hp]. rewrite Hp. cbn [bind].
  assert (Pus : Permutation us (JR k)). { unfold us. rewrite Hinfs. apply Hord. }
  assert (Hus : forall v, mem v us = mem v (JR k)). { intro v. apply mem_perm. exact Pus. }
  assert (Husnd : NoDup us).
  { apply (Permutation_NoDup (Permutation_sym Pus)). apply (Jr_NoDup g tt f i0 r0 Hnd). }
  assert (Hhit : forall v, In v (SG k) -> hit g (fun u w => tt u w (d_age s u)) us v = hit g T (IG k) v).
  { intros v Hv. rewrite (hit_perm g _ us (JR k) v Pus).
    rewrite (hit_ext g (fun u w => tt u w (d_age s u)) T (JR k) v) by (intros u w; apply Hage).
    apply (hit_old g tt f i0 r0 Hadj Hi0). exact Hv. }
  assert (Hnew : forall v, In v (gnodes g) -> mem v (c_new c) = mem v (SG k) && hit g T (IG k) v).
  { intros v Hv. unfold c. rewrite cfold_new. cbn [c_new c_sus]. rewrite hitc_contacts.
    rewrite (Hsus v Hv). cbn [mem existsb orb]. destruct (mem v (SG k)) eqn:ES; [|reflexivity].
    cbn [andb]. apply Hhit. apply dmem_In. exact ES. }
  assert (Hnewsub : forall v, In v (c_new c) -> In v (gnodes g)).
  { intros v Hv. apply dmem_In in Hv. unfold c in Hv. rewrite cfold_new in Hv. cbn [c_new c_sus mem existsb orb] in Hv.
    apply andb_true_iff in Hv. destruct Hv as [_ Hv]. rewrite hitc_contacts in Hv.
    apply hit_spec in Hv. destruct Hv as [u [Hu [Ha _]]].
    apply Hadj with u; [|exact Ha]. apply (Jr_sub g tt f i0 r0 k).
    eapply Permutation_in; [exact Pus|exact Hu]. }
  assert (Hcanon : canon g (c_new c) = IG (S k)).
  { unfold Ig. cbn [gen gen_next snd]. fold (SG k). fold (IG k).
    rewrite (Sg_canon g tt i0 r0 k) at 1. unfold canon at 2. rewrite filter_filter.
    unfold canon. apply filter_ext_in. intros v Hv. apply Hnew. exact Hv. }
  assert (Hlen : lenZ (c_new c) = lenZ (IG (S k))).
  { rewrite <- Hcanon. unfold lenZ. rewrite NoDup_length_canon; [reflexivity|exact Hnd|exact Hcn|exact Hnewsub]. }
  assert (HnS' : c_nS c = lenZ (SG (S k))).
  { unfold c at 1. rewrite cfold_nS. fold c. cbn [c_nS c_new]. rewrite Hlen, HnS.
    rewrite (Sg_split g T i0 r0 k). unfold lenZ. cbn [length]. lia. }
  set (recl := filter (fun u => f u (d_age s u)) us).
  assert (Hrecnd : NoDup recl) by (apply NoDup_filter; exact Husnd).
  assert (Hrecm : forall v, mem v recl = mem v (JR k) && f v (AG k v)).
  { intro v. unfold recl. rewrite mem_filter, Hus, Hag. reflexivity. }
  assert (Hreclen : lenZ recl = lenZ (recd g tt f i0 r0 k)).
  { unfold recl, recd, lenZ. f_equal. rewrite (filter_perm_len _ _ us (JR k) Pus).
    apply filter_len_ext. intros x _. rewrite Hag. reflexivity. }
  assert (Hinfs' : canon g (c_new c ++ rev (filter (fun u => negb (f u (d_age s u))) us) ++ []) = JR (S k)).
  { rewrite Jr_S. unfold canon. apply filter_ext_in. intros v Hv.
    rewrite !mem_app. cbn [mem existsb]. rewrite orb_false_r, mem_rev, mem_filter, Hus, Hag, (Hnew v Hv).
    f_equal. unfold Ig. cbn [gen gen_next snd]. fold (SG k). fold (IG k). rewrite mem_filter. reflexivity. }
  set (h1 := if full && le_x (tq tmin k + 1) tmax
             then rev (map (fun v => (tq tmin k + 1, v, stI)) (canon g (c_new c))) ++ [] ++ d_hlog s else d_hlog s).
  destruct (rec_loop_spec f full k (tq tmin k + 1) (d_age s) us (d_totR s) [] h1 (l_r (d_logs s))) as [rl' Erl].
  rewrite Erl. fold recl. rewrite Hinfs'.
  eexists. split; [reflexivity|].
  constructor; cbn [d_sus d_infs d_age d_nS d_totR d_rows d_hlog].
  - intros v Hv. unfold c. rewrite cfold_sus. cbn [c_sus]. rewrite hitc_contacts, (Hsus v Hv).
    unfold Sg at 2. cbn [gen gen_next fst]. fold (SG k). fold (IG k). rewrite mem_filter, mem_filter.
    destruct (mem v (SG k)) eqn:ES; [|reflexivity]. cbn [andb]. rewrite Hhit by (apply dmem_In; exact ES).
    destruct (hit g T (IG k) v); reflexivity.
  - reflexivity.
  - intro u. rewrite ag_S, Hus, Hag. reflexivity.
  - exact HnS'.
  - cbn [Rr]. rewrite HtotR, Hreclen. reflexivity.
  - cbn [rows_r]. unfold rrow. cbn [tq Rr]. rewrite HnS', HtotR, Hreclen, Hrows. reflexivity.
  - intro v. cbn [events_r tq]. rewrite <- Hhist. unfold h1. rewrite Hcanon.
    destruct full; cbn [andb].
    + destruct (le_x (tq tmin k + 1) tmax).
      * rewrite !rev_app_distr, !rev_involutive. cbn [rev app]. rewrite <- !app_assoc, !node_events_app.
        rewrite node_events_map by (apply Ig_NoDup; exact Hnd).
        rewrite node_events_map by exact Hrecnd. rewrite Hrecm. reflexivity.
      * rewrite rev_app_distr, rev_involutive, node_events_app.
        rewrite node_events_map by exact Hrecnd. rewrite Hrecm. reflexivity.
    + cbn [app]. rewrite app_nil_r. reflexivity.
Qed.

(* for every fuel: the loop exhausts the fuel iff no stop index lies within it *)
Lemma dloop_rec : forall fuel k s, rinv k s ->
  (dloop g (det_rules tt pick) (Some f) ord tmin tmax full i0 r0 fuel k (tq tmin k) s = Fail OutOfFuel /\
   forall j, (k <= j <= k + fuel)%nat -> STOP j = false) \/
  exists K sK, (k <= K <= k + fuel)%nat /\ (forall j, (k <= j < K)%nat -> STOP j = false) /\ STOP K = true /\
    rinv K sK /\
    dloop g (det_rules tt pick) (Some f) ord tmin tmax full i0 r0 fuel k (tq tmin k) s = Ret (finish g tmin full i0 r0 sK).
Proof.
  induction fuel as [|fu IH]; intros k s Hs; cbn [dloop]; rewrite (rv_infs k s Hs);
    destruct (nonempty (JR k) && xlt (tq tmin k) tmax) eqn:Ec.
  - left. split; [reflexivity|]. intros j Hj. assert (j = k) by lia. subst j. unfold stopr. rewrite Ec. reflexivity.
  - right. exists k, s. split; [lia|]. split; [intros j Hj; lia|]. split; [unfold stopr; rewrite Ec; reflexivity|].
    split; [exact Hs|reflexivity].
  - destruct (step_rinv k s Hs) as [s' [Hstep Hs']]. rewrite Hstep. cbn [bind].
    change (tq tmin k + 1) with (tq tmin (S k)).
    assert (Ek : STOP k = false) by (unfold stopr; rewrite Ec; reflexivity).
    destruct (IH (S k) s' Hs') as [[E Hj]|[K [sK [HK [Hj [HsK [HiK Hrun]]]]]]].
    + left. split; [exact E|]. intros j Hjr. destruct (Nat.eq_dec j k) as [Ej|Ej]; [subst j; exact Ek|apply Hj; lia].
    + right. exists K, sK. split; [lia|]. split.
      { intros j Hjr. destruct (Nat.eq_dec j k) as [Ej|Ej]; [subst j; exact Ek|apply Hj; lia]. }
      split; [exact HsK|]. split; [exact HiK|exact Hrun].
  - right. exists k, s. split; [lia|]. split; [intros j Hj; lia|]. split; [unfold stopr; rewrite Ec; reflexivity|].
    split; [exact Hs|reflexivity].
Qed.

Lemma dsir_rec_from_l1 : forall fuel,
  (dloop g (det_rules tt pick) (Some f) ord tmin tmax full i0 r0 fuel O tmin (init_state g tmin full i0 r0) = Fail OutOfFuel /\
   forall j, (j <= fuel)%nat -> STOP j = false) \/
  exists K out, first_stop_r g tt f i0 r0 tmin tmax K /\ (K <= fuel)%nat /\
    dloop g (det_rules tt pick) (Some f) ord tmin tmax full i0 r0 fuel O tmin (init_state g tmin full i0 r0) = Ret out /\
    so_rows (o_sim out) = map (rrow g tt f i0 r0 tmin) (seq 0 (S K)) /\
    (if full then exists tr, so_full (o_sim out) = Some (mkFull (hist_r g tt f i0 r0 tmin tmax full K) tr)
     else so_full (o_sim out) = None).
Proof.
  intro fuel. destruct (dloop_rec fuel O (init_state g tmin full i0 r0) init_rinv) as [[E Hj]|[K [sK [HK [Hj [Hst [Hinv Hrun]]]]]]].
  - left. split; [exact E|]. intros j Hjr. apply Hj. lia.
  - right. exists K, (finish g tmin full i0 r0 sK). split; [split; [intros j Hj'; apply Hj; lia|exact Hst]|].
    split; [lia|]. split; [exact Hrun|]. unfold finish. cbn [o_sim so_rows so_full]. split.
    + rewrite (rv_rows K sK Hinv). apply (rows_r_spec g tt f i0 r0 tmin Hnd Hi0 Hr0 Hi0nd Hr0nd Hdisj).
    + assert (Hh : build_hist g tmin i0 r0 (d_hlog sK) = hist_r g tt f i0 r0 tmin tmax full K).
      { unfold build_hist, hist_r. apply map_ext. intro u. rewrite (rv_hist K sK Hinv). reflexivity. }
      rewrite Hh. destruct full; [eexists; reflexivity|reflexivity].
Qed.

End WithOrd.
End RunRec.

(* ------------------------------------------------------------------ *)
(* statements over boolean well-formedness                              *)

Theorem dsir_bfs_rec : forall g tt pick f ord i0 r0o tmin tmax full fuel,
  let r0 := opt_list r0o in
  wf_inputb g i0 r0 = true -> perm_oracle ord -> age_indep tt ->
  (discrete_SIR g (det_rules tt pick) (Some f) ord (Some i0) r0o None tmin tmax full fuel = Fail OutOfFuel /\
   forall j, (j <= fuel)%nat -> stopr g tt f i0 r0 tmin tmax j = false) \/
  exists K out, first_stop_r g tt f i0 r0 tmin tmax K /\ (K <= fuel)%nat /\
    discrete_SIR g (det_rules tt pick) (Some f) ord (Some i0) r0o None tmin tmax full fuel = Ret out /\
    so_rows (o_sim out) = map (rrow g tt f i0 r0 tmin) (seq 0 (S K)) /\
    (if full then exists tr, so_full (o_sim out) = Some (mkFull (hist_r g tt f i0 r0 tmin tmax full K) tr)
     else so_full (o_sim out) = None).
Proof.
  intros g tt pick f ord i0 r0o tmin tmax full fuel r0 Hwf Hord Hage.
  destruct (wf_input_props g i0 r0 Hwf) as [Hnd [Hadj [Hi0 [Hr0 [Hi0nd [Hr0nd Hdisj]]]]]].
  exact (dsir_rec_from_l1 g tt pick f full i0 r0 tmin tmax Hage Hnd Hadj Hi0 Hr0 Hi0nd Hr0nd Hdisj ord Hord fuel).
Qed.

(* the run returns as soon as the fuel covers the first stop index; in particular the hypothesis
   "the run returns" pins everything down *)
Theorem dsir_bfs_rec_ret : forall g tt pick f ord i0 r0o tmin tmax full fuel out,
  let r0 := opt_list r0o in
  wf_inputb g i0 r0 = true -> perm_oracle ord -> age_indep tt ->
  discrete_SIR g (det_rules tt pick) (Some f) ord (Some i0) r0o None tmin tmax full fuel = Ret out ->
  exists K, first_stop_r g tt f i0 r0 tmin tmax K /\ (K <= fuel)%nat /\
    so_rows (o_sim out) = map (rrow g tt f i0 r0 tmin) (seq 0 (S K)) /\
    (if full then exists tr, so_full (o_sim out) = Some (mkFull (hist_r g tt f i0 r0 tmin tmax full K) tr)
     else so_full (o_sim out) = None).
Proof.
  intros g tt pick f ord i0 r0o tmin tmax full fuel out r0 Hwf Hord Hage Hrun. subst r0.
  destruct (dsir_bfs_rec g tt pick f ord i0 r0o tmin tmax full fuel Hwf Hord Hage) as [[E _]|[K [o [Hst [HK [Hr [Hrows Hh]]]]]]].
  - rewrite Hrun in E. discriminate.
  - rewrite Hrun in Hr. injection Hr as Hr. subst o. exists K. repeat split; try assumption; apply Hst.
Qed.

Theorem dsir_rec_enough_fuel : forall g tt pick f ord i0 r0o tmin tmax full fuel K,
  let r0 := opt_list r0o in
  wf_inputb g i0 r0 = true -> perm_oracle ord -> age_indep tt ->
  first_stop_r g tt f i0 r0 tmin tmax K -> (K <= fuel)%nat ->
  exists out, discrete_SIR g (det_rules tt pick) (Some f) ord (Some i0) r0o None tmin tmax full fuel = Ret out.
Proof.
  intros g tt pick f ord i0 r0o tmin tmax full fuel K r0 Hwf Hord Hage Hst HK. subst r0.
  destruct (dsir_bfs_rec g tt pick f ord i0 r0o tmin tmax full fuel Hwf Hord Hage) as [[_ Hj]|[K' [o [_ [_ [Hr _]]]]]].
  - destruct Hst as [_ Hst]. rewrite (Hj K HK) in Hst. discriminate.
  - exists o. exact Hr.
Qed.

(* ------------------------------------------------------------------ *)
(* what the pure sequence is, in terms of breadth-first distance        *)

Section Meaning.
Variable g : graph.
Variable tt : node -> node -> nat -> bool.
Variable f : node -> nat -> bool.
Variables i0 r0 : list node.
Variable tmin : Q.
Variable tmax : xtime.
Variable full : bool.
Hypothesis Hwf : wf_inputb g i0 r0 = true.

Notation T := (T0 tt).
Notation DIST := (bfs_dist g T i0 r0).

(* (a) K + 1 rows, row k at time tq k with S_k + I_k + R_k = N *)
Lemma rows_meaning : forall K,
  length (map (rrow g tt f i0 r0 tmin) (seq 0 (S K))) = S K /\
  forall k, (k <= K)%nat ->
    nth_error (map (rrow g tt f i0 r0 tmin) (seq 0 (S K))) k =
      Some (tq tmin k, [lenZ (Sg g T i0 r0 k); lenZ (Jr g tt f i0 r0 k); Rr g tt f i0 r0 k]) /\
    (lenZ (Sg g T i0 r0 k) + lenZ (Jr g tt f i0 r0 k) + Rr g tt f i0 r0 k)%Z = order g.
Proof.
  intro K. destruct (wf_input_props g i0 r0 Hwf) as [Hnd [Hadj [Hi0 [Hr0 [Hi0nd [Hr0nd Hdisj]]]]]].
  split; [rewrite map_length, seq_length; reflexivity|]. intros k Hk. split.
  - rewrite nth_error_map. rewrite (nth_error_nth' (seq 0 (S K)) O) by (rewrite seq_length; lia).
    rewrite seq_nth by lia. reflexivity.
  - apply r_conserve; assumption.
Qed.

(* (b) S_k = nodes outside r0 without a walk of length <= k; the nodes leaving S at step k + 1
   are exactly breadth-first level k + 1; level 0 = the initially infected nodes *)
Lemma levels_meaning : forall k v,
  (In v (Sg g T i0 r0 k) <-> In v (gnodes g) /\ ~ In v r0 /\ forall m, (m <= k)%nat -> ~ walk g T i0 r0 v m) /\
  ((In v (Sg g T i0 r0 k) /\ ~ In v (Sg g T i0 r0 (S k))) <-> DIST v (S k)) /\
  (In v (Ig g T i0 r0 k) <-> DIST v k) /\
  (DIST v O <-> In v i0).
Proof.
  intros k v. destruct (wf_input_props g i0 r0 Hwf) as [Hnd [Hadj [Hi0 [Hr0 [Hi0nd [Hr0nd Hdisj]]]]]].
  split; [apply SG_spec; assumption|]. split; [apply newly_infected_level; assumption|].
  split; [apply gen_is_bfs; assumption|]. split.
  - intros [W _]. inversion W. assumption.
  - intro H. split; [constructor; exact H|]. intros m Hm. lia.
Qed.

(* (c) infectious after k steps = infected at a step j <= k with all k - j tests so far failed;
   R_k = |r0| + number of nodes infected so far that are no longer infectious *)
Lemma infectious_meaning : forall k,
  (forall u, In u (Jr g tt f i0 r0 k) <->
     exists j, (j <= k)%nat /\ DIST u j /\ forall a, (a < k - j)%nat -> f u a = false) /\
  (forall u, In u (Jr g tt f i0 r0 k) -> In u (Jr g tt f i0 r0 (S k)) <-> f u (ag g tt f i0 r0 k u) = false) /\
  (forall u j, DIST u j -> In u (Jr g tt f i0 r0 k) -> ag g tt f i0 r0 k u = (k - j)%nat) /\
  Rr g tt f i0 r0 k = (lenZ r0 + lenZ (done_r g tt f i0 r0 k))%Z /\
  (forall v, In v (done_r g tt f i0 r0 k) <->
     In v (gnodes g) /\ ~ In v (Sg g T i0 r0 k) /\ ~ In v r0 /\ ~ In v (Jr g tt f i0 r0 k)).
Proof.
  intro k. destruct (wf_input_props g i0 r0 Hwf) as [Hnd [Hadj [Hi0 [Hr0 [Hi0nd [Hr0nd Hdisj]]]]]].
  split.
  { intro u. rewrite (Jr_spec g tt f i0 r0 Hadj Hi0 k u). split; intros [j [Hj [Hl Ha]]]; exists j; (split; [exact Hj|]); (split; [|exact Ha]);
      apply (gen_is_bfs g T i0 r0 Hadj Hi0); exact Hl. }
  split.
  { intros u Hu. rewrite Jr_S, filter_In. split.
    - intros [_ H]. apply orb_true_iff in H. destruct H as [H|H].
      + exfalso. apply dmem_In in H. destruct (Jr_levels g tt f i0 r0 k u Hu) as [j [Hj Hl]].
        pose proof (lvl_unique g tt i0 r0 Hadj Hi0 u _ _ H Hl). lia.
      + apply andb_true_iff in H. apply negb_true_iff. apply H.
    - intro Hf. split; [apply (Jr_sub g tt f i0 r0 k); exact Hu|]. apply dmem_In in Hu. rewrite Hu, Hf. apply orb_true_r. }
  split.
  { intros u j Hd Hu. apply ag_spec; try assumption. apply (gen_is_bfs g T i0 r0 Hadj Hi0). exact Hd. }
  split; [apply Rr_spec; assumption|].
  intro v. unfold done_r. rewrite filter_In, !andb_true_iff, !negb_true_iff, !dmem_false. tauto.
Qed.

(* (d) node histories: I entry at tq (k+1) iff v is at breadth-first distance k + 1 (within the
   horizon), R entry at tq (k+1) iff v was infected at some step j <= k and its test number
   k - j is the first that succeeds *)
Lemma history_meaning : forall K v e, In e (events_r g tt f i0 r0 tmin tmax full K v) <->
  exists k, (k < K)%nat /\
    ((e = (tq tmin (S k), stI) /\ full && le_x (tq tmin (S k)) tmax = true /\ DIST v (S k)) \/
     (e = (tq tmin (S k), stR) /\ full = true /\
      exists j, (j <= k)%nat /\ DIST v j /\ (forall a, (a < k - j)%nat -> f v a = false) /\ f v (k - j)%nat = true)).
Proof.
  intros K v e. destruct (wf_input_props g i0 r0 Hwf) as [Hnd [Hadj [Hi0 [Hr0 [Hi0nd [Hr0nd Hdisj]]]]]].
  rewrite events_r_spec. split; intros [k [Hk H]]; exists k; (split; [exact Hk|]); destruct H as [[He [Hg H]]|[He [Hg H]]].
  - left. split; [exact He|]. split; [exact Hg|]. apply (gen_is_bfs g T i0 r0 Hadj Hi0). exact H.
  - right. split; [exact He|]. split; [exact Hg|]. apply (recd_spec g tt f i0 r0 Hadj Hi0) in H.
    destruct H as [j [Hj [Hl H]]]. exists j. split; [exact Hj|]. split; [|exact H]. apply (gen_is_bfs g T i0 r0 Hadj Hi0). exact Hl.
  - left. split; [exact He|]. split; [exact Hg|]. apply (gen_is_bfs g T i0 r0 Hadj Hi0). exact H.
  - right. split; [exact He|]. split; [exact Hg|]. apply (recd_spec g tt f i0 r0 Hadj Hi0).
    destruct H as [j [Hj [Hl H]]]. exists j. split; [exact Hj|]. split; [|exact H]. apply (gen_is_bfs g T i0 r0 Hadj Hi0). exact Hl.
Qed.

(* for horizons of whole steps every executed step is within the horizon *)
Lemma guard_whole_steps : forall K k, whole_steps tmin tmax -> first_stop_r g tt f i0 r0 tmin tmax K -> (k < K)%nat ->
  le_x (tq tmin (S k)) tmax = true.
Proof.
  intros K k Hw [Hj _] Hk. specialize (Hj k Hk). unfold stopr in Hj. apply negb_false_iff in Hj.
  apply andb_true_iff in Hj. destruct Hj as [_ Hlt]. cbn [tq].
  apply (whole_steps_next tmin tmax (tq tmin k) k Hw (tq_spec tmin k) Hlt).
Qed.

End Meaning.
