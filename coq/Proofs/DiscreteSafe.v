(* The discrete-time simulators never end in a Python-level failure: under rules that do not
   fail themselves ([rules_safe]: the table rules and the code's default rule) the only way a
   run of the model does not return is the model's fuel (or the end of the draw script); and
   discrete_SIR without test_recovery returns whenever fuel > number of nodes (the number of
   susceptible nodes strictly decreases while the loop runs). *)
From EoNV Require Import Prelude Samp Graph Discrete DiscreteP SampP DiscreteChk DiscreteRun DiscreteRunS DiscreteTop.
From EoNV Require Gillespie GillespieP InvestigationP.
From Coq Require Import Permutation.

Definition rules_safe (R : rules) : Prop :=
  (forall u v a e, ~ reach_err (r_test R u v a) e) /\
  (forall k v c e, c <> [] -> ~ reach_err (r_pick R k v c) e).

Lemma reach_err_ret : forall (A : Type) (a : A) e, ~ reach_err (Ret a) e.
Proof. intros A a e H. inversion H. Qed.

Lemma det_rules_safe : forall tt pick, rules_safe (det_rules tt pick).
Proof.
  intros tt pick. split.
  - intros u v a e H. cbn [det_rules r_test] in H. exact (reach_err_ret _ _ _ H).
  - intros k v c e Hc H. cbn [det_rules r_pick] in H.
    assert (Hlt : (Nat.modulo (pick k v) (length c) < length (nsort c))%nat).
    { rewrite length_nsort. apply Nat.mod_upper_bound. destruct c; [contradiction|discriminate]. }
    rewrite (nth_error_nth' (nsort c) v Hlt) in H. exact (reach_err_ret _ _ _ H).
Qed.

Lemma simple_rules_safe : forall p, rules_safe (simple_rules p).
Proof.
  intro p. split.
  - intros u v a e H. cbn [simple_rules r_test] in H.
    inversion H as [| | |? ? ? ? Hp Hk|? ? ? ? Hp Hk| | | | | | |]; subst; exact (reach_err_ret _ _ _ Hk).
  - intros k v c e Hc H. cbn [simple_rules r_pick] in H.
    inversion H as [| | | | | | | |? E|? ? x ? Hin Hk| |]; subst.
    + destruct c as [|y c']; [contradiction|]. assert (L : length (map knode (nsort (y :: c'))) = O) by (rewrite <- E; reflexivity).
      rewrite map_length, length_nsort in L. discriminate.
    + apply in_map_iff in Hin. destruct Hin as [y [Ey _]]. subst x. unfold knode in Hk. exact (reach_err_ret _ _ _ Hk).
Qed.

Section Safe.
Variable R : rules.
Hypothesis HR : rules_safe R.

Lemma cloop_no_err : forall full k age cs c e, ~ reach_err (cloop R full k age cs c) e.
Proof.
  intros full k age cs. induction cs as [|[u v] cs IH]; intros c e H; cbn [cloop] in H.
  - exact (reach_err_ret _ _ _ H).
  - destruct (c_sus c v).
    + apply reach_err_bind in H. destruct H as [H|[b [_ H]]]; [exact (proj1 HR _ _ _ _ H)|]. destruct b; exact (IH _ _ H).
    + destruct (full && mem v (c_new c)); [|exact (IH _ _ H)].
      apply reach_err_bind in H. destruct H as [H|[b [_ H]]]; [exact (proj1 HR _ _ _ _ H)|]. destruct b; exact (IH _ _ H).
Qed.

Lemma sis_cloop_no_err : forall k infs cs new inf q e, ~ reach_err (sis_cloop R k infs cs new inf q) e.
Proof.
  intros k infs cs. induction cs as [|[u v] cs IH]; intros new inf q e H; cbn [sis_cloop] in H.
  - exact (reach_err_ret _ _ _ H).
  - destruct (negb (mem v infs)); [|exact (IH _ _ _ _ H)].
    apply reach_err_bind in H. destruct H as [H|[b [_ H]]]; [exact (proj1 HR _ _ _ _ H)|].
    destruct b; [destruct (negb (mem v new))|]; exact (IH _ _ _ _ H).
Qed.

Lemma picks_no_err : forall k t inf tl pl e, Forall (fun x : node * list node => snd x <> []) inf ->
  ~ reach_err (picks R k t inf tl pl) e.
Proof.
  intros k t inf. induction inf as [|[v c] inf IH]; intros tl pl e Hf H; cbn [picks] in H.
  - exact (reach_err_ret _ _ _ H).
  - inversion Hf as [|x l Hc Hf']; subst. cbn [snd] in Hc.
    apply reach_err_bind in H. destruct H as [H|[s [_ H]]]; [exact (proj2 HR _ _ _ _ Hc H)|exact (IH _ _ _ Hf' H)].
Qed.

Lemma infok_nonempty : forall P inf, infok P inf -> Forall (fun x : node * list node => snd x <> []) inf.
Proof. intros P inf H. unfold infok in H. eapply Forall_impl; [|exact H]. intros a [Ha _]. exact Ha. Qed.

Lemma step_no_err : forall g trec ord tmax full k t s e, ~ reach_err (step g R trec ord tmax full k t s) e.
Proof.
  intros g trec ord tmax full k t s e H. unfold step in H.
  apply reach_err_bind in H. destruct H as [H|[c [Hc H]]]; [exact (cloop_no_err _ _ _ _ _ _ H)|].
  destruct (cloop_reach_inf R full (fun _ _ => True) _ _ _ _ _ (fun _ _ _ => I) Hc) as [Iok _]; [constructor|reflexivity|].
  apply reach_err_bind in H. destruct H as [H|[tp [_ H]]].
  - destruct full; [exact (picks_no_err _ _ _ _ _ _ (infok_nonempty _ _ Iok) H)|exact (reach_err_ret _ _ _ H)].
  - destruct trec as [f|]; [|exact (reach_err_ret _ _ _ H)].
    destruct (rec_loop full f k (t + 1) (d_age s) (ord k (d_infs s)) _) as [[[a b] c'] d]. exact (reach_err_ret _ _ _ H).
Qed.

Lemma sis_step_no_err : forall g ord tmax full k t s e, ~ reach_err (sis_step g R ord tmax full k t s) e.
Proof.
  intros g ord tmax full k t s e H. unfold sis_step in H.
  apply reach_err_bind in H. destruct H as [H|[[[new inf] q] [Hc H]]]; [exact (sis_cloop_no_err _ _ _ _ _ _ _ H)|].
  destruct (sis_cloop_reach R (fun _ _ => True) _ _ _ _ _ _ _ (fun _ _ _ => I) Hc) as [added [_ [_ [_ [Iok _]]]]]; [constructor|reflexivity|].
  cbn [fst snd] in Iok.
  apply reach_err_bind in H. destruct H as [H|[tp [_ H]]]; [|exact (reach_err_ret _ _ _ H)].
  destruct full; [exact (picks_no_err _ _ _ _ _ _ (infok_nonempty _ _ Iok) H)|exact (reach_err_ret _ _ _ H)].
Qed.

(* the only failure of the loops is the model's fuel *)
Lemma dloop_err : forall g trec ord tmin tmax full i0 r0 fuel k t s e,
  reach_err (dloop g R trec ord tmin tmax full i0 r0 fuel k t s) e -> e = OutOfFuel.
Proof.
  intros g trec ord tmin tmax full i0 r0. induction fuel as [|f IH]; intros k t s e H; cbn [dloop] in H;
    destruct (nonempty (d_infs s) && xlt t tmax).
  - inversion H. reflexivity.
  - exfalso. exact (reach_err_ret _ _ _ H).
  - apply reach_err_bind in H. destruct H as [H|[s' [_ H]]]; [exfalso; exact (step_no_err _ _ _ _ _ _ _ _ _ H)|exact (IH _ _ _ _ H)].
  - exfalso. exact (reach_err_ret _ _ _ H).
Qed.

Lemma sis_loop_err : forall g ord tmin tmax full i0 fuel k t s e,
  reach_err (sis_loop g R ord tmin tmax full i0 fuel k t s) e -> e = OutOfFuel.
Proof.
  intros g ord tmin tmax full i0. induction fuel as [|f IH]; intros k t s e H; cbn [sis_loop] in H;
    destruct (nonempty (s_infs s) && xlt t tmax).
  - inversion H. reflexivity.
  - exfalso. exact (reach_err_ret _ _ _ H).
  - apply reach_err_bind in H. destruct H as [H|[s' [_ H]]]; [exfalso; exact (sis_step_no_err _ _ _ _ _ _ _ _ H)|exact (IH _ _ _ _ H)].
  - exfalso. exact (reach_err_ret _ _ _ H).
Qed.

(* discrete_SIR without test_recovery: fuel > number of susceptible nodes is never exhausted *)
Section Fuel.
Variable g : graph.
Variable ord : nat -> list node -> list node.
Variable tmin : Q.
Variable tmax : xtime.
Variable full : bool.
Variables i0 r0 : list node.
Hypothesis Hnd : NoDup (gnodes g).
Hypothesis Hadj : forall u v, In u (gnodes g) -> In v (gadj g u) -> In v (gnodes g).
Hypothesis Hord : forall k l, Permutation (ord k l) l.
Hypothesis Hpick : full = true -> pick_sound R.

Lemma dloop_fuel : forall fuel k t s e, SInv g s -> (nonempty (d_infs s) = true -> (d_nS s < Z.of_nat fuel)%Z) ->
  ~ reach_err (dloop g R None ord tmin tmax full i0 r0 fuel k t s) e.
Proof.
  induction fuel as [|f IH]; intros k t s e Hs Hf H; cbn [dloop] in H;
    destruct (nonempty (d_infs s) && xlt t tmax) eqn:Ec.
  - apply andb_true_iff in Ec. destruct Ec as [Ec _]. specialize (Hf Ec).
    rewrite (si_nS g s Hs) in Hf. unfold GillespieP.cntst in Hf. cbn in Hf. lia.
  - exact (reach_err_ret _ _ _ H).
  - apply andb_true_iff in Ec. destruct Ec as [Ec _]. specialize (Hf Ec).
    apply reach_err_bind in H. destruct H as [H|[s' [Hstep H]]]; [exact (step_no_err _ _ _ _ _ _ _ _ _ H)|].
    destruct (step_shape g R None ord tmax full Hnd Hord Hpick k t s s' (si_nd g s Hs) Hstep) as [added [recd [kept [hnew [tnew Sh]]]]].
    destruct (shape_inv g None tmax full Hnd Hadj k t s s' added recd kept hnew tnew Hs Sh) as [Hs' _].
    apply (IH (S k) (t + 1) s' e Hs'); [|exact H].
    intro Hne. rewrite (sh_nS _ _ _ _ _ _ _ _ _ _ _ _ _ Sh).
    rewrite (sh_infs _ _ _ _ _ _ _ _ _ _ _ _ _ Sh), (sh_one _ _ _ _ _ _ _ _ _ _ _ _ _ Sh eq_refl), app_nil_r in Hne.
    destruct added as [|a added'].
    { exfalso. unfold canon in Hne. rewrite InvestigationP.filter_none in Hne by (intros x _; reflexivity). discriminate Hne. }
    rewrite lenZ_cons. unfold lenZ. lia.
  - exact (reach_err_ret _ _ _ H).
Qed.

End Fuel.
End Safe.

(* ---------------- statements over exec ---------------- *)
Theorem dsir_never_crashes : forall g R trec ord i0 r0o tmin tmax full fuel ds e tr, rules_safe R ->
  exec (discrete_SIR g R trec ord (Some i0) r0o None tmin tmax full fuel) ds [] = (Err e, tr) ->
  e = OutOfDraws \/ e = OutOfFuel.
Proof.
  intros g R trec ord i0 r0o tmin tmax full fuel ds e tr HR H. apply exec_reach_err in H. destruct H as [H|H]; [left; exact H|right].
  unfold discrete_SIR in H. cbn [with_initial] in H. exact (dloop_err R HR _ _ _ _ _ _ _ _ _ _ _ _ _ H).
Qed.

Theorem dsis_never_crashes : forall g R ord i0 tmin tmax full fuel ds e tr, rules_safe R ->
  exec (basic_discrete_SIS_R g R ord (Some i0) None tmin tmax full fuel) ds [] = (Err e, tr) ->
  e = OutOfDraws \/ e = OutOfFuel.
Proof.
  intros g R ord i0 tmin tmax full fuel ds e tr HR H. apply exec_reach_err in H. destruct H as [H|H]; [left; exact H|right].
  unfold basic_discrete_SIS_R in H. cbn [with_initial] in H. exact (sis_loop_err R HR _ _ _ _ _ _ _ _ _ _ _ H).
Qed.

(* without test_recovery and with fuel > N: every draw script long enough gives a result *)
Theorem dsir_fuel_suffices : forall g R ord i0 r0o tmin tmax full fuel ds e tr, rules_safe R ->
  wf_inputb g i0 (opt_list r0o) = true -> perm_oracle ord -> (full = true -> pick_sound R) ->
  (length (gnodes g) < fuel)%nat ->
  exec (discrete_SIR g R None ord (Some i0) r0o None tmin tmax full fuel) ds [] = (Err e, tr) -> e = OutOfDraws.
Proof.
  intros g R ord i0 r0o tmin tmax full fuel ds e tr HR Hwf Hord Hpick Hf H.
  apply exec_reach_err in H. destruct H as [H|H]; [exact H|exfalso].
  destruct (wf_input_props g i0 _ Hwf) as [Hnd [Hadj [Hi0 [Hr0 [Hi0nd [Hr0nd Hdisj]]]]]].
  unfold discrete_SIR in H. cbn [with_initial] in H.
  destruct (init_LInv g None tmin tmax full i0 (opt_list r0o) Hnd Hi0 Hr0 Hi0nd Hr0nd Hdisj) as [Hs _].
  apply (dloop_fuel R HR g ord tmin tmax full i0 (opt_list r0o) Hnd Hadj Hord Hpick fuel O tmin _ e Hs); [|exact H].
  intros _. cbn [init_state d_nS]. unfold order, lenZ. lia.
Qed.

(* a finite horizon bounds the number of steps: tmax = tmin + n and fuel > n is never exhausted
   (discrete_SIR with or without test_recovery, basic_discrete_SIS) *)
Lemma horizon_stops : forall tmin (n k : nat) t, t == tmin + inject_Z (Z.of_nat k) ->
  xlt t (Some (tmin + inject_Z (Z.of_nat n))) = true -> (k < n)%nat.
Proof.
  intros tmin n k t Et H. unfold xlt in H. destruct (Qlt_le_dec t (tmin + inject_Z (Z.of_nat n))) as [L|L]; [|discriminate].
  rewrite Et in L. apply (proj1 (Qplus_lt_r _ _ _)) in L. rewrite <- Zlt_Qlt in L. lia.
Qed.

Lemma step_time : forall tmin (k : nat) t, t == tmin + inject_Z (Z.of_nat k) -> t + 1 == tmin + inject_Z (Z.of_nat (S k)).
Proof. intros tmin k t E. rewrite E, Nat2Z.inj_succ. unfold Z.succ. rewrite inject_Z_plus. ring. Qed.

Lemma dloop_horizon : forall R, rules_safe R -> forall g trec ord tmin (n : nat) full i0 r0 fuel k t s e,
  t == tmin + inject_Z (Z.of_nat k) -> (n < fuel + k)%nat ->
  ~ reach_err (dloop g R trec ord tmin (Some (tmin + inject_Z (Z.of_nat n))) full i0 r0 fuel k t s) e.
Proof.
  intros R HR g trec ord tmin n full i0 r0. induction fuel as [|f IH]; intros k t s e Et Hf H; cbn [dloop] in H;
    destruct (nonempty (d_infs s) && xlt t (Some (tmin + inject_Z (Z.of_nat n)))) eqn:Ec.
  - apply andb_true_iff in Ec. destruct Ec as [_ Ec]. pose proof (horizon_stops tmin n k t Et Ec). lia.
  - exact (reach_err_ret _ _ _ H).
  - apply reach_err_bind in H. destruct H as [H|[s' [_ H]]]; [exact (step_no_err R HR _ _ _ _ _ _ _ _ _ H)|].
    apply (IH (S k) (t + 1) s' e (step_time tmin k t Et)); [lia|exact H].
  - exact (reach_err_ret _ _ _ H).
Qed.

Lemma sis_loop_horizon : forall R, rules_safe R -> forall g ord tmin (n : nat) full i0 fuel k t s e,
  t == tmin + inject_Z (Z.of_nat k) -> (n < fuel + k)%nat ->
  ~ reach_err (sis_loop g R ord tmin (Some (tmin + inject_Z (Z.of_nat n))) full i0 fuel k t s) e.
Proof.
  intros R HR g ord tmin n full i0. induction fuel as [|f IH]; intros k t s e Et Hf H; cbn [sis_loop] in H;
    destruct (nonempty (s_infs s) && xlt t (Some (tmin + inject_Z (Z.of_nat n)))) eqn:Ec.
  - apply andb_true_iff in Ec. destruct Ec as [_ Ec]. pose proof (horizon_stops tmin n k t Et Ec). lia.
  - exact (reach_err_ret _ _ _ H).
  - apply reach_err_bind in H. destruct H as [H|[s' [_ H]]]; [exact (sis_step_no_err R HR _ _ _ _ _ _ _ _ H)|].
    apply (IH (S k) (t + 1) s' e (step_time tmin k t Et)); [lia|exact H].
  - exact (reach_err_ret _ _ _ H).
Qed.

Theorem dsir_horizon_suffices : forall g R trec ord i0 r0o tmin (n : nat) full fuel ds e tr, rules_safe R -> (n < fuel)%nat ->
  exec (discrete_SIR g R trec ord (Some i0) r0o None tmin (Some (tmin + inject_Z (Z.of_nat n))) full fuel) ds [] = (Err e, tr) -> e = OutOfDraws.
Proof.
  intros g R trec ord i0 r0o tmin n full fuel ds e tr HR Hf H. apply exec_reach_err in H. destruct H as [H|H]; [exact H|exfalso].
  unfold discrete_SIR in H. cbn [with_initial] in H.
  eapply (dloop_horizon R HR g trec ord tmin n full i0 (opt_list r0o) fuel O tmin); [|lia|exact H]. cbn. ring.
Qed.

Theorem dsis_horizon_suffices : forall g R ord i0 tmin (n : nat) full fuel ds e tr, rules_safe R -> (n < fuel)%nat ->
  exec (basic_discrete_SIS_R g R ord (Some i0) None tmin (Some (tmin + inject_Z (Z.of_nat n))) full fuel) ds [] = (Err e, tr) -> e = OutOfDraws.
Proof.
  intros g R ord i0 tmin n full fuel ds e tr HR Hf H. apply exec_reach_err in H. destruct H as [H|H]; [exact H|exfalso].
  unfold basic_discrete_SIS_R in H. cbn [with_initial] in H.
  eapply (sis_loop_horizon R HR g ord tmin n full i0 fuel O tmin); [|lia|exact H]. cbn. ring.
Qed.
