(* Gillespie_SIR / Gillespie_SIS model: each event preserves the bookkeeping
   invariant and never fails; the initial condition establishes it. *)
From EoNV Require Import Prelude Samp Graph ListDict ListDictP Gillespie KldP GillespieInv.
From Coq Require Import Lqa.

Section Events.
Variable g : graph.
Hypothesis Hg : wfg g.

Notation Inv := (Inv g).
Notation infs_spec := (infs_spec g).
Notation links_spec := (links_spec g).

Lemma rbind_ok : forall A B (a : A) (f : A -> result B), rbind (Ok a) f = f a.
Proof. reflexivity. Qed.

Definition sis_statuses (st : node -> N) : Prop := forall x, st x = stS \/ st x = stI.

Lemma infs_spec_upd_other : forall st v s k, k <> knode v ->
  infs_spec (fupdN st v s) k = infs_spec st k.
Proof.
  intros st v s [|a [|b r]] Hk; cbn [GillespieInv.infs_spec]; try reflexivity.
  rewrite fupdN_other; [reflexivity|]. intro E. subst a. apply Hk. reflexivity.
Qed.


Lemma transmit_eq : forall kind full t u v s,
  transmit g kind full t u v s =
  rbind (kl_update (infs s) (knode v) (wopt (nwt g) (nw g v))) (fun infs' =>
  rbind (fold_left (fun acc x => rbind acc (tr_step g kind (stat s) v x)) (gadj g v) (Ok (links s))) (fun links' =>
  Ok (mkG (fupdN (stat s) v stI) infs' links'
          (match kind with SIR => push_row s t (-1) 1 0 | SIS => push_row2 s t (-1) 1 end)
          (if full then (t, v, stI) :: elog s else elog s)
          (if full then (t, Some u, v) :: tlog s else tlog s)))).
Proof. reflexivity. Qed.

Lemma sir_recover_eq : forall full t u s,
  sir_recover g full t u s =
  rbind (kl_remove (infs s) (knode u)) (fun infs' =>
  rbind (fold_left (fun acc x => rbind acc (rec_step (stat s) u stR x)) (gadj g u) (Ok (links s))) (fun links' =>
  Ok (mkG (fupdN (stat s) u stR) infs' links' (push_row s t 0 (-1) 1)
          (if full then (t, u, stR) :: elog s else elog s) (tlog s)))).
Proof. reflexivity. Qed.

Lemma sis_recover_eq : forall full t u s,
  sis_recover g full t u s =
  rbind (kl_remove (infs s) (knode u)) (fun infs' =>
  rbind (fold_left (fun acc x => rbind acc (srec_step g (stat s) u stS x)) (gadj g u) (Ok (links s))) (fun links' =>
  Ok (mkG (fupdN (stat s) u stS) infs' links' (push_row2 s t 1 (-1))
          (if full then (t, u, stS) :: elog s else elog s) (tlog s)))).
Proof. reflexivity. Qed.

(* ---- transmission ---- *)
Lemma transmit_inv : forall kind full t u v s,
  Inv s -> stat s v = stS -> (kind = SIS -> sis_statuses (stat s)) ->
  exists s', transmit g kind full t u v s = Ok s' /\ Inv s' /\
             stat s' = fupdN (stat s) v stI /\
             rows s' = (match kind with SIR => push_row s t (-1) 1 0 | SIS => push_row2 s t (-1) 1 end) /\
             elog s' = (if full then (t, v, stI) :: elog s else elog s) /\
             tlog s' = (if full then (t, Some u, v) :: tlog s else tlog s).
Proof.
  intros kind full t u v s HI Hv Hsis. rewrite transmit_eq.
  assert (Habs : kabs (infs s) (knode v) = None).
  { apply oQeq_none_l. eapply oQeq_trans; [apply (i_ia g s HI)|]. unfold knode.
    cbn [GillespieInv.infs_spec]. rewrite Hv. cbn. exact I. }
  rewrite (wopt_n g).
  destruct (kl_update_absent (infs s) (knode v) (nwt g) (iw g v) (i_infs g s HI) (i_winfs g s HI)
              (iw_nonneg g Hg v) Habs) as [I' [He [Hi [Hw [Hk Ho]]]]].
  rewrite He, rbind_ok.
  destruct (fold_agree (tr_step g kind (stat s) v) (ewt g) (tr_M g (stat s) v) (gadj g v)
              (fun d x L Hx => tr_step_ok g Hg kind (stat s) v Hv Hsis d x L Hx)
              (adj_nodup g Hg v) [] (links s)) as [L' [HeL [HiL [HwL HaL]]]].
  - intros x _ H. exact H.
  - exact (i_links g s HI).
  - exact (i_wlinks g s HI).
  - intro k. rewrite (tr_M_nil g (stat s) v Hv). apply (i_la g s HI).
  - rewrite HeL, rbind_ok. eexists. split; [reflexivity|]. split.
    + constructor; cbn [infs links stat].
      * exact Hi.
      * exact HiL.
      * exact Hw.
      * exact HwL.
      * intro k. destruct (keqb_spec k (knode v)) as [E|E].
        -- subst k. eapply oQeq_trans; [exact Hk|]. rewrite (iw_flag g). unfold knode.
           cbn [GillespieInv.infs_spec]. rewrite fupdN_same. cbn. reflexivity.
        -- eapply oQeq_trans; [apply Ho; exact E|]. rewrite (infs_spec_upd_other _ _ _ _ E).
           apply (i_ia g s HI).
      * intro k. eapply oQeq_trans; [apply HaL|]. rewrite (tr_M_full g Hg (stat s) v Hv). apply oQeq_refl.
    + cbn [stat rows elog tlog]. repeat split; reflexivity.
Qed.

(* ---- SIR recovery ---- *)
Lemma sir_recover_inv : forall full t u s,
  Inv s -> stat s u = stI ->
  exists s', sir_recover g full t u s = Ok s' /\ Inv s' /\
             stat s' = fupdN (stat s) u stR /\
             rows s' = push_row s t 0 (-1) 1 /\
             elog s' = (if full then (t, u, stR) :: elog s else elog s) /\
             tlog s' = tlog s.
Proof.
  intros full t u s HI Hu. rewrite sir_recover_eq.
  assert (Hpres : kabs (infs s) (knode u) <> None).
  { eapply oQeq_some_not_none. eapply oQeq_trans; [apply (i_ia g s HI)|]. unfold knode.
    cbn [GillespieInv.infs_spec]. rewrite Hu. cbn. reflexivity. }
  destruct (kl_remove_present (infs s) (knode u) (i_infs g s HI) Hpres) as [I' [He [Hi [Hw [Hk Ho]]]]].
  rewrite He, rbind_ok.
  destruct (fold_agree (rec_step (stat s) u stR) (ewt g) (rec_M g (stat s) u stR) (gadj g u)
              (fun d x L Hx => rec_step_ok g Hg (stat s) u Hu stR d x L Hx)
              (adj_nodup g Hg u) [] (links s)) as [L' [HeL [HiL [HwL HaL]]]].
  - intros x _ H. exact H.
  - exact (i_links g s HI).
  - exact (i_wlinks g s HI).
  - intro k. rewrite (rec_M_nil g (stat s) u stR). apply (i_la g s HI).
  - rewrite HeL, rbind_ok. eexists. split; [reflexivity|]. split.
    + constructor; cbn [infs links stat].
      * exact Hi.
      * exact HiL.
      * rewrite Hw. exact (i_winfs g s HI).
      * exact HwL.
      * intro k. destruct (keqb_spec k (knode u)) as [E|E].
        -- subst k. rewrite Hk. unfold knode. cbn [GillespieInv.infs_spec]. rewrite fupdN_same. cbn. exact I.
        -- rewrite (Ho k E). rewrite (infs_spec_upd_other _ _ _ _ E). apply (i_ia g s HI).
      * intro k. eapply oQeq_trans; [apply HaL|].
        rewrite (rec_M_full_SIR g (stat s) u Hu stR eq_refl). apply oQeq_refl.
    + cbn [stat rows elog tlog]. repeat split; reflexivity.
Qed.

(* ---- SIS recovery ---- *)
Lemma sis_recover_inv : forall full t u s,
  Inv s -> stat s u = stI -> sis_statuses (stat s) ->
  exists s', sis_recover g full t u s = Ok s' /\ Inv s' /\
             stat s' = fupdN (stat s) u stS /\
             rows s' = push_row2 s t 1 (-1) /\
             elog s' = (if full then (t, u, stS) :: elog s else elog s) /\
             tlog s' = tlog s.
Proof.
  intros full t u s HI Hu Hsis. rewrite sis_recover_eq.
  assert (Hpres : kabs (infs s) (knode u) <> None).
  { eapply oQeq_some_not_none. eapply oQeq_trans; [apply (i_ia g s HI)|]. unfold knode.
    cbn [GillespieInv.infs_spec]. rewrite Hu. cbn. reflexivity. }
  destruct (kl_remove_present (infs s) (knode u) (i_infs g s HI) Hpres) as [I' [He [Hi [Hw [Hk Ho]]]]].
  rewrite He, rbind_ok.
  destruct (fold_agree (srec_step g (stat s) u stS) (ewt g) (srec_M g (stat s) u stS) (gadj g u)
              (fun d x L Hx => srec_step_ok g Hg (stat s) u Hu stS d x L Hx)
              (adj_nodup g Hg u) [] (links s)) as [L' [HeL [HiL [HwL HaL]]]].
  - intros x _ H. exact H.
  - exact (i_links g s HI).
  - exact (i_wlinks g s HI).
  - intro k. rewrite (srec_M_nil g (stat s) u stS). apply (i_la g s HI).
  - rewrite HeL, rbind_ok. eexists. split; [reflexivity|]. split.
    + constructor; cbn [infs links stat].
      * exact Hi.
      * exact HiL.
      * rewrite Hw. exact (i_winfs g s HI).
      * exact HwL.
      * intro k. destruct (keqb_spec k (knode u)) as [E|E].
        -- subst k. rewrite Hk. unfold knode. cbn [GillespieInv.infs_spec]. rewrite fupdN_same. cbn. exact I.
        -- rewrite (Ho k E). rewrite (infs_spec_upd_other _ _ _ _ E). apply (i_ia g s HI).
      * intro k. eapply oQeq_trans; [apply HaL|].
        apply (srec_M_full g Hg (stat s) u Hu stS Hsis eq_refl).
    + cbn [stat rows elog tlog]. repeat split; reflexivity.
Qed.

(* ---- the initial condition ---- *)
Section Init.
Variable st0 : node -> N.

Definition in_step (u x : node) (l : kld) : result kld :=
  if N.eqb (st0 x) stS then kl_update l (kpair u x) (wopt (ewt g) (ew g u x)) else Ok l.

Definition Qm (done : list node) (k : key) : option Q :=
  match k with [a] => if mem a done then Some (iw g a) else None | _ => None end.
Definition Pm (done : list node) (k : key) : option Q :=
  match k with
  | [a; b] => if mem a done && N.eqb (st0 b) stS && mem b (gadj g a) then Some (lw g a b) else None
  | _ => None
  end.
Definition in_M (done : list node) (u : node) (d : list node) (k : key) : option Q :=
  match k with
  | [a; b] => if N.eqb a u then (if mem b d && N.eqb (st0 b) stS then Some (lw g u b) else None)
              else Pm done k
  | _ => None
  end.

Lemma in_step_ok : forall done u, ~ In u done ->
  forall d x (L : kld), In x (gadj g u) -> ~ In x d -> kinv L -> weighted L = ewt g ->
  (forall k, oQeq (kabs L k) (in_M done u d k)) ->
  exists L', in_step u x L = Ok L' /\ kinv L' /\ weighted L' = ewt g /\
             forall k, oQeq (kabs L' k) (in_M done u (x :: d) k).
Proof.
  intros done u Hud d x L Hx Hxd Hinv Hw Hag.
  assert (Hmd : mem x d = false). { apply mem_false. exact Hxd. }
  unfold in_step. destruct (N.eqb (st0 x) stS) eqn:ES.
  - assert (Habs : kabs L (kpair u x) = None).
    { apply oQeq_none_l. eapply oQeq_trans; [apply Hag|]. unfold kpair. cbn [in_M].
      rewrite N.eqb_refl, Hmd. cbn. exact I. }
    rewrite (wopt_e g).
    destruct (kl_update_absent L (kpair u x) (ewt g) (lw g u x) Hinv Hw (lw_nonneg g Hg u x) Habs)
      as [L' [He [Hi [Hw' [Hk Ho]]]]].
    exists L'. split; [exact He|]. split; [exact Hi|]. split; [exact Hw'|].
    intro k. destruct (keqb_spec k (kpair u x)) as [E|E].
    + subst k. eapply oQeq_trans; [exact Hk|]. rewrite (lw_flag g). unfold kpair. cbn [in_M].
      rewrite N.eqb_refl. cbn [mem existsb]. rewrite N.eqb_refl, ES. cbn. reflexivity.
    + eapply oQeq_trans; [apply Ho; exact E|]. eapply oQeq_trans; [apply Hag|]. apply oQeq_of_eq.
      destruct k as [|a [|b [|c r]]]; cbn [in_M]; try reflexivity.
      destruct (N.eqb_spec a u) as [Ea|Ea]; [|reflexivity].
      subst a. cbn [mem existsb]. destruct (N.eqb_spec b x) as [Eb|Eb]; [|cbn [orb]; reflexivity].
      subst b. exfalso. apply E. reflexivity.
  - exists L. split; [reflexivity|]. split; [exact Hinv|]. split; [exact Hw|].
    intro k. eapply oQeq_trans; [apply Hag|]. apply oQeq_of_eq.
    destruct k as [|a [|b [|c r]]]; cbn [in_M]; try reflexivity.
    destruct (N.eqb_spec a u) as [Ea|Ea]; [|reflexivity].
    cbn [mem existsb]. destruct (N.eqb_spec b x) as [Eb|Eb]; [|cbn [orb]; reflexivity].
    subst b. cbn [orb]. rewrite Hmd, ES. cbn. reflexivity.
Qed.

Lemma in_M_nil : forall done u k, ~ In u done -> in_M done u [] k = Pm done k.
Proof.
  intros done u [|a [|b [|c r]]] Hu; cbn [in_M Pm]; try reflexivity.
  destruct (N.eqb_spec a u) as [E|E]; [|reflexivity].
  subst a. cbn [mem existsb andb]. apply mem_false in Hu. rewrite Hu. reflexivity.
Qed.

Lemma in_M_full : forall done u k, in_M done u (rev (gadj g u) ++ []) k = Pm (u :: done) k.
Proof.
  intros done u [|a [|b [|c r]]]; cbn [in_M Pm]; try reflexivity.
  rewrite app_nil_r, mem_rev. cbn [mem existsb].
  destruct (N.eqb_spec a u) as [E|E].
  - subst a. cbn [orb andb]. destruct (mem b (gadj g u)); destruct (N.eqb (st0 b) stS); reflexivity.
  - cbn [orb]. reflexivity.
Qed.

Definition init_step (acc : result (kld * kld)) (u : node) : result (kld * kld) :=
  rbind acc (fun il =>
    rbind (kl_update (fst il) (knode u) (wopt (nwt g) (nw g u))) (fun infs' =>
    rbind (fold_left (fun accl v => rbind accl (in_step u v)) (gadj g u) (Ok (snd il)))
          (fun links' => Ok (infs', links')))).

Lemma init_sets_eq : forall i0, init_sets g st0 i0 =
  fold_left init_step i0 (Ok (kl_empty (nwt g), kl_empty (ewt g))).
Proof. reflexivity. Qed.

Lemma init_fold : forall i0 done (I L : kld), NoDup i0 -> (forall x, In x i0 -> ~ In x done) ->
  kinv I -> kinv L -> weighted I = nwt g -> weighted L = ewt g ->
  (forall k, oQeq (kabs I k) (Qm done k)) -> (forall k, oQeq (kabs L k) (Pm done k)) ->
  exists I' L' : kld, fold_left init_step i0 (Ok (I, L)) = Ok (I', L') /\
     kinv I' /\ kinv L' /\ weighted I' = nwt g /\ weighted L' = ewt g /\
     (forall k, oQeq (kabs I' k) (Qm (rev i0 ++ done) k)) /\
     (forall k, oQeq (kabs L' k) (Pm (rev i0 ++ done) k)).
Proof.
  induction i0 as [|u i0 IH]; intros done I L Hnd Hd HiI HiL HwI HwL HaI HaL.
  - exists I, L. cbn [fold_left rev app]. repeat (split; [assumption || reflexivity|]). assumption.
  - apply NoDup_cons_iff in Hnd. destruct Hnd as [Hu Hnd].
    assert (Hud : ~ In u done). { apply Hd. left. reflexivity. }
    cbn [fold_left]. unfold init_step at 2. rewrite rbind_ok. cbn [fst snd].
    assert (Habs : kabs I (knode u) = None).
    { apply oQeq_none_l. eapply oQeq_trans; [apply HaI|]. unfold knode. cbn [Qm].
      apply mem_false in Hud. rewrite Hud. exact Logic.I. }
    rewrite (wopt_n g).
    destruct (kl_update_absent I (knode u) (nwt g) (iw g u) HiI HwI (iw_nonneg g Hg u) Habs)
      as [I1 [He [Hi1 [Hw1 [Hk Ho]]]]].
    rewrite He, rbind_ok.
    destruct (fold_agree (in_step u) (ewt g) (in_M done u) (gadj g u)
                (fun d x L0 Hx => in_step_ok done u Hud d x L0 Hx)
                (adj_nodup g Hg u) [] L) as [L1 [HeL [HiL1 [HwL1 HaL1]]]].
    + intros x _ H. exact H.
    + exact HiL.
    + exact HwL.
    + intro k. rewrite (in_M_nil done u k Hud). apply HaL.
    + rewrite HeL, rbind_ok.
      destruct (IH (u :: done) I1 L1 Hnd) as [I' [L' [He' [A [B [C [D [E F]]]]]]]].
      * intros x Hx [Ex|Hxd]; [subst x; contradiction|]. apply (Hd x (or_intror Hx)). exact Hxd.
      * exact Hi1.
      * exact HiL1.
      * exact Hw1.
      * exact HwL1.
      * intro k. destruct (keqb_spec k (knode u)) as [Ek|Ek].
        -- subst k. eapply oQeq_trans; [exact Hk|]. rewrite (iw_flag g). unfold knode. cbn [Qm mem existsb].
           rewrite N.eqb_refl. cbn. reflexivity.
        -- eapply oQeq_trans; [apply Ho; exact Ek|]. eapply oQeq_trans; [apply HaI|]. apply oQeq_of_eq.
           destruct k as [|a [|b r]]; cbn [Qm]; try reflexivity.
           cbn [mem existsb]. destruct (N.eqb_spec a u) as [Ea|Ea]; [|reflexivity].
           subst a. exfalso. apply Ek. reflexivity.
      * intro k. eapply oQeq_trans; [apply HaL1|]. rewrite in_M_full. apply oQeq_refl.
      * exists I', L'. split; [exact He'|]. split; [exact A|]. split; [exact B|].
        split; [exact C|]. split; [exact D|].
        cbn [rev]. split; intro k; rewrite <- app_assoc; cbn [app]; [apply E|apply F].
Qed.

End Init.

Lemma set_all_in : forall l (f : node -> N) s x, In x l -> set_all f l s x = s.
Proof.
  induction l as [|y l IH]; intros f s x Hin; [destruct Hin|].
  cbn [set_all fold_left]. destruct (in_dec N.eq_dec x l) as [Hl|Hl].
  - apply (IH (fupdN f y s) s x Hl).
  - destruct Hin as [E|Hin]; [|contradiction]. subst y.
    assert (Hgen : forall l0 (h : node -> N), ~ In x l0 -> fold_left (fun f0 u => fupdN f0 u s) l0 h x = h x).
    { induction l0 as [|z l0 IH0]; intros h Hn; [reflexivity|]. cbn [fold_left].
      rewrite IH0; [|intro H; apply Hn; right; exact H].
      apply fupdN_other. intro E. apply Hn. left. symmetry. exact E. }
    unfold set_all in *. rewrite (Hgen l (fupdN f x s) Hl). apply fupdN_same.
Qed.

Lemma set_all_notin : forall l (f : node -> N) s x, ~ In x l -> set_all f l s x = f x.
Proof.
  induction l as [|y l IH]; intros f s x Hn; [reflexivity|].
  cbn [set_all fold_left]. change (set_all (fupdN f y s) l s x = f x).
  rewrite IH; [|intro H; apply Hn; right; exact H].
  apply fupdN_other. intro E. apply Hn. left. symmetry. exact E.
Qed.

Definition st_init (i0 r0 : list node) : node -> N := set_all (set_all (fun _ => stS) i0 stI) r0 stR.

Lemma st_init_I : forall i0 r0 x, (forall y, In y i0 -> ~ In y r0) ->
  (N.eqb (st_init i0 r0 x) stI = mem x i0).
Proof.
  intros i0 r0 x Hdis. unfold st_init. destruct (in_dec N.eq_dec x r0) as [Hr|Hr].
  - rewrite set_all_in by exact Hr. symmetry. apply mem_false. intro Hi. apply (Hdis x Hi Hr).
  - rewrite set_all_notin by exact Hr. destruct (in_dec N.eq_dec x i0) as [Hi|Hi].
    + rewrite set_all_in by exact Hi. symmetry. apply mem_In. exact Hi.
    + rewrite set_all_notin by exact Hi. symmetry. apply mem_false. exact Hi.
Qed.

Lemma init_inv : forall i0 r0, NoDup i0 -> (forall y, In y i0 -> ~ In y r0) ->
  exists I L : kld, init_sets g (st_init i0 r0) i0 = Ok (I, L) /\
    forall rws el tl, Inv (mkG (st_init i0 r0) I L rws el tl).
Proof.
  intros i0 r0 Hnd Hdis. rewrite init_sets_eq.
  destruct (init_fold (st_init i0 r0) i0 [] (kl_empty (nwt g)) (kl_empty (ewt g)) Hnd)
    as [I [L [He [A [B [C [D [E F]]]]]]]].
  - intros x _ H. exact H.
  - apply kl_empty_inv.
  - apply kl_empty_inv.
  - reflexivity.
  - reflexivity.
  - intro k. rewrite kl_empty_abs. destruct k as [|a [|b r]]; exact Logic.I.
  - intro k. rewrite kl_empty_abs. destruct k as [|a [|b [|c r]]]; exact Logic.I.
  - exists I, L. split; [exact He|]. intros rws el tl. constructor; cbn [infs links stat]; try assumption.
    + intro k. eapply oQeq_trans; [apply E|]. apply oQeq_of_eq.
      destruct k as [|a [|b r]]; cbn [Qm GillespieInv.infs_spec]; try reflexivity.
      rewrite app_nil_r, mem_rev, (st_init_I i0 r0 a Hdis). reflexivity.
    + intro k. eapply oQeq_trans; [apply F|]. apply oQeq_of_eq.
      destruct k as [|a [|b [|c r]]]; cbn [Pm GillespieInv.links_spec]; try reflexivity.
      rewrite app_nil_r, mem_rev, (st_init_I i0 r0 a Hdis). reflexivity.
Qed.

End Events.
