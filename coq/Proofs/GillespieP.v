(* Gillespie_SIR / Gillespie_SIS model: each event preserves the bookkeeping
   invariant and never fails; the initial condition establishes it. *)
From EoNV Require Import Prelude Samp Graph ListDict ListDictP Gillespie KldP GillespieInv.
From Coq Require Import Lqa.

Section Events.
Variable g : graph.
Hypothesis Hg : wfg g.

Notation Inv := (Inv g).
Notation infs_spec := (infs_spec g).
Notation links_spec := (links_spec g).

Lemma rbind_ok : forall A B (a : A) (f : A -> result B), rbind (Ok a) f = f a.
Proof. reflexivity. Qed.

Definition sis_statuses (st : node -> N) : Prop := forall x, st x = stS \/ st x = stI.

Lemma infs_spec_upd_other : forall st v s k, k <> knode v ->
  infs_spec (fupdN st v s) k = infs_spec st k.
Proof.
  intros st v s [|a [|b r]] Hk; cbn [GillespieInv.infs_spec]; try reflexivity.
  rewrite fupdN_other; [reflexivity|]. intro E. subst a. apply Hk. reflexivity.
Qed.


Lemma transmit_eq : forall kind full t u v s,
  transmit g kind full t u v s =
  rbind (kl_update (infs s) (knode v) (wopt (nwt g) (nw g v))) (fun infs' =>
  rbind (fold_left (fun acc x => rbind acc (tr_step g kind (stat s) v x)) (gadj g v) (Ok (links s))) (fun links' =>
  Ok (mkG (fupdN (stat s) v stI) infs' links'
          (match kind with SIR => push_row s t (-1) 1 0 | SIS => push_row2 s t (-1) 1 end)
          (if full then (t, v, stI) :: elog s else elog s)
          (if full then (t, Some u, v) :: tlog s else tlog s)))).
Proof. reflexivity. Qed.

Lemma sir_recover_eq : forall full t u s,
  sir_recover g full t u s =
  rbind (kl_remove (infs s) (knode u)) (fun infs' =>
  rbind (fold_left (fun acc x => rbind acc (rec_step (stat s) u stR x)) (gadj g u) (Ok (links s))) (fun links' =>
  Ok (mkG (fupdN (stat s) u stR) infs' links' (push_row s t 0 (-1) 1)
          (if full then (t, u, stR) :: elog s else elog s) (tlog s)))).
Proof. reflexivity. Qed.

Lemma sis_recover_eq : forall full t u s,
  sis_recover g full t u s =
  rbind (kl_remove (infs s) (knode u)) (fun infs' =>
  rbind (fold_left (fun acc x => rbind acc (srec_step g (stat s) u stS x)) (gadj g u) (Ok (links s))) (fun links' =>
  Ok (mkG (fupdN (stat s) u stS) infs' links' (push_row2 s t 1 (-1))
          (if full then (t, u, stS) :: elog s else elog s) (tlog s)))).
Proof. reflexivity. Qed.

(* ---- transmission ---- *)
Lemma transmit_inv : forall kind full t u v s,
  Inv s -> stat s v = stS -> (kind = SIS -> sis_statuses (stat s)) ->
  exists s', transmit g kind full t u v s = Ok s' /\ Inv s' /\
             stat s' = fupdN (stat s) v stI /\
             rows s' = (match kind with SIR => push_row s t (-1) 1 0 | SIS => push_row2 s t (-1) 1 end) /\
             elog s' = (if full then (t, v, stI) :: elog s else elog s) /\
             tlog s' = (if full then (t, Some u, v) :: tlog s else tlog s).
Proof.
  intros kind full t u v s HI Hv Hsis. rewrite transmit_eq.
  assert (Habs : kabs (infs s) (knode v) = None).
  { apply oQeq_none_l. eapply oQeq_trans; [apply (i_ia g s HI)|]. unfold knode.
    cbn [GillespieInv.infs_spec]. rewrite Hv. cbn. exact I. }
  rewrite (wopt_n g).
  destruct (kl_update_absent (infs s) (knode v) (nwt g) (iw g v) (i_infs g s HI) (i_winfs g s HI)
              (iw_nonneg g Hg v) Habs) as [I' [He [Hi [Hw [Hk Ho]]]]].
  rewrite He, rbind_ok.
  destruct (fold_agree (tr_step g kind (stat s) v) (ewt g) (tr_M g (stat s) v) (gadj g v)
              (fun d x L Hx => tr_step_ok g Hg kind (stat s) v Hv Hsis d x L Hx)
              (adj_nodup g Hg v) [] (links s)) as [L' [HeL [HiL [HwL HaL]]]].
  - intros x _ H. exact H.
  - exact (i_links g s HI).
  - exact (i_wlinks g s HI).
  - intro k. rewrite (tr_M_nil g (stat s) v Hv). apply (i_la g s HI).
  - rewrite HeL, rbind_ok. eexists. split; [reflexivity|]. split.
    + constructor; cbn [infs links stat].
      * exact Hi.
      * exact HiL.
      * exact Hw.
      * exact HwL.
      * intro k. destruct (keqb_spec k (knode v)) as [E|E].
        -- subst k. eapply oQeq_trans; [exact Hk|]. rewrite (iw_flag g). unfold knode.
           cbn [GillespieInv.infs_spec]. rewrite fupdN_same. cbn. reflexivity.
        -- eapply oQeq_trans; [apply Ho; exact E|]. rewrite (infs_spec_upd_other _ _ _ _ E).
           apply (i_ia g s HI).
      * intro k. eapply oQeq_trans; [apply HaL|]. rewrite (tr_M_full g Hg (stat s) v Hv). apply oQeq_refl.
    + cbn [stat rows elog tlog]. repeat split; reflexivity.
Qed.

(* ---- SIR recovery ---- *)
Lemma sir_recover_inv : forall full t u s,
  Inv s -> stat s u = stI ->
  exists s', sir_recover g full t u s = Ok s' /\ Inv s' /\
             stat s' = fupdN (stat s) u stR /\
             rows s' = push_row s t 0 (-1) 1 /\
             elog s' = (if full then (t, u, stR) :: elog s else elog s) /\
             tlog s' = tlog s.
Proof.
  intros full t u s HI Hu. rewrite sir_recover_eq.
  assert (Hpres : kabs (infs s) (knode u) <> None).
  { eapply oQeq_some_not_none. eapply oQeq_trans; [apply (i_ia g s HI)|]. unfold knode.
    cbn [GillespieInv.infs_spec]. rewrite Hu. cbn. reflexivity. }
  destruct (kl_remove_present (infs s) (knode u) (i_infs g s HI) Hpres) as [I' [He [Hi [Hw [Hk Ho]]]]].
  rewrite He, rbind_ok.
  destruct (fold_agree (rec_step (stat s) u stR) (ewt g) (rec_M g (stat s) u stR) (gadj g u)
              (fun d x L Hx => rec_step_ok g Hg (stat s) u Hu stR d x L Hx)
              (adj_nodup g Hg u) [] (links s)) as [L' [HeL [HiL [HwL HaL]]]].
  - intros x _ H. exact H.
  - exact (i_links g s HI).
  - exact (i_wlinks g s HI).
  - intro k. rewrite (rec_M_nil g (stat s) u stR). apply (i_la g s HI).
  - rewrite HeL, rbind_ok. eexists. split; [reflexivity|]. split.
    + constructor; cbn [infs links stat].
      * exact Hi.
      * exact HiL.
      * rewrite Hw. exact (i_winfs g s HI).
      * exact HwL.
      * intro k. destruct (keqb_spec k (knode u)) as [E|E].
        -- subst k. rewrite Hk. unfold knode. cbn [GillespieInv.infs_spec]. rewrite fupdN_same. cbn. exact I.
        -- rewrite (Ho k E). rewrite (infs_spec_upd_other _ _ _ _ E). apply (i_ia g s HI).
      * intro k. eapply oQeq_trans; [apply HaL|].
        rewrite (rec_M_full_SIR g (stat s) u Hu stR eq_refl). apply oQeq_refl.
    + cbn [stat rows elog tlog]. repeat split; reflexivity.
Qed.

(* ---- SIS recovery ---- *)
Lemma sis_recover_inv : forall full t u s,
  Inv s -> stat s u = stI -> sis_statuses (stat s) ->
  exists s', sis_recover g full t u s = Ok s' /\ Inv s' /\
             stat s' = fupdN (stat s) u stS /\
             rows s' = push_row2 s t 1 (-1) /\
             elog s' = (if full then (t, u, stS) :: elog s else elog s) /\
             tlog s' = tlog s.
Proof.
  intros full t u s HI Hu Hsis. rewrite sis_recover_eq.
  assert (Hpres : kabs (infs s) (knode u) <> None).
  { eapply oQeq_some_not_none. eapply oQeq_trans; [apply (i_ia g s HI)|]. unfold knode.
    cbn [GillespieInv.infs_spec]. rewrite Hu. cbn. reflexivity. }
  destruct (kl_remove_present (infs s) (knode u) (i_infs g s HI) Hpres) as [I' [He [Hi [Hw [Hk Ho]]]]].
  rewrite He, rbind_ok.
  destruct (fold_agree (srec_step g (stat s) u stS) (ewt g) (srec_M g (stat s) u stS) (gadj g u)
              (fun d x L Hx => srec_step_ok g Hg (stat s) u Hu stS d x L Hx)
              (adj_nodup g Hg u) [] (links s)) as [L' [HeL [HiL [HwL HaL]]]].
  - intros x _ H. exact H.
  - exact (i_links g s HI).
  - exact (i_wlinks g s HI).
  - intro k. rewrite (srec_M_nil g (stat s) u stS). apply (i_la g s HI).
  - rewrite HeL, rbind_ok. eexists. split; [reflexivity|]. split.
    + constructor; cbn [infs links stat].
      * exact Hi.
      * exact HiL.
      * rewrite Hw. exact (i_winfs g s HI).
      * exact HwL.
      * intro k. destruct (keqb_spec k (knode u)) as [E|E].
        -- subst k. rewrite Hk. unfold knode. cbn [GillespieInv.infs_spec]. rewrite fupdN_same. cbn. exact I.
        -- rewrite (Ho k E). rewrite (infs_spec_upd_other _ _ _ _ E). apply (i_ia g s HI).
      * intro k. eapply oQeq_trans; [apply HaL|].
        apply (srec_M_full g Hg (stat s) u Hu stS Hsis eq_refl).
    + cbn [stat rows elog tlog]. repeat split; reflexivity.
Qed.

(* ---- the initial condition ---- *)
Section Init.
Variable st0 : node -> N.

Definition in_step (u x : node) (l : kld) : result kld :=
  if N.eqb (st0 x) stS then kl_update l (kpair u x) (wopt (ewt g) (ew g u x)) else Ok l.

Definition Qm (done : list node) (k : key) : option Q :=
  match k with [a] => if mem a done then Some (iw g a) else None | _ => None end.
Definition Pm (done : list node) (k : key) : option Q :=
  match k with
  | [a; b] => if mem a done && N.eqb (st0 b) stS && mem b (gadj g a) then Some (lw g a b) else None
  | _ => None
  end.
Definition in_M (done : list node) (u : node) (d : list node) (k : key) : option Q :=
  match k with
  | [a; b] => if N.eqb a u then (if mem b d && N.eqb (st0 b) stS then Some (lw g u b) else None)
              else Pm done k
  | _ => None
  end.

Lemma in_step_ok : forall done u, ~ In u done ->
  forall d x (L : kld), In x (gadj g u) -> ~ In x d -> kinv L -> weighted L = ewt g ->
  (forall k, oQeq (kabs L k) (in_M done u d k)) ->
  exists L', in_step u x L = Ok L' /\ kinv L' /\ weighted L' = ewt g /\
             forall k, oQeq (kabs L' k) (in_M done u (x :: d) k).
Proof.
  intros done u Hud d x L Hx Hxd Hinv Hw Hag.
  assert (Hmd : mem x d = false). { apply mem_false. exact Hxd. }
  unfold in_step. destruct (N.eqb (st0 x) stS) eqn:ES.
  - assert (Habs : kabs L (kpair u x) = None).
    { apply oQeq_none_l. eapply oQeq_trans; [apply Hag|]. unfold kpair. cbn [in_M].
      rewrite N.eqb_refl, Hmd. cbn. exact I. }
    rewrite (wopt_e g).
    destruct (kl_update_absent L (kpair u x) (ewt g) (lw g u x) Hinv Hw (lw_nonneg g Hg u x) Habs)
      as [L' [He [Hi [Hw' [Hk Ho]]]]].
    exists L'. split; [exact He|]. split; [exact Hi|]. split; [exact Hw'|].
    intro k. destruct (keqb_spec k (kpair u x)) as [E|E].
    + subst k. eapply oQeq_trans; [exact Hk|]. rewrite (lw_flag g). unfold kpair. cbn [in_M].
      rewrite N.eqb_refl. cbn [mem existsb]. rewrite N.eqb_refl, ES. cbn. reflexivity.
    + eapply oQeq_trans; [apply Ho; exact E|]. eapply oQeq_trans; [apply Hag|]. apply oQeq_of_eq.
      destruct k as [|a [|b [|c r]]]; cbn [in_M]; try reflexivity.
      destruct (N.eqb_spec a u) as [Ea|Ea]; [|reflexivity].
      subst a. cbn [mem existsb]. destruct (N.eqb_spec b x) as [Eb|Eb]; [|cbn [orb]; reflexivity].
      subst b. exfalso. apply E. reflexivity.
  - exists L. split; [reflexivity|]. split; [exact Hinv|]. split; [exact Hw|].
    intro k. eapply oQeq_trans; [apply Hag|]. apply oQeq_of_eq.
    destruct k as [|a [|b [|c r]]]; cbn [in_M]; try reflexivity.
    destruct (N.eqb_spec a u) as [Ea|Ea]; [|reflexivity].
    cbn [mem existsb]. destruct (N.eqb_spec b x) as [Eb|Eb]; [|cbn [orb]; reflexivity].
    subst b. cbn [orb]. rewrite Hmd, ES. cbn. reflexivity.
Qed.

Lemma in_M_nil : forall done u k, ~ In u done -> in_M done u [] k = Pm done k.
Proof.
  intros done u [|a [|b [|c r]]] Hu; cbn [in_M Pm]; try reflexivity.
  destruct (N.eqb_spec a u) as [E|E]; [|reflexivity].
  subst a. cbn [mem existsb andb]. apply mem_false in Hu. rewrite Hu. reflexivity.
Qed.

Lemma in_M_full : forall done u k, in_M done u (rev (gadj g u) ++ []) k = Pm (u :: done) k.
Proof.
  intros done u [|a [|b [|c r]]]; cbn [in_M Pm]; try reflexivity.
  rewrite app_nil_r, mem_rev. cbn [mem existsb].
  destruct (N.eqb_spec a u) as [E|E].
  - subst a. cbn [orb andb]. destruct (mem b (gadj g u)); destruct (N.eqb (st0 b) stS); reflexivity.
  - cbn [orb]. reflexivity.
Qed.

Definition init_step (acc : result (kld * kld)) (u : node) : result (kld * kld) :=
  rbind acc (fun il =>
    rbind (kl_update (fst il) (knode u) (wopt (nwt g) (nw g u))) (fun infs' =>
    rbind (fold_left (fun accl v => rbind accl (in_step u v)) (gadj g u) (Ok (snd il)))
          (fun links' => Ok (infs', links')))).

Lemma init_sets_eq : forall i0, init_sets g st0 i0 =
  fold_left init_step i0 (Ok (kl_empty (nwt g), kl_empty (ewt g))).
Proof. reflexivity. Qed.

Lemma init_fold : forall i0 done (I L : kld), NoDup i0 -> (forall x, In x i0 -> ~ In x done) ->
  kinv I -> kinv L -> weighted I = nwt g -> weighted L = ewt g ->
  (forall k, oQeq (kabs I k) (Qm done k)) -> (forall k, oQeq (kabs L k) (Pm done k)) ->
  exists I' L' : kld, fold_left init_step i0 (Ok (I, L)) = Ok (I', L') /\
     kinv I' /\ kinv L' /\ weighted I' = nwt g /\ weighted L' = ewt g /\
     (forall k, oQeq (kabs I' k) (Qm (rev i0 ++ done) k)) /\
     (forall k, oQeq (kabs L' k) (Pm (rev i0 ++ done) k)).
Proof.
  induction i0 as [|u i0 IH]; intros done I L Hnd Hd HiI HiL HwI HwL HaI HaL.
  - exists I, L. cbn [fold_left rev app]. repeat (split; [assumption || reflexivity|]). assumption.
  - apply NoDup_cons_iff in Hnd. destruct Hnd as [Hu Hnd].
    assert (Hud : ~ In u done). { apply Hd. left. reflexivity. }
    cbn [fold_left]. unfold init_step at 2. rewrite rbind_ok. cbn [fst snd].
    assert (Habs : kabs I (knode u) = None).
    { apply oQeq_none_l. eapply oQeq_trans; [apply HaI|]. unfold knode. cbn [Qm].
      apply mem_false in Hud. rewrite Hud. exact Logic.I. }
    rewrite (wopt_n g).
    destruct (kl_update_absent I (knode u) (nwt g) (iw g u) HiI HwI (iw_nonneg g Hg u) Habs)
      as [I1 [He [Hi1 [Hw1 [Hk Ho]]]]].
    rewrite He, rbind_ok.
    destruct (fold_agree (in_step u) (ewt g) (in_M done u) (gadj g u)
                (fun d x L0 Hx => in_step_ok done u Hud d x L0 Hx)
                (adj_nodup g Hg u) [] L) as [L1 [HeL [HiL1 [HwL1 HaL1]]]].
    + intros x _ H. exact H.
    + exact HiL.
    + exact HwL.
    + intro k. rewrite (in_M_nil done u k Hud). apply HaL.
    + rewrite HeL, rbind_ok.
      destruct (IH (u :: done) I1 L1 Hnd) as [I' [L' [He' [A [B [C [D [E F]]]]]]]].
      * intros x Hx [Ex|Hxd]; [subst x; contradiction|]. apply (Hd x (or_intror Hx)). exact Hxd.
      * exact Hi1.
      * exact HiL1.
      * exact Hw1.
      * exact HwL1.
      * intro k. destruct (keqb_spec k (knode u)) as [Ek|Ek].
        -- subst k. eapply oQeq_trans; [exact Hk|]. rewrite (iw_flag g). unfold knode. cbn [Qm mem existsb].
           rewrite N.eqb_refl. cbn. reflexivity.
        -- eapply oQeq_trans; [apply Ho; exact Ek|]. eapply oQeq_trans; [apply HaI|]. apply oQeq_of_eq.
           destruct k as [|a [|b r]]; cbn [Qm]; try reflexivity.
           cbn [mem existsb]. destruct (N.eqb_spec a u) as [Ea|Ea]; [|reflexivity].
           subst a. exfalso. apply Ek. reflexivity.
      * intro k. eapply oQeq_trans; [apply HaL1|]. rewrite in_M_full. apply oQeq_refl.
      * exists I', L'. split; [exact He'|]. split; [exact A|]. split; [exact B|].
        split; [exact C|]. split; [exact D|].
        cbn [rev]. split; intro k; rewrite <- app_assoc; cbn [app]; [apply E|apply F].
Qed.

End Init.

Lemma set_all_in : forall l (f : node -> N) s x, In x l -> set_all f l s x = s.
Proof.
  induction l as [|y l IH]; intros f s x Hin; [destruct Hin|].
  cbn [set_all fold_left]. destruct (in_dec N.eq_dec x l) as [Hl|Hl].
  - apply (IH (fupdN f y s) s x Hl).
  - destruct Hin as [E|Hin]; [|contradiction]. subst y.
    assert (Hgen : forall l0 (h : node -> N), ~ In x l0 -> fold_left (fun f0 u => fupdN f0 u s) l0 h x = h x).
    { induction l0 as [|z l0 IH0]; intros h Hn; [reflexivity|]. cbn [fold_left].
      rewrite IH0; [|intro H; apply Hn; right; exact H].
      apply fupdN_other. intro E. apply Hn. left. symmetry. exact E. }
    unfold set_all in *. rewrite (Hgen l (fupdN f x s) Hl). apply fupdN_same.
Qed.

Lemma set_all_notin : forall l (f : node -> N) s x, ~ In x l -> set_all f l s x = f x.
Proof.
  induction l as [|y l IH]; intros f s x Hn; [reflexivity|].
  cbn [set_all fold_left]. change (set_all (fupdN f y s) l s x = f x).
  rewrite IH; [|intro H; apply Hn; right; exact H].
  apply fupdN_other. intro E. apply Hn. left. symmetry. exact E.
Qed.

Definition st_init (i0 r0 : list node) : node -> N := set_all (set_all (fun _ => stS) i0 stI) r0 stR.

Lemma st_init_I : forall i0 r0 x, (forall y, In y i0 -> ~ In y r0) ->
  (N.eqb (st_init i0 r0 x) stI = mem x i0).
Proof.
  intros i0 r0 x Hdis. unfold st_init. destruct (in_dec N.eq_dec x r0) as [Hr|Hr].
  - rewrite set_all_in by exact Hr. symmetry. apply mem_false. intro Hi. apply (Hdis x Hi Hr).
  - rewrite set_all_notin by exact Hr. destruct (in_dec N.eq_dec x i0) as [Hi|Hi].
    + rewrite set_all_in by exact Hi. symmetry. apply mem_In. exact Hi.
    + rewrite set_all_notin by exact Hi. symmetry. apply mem_false. exact Hi.
Qed.

Lemma init_inv : forall i0 r0, NoDup i0 -> (forall y, In y i0 -> ~ In y r0) ->
  exists I L : kld, init_sets g (st_init i0 r0) i0 = Ok (I, L) /\
    forall rws el tl, Inv (mkG (st_init i0 r0) I L rws el tl).
Proof.
  intros i0 r0 Hnd Hdis. rewrite init_sets_eq.
  destruct (init_fold (st_init i0 r0) i0 [] (kl_empty (nwt g)) (kl_empty (ewt g)) Hnd)
    as [I [L [He [A [B [C [D [E F]]]]]]]].
  - intros x _ H. exact H.
  - apply kl_empty_inv.
  - apply kl_empty_inv.
  - reflexivity.
  - reflexivity.
  - intro k. rewrite kl_empty_abs. destruct k as [|a [|b r]]; exact Logic.I.
  - intro k. rewrite kl_empty_abs. destruct k as [|a [|b [|c r]]]; exact Logic.I.
  - exists I, L. split; [exact He|]. intros rws el tl. constructor; cbn [infs links stat]; try assumption.
    + intro k. eapply oQeq_trans; [apply E|]. apply oQeq_of_eq.
      destruct k as [|a [|b r]]; cbn [Qm GillespieInv.infs_spec]; try reflexivity.
      rewrite app_nil_r, mem_rev, (st_init_I i0 r0 a Hdis). reflexivity.
    + intro k. eapply oQeq_trans; [apply F|]. apply oQeq_of_eq.
      destruct k as [|a [|b [|c r]]]; cbn [Pm GillespieInv.links_spec]; try reflexivity.
      rewrite app_nil_r, mem_rev, (st_init_I i0 r0 a Hdis). reflexivity.
Qed.

End Events.

(* ================================================================== *)
(* Every run of the loop: trajectories are well-formed, no Python-level *)
(* failure, the bookkeeping invariant holds in every visited state.     *)
From EoNV Require Import SampP.

Lemma kinsert_in : forall V (kv x : key * V) l, In x (kinsert kv l) -> x = kv \/ In x l.
Proof.
  intros V kv x l. induction l as [|h t IH]; cbn [kinsert]; intro H.
  - destruct H as [H|[]]. left. symmetry. exact H.
  - destruct (kltb (fst kv) (fst h)).
    + destruct H as [H|H]; [left; symmetry; exact H|right; exact H].
    + destruct H as [H|H]; [right; left; exact H|].
      destruct (IH H) as [E|E]; [left; exact E|right; right; exact E].
Qed.

Lemma ksort_in : forall V (x : key * V) l, In x (ksort l) -> In x l.
Proof.
  intros V x l. induction l as [|h t IH]; cbn [ksort fold_right]; intro H; [exact H|].
  apply kinsert_in in H. destruct H as [E|H]; [left; symmetry; exact E|right; apply IH; exact H].
Qed.

Lemma kl_cands_in : forall (L : kld) c q, In (c, q) (kl_cands L) -> In c (items L).
Proof.
  intros L c q H. unfold kl_cands in H. apply ksort_in in H. apply in_map_iff in H.
  destruct H as [k [E Hk]]. injection E as E _. subst k. exact Hk.
Qed.

Section Runs.
Variable g : graph.
Hypothesis Hg : wfg g.
Hypothesis Hnd : NoDup (gnodes g).
Variable kind : model_kind.
Variables tau gamma tmin : Q.
Variable tmax : xtime.
Variable full : bool.
Hypothesis Htau : 0 <= tau.
Hypothesis Hgamma : 0 <= gamma.

Notation Inv := (Inv g).

Definition stat_ok (st : node -> N) : Prop :=
  match kind with
  | SIR => forall x, st x = stS \/ st x = stI \/ st x = stR
  | SIS => forall x, st x = stS \/ st x = stI
  end.

Definition cntst (st : node -> N) (a : N) : Z :=
  Z.of_nat (length (filter (fun u => N.eqb (st u) a) (gnodes g))).
Definition census (st : node -> N) : list Z :=
  match kind with
  | SIR => [cntst st stS; cntst st stI; cntst st stR]
  | SIS => [cntst st stS; cntst st stI]
  end.

Definition move (c c' : list Z) : Prop :=
  match kind with
  | SIR => c' = [cnt c 0 + -1; cnt c 1 + 1; cnt c 2 + 0]%Z \/ c' = [cnt c 0 + 0; cnt c 1 + -1; cnt c 2 + 1]%Z
  | SIS => c' = [cnt c 0 + -1; cnt c 1 + 1]%Z \/ c' = [cnt c 0 + 1; cnt c 1 + -1]%Z
  end.

Definition is_census (c : list Z) : Prop := exists st, stat_ok st /\ c = census st.

(* chronological trajectories: first row at tmin; every later row at a time not
   before the previous one and strictly before tmax, one legal move away from it;
   every row is the census of some status map (so counts are >= 0 and sum to N) *)
Inductive traj : list row -> Prop :=
| traj_init : forall r, fst r == tmin -> is_census (snd r) -> traj [r]
| traj_snoc : forall l r1 r2, traj (l ++ [r1]) -> fst r1 <= fst r2 -> xlt (fst r2) tmax = true ->
    move (snd r1) (snd r2) -> is_census (snd r2) -> traj ((l ++ [r1]) ++ [r2]).

Record GInv (s : gst) : Prop := {
  g_inv : Inv s;
  g_stat : stat_ok (stat s);
  g_nodes : forall u, stat s u <> stS -> In u (gnodes g);
  g_census : hd_counts (rows s) = census (stat s);
  g_rows : rows s <> [];
  g_traj : traj (rev (rows s))
}.

Lemma stat_ok_sis : kind = SIS -> forall st, stat_ok st -> sis_statuses st.
Proof. intros E st H. unfold stat_ok in H. rewrite E in H. exact H. Qed.

(* census after one node changes status *)
Lemma filter_upd_len : forall (st : node -> N) u a b l, NoDup l -> st u = a -> a <> b ->
  (length (filter (fun x => N.eqb (fupdN st u b x) a) l) =
   length (filter (fun x => N.eqb (st x) a) l) - (if mem u l then 1 else 0))%nat /\
  (length (filter (fun x => N.eqb (fupdN st u b x) b) l) =
   length (filter (fun x => N.eqb (st x) b) l) + (if mem u l then 1 else 0))%nat /\
  (forall c, c <> a -> c <> b ->
   length (filter (fun x => N.eqb (fupdN st u b x) c) l) = length (filter (fun x => N.eqb (st x) c) l)) /\
  ((if mem u l then 1 else 0) <= length (filter (fun x => N.eqb (st x) a) l))%nat.
Proof.
  intros st u a b l. induction l as [|y l IH]; intros Hn Ha Hab.
  - cbn. repeat split; intros; try reflexivity; lia.
  - apply NoDup_cons_iff in Hn. destruct Hn as [Hy Hn].
    destruct (IH Hn Ha Hab) as [I1 [I2 [I3 I4]]].
    cbn [filter mem existsb].
    destruct (N.eqb_spec y u) as [E|E].
    + subst y. assert (Hm : mem u l = false) by (apply mem_false; exact Hy).
      rewrite !fupdN_same. rewrite N.eqb_refl. cbn [orb]. fold (mem u l). rewrite Hm in *.
      rewrite Ha. rewrite !N.eqb_refl.
      assert (Hba : N.eqb b a = false) by (apply N.eqb_neq; intro E; apply Hab; symmetry; exact E).
      assert (Hab' : N.eqb a b = false) by (apply N.eqb_neq; exact Hab).
      rewrite Hba, Hab'. cbn [length]. repeat split; try lia.
      intros c Hca Hcb. assert (H1 : N.eqb b c = false) by (apply N.eqb_neq; intro E; apply Hcb; symmetry; exact E).
      assert (H2 : N.eqb a c = false) by (apply N.eqb_neq; intro E; apply Hca; symmetry; exact E).
      rewrite H1, H2. apply I3; assumption.
    + assert (Huy : N.eqb u y = false) by (apply N.eqb_neq; intro E2; apply E; symmetry; exact E2).
      rewrite Huy. cbn [orb]. rewrite !(fupdN_other st u b y E). fold (mem u l).
      repeat split.
      * destruct (N.eqb (st y) a); cbn [length]; [|exact I1].
        rewrite I1. destruct (mem u l); lia.
      * destruct (N.eqb (st y) b); cbn [length]; lia.
      * intros c Hca Hcb. destruct (N.eqb (st y) c); cbn [length]; rewrite (I3 c Hca Hcb); reflexivity.
      * destruct (N.eqb (st y) a); cbn [length]; lia.
Qed.

Lemma cntst_upd : forall st u a b, In u (gnodes g) -> st u = a -> a <> b ->
  cntst (fupdN st u b) a = (cntst st a + -1)%Z /\
  cntst (fupdN st u b) b = (cntst st b + 1)%Z /\
  (forall c, c <> a -> c <> b -> cntst (fupdN st u b) c = (cntst st c + 0)%Z).
Proof.
  intros st u a b Hin Ha Hab. unfold cntst.
  destruct (filter_upd_len st u a b (gnodes g) Hnd Ha Hab) as [I1 [I2 [I3 I4]]].
  assert (Hm : mem u (gnodes g) = true) by (apply mem_In; exact Hin). rewrite Hm in *.
  repeat split.
  - rewrite I1. lia.
  - rewrite I2. lia.
  - intros c Hca Hcb. rewrite (I3 c Hca Hcb). lia.
Qed.

Hypothesis Hadj : forall u v, In v (gadj g u) -> In v (gnodes g).

Lemma infs_member : forall s c, Inv s -> In c (items (infs s)) -> exists u, c = [u] /\ stat s u = stI.
Proof.
  intros s c HI Hin. apply (kl_items_abs (infs s) c (i_infs g s HI)) in Hin.
  pose proof (i_ia g s HI c) as Ha.
  destruct c as [|u [|b r]]; cbn [infs_spec] in Ha;
    try (apply oQeq_none_l in Ha; contradiction).
  exists u. split; [reflexivity|]. destruct (N.eqb_spec (stat s u) stI) as [E|E]; [exact E|].
  apply oQeq_none_l in Ha. contradiction.
Qed.

Lemma links_member : forall s c, Inv s -> In c (items (links s)) ->
  exists u v, c = [u; v] /\ stat s u = stI /\ stat s v = stS /\ In v (gadj g u).
Proof.
  intros s c HI Hin. apply (kl_items_abs (links s) c (i_links g s HI)) in Hin.
  pose proof (i_la g s HI c) as Ha.
  destruct c as [|u [|v [|w r]]]; cbn [links_spec] in Ha;
    try (apply oQeq_none_l in Ha; contradiction).
  exists u, v. split; [reflexivity|].
  destruct (N.eqb_spec (stat s u) stI) as [E1|E1]; [|apply oQeq_none_l in Ha; contradiction].
  destruct (N.eqb_spec (stat s v) stS) as [E2|E2]; [|apply oQeq_none_l in Ha; contradiction].
  destruct (mem v (gadj g u)) eqn:E3; [|apply oQeq_none_l in Ha; contradiction].
  repeat split; try assumption. apply mem_In. exact E3.
Qed.

Definition last_time (s : gst) : Q := match rows s with (t, _) :: _ => t | [] => tmin end.

Lemma hd_rev_last : forall (l : list row) r, rev (r :: l) = rev l ++ [r].
Proof. reflexivity. Qed.

Lemma rev_nonempty_snoc : forall (l : list row), l <> [] -> exists l' r1, rev l = l' ++ [r1] /\ hd_error l = Some r1.
Proof.
  intros [|r l] H; [contradiction H; reflexivity|]. exists (rev l), r. split; reflexivity.
Qed.

Lemma stat_ok_upd : forall st u b, stat_ok st ->
  (b = stI \/ (kind = SIR /\ b = stR) \/ (kind = SIS /\ b = stS)) -> stat_ok (fupdN st u b).
Proof.
  intros st u b H Hb. unfold stat_ok in *. destruct kind; intro x; unfold fupdN;
    destruct (N.eqb x u); try apply H.
  - destruct Hb as [E|[[_ E]|[E _]]]; [right; left; exact E|right; right; exact E|discriminate E].
  - destruct Hb as [E|[[E _]|[_ E]]]; [right; exact E|discriminate E|left; exact E].
Qed.

(* the state after one event, given what the event did *)
Lemma after_event : forall s s' t1 u a b,
  GInv s -> last_time s <= t1 -> xlt t1 tmax = true ->
  Inv s' -> stat s' = fupdN (stat s) u b -> stat s u = a -> a <> b -> In u (gnodes g) ->
  b <> stS \/ True ->
  (b = stI \/ (kind = SIR /\ b = stR) \/ (kind = SIS /\ b = stS)) ->
  (exists c', rows s' = (t1, c') :: rows s /\ c' = census (stat s') /\ move (hd_counts (rows s)) c') ->
  GInv s' /\ last_time s' = t1.
Proof.
  intros s s' t1 u a b HG Hlt Hx HI' Hst Ha Hab Hin _ Hb [c' [Hr [Hc Hm]]].
  split; [|unfold last_time; rewrite Hr; reflexivity].
  constructor.
  - exact HI'.
  - rewrite Hst. apply stat_ok_upd; [apply (g_stat s HG)|exact Hb].
  - intros x Hx0. rewrite Hst in Hx0. unfold fupdN in Hx0. destruct (N.eqb_spec x u) as [E|E].
    + subst x. exact Hin.
    + apply (g_nodes s HG). exact Hx0.
  - rewrite Hr. cbn [hd_counts]. exact Hc.
  - rewrite Hr. discriminate.
  - rewrite Hr, hd_rev_last.
    destruct (rev_nonempty_snoc (rows s) (g_rows s HG)) as [l' [r1 [Hrev Hhd]]].
    rewrite Hrev. apply traj_snoc.
    + rewrite <- Hrev. apply (g_traj s HG).
    + cbn [fst]. unfold last_time in Hlt. destruct (rows s) as [|[t0 c0] rs]; [discriminate Hhd|].
      injection Hhd as Hhd. subst r1. exact Hlt.
    + exact Hx.
    + cbn [snd]. destruct (rows s) as [|[t0 c0] rs]; [discriminate Hhd|].
      injection Hhd as Hhd. subst r1. exact Hm.
    + cbn [snd]. exists (stat s'). split; [|exact Hc].
      rewrite Hst. apply stat_ok_upd; [apply (g_stat s HG)|exact Hb].
Qed.

Lemma census_transmit : forall st v, stat_ok st -> In v (gnodes g) -> st v = stS ->
  census (fupdN st v stI) =
  match kind with
  | SIR => [cnt (census st) 0 + -1; cnt (census st) 1 + 1; cnt (census st) 2 + 0]%Z
  | SIS => [cnt (census st) 0 + -1; cnt (census st) 1 + 1]%Z
  end.
Proof.
  intros st v Hok Hin Hv.
  destruct (cntst_upd st v stS stI Hin Hv) as [A [B C]]; [discriminate|].
  unfold census. destruct kind; cbn [cnt nth]; rewrite A, B; [|reflexivity].
  rewrite (C stR); [reflexivity|discriminate|discriminate].
Qed.

Lemma census_recover_SIR : forall st u, kind = SIR -> In u (gnodes g) -> st u = stI ->
  census (fupdN st u stR) = [cnt (census st) 0 + 0; cnt (census st) 1 + -1; cnt (census st) 2 + 1]%Z.
Proof.
  intros st u Hk Hin Hu.
  destruct (cntst_upd st u stI stR Hin Hu) as [A [B C]]; [discriminate|].
  unfold census. rewrite Hk. cbn [cnt nth]. rewrite A, B.
  rewrite (C stS); [reflexivity|discriminate|discriminate].
Qed.

Lemma census_recover_SIS : forall st u, kind = SIS -> In u (gnodes g) -> st u = stI ->
  census (fupdN st u stS) = [cnt (census st) 0 + 1; cnt (census st) 1 + -1]%Z.
Proof.
  intros st u Hk Hin Hu.
  destruct (cntst_upd st u stI stS Hin Hu) as [A [B C]]; [discriminate|].
  unfold census. rewrite Hk. cbn [cnt nth]. rewrite A, B. reflexivity.
Qed.

Lemma reach_liftr : forall A (r : result A) a, reach (liftr r) a -> r = Ok a.
Proof. intros A [x|e] a H; cbn [liftr] in H; inversion H; subst; reflexivity. Qed.
Lemma reach_err_liftr : forall A (r : result A) e, reach_err (liftr r) e -> r = Err e.
Proof. intros A [x|e0] e H; cbn [liftr] in H; inversion H; subst; reflexivity. Qed.

(* one jump from a good state: lands in a good state, cannot fail *)
Lemma kinsert_not_nil : forall V (kv : key * V) l, kinsert kv l <> [].
Proof. intros V kv [|h t]; cbn [kinsert]; [discriminate|]. destruct (kltb (fst kv) (fst h)); discriminate. Qed.
Lemma kl_cands_nil : forall L : kld, kl_cands L = [] -> items L = [].
Proof.
  intros L H. unfold kl_cands in H. destruct (items L) as [|k t]; [reflexivity|].
  cbn [map ksort fold_right] in H. exfalso. eapply kinsert_not_nil. exact H.
Qed.
Lemma empty_total : forall L : kld, kinv L -> items L = [] -> ld_total_weight key L == 0.
Proof. intros L Hi He. rewrite (kl_total L Hi), He. reflexivity. Qed.

Lemma event_reach : forall t1 trec ttot s,
  GInv s -> last_time s <= t1 -> xlt t1 tmax = true ->
  trec == total_rec gamma s -> ttot == trec + total_tr tau s -> 0 < ttot ->
  (forall s', reach (event_st g kind full t1 trec ttot s) s' -> GInv s' /\ last_time s' = t1) /\
  (forall e, ~ reach_err (event_st g kind full t1 trec ttot s) e).
Proof.
  intros t1 trec ttot s HG Hlt Hx Htrec Httot Hpos.
  pose proof (g_inv s HG) as HI.
  assert (Hrec : forall c q, In (c, q) (kl_cands (infs s)) ->
            exists s', rbind (keynode c) (fun u =>
                         match kind with SIR => sir_recover g full t1 u s | SIS => sis_recover g full t1 u s end) = Ok s'
                       /\ GInv s' /\ last_time s' = t1).
  { intros c q Hin. apply kl_cands_in in Hin. destruct (infs_member s c HI Hin) as [u [Ec Hu]]. subst c.
    cbn [keynode rbind].
    assert (Hun : In u (gnodes g)). { apply (g_nodes s HG). rewrite Hu. discriminate. }
    destruct kind eqn:Ek.
    - destruct (sir_recover_inv g Hg full t1 u s HI Hu) as [s' [He [HI' [Hst [Hr [_ _]]]]]].
      exists s'. split; [exact He|].
      eapply (after_event s s' t1 u stI stR); try eassumption; try discriminate.
      + right. exact Logic.I.
      + right. left. split; [exact Ek|reflexivity].
      + eexists. split; [exact Hr|]. unfold push_row. rewrite (g_census s HG), Hst.
        rewrite (census_recover_SIR (stat s) u Ek Hun Hu). split; [reflexivity|].
        unfold move. rewrite Ek. right. reflexivity.
    - destruct (sis_recover_inv g Hg full t1 u s HI Hu (stat_ok_sis Ek _ (g_stat s HG)))
        as [s' [He [HI' [Hst [Hr [_ _]]]]]].
      exists s'. split; [exact He|].
      eapply (after_event s s' t1 u stI stS); try eassumption; try discriminate.
      + right. exact Logic.I.
      + right. right. split; [exact Ek|reflexivity].
      + eexists. split; [exact Hr|]. unfold push_row2. rewrite (g_census s HG), Hst.
        rewrite (census_recover_SIS (stat s) u Ek Hun Hu). split; [reflexivity|].
        unfold move. rewrite Ek. right. reflexivity. }
  assert (Htr : forall c q, In (c, q) (kl_cands (links s)) ->
            exists s', rbind (keypair c) (fun uv => transmit g kind full t1 (fst uv) (snd uv) s) = Ok s'
                       /\ GInv s' /\ last_time s' = t1).
  { intros c q Hin. apply kl_cands_in in Hin.
    destruct (links_member s c HI Hin) as [u [v [Ec [Hu [Hv Huv]]]]]. subst c.
    cbn [keypair rbind fst snd].
    assert (Hvn : In v (gnodes g)). { apply (Hadj u v Huv). }
    destruct (transmit_inv g Hg kind full t1 u v s HI Hv (fun Ek => stat_ok_sis Ek _ (g_stat s HG)))
      as [s' [He [HI' [Hst [Hr [_ _]]]]]].
    exists s'. split; [exact He|].
    eapply (after_event s s' t1 v stS stI); try eassumption; try discriminate.
    - right. exact Logic.I.
    - left. reflexivity.
    - pose proof (census_transmit (stat s) v (g_stat s HG) Hvn Hv) as Hc.
      unfold move. rewrite Hr, Hst, Hc. unfold push_row, push_row2. rewrite (g_census s HG).
      destruct kind; eexists; (split; [reflexivity|]); (split; [reflexivity|left; reflexivity]). }
  split.
  - intros s' H. unfold event_st in H.
    inversion H as [| |? ? ? ? Hp Hk|? ? ? ? Hp Hk| | | |]; subst;
      inversion Hk as [| | | | |? ? ? c q ? Hin Hq Hk2| |]; subst.
    + destruct (Hrec c q Hin) as [s2 [He [A B]]]. apply reach_liftr in Hk2.
      rewrite He in Hk2. injection Hk2 as E. subst s2. split; assumption.
    + destruct (Htr c q Hin) as [s2 [He [A B]]]. apply reach_liftr in Hk2.
      rewrite He in Hk2. injection Hk2 as E. subst s2. split; assumption.
  - intros e H. unfold event_st in H.
    inversion H as [| | |? ? ? ? Hp Hk|? ? ? ? Hp Hk| | | | | | |]; subst.
    + inversion Hk as [| | | | | |? ?|? ? ? c q ? Hin Hq Hk2| | | |]; subst.
      * (* no candidate although the recovery odds are positive: impossible *)
        exfalso. match goal with Hc : [] = kl_cands (infs s) |- _ => symmetry in Hc; apply kl_cands_nil in Hc;
          pose proof (empty_total (infs s) (i_infs g s HI) Hc) as Hz end.
        unfold total_rec in Htrec. rewrite Hz in Htrec.
        assert (Hp0 : trec / ttot == 0). { rewrite Htrec. unfold Qdiv. ring. }
        rewrite Hp0 in Hp. apply (Qlt_irrefl 0). exact Hp.
      * destruct (Hrec c q Hin) as [s2 [He _]]. apply reach_err_liftr in Hk2. congruence.
    + inversion Hk as [| | | | | |? ?|? ? ? c q ? Hin Hq Hk2| | | |]; subst.
      * exfalso. match goal with Hc : [] = kl_cands (links s) |- _ => symmetry in Hc; apply kl_cands_nil in Hc;
          pose proof (empty_total (links s) (i_links g s HI) Hc) as Hz end.
        unfold total_tr in Httot. rewrite Hz in Httot.
        assert (Ht : ttot == trec) by (rewrite Httot; ring).
        assert (Hp1 : trec / ttot == 1).
        { rewrite <- Ht. unfold Qdiv. apply Qmult_inv_r. intro E. rewrite E in Hpos. apply (Qlt_irrefl 0). exact Hpos. }
        rewrite Hp1 in Hp. apply (Qlt_irrefl 1). exact Hp.
      * destruct (Htr c q Hin) as [s2 [He _]]. apply reach_err_liftr in Hk2. congruence.
Qed.

Lemma loop_eq : forall fuel t s,
  loop g kind tau gamma tmin tmax full fuel t s =
  let trec := total_rec gamma s in
  let ttot := trec + total_tr tau s in
  if Qltb 0 ttot then
    Expo ttot (fun d =>
      let t1 := t + d in
      if negb (is_empty (infs s)) && xlt t1 tmax then
        match fuel with
        | O => Fail OutOfFuel
        | S f => event g kind full t1 trec ttot s (fun s' => loop g kind tau gamma tmin tmax full f t1 s')
        end
      else Ret (finish g kind tmin full s))
  else Ret (finish g kind tmin full s).
Proof. intros [|f] t s; reflexivity. Qed.

(* where a run can stop *)
Definition stopped (s : gst) : Prop :=
  ~ 0 < total_rec gamma s + total_tr tau s \/ is_empty (infs s) = true \/ tmax <> None.

Theorem loop_reach : forall fuel t s, GInv s -> last_time s <= t ->
  (forall out, reach (loop g kind tau gamma tmin tmax full fuel t s) out ->
     exists s', GInv s' /\ out = finish g kind tmin full s' /\ stopped s') /\
  (forall e, reach_err (loop g kind tau gamma tmin tmax full fuel t s) e -> e = OutOfFuel).
Proof.
  induction fuel as [|f IH]; intros t s HG Hlt; rewrite loop_eq; cbv zeta;
    destruct (Qltb 0 (total_rec gamma s + total_tr tau s)) eqn:Epos.
  - apply Qltb_true in Epos. split.
    + intros out H. inversion H as [|? ? d ? Hr Hd Hk| | | | | |]; subst.
      destruct (negb (is_empty (infs s)) && xlt (t + d) tmax) eqn:Ec; [inversion Hk|].
      inversion Hk; subst. exists s. split; [exact HG|]. split; [reflexivity|].
      apply andb_false_iff in Ec. destruct Ec as [Ec|Ec].
      * right. left. apply negb_false_iff. exact Ec.
      * right. right. intro E. rewrite E in Ec. discriminate Ec.
    + intros e H. inversion H as [|? ? Hr|? ? d ? Hr Hd Hk| | | | | | | | |]; subst.
      * exfalso. rewrite Hr in Epos. apply (Qlt_irrefl 0). exact Epos.
      * destruct (negb (is_empty (infs s)) && xlt (t + d) tmax) eqn:Ec; inversion Hk; subst. reflexivity.
  - split.
    + intros out H. inversion H; subst. exists s. split; [exact HG|]. split; [reflexivity|].
      left. apply Qltb_false in Epos. intro E. apply (Qlt_irrefl 0). eapply Qlt_le_trans; eassumption.
    + intros e H. inversion H.
  - apply Qltb_true in Epos.
    assert (Hstep : forall d, 0 <= d -> xlt (t + d) tmax = true ->
      (forall s1, reach (event_st g kind full (t + d) (total_rec gamma s) (total_rec gamma s + total_tr tau s) s) s1 ->
                  GInv s1 /\ last_time s1 = t + d) /\
      (forall e, ~ reach_err (event_st g kind full (t + d) (total_rec gamma s) (total_rec gamma s + total_tr tau s) s) e)).
    { intros d Hd Hx. apply event_reach; try assumption; try reflexivity.
      eapply Qle_trans; [exact Hlt|]. rewrite <- (Qplus_0_r t) at 1. apply Qplus_le_r. exact Hd. }
    split.
    + intros out H. inversion H as [|? ? d ? Hr Hd Hk| | | | | |]; subst.
      destruct (negb (is_empty (infs s)) && xlt (t + d) tmax) eqn:Ec.
      * apply andb_true_iff in Ec. destruct Ec as [_ Hx].
        unfold event in Hk. apply reach_bind in Hk. destruct Hk as [s1 [H1 H2]].
        destruct (Hstep d Hd Hx) as [Hok _]. destruct (Hok s1 H1) as [HG1 Hl1].
        destruct (IH (t + d) s1 HG1) as [IHr _]; [rewrite Hl1; apply Qle_refl|].
        apply IHr. exact H2.
      * inversion Hk; subst. exists s. split; [exact HG|]. split; [reflexivity|].
        apply andb_false_iff in Ec. destruct Ec as [Ec|Ec].
        -- right. left. apply negb_false_iff. exact Ec.
        -- right. right. intro E. rewrite E in Ec. discriminate Ec.
    + intros e H. inversion H as [|? ? Hr|? ? d ? Hr Hd Hk| | | | | | | | |]; subst.
      * exfalso. rewrite Hr in Epos. apply (Qlt_irrefl 0). exact Epos.
      * destruct (negb (is_empty (infs s)) && xlt (t + d) tmax) eqn:Ec; [|inversion Hk].
        apply andb_true_iff in Ec. destruct Ec as [_ Hx].
        unfold event in Hk. apply reach_err_bind in Hk. destruct (Hstep d Hd Hx) as [Hok Hne].
        destruct Hk as [Hk|[s1 [H1 H2]]]; [exfalso; eapply Hne; exact Hk|].
        destruct (Hok s1 H1) as [HG1 Hl1].
        destruct (IH (t + d) s1 HG1) as [_ IHe]; [rewrite Hl1; apply Qle_refl|].
        apply IHe. exact H2.
  - split.
    + intros out H. inversion H; subst. exists s. split; [exact HG|]. split; [reflexivity|].
      left. apply Qltb_false in Epos. intro E. apply (Qlt_irrefl 0). eapply Qlt_le_trans; eassumption.
    + intros e H. inversion H.
Qed.

(* ---- the initial state is good ---- *)
Lemma count_mem : forall l G, NoDup l -> NoDup G -> incl l G ->
  length (filter (fun u => mem u l) G) = length l.
Proof.
  intros l G Hl HG Hinc. apply Nat.le_antisymm.
  - apply NoDup_incl_length; [apply NoDup_filter; exact HG|].
    intros x Hx. apply filter_In in Hx. apply mem_In. apply Hx.
  - apply NoDup_incl_length; [exact Hl|].
    intros x Hx. apply filter_In. split; [apply Hinc; exact Hx|apply mem_In; exact Hx].
Qed.

Lemma st_init_R : forall i0 r0 x, N.eqb (st_init i0 r0 x) stR = mem x r0.
Proof.
  intros i0 r0 x. unfold st_init. destruct (in_dec N.eq_dec x r0) as [Hr|Hr].
  - rewrite set_all_in by exact Hr. symmetry. apply mem_In. exact Hr.
  - rewrite set_all_notin by exact Hr. assert (Hm : mem x r0 = false) by (apply mem_false; exact Hr).
    rewrite Hm. destruct (in_dec N.eq_dec x i0) as [Hi|Hi].
    + rewrite set_all_in by exact Hi. reflexivity.
    + rewrite set_all_notin by exact Hi. reflexivity.
Qed.

Lemma st_init_values : forall i0 r0 x,
  st_init i0 r0 x = stS \/ st_init i0 r0 x = stI \/ st_init i0 r0 x = stR.
Proof.
  intros i0 r0 x. unfold st_init. destruct (in_dec N.eq_dec x r0) as [Hr|Hr].
  - right. right. apply set_all_in. exact Hr.
  - rewrite set_all_notin by exact Hr. destruct (in_dec N.eq_dec x i0) as [Hi|Hi].
    + right. left. apply set_all_in. exact Hi.
    + left. apply set_all_notin. exact Hi.
Qed.

Lemma partition3 : forall (st : node -> N) G, (forall x, st x = stS \/ st x = stI \/ st x = stR) ->
  (length G = length (filter (fun u => N.eqb (st u) stS) G) + length (filter (fun u => N.eqb (st u) stI) G)
              + length (filter (fun u => N.eqb (st u) stR) G))%nat.
Proof.
  intros st G H. induction G as [|y G IH]; [reflexivity|]. cbn [filter length].
  destruct (H y) as [E|[E|E]]; rewrite E; cbn; lia.
Qed.

Lemma partition2 : forall (st : node -> N) G, (forall x, st x = stS \/ st x = stI) ->
  (length G = length (filter (fun u => N.eqb (st u) stS) G) + length (filter (fun u => N.eqb (st u) stI) G))%nat.
Proof.
  intros st G H. induction G as [|y G IH]; [reflexivity|]. cbn [filter length].
  destruct (H y) as [E|E]; rewrite E; cbn; lia.
Qed.

Lemma filter_ext_len : forall (f h : node -> bool) G, (forall x, f x = h x) ->
  length (filter f G) = length (filter h G).
Proof. intros f h G H. rewrite (filter_ext f h H). reflexivity. Qed.

Lemma init_ginv : forall i0 r0 el tl,
  NoDup i0 -> NoDup r0 -> incl i0 (gnodes g) -> incl r0 (gnodes g) ->
  (forall y, In y i0 -> ~ In y r0) -> (kind = SIS -> r0 = []) ->
  exists I L : kld, init_sets g (st_init i0 r0) i0 = Ok (I, L) /\
    GInv (mkG (st_init i0 r0) I L
              (match kind with
               | SIR => [(tmin, [order g - Z.of_nat (length i0) - Z.of_nat (length r0); Z.of_nat (length i0); Z.of_nat (length r0)]%Z)]
               | SIS => [(tmin, [order g - Z.of_nat (length i0); Z.of_nat (length i0)]%Z)]
               end) el tl).
Proof.
  intros i0 r0 el tl Hi Hr Hii Hri Hdis Hsis.
  destruct (init_inv g Hg i0 r0 Hi Hdis) as [I [L [He HInv]]].
  exists I, L. split; [exact He|].
  assert (HcI : cntst (st_init i0 r0) stI = Z.of_nat (length i0)).
  { unfold cntst. f_equal. rewrite <- (count_mem i0 (gnodes g) Hi Hnd Hii).
    apply filter_ext_len. intro x. apply st_init_I. exact Hdis. }
  assert (HcR : cntst (st_init i0 r0) stR = Z.of_nat (length r0)).
  { unfold cntst. f_equal. rewrite <- (count_mem r0 (gnodes g) Hr Hnd Hri).
    apply filter_ext_len. intro x. apply st_init_R. }
  assert (HcS : cntst (st_init i0 r0) stS = (order g - Z.of_nat (length i0) - Z.of_nat (length r0))%Z).
  { pose proof (partition3 (st_init i0 r0) (gnodes g) (st_init_values i0 r0)) as Hp.
    unfold order. unfold cntst in *. lia. }
  assert (Hok : stat_ok (st_init i0 r0)).
  { unfold stat_ok. destruct kind eqn:Ek; intro x.
    - apply st_init_values.
    - rewrite (Hsis eq_refl). destruct (st_init_values i0 [] x) as [E|[E|E]]; [left; exact E|right; exact E|].
      exfalso. pose proof (st_init_R i0 [] x) as HR. rewrite E in HR. discriminate HR. }
  assert (Hcen : hd_counts (match kind with
               | SIR => [(tmin, [order g - Z.of_nat (length i0) - Z.of_nat (length r0); Z.of_nat (length i0); Z.of_nat (length r0)]%Z)]
               | SIS => [(tmin, [order g - Z.of_nat (length i0); Z.of_nat (length i0)]%Z)]
               end) = census (st_init i0 r0)).
  { unfold census. destruct kind eqn:Ek; cbn [hd_counts]; rewrite HcS, HcI; [rewrite HcR; reflexivity|].
    rewrite (Hsis eq_refl). cbn [length]. f_equal. lia. }
  constructor; cbn [stat infs links rows].
  - apply HInv.
  - exact Hok.
  - intros u Hu. destruct (in_dec N.eq_dec u r0) as [H1|H1]; [apply Hri; exact H1|].
    destruct (in_dec N.eq_dec u i0) as [H2|H2]; [apply Hii; exact H2|].
    exfalso. apply Hu. unfold st_init. rewrite set_all_notin by exact H1. apply set_all_notin. exact H2.
  - exact Hcen.
  - destruct kind; discriminate.
  - assert (Hone : forall r, traj (rev [r]) <-> traj [r]) by (intro r; reflexivity).
    destruct kind eqn:Ek; apply traj_init; cbn [fst snd]; try reflexivity;
      exists (st_init i0 r0); (split; [exact Hok|]); rewrite <- Hcen; reflexivity.
Qed.

(* ---- reading [traj] ---- *)
Lemma app_snoc_inv : forall (A : Type) (l1 l2 : list A) a b, l1 ++ [a] = l2 ++ [b] -> l1 = l2 /\ a = b.
Proof. intros A l1 l2 a b H. apply app_inj_tail in H. exact H. Qed.

Lemma traj_first : forall l, traj l -> exists r l', l = r :: l' /\ fst r == tmin.
Proof.
  intros l H. induction H as [r Hr Hc|l r1 r2 H IH Hle Hx Hm Hc].
  - exists r, []. split; [reflexivity|exact Hr].
  - destruct IH as [r [l' [E Hr]]]. rewrite E. exists r, (l' ++ [r2]). split; [reflexivity|exact Hr].
Qed.

Lemma traj_census : forall l, traj l -> forall r, In r l -> is_census (snd r).
Proof.
  intros l H. induction H as [r0 Hr Hc|l r1 r2 H IH Hle Hx Hm Hc]; intros r Hin.
  - destruct Hin as [E|[]]. subst r. exact Hc.
  - apply in_app_or in Hin. destruct Hin as [Hin|[E|[]]]; [apply IH; exact Hin|subst r; exact Hc].
Qed.

Lemma traj_adjacent : forall l, traj l -> forall l1 a b l2, l = l1 ++ a :: b :: l2 ->
  fst a <= fst b /\ xlt (fst b) tmax = true /\ move (snd a) (snd b).
Proof.
  intros l H. induction H as [r0 Hr Hc|l r1 r2 H IH Hle Hx Hm Hc]; intros l1 a b l2 E.
  - destruct l1 as [|x [|y l1]]; discriminate E.
  - destruct l2 as [|z0 l2x] eqn:E2.
    + change (l1 ++ [a; b]) with (l1 ++ [a] ++ [b]) in E. rewrite app_assoc in E.
      apply app_snoc_inv in E. destruct E as [E1 Eb]. subst b.
      apply app_snoc_inv in E1. destruct E1 as [_ Ea]. subst a. repeat split; assumption.
    + assert (E3 : z0 :: l2x <> []) by discriminate. destruct (exists_last E3) as [l2' [z Ez]]. rewrite Ez in E.
      change (l1 ++ a :: b :: l2' ++ [z]) with (l1 ++ (a :: b :: l2') ++ [z]) in E.
      rewrite app_assoc in E. apply app_snoc_inv in E. destruct E as [E1 _].
      apply (IH l1 a b l2'). exact E1.
Qed.

Lemma census_counts : forall c, is_census c ->
  Forall (fun x => (0 <= x)%Z) c /\ sumZ c = order g /\ length c = match kind with SIR => 3%nat | SIS => 2%nat end.
Proof.
  intros c [st [Hok E]]. subst c. unfold census, stat_ok in *. destruct kind.
  - split; [repeat (apply Forall_cons; [unfold cntst; lia|]); apply Forall_nil|]. split; [|reflexivity].
    pose proof (partition3 st (gnodes g) Hok) as Hp. unfold sumZ, order, cntst. cbn [fold_right]. lia.
  - split; [repeat (apply Forall_cons; [unfold cntst; lia|]); apply Forall_nil|]. split; [|reflexivity].
    pose proof (partition2 st (gnodes g) Hok) as Hp.
    unfold sumZ, order, cntst. cbn [fold_right]. lia.
Qed.

(* ---- the whole simulator, explicit initial sets ---- *)
Definition r0_list (r0 : option (list node)) : list node :=
  match kind, r0 with SIR, Some l => l | _, _ => [] end.

Definition wf_init (i0 : list node) (r0 : option (list node)) : Prop :=
  NoDup i0 /\ NoDup (r0_list r0) /\ incl i0 (gnodes g) /\ incl (r0_list r0) (gnodes g) /\
  (forall y, In y i0 -> ~ In y (r0_list r0)).

Theorem gillespie_reach : forall i0 r0 fuel, wf_init i0 r0 ->
  (forall out, reach (gillespie g kind tau gamma (Some i0) r0 None tmin tmax full fuel) out ->
     exists s', GInv s' /\ out = finish g kind tmin full s' /\ stopped s') /\
  (forall e, reach_err (gillespie g kind tau gamma (Some i0) r0 None tmin tmax full fuel) e -> e = OutOfFuel).
Proof.
  intros i0 r0 fuel [Hi [Hr [Hii [Hri Hdis]]]].
  assert (Hsis : kind = SIS -> r0_list r0 = []). { intro E. unfold r0_list. rewrite E. reflexivity. }
  unfold gillespie. cbv zeta. fold (r0_list r0). fold (st_init i0 (r0_list r0)).
  destruct (init_ginv i0 (r0_list r0)
              (if full then rev (map (fun u => (tmin, u, stI)) i0 ++ map (fun u => (tmin, u, stR)) (r0_list r0)) else [])
              (if full then rev (map (fun u => (tmin, None, u)) i0) else [])
              Hi Hr Hii Hri Hdis Hsis) as [I [L [He HG]]].
  rewrite He. cbn [lift fst snd].
  apply loop_reach; [exact HG|]. unfold last_time. cbn [rows]. destruct kind; apply Qle_refl.
Qed.

Theorem gillespie_exec_traj : forall i0 r0 fuel ds out tr, wf_init i0 r0 ->
  exec (gillespie g kind tau gamma (Some i0) r0 None tmin tmax full fuel) ds [] = (Ok out, tr) ->
  traj (so_rows out).
Proof.
  intros i0 r0 fuel ds out tr Hwf H. apply exec_reach in H.
  destruct (gillespie_reach i0 r0 fuel Hwf) as [Hr _]. destruct (Hr out H) as [s' [HG [E _]]].
  subst out. unfold finish. cbn [so_rows]. apply (g_traj s' HG).
Qed.

Theorem gillespie_exec_no_crash : forall i0 r0 fuel ds e tr, wf_init i0 r0 ->
  exec (gillespie g kind tau gamma (Some i0) r0 None tmin tmax full fuel) ds [] = (Err e, tr) ->
  e = OutOfDraws \/ e = OutOfFuel.
Proof.
  intros i0 r0 fuel ds e tr Hwf H. apply exec_reach_err in H. destruct H as [H|H]; [left; exact H|right].
  destruct (gillespie_reach i0 r0 fuel Hwf) as [_ He]. apply He. exact H.
Qed.

(* ---- what one event does to the state (for log / output invariants) ---- *)
Definition rec_status : N := match kind with SIR => stR | SIS => stS end.

Inductive effect (t1 : Q) (s s' : gst) : Prop :=
| eff_recover : forall u, stat s u = stI -> In u (gnodes g) ->
    stat s' = fupdN (stat s) u rec_status ->
    rows s' = (match kind with SIR => push_row s t1 0 (-1) 1 | SIS => push_row2 s t1 1 (-1) end) ->
    elog s' = (if full then (t1, u, rec_status) :: elog s else elog s) ->
    tlog s' = tlog s -> effect t1 s s'
| eff_transmit : forall u v, stat s u = stI -> stat s v = stS -> In v (gadj g u) -> In v (gnodes g) ->
    stat s' = fupdN (stat s) v stI ->
    rows s' = (match kind with SIR => push_row s t1 (-1) 1 0 | SIS => push_row2 s t1 (-1) 1 end) ->
    elog s' = (if full then (t1, v, stI) :: elog s else elog s) ->
    tlog s' = (if full then (t1, Some u, v) :: tlog s else tlog s) -> effect t1 s s'.

Lemma event_effect : forall t1 trec ttot s s',
  GInv s -> reach (event_st g kind full t1 trec ttot s) s' -> effect t1 s s'.
Proof.
  intros t1 trec ttot s s' HG H. pose proof (g_inv s HG) as HI. unfold event_st in H.
  inversion H as [| |? ? ? ? Hp Hk|? ? ? ? Hp Hk| | | |]; subst;
    inversion Hk as [| | | | |? ? ? c q ? Hin Hq Hk2| |]; subst; apply kl_cands_in in Hin.
  - destruct (infs_member s c HI Hin) as [u [Ec Hu]]. subst c. cbn [keynode rbind] in Hk2.
    apply reach_liftr in Hk2.
    assert (Hun : In u (gnodes g)). { apply (g_nodes s HG). rewrite Hu. discriminate. }
    destruct kind eqn:Ek.
    + destruct (sir_recover_inv g Hg full t1 u s HI Hu) as [s2 [He [_ [Hst [Hr [Hel Htl]]]]]].
      rewrite He in Hk2. injection Hk2 as E. subst s2.
      apply (eff_recover t1 s s' u); [exact Hu|exact Hun|unfold rec_status; rewrite Ek; exact Hst
        |rewrite Ek; exact Hr|unfold rec_status; rewrite Ek; exact Hel|exact Htl].
    + destruct (sis_recover_inv g Hg full t1 u s HI Hu (stat_ok_sis Ek _ (g_stat s HG)))
        as [s2 [He [_ [Hst [Hr [Hel Htl]]]]]].
      rewrite He in Hk2. injection Hk2 as E. subst s2.
      apply (eff_recover t1 s s' u); [exact Hu|exact Hun|unfold rec_status; rewrite Ek; exact Hst
        |rewrite Ek; exact Hr|unfold rec_status; rewrite Ek; exact Hel|exact Htl].
  - destruct (links_member s c HI Hin) as [u [v [Ec [Hu [Hv Huv]]]]]. subst c.
    cbn [keypair rbind fst snd] in Hk2. apply reach_liftr in Hk2.
    destruct (transmit_inv g Hg kind full t1 u v s HI Hv (fun Ek => stat_ok_sis Ek _ (g_stat s HG)))
      as [s2 [He [_ [Hst [Hr [Hel Htl]]]]]].
    rewrite He in Hk2. injection Hk2 as E. subst s2.
    apply (eff_transmit t1 s s' u v); try assumption. apply (Hadj u v Huv).
Qed.

(* the loop carries any additional invariant that every event preserves *)
Theorem loop_reach_P : forall (P : gst -> Prop),
  (forall t1 s s', GInv s -> P s -> last_time s <= t1 -> xlt t1 tmax = true -> effect t1 s s' -> P s') ->
  forall fuel t s, GInv s -> P s -> last_time s <= t ->
  forall out, reach (loop g kind tau gamma tmin tmax full fuel t s) out ->
    exists s', GInv s' /\ P s' /\ out = finish g kind tmin full s' /\ stopped s'.
Proof.
  intros P HP. induction fuel as [|f IH]; intros t s HG HPs Hlt out H; rewrite loop_eq in H; cbv zeta in H;
    destruct (Qltb 0 (total_rec gamma s + total_tr tau s)) eqn:Epos.
  - inversion H as [|? ? d ? Hr Hd Hk| | | | | |]; subst.
    destruct (negb (is_empty (infs s)) && xlt (t + d) tmax) eqn:Ec; [inversion Hk|].
    inversion Hk; subst. exists s. split; [exact HG|]. split; [exact HPs|]. split; [reflexivity|].
    apply andb_false_iff in Ec. destruct Ec as [Ec|Ec].
    + right. left. apply negb_false_iff. exact Ec.
    + right. right. intro E. rewrite E in Ec. discriminate Ec.
  - inversion H; subst. exists s. split; [exact HG|]. split; [exact HPs|]. split; [reflexivity|].
    left. apply Qltb_false in Epos. intro E. apply (Qlt_irrefl 0). eapply Qlt_le_trans; eassumption.
  - apply Qltb_true in Epos.
    inversion H as [|? ? d ? Hr Hd Hk| | | | | |]; subst.
    destruct (negb (is_empty (infs s)) && xlt (t + d) tmax) eqn:Ec.
    + apply andb_true_iff in Ec. destruct Ec as [_ Hx].
      unfold event in Hk. apply reach_bind in Hk. destruct Hk as [s1 [H1 H2]].
      assert (Hlt1 : last_time s <= t + d).
      { eapply Qle_trans; [exact Hlt|]. rewrite <- (Qplus_0_r t) at 1. apply Qplus_le_r. exact Hd. }
      destruct (event_reach (t + d) (total_rec gamma s) (total_rec gamma s + total_tr tau s) s HG Hlt1 Hx
                  (Qeq_refl _) (Qeq_refl _) Epos) as [Hok _].
      destruct (Hok s1 H1) as [HG1 Hl1].
      pose proof (event_effect _ _ _ s s1 HG H1) as Heff.
      apply (IH (t + d) s1 HG1 (HP (t + d) s s1 HG HPs Hlt1 Hx Heff)); [rewrite Hl1; apply Qle_refl|exact H2].
    + inversion Hk; subst. exists s. split; [exact HG|]. split; [exact HPs|]. split; [reflexivity|].
      apply andb_false_iff in Ec. destruct Ec as [Ec|Ec].
      * right. left. apply negb_false_iff. exact Ec.
      * right. right. intro E. rewrite E in Ec. discriminate Ec.
  - inversion H; subst. exists s. split; [exact HG|]. split; [exact HPs|]. split; [reflexivity|].
    left. apply Qltb_false in Epos. intro E. apply (Qlt_irrefl 0). eapply Qlt_le_trans; eassumption.
Qed.

(* the same for the whole simulator with explicit initial sets *)
Definition init_rows (i0 r0l : list node) : list row :=
  match kind with
  | SIR => [(tmin, [order g - Z.of_nat (length i0) - Z.of_nat (length r0l); Z.of_nat (length i0); Z.of_nat (length r0l)]%Z)]
  | SIS => [(tmin, [order g - Z.of_nat (length i0); Z.of_nat (length i0)]%Z)]
  end.
Definition init_elog (i0 r0l : list node) : list (Q * node * N) :=
  if full then rev (map (fun u => (tmin, u, stI)) i0 ++ map (fun u => (tmin, u, stR)) r0l) else [].
Definition init_tlog (i0 : list node) : list (Q * option node * node) :=
  if full then rev (map (fun u => (tmin, None, u)) i0) else [].

Theorem gillespie_reach_P : forall (P : gst -> Prop) i0 r0 fuel, wf_init i0 r0 ->
  (forall t1 s s', GInv s -> P s -> last_time s <= t1 -> xlt t1 tmax = true -> effect t1 s s' -> P s') ->
  (forall I L, P (mkG (st_init i0 (r0_list r0)) I L (init_rows i0 (r0_list r0)) (init_elog i0 (r0_list r0)) (init_tlog i0))) ->
  forall out, reach (gillespie g kind tau gamma (Some i0) r0 None tmin tmax full fuel) out ->
    exists s', GInv s' /\ P s' /\ out = finish g kind tmin full s' /\ stopped s'.
Proof.
  intros P i0 r0 fuel [Hi [Hr [Hii [Hri Hdis]]]] HP HP0 out H.
  assert (Hsis : kind = SIS -> r0_list r0 = []). { intro E. unfold r0_list. rewrite E. reflexivity. }
  unfold gillespie in H. cbv zeta in H. fold (r0_list r0) in H. fold (st_init i0 (r0_list r0)) in H.
  destruct (init_ginv i0 (r0_list r0) (init_elog i0 (r0_list r0)) (init_tlog i0)
              Hi Hr Hii Hri Hdis Hsis) as [I [L [He HG]]].
  unfold init_elog, init_tlog in HG. rewrite He in H. cbn [lift fst snd] in H.
  eapply (loop_reach_P P HP fuel tmin _ HG); [apply HP0| |exact H].
  unfold last_time. cbn [rows]. destruct kind; apply Qle_refl.
Qed.

(* ---- initial condition as seen in the output (C05) ---- *)
Theorem gillespie_row0 : forall i0 r0 fuel out, wf_init i0 r0 ->
  reach (gillespie g kind tau gamma (Some i0) r0 None tmin tmax full fuel) out ->
  exists rest, so_rows out = init_rows i0 (r0_list r0) ++ rest.
Proof.
  intros i0 r0 fuel out Hwf H.
  destruct (gillespie_reach_P (fun s => exists l, rows s = l ++ init_rows i0 (r0_list r0)) i0 r0 fuel Hwf) with (out := out)
    as [s' [_ [[l Hl] [E _]]]].
  - intros t1 s s' _ [l Hl] _ _ Heff. destruct Heff as [u _ _ _ Hr _ _|u v _ _ _ _ _ Hr _ _];
      rewrite Hr; unfold push_row, push_row2; destruct kind; eexists (_ :: l); rewrite Hl; reflexivity.
  - intros I L. exists []. reflexivity.
  - exact H.
  - subst out. unfold finish. cbn [so_rows]. rewrite Hl, rev_app_distr. exists (rev l).
    unfold init_rows. destruct kind; reflexivity.
Qed.

Lemma gillespie_rho_and_infecteds_rejected : forall i0 r0 rho fuel,
  gillespie g kind tau gamma (Some i0) r0 (Some rho) tmin tmax full fuel = Fail EoNError.
Proof. reflexivity. Qed.

(* what random.sample hands over: distinct nodes of the graph, as many as asked *)
Lemma concat_knode : forall l, concat (map knode l) = l.
Proof. induction l as [|x l IH]; [reflexivity|]. cbn [map concat knode app]. rewrite IH. reflexivity. Qed.

Lemma firstn_map : forall (A B : Type) (f : A -> B) n l, firstn n (map f l) = map f (firstn n l).
Proof. intros A B f n. induction n as [|n IH]; intros [|x l]; cbn; [reflexivity|reflexivity|reflexivity|]. rewrite IH. reflexivity. Qed.
Lemma skipn_map : forall (A B : Type) (f : A -> B) n l, skipn n (map f l) = map f (skipn n l).
Proof. intros A B f n. induction n as [|n IH]; intros [|x l]; cbn; try reflexivity. apply IH. Qed.
Lemma rotate_map : forall (A B : Type) (f : A -> B) n l, rotate n (map f l) = map f (rotate n l).
Proof. intros A B f n l. unfold rotate. rewrite skipn_map, firstn_map, map_app. reflexivity. Qed.

Lemma rotate_perm : forall (A : Type) n (l : list A), Permutation.Permutation (rotate n l) l.
Proof.
  intros A n l. unfold rotate. eapply Permutation.Permutation_trans; [apply Permutation.Permutation_app_comm|].
  rewrite firstn_skipn. apply Permutation.Permutation_refl.
Qed.

Lemma NoDup_firstn : forall (A : Type) n (l : list A), NoDup l -> NoDup (firstn n l).
Proof.
  intros A n. induction n as [|n IH]; intros [|x l] H; cbn; try constructor.
  - apply NoDup_cons_iff in H. destruct H as [Hx H]. intro Hin. apply Hx.
    rewrite <- (firstn_skipn n l). apply in_or_app. left. exact Hin.
  - apply IH. apply NoDup_cons_iff in H. apply H.
Qed.

Lemma sample_wf_gen : forall (L : list node) n i, NoDup L -> (n <= length L)%nat ->
  let i0 := concat (firstn n (rotate i (map knode L))) in
  NoDup i0 /\ incl i0 L /\ length i0 = n.
Proof.
  intros L n i HL Hn. cbv zeta. rewrite rotate_map, firstn_map, concat_knode.
  split; [|split].
  - apply NoDup_firstn. eapply Permutation.Permutation_NoDup; [apply Permutation.Permutation_sym; apply rotate_perm|exact HL].
  - intros x Hx. apply (Permutation.Permutation_in x (rotate_perm _ i L)).
    rewrite <- (firstn_skipn n (rotate i L)). apply in_or_app. left. exact Hx.
  - apply firstn_length_le. rewrite (Permutation.Permutation_length (rotate_perm _ i L)). exact Hn.
Qed.

Lemma sample_wf : forall n i, (n <= length (gnodes g))%nat ->
  let i0 := concat (firstn n (rotate i (map knode (gnodes g)))) in
  NoDup i0 /\ incl i0 (gnodes g) /\ length i0 = n.
Proof. intros n i Hn. exact (sample_wf_gen (gnodes g) n i Hnd Hn). Qed.

Lemma mem_In : forall u l, mem u l = true <-> In u l.
Proof.
  intros u l. unfold mem. rewrite existsb_exists. split.
  - intros [x [Hx E]]. apply N.eqb_eq in E. subst x. exact Hx.
  - intro H. exists u. split; [exact H|apply N.eqb_refl].
Qed.

(* the pool a random start is drawn from: distinct graph nodes, none of them initially recovered *)
Lemma sample_pool_wf : forall r0,
  NoDup (sample_pool g kind r0) /\ incl (sample_pool g kind r0) (gnodes g) /\
  (forall y, In y (sample_pool g kind r0) -> ~ In y (r0_list r0)).
Proof.
  intro r0. unfold sample_pool, r0_list. destruct kind; [destruct r0 as [l|]|].
  - split; [apply NoDup_filter; exact Hnd|]. split.
    + intros x Hx. apply filter_In in Hx. apply Hx.
    + intros y Hy Hin. apply filter_In in Hy. destruct Hy as [_ Hy]. apply negb_true_iff in Hy.
      apply mem_In in Hin. rewrite Hin in Hy. discriminate Hy.
  - split; [exact Hnd|]. split; [apply incl_refl|]. intros y _ [].
  - split; [exact Hnd|]. split; [apply incl_refl|]. intros y _ [].
Qed.

(* rho (or nothing) given: int(round(N*rho)) (or 1) distinct nodes are drawn -- none of them initially recovered --
   and the run is the run from that explicit set *)
Theorem gillespie_rho : forall r0 rho fuel out,
  reach (gillespie g kind tau gamma None r0 rho tmin tmax full fuel) out ->
  let n := match rho with None => 1%Z | Some r => round_half_even (Qnat (length (gnodes g)) * r) end in
  (0 <= n)%Z /\ exists i0, NoDup i0 /\ incl i0 (gnodes g) /\ (forall y, In y i0 -> ~ In y (r0_list r0)) /\
    Z.of_nat (length i0) = n /\
    reach (gillespie g kind tau gamma (Some i0) r0 None tmin tmax full fuel) out.
Proof.
  intros r0 rho fuel out H. cbv zeta.
  assert (Hgen : forall n : Z,
    reach (if (n <? 0)%Z then Fail ValueErr
           else Sample (map knode (sample_pool g kind r0)) (Z.to_nat n) (fun ks =>
                  gillespie g kind tau gamma (Some (concat ks)) r0 None tmin tmax full fuel)) out ->
    (0 <= n)%Z /\ exists i0, NoDup i0 /\ incl i0 (gnodes g) /\ (forall y, In y i0 -> ~ In y (r0_list r0)) /\
      Z.of_nat (length i0) = n /\
      reach (gillespie g kind tau gamma (Some i0) r0 None tmin tmax full fuel) out).
  { intros n Hn. destruct (n <? 0)%Z eqn:En; [inversion Hn|]. apply Z.ltb_ge in En. split; [exact En|].
    inversion Hn as [| | | | | | |? ? ? i ? Hl Hk]; subst. rewrite map_length in Hl.
    destruct (sample_pool_wf r0) as [P1 [P2 P3]].
    pose proof (sample_wf_gen (sample_pool g kind r0) (Z.to_nat n) i P1 Hl) as Hs. cbv zeta in Hs. destruct Hs as [A [B C]].
    exists (concat (firstn (Z.to_nat n) (rotate i (map knode (sample_pool g kind r0))))).
    split; [exact A|]. split; [intros x Hx; apply P2, B, Hx|]. split; [intros y Hy; apply P3, B, Hy|]. split; [|exact Hk].
    apply (f_equal Z.of_nat) in C. rewrite Z2Nat.id in C by exact En. exact C. }
  destruct rho as [r|]; [|apply Hgen; exact H].
  destruct r0 as [l0|]; [|apply Hgen; exact H].
  case_eq kind; intro Ek; rewrite Ek in H, Hgen.
  - unfold gillespie in H. inversion H.
  - apply Hgen. exact H.
Qed.

(* Gillespie_SIR: rho together with initial_recovereds is rejected, as fast_SIR does (repaired in /repo: without the
   guard random.sample could draw an initially recovered node as initially infected) *)
Lemma gillespie_rho_and_recovereds_rejected : forall i0 l0 rho fuel, kind = SIR ->
  gillespie g kind tau gamma i0 (Some l0) (Some rho) tmin tmax full fuel = Fail EoNError.
Proof. intros i0 l0 rho fuel Ek. rewrite Ek. destruct i0; reflexivity. Qed.

End Runs.
