(* Lemmas about Model/EventSIR.v, part 4: the generic Bellman characterisation
   (sound + closed log = shortest-path distances) and the first-passage
   percolation theorem for the final state of fast_nonMarkov_SIR. *)
From EoNV Require Import Prelude Samp Graph EventSIR EventSIRP EventSIRInv EventSIRMain.
Require Import Lqa.

Section Char.
Variable g : graph.
Variable tmax : xtime.
Variable delay : node -> node -> xtime.
Variable dur : node -> xtime.
Variable tmin : Q.
Variables i0 r0 : list node.
Hypothesis Hdelay : forall u v d, In u (gnodes g) -> In v (gadj g u) -> delay u v = Some d -> 0 <= d.

Notation HEDGE := (hedge g delay dur r0).
Notation LT := (ltmax tmax).
Notation SOUND := (sound_log g delay dur tmin i0 r0).
Notation JUST := (justified g delay dur tmin i0 r0).

(* v is reachable from the initially infected set in H (minus R0) by a path of cost c *)
Inductive hpath : node -> Q -> Prop :=
| hp0 : forall v, In v i0 -> hpath v 0
| hpS : forall u v c d, hpath u c -> HEDGE u v d -> hpath v (c + d).

Lemma hedge_nonneg : forall u v d, HEDGE u v d -> 0 <= d.
Proof. apply (EventSIRInv.hedge_nonneg g delay dur r0 Hdelay). Qed.

Lemma hpath_nonneg : forall v c, hpath v c -> 0 <= c.
Proof.
  intros v c H. induction H; [lra|]. apply hedge_nonneg in H0. lra.
Qed.

Definition closed_log (l : tl) : Prop :=
  forall tu su u w d, In (tu, su, u) l -> HEDGE u w d -> LT (tu + d) ->
  exists tw sw, In (tw, sw, w) l /\ tw <= tu + d.
Definition init_log (l : tl) : Prop :=
  forall v, In v i0 -> exists tw sw, In (tw, sw, v) l /\ tw <= tmin.

Lemma sound_just : forall l, SOUND l -> forall t s v, In (t, s, v) l -> JUST l s v t.
Proof.
  induction l as [|[[t0 s0] v0] l IH]; intros Hs t s v Hin; [destruct Hin|].
  simpl in Hs. destruct Hs as [Hj Hs]. apply justified_mono. destruct Hin as [H|Hin].
  - inversion H; subst. exact Hj.
  - apply (IH Hs); auto.
Qed.

Lemma sound_path : forall l, SOUND l -> forall t s v, In (t, s, v) l ->
  exists c, hpath v c /\ t == tmin + c.
Proof.
  induction l as [|[[t0 s0] v0] l IH]; intros Hs t s v Hin; [destruct Hin|].
  simpl in Hs. destruct Hs as [Hj Hs]. destruct Hin as [H|Hin]; [|apply (IH Hs t s v Hin)].
  inversion H; subst. clear H. destruct s as [u|]; simpl in Hj.
  - destruct Hj as [tu [su [d [Hin [Hh Ht]]]]].
    destruct (IH Hs tu su u Hin) as [c [Hp Hc]].
    exists (c + d). split; [eapply hpS; eauto|]. lra.
  - destruct Hj as [Hv Ht]. exists 0. split; [apply hp0; auto|lra].
Qed.

Lemma closed_path : forall l, closed_log l -> init_log l ->
  forall v c, hpath v c -> LT (tmin + c) -> exists t s, In (t, s, v) l /\ t <= tmin + c.
Proof.
  intros l Hc Hi v c Hp. induction Hp as [v Hv|u v c d Hp IH Hh]; intros Hl.
  - destruct (Hi v Hv) as [tw [sw [Hin Hle]]]. exists tw, sw. split; auto. lra.
  - pose proof (hedge_nonneg _ _ _ Hh) as Hd.
    destruct IH as [tu [su [Hin Hle]]]. { eapply ltmax_le; [|exact Hl]. lra. }
    destruct (Hc tu su u v d Hin Hh) as [tw [sw [Hinw Hlew]]].
    { eapply ltmax_le; [|exact Hl]. lra. }
    exists tw, sw. split; auto. lra.
Qed.

Lemma uniq_entry : forall (l : tl) t s t' s' v,
  NoDup (map snd l) -> In (t, s, v) l -> In (t', s', v) l -> t = t' /\ s = s'.
Proof.
  induction l as [|[[t0 s0] v0] l IH]; intros t s t' s' v Hnd H1 H2; [destruct H1|].
  simpl in Hnd. inversion Hnd as [|? ? Hn Hnd']; subst.
  assert (Hno : forall a b, In (a, b, v0) l -> False).
  { intros a b H. apply Hn. apply in_map_iff. exists (a, b, v0). auto. }
  destruct H1 as [H1|H1]; destruct H2 as [H2|H2].
  - inversion H1; inversion H2; subst; auto.
  - inversion H1; subst. exfalso. eapply Hno; eauto.
  - inversion H2; subst. exfalso. eapply Hno; eauto.
  - eapply IH; eauto.
Qed.

Lemma not_lt_ge : forall a, ~ LT a -> exists m, tmax = Some m /\ m <= a.
Proof.
  intros a H. unfold ltmax in H. destruct tmax as [m|]; simpl in H; [|exfalso; auto].
  exists m. split; auto. destruct (Qltb a m) eqn:E; [exfalso; auto|]. apply Qltb_false in E. auto.
Qed.

(* sound + closed  =>  the log is the first-passage percolation from i0 truncated at tmax *)
Theorem bellman_char_log : forall l,
  SOUND l -> closed_log l -> init_log l -> NoDup (map snd l) ->
  (forall t s v, In (t, s, v) l -> LT t) ->
  (forall v, infd l v <-> exists c, hpath v c /\ LT (tmin + c)) /\
  (forall t s v, In (t, s, v) l ->
     (exists c, hpath v c /\ t == tmin + c) /\ (forall c', hpath v c' -> t <= tmin + c')) /\
  (forall t u v, In (t, Some u, v) l ->
     exists tu su d, In (tu, su, u) l /\ HEDGE u v d /\ t == tu + d).
Proof.
  intros l Hs Hc Hi Hnd Hlt. split; [|split].
  - intros v. split.
    + intros [t [s Hin]]. destruct (sound_path l Hs t s v Hin) as [c [Hp Ht]].
      exists c. split; auto. unfold ltmax. rewrite <- (xltb_proper t (tmin + c)); auto. apply (Hlt t s v Hin).
    + intros [c [Hp Hl]]. destruct (closed_path l Hc Hi v c Hp Hl) as [t [s [Hin _]]]. exists t, s. auto.
  - intros t s v Hin. split; [apply (sound_path l Hs t s v Hin)|].
    intros c' Hp'. destruct (xltb (Some (tmin + c')) tmax) eqn:E.
    + destruct (closed_path l Hc Hi v c' Hp' E) as [t' [s' [Hin' Hle]]].
      destruct (uniq_entry l t s t' s' v Hnd Hin Hin') as [-> _]. exact Hle.
    + assert (Hn : ~ LT (tmin + c')) by (unfold ltmax; rewrite E; discriminate).
      destruct (not_lt_ge _ Hn) as [m [Hm Hle]].
      pose proof (Hlt t s v Hin) as Hl. unfold ltmax in Hl. rewrite Hm in Hl. apply xltb_SS in Hl. lra.
  - intros t u v Hin. apply (sound_just l Hs t (Some u) v Hin).
Qed.

End Char.

(* ================================================================== *)
Section Final.
Variable tb : tiepolicy.
Variable g : graph.
Variable tmax : xtime.
Variable delay : node -> node -> xtime.
Variable dur : node -> xtime.
Variable tmin : Q.
Variables i0 r0 : list node.

Hypothesis Hdelay : forall u v d, In u (gnodes g) -> In v (gadj g u) -> delay u v = Some d -> 0 <= d.
Hypothesis Hdur : forall u d, In u (gnodes g) -> dur u = Some d -> 0 <= d.
Hypothesis Hadj : forall u, In u (gnodes g) -> NoDup (gadj g u).
Hypothesis Hdisj : forall u, In u i0 -> ~ In u r0.
Hypothesis Htmin : ltmax tmax tmin.
Hypothesis Hgn : NoDup (gnodes g).
Hypothesis Hi0g : forall u, In u i0 -> In u (gnodes g).
Hypothesis Hadjg : forall u v, In u (gnodes g) -> In v (gadj g u) -> In v (gnodes g).

Notation INV := (Inv g tmax delay dur tmin i0 r0).
Notation HEDGE := (hedge g delay dur r0).
Notation LT := (ltmax tmax).
Notation HPATH := (hpath g delay dur i0 r0).

(* what the invariant says once the queue is empty *)
Lemma final_closed : forall c s, INV c s -> qu s = [] -> closed_log g tmax delay dur r0 (tlog s).
Proof.
  intros c s HI Hq tu su u w d Hin Hh Hl.
  destruct (i_j4 _ _ _ _ _ _ _ _ _ HI tu su u w d Hin Hh Hl) as [H|[HwS [p [Hp Hle]]]]; [exact H|].
  destruct (i_j3 _ _ _ _ _ _ _ _ _ HI w p HwS Hp) as [x [sr [Hx _]]].
  { eapply ltmax_le; eauto. }
  rewrite Hq in Hx. destruct Hx.
Qed.

Lemma final_init : forall c s, INV c s -> qu s = [] -> init_log tmin i0 (tlog s).
Proof.
  intros c s HI Hq v Hv.
  destruct (i_init _ _ _ _ _ _ _ _ _ HI v Hv) as [H|[HwS [p [Hp Hle]]]]; [exact H|].
  destruct (i_j3 _ _ _ _ _ _ _ _ _ HI v p HwS Hp) as [x [sr [Hx _]]].
  { eapply ltmax_le; eauto. }
  rewrite Hq in Hx. destruct Hx.
Qed.

(* the statement of C11 for the final state [sF] of the run *)
Definition percolation_spec (sF : est) : Prop :=
  (* who is infected: exactly the nodes within distance < tmax - tmin, initially recovered ones excepted *)
  (forall v, ~ In v r0 -> (stat sF v <> stS <-> exists c, HPATH v c /\ LT (tmin + c))) /\
  (forall v, In v r0 -> stat sF v = stR /\ ~ infd (tlog sF) v) /\
  (forall v, stat sF v <> stS -> ~ In v r0 -> infd (tlog sF) v) /\
  (* when: tmin + the least cost of a path; reported strictly before tmax *)
  (forall t s v, In (t, s, v) (tlog sF) ->
     LT t /\ (exists c, HPATH v c /\ t == tmin + c) /\ (forall c', HPATH v c' -> t <= tmin + c')) /\
  (* by whom: the initial nodes by nobody at tmin; any other by a predecessor on a shortest path *)
  (forall t v, In (t, None, v) (tlog sF) -> In v i0 /\ t == tmin) /\
  (forall t u v, In (t, Some u, v) (tlog sF) ->
     exists tu su d, In (tu, su, u) (tlog sF) /\ HEDGE u v d /\ t == tu + d) /\
  (* recovery: duration(v) later, reported iff before tmax *)
  (forall t s v, In (t, s, v) (tlog sF) ->
     rect sF v = Some (xadd t (dur v)) /\
     (stat sF v = stI \/ stat sF v = stR) /\
     (stat sF v = stR <-> exists r, xadd t (dur v) = Some r /\ LT r)) /\
  (* every node is infected at most once *)
  NoDup (map snd (tlog sF)).

Lemma final_spec : forall c sF, INV c sF -> qu sF = [] -> percolation_spec sF.
Proof.
  intros c sF HI Hq.
  pose proof (final_closed c sF HI Hq) as Hcl.
  pose proof (final_init c sF HI Hq) as Hin.
  assert (Hlt : forall t s v, In (t, s, v) (tlog sF) -> LT t).
  { intros t s v H. apply (i_ltime _ _ _ _ _ _ _ _ _ HI t s v H). }
  destruct (bellman_char_log g tmax delay dur tmin i0 r0 Hdelay (tlog sF)
              (i_sound _ _ _ _ _ _ _ _ _ HI) Hcl Hin (i_nodup _ _ _ _ _ _ _ _ _ HI) Hlt) as [B1 [B2 B3]].
  unfold percolation_spec.
  assert (Hnr : forall t s v, In (t, s, v) (tlog sF) -> ~ In v r0).
  { intros t s v H Hr. destruct (i_r0 _ _ _ _ _ _ _ _ _ HI v Hr) as [_ Hn]. apply Hn. exists t, s. auto. }
  assert (Hns : forall t s v, In (t, s, v) (tlog sF) -> stat sF v <> stS).
  { intros t s v H. apply (i_stat _ _ _ _ _ _ _ _ _ HI v (Hnr t s v H)). exists t, s. auto. }
  split. { intros v Hv. etransitivity; [apply (i_stat _ _ _ _ _ _ _ _ _ HI v Hv)|apply B1]. }
  split. { intros v Hv. apply (i_r0 _ _ _ _ _ _ _ _ _ HI v Hv). }
  split. { intros v Hv Hr. apply (i_stat _ _ _ _ _ _ _ _ _ HI v Hr). exact Hv. }
  split. { intros t s v H. split; [eapply Hlt; eauto|apply (B2 t s v H)]. }
  split.
  { intros t v H.
    pose proof (sound_just g delay dur tmin i0 r0 _ (i_sound _ _ _ _ _ _ _ _ _ HI) t None v H) as Hj.
    simpl in Hj. exact Hj. }
  split. { exact B3. }
  split; [|apply (i_nodup _ _ _ _ _ _ _ _ _ HI)].
  intros t s v H. split; [apply (i_rect _ _ _ _ _ _ _ _ _ HI t s v H)|].
  assert (HIR : stat sF v = stI \/ stat sF v = stR).
  { destruct (i_stat3 _ _ _ _ _ _ _ _ _ HI v) as [H1|H1]; [exfalso; eapply Hns; eauto|exact H1]. }
  split; [exact HIR|]. split.
  - intros HR.
    destruct (i_recd _ _ _ _ _ _ _ _ _ HI v HR (Hnr t s v H)) as [t1 [s1 [r [H1 [H2 [H3 _]]]]]].
    destruct (uniq_entry _ t s t1 s1 v (i_nodup _ _ _ _ _ _ _ _ _ HI) H H1) as [-> _].
    exists r. auto.
  - intros [r [Hr Hl]]. destruct HIR as [H1|H1]; [|exact H1].
    destruct (i_recq _ _ _ _ _ _ _ _ _ HI t s v r H H1 Hr Hl) as [x [Hx _]].
    rewrite Hq in Hx. destruct Hx.
Qed.

(* fast_nonMarkov_SIR = first-passage percolation: for EVERY tie policy the run
   ends within the fuel and its final state satisfies the specification *)
Theorem esir_percolation : forall fuel, (esir_fuel g i0 <= fuel)%nat ->
  exists sF, esir_run tb g delay dur i0 r0 tmin tmax fuel = Ok sF /\
             qu sF = [] /\ percolation_spec sF.
Proof.
  intros fuel Hf.
  destruct (esir_terminates tb g tmax delay dur tmin i0 r0 Hdelay Hdur Hadj Hdisj Htmin Hgn Hi0g Hadjg fuel Hf)
    as [sF [cF [Hrun [Hq [HI _]]]]].
  exists sF. split; auto. split; auto. eapply final_spec; eauto.
Qed.

(* soundness and closedness on their own (DESIGN C11: esir_sound, esir_closed) *)
Theorem esir_sound_closed : forall fuel, (esir_fuel g i0 <= fuel)%nat ->
  exists sF, esir_run tb g delay dur i0 r0 tmin tmax fuel = Ok sF /\
    sound_log g delay dur tmin i0 r0 (tlog sF) /\
    closed_log g tmax delay dur r0 (tlog sF) /\
    init_log tmin i0 (tlog sF) /\
    (forall e, ~ In e (qu sF)).
Proof.
  intros fuel Hf.
  destruct (esir_terminates tb g tmax delay dur tmin i0 r0 Hdelay Hdur Hadj Hdisj Htmin Hgn Hi0g Hadjg fuel Hf)
    as [sF [cF [Hrun [Hq [HI _]]]]].
  exists sF. split; auto. split; [apply (i_sound _ _ _ _ _ _ _ _ _ HI)|].
  split; [eapply final_closed; eauto|]. split; [eapply final_init; eauto|].
  rewrite Hq. intros e [].
Qed.

End Final.

(* ---------------- tie independence ---------------- *)
Section Ties.
Variables tb1 tb2 : tiepolicy.
Variable g : graph.
Variable tmax : xtime.
Variable delay : node -> node -> xtime.
Variable dur : node -> xtime.
Variable tmin : Q.
Variables i0 r0 : list node.
Hypothesis Hdelay : forall u v d, In u (gnodes g) -> In v (gadj g u) -> delay u v = Some d -> 0 <= d.

Notation SPEC := (percolation_spec g tmax delay dur tmin i0 r0).

(* two runs that both satisfy the specification (e.g. under different tie policies)
   infect the same nodes at the same times and leave every node in the same status *)
Theorem spec_unique : forall s1 s2, SPEC s1 -> SPEC s2 ->
  (forall v t1 a1 t2 a2, In (t1, a1, v) (tlog s1) -> In (t2, a2, v) (tlog s2) -> t1 == t2) /\
  (forall v, stat s1 v = stS <-> stat s2 v = stS) /\
  (forall v, stat s1 v = stR <-> stat s2 v = stR).
Proof.
  intros s1 s2 SP1 SP2.
  pose proof SP1 as [A1 [A2 [A3 [A4 [A5 [A6 [A7 A8]]]]]]].
  pose proof SP2 as [B1 [B2 [B3 [B4 [B5 [B6 [B7 B8]]]]]]].
  assert (T : forall v t1 a1 t2 a2, In (t1, a1, v) (tlog s1) -> In (t2, a2, v) (tlog s2) -> t1 == t2).
  { intros v t1 a1 t2 a2 H1 H2.
    destruct (A4 t1 a1 v H1) as [_ [[c1 [P1 E1]] M1]].
    destruct (B4 t2 a2 v H2) as [_ [[c2 [P2 E2]] M2]].
    pose proof (M1 c2 P2). pose proof (M2 c1 P1). lra. }
  assert (S12 : forall v, stat s1 v = stS <-> stat s2 v = stS).
  { intros v. destruct (in_dec N.eq_dec v r0) as [Hr|Hr].
    - destruct (A2 v Hr) as [E1 _]. destruct (B2 v Hr) as [E2 _]. rewrite E1, E2. tauto.
    - pose proof (A1 v Hr) as Ha. pose proof (B1 v Hr) as Hb.
      destruct (N.eq_dec (stat s1 v) stS); destruct (N.eq_dec (stat s2 v) stS); tauto. }
  split; [exact T|]. split; [exact S12|].
  assert (HR : forall sa sb, SPEC sa -> SPEC sb ->
              (forall v ta aa tb0 ab, In (ta, aa, v) (tlog sa) -> In (tb0, ab, v) (tlog sb) -> ta == tb0) ->
              (forall v, stat sa v = stS <-> stat sb v = stS) ->
              forall v, stat sa v = stR -> stat sb v = stR).
  { intros sa sb [C1 [C2 [C3 [C4 [C5 [C6 [C7 C8]]]]]]] [D1 [D2 [D3 [D4 [D5 [D6 [D7 D8]]]]]]] TT SS v Hv.
    destruct (in_dec N.eq_dec v r0) as [Hr|Hr]; [apply (D2 v Hr)|].
    assert (Ha : stat sa v <> stS) by (rewrite Hv; discriminate).
    destruct (C3 v Ha Hr) as [ta [aa Hina]].
    assert (Hb : stat sb v <> stS) by (intros H; apply Ha; apply SS; exact H).
    destruct (D3 v Hb Hr) as [tb0 [ab Hinb]].
    destruct (C7 ta aa v Hina) as [_ [_ Hra]]. destruct (D7 tb0 ab v Hinb) as [_ [_ Hrb]].
    apply Hrb. apply Hra in Hv. destruct Hv as [r [Hx Hl]].
    pose proof (TT v ta aa tb0 ab Hina Hinb) as Heq.
    destruct (dur v) as [dv|]; simpl in *; [|discriminate].
    inversion Hx; subst. exists (tb0 + dv). split; auto.
    unfold ltmax in *. rewrite <- (xltb_proper (ta + dv) (tb0 + dv)); auto. lra. }
  intros v. split.
  - apply (HR s1 s2 SP1 SP2 T S12).
  - apply (HR s2 s1 SP2 SP1).
    + intros w ta aa tb0 ab H1 H2. symmetry. eapply T; eauto.
    + intros w. symmetry. apply S12.
Qed.

End Ties.
